package recovery

import (
	"math/rand"
	"testing"

	"github.com/centrifugal/protocol"
)

// C39 driver: random pairs of publication lists through the real MergePublications.

type c39Pub struct {
	Off  uint64 `json:"off"`
	Filt bool   `json:"filt"`
	ID   uint64 `json:"id"`
}

func c39Coq(ps []c39Pub) string {
	xs := make([]string, len(ps))
	for i, p := range ps {
		xs[i] = vApp("mkPub", vN(p.Off), vBool(p.Filt), vN(p.ID))
	}
	return vList(xs)
}

func c39ToProto(ps []c39Pub) []*protocol.Publication {
	if ps == nil {
		return nil
	}
	out := make([]*protocol.Publication, 0, len(ps))
	for _, p := range ps {
		pub := &protocol.Publication{Offset: p.Off, Data: []byte{byte(p.ID), byte(p.ID >> 8), byte(p.ID >> 16)}}
		if p.Filt {
			pub.Time = -1
		} else if p.ID%3 == 0 {
			pub.Time = int64(p.ID) + 1
		}
		out = append(out, pub)
	}
	return out
}

func c39FromProto(ps []*protocol.Publication) []c39Pub {
	out := make([]c39Pub, 0, len(ps))
	for _, p := range ps {
		var id uint64
		if len(p.Data) == 3 {
			id = uint64(p.Data[0]) | uint64(p.Data[1])<<8 | uint64(p.Data[2])<<16
		}
		out = append(out, c39Pub{Off: p.Offset, Filt: p.Time == -1, ID: id})
	}
	return out
}

func c39Gen(r *rand.Rand, nextID *uint64, shape int) []c39Pub {
	var n int
	switch r.Intn(6) {
	case 0:
		n = 0
	case 1:
		n = 1
	default:
		n = r.Intn(9)
	}
	base := uint64(r.Intn(5))
	if shape == 3 && r.Intn(4) == 0 {
		base = ^uint64(0) - uint64(r.Intn(12)) - 8 // near MaxUint64 (but no wrap inside the window)
	}
	width := uint64(1 + r.Intn(10))
	ps := make([]c39Pub, 0, n)
	cur := base
	for k := 0; k < n; k++ {
		var off uint64
		switch shape {
		case 0: // mostly consecutive ascending (what brokers return)
			cur += 1
			if r.Intn(8) == 0 {
				cur += uint64(r.Intn(3))
			}
			off = cur
		default: // arbitrary inside a window: duplicates, unsorted
			off = base + uint64(r.Int63n(int64(width)))
		}
		*nextID++
		ps = append(ps, c39Pub{Off: off, Filt: r.Intn(5) == 0, ID: *nextID})
	}
	return ps
}

func TestVerifC39(t *testing.T) {
	w := verifOpen(t, "C39")
	defer w.Close()
	corpus := [][2][]c39Pub{
		{nil, nil},
		{{{1, false, 1}}, nil},
		{nil, {{1, false, 1}}},
		{{{1, false, 1}, {2, true, 2}}, {{3, false, 3}, {1, false, 4}}},
		{{{1, false, 1}}, {{4, false, 2}, {2, true, 3}}},
		{{{1, false, 1}, {3, false, 2}}, nil},                  // gap but no buffered: ok
		{{{1, false, 1}}, {{3, false, 2}, {2, true, 3}}},       // hole covered by placeholder
		{{{2, true, 1}}, {{1, false, 2}, {3, false, 3}}},       // placeholder in recovered
		{{{5, false, 1}, {5, false, 2}}, {{5, true, 3}}},       // same offset real + placeholder
		{{{1, false, 1}}, {{5, false, 2}, {2, true, 3}, {3, true, 4}, {4, true, 5}}},
		{{{1, false, 1}}, {{5, false, 2}, {2, true, 3}, {4, true, 5}}}, // partially covered
		{{{3, true, 1}}, {{9, true, 2}}},                       // only placeholders
	}
	for i := 0; i < w.N; i++ {
		if !w.Want(i) {
			continue
		}
		r := w.Rand(i)
		var rec, buf []c39Pub
		class := "corpus"
		if i < len(corpus) {
			rec, buf = corpus[i][0], corpus[i][1]
		} else {
			var id uint64
			shape := r.Intn(4)
			rec = c39Gen(r, &id, shape)
			buf = c39Gen(r, &id, shape)
			if shape == 0 && len(rec) > 0 && len(buf) > 0 && r.Intn(2) == 0 {
				// realistic: buffered continues after (or overlapping) recovered
				shift := rec[len(rec)-1].Off
				if d := uint64(r.Intn(3)); shift >= d {
					shift -= d
				}
				for k := range buf {
					buf[k].Off = shift + uint64(k) + uint64(r.Intn(2))
				}
			}
			class = [...]string{"ascending", "window", "window", "window-hi"}[shape]
		}
		out, maxo, ok := MergePublications(c39ToProto(rec), c39ToProto(buf))
		obs := c39FromProto(out)
		dup := false
		seen := map[uint64]bool{}
		for _, p := range append(append([]c39Pub{}, rec...), buf...) {
			if seen[p.Off] || p.Filt {
				dup = true
			}
			seen[p.Off] = true
		}
		nontrivial := len(rec) > 0 && len(buf) > 0 && dup
		if !ok {
			class += "/gap"
		} else if len(buf) == 0 {
			class += "/nobuf"
		} else {
			class += "/ok"
		}
		term := vApp("mkCase", c39Coq(rec), c39Coq(buf), c39Coq(obs), vN(maxo), vBool(ok))
		w.Case(i, term, map[string]any{"rec": rec, "buf": buf, "out": obs, "max": maxo, "ok": ok}, class, nontrivial)
	}
}
