package dissolve

// C40 driver: the real Dissolver with scripted jobs. Every job blocks on entry (after reporting that
// it started) until the driver lets it return nil or an error, so the driver decides the interleaving
// of Submit / job outcomes / Close; the event log is replayed on the Coq model.

import (
	"context"
	"errors"
	"fmt"
	"math/rand"
	"sync/atomic"
	"testing"
	"time"
)

type c40Notif struct {
	id    uint64
	after bool
}

type c40Ev struct {
	K     string `json:"k"`
	ID    uint64 `json:"id,omitempty"`
	OK    bool   `json:"ok,omitempty"`
	After bool   `json:"after,omitempty"`
}

type c40Run struct {
	d       *Dissolver
	nw      int
	notif   chan c40Notif
	rel     map[uint64]chan int // 0 = return nil, k > 0 = return an error of kind k
	fails   map[uint64]int
	running map[uint64]bool
	queued  int
	closed  bool
	flag    atomic.Bool
	evs     []c40Ev
	coq     []string
	timeout bool
	retries int
	r       *rand.Rand
	errKinds map[string]int
	starts  int
}

func (c *c40Run) log(e c40Ev, term string) {
	c.evs = append(c.evs, e)
	c.coq = append(c.coq, term)
}

// the property is "executed until it returns success" for ANY error value
type c40CustomErr struct{ code int }

func (e *c40CustomErr) Error() string { return "c40 custom error " + fmt.Sprint(e.code) }

var c40ErrNames = []string{"", "plain", "wrapped-plain", "context.Canceled", "context.DeadlineExceeded",
	"wrapped-canceled", "wrapped-deadline", "custom-type", "joined-with-deadline"}

func c40Err(kind int) error {
	switch kind {
	case 1:
		return errors.New("c40 scripted failure")
	case 2:
		return fmt.Errorf("c40 wrap: %w", errors.New("inner"))
	case 3:
		return context.Canceled
	case 4:
		return context.DeadlineExceeded
	case 5:
		return fmt.Errorf("broker unsubscribe: %w", context.Canceled)
	case 6:
		return fmt.Errorf("broker unsubscribe: %w", context.DeadlineExceeded)
	case 7:
		return &c40CustomErr{code: 7}
	default:
		return errors.Join(errors.New("c40 joined"), context.DeadlineExceeded)
	}
}

func (c *c40Run) job(id uint64) Job {
	ch := make(chan int)
	c.rel[id] = ch
	return func() error {
		c.notif <- c40Notif{id: id, after: c.flag.Load()}
		if k := <-ch; k != 0 {
			return c40Err(k)
		}
		return nil
	}
}

func (c *c40Run) settle() {
	for !c.closed && !c.timeout {
		target := len(c.running) + c.queued
		if target > c.nw {
			target = c.nw
		}
		if len(c.running) >= target {
			return
		}
		select {
		case n := <-c.notif:
			c.started(n)
		case <-time.After(2 * time.Second):
			c.timeout = true
		}
	}
}

func (c *c40Run) started(n c40Notif) {
	c.running[n.id] = true
	c.starts++
	if !c.closed {
		c.queued--
	}
	c.log(c40Ev{K: "start", ID: n.id, After: n.after}, vApp("DvStart", vN(n.id), vBool(n.after)))
}

func (c *c40Run) submit(id uint64, nfail int) {
	c.fails[id] = nfail
	var err error
	panicked := false
	func() {
		defer func() {
			if e := recover(); e != nil {
				panicked = true
			}
		}()
		err = c.d.Submit(c.job(id))
	}()
	if panicked {
		c.log(c40Ev{K: "panic", ID: id}, "DvPanic")
		c.timeout = true // stop this case
		return
	}
	ok := err == nil
	c.log(c40Ev{K: "submit", ID: id, OK: ok}, vApp("DvSubmit", vN(id), vBool(ok)))
	if ok {
		c.queued++
	}
	c.settle()
}

func (c *c40Run) finish(id uint64) {
	ok := c.fails[id] == 0
	if !ok {
		c.fails[id]--
		c.retries++
	}
	c.log(c40Ev{K: "finish", ID: id, OK: ok}, vApp("DvFinish", vN(id), vBool(ok)))
	delete(c.running, id)
	if !ok && !c.closed {
		c.queued++
	}
	kind := 0
	if !ok {
		kind = 1 + c.r.Intn(len(c40ErrNames)-1)
		if c.errKinds != nil {
			c.errKinds[c40ErrNames[kind]]++
		}
	}
	c.rel[id] <- kind
	c.settle()
}

func (c *c40Run) close() {
	_ = c.d.Close()
	c.flag.Store(true)
	c.closed = true
	c.queued = 0
	c.log(c40Ev{K: "close"}, "DvClose")
	// a job handed to a worker just before Close may still start (never in this driver's regime,
	// where workers are either inside a job or asleep): give such a start a moment to show up
	select {
	case n := <-c.notif:
		c.started(n)
	case <-time.After(200 * time.Microsecond):
	}
}

func (c *c40Run) anyRunning(r *rand.Rand) (uint64, bool) {
	if len(c.running) == 0 {
		return 0, false
	}
	ids := make([]uint64, 0, len(c.running))
	for id := range c.running {
		ids = append(ids, id)
	}
	// map order is random: pick deterministically
	min := ids[0]
	for _, id := range ids {
		if id < min {
			min = id
		}
	}
	k := r.Intn(len(ids))
	// k-th smallest
	for i := 0; i < len(ids); i++ {
		for j := i + 1; j < len(ids); j++ {
			if ids[j] < ids[i] {
				ids[i], ids[j] = ids[j], ids[i]
			}
		}
	}
	return ids[k], true
}

func c40Case(r *rand.Rand, errKinds map[string]int) (*c40Run, bool) {
	c := &c40Run{nw: 1 + r.Intn(3), notif: make(chan c40Notif, 64), rel: map[uint64]chan int{}, r: r,
		fails: map[uint64]int{}, running: map[uint64]bool{}, errKinds: errKinds}
	c.d = New(c.nw)
	_ = c.d.Run()
	var next uint64
	willClose := r.Intn(3) == 0
	steps := 4 + r.Intn(16)
	for s := 0; s < steps && !c.timeout; s++ {
		x := r.Intn(100)
		switch {
		case x < 50:
			next++
			c.submit(next, []int{0, 0, 0, 1, 1, 2, 3}[r.Intn(7)])
		case x < 90:
			if id, ok := c.anyRunning(r); ok {
				c.finish(id)
			}
		case willClose && !c.closed:
			c.close()
		}
	}
	// run to rest
	for i := 0; i < 400 && !c.timeout; i++ {
		id, ok := c.anyRunning(r)
		if !ok {
			break
		}
		c.finish(id)
	}
	// at rest: nothing runs and nothing is expected to start -- or the driver waited 2 s (workers need
	// microseconds) for a start that never came
	drained := c.timeout || (len(c.running) == 0 && (c.closed || c.queued == 0))
	if !c.closed {
		_ = c.d.Close() // stop the workers of this case (not part of the log)
	}
	return c, drained
}

// c40Race measures how often the real code starts a job after Close() has returned (the window between
// queue.Remove returning a job and the call of job()). Informational: reported in the evidence extras.
func c40Race(trials int) (late int64, runs int64) {
	var sink int64
	for t := 0; t < trials; t++ {
		d := New(2)
		_ = d.Run()
		time.Sleep(20 * time.Microsecond) // let the workers park in cond.Wait
		var flag atomic.Bool
		for k := 0; k < 2; k++ {
			_ = d.Submit(func() error {
				atomic.AddInt64(&runs, 1)
				if flag.Load() {
					atomic.AddInt64(&late, 1)
				}
				return nil
			})
		}
		start := time.Now() // vary the distance between Submit and Close: 0 .. 25 microseconds
		for time.Since(start) < time.Duration(t%50)*500*time.Nanosecond {
			atomic.AddInt64(&sink, 1)
		}
		_ = d.Close()
		flag.Store(true)
	}
	time.Sleep(2 * time.Millisecond)
	return atomic.LoadInt64(&late), atomic.LoadInt64(&runs)
}

func TestVerifC40(t *testing.T) {
	w := verifOpen(t, "C40")
	defer w.Close()
	timeouts, lateSeen := 0, 0
	errKinds := map[string]int{}
	for i := 0; i < w.N; i++ {
		if !w.Want(i) {
			continue
		}
		if timeouts > 5 { // something is badly wrong (jobs never start): do not spend hours waiting
			w.Extra["aborted_after_timeouts"] = true
			break
		}
		r := w.Rand(i)
		c, drained := c40Case(r, errKinds)
		term := vApp("mkCase", vNat(c.nw), vList(c.coq), vBool(drained))
		class := "open"
		if c.closed {
			class = "closed"
		}
		if c.timeout {
			class += "/driver-timeout"
			timeouts++
		}
		for _, e := range c.evs {
			if e.K == "start" && e.After {
				lateSeen++
			}
		}
		nontrivial := c.starts >= 3 && (c.retries > 0 || c.closed)
		w.Case(i, term, map[string]any{"workers": c.nw, "events": c.evs, "drained": drained, "timeout": c.timeout}, class, nontrivial)
	}
	w.Extra["driver_timeouts"] = timeouts
	w.Extra["failure_error_kinds"] = errKinds
	w.Extra["late_starts_in_controlled_runs"] = lateSeen
	if w.only < 0 {
		late, runs := c40Race(3000)
		w.Extra["race_trials"] = 3000
		w.Extra["race_jobs_run"] = runs
		w.Extra["race_jobs_started_after_Close_returned"] = late
	}
}
