package websocket

// C29 driver: the peer's whole byte stream is fed to a real Conn (in-memory net.Conn), ReadMessage is
// called until the first error, control frames written back are captured.  An independent frame
// walker (c29Walk, a port of Model/WsReadSpec.v that Coq re-checks on every case) classifies the
// stream and supplies compress/flate results for the compressed messages.

import (
	"bufio"
	"bytes"
	"compress/flate"
	"encoding/hex"
	"errors"
	"fmt"
	"io"
	"math/rand"
	"net"
	"net/http"
	"strings"
	"testing"
	"time"
	"unicode/utf8"
)

// ---------------------------------------------------------------- plumbing

type c29Conn struct {
	in  bytes.Buffer
	out bytes.Buffer
}

func (c *c29Conn) Read(p []byte) (int, error) {
	if c.in.Len() == 0 {
		return 0, io.EOF
	}
	return c.in.Read(p)
}
func (c *c29Conn) Write(p []byte) (int, error)      { return c.out.Write(p) }
func (c *c29Conn) Close() error                     { return nil }
func (c *c29Conn) LocalAddr() net.Addr              { return nil }
func (c *c29Conn) RemoteAddr() net.Addr             { return nil }
func (c *c29Conn) SetDeadline(time.Time) error      { return nil }
func (c *c29Conn) SetReadDeadline(time.Time) error  { return nil }
func (c *c29Conn) SetWriteDeadline(time.Time) error { return nil }

// c29RW is a minimal http.ResponseWriter for the HTTP/2 (extended CONNECT) upgrade path.
type c29RW struct {
	hdr    http.Header
	status int
}

func (w *c29RW) Header() http.Header             { return w.hdr }
func (w *c29RW) WriteHeader(s int)               { w.status = s }
func (w *c29RW) Write(p []byte) (int, error)     { return len(p), nil }
func (w *c29RW) Flush()                          {}
func (w *c29RW) SetReadDeadline(time.Time) error { return nil }
func (w *c29RW) SetWriteDeadline(time.Time) error { return nil }

// c29H2BufSize returns the size of the bufio.Reader that Upgrader.upgradeH2 gives to the Conn.
func c29H2BufSize(t *testing.T) int {
	rw := &c29RW{hdr: http.Header{}}
	req := &http.Request{Method: http.MethodConnect, ProtoMajor: 2, Proto: "HTTP/2.0", Host: "example.com",
		Header: http.Header{":protocol": {"websocket"}, "Sec-Websocket-Version": {"13"}}, Body: io.NopCloser(strings.NewReader(""))}
	up := &Upgrader{CheckOrigin: func(*http.Request) bool { return true }}
	c, _, err := up.Upgrade(rw, req, nil)
	if err != nil || c == nil {
		t.Fatalf("HTTP/2 upgrade failed: %v", err)
	}
	return c.br.Size()
}

type c29Cfg struct {
	Server   bool  `json:"server"`
	Compress bool  `json:"compress"`
	Limit    int64 `json:"limit"`
	DLimit   int64 `json:"dlimit"`
	RBuf     int   `json:"rbuf"`                  // effective size of c.br (what the model is given)
	RBufCfg  int   `json:"read_buffer_configured"` // >= 0: ReadBufferSize handed to newConn (0 = default); -1: a bufio.Reader of size RBuf is handed in (upgradeH2 style)
	Close1   bool  `json:"close1_strict"`
}

func (c c29Cfg) coq(avail string) string {
	return vApp("mkRcfg", vBool(c.Server), vBool(c.Compress), vN(uint64(c.Limit)), vN(uint64(c.DLimit)), vN(uint64(c.RBuf)), vBool(c.Close1), avail)
}

type c29Ev struct {
	Kind string `json:"k"` // msg | wrote | err
	Op   int    `json:"op,omitempty"`
	Data []byte `json:"d,omitempty"`
	Err  string `json:"e,omitempty"` // EEof EProto EClose EReadLimit EBufferFull EInflate EPanic
	Code int    `json:"code,omitempty"`
	Raw  string `json:"raw,omitempty"`
}

func (e c29Ev) coq() string {
	switch e.Kind {
	case "msg":
		return vApp("Msg", vN(uint64(e.Op)), c29Term(e.Data))
	case "wrote":
		return vApp("Wrote", vN(uint64(e.Op)), vBytes(e.Data))
	default:
		if e.Err == "EClose" {
			return vApp("Err", vApp("EClose", vN(uint64(e.Code)), vBytes(e.Data)))
		}
		return vApp("Err", e.Err)
	}
}

// c29TakeWritten parses the control frames the Conn wrote (masked when the Conn is a client).
func c29TakeWritten(pc *c29Conn, server bool) ([]c29Ev, bool) {
	b := pc.out.Bytes()
	var evs []c29Ev
	ok := true
	for len(b) > 0 {
		if len(b) < 2 || b[0]&0x80 == 0 || b[0]&0x70 != 0 || b[1]&0x7f > 125 {
			ok = false
			break
		}
		n := int(b[1] & 0x7f)
		masked := b[1]&0x80 != 0
		if masked == server {
			ok = false
			break
		}
		hdr := 2
		var key []byte
		if masked {
			if len(b) < 6 {
				ok = false
				break
			}
			key = b[2:6]
			hdr = 6
		}
		if len(b) < hdr+n {
			ok = false
			break
		}
		p := append([]byte{}, b[hdr:hdr+n]...)
		for i := range p {
			if masked {
				p[i] ^= key[i&3]
			}
		}
		evs = append(evs, c29Ev{Kind: "wrote", Op: int(b[0] & 0xf), Data: p})
		b = b[hdr+n:]
	}
	pc.out.Reset()
	return evs, ok
}

func c29NewConn(cfg c29Cfg, pc *c29Conn) *Conn {
	var c *Conn
	if cfg.RBufCfg >= 0 {
		// the constructor path of Upgrader.upgradeH1 / Dialer: newConn allocates the reader and
		// guarantees room for a control frame whatever size was configured
		c = newConn(pc, cfg.Server, cfg.RBufCfg, 0, nil, nil, nil)
	} else {
		c = newConn(pc, cfg.Server, 0, 0, nil, bufio.NewReaderSize(pc, cfg.RBuf), nil)
	}
	if cfg.Compress {
		c.newCompressionWriter = compressNoContextTakeover
		c.newDecompressionReader = decompressNoContextTakeover
	}
	if cfg.Limit > 0 {
		c.SetReadLimit(cfg.Limit)
	}
	if cfg.DLimit > 0 {
		c.SetDecompressedReadLimit(cfg.DLimit)
	}
	return c
}

// c29Effective fills in the read buffer size the constructor really gives the connection.
func c29Effective(cfg c29Cfg) c29Cfg {
	if cfg.RBufCfg >= 0 {
		cfg.RBuf = c29NewConn(cfg, &c29Conn{}).br.Size()
	}
	return cfg
}

// c29Run feeds the stream to a real Conn.
func c29Run(cfg c29Cfg, stream []byte) (evs []c29Ev, wellFormedWrites bool) {
	return c29RunPaused(cfg, stream, -1, 0, nil)
}

// c29RunPaused is c29Run, except that message number pauseAt (0-based) is read in two steps:
// NextReader + the first head bytes, then pause() runs (another connection may read meanwhile),
// then the rest of the message.
func c29RunPaused(cfg c29Cfg, stream []byte, pauseAt int, head int, pause func()) (evs []c29Ev, wellFormedWrites bool) {
	pc := &c29Conn{}
	pc.in.Write(stream)
	c := c29NewConn(cfg, pc)
	wellFormedWrites = true
	nmsg := 0
	for iter := 0; iter < 100000; iter++ {
		var mt int
		var p []byte
		var err error
		var pan string
		func() {
			defer func() {
				if r := recover(); r != nil {
					pan = fmt.Sprint(r)
				}
			}()
			if nmsg != pauseAt {
				mt, p, err = c.ReadMessage()
				return
			}
			var rd io.Reader
			mt, rd, err = c.NextReader()
			if err != nil {
				return
			}
			hb := make([]byte, head)
			n, herr := io.ReadFull(rd, hb)
			p = hb[:n]
			pause()
			if herr == io.EOF || herr == io.ErrUnexpectedEOF {
				herr = nil // the message is shorter than head (streams of this class are conforming)
			}
			if herr != nil {
				err = herr
				return
			}
			var rest []byte
			rest, err = io.ReadAll(rd)
			p = append(p, rest...)
		}()
		if err == nil {
			nmsg++
		}
		w, ok := c29TakeWritten(pc, cfg.Server)
		if !ok {
			wellFormedWrites = false
		}
		evs = append(evs, w...)
		if pan != "" {
			evs = append(evs, c29Ev{Kind: "err", Err: "EPanic", Raw: pan})
			return
		}
		if err == nil {
			evs = append(evs, c29Ev{Kind: "msg", Op: mt, Data: append([]byte{}, p...)})
			continue
		}
		ev := c29Ev{Kind: "err", Raw: err.Error()}
		var ce *CloseError
		switch {
		case errors.As(err, &ce):
			if ce.Code == CloseAbnormalClosure && ce.Text == io.ErrUnexpectedEOF.Error() {
				ev.Err = "EEof"
			} else {
				ev.Err = "EClose"
				ev.Code = ce.Code
				ev.Data = []byte(ce.Text)
			}
		case err == ErrReadLimit:
			ev.Err = "EReadLimit"
		case err == bufio.ErrBufferFull:
			ev.Err = "EBufferFull"
		case strings.HasPrefix(err.Error(), "websocket: "):
			ev.Err = "EProto"
		default:
			ev.Err = "EInflate"
		}
		evs = append(evs, ev)
		return
	}
	evs = append(evs, c29Ev{Kind: "err", Err: "EFuel"})
	return
}

// c29Term prints a byte string as a Coq term; long stretches with period 4 (constant payloads, also
// after masking) are printed as (rep [a;b;c;d] k) so that 64K messages stay small terms.
func c29Term(b []byte) string {
	var parts []string
	lit := 0 // start of the pending literal part
	i := 0
	flush := func(end int) {
		if end > lit {
			parts = append(parts, vBytes(b[lit:end]))
		}
	}
	for i+8 <= len(b) {
		j := i + 4
		for j < len(b) && b[j] == b[j-4] {
			j++
		}
		k := (j - i) / 4
		if k >= 64 {
			flush(i)
			parts = append(parts, fmt.Sprintf("(rep %s %d%%nat)", vBytes(b[i:i+4]), k))
			i += 4 * k
			lit = i
		} else {
			i++
		}
	}
	flush(len(b))
	if len(parts) == 0 {
		return "[]"
	}
	if len(parts) == 1 {
		return parts[0]
	}
	return "(" + strings.Join(parts, " ++ ") + ")"
}


// ---------------------------------------------------------------- independent frame walker (port of WsReadSpec.v)

const (
	c29VNone = iota
	c29VRsv
	c29VRsv1Ctl
	c29VRsv1Cont
	c29VOpcode
	c29VCtlLen
	c29VCtlFrag
	c29VNestedData
	c29VOrphanCont
	c29VMask
	c29VLenMsb
	c29VNonMinimal
	c29VMsgLen63
	c29VCloseLen1
	c29VCloseCode
	c29VCloseUtf8
	c29VTextUtf8
)

var c29KindNames = []string{"none", "VRsv", "VRsv1Ctl", "VRsv1Cont", "VOpcode", "VCtlLen", "VCtlFrag", "VNestedData", "VOrphanCont",
	"VMask", "VLenMsb", "VNonMinimal", "VMsgLen63", "VCloseLen1", "VCloseCode", "VCloseUtf8", "VTextUtf8"}

func c29GoLax(k int, close1Strict bool) bool {
	switch k {
	case c29VRsv1Ctl, c29VRsv1Cont, c29VNonMinimal, c29VTextUtf8, c29VLenMsb, c29VMsgLen63:
		return true
	case c29VCloseLen1:
		return !close1Strict
	}
	return false
}

// RFC 6455 7.4 (see Model/WsCloseSpec.v); 1012-1014: what the source's table says
func c29CloseOK(code int) bool {
	defined := (code >= 1000 && code <= 1003) || (code >= 1007 && code <= 1011) || (code >= 3000 && code <= 4999)
	if defined {
		return true
	}
	if code >= 1012 && code <= 1014 {
		return isValidReceivedCloseCode(code)
	}
	return false
}

type c29Infl struct {
	In    []byte
	Out   []byte
	OK    bool
	Avail bool  // streaming entry: In = prefix of a compressed message, N = output bytes handed out before more input is needed
	EOF   bool  // streaming entry for "the stream ended after In" (key at_eof In in the model)
	N     int64
}

type c29NeedMore struct{ asked *bool }

func (r c29NeedMore) Read([]byte) (int, error) {
	*r.asked = true
	return 0, errors.New("c29: need more input")
}

// c29Surfaced: how many bytes a flate reader hands out when it has been given exactly this prefix of a
// compressed message (the decompressed-size limit trips on this count).
// eof = false: before it asks for input beyond the prefix, i.e. while more of the message follows -
// compress/flate hands out at the end of a block, when its window is full or on an error, NOT whatever
// it has decoded so far.  eof = true: when the stream ends after the prefix - the read error makes it
// hand out everything it has decoded.
func c29Surfaced(prefix []byte, eof bool, tbl *[]c29Infl) int64 {
	for _, x := range *tbl {
		if x.Avail && x.EOF == eof && bytes.Equal(x.In, prefix) {
			return x.N
		}
	}
	asked := false
	fr := flate.NewReader(io.MultiReader(bytes.NewReader(prefix), c29NeedMore{&asked}))
	var n int64
	buf := make([]byte, 4096)
	for {
		k, err := fr.Read(buf)
		if eof || !asked { // bytes returned by a Read that asked for more are the flush caused by our error
			n += int64(k)
		}
		if err != nil || asked && !eof {
			break
		}
	}
	*tbl = append(*tbl, c29Infl{In: append([]byte{}, prefix...), Avail: true, EOF: eof, N: n})
	return n
}

var c29Tail = []byte{0, 0, 0xff, 0xff, 1, 0, 0, 0xff, 0xff}

func c29Inflate(data []byte, tbl *[]c29Infl) ([]byte, bool) {
	in := append(append([]byte{}, data...), c29Tail...)
	fr := flate.NewReader(bytes.NewReader(in))
	out, err := io.ReadAll(fr)
	e := c29Infl{In: in, Out: out, OK: err == nil}
	for _, x := range *tbl {
		if !x.Avail && bytes.Equal(x.In, in) {
			return out, err == nil
		}
	}
	*tbl = append(*tbl, e)
	return out, err == nil
}

// c29Walk decodes the stream under a policy (strict, or the Go reader's). It returns the kind of the
// first enforced violation (0 if the stream ends otherwise) and whether a control frame longer than
// rbuf was reached.
func c29Walk(cfg c29Cfg, strict bool, bs []byte, tbl *[]c29Infl) (viol int, bigCtl bool) {
	lax := func(k int) bool { return !strict && c29GoLax(k, cfg.Close1) }
	inFrag := false
	var typ int
	var compressed bool
	var acc []byte
	var total uint64
	for {
		if len(bs) < 2 {
			return 0, bigCtl
		}
		b0, b1 := bs[0], bs[1]
		bs = bs[2:]
		fin, rsv1, rsv2, rsv3 := b0&0x80 != 0, b0&0x40 != 0, b0&0x20 != 0, b0&0x10 != 0
		op := int(b0 & 0xf)
		masked := b1&0x80 != 0
		len7 := uint64(b1 & 0x7f)
		isCtl := op&8 != 0
		known := op == 0 || op == 1 || op == 2 || op == 8 || op == 9 || op == 10
		var vs []int
		if rsv2 || rsv3 || (rsv1 && !cfg.Compress) {
			vs = append(vs, c29VRsv)
		}
		if rsv1 && cfg.Compress && isCtl {
			vs = append(vs, c29VRsv1Ctl)
		}
		if rsv1 && cfg.Compress && op == 0 {
			vs = append(vs, c29VRsv1Cont)
		}
		if !known {
			vs = append(vs, c29VOpcode)
		}
		if isCtl && len7 > 125 {
			vs = append(vs, c29VCtlLen)
		}
		if isCtl && !fin {
			vs = append(vs, c29VCtlFrag)
		}
		if (op == 1 || op == 2) && inFrag {
			vs = append(vs, c29VNestedData)
		}
		if op == 0 && !inFrag {
			vs = append(vs, c29VOrphanCont)
		}
		if masked != cfg.Server {
			vs = append(vs, c29VMask)
		}
		for _, v := range vs {
			if !lax(v) {
				return v, bigCtl
			}
		}
		length := len7
		if len7 == 126 {
			if len(bs) < 2 {
				return 0, bigCtl
			}
			length = uint64(bs[0])<<8 | uint64(bs[1])
			bs = bs[2:]
			if length < 126 && !lax(c29VNonMinimal) {
				return c29VNonMinimal, bigCtl
			}
		} else if len7 == 127 {
			if len(bs) < 8 {
				return 0, bigCtl
			}
			length = 0
			for i := 0; i < 8; i++ {
				length = length<<8 | uint64(bs[i])
			}
			bs = bs[8:]
			if length >= 1<<63 {
				if lax(c29VLenMsb) {
					return 0, bigCtl
				}
				return c29VLenMsb, bigCtl
			}
			if length < 65536 && !lax(c29VNonMinimal) {
				return c29VNonMinimal, bigCtl
			}
		}
		var key []byte
		if masked {
			if len(bs) < 4 {
				return 0, bigCtl
			}
			key = bs[:4]
			bs = bs[4:]
		}
		unmask := func(p []byte) []byte {
			q := append([]byte{}, p...)
			if cfg.Server {
				for i := range q {
					q[i] ^= key[i&3]
				}
			}
			return q
		}
		if isCtl {
			if int(length) > cfg.RBuf {
				bigCtl = true
			}
			if uint64(len(bs)) < length {
				return 0, bigCtl
			}
			payload := unmask(bs[:length])
			bs = bs[length:]
			switch op {
			case 9, 10:
				continue
			}
			// close
			switch {
			case len(payload) == 0:
				return 0, bigCtl
			case len(payload) == 1:
				if !lax(c29VCloseLen1) {
					return c29VCloseLen1, bigCtl
				}
				return 0, bigCtl
			}
			code := int(payload[0])<<8 | int(payload[1])
			if !c29CloseOK(code) {
				return c29VCloseCode, bigCtl
			}
			if !utf8.Valid(payload[2:]) {
				return c29VCloseUtf8, bigCtl
			}
			return 0, bigCtl
		}
		if !inFrag {
			typ, compressed, acc, total = op, rsv1 && cfg.Compress, nil, 0
		}
		total += length
		if total >= 1<<63 {
			if lax(c29VMsgLen63) {
				return 0, bigCtl
			}
			return c29VMsgLen63, bigCtl
		}
		if cfg.Limit > 0 && total > uint64(cfg.Limit) {
			return 0, bigCtl
		}
		dtrip := func(data []byte, eof bool) bool {
			return compressed && cfg.DLimit > 0 && c29Surfaced(data, eof, tbl) > cfg.DLimit
		}
		if uint64(len(bs)) < length {
			dtrip(append(append([]byte{}, acc...), unmask(bs)...), true) // recorded for the model; the stream ends either way
			c29FlushPending = false
			return 0, bigCtl
		}
		acc = append(acc, unmask(bs[:length])...)
		bs = bs[length:]
		if dtrip(acc, false) { // the part received so far already inflates beyond the limit
			return 0, bigCtl
		}
		if !fin {
			inFrag = true
			// the limit sits inside a deflate block that is unfinished at this fragment boundary: an error
			// while the following frames are pulled makes flate hand out what it has decoded (see c29Emit)
			var scratch []c29Infl
			c29FlushPending = compressed && cfg.DLimit > 0 && c29Surfaced(acc, true, &scratch) > cfg.DLimit
			continue
		}
		inFrag = false
		c29FlushPending = false
		out := acc
		if compressed {
			o, ok := c29Inflate(acc, tbl)
			if !ok {
				return 0, bigCtl
			}
			if cfg.DLimit > 0 && int64(len(o)) > cfg.DLimit {
				return 0, bigCtl
			}
			out = o
		}
		if typ == 1 && !utf8.Valid(out) && !lax(c29VTextUtf8) {
			return c29VTextUtf8, bigCtl
		}
	}
}

// ---------------------------------------------------------------- frame builder

type c29Frame struct {
	Fin     bool
	Rsv     byte // bits 6..4 of byte 0
	Op      byte
	Masked  bool
	LenForm int // 0 minimal, 16, 64
	Payload []byte
	Key     [4]byte
	Announce *uint64 // announced length when different from len(Payload)
}

func (f c29Frame) encode() []byte {
	b0 := f.Op&0xf | f.Rsv&0x70
	if f.Fin {
		b0 |= 0x80
	}
	n := uint64(len(f.Payload))
	if f.Announce != nil {
		n = *f.Announce
	}
	form := f.LenForm
	if form == 0 {
		switch {
		case n <= 125:
			form = 7
		case n <= 65535:
			form = 16
		default:
			form = 64
		}
	}
	var out []byte
	mb := byte(0)
	if f.Masked {
		mb = 0x80
	}
	switch form {
	case 7:
		out = []byte{b0, mb | byte(n)}
	case 16:
		out = []byte{b0, mb | 126, byte(n >> 8), byte(n)}
	default:
		out = []byte{b0, mb | 127, byte(n >> 56), byte(n >> 48), byte(n >> 40), byte(n >> 32), byte(n >> 24), byte(n >> 16), byte(n >> 8), byte(n)}
	}
	if f.Masked {
		out = append(out, f.Key[:]...)
		for i, b := range f.Payload {
			out = append(out, b^f.Key[i&3])
		}
	} else {
		out = append(out, f.Payload...)
	}
	return out
}

func c29Deflate(p []byte, level int) []byte {
	var buf bytes.Buffer
	fw, _ := flate.NewWriter(&buf, level)
	fw.Write(p)
	fw.Flush()
	b := buf.Bytes()
	if len(b) >= 4 {
		b = b[:len(b)-4] // strip 00 00 ff ff (RFC 7692 7.2.1)
	}
	return b
}

var c29Uni = []string{"a", "z", " ", "\"", "é", "ß", "€", "한", "😀", "߿", "ࠀ", "￿", "\U00010000", "\U0010ffff", "\x00", "~"}

func c29Text(r *rand.Rand, n int) []byte {
	var b []byte
	for len(b) < n {
		s := c29Uni[r.Intn(len(c29Uni))]
		if len(b)+len(s) > n {
			s = "x"
		}
		b = append(b, s...)
	}
	return b
}

func c29Size(r *rand.Rand, allowBig bool) int {
	switch r.Intn(20) {
	case 0:
		return 0
	case 1:
		return 1
	case 2:
		return 125
	case 3:
		return 126
	case 4:
		return 127
	case 5:
		return 128 + r.Intn(200)
	case 6:
		if allowBig {
			return []int{65535, 65536, 65537}[r.Intn(3)]
		}
		return 300
	default:
		return r.Intn(24)
	}
}

func c29Split(r *rand.Rand, p []byte) [][]byte {
	k := 1
	switch r.Intn(6) {
	case 0, 1:
		k = 2
	case 2:
		k = 3
	case 3:
		k = 1 + r.Intn(4)
	}
	parts := make([][]byte, 0, k)
	rest := p
	for i := 0; i < k-1; i++ {
		cut := 0
		if len(rest) > 0 {
			cut = r.Intn(len(rest) + 1)
		}
		parts = append(parts, rest[:cut])
		rest = rest[cut:]
	}
	return append(parts, rest)
}

func c29Ctl(r *rand.Rand, masked bool) c29Frame {
	f := c29Frame{Fin: true, Op: 9, Masked: masked}
	if r.Intn(3) == 0 {
		f.Op = 10
	}
	switch r.Intn(8) {
	case 0:
		f.Payload = make([]byte, 125)
	case 1:
		f.Payload = make([]byte, 17+r.Intn(30))
	case 2:
		f.Payload = nil
	default:
		f.Payload = make([]byte, r.Intn(17))
	}
	r.Read(f.Payload)
	r.Read(f.Key[:])
	return f
}

var c29GoodCodes = []int{1000, 1001, 1002, 1003, 1007, 1008, 1009, 1010, 1011, 3000, 3999, 4000, 4999, 1012, 1013}

func c29Close(r *rand.Rand, masked bool) c29Frame {
	f := c29Frame{Fin: true, Op: 8, Masked: masked}
	if r.Intn(4) > 0 {
		code := c29GoodCodes[r.Intn(len(c29GoodCodes))]
		reason := c29Text(r, []int{0, 0, 3, 14, 15, 40, 123}[r.Intn(7)])
		f.Payload = append([]byte{byte(code >> 8), byte(code)}, reason...)
	}
	r.Read(f.Key[:])
	return f
}

// c29Session builds a conforming session; big = allow one 64K payload.
func c29Session(r *rand.Rand, cfg c29Cfg, big bool, noCtlInCompressed bool) (frames []c29Frame, hasCompressed bool) {
	masked := cfg.Server
	nmsg := r.Intn(4)
	for m := 0; m < nmsg; m++ {
		for r.Intn(4) == 0 {
			frames = append(frames, c29Ctl(r, masked))
		}
		op := byte(1 + r.Intn(2))
		n := c29Size(r, big)
		if cfg.Limit > 0 && int64(n) > cfg.Limit && r.Intn(3) > 0 {
			n = int(cfg.Limit) - r.Intn(3)
			if n < 0 {
				n = 0
			}
		}
		var p []byte
		if n > 2000 {
			p = bytes.Repeat([]byte{byte('a' + r.Intn(26))}, n)
		} else if op == 1 {
			p = c29Text(r, n)
		} else {
			p = make([]byte, n)
			r.Read(p)
		}
		rsv := byte(0)
		comp := cfg.Compress && r.Intn(2) == 0
		if comp {
			p = c29Deflate(p, []int{-2, 1, 6, 9}[r.Intn(4)])
			rsv = 0x40
			hasCompressed = true
		}
		parts := c29Split(r, p)
		for i, part := range parts {
			f := c29Frame{Fin: i == len(parts)-1, Op: 0, Masked: masked, Payload: part}
			if i == 0 {
				f.Op = op
				f.Rsv = rsv
			}
			r.Read(f.Key[:])
			frames = append(frames, f)
			if !f.Fin && !(comp && noCtlInCompressed) {
				for r.Intn(3) == 0 {
					frames = append(frames, c29Ctl(r, masked))
				}
			}
		}
	}
	for r.Intn(5) == 0 {
		frames = append(frames, c29Ctl(r, masked))
	}
	return frames, hasCompressed
}

func c29Encode(frames []c29Frame) []byte {
	var out []byte
	for _, f := range frames {
		out = append(out, f.encode()...)
	}
	return out
}

// c29Mutate applies one violation from the catalogue; returns its name.
func c29Mutate(r *rand.Rand, cfg c29Cfg, frames []c29Frame) ([]c29Frame, string) {
	masked := cfg.Server
	pick := func(pred func(c29Frame) bool) int {
		var idx []int
		for i, f := range frames {
			if pred(f) {
				idx = append(idx, i)
			}
		}
		if len(idx) == 0 {
			return -1
		}
		return idx[r.Intn(len(idx))]
	}
	insertAt := func(i int, f c29Frame) {
		frames = append(frames[:i], append([]c29Frame{f}, frames[i:]...)...)
	}
	any := func(c29Frame) bool { return true }
	isCtl := func(f c29Frame) bool { return f.Op >= 8 }
	isCont := func(f c29Frame) bool { return f.Op == 0 }
	isFirst := func(f c29Frame) bool { return f.Op == 1 || f.Op == 2 }
	if len(frames) == 0 {
		frames = append(frames, c29Ctl(r, masked))
	}
	u64 := func(v uint64) *uint64 { return &v }
	switch m := r.Intn(19); m {
	case 0:
		i := pick(any)
		frames[i].Rsv |= []byte{0x20, 0x10, 0x30}[r.Intn(3)]
		return frames, "rsv23"
	case 1:
		if i := pick(isCtl); i >= 0 {
			frames[i].Rsv |= 0x40
			return frames, "rsv1-control"
		}
	case 2:
		if i := pick(isCont); i >= 0 {
			frames[i].Rsv |= 0x40
			return frames, "rsv1-continuation"
		}
	case 3:
		if i := pick(func(f c29Frame) bool { return isFirst(f) && f.Rsv == 0 && f.Fin }); i >= 0 { // unfragmented: the flate reader fails inside the first frame
			frames[i].Rsv |= 0x40
			// reserved block type: the flate reader fails at once (random bytes could contain an early
			// final block, which is outside the model: the rest of the message would be left unread)
			frames[i].Payload = append([]byte{0x06}, frames[i].Payload...)
			return frames, "rsv1-data-uncompressed"
		}
	case 4:
		i := pick(any)
		frames[i].Op = []byte{3, 4, 5, 6, 7, 11, 12, 13, 14, 15}[r.Intn(10)]
		return frames, "opcode"
	case 5:
		f := c29Ctl(r, masked)
		f.Payload = make([]byte, 126+r.Intn(3))
		insertAt(r.Intn(len(frames)+1), f)
		return frames, "control-long"
	case 6:
		f := c29Ctl(r, masked)
		f.Fin = false
		insertAt(r.Intn(len(frames)+1), f)
		return frames, "control-fragmented"
	case 7:
		if i := pick(isCont); i >= 0 {
			frames[i].Op = byte(1 + r.Intn(2))
			return frames, "nested-data"
		}
	case 8:
		f := c29Frame{Fin: r.Intn(2) == 0, Op: 0, Masked: masked, Payload: []byte("zz")}
		i := pick(func(f c29Frame) bool { return isFirst(f) })
		if i < 0 {
			i = 0
		}
		insertAt(i, f)
		return frames, "orphan-continuation"
	case 9:
		i := pick(any)
		frames[i].Masked = !frames[i].Masked
		return frames, "mask"
	case 10:
		i := pick(func(f c29Frame) bool { return !isCtl(f) })
		if i >= 0 {
			frames[i].LenForm = 64
			frames[i].Announce = u64(1<<63 | uint64(r.Intn(1000)))
			return frames[:i+1], "len64-msb"
		}
	case 11:
		if i := pick(func(f c29Frame) bool { return !isCtl(f) && len(f.Payload) <= 125 }); i >= 0 {
			frames[i].LenForm = []int{16, 64}[r.Intn(2)]
			return frames, "nonminimal"
		}
	case 12:
		if i := pick(func(f c29Frame) bool { return !isCtl(f) && len(f.Payload) > 125 && len(f.Payload) < 65536 }); i >= 0 {
			frames[i].LenForm = 64
			return frames, "nonminimal"
		}
	case 13:
		f := c29Close(r, masked)
		f.Payload = []byte{byte(r.Intn(256))}
		insertAt(r.Intn(len(frames)+1), f)
		return frames, "close-body-1"
	case 14:
		f := c29Close(r, masked)
		code := []int{0, 999, 1004, 1005, 1006, 1014, 1015, 1016, 2999, 5000, 65535}[r.Intn(11)]
		f.Payload = []byte{byte(code >> 8), byte(code), 'x'}
		insertAt(r.Intn(len(frames)+1), f)
		return frames, "close-code"
	case 15:
		f := c29Close(r, masked)
		f.Payload = append([]byte{3, 232}, []string{"\xff", "ab\xc3", "\xed\xa0\x80", "\xc0\xaf", "\xf4\x90\x80\x80"}[r.Intn(5)]...)
		insertAt(r.Intn(len(frames)+1), f)
		return frames, "close-utf8"
	case 16:
		if i := pick(func(f c29Frame) bool { return f.Op == 1 && f.Rsv == 0 && len(f.Payload) > 0 }); i >= 0 {
			p := append([]byte{}, frames[i].Payload...)
			p[r.Intn(len(p))] = []byte{0xff, 0xc0, 0xf8, 0x80}[r.Intn(4)]
			frames[i].Payload = p
			return frames, "text-utf8"
		}
		f := c29Frame{Fin: true, Op: 1, Masked: masked, Payload: []byte{'a', 0xff}}
		insertAt(0, f)
		return frames, "text-utf8"
	case 17:
		// announced message length reaches 2^63
		f1 := c29Frame{Fin: false, Op: 2, Masked: masked, Payload: []byte("ab")}
		f2 := c29Frame{Fin: true, Op: 0, Masked: masked, LenForm: 64, Payload: []byte("cd"), Announce: u64(1<<63 - 1 - uint64(r.Intn(2)))}
		return append([]c29Frame{}, f1, f2), "msglen63"
	case 18:
		if i := pick(func(f c29Frame) bool { return f.Rsv == 0x40 && f.Fin && len(f.Payload) > 2 }); i >= 0 {
			p := append([]byte{}, frames[i].Payload...)
			p[r.Intn(len(p))] ^= byte(1 + r.Intn(255))
			frames[i].Payload = p
			return frames[:i+1], "deflate-corrupt"
		}
	}
	i := pick(any)
	frames[i].Rsv |= 0x20
	return frames, "rsv23"
}

func c29Hex(b []byte) string {
	if len(b) > 400 {
		return hex.EncodeToString(b[:400]) + fmt.Sprintf("...(%d bytes)", len(b))
	}
	return hex.EncodeToString(b)
}

// c29FlushPending: set by c29Walk while a compressed message is between fragments and an error flush of
// the inflater would exceed the decompressed limit although what it has handed out so far does not.
var c29FlushPending bool

func c29Emit(w *verifW, i int, cfg c29Cfg, stream []byte, class string) {
	cfg = c29Effective(cfg)
	if cfg.DLimit > 0 {
		// Outside the model: the stream ends or fails (protocol error, close frame, EOF at a frame
		// boundary) between the fragments of a compressed message in that state. The real reader then
		// reports ErrReadLimit in place of the error (after the 1002/close frame, if any). Those
		// streams are run without a decompressed limit.
		var scratch []c29Infl
		c29FlushPending = false
		c29Walk(cfg, true, stream, &scratch)
		p := c29FlushPending
		c29FlushPending = false
		c29Walk(cfg, false, stream, &scratch)
		if p || c29FlushPending {
			cfg.DLimit = 0
			class += "+dlimit-dropped"
		}
	}
	obs, wok := c29Run(cfg, stream)
	c29EmitObs(w, i, cfg, stream, class, obs, wok)
}

func c29EmitObs(w *verifW, i int, cfg c29Cfg, stream []byte, class string, obs []c29Ev, wok bool) {
	var tbl []c29Infl
	vStrict, _ := c29Walk(cfg, true, stream, &tbl)
	_, big := c29Walk(cfg, false, stream, &tbl)
	label := vStrict
	fkey := c29KindNames[vStrict]
	if cfg.RBuf < 125 && big {
		label = 100
		fkey = "read-buffer-smaller-than-control-frame"
	}
	var tb, av []string
	for _, e := range tbl {
		if e.Avail {
			key := vBytes(e.In)
			if e.EOF {
				ks := make([]string, 0, len(e.In)+1)
				for _, b := range e.In {
					ks = append(ks, vN(uint64(b)))
				}
				key = vList(append(ks, vN(256))) // at_eof
			}
			av = append(av, vPair(key, vN(uint64(e.N))))
		} else {
			tb = append(tb, vPair(vBytes(e.In), vOpt(vBytes(e.Out), e.OK)))
		}
	}
	evs := make([]string, len(obs))
	for k, e := range obs {
		evs[k] = e.coq()
	}
	if !wok {
		evs = append(evs, "(Err EPanic)") // unparsable bytes written back
		class += "/badwrite"
	}
	term := vApp("mkCase", cfg.coq(vApp("avail_of", vList(av))), vList(tb), c29Term(stream), vN(uint64(label)), vList(evs))
	last := ""
	if len(obs) > 0 {
		last = obs[len(obs)-1].Err
	}
	nmsg := 0
	for _, e := range obs {
		if e.Kind == "msg" {
			nmsg++
		}
	}
	w.Case(i, term, map[string]any{"cfg": cfg, "stream": c29Hex(stream), "obs": obs, "label": c29KindNames[vStrict], "fkey": fkey, "class": class},
		class+"/"+last, nmsg > 0 || len(obs) > 2 || strings.HasPrefix(class, "mut"))
}

func c29PickCfg(r *rand.Rand, close1 bool, h2size int) c29Cfg {
	cfg := c29Cfg{Server: r.Intn(5) > 0, Compress: r.Intn(3) == 0, RBuf: 4096, Close1: close1}
	switch r.Intn(10) {
	case 0:
		cfg.RBuf, cfg.RBufCfg = h2size, -1 // the HTTP/2 extended CONNECT path of upgradeH2 (16 in the unfixed source)
	case 1:
		cfg.RBuf, cfg.RBufCfg = 125, -1
	case 2, 3, 4:
		// configured Upgrader.ReadBufferSize / WebsocketConfig.ReadBufferSize, through newConn
		cfg.RBufCfg = []int{1, 16, 17, 32, 64, 100, 124, 125, 126, 200, 1024, 4096}[r.Intn(12)]
	}
	switch r.Intn(6) {
	case 0:
		cfg.Limit = int64(1 + r.Intn(20))
	case 1:
		cfg.Limit = 125 + int64(r.Intn(4))
	case 2:
		cfg.Limit = 65536
	}
	if cfg.Compress && r.Intn(3) == 0 {
		cfg.DLimit = int64(1 + r.Intn(300))
	}
	return cfg
}

// c29CompMsg builds one compressed data message (possibly fragmented, possibly with control frames
// between the fragments).
func c29CompMsg(r *rand.Rand, n int) []c29Frame {
	op := byte(1 + r.Intn(2))
	var p []byte
	if op == 1 {
		p = c29Text(r, n)
	} else {
		p = make([]byte, n)
		for i := range p {
			p[i] = "abcdefghijklmnop"[r.Intn(16)]
		}
	}
	z := c29Deflate(p, []int{1, 6, 9}[r.Intn(3)])
	var frames []c29Frame
	parts := c29Split(r, z)
	for i, part := range parts {
		f := c29Frame{Fin: i == len(parts)-1, Op: 0, Masked: true, Payload: part}
		if i == 0 {
			f.Op, f.Rsv = op, 0x40
		}
		r.Read(f.Key[:])
		frames = append(frames, f)
		if !f.Fin && r.Intn(4) == 0 {
			frames = append(frames, c29Ctl(r, true))
		}
	}
	return frames
}

// c29Pair: two server connections with permessage-deflate read conforming sessions; connection A
// has read its first message completely and is in the middle of its second one (NextReader + a few
// bytes) when connection B reads its whole session; then A goes on.  Each connection must still
// behave as a conforming reader of its own stream (the flate readers are pooled across connections).
func c29Pair(w *verifW, i int, r *rand.Rand, close1 bool) {
	cfg := c29Effective(c29Cfg{Server: true, Compress: true, RBuf: 4096, Close1: close1})
	var fa, fb []c29Frame
	fa = append(fa, c29CompMsg(r, 1+r.Intn(300))...)
	fa = append(fa, c29CompMsg(r, 200+r.Intn(700))...)
	for n := r.Intn(3); n > 0; n-- {
		fa = append(fa, c29CompMsg(r, r.Intn(200))...)
	}
	for n := 1 + r.Intn(3); n > 0; n-- {
		fb = append(fb, c29CompMsg(r, 50+r.Intn(600))...)
	}
	if r.Intn(2) == 0 {
		fa = append(fa, c29Close(r, true))
	}
	if r.Intn(2) == 0 {
		fb = append(fb, c29Close(r, true))
	}
	sa, sb := c29Encode(fa), c29Encode(fb)
	var obsB []c29Ev
	var wokB bool
	obsA, wokA := c29RunPaused(cfg, sa, 1, 1+r.Intn(60), func() { obsB, wokB = c29Run(cfg, sb) })
	if r.Intn(3) == 0 {
		c29EmitObs(w, i, cfg, sb, "pair:B", obsB, wokB)
	} else {
		c29EmitObs(w, i, cfg, sa, "pair:A", obsA, wokA)
	}
}

func TestVerifC29(t *testing.T) {
	w := verifOpen(t, "C29")
	defer w.Close()

	// does the source reject a one byte close body? (false for the unfixed source)
	probe, _ := c29Run(c29Cfg{Server: true, RBuf: 4096}, c29Frame{Fin: true, Op: 8, Masked: true, Payload: []byte{3}, Key: [4]byte{1, 2, 3, 4}}.encode())
	close1 := !(len(probe) > 0 && probe[len(probe)-1].Err == "EClose")
	w.Extra["close1_strict"] = close1
	h2size := c29H2BufSize(t)
	w.Extra["h2_read_buffer"] = h2size

	srv := c29Cfg{Server: true, RBuf: 4096, Close1: close1}
	mk := func(fs ...c29Frame) []byte { return c29Encode(fs) }
	k := [4]byte{0x37, 0xfa, 0x21, 0x3d}
	type cc struct {
		cfg    c29Cfg
		stream []byte
		name   string
	}
	withC := func(c c29Cfg, f func(*c29Cfg)) c29Cfg { f(&c); return c }
	corpus := []cc{
		{srv, nil, "empty"},
		{srv, []byte{0x81, 0x85, 0x37, 0xfa, 0x21, 0x3d, 0x7f, 0x9f, 0x4d, 0x51, 0x58}, "rfc-masked-hello"}, // RFC 6455 5.7
		{withC(srv, func(c *c29Cfg) { c.Server = false }), []byte{0x81, 0x05, 0x48, 0x65, 0x6c, 0x6c, 0x6f}, "rfc-unmasked-hello"},
		{withC(srv, func(c *c29Cfg) { c.Server = false }), []byte{0x01, 0x03, 0x48, 0x65, 0x6c, 0x80, 0x02, 0x6c, 0x6f}, "rfc-fragmented"},
		{withC(srv, func(c *c29Cfg) { c.Server = false }), []byte{0x89, 0x05, 0x48, 0x65, 0x6c, 0x6c, 0x6f}, "rfc-ping"},
		{withC(srv, func(c *c29Cfg) { c.Compress = true }), mk(c29Frame{Fin: true, Rsv: 0x40, Op: 1, Masked: true, Key: k, Payload: []byte{0xf2, 0x48, 0xcd, 0xc9, 0xc9, 0x07, 0x00}}), "rfc7692-hello"},
		{srv, mk(c29Frame{Fin: true, Op: 8, Masked: true, Key: k, Payload: []byte{3}}), "close-body-1"},
		{srv, mk(c29Frame{Fin: true, Op: 2, Masked: true, Key: k, LenForm: 16, Payload: []byte("hello")}), "nonminimal-16"},
		{srv, mk(c29Frame{Fin: true, Op: 2, Masked: true, Key: k, LenForm: 64, Payload: []byte("hello")}), "nonminimal-64"},
		{withC(srv, func(c *c29Cfg) { c.Compress = true }), mk(c29Frame{Fin: true, Rsv: 0x40, Op: 9, Masked: true, Key: k, Payload: []byte("hi")}, c29Frame{Fin: true, Op: 2, Masked: true, Key: k, Payload: []byte("x")}), "rsv1-ping"},
		{withC(srv, func(c *c29Cfg) { c.Compress = true }), mk(c29Frame{Op: 2, Masked: true, Key: k, Payload: []byte("ab")}, c29Frame{Fin: true, Rsv: 0x40, Op: 0, Masked: true, Key: k, Payload: []byte("cd")}), "rsv1-continuation"},
		{srv, mk(c29Frame{Fin: true, Op: 1, Masked: true, Key: k, Payload: []byte{0xff, 0xfe}}), "text-utf8"},
		{srv, []byte{0x82, 0xff, 0x80, 0, 0, 0, 0, 0, 0, 1, 1, 2, 3, 4}, "len64-msb"},
		{withC(srv, func(c *c29Cfg) { c.Limit = 100 }), []byte{0x82, 0xff, 0x80, 0, 0, 0, 0, 0, 0, 1, 1, 2, 3, 4}, "len64-msb-limit"},
		{withC(srv, func(c *c29Cfg) { c.RBuf, c.RBufCfg = h2size, -1 }), mk(c29Frame{Fin: true, Op: 9, Masked: true, Key: k, Payload: bytes.Repeat([]byte("a"), 17)}), "h2-ping-17"},
		{withC(srv, func(c *c29Cfg) { c.RBuf, c.RBufCfg = h2size, -1 }), mk(c29Frame{Fin: true, Op: 8, Masked: true, Key: k, Payload: append([]byte{3, 232}, bytes.Repeat([]byte("a"), 15)...)}), "h2-close-reason-15"},
		{withC(srv, func(c *c29Cfg) { c.RBuf, c.RBufCfg = h2size, -1 }), mk(c29Frame{Fin: true, Op: 9, Masked: true, Key: k, Payload: bytes.Repeat([]byte("a"), 16)}), "h2-ping-16"},
		{withC(srv, func(c *c29Cfg) { c.Limit = 4 }), mk(c29Frame{Op: 2, Masked: true, Key: k, Payload: []byte("abc")}, c29Frame{Fin: true, Op: 0, Masked: true, Key: k, Payload: []byte("de")}), "limit-fragmented"},
		{srv, mk(c29Frame{Op: 1, Masked: true, Key: k, Payload: []byte{0xe2, 0x82}}, c29Frame{Fin: true, Op: 0, Masked: true, Key: k, Payload: []byte{0xac}}), "utf8-split"},
		{srv, mk(c29Frame{Fin: true, Op: 8, Masked: true, Key: k, Payload: []byte{3, 232, 'o', 'k'}}, c29Frame{Fin: true, Op: 2, Masked: true, Key: k, Payload: []byte("x")}), "close-then-data"},
		{srv, []byte{0xB3, 0x01, 0x41}, "many-errors"},
		{withC(srv, func(c *c29Cfg) { c.RBufCfg = 32 }), mk(c29Frame{Fin: true, Op: 9, Masked: true, Key: k, Payload: bytes.Repeat([]byte("p"), 100)}, c29Frame{Fin: true, Op: 1, Masked: true, Key: k, Payload: []byte("after ping")}), "configured-32-ping-100"},
		{withC(srv, func(c *c29Cfg) { c.RBufCfg = 16 }), mk(c29Frame{Fin: true, Op: 8, Masked: true, Key: k, Payload: append([]byte{3, 232}, bytes.Repeat([]byte("r"), 123)...)}), "configured-16-close-125"},
		{withC(srv, func(c *c29Cfg) { c.Limit = 100 }), []byte{0x02, 0x82, 1, 2, 3, 4, 0x60, 0x60, 0x80, 0xff, 0x7f, 0xff, 0xff, 0xff, 0xff, 0xff, 0xff, 0xff, 1, 2, 3, 4, 0x62, 0x66}, "msglen63"},
	}
	{
		// decompressed-size limit tripping INSIDE a message: the first fragment ends on a deflate block
		// boundary and already inflates to 50 bytes (limit 10); the ping after it must not be answered
		var zb bytes.Buffer
		fw, _ := flate.NewWriter(&zb, 1)
		fw.Write(bytes.Repeat([]byte("x"), 50))
		fw.Flush()
		n1 := zb.Len()
		fw.Write(bytes.Repeat([]byte("y"), 50))
		fw.Flush()
		z := zb.Bytes()
		z = z[:len(z)-4]
		corpus = append(corpus, cc{withC(srv, func(c *c29Cfg) { c.Compress = true; c.DLimit = 10 }),
			mk(c29Frame{Op: 2, Rsv: 0x40, Masked: true, Key: k, Payload: z[:n1]},
				c29Frame{Fin: true, Op: 9, Masked: true, Key: k, Payload: []byte("late")},
				c29Frame{Fin: true, Op: 0, Masked: true, Key: k, Payload: z[n1:]}), "dlimit-inside-message"})
		corpus = append(corpus, cc{withC(srv, func(c *c29Cfg) { c.Compress = true; c.DLimit = 60 }),
			mk(c29Frame{Op: 2, Rsv: 0x40, Masked: true, Key: k, Payload: z[:n1]},
				c29Frame{Fin: true, Op: 9, Masked: true, Key: k, Payload: []byte("soon")},
				c29Frame{Fin: true, Op: 0, Masked: true, Key: k, Payload: z[n1:]}), "dlimit-at-end-of-message"})
	}
	for i := 0; i < w.N; i++ {
		if !w.Want(i) {
			continue
		}
		r := w.Rand(i)
		if i < len(corpus) {
			c29Emit(w, i, corpus[i].cfg, corpus[i].stream, "corpus:"+corpus[i].name)
			continue
		}
		cfg := c29PickCfg(r, close1, h2size)
		fam := r.Intn(22)
		if fam >= 20 {
			c29Pair(w, i, r, close1)
			continue
		}
		switch {
		case fam < 7: // conforming session, possibly ended by a close frame
			big := r.Intn(40) == 0
			frames, _ := c29Session(r, cfg, big, false)
			if r.Intn(2) == 0 {
				frames = append(frames, c29Close(r, cfg.Server))
			}
			c29Emit(w, i, cfg, c29Encode(frames), "valid")
		case fam < 10: // truncated conforming session
			frames, _ := c29Session(r, cfg, false, false)
			frames = append(frames, c29Close(r, cfg.Server))
			s := c29Encode(frames)
			c29Emit(w, i, cfg, s[:r.Intn(len(s)+1)], "truncated")
		case fam < 17: // one violation from the catalogue
			frames, _ := c29Session(r, cfg, false, true)
			frames, name := c29Mutate(r, cfg, frames)
			s := c29Encode(frames)
			if r.Intn(6) == 0 && name != "rsv1-data-uncompressed" && name != "deflate-corrupt" { // (flate fails before a truncation is noticed)
				s = s[:r.Intn(len(s)+1)]
				name += "+trunc"
			}
			c29Emit(w, i, cfg, s, "mut:"+name)
		case fam < 19: // semi-structured random frames
			cfg.Compress = false
			cfg.DLimit = 0
			var s []byte
			for n := r.Intn(4); n >= 0; n-- {
				f := c29Frame{Fin: r.Intn(4) > 0, Op: []byte{0, 1, 2, 2, 8, 9, 10, byte(r.Intn(16))}[r.Intn(8)], Masked: r.Intn(8) > 0 == cfg.Server}
				if r.Intn(12) == 0 {
					f.Rsv = byte(r.Intn(8)) << 4
				}
				f.Payload = make([]byte, r.Intn(8))
				r.Read(f.Payload)
				if f.Op == 1 {
					f.Payload = c29Text(r, len(f.Payload))
				}
				if f.Op == 8 && len(f.Payload) == 1 {
					f.Payload = nil
				}
				r.Read(f.Key[:])
				s = append(s, f.encode()...)
			}
			if r.Intn(3) == 0 {
				s = s[:r.Intn(len(s)+1)]
			}
			c29Emit(w, i, cfg, s, "frames")
		default: // raw random bytes
			cfg.Compress = false
			cfg.DLimit = 0
			s := make([]byte, r.Intn(24))
			r.Read(s)
			if len(s) > 0 && r.Intn(2) == 0 {
				s[0] = s[0]&0x8f | 0x80
				if s[0]&0xf == 1 {
					s[0]++ // no random text payloads
				}
			}
			c29Emit(w, i, cfg, s, "bytes")
		}
	}
}
