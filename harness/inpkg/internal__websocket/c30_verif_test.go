package websocket

// C30 driver: sequences of write operations on a real Conn (all write APIs, both roles, small and
// large write buffers); the wire bytes are captured and then read back by a second real Conn of the
// opposite role.  Compiled together with c29_verif_test.go (shared in-memory conn and reader runner).

import (
	"bytes"
	"compress/flate"
	"errors"
	"fmt"
	"io"
	"math/rand"
	"strings"
	"testing"
	"time"
)

type c30Chunk struct {
	Kind string `json:"k"` // write | string | readfrom
	Data []byte `json:"d"`
}

type c30Op struct {
	Kind   string     `json:"k"` // message | stream | control | prepared | open (NextWriter + writes, never closed)
	Typ    int        `json:"t"`
	Data   []byte     `json:"d,omitempty"`
	Chunks []c30Chunk `json:"cs,omitempty"`
	PKeys  [][]byte   `json:"pkeys,omitempty"`
	ZOn    bool       `json:"zon"` // EnableWriteCompression flag in force for this operation
	Z      [][]byte   `json:"-"` // chunks the flate.Writer hands to its destination (compressed data messages)
	ZN     int        `json:"zchunks,omitempty"`
	Err    int        `json:"err"`
	ErrStr string     `json:"errs,omitempty"`
}

func c30ErrCode(err error) int {
	switch {
	case err == nil:
		return 0
	case err == errInvalidControlFrame:
		return 1
	case err == errBadWriteOpCode:
		return 2
	case errors.Is(err, ErrCloseSent):
		return 3
	}
	return 4
}

// c30Keys walks the frames on the wire and returns the masking keys (client frames) in order.
func c30Keys(wire []byte) (keys [][]byte, ok bool) {
	b := wire
	for len(b) > 0 {
		if len(b) < 2 {
			return keys, false
		}
		n := uint64(b[1] & 0x7f)
		masked := b[1]&0x80 != 0
		h := 2
		switch n {
		case 126:
			if len(b) < 4 {
				return keys, false
			}
			n = uint64(b[2])<<8 | uint64(b[3])
			h = 4
		case 127:
			if len(b) < 10 {
				return keys, false
			}
			n = 0
			for i := 2; i < 10; i++ {
				n = n<<8 | uint64(b[i])
			}
			h = 10
		}
		if masked {
			if len(b) < h+4 {
				return keys, false
			}
			keys = append(keys, append([]byte{}, b[h:h+4]...))
			h += 4
		}
		if uint64(len(b)-h) < n {
			return keys, false
		}
		b = b[h+int(n):]
	}
	return keys, true
}

func c30Bytes(r *rand.Rand, typ int, n int) []byte {
	if n > 2000 {
		return bytes.Repeat([]byte{byte('A' + r.Intn(26))}, n)
	}
	if typ == 1 {
		return c29Text(r, n)
	}
	b := make([]byte, n)
	r.Read(b)
	return b
}

// sizes around the boundaries of header layouts, of the write buffer and of the large-write bypass
func c30Size(r *rand.Rand, wbs int, big bool) int {
	total := wbs + maxFrameHeaderSize
	c := []int{0, 1, 2, 124, 125, 126, 127, wbs - 1, wbs, wbs + 1, 2*wbs - 1, 2 * wbs, 2*wbs + 1, 2*total - 1, 2 * total, 2*total + 1, 3*wbs + 2}
	switch r.Intn(10) {
	case 0, 1, 2, 3, 4:
		n := c[r.Intn(len(c))]
		if n < 0 {
			n = 0
		}
		if n > 700 {
			n = 700 // sizes relative to large buffers are covered by the rare `big` cases and the corpus
		}
		return n
	case 5:
		if big {
			return []int{65535, 65536, 65537, 8221, 8222}[r.Intn(5)]
		}
		return 126 + r.Intn(300)
	default:
		return r.Intn(40)
	}
}

func c30GenOps(r *rand.Rand, server bool, wbs int) []c30Op {
	n := 1 + r.Intn(5)
	ops := make([]c30Op, 0, n+1)
	big := r.Intn(60) == 0 && wbs >= 4096 // with small buffers a 64K message is thousands of frames
	for i := 0; i < n; i++ {
		typ := 1 + r.Intn(2)
		switch r.Intn(12) {
		case 0, 1, 2:
			ops = append(ops, c30Op{Kind: "message", Typ: typ, Data: c30Bytes(r, typ, c30Size(r, wbs, big))})
			big = false
		case 3, 4, 5, 6:
			total := c30Size(r, wbs, big)
			big = false
			data := c30Bytes(r, typ, total)
			var cs []c30Chunk
			for k := 1 + r.Intn(4); k > 0 && len(data) > 0 || len(cs) == 0; k-- {
				cut := len(data)
				if k > 1 && len(data) > 0 {
					cut = r.Intn(len(data) + 1)
				}
				cs = append(cs, c30Chunk{Kind: []string{"write", "write", "string", "readfrom", "readfrom-eof"}[r.Intn(5)], Data: data[:cut]})
				data = data[cut:]
				if len(data) == 0 {
					break
				}
			}
			ops = append(ops, c30Op{Kind: "stream", Typ: typ, Chunks: cs})
		case 7:
			ct := 9 + r.Intn(2)
			ln := []int{0, 1, 5, 124, 125, 126, 130}[r.Intn(7)]
			p := make([]byte, ln)
			r.Read(p)
			ops = append(ops, c30Op{Kind: "control", Typ: ct, Data: p})
		case 8:
			// control message through WriteMessage / NextWriter
			ct := 9 + r.Intn(2)
			ln := []int{0, 3, 125, 126}[r.Intn(4)]
			p := make([]byte, ln)
			r.Read(p)
			if r.Intn(2) == 0 {
				ops = append(ops, c30Op{Kind: "message", Typ: ct, Data: p})
			} else {
				ops = append(ops, c30Op{Kind: "stream", Typ: ct, Chunks: []c30Chunk{{Kind: "write", Data: p}}})
			}
		case 9:
			ops = append(ops, c30Op{Kind: "prepared", Typ: typ, Data: c30Bytes(r, typ, []int{0, 5, 125, 126, 300, 300, 4095, 4096, 4097}[r.Intn(9)])})
		case 10:
			ops = append(ops, c30Op{Kind: []string{"message", "control", "stream"}[r.Intn(3)], Typ: []int{0, 3, 7, 11, -1 & 0xf}[r.Intn(5)], Data: []byte("x")})
		default:
			ops = append(ops, c30Op{Kind: "message", Typ: typ, Data: c30Bytes(r, typ, r.Intn(20))})
		}
	}
	if r.Intn(3) == 0 {
		code := c29GoodCodes[r.Intn(len(c29GoodCodes))]
		reason := c29Text(r, []int{0, 4, 123}[r.Intn(3)])
		p := append([]byte{byte(code >> 8), byte(code)}, reason...)
		if r.Intn(4) == 0 {
			p = nil
		}
		ops = append(ops, c30Op{Kind: []string{"control", "message"}[r.Intn(2)], Typ: 8, Data: p})
		if r.Intn(2) == 0 {
			ops = append(ops, c30Op{Kind: "message", Typ: 2, Data: []byte("after close")})
		}
	}
	return ops
}

func c30Exec(c *Conn, op *c30Op) {
	var err error
	switch op.Kind {
	case "message":
		err = c.WriteMessage(op.Typ, op.Data)
	case "control":
		err = c.WriteControl(op.Typ, op.Data, time.Now().Add(time.Second))
	case "prepared":
		var pm *PreparedMessage
		pm, err = NewPreparedMessage(op.Typ, op.Data)
		if err == nil {
			err = c.WritePreparedMessage(pm)
		}
	case "stream", "open":
		var w io.WriteCloser
		w, err = c.NextWriter(op.Typ)
		if err != nil {
			break
		}
		for _, ch := range op.Chunks {
			switch ch.Kind {
			case "write":
				_, err = w.Write(ch.Data)
			case "string":
				_, err = io.WriteString(w, string(ch.Data))
			case "readfrom-eof":
				_, err = w.(io.ReaderFrom).ReadFrom(&c30EOFReader{data: append([]byte{}, ch.Data...), chunk: 1 + len(ch.Data)/(1+len(ch.Data)%3)})
			default:
				_, err = w.(io.ReaderFrom).ReadFrom(bytes.NewReader(ch.Data))
			}
			if err != nil {
				break
			}
		}
		if op.Kind == "open" {
			break // the application abandons the writer: the next NextWriter / WriteMessage closes it
		}
		if cerr := w.Close(); err == nil {
			err = cerr
		}
	}
	op.Err = c30ErrCode(err)
	if err != nil {
		op.ErrStr = err.Error()
	}
}

// c30EOFReader hands out its data in chunks and returns io.EOF together with the last one.
type c30EOFReader struct {
	data  []byte
	chunk int
}

func (r *c30EOFReader) Read(p []byte) (int, error) {
	if len(r.data) == 0 {
		return 0, io.EOF
	}
	n := r.chunk
	if n > len(r.data) {
		n = len(r.data)
	}
	if n > len(p) {
		n = len(p)
	}
	copy(p, r.data[:n])
	r.data = r.data[n:]
	if len(r.data) == 0 {
		return n, io.EOF
	}
	return n, nil
}

type c30Rec struct{ chunks *[][]byte }

func (r c30Rec) Write(p []byte) (int, error) {
	*r.chunks = append(*r.chunks, append([]byte{}, p...))
	return len(p), nil
}

// c30Deflate replays the application's writes on a fresh flate.Writer (deterministic) and returns
// the chunks it wrote to its destination during the writes and the final Flush.
func c30Deflate(level int, writes [][]byte) [][]byte {
	var chunks [][]byte
	fw, _ := flate.NewWriter(c30Rec{&chunks}, level)
	for _, p := range writes {
		fw.Write(p)
	}
	fw.Flush()
	return chunks
}

func c30OpData(op c30Op) (data []byte, writes [][]byte) {
	if op.Kind == "stream" || op.Kind == "open" {
		for _, ch := range op.Chunks {
			data = append(data, ch.Data...)
			writes = append(writes, ch.Data)
		}
		return data, writes
	}
	return op.Data, [][]byte{op.Data}
}

func c30OpCoq(op c30Op) string {
	if op.Z != nil {
		zs := make([]string, len(op.Z))
		for i, z := range op.Z {
			zs[i] = vBytes(z)
		}
		data, _ := c30OpData(op)
		if op.Kind == "prepared" {
			ks := make([]string, len(op.PKeys))
			for i, k := range op.PKeys {
				ks[i] = vBytes(k)
			}
			return vApp("OpPreparedZ", vN(uint64(op.Typ)), c29Term(data), vList(zs), vList(ks))
		}
		return vApp("OpZ", vN(uint64(op.Typ)), c29Term(data), vList(zs))
	}
	switch op.Kind {
	case "message":
		return vApp("OpMessage", vN(uint64(op.Typ)), c29Term(op.Data))
	case "control":
		return vApp("OpControl", vN(uint64(op.Typ)), vBytes(op.Data))
	case "prepared":
		ks := make([]string, len(op.PKeys))
		for i, k := range op.PKeys {
			ks[i] = vBytes(k)
		}
		return vApp("OpPrepared", vN(uint64(op.Typ)), c29Term(op.Data), vList(ks))
	}
	cs := make([]string, len(op.Chunks))
	for i, ch := range op.Chunks {
		ctor := map[string]string{"write": "CWrite", "string": "CString", "readfrom": "CReadFrom", "readfrom-eof": "CReadFromE"}[ch.Kind]
		cs[i] = vApp(ctor, c29Term(ch.Data))
	}
	if op.Kind == "open" {
		return vApp("XOpen", vN(uint64(op.Typ)), vList(cs))
	}
	return vApp("OpStream", vN(uint64(op.Typ)), vList(cs))
}

// c30Abandon turns some stream operations into writers the application never closes. While such a
// writer is open only NextWriter / WriteMessage (which finish its message) and WriteControl (control
// frames may be interleaved) are used; WritePreparedMessage with an open writer is outside the API's
// contract ("at most one open writer").
func c30Abandon(r *rand.Rand, ops []c30Op) {
	open := false
	for k := range ops {
		op := &ops[k]
		switch op.Kind {
		case "stream":
			open = false
			if (op.Typ == 1 || op.Typ == 2) && r.Intn(2) == 0 {
				op.Kind = "open"
				open = true
			}
		case "message":
			open = false
		case "prepared":
			if open {
				op.Kind = "message"
				open = false
			}
		}
	}
}

func TestVerifC30(t *testing.T) {
	w := verifOpen(t, "C30")
	defer w.Close()
	type cc struct {
		server bool
		wbs    int
		ops    []c30Op
		name   string
	}
	hello := []byte("Hello")
	corpus := []cc{
		{true, 4096, []c30Op{{Kind: "message", Typ: 1, Data: hello}}, "server-hello"},
		{false, 4096, []c30Op{{Kind: "message", Typ: 1, Data: hello}}, "client-hello"},
		{true, 2, []c30Op{{Kind: "stream", Typ: 2, Chunks: []c30Chunk{{Kind: "write", Data: hello}}}}, "server-buf2-stream"},
		{false, 2, []c30Op{{Kind: "message", Typ: 2, Data: hello}}, "client-buf2"},
		{true, 16, []c30Op{{Kind: "stream", Typ: 2, Chunks: []c30Chunk{{Kind: "readfrom", Data: bytes.Repeat([]byte("r"), 16)}}}}, "readfrom-exact-buffer"},
		{true, 16, []c30Op{{Kind: "stream", Typ: 2, Chunks: []c30Chunk{{Kind: "write", Data: []byte("ab")}, {Kind: "write", Data: bytes.Repeat([]byte("L"), 61)}}}}, "bypass-with-buffered"},
		{true, 16, []c30Op{{Kind: "stream", Typ: 2, Chunks: []c30Chunk{{Kind: "readfrom-eof", Data: bytes.Repeat([]byte("e"), 16)}}}}, "readfrom-eof-exact-buffer"},
		{false, 200, []c30Op{{Kind: "stream", Typ: 1, Chunks: []c30Chunk{{Kind: "readfrom-eof", Data: []byte("data and EOF in one Read")}}}}, "readfrom-eof-client"},
		{true, 4096, []c30Op{{Kind: "message", Typ: 2, Data: bytes.Repeat([]byte("m"), 65536)}}, "server-64k"},
		{false, 4096, []c30Op{{Kind: "message", Typ: 2, Data: bytes.Repeat([]byte("m"), 65536)}}, "client-64k"},
		{true, 4096, []c30Op{{Kind: "stream", Typ: 2, Chunks: []c30Chunk{{Kind: "write", Data: bytes.Repeat([]byte("b"), 65535)}}}}, "server-64k-bypass"},
		{false, 4096, []c30Op{{Kind: "prepared", Typ: 1, Data: bytes.Repeat([]byte("p"), 5000)}}, "client-prepared-5000"},
		{true, 4096, []c30Op{{Kind: "control", Typ: 9, Data: bytes.Repeat([]byte("c"), 125)}, {Kind: "control", Typ: 9, Data: bytes.Repeat([]byte("c"), 126)}}, "ping-125-126"},
		{true, 4096, []c30Op{{Kind: "control", Typ: 8, Data: []byte{3, 232, 'o', 'k'}}, {Kind: "message", Typ: 2, Data: hello}}, "close-then-write"},
		{false, 4096, []c30Op{{Kind: "message", Typ: 0, Data: hello}, {Kind: "message", Typ: 2, Data: nil}}, "bad-type-empty"},
		{true, 4096, []c30Op{{Kind: "open", Typ: 1, Chunks: []c30Chunk{{Kind: "write", Data: hello}}}, {Kind: "message", Typ: 2, Data: []byte("next")}}, "abandoned-then-writemessage-server"},
		{false, 4096, []c30Op{{Kind: "open", Typ: 1, Chunks: []c30Chunk{{Kind: "write", Data: hello}}}, {Kind: "message", Typ: 2, Data: []byte("next")}}, "abandoned-then-writemessage-client"},
		{true, 16, []c30Op{{Kind: "open", Typ: 2, Chunks: []c30Chunk{{Kind: "write", Data: bytes.Repeat([]byte("f"), 40)}, {Kind: "string", Data: hello}}}, {Kind: "control", Typ: 9, Data: []byte("pi")}, {Kind: "stream", Typ: 1, Chunks: []c30Chunk{{Kind: "write", Data: hello}}}}, "abandoned-fragmented-ping-then-nextwriter"},
		{true, 200, []c30Op{{Kind: "open", Typ: 1, Chunks: []c30Chunk{{Kind: "readfrom", Data: hello}}}, {Kind: "open", Typ: 2, Chunks: []c30Chunk{{Kind: "write", Data: hello}}}, {Kind: "message", Typ: 0, Data: hello}}, "abandoned-twice-then-bad-type"},
		{true, 200, []c30Op{{Kind: "open", Typ: 1, Chunks: []c30Chunk{{Kind: "write", Data: hello}}}}, "abandoned-never-closed"},
		{false, 16, []c30Op{{Kind: "stream", Typ: 1, Chunks: []c30Chunk{{Kind: "string", Data: bytes.Repeat([]byte("s"), 61)}}}}, "client-writestring-over-twice-buffer"},
		{true, 16, []c30Op{{Kind: "stream", Typ: 1, Chunks: []c30Chunk{{Kind: "string", Data: bytes.Repeat([]byte("s"), 61)}}}}, "server-writestring-over-twice-buffer"},
	}
	wbsPool := []int{1, 2, 3, 16, 16, 50, 111, 125, 126, 200, 200, 4096}
	for i := 0; i < w.N; i++ {
		if !w.Want(i) {
			continue
		}
		r := w.Rand(i)
		var server bool
		var wbs int
		var ops []c30Op
		class := "random"
		compress := false
		level := 1
		if i < len(corpus) {
			server, wbs, ops, class = corpus[i].server, corpus[i].wbs, corpus[i].ops, "corpus:"+corpus[i].name
		} else {
			server = r.Intn(2) == 0
			wbs = wbsPool[r.Intn(len(wbsPool))]
			ops = c30GenOps(r, server, wbs)
			if r.Intn(4) == 0 {
				// permessage-deflate negotiated and write compression on (extension of the model)
				compress = true
				level = []int{-2, 1, 6, 9}[r.Intn(4)]
				class = "compressed"
				// c.EnableWriteCompression toggled between messages (centrifuge does this per message
				// through CompressionMinSize): compressed and plain messages on one connection
				zon := r.Intn(4) > 0
				for k := range ops {
					if r.Intn(3) == 0 {
						zon = !zon
					}
					ops[k].ZOn = zon
					for j := range ops[k].Chunks {
						if zon && strings.HasPrefix(ops[k].Chunks[j].Kind, "readfrom") { // flateWriteWrapper is no io.ReaderFrom
							ops[k].Chunks[j].Kind = "write"
						}
					}
				}
			} else if r.Intn(3) == 0 {
				class = "abandoned"
				c30Abandon(r, ops)
			}
		}
		if !compress {
			for k := range ops {
				ops[k].ZOn = true
			}
		}
		pc := &c29Conn{}
		c := newConn(pc, server, 0, wbs, nil, nil, nil)
		if compress {
			c.newCompressionWriter = compressNoContextTakeover
			c.newDecompressionReader = decompressNoContextTakeover
			_ = c.SetCompressionLevel(level)
			for k := range ops {
				if (ops[k].Typ == 1 || ops[k].Typ == 2) && ops[k].ZOn {
					if ops[k].Kind == "message" || ops[k].Kind == "stream" || ops[k].Kind == "prepared" {
						_, writes := c30OpData(ops[k])
						ops[k].Z = c30Deflate(level, writes)
						ops[k].ZN = len(ops[k].Z)
					}
				}
			}
		}
		start := make([]int, len(ops))
		for k := range ops {
			start[k] = pc.out.Len()
			if compress {
				c.EnableWriteCompression(ops[k].ZOn)
			}
			c30Exec(c, &ops[k])
			if ops[k].Kind == "prepared" && !server {
				ks, _ := c30Keys(pc.out.Bytes()[start[k]:])
				ops[k].PKeys = ks
			}
		}
		wire := append([]byte{}, pc.out.Bytes()...)
		// keys consumed by the connection itself: every masked frame that is not part of a prepared message
		var keys [][]byte
		if !server {
			for k := range ops {
				end := len(wire)
				if k+1 < len(ops) {
					end = start[k+1]
				}
				if ops[k].Kind != "prepared" {
					ks, _ := c30Keys(wire[start[k]:end])
					keys = append(keys, ks...)
				}
			}
		}
		_, wellFormed := c30Keys(wire)
		peerCfg := c29Cfg{Server: !server, Compress: compress, RBuf: 4096}
		read, wok := c29Run(peerCfg, wire)
		var tbl []c29Infl
		c29Walk(peerCfg, true, wire, &tbl)
		tb := make([]string, len(tbl))
		for k, e := range tbl {
			tb[k] = vPair(vBytes(e.In), vOpt(c29Term(e.Out), e.OK))
		}

		kt := make([]string, len(keys))
		for k, key := range keys {
			kt[k] = vBytes(key)
		}
		ot := make([]string, len(ops))
		et := make([]string, len(ops))
		nmsg, nerr := 0, 0
		for k, op := range ops {
			if op.Kind == "open" {
				ot[k] = c30OpCoq(op)
			} else {
				ot[k] = vApp("XOp", vBool(op.ZOn), c30OpCoq(op))
			}
			et[k] = vN(uint64(op.Err))
			if op.Err == 0 {
				nmsg++
			} else {
				nerr++
			}
		}
		rt := make([]string, len(read))
		for k, e := range read {
			if e.Kind == "msg" {
				rt[k] = vApp("Msg", vN(uint64(e.Op)), c29Term(e.Data))
			} else {
				rt[k] = e.coq()
			}
		}
		if !wellFormed || !wok {
			rt = append(rt, "(Err EPanic)")
			class += "/malformed"
		}
		term := vApp("mkCase", vApp("mkWcfg", vBool(server), vN(uint64(wbs+maxFrameHeaderSize)), vBool(compress)), vList(kt), vList(tb), vList(ot), c29Term(wire), vList(et), vList(rt))
		role := "client"
		if server {
			role = "server"
		}
		js := map[string]any{"server": server, "write_buffer": wbs, "compress": compress, "level": level, "ops": ops, "wire_len": len(wire), "wire": c29Hex(wire), "read": read, "fkey": "roundtrip"}
		w.Case(i, term, js, fmt.Sprintf("%s/%s/buf%d", class, role, wbs), nmsg >= 2 || len(wire) > 200)
	}
}
