package redispartition

import (
	"math/rand"
	"testing"
)

// C35 driver: observations of the real FindTags / PrecomputedSizes / TagSlot / crc16 / SlotToNode.

type c35Case struct {
	term  string
	js    map[string]any
	class string
	nontr bool
}

func c35Tags(p int) c35Case {
	tags, err := FindTags(p)
	found := err == nil
	var ts, ss []string
	slots := make([]int, 0, len(tags))
	for _, t := range tags {
		ts = append(ts, vStr(t))
		s := TagSlot(t)
		slots = append(slots, s)
		ss = append(ss, vN(uint64(s)))
	}
	js := map[string]any{"kind": "tags", "p": p, "found": found, "ntags": len(tags)}
	if len(tags) <= 32 {
		js["tags"] = tags
		js["slots"] = slots
	}
	cl := "tags/unsupported"
	if found {
		cl = "tags/supported"
	}
	return c35Case{vApp("CTags", vN(uint64(p)), vBool(found), vList(ts), vList(ss)), js, cl, found}
}

func c35Bal(p, n int) c35Case {
	tags, err := FindTags(p)
	if err != nil {
		return c35Tags(p)
	}
	counts := make([]int, n)
	for _, t := range tags {
		counts[SlotToNode(TagSlot(t), n)]++
	}
	mn, mx, sum := counts[0], counts[0], 0
	for _, c := range counts {
		if c < mn {
			mn = c
		}
		if c > mx {
			mx = c
		}
		sum += c
	}
	js := map[string]any{"kind": "balance", "p": p, "n": n, "min": mn, "max": mx, "sum": sum}
	return c35Case{vApp("CBal", vN(uint64(p)), vN(uint64(n)), vN(uint64(mn)), vN(uint64(mx)), vN(uint64(sum))), js, "balance", n > 1}
}

func c35Crc(data []byte, class string) c35Case {
	crc := crc16(data)
	slot := TagSlot(string(data))
	js := map[string]any{"kind": "crc", "data": data, "crc": crc, "slot": slot}
	return c35Case{vApp("CCrc", vBytes(data), vN(uint64(crc)), vN(uint64(slot))), js, "crc/" + class, len(data) > 0}
}

func c35Node(slot, n int) (c c35Case) {
	res, ok := 0, true
	func() {
		defer func() {
			if r := recover(); r != nil {
				ok = false
			}
		}()
		res = SlotToNode(slot, n)
	}()
	js := map[string]any{"kind": "node", "slot": slot, "n": n, "res": res, "panic": !ok}
	cl := "node"
	if !ok {
		cl = "node/panic"
	} else if n > totalSlots {
		cl = "node/oversized-cluster"
	}
	return c35Case{vApp("CNode", vN(uint64(slot)), vN(uint64(n)), vOpt(vN(uint64(res)), ok)), js, cl, ok && n >= 1 && n <= totalSlots}
}

func TestVerifC35(t *testing.T) {
	w := verifOpen(t, "C35")
	defer w.Close()
	sizes := PrecomputedSizes()
	w.Extra["precomputed_sizes"] = sizes

	// fixed part: every supported size, some unsupported ones, balance pairs, boundary slots
	type thunk func() c35Case
	var fixed []thunk
	for _, p := range sizes {
		p := p
		fixed = append(fixed, func() c35Case { return c35Tags(p) })
	}
	for _, p := range []int{0, 1, 15, 17, 100, 8192} {
		p := p
		fixed = append(fixed, func() c35Case { return c35Tags(p) })
	}
	for _, p := range sizes {
		for n := 1; n <= p; n++ {
			all := w.Tier == "thorough" || p <= 64
			edge := n <= 3 || n >= p-2 || n == p/2 || n == p/2+1 || n == p/3
			if all || edge {
				p, n := p, n
				fixed = append(fixed, func() c35Case { return c35Bal(p, n) })
			}
		}
	}
	for _, s := range []string{"", "123456789", "a", "{", "}", "{}", "foo{bar}", "\x00", "\xff\xff", "ms3", "abll"} {
		s := s
		fixed = append(fixed, func() c35Case { return c35Crc([]byte(s), "corpus") })
	}
	for _, n := range []int{1, 2, 3, 5, 6, 7, 16, 1000, 4096, 5461, 5462, 8191, 8192, 8193, 16383, 16384} {
		q, r := totalSlots/n, totalSlots%n
		b := r * (q + 1)
		for _, s := range []int{0, 1, q - 1, q, q + 1, b - 1, b, b + 1, b + q - 1, b + q, totalSlots - 2, totalSlots - 1} {
			if s >= 0 && s < totalSlots {
				s, n := s, n
				fixed = append(fixed, func() c35Case { return c35Node(s, n) })
			}
		}
	}
	fixed = append(fixed, func() c35Case { return c35Node(5, 0) }, func() c35Case { return c35Node(16383, 16385) },
		func() c35Case { return c35Node(16384, 16385) }, func() c35Case { return c35Node(20000, 3) })
	w.Extra["fixed_cases"] = len(fixed)

	total := w.N
	if total < len(fixed)+300 {
		total = len(fixed) + 300
	}
	for i := 0; i < total; i++ {
		if !w.Want(i) {
			continue
		}
		r := w.Rand(i)
		var c c35Case
		if i < len(fixed) {
			c = fixed[i]()
		} else {
			switch r.Intn(4) {
			case 0: // balance of a random (p, n)
				p := sizes[r.Intn(len(sizes))]
				c = c35Bal(p, 1+r.Intn(p))
			case 1, 2: // crc of random bytes; short strings, tag-like strings, long strings
				var data []byte
				class := "random"
				switch r.Intn(4) {
				case 0:
					data = make([]byte, r.Intn(4))
					r.Read(data)
				case 1:
					const al = "abcdefghijklmnopqrstuvwxyz0123456789"
					data = make([]byte, 1+r.Intn(5))
					for k := range data {
						data[k] = al[r.Intn(len(al))]
					}
					class = "taglike"
				case 2:
					data = make([]byte, 1+r.Intn(40))
					r.Read(data)
				default:
					data = make([]byte, 40+r.Intn(200))
					for k := range data {
						data[k] = byte(r.Intn(3)) * 0x7f
					}
					class = "long"
				}
				c = c35Crc(data, class)
			default:
				n := 1 + r.Intn(totalSlots)
				if r.Intn(3) == 0 {
					n = 1 + r.Intn(64)
				}
				c = c35Node(r.Intn(totalSlots), n)
			}
		}
		w.Case(i, c.term, c.js, c.class, c.nontr)
	}
	_ = rand.Int
}
