package redispartition

import (
	"math/rand"
	"testing"
)

// C35 driver: observations of the real FindTags / PrecomputedSizes / TagSlot / crc16 / SlotToNode.

type c35Case struct {
	term  string
	js    map[string]any
	class string
	nontr bool
}

// c35Held is what callers hold: tables returned by FindTags earlier in this process, examined only
// after all later lookups (of other sizes, in both orders) have happened.
type c35Held struct {
	accepted []int            // every p in 0..c35ProbeHi for which FindTags(p) succeeded
	asc      map[int][]string // obtained by calls in ascending order of p
	desc     map[int][]string // obtained afterwards by calls in descending order of p
}

const c35ProbeHi = 16400

func c35Acquire() *c35Held {
	h := &c35Held{asc: map[int][]string{}, desc: map[int][]string{}}
	for p := 0; p <= c35ProbeHi; p++ {
		if _, err := FindTags(p); err == nil {
			h.accepted = append(h.accepted, p)
		}
	}
	for _, p := range h.accepted {
		t, _ := FindTags(p)
		h.asc[p] = t
	}
	for i := len(h.accepted) - 1; i >= 0; i-- {
		t, _ := FindTags(h.accepted[i])
		h.desc[h.accepted[i]] = t
	}
	return h
}

func (h *c35Held) table(p int, which int) ([]string, string) {
	if which%2 == 0 {
		return h.desc[p], "held-desc"
	}
	return h.asc[p], "held-asc"
}

// c35Tags reports a table as held by a caller (or the error of a fresh lookup for a rejected count).
func c35Tags(h *c35Held, p int, which int) c35Case {
	tags, how := h.table(p, which)
	found := tags != nil
	if !found {
		_, err := FindTags(p)
		if err == nil {
			panic("FindTags accepts a count the probe saw rejected")
		}
	}
	var ts, ss []string
	slots := make([]int, 0, len(tags))
	for _, t := range tags {
		ts = append(ts, vStr(t))
		s := TagSlot(t)
		slots = append(slots, s)
		ss = append(ss, vN(uint64(s)))
	}
	js := map[string]any{"kind": "tags", "p": p, "found": found, "ntags": len(tags), "held": how}
	if len(tags) <= 32 {
		js["tags"] = tags
		js["slots"] = slots
	}
	cl := "tags/unsupported"
	if found {
		cl = "tags/" + how
	}
	return c35Case{vApp("CTags", vN(uint64(p)), vBool(found), vList(ts), vList(ss)), js, cl, found}
}

func c35Counts(tags []string, n int) (mn, mx, sum int) {
	counts := make([]int, n)
	for _, t := range tags {
		counts[SlotToNode(TagSlot(t), n)]++
	}
	mn, mx = counts[0], counts[0]
	for _, c := range counts {
		if c < mn {
			mn = c
		}
		if c > mx {
			mx = c
		}
		sum += c
	}
	return
}

// c35Bal: per-node counters over a table held since the acquisition phase.
func c35Bal(h *c35Held, p, n int, which int) c35Case {
	tags, how := h.table(p, which)
	mn, mx, sum := c35Counts(tags, n)
	js := map[string]any{"kind": "balance", "p": p, "n": n, "min": mn, "max": mx, "sum": sum, "held": how}
	return c35Case{vApp("CBal", vN(uint64(p)), vN(uint64(n)), vN(uint64(mn)), vN(uint64(mx)), vN(uint64(sum))), js, "balance/" + how, n > 1}
}

// c35BalInterleaved: obtain the p table, then look up another count q, then count over the table still held.
func c35BalInterleaved(p, q, n int) c35Case {
	tags, _ := FindTags(p)
	_, _ = FindTags(q)
	mn, mx, sum := c35Counts(tags, n)
	js := map[string]any{"kind": "balance", "p": p, "n": n, "min": mn, "max": mx, "sum": sum, "held": "interleaved", "then_lookup": q}
	return c35Case{vApp("CBal", vN(uint64(p)), vN(uint64(n)), vN(uint64(mn)), vN(uint64(mx)), vN(uint64(sum))), js, "balance/interleaved", n > 1}
}

func c35Probe(h *c35Held) c35Case {
	var ls, as []string
	listed := PrecomputedSizes()
	for _, p := range listed {
		ls = append(ls, vN(uint64(p)))
	}
	for _, p := range h.accepted {
		as = append(as, vN(uint64(p)))
	}
	js := map[string]any{"kind": "probe", "hi": c35ProbeHi, "listed": listed, "accepted": h.accepted}
	return c35Case{vApp("CProbe", vN(c35ProbeHi), vList(ls), vList(as)), js, "probe", true}
}

func c35Crc(data []byte, class string) c35Case {
	crc := crc16(data)
	slot := TagSlot(string(data))
	js := map[string]any{"kind": "crc", "data": data, "crc": crc, "slot": slot}
	return c35Case{vApp("CCrc", vBytes(data), vN(uint64(crc)), vN(uint64(slot))), js, "crc/" + class, len(data) > 0}
}

func c35Node(slot, n int) (c c35Case) {
	res, ok := 0, true
	func() {
		defer func() {
			if r := recover(); r != nil {
				ok = false
			}
		}()
		res = SlotToNode(slot, n)
	}()
	js := map[string]any{"kind": "node", "slot": slot, "n": n, "res": res, "panic": !ok}
	cl := "node"
	if !ok {
		cl = "node/panic"
	} else if n > totalSlots {
		cl = "node/oversized-cluster"
	}
	return c35Case{vApp("CNode", vN(uint64(slot)), vN(uint64(n)), vOpt(vN(uint64(res)), ok)), js, cl, ok && n >= 1 && n <= totalSlots}
}

func TestVerifC35(t *testing.T) {
	w := verifOpen(t, "C35")
	defer w.Close()
	held := c35Acquire()
	sizes := held.accepted // every count FindTags accepts, found by probing (not PrecomputedSizes())
	if len(sizes) == 0 {
		t.Fatal("FindTags accepts no partition count in 0..16400")
	}
	w.Extra["precomputed_sizes"] = PrecomputedSizes()
	w.Extra["accepted_by_probe"] = sizes

	// fixed part: the probe, every accepted size as held by a caller, some rejected ones, balance pairs, boundary slots
	type thunk func() c35Case
	var fixed []thunk
	fixed = append(fixed, func() c35Case { return c35Probe(held) })
	for _, p := range sizes {
		p := p
		fixed = append(fixed, func() c35Case { return c35Tags(held, p, 0) })
		if p <= 512 {
			fixed = append(fixed, func() c35Case { return c35Tags(held, p, 1) })
		}
	}
	for _, p := range []int{0, 1, 2, 3, 4, 8, 15, 17, 100, 8192} {
		p := p
		if held.desc[p] == nil {
			fixed = append(fixed, func() c35Case { return c35Tags(held, p, 0) })
		}
	}
	for _, p := range sizes {
		for n := 1; n <= p; n++ {
			all := w.Tier == "thorough" || p <= 64
			edge := n <= 3 || n >= p-2 || n == p/2 || n == p/2+1 || n == p/3
			if all || edge {
				p, n := p, n
				fixed = append(fixed, func() c35Case { return c35Bal(held, p, n, n) })
			}
		}
	}
	for _, s := range []string{"", "123456789", "a", "{", "}", "{}", "foo{bar}", "\x00", "\xff\xff", "ms3", "abll"} {
		s := s
		fixed = append(fixed, func() c35Case { return c35Crc([]byte(s), "corpus") })
	}
	for _, n := range []int{1, 2, 3, 5, 6, 7, 16, 1000, 4096, 5461, 5462, 8191, 8192, 8193, 16383, 16384} {
		q, r := totalSlots/n, totalSlots%n
		b := r * (q + 1)
		for _, s := range []int{0, 1, q - 1, q, q + 1, b - 1, b, b + 1, b + q - 1, b + q, totalSlots - 2, totalSlots - 1} {
			if s >= 0 && s < totalSlots {
				s, n := s, n
				fixed = append(fixed, func() c35Case { return c35Node(s, n) })
			}
		}
	}
	fixed = append(fixed, func() c35Case { return c35Node(5, 0) }, func() c35Case { return c35Node(16383, 16385) },
		func() c35Case { return c35Node(16384, 16385) }, func() c35Case { return c35Node(20000, 3) })
	w.Extra["fixed_cases"] = len(fixed)

	total := w.N
	if total < len(fixed)+300 {
		total = len(fixed) + 300
	}
	for i := 0; i < total; i++ {
		if !w.Want(i) {
			continue
		}
		r := w.Rand(i)
		var c c35Case
		if i < len(fixed) {
			c = fixed[i]()
		} else {
			switch r.Intn(4) {
			case 0: // balance of a random (p, n): held table, or a table obtained just before another lookup
				p := sizes[r.Intn(len(sizes))]
				if r.Intn(2) == 0 {
					c = c35Bal(held, p, 1+r.Intn(p), r.Intn(2))
				} else {
					c = c35BalInterleaved(p, sizes[r.Intn(len(sizes))], 1+r.Intn(p))
				}
			case 1, 2: // crc of random bytes; short strings, tag-like strings, long strings
				var data []byte
				class := "random"
				switch r.Intn(4) {
				case 0:
					data = make([]byte, r.Intn(4))
					r.Read(data)
				case 1:
					const al = "abcdefghijklmnopqrstuvwxyz0123456789"
					data = make([]byte, 1+r.Intn(5))
					for k := range data {
						data[k] = al[r.Intn(len(al))]
					}
					class = "taglike"
				case 2:
					data = make([]byte, 1+r.Intn(40))
					r.Read(data)
				default:
					data = make([]byte, 40+r.Intn(200))
					for k := range data {
						data[k] = byte(r.Intn(3)) * 0x7f
					}
					class = "long"
				}
				c = c35Crc(data, class)
			default:
				n := 1 + r.Intn(totalSlots)
				if r.Intn(3) == 0 {
					n = 1 + r.Intn(64)
				}
				c = c35Node(r.Intn(totalSlots), n)
			}
		}
		w.Case(i, c.term, c.js, c.class, c.nontr)
	}
	_ = rand.Int
}
