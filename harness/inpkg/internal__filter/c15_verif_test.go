package filter

import (
	"crypto/sha256"
	"math/rand"
	"strings"
	"testing"

	"github.com/centrifugal/protocol"
	"github.com/quagmt/udecimal"
)

// C15 driver: filter trees x tag maps through the real Validate / Match / Hash, plus direct
// udecimal.Parse acceptance of every numeral that occurs in a case.

type c15Node struct {
	Op    string     `json:"op"`
	Key   string     `json:"key,omitempty"`
	Cmp   string     `json:"cmp,omitempty"`
	Val   string     `json:"val,omitempty"`
	Vals  []string   `json:"vals,omitempty"`
	Nodes []*c15Node `json:"nodes,omitempty"`
}

func (n *c15Node) proto() *protocol.FilterNode {
	f := &protocol.FilterNode{Op: n.Op, Key: n.Key, Cmp: n.Cmp, Val: n.Val}
	if n.Vals != nil {
		f.Vals = append([]string{}, n.Vals...)
	}
	for _, c := range n.Nodes {
		f.Nodes = append(f.Nodes, c.proto())
	}
	return f
}

func (n *c15Node) coq() string {
	vals := make([]string, len(n.Vals))
	for i, v := range n.Vals {
		vals[i] = vStr(v)
	}
	kids := make([]string, len(n.Nodes))
	for i, c := range n.Nodes {
		kids[i] = c.coq()
	}
	return vApp("Node", vStr(n.Op), vStr(n.Key), vStr(n.Cmp), vStr(n.Val), vList(vals), vList(kids))
}

func (n *c15Node) clone() *c15Node {
	m := &c15Node{Op: n.Op, Key: n.Key, Cmp: n.Cmp, Val: n.Val}
	if n.Vals != nil {
		m.Vals = append([]string{}, n.Vals...)
	}
	for _, c := range n.Nodes {
		m.Nodes = append(m.Nodes, c.clone())
	}
	return m
}

func (n *c15Node) depth() int {
	d := 0
	for _, c := range n.Nodes {
		if x := c.depth(); x > d {
			d = x
		}
	}
	return d + 1
}

func (n *c15Node) walk(fn func(*c15Node)) {
	fn(n)
	for _, c := range n.Nodes {
		c.walk(fn)
	}
}

var c15Keys = []string{"a", "b", "c", "k", ""}
var c15Strs = []string{"", "a", "ab", "abc", "b", "bc", "c", "abcabc", "x", " ", "A"}
var c15ValueCmps = []string{"eq", "neq", "sw", "ew", "ct", "gt", "gte", "lt", "lte"}
var c15NumCmps = []string{"gt", "gte", "lt", "lte"}
var c15AllCmps = []string{"eq", "neq", "in", "nin", "ex", "nex", "sw", "ew", "ct", "gt", "gte", "lt", "lte"}

func c15Rep(s string, n int) string { return strings.Repeat(s, n) }

// numeric edge numerals (DESIGN §5 C15) and the boundaries of udecimal's two parsing paths
var c15Numerals = []string{
	"0", "-0", "+0", "00", "0.0", "-0.0", "0.000", "1", "-1", "+1", "007", "7", "-7", "10", "9", "1.5", "1.50", "01.5", "-1.5", "+1.5",
	"2", "2.0", "2.5", "-2.5", "100", "1e3", "1E3", "0x10", "+", "-", ".", ".5", "5.", "-.5", "+.5", "-5.", "1.2.3", "1..2", "1.2.",
	"", " 1", "1 ", "1,5", "1_000", "١٢", "１", "--1", "++1", "+-1", "-+1", "--0", "-+0", "1-", "1+", "a", "1a", "NaN", "Inf", "-Inf",
	"0.1234567890123456789", "0.12345678901234567890", "1.0000000000000000000", "1.00000000000000000000", "0.0000000000000000001",
	"-0.0000000000000000001", "0.0000000000000000000", "1234567890123456789", "12345678901234567890", "9999999999999999999",
	"18446744073709551615", "18446744073709551616", "123456789.123456789", "1234567890.123456789", "12345678.1234567890123",
	"340282366920938463463374607431768211455", "340282366920938463463374607431768211456", "340282366920938463463374607431768211457",
	"-340282366920938463463374607431768211455", "-340282366920938463463374607431768211456", "+340282366920938463463374607431768211456",
	"34028236692093846346.3374607431768211455", "34028236692093846346.3374607431768211456", "3402823669209384634633746074317682114.56",
	c15Rep("9", 38), c15Rep("9", 39), c15Rep("9", 40), c15Rep("9", 41), c15Rep("9", 42), "-" + c15Rep("9", 40), "-" + c15Rep("9", 41),
	"1" + c15Rep("0", 38), "1" + c15Rep("0", 39), c15Rep("0", 41) + "1", c15Rep("0", 41), c15Rep("0", 42), c15Rep("0", 60) + "5",
	c15Rep("9", 21) + "." + c15Rep("9", 19), c15Rep("9", 22) + "." + c15Rep("9", 18), c15Rep("9", 20) + "." + c15Rep("9", 20), c15Rep("9", 39) + ".x",
	c15Rep("9", 39) + ".5", c15Rep("9", 40) + "x", "x" + c15Rep("9", 40), c15Rep("9", 30) + "x" + c15Rep("9", 10),
	"-+" + c15Rep("9", 38), "-+" + c15Rep("9", 39), "-+" + c15Rep("9", 40), "-+" + c15Rep("1", 45), "--" + c15Rep("0", 39), "--" + c15Rep("0", 40),
	"--" + c15Rep("0", 45), "--" + c15Rep("0", 44) + "1", "++" + c15Rep("1", 45), "+-" + c15Rep("1", 45), "+-" + c15Rep("0", 45), "-+" + c15Rep("0", 45),
	"-+" + c15Rep("1", 30) + "." + c15Rep("1", 15), "--" + c15Rep("0", 30) + "." + c15Rep("0", 15), "-+-" + c15Rep("1", 45), "-++" + c15Rep("1", 45),
	"+" + c15Rep("1", 45), "-" + c15Rep("1", 45), "+" + c15Rep("1", 30) + "." + c15Rep("1", 15), c15Rep("1", 45) + ".", "." + c15Rep("1", 45),
	c15Rep("1", 30) + "." + c15Rep("1", 19), c15Rep("1", 30) + "." + c15Rep("1", 20), c15Rep("1", 30) + ".1.1" + c15Rep("1", 10), c15Rep("1", 45) + "_1",
	c15Rep("1", 45) + "e1", "0x" + c15Rep("1", 45), "0b" + c15Rep("1", 45), c15Rep("1", 22) + "_" + c15Rep("1", 22), "+" + c15Rep("1", 44) + " ",
	c15Rep("7", 199), c15Rep("7", 200), c15Rep("7", 201), "-" + c15Rep("7", 199), "-" + c15Rep("7", 200), c15Rep("7", 180) + "." + c15Rep("7", 19),
	c15Rep("7", 181) + "." + c15Rep("7", 19), c15Rep("0", 200), c15Rep("0", 201), c15Rep("7", 300),
}

func c15Digits(r *rand.Rand, n int) string {
	b := make([]byte, n)
	for i := range b {
		switch r.Intn(6) {
		case 0:
			b[i] = '0'
		case 1:
			b[i] = '9'
		default:
			b[i] = byte('0' + r.Intn(10))
		}
	}
	return string(b)
}

// grammar-directed numeral, with a small mutation rate
func c15RandNumeral(r *rand.Rand) string {
	if r.Intn(4) == 0 {
		return c15Numerals[r.Intn(len(c15Numerals))]
	}
	var sb strings.Builder
	switch r.Intn(8) {
	case 0:
		sb.WriteByte('-')
	case 1:
		sb.WriteByte('+')
	case 2:
		if r.Intn(4) == 0 {
			sb.WriteString([]string{"-+", "--", "++", "+-"}[r.Intn(4)])
		}
	}
	intLens := []int{1, 1, 2, 3, 5, 17, 18, 19, 20, 21, 37, 38, 39, 40, 41, 42, 43, 60, 150, 198}
	il := intLens[r.Intn(len(intLens))]
	if r.Intn(3) == 0 {
		sb.WriteString(c15Rep("0", il))
	} else {
		sb.WriteString(c15Digits(r, il))
	}
	if r.Intn(2) == 0 {
		sb.WriteByte('.')
		fl := []int{0, 1, 1, 2, 3, 10, 18, 19, 20, 21}[r.Intn(10)]
		if r.Intn(3) == 0 {
			sb.WriteString(c15Rep("0", fl))
		} else {
			sb.WriteString(c15Digits(r, fl))
		}
	}
	s := sb.String()
	if r.Intn(10) == 0 && len(s) > 0 { // mutate one byte
		b := []byte(s)
		b[r.Intn(len(b))] = []byte{'.', '-', '+', 'e', '_', ' ', 'x', '0', 0xd9}[r.Intn(9)]
		s = string(b)
	}
	return s
}

// a numeral equal or close in value to s (trailing/leading zeros, last digit changed, sign flipped)
func c15Near(r *rand.Rand, s string) string {
	switch r.Intn(7) {
	case 0:
		return s
	case 1:
		if strings.Contains(s, ".") {
			return s + "0"
		}
		return s + ".0"
	case 2:
		if strings.HasPrefix(s, "-") || strings.HasPrefix(s, "+") {
			return s[:1] + "0" + s[1:]
		}
		return "0" + s
	case 3:
		if len(s) > 0 {
			b := []byte(s)
			k := len(b) - 1 - r.Intn(min(len(b), 3))
			if b[k] >= '0' && b[k] <= '9' {
				b[k] = byte('0' + r.Intn(10))
			}
			return string(b)
		}
		return s
	case 4:
		if strings.HasPrefix(s, "-") {
			return s[1:]
		}
		return "-" + s
	case 5:
		if strings.HasPrefix(s, "+") {
			return s[1:]
		}
		return "+" + s
	default:
		return c15RandNumeral(r)
	}
}

func c15Str(r *rand.Rand) string {
	if r.Intn(8) == 0 {
		return c15RandNumeral(r)
	}
	return c15Strs[r.Intn(len(c15Strs))]
}

func c15Leaf(r *rand.Rand) *c15Node {
	n := &c15Node{Key: c15Keys[r.Intn(4)]}
	switch k := r.Intn(10); {
	case k < 3: // set comparators, often with "" among the values
		n.Cmp = []string{"in", "nin"}[r.Intn(2)]
		m := 1 + r.Intn(3)
		for j := 0; j < m; j++ {
			if r.Intn(3) == 0 {
				n.Vals = append(n.Vals, "")
			} else {
				n.Vals = append(n.Vals, c15Str(r))
			}
		}
	case k < 4:
		n.Cmp = []string{"ex", "nex"}[r.Intn(2)]
		if r.Intn(4) == 0 {
			n.Key = ""
		}
	case k < 7:
		n.Cmp = c15NumCmps[r.Intn(4)]
		n.Val = c15RandNumeral(r)
	default:
		n.Cmp = c15ValueCmps[r.Intn(5)]
		n.Val = c15Strs[1+r.Intn(len(c15Strs)-1)]
	}
	return n
}

func c15Tree(r *rand.Rand, depth int) *c15Node {
	if depth <= 1 || r.Intn(3) == 0 {
		return c15Leaf(r)
	}
	n := &c15Node{}
	switch r.Intn(3) {
	case 0:
		n.Op = "and"
	case 1:
		n.Op = "or"
	default:
		n.Op = "not"
	}
	k := 1
	if n.Op != "not" {
		k = 1 + r.Intn(3)
	}
	for j := 0; j < k; j++ {
		n.Nodes = append(n.Nodes, c15Tree(r, depth-1))
	}
	return n
}

// make a tree malformed (or at least unusual) at one random node
func c15Mutate(r *rand.Rand, root *c15Node) {
	var all []*c15Node
	root.walk(func(n *c15Node) { all = append(all, n) })
	n := all[r.Intn(len(all))]
	switch r.Intn(14) {
	case 0:
		n.Cmp = ""
	case 1:
		n.Val = "x"
		n.Vals = []string{"y"}
	case 2:
		n.Nodes = nil
	case 3:
		n.Nodes = append(n.Nodes, c15Leaf(r))
	case 4:
		n.Op = []string{"xor", "AND", "nor", "leaf", " ", "an", "andd"}[r.Intn(7)]
	case 5:
		n.Cmp = []string{"equals", "EQ", "ge", "le", "e", "gtee", "i", "n"}[r.Intn(8)]
	case 6:
		n.Key = ""
	case 7:
		n.Val = ""
	case 8:
		n.Vals = nil
	case 9:
		n.Vals = []string{}
	case 10:
		n.Op = []string{"and", "or", "not", ""}[r.Intn(4)]
	case 11:
		n.Cmp = c15AllCmps[r.Intn(len(c15AllCmps))]
	case 12:
		n.Key, n.Cmp, n.Val = "k", "eq", "v" // extra leaf fields on an inner node / plain leaf
	default:
		n.Vals = append(n.Vals, "")
	}
}

func c15Tags(r *rand.Rand, numeric string) map[string]string {
	m := map[string]string{}
	for _, k := range c15Keys[:4] {
		switch r.Intn(5) {
		case 0, 1: // absent
		case 2:
			m[k] = ""
		case 3:
			if numeric != "" || r.Intn(2) == 0 {
				m[k] = c15Near(r, numeric)
			} else {
				m[k] = c15Str(r)
			}
		default:
			m[k] = c15Str(r)
		}
	}
	if r.Intn(10) == 0 {
		m[""] = c15Str(r)
	}
	return m
}

func c15Sorted(m map[string]string) [][2]string {
	var out [][2]string
	for _, k := range []string{"", "a", "b", "c", "k"} {
		if v, ok := m[k]; ok {
			out = append(out, [2]string{k, v})
		}
	}
	return out
}

func c15Leaf1(key, cmp, val string, vals ...string) *c15Node {
	return &c15Node{Key: key, Cmp: cmp, Val: val, Vals: vals}
}

type c15Corpus struct {
	f    *c15Node
	tags map[string]string
}

func c15CorpusCases() []c15Corpus {
	and := func(ns ...*c15Node) *c15Node { return &c15Node{Op: "and", Nodes: ns} }
	or := func(ns ...*c15Node) *c15Node { return &c15Node{Op: "or", Nodes: ns} }
	not := func(ns ...*c15Node) *c15Node { return &c15Node{Op: "not", Nodes: ns} }
	return []c15Corpus{
		{c15Leaf1("a", "in", "", ""), map[string]string{}},                    // absent key, in [""]
		{c15Leaf1("a", "nin", "", ""), map[string]string{}},                   // absent key, nin [""]
		{c15Leaf1("a", "in", "", "x", ""), map[string]string{"b": "x"}},       // absent key, in ["x",""]
		{not(c15Leaf1("a", "nin", "", "", "y")), map[string]string{"b": ""}},  // not(nin) on absent key
		{c15Leaf1("a", "in", "", ""), map[string]string{"a": ""}},             // present empty value
		{c15Leaf1("a", "nin", "", ""), map[string]string{"a": ""}},
		{c15Leaf1("a", "in", "", "x"), map[string]string{}},
		{c15Leaf1("a", "nin", "", "x"), map[string]string{}},
		{c15Leaf1("a", "eq", "x"), map[string]string{"a": "x"}},
		{c15Leaf1("a", "eq", "x"), map[string]string{}},
		{c15Leaf1("a", "neq", "x"), map[string]string{}},
		{c15Leaf1("a", "ex", ""), map[string]string{"a": ""}},
		{c15Leaf1("", "ex", ""), map[string]string{"": "v"}},
		{c15Leaf1("", "nex", ""), map[string]string{}},
		{c15Leaf1("a", "sw", "ab"), map[string]string{"a": "abc"}},
		{c15Leaf1("a", "ew", "bc"), map[string]string{"a": "abc"}},
		{c15Leaf1("a", "ct", "b"), map[string]string{"a": "abc"}},
		{c15Leaf1("a", "ct", "abcd"), map[string]string{"a": "abc"}},
		{c15Leaf1("a", "gt", "1.5"), map[string]string{"a": "1.50"}},
		{c15Leaf1("a", "gte", "1.5"), map[string]string{"a": "1.50"}},
		{c15Leaf1("a", "lt", "0"), map[string]string{"a": "-0"}},
		{c15Leaf1("a", "lte", "-0.0"), map[string]string{"a": "+0"}},
		{c15Leaf1("a", "lt", "x"), map[string]string{"a": "1"}},
		{c15Leaf1("a", "lt", "1"), map[string]string{"a": "x"}},
		{c15Leaf1("a", "lt", "1"), map[string]string{}},
		{c15Leaf1("a", "gt", c15Rep("9", 39)), map[string]string{"a": c15Rep("9", 40)}},
		{c15Leaf1("a", "lt", "-+"+c15Rep("9", 40)), map[string]string{"a": "-" + c15Rep("9", 41)}},
		{c15Leaf1("a", "gte", "--"+c15Rep("0", 40)), map[string]string{"a": "0"}},
		{and(c15Leaf1("a", "eq", "x"), c15Leaf1("b", "nex", "")), map[string]string{"a": "x"}},
		{or(c15Leaf1("a", "eq", "y"), not(c15Leaf1("b", "ex", ""))), map[string]string{"a": "x", "b": ""}},
		{and(), map[string]string{}},
		{or(), map[string]string{}},
		{not(), map[string]string{}},
		{not(c15Leaf1("a", "ex", ""), c15Leaf1("a", "ex", "")), map[string]string{}},
		{and(c15Leaf1("a", "eq", "y"), c15Leaf1("a", "bad", "y")), map[string]string{"a": "x"}}, // error not reached
		{and(c15Leaf1("a", "eq", "x"), c15Leaf1("a", "bad", "y")), map[string]string{"a": "x"}}, // error reached
		{or(c15Leaf1("a", "eq", "x"), &c15Node{Op: "zzz"}), map[string]string{"a": "x"}},
		{&c15Node{Op: "zzz"}, map[string]string{}},
		{&c15Node{}, map[string]string{}},
		{c15Leaf1("a", "eq", ""), map[string]string{"a": ""}},
		{c15Leaf1("", "eq", "x"), map[string]string{"": "x"}},
		{c15Leaf1("a", "eq", "x", "y"), map[string]string{"a": "x"}},
		{c15Leaf1("a", "in", "x", "y"), map[string]string{"a": "y"}},
		{c15Leaf1("a", "in", ""), map[string]string{"a": ""}},
		{c15Leaf1("a", "ex", "x"), map[string]string{"a": ""}},
		{&c15Node{Key: "a", Cmp: "eq", Val: "x", Nodes: []*c15Node{{Op: "zzz"}}}, map[string]string{"a": "x"}}, // leaf with (ignored) children
		{&c15Node{Op: "and", Key: "k", Cmp: "bad", Val: "v", Vals: []string{"w"}, Nodes: []*c15Node{c15Leaf1("a", "ex", "")}}, map[string]string{"a": ""}},
		{c15Leaf1("a", "eq", c15Rep("v", 130)), map[string]string{"a": c15Rep("v", 130)}},           // 2-byte varint length
		{c15Leaf1("a", "in", "", c15Rep("v", 300), "", c15Rep("w", 128)), map[string]string{"a": ""}},
	}
}

func TestVerifC15(t *testing.T) {
	w := verifOpen(t, "C15")
	defer w.Close()
	corpus := c15CorpusCases()
	nNum := len(c15Numerals)
	for i := 0; i < w.N; i++ {
		if !w.Want(i) {
			continue
		}
		r := w.Rand(i)
		var f *c15Node
		var tags map[string]string
		class := ""
		j := i - len(corpus)
		switch {
		case i < len(corpus):
			f, tags, class = corpus[i].f, corpus[i].tags, "corpus"
		case j < nNum*4:
			// every corpus numeral on both sides: against itself-ish neighbours and a random partner
			s := c15Numerals[j/4]
			var tval string
			switch j % 4 {
			case 0:
				tval = s
			case 1:
				tval = c15Near(r, s)
			default:
				tval = c15Numerals[r.Intn(nNum)]
			}
			cmp := c15NumCmps[r.Intn(4)]
			if j%4 == 3 {
				s, tval = tval, s
			}
			f, tags, class = c15Leaf1("a", cmp, s), map[string]string{"a": tval}, "numeral-corpus"
		default:
			switch k := r.Intn(20); {
			case k < 5: // the defect class: set comparator x (absent | empty | other) x vals with ""
				n := &c15Node{Key: "a", Cmp: []string{"in", "nin"}[r.Intn(2)]}
				m := 1 + r.Intn(3)
				for q := 0; q < m; q++ {
					if r.Intn(2) == 0 {
						n.Vals = append(n.Vals, "")
					} else {
						n.Vals = append(n.Vals, c15Strs[r.Intn(len(c15Strs))])
					}
				}
				f = n
				tags = map[string]string{}
				switch r.Intn(4) {
				case 0:
					tags["a"] = ""
				case 1:
					tags["a"] = c15Strs[r.Intn(len(c15Strs))]
				}
				if r.Intn(2) == 0 {
					tags["b"] = c15Str(r)
				}
				switch r.Intn(4) {
				case 0:
					f = &c15Node{Op: "not", Nodes: []*c15Node{f}}
				case 1:
					f = &c15Node{Op: []string{"and", "or"}[r.Intn(2)], Nodes: []*c15Node{c15Leaf(r), f}}
				}
				class = "set-absent"
			case k < 10: // numeric pair
				s := c15RandNumeral(r)
				f = c15Leaf1("a", c15NumCmps[r.Intn(4)], s)
				tags = map[string]string{"a": c15Near(r, s)}
				if r.Intn(3) == 0 {
					f = &c15Node{Op: "not", Nodes: []*c15Node{f}}
				}
				class = "numeric-pair"
			case k < 16:
				f = c15Tree(r, 1+r.Intn(4))
				num := ""
				f.walk(func(n *c15Node) {
					if n.Op == "" && (n.Cmp == "gt" || n.Cmp == "gte" || n.Cmp == "lt" || n.Cmp == "lte") && (num == "" || r.Intn(2) == 0) {
						num = n.Val
					}
				})
				tags = c15Tags(r, num)
				class = "tree"
			default:
				f = c15Tree(r, 1+r.Intn(4))
				for q := 1 + r.Intn(2); q > 0; q-- {
					c15Mutate(r, f)
				}
				tags = c15Tags(r, "")
				class = "mutated"
			}
		}
		// second tree: structural copy, or a small mutation
		g := f.clone()
		if r.Intn(2) == 0 {
			c15Mutate(r, g)
		}

		panicked := false
		var valid, matchOK, matchVal bool
		var marshal []byte
		var hashPre, hashCopy, hashG bool
		func() {
			defer func() {
				if e := recover(); e != nil {
					panicked = true
				}
			}()
			pf := f.proto()
			valid = Validate(pf) == nil
			res, err := Match(pf, tags)
			matchOK, matchVal = err == nil, res
			var err2 error
			marshal, err2 = pf.MarshalVT()
			if err2 != nil {
				panic(err2)
			}
			h := Hash(pf)
			hashPre = h == sha256.Sum256(marshal)
			hashCopy = h == Hash(f.clone().proto()) && h == Hash(pf)
			hashG = h == Hash(g.proto())
		}()

		// every numeral-position string of the case, with the real engine's verdict
		numSet := map[string]bool{}
		var numOrder []string
		addNum := func(s string) {
			if _, ok := numSet[s]; !ok {
				_, err := udecimal.Parse(s)
				numSet[s] = err == nil
				numOrder = append(numOrder, s)
			}
		}
		absentSet, numericBoth, absentEmpty := false, false, false
		f.walk(func(n *c15Node) {
			if n.Op != "" {
				return
			}
			v, ok := tags[n.Key]
			switch n.Cmp {
			case "gt", "gte", "lt", "lte":
				addNum(n.Val)
				if ok {
					addNum(v)
					if numSet[n.Val] && numSet[v] {
						numericBoth = true
					}
				}
			case "in", "nin":
				if !ok {
					absentSet = true
					for _, x := range n.Vals {
						if x == "" {
							absentEmpty = true
						}
					}
				}
			}
		})
		nums := make([]string, len(numOrder))
		numsJS := make([]any, len(numOrder))
		for k, s := range numOrder {
			nums[k] = vPair(vStr(s), vBool(numSet[s]))
			numsJS[k] = map[string]any{"s": s, "accepted": numSet[s]}
		}
		st := c15Sorted(tags)
		tagTerms := make([]string, len(st))
		for k, kv := range st {
			tagTerms[k] = vPair(vStr(kv[0]), vStr(kv[1]))
		}
		matchTerm := vOpt(vBool(matchVal), matchOK)
		term := vApp("mkCase", f.coq(), g.coq(), vList(tagTerms), vBool(valid), matchTerm, vBool(panicked),
			vList(nums), vBytes(marshal), vBool(hashPre), vBool(hashCopy), vBool(hashG))
		if valid {
			class += "/valid"
		} else {
			class += "/invalid"
		}
		nontrivial := valid && (absentSet || numericBoth || f.depth() >= 2)
		var matchJS any
		if matchOK {
			matchJS = matchVal
		} else {
			matchJS = "error"
		}
		js := map[string]any{"filter": f, "other": g, "tags": tags, "valid": valid, "match": matchJS,
			"panic": panicked, "numerals": numsJS, "hash_is_sha256_of_marshal": hashPre, "hash_copy_equal": hashCopy, "hash_other_equal": hashG}
		if absentEmpty {
			js["key"] = "in-nin-absent-key-empty-string" // canonical key of finding F1 (props finding_key)
		}
		w.Case(i, term, js, class, nontrivial)
	}
}
