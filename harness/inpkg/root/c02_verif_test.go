package centrifuge

import (
	"context"
	"math/rand"
	"strconv"
	"testing"
	"testing/synctest"
	"time"

	"github.com/centrifugal/protocol"
)

// C02 / C03 driver: after a random C17 history (trims, expiry, removal, metadata discard) fresh real
// clients subscribe with recovery (stream mode: C02, cache mode: C03) against a real Node over the
// real MemoryBroker under a virtual clock. Sequential case: nothing is published while a subscribe runs
// (except by the scripted cache-empty handler).

type c02Res struct {
	Err       uint64      `json:"err,omitempty"`
	Recovered bool        `json:"recovered"`
	WasRec    bool        `json:"was_recovering"`
	Pubs      [][2]uint64 `json:"pubs,omitempty"`
	Off       uint64      `json:"off"`
	Ep        uint64      `json:"ep"`
}

type c02Step struct {
	Kind    string    `json:"step"` // base stream cache
	Op      *c17Op    `json:"op,omitempty"`
	Out     *c17Out   `json:"out,omitempty"`
	Ch      int       `json:"ch,omitempty"`
	Off     uint64    `json:"req_off,omitempty"`
	Ep      uint64    `json:"req_ep,omitempty"`
	Reject  bool      `json:"reject,omitempty"`
	UseS    bool      `json:"server_filter,omitempty"`
	UseC    bool      `json:"client_filter,omitempty"`
	Auto    bool      `json:"auto_cache_recover,omitempty"`
	Filt    []uint64  `json:"filtered_ids,omitempty"`
	Handler string    `json:"handler,omitempty"` // none no populate
	HPubs   []c02Pub  `json:"handler_pubs,omitempty"`
	Race    []c02Pub  `json:"race_pubs,omitempty"` // published from a Broker.History hook right after the subscribe's first read
	RaceOut []c17Out  `json:"race_outs,omitempty"`
	HOut    []c17Out  `json:"handler_outs,omitempty"`
	EpF     uint64    `json:"follower_ep,omitempty"` // pair step: epoch presented by the follower
	Push    *c02Push  `json:"push,omitempty"`        // server-side steps: the Subscribe push / returned error
	Deliv   [][2]uint64 `json:"delivered,omitempty"` // server-side steps: publications of the channel written to the transport
	ResF    *c02Res   `json:"follower_res,omitempty"`
	Full    *c17Out   `json:"full,omitempty"`
	Full2   *c17Out   `json:"full_after,omitempty"`
	Res     *c02Res   `json:"res,omitempty"`
}

type c02Push struct {
	Err uint64 `json:"err,omitempty"`
	Off uint64 `json:"off"`
	Ep  uint64 `json:"ep"`
}

func c02CoqPush(p *c02Push) string {
	if p.Err != 0 {
		return vApp("PErr", vN(p.Err))
	}
	return vApp("PSub", vN(p.Off), vN(p.Ep))
}

type c02Pub struct {
	ID uint64    `json:"id"`
	P  *c17Popts `json:"p"`
}

func c02CoqPubs(ps []c02Pub) string {
	xs := make([]string, len(ps))
	for i, p := range ps {
		xs[i] = vPair(vN(p.ID), c17CoqPopts(p.P))
	}
	return vList(xs)
}

func c02CoqRes(r *c02Res) string {
	if r.Err != 0 {
		return vApp("RErr", vN(r.Err))
	}
	return vApp("ROk", vBool(r.Recovered), c17CoqItems(r.Pubs), vN(r.Off), vN(r.Ep))
}

func c02CoqIDs(ids []uint64) string {
	xs := make([]string, len(ids))
	for i, v := range ids {
		xs[i] = vN(v)
	}
	return vList(xs)
}

func c02CoqStep(s c02Step) string {
	switch s.Kind {
	case "base":
		return vApp("TBase", c17CoqOp(*s.Op), c17CoqOut(*s.Out))
	case "stream":
		return vApp("TStream", vN(uint64(s.Ch)), vN(s.Off), vN(s.Ep), vBool(s.Reject), c02CoqIDs(s.Filt),
			c02CoqPubs(s.Race), c17CoqOuts(s.RaceOut), c17CoqOut(*s.Full), c02CoqRes(s.Res))
	case "sstream":
		return vApp("TSrvStream", vN(uint64(s.Ch)), vN(s.Off), vN(s.Ep), c02CoqIDs(s.Filt), c17CoqOut(*s.Full), c02CoqPush(s.Push), c17CoqItems(s.Deliv))
	case "scache":
		h := "HNo"
		if s.Handler == "populate" {
			h = vApp("HPopulate", c02CoqPubs(s.HPubs))
		}
		return vApp("TSrvCache", vN(uint64(s.Ch)), vN(s.Off), vN(s.Ep), vBool(s.UseS), c02CoqIDs(s.Filt), h, c17CoqOuts(s.HOut),
			c17CoqOut(*s.Full), c17CoqOut(*s.Full2), c02CoqPush(s.Push), c17CoqItems(s.Deliv))
	case "pair":
		return vApp("TPair", vN(uint64(s.Ch)), vN(s.Off), vN(s.Ep), vN(s.EpF), c02CoqIDs(s.Filt), c17CoqOut(*s.Full), c02CoqRes(s.Res), c02CoqRes(s.ResF))
	default:
		h := "HNone"
		switch s.Handler {
		case "no":
			h = "HNo"
		case "populate":
			h = vApp("HPopulate", c02CoqPubs(s.HPubs))
		}
		return vApp("TCache", vN(uint64(s.Ch)), vN(s.Off), vN(s.Ep), vBool(s.UseS || s.UseC), c02CoqIDs(s.Filt), h,
			c02CoqPubs(s.Race), c17CoqOuts(s.RaceOut), c17CoqOuts(s.HOut), c17CoqOut(*s.Full), c17CoqOut(*s.Full2), c02CoqRes(s.Res))
	}
}

// scenario shared with the OnSubscribe / OnCacheEmpty handlers
type c02Scenario struct {
	mode    RecoveryMode
	serverF bool
	auto    bool
	handler string
	hpubs   []c02Pub
	hch     int
	hran    int
	houts   []c17Out
	env     *c17Env
}

type c02Run struct {
	env   *c17Env
	node  *Node
	sc    *c02Scenario
	steps []c02Step
	mark  int
	pubs  map[uint64][2]bool // id -> (server-visible, client-visible)
	// counters
	recTrue, recFalse, errs, withPubs, filteredOut, populated, raced, pairs, populatedFiltered, serverSide, serverLost int
	key                                                      string
}

func (c *c02Run) flush() {
	for ; c.mark < len(c.env.Ops); c.mark++ {
		op, out := c.env.Ops[c.mark], c.env.Outs[c.mark]
		c.steps = append(c.steps, c02Step{Kind: "base", Op: &op, Out: &out})
	}
}

func (c *c02Run) base(op c17Op) {
	c.env.do(op)
	c.flush()
}

func (c *c02Run) fullRead(ch int) *c17Out {
	c.env.do(c17Op{Kind: "hist", Ch: ch, Limit: -1})
	full := c.env.Outs[len(c.env.Outs)-1]
	c.mark = len(c.env.Ops)
	return &full
}

func c02Setup(sc *c02Scenario) func(n *Node) {
	return func(n *Node) {
		n.OnConnect(func(client *Client) {
			client.OnSubscribe(func(e SubscribeEvent, cb SubscribeCallback) {
				opts := SubscribeOptions{EnableRecovery: true, EnablePositioning: true, RecoveryMode: sc.mode,
					AllowTagsFilter: true, AutoCacheRecover: sc.auto}
				if sc.serverF {
					opts.ServerTagsFilter = &FilterNode{Key: "s", Cmp: "eq", Val: "1"}
				}
				cb(SubscribeReply{Options: opts}, nil)
			})
		})
		n.OnCacheEmpty(func(e CacheEmptyEvent) (CacheEmptyReply, error) {
			switch sc.handler {
			case "populate":
				sc.hran++
				for _, hp := range sc.hpubs {
					p := *hp.P
					sc.houts = append(sc.houts, sc.env.do(c17Op{Kind: "pub", Ch: sc.hch, ID: hp.ID, P: &p}))
				}
				return CacheEmptyReply{Populated: true}, nil
			default:
				return CacheEmptyReply{Populated: false}, nil
			}
		})
	}
}

func (c *c02Run) filteredIDs(useS, useC bool) []uint64 {
	var out []uint64
	for id := uint64(1); id <= uint64(len(c.pubs)); id++ {
		v := c.pubs[id]
		if (useS && !v[0]) || (useC && !v[1]) {
			out = append(out, id)
		}
	}
	return out
}

func c02Tags(sv, cv bool) map[string]string {
	b := func(x bool) string {
		if x {
			return "1"
		}
		return "0"
	}
	return map[string]string{"s": b(sv), "c": b(cv)}
}

// request performs one subscribe command of a fresh client and decodes the reply.
func (c *c02Run) request(t testing.TB, cl *Client, st *c02Step, off, ep uint64) *c02Res {
	req := &protocol.SubscribeRequest{Channel: c17ChName(st.Ch), Recover: !st.Auto, Offset: off, Epoch: c.env.epochString(ep)}
	if st.Reject {
		req.Flag = int64(subscriptionFlagRejectUnrecovered)
	}
	if st.UseC {
		req.Tf = &protocol.FilterNode{Key: "c", Cmp: "eq", Val: "1"}
	}
	rw := testReplyWriterWrapper()
	res := &c02Res{}
	err := cl.handleSubscribe(req, &protocol.Command{Id: 5}, time.Now(), rw.rw)
	switch {
	case err != nil:
		res.Err = 9000
	case len(rw.replies) == 0:
		res.Err = 3010 // no reply: the subscribe ended in a disconnect (DisconnectInsufficientState is the only one reachable here)
	case len(rw.replies) != 1:
		res.Err = 9001
	case rw.replies[0].Error != nil:
		res.Err = uint64(rw.replies[0].Error.Code)
	case rw.replies[0].Subscribe == nil:
		res.Err = 9002
	default:
		s := rw.replies[0].Subscribe
		res.Recovered, res.WasRec, res.Off, res.Ep = s.Recovered, s.WasRecovering, s.Offset, c.env.epochIndex(s.Epoch)
		for _, p := range s.Publications {
			res.Pubs = append(res.Pubs, [2]uint64{p.Offset, c17ParseID(p.Data)})
		}
	}
	return res
}

func (c *c02Run) count(res *c02Res) {
	switch {
	case res.Err != 0:
		c.errs++
	case res.Recovered:
		c.recTrue++
	default:
		c.recFalse++
	}
	if len(res.Pubs) > 0 {
		c.withPubs++
	}
}

// subscribe runs one recovering subscribe of a fresh client and records the step.
func (c *c02Run) subscribe(t testing.TB, st c02Step) {
	sc := c.sc
	sc.serverF, sc.auto, sc.handler, sc.hpubs, sc.hch, sc.hran, sc.houts = st.UseS, st.Auto, st.Handler, st.HPubs, st.Ch, 0, nil
	if st.Kind == "cache" {
		sc.mode = RecoveryModeCache
	} else {
		sc.mode = RecoveryModeStream
	}
	st.Full = c.fullRead(st.Ch)
	if len(st.Race) > 0 {
		// publications landing between the subscribe's history read and its buffer merge
		race := st.Race
		w := c.env.wrap
		w.mu.Lock()
		w.hookCh = c17ChName(st.Ch)
		w.hook = func() {
			for _, rp := range race {
				p := *rp.P
				st.RaceOut = append(st.RaceOut, c.env.do(c17Op{Kind: "pub", Ch: st.Ch, ID: rp.ID, P: &p}))
			}
		}
		w.mu.Unlock()
	}
	cl := c43NewClient(t, c.node, 1)
	st.Res = c.request(t, cl, &st, st.Off, st.Ep)
	if len(st.Race) > 0 {
		w := c.env.wrap
		w.mu.Lock()
		fired := w.hook == nil
		w.hook = nil
		w.mu.Unlock()
		if fired {
			c.raced++
		} else {
			st.Race = nil // no history read happened: nothing was injected
		}
	}
	st.HOut = sc.houts
	if st.Handler == "populate" && sc.hran > 0 {
		c.populated++
		if st.UseS || st.UseC {
			c.populatedFiltered++
		}
	}
	c.mark = len(c.env.Ops) // race / handler publications belong to this step
	_ = cl.close(DisconnectForceNoReconnect)
	st.Filt = c.filteredIDs(st.UseS, st.UseC)
	if st.Kind == "cache" {
		st.Full2 = c.fullRead(st.Ch)
	}
	c.count(st.Res)
	c.steps = append(c.steps, st)
}

// serverSubscribe runs a server-side Client.Subscribe with RecoverSince (or AutoCacheRecover) on a fresh
// client whose transport output is captured, and records the Subscribe push and any publication written.
func (c *c02Run) serverSubscribe(t testing.TB, st c02Step) {
	sc := c.sc
	sc.handler, sc.hpubs, sc.hch, sc.hran, sc.houts = st.Handler, st.HPubs, st.Ch, 0, nil
	st.Full = c.fullRead(st.Ch)
	ctx, cancelFn := context.WithCancel(context.Background())
	transport := newTestTransport(cancelFn)
	sink := make(chan []byte, 1024)
	transport.setSink(sink)
	ctx = SetCredentials(ctx, &Credentials{UserID: "u1"})
	cl, err := newClient(ctx, c.node, transport)
	if err != nil {
		panic(err)
	}
	connectClientV2(t, cl)
	opts := SubscribeOptions{EnableRecovery: true, EnablePositioning: true, RecoveryMode: RecoveryModeStream, AutoCacheRecover: st.Auto}
	if st.Kind == "scache" {
		opts.RecoveryMode = RecoveryModeCache
	}
	if st.UseS {
		opts.ServerTagsFilter = &FilterNode{Key: "s", Cmp: "eq", Val: "1"}
	}
	if !st.Auto {
		opts.RecoverSince = &StreamPosition{Offset: st.Off, Epoch: c.env.epochString(st.Ep)}
	}
	name := c17ChName(st.Ch)
	serr := cl.Subscribe(name, func(o *SubscribeOptions) { *o = opts })
	synctest.Wait()
	push := &c02Push{}
	if serr != nil {
		push.Err = 9000
		if e, ok := serr.(*Error); ok {
			push.Err = uint64(e.Code)
		}
	} else {
		push.Err = 9003 // no subscribe push seen
	}
drain:
	for {
		select {
		case data := <-sink:
			dec := protocol.NewJSONReplyDecoder(data)
			for {
				rep, derr := dec.Decode()
				if derr != nil || rep == nil {
					break
				}
				if rep.Push == nil || rep.Push.Channel != name {
					continue
				}
				if sub := rep.Push.Subscribe; sub != nil && serr == nil {
					push = &c02Push{Off: sub.Offset, Ep: c.env.epochIndex(sub.Epoch)}
				}
				if pub := rep.Push.Pub; pub != nil {
					st.Deliv = append(st.Deliv, [2]uint64{pub.Offset, c17ParseID(pub.Data)})
				}
			}
		default:
			break drain
		}
	}
	st.Push = push
	st.HOut = sc.houts
	if st.Handler == "populate" && sc.hran > 0 {
		c.populated++
	}
	c.mark = len(c.env.Ops)
	_ = cl.close(DisconnectForceNoReconnect)
	st.Filt = c.filteredIDs(st.UseS, false)
	if st.Kind == "scache" {
		st.Full2 = c.fullRead(st.Ch)
	}
	c.serverSide++
	if st.Kind == "sstream" && push.Err == 0 && push.Off < st.Full.Off {
		filtered := map[uint64]bool{}
		for _, id := range st.Filt {
			filtered[id] = true
		}
		for _, it := range st.Full.Items {
			if it[0] > push.Off && !filtered[it[1]] {
				c.serverLost++ // publications after the announced offset exist and were not delivered
				break
			}
		}
	}
	c.steps = append(c.steps, st)
}

// pair runs two overlapping stream recoveries from the same offset: the leader (current epoch) is
// held inside its Broker.History call until the follower (another epoch string) has finished or is
// blocked (it would be if it shared the leader's single-flight call).
func (c *c02Run) pair(t testing.TB, st c02Step) {
	sc := c.sc
	sc.serverF, sc.auto, sc.handler, sc.mode = st.UseS, false, "no", RecoveryModeStream
	st.Full = c.fullRead(st.Ch)
	gate := make(chan struct{})
	w := c.env.wrap
	w.mu.Lock()
	w.gateCh, w.gate = c17ChName(st.Ch), gate
	w.mu.Unlock()
	clL, clF := c43NewClient(t, c.node, 1), c43NewClient(t, c.node, 2)
	doneL, doneF := make(chan *c02Res, 1), make(chan *c02Res, 1)
	go func() { doneL <- c.request(t, clL, &st, st.Off, st.Ep) }()
	synctest.Wait() // the leader is parked at the gate
	go func() { doneF <- c.request(t, clF, &st, st.Off, st.EpF) }()
	synctest.Wait() // the follower has finished, or waits for the leader's flight
	close(gate)
	st.Res, st.ResF = <-doneL, <-doneF
	c.mark = len(c.env.Ops)
	_ = clL.close(DisconnectForceNoReconnect)
	_ = clF.close(DisconnectForceNoReconnect)
	st.Filt = c.filteredIDs(st.UseS, st.UseC)
	c.count(st.Res)
	c.count(st.ResF)
	c.pairs++
	c.steps = append(c.steps, st)
}

func c02Case(t *testing.T, w *verifW, i int, cache bool) (*c02Run, int) {
	r := w.Rand(i)
	lim := c17Pick(r, 0, 0, 1, 2, 3, 5)
	metaIdx := r.Intn(4)
	singleFlight := r.Intn(2) == 0
	corpus := (cache && i < 3) || (!cache && i < 1)
	if corpus {
		lim, metaIdx = 0, 2
	}
	run := &c02Run{sc: &c02Scenario{}, pubs: map[uint64][2]bool{}}
	synctest.Test(t, func(t *testing.T) {
		cfg := Config{RecoveryMaxPublicationLimit: lim, UseSingleFlight: singleFlight,
			HistoryMetaTTL: []time.Duration{0, 3 * time.Second, 0, 5 * time.Second}[metaIdx]}
		run.env, run.node = c17NewNodeEnv(cfg, metaIdx == 2, c02Setup(run.sc))
		run.sc.env = run.env
		defer func() { c17CloseNode(run.node) }()
		if corpus && cache {
			c03Corpus(t, run, i)
			return
		}
		if corpus {
			// server-side Subscribe with RecoverSince: publications 2 and 3 exist after the requested offset 1
			for id := uint64(1); id <= 3; id++ {
				run.pubs[id] = [2]bool{true, true}
				run.base(c17Op{Kind: "pub", Ch: 0, ID: id, P: &c17Popts{Size: 5, TTL: 60000, Tags: c02Tags(true, true)}})
			}
			run.serverSubscribe(t, c02Step{Kind: "sstream", Ch: 0, Off: 1, Ep: 1, Handler: "no"})
			run.subscribe(t, c02Step{Kind: "stream", Ch: 0, Off: 1, Ep: 1}) // the client-side reply carries them
			return
		}
		c02RandomCase(t, r, run, cache)
	})
	return run, lim
}

func c02RandomCase(t testing.TB, r *rand.Rand, run *c02Run, cache bool) {
	env := run.env
	nch := 1 + r.Intn(2)
	cfg := make([]*c17Popts, nch)
	for ch := range cfg {
		cfg[ch] = c17GenPopts(r)
		cfg[ch].Size = c17Pick(r, 1, 2, 3, 5, 8)
		if cfg[ch].TTL == 0 {
			cfg[ch].TTL = 2000
		}
	}
	var id uint64
	filtersLikely := r.Intn(2) == 0
	publish := func(ch int) {
		id++
		p := *cfg[ch]
		sv, cv := true, true
		if filtersLikely {
			sv, cv = r.Intn(3) != 0, r.Intn(3) != 0
		}
		p.Tags = c02Tags(sv, cv)
		run.pubs[id] = [2]bool{sv, cv}
		run.base(c17Op{Kind: "pub", Ch: ch, ID: id, P: &p})
	}
	// fresh publications (not yet published) with random filter outcomes
	genPubs := func(ch, k int) []c02Pub {
		var out []c02Pub
		for ; k > 0; k-- {
			id++
			p := *cfg[ch]
			sv, cv := true, true
			if filtersLikely {
				sv, cv = r.Intn(3) != 0, r.Intn(3) != 0
			}
			p.Tags = c02Tags(sv, cv)
			run.pubs[id] = [2]bool{sv, cv}
			out = append(out, c02Pub{ID: id, P: &p})
		}
		return out
	}
	n := 6 + r.Intn(22)
	for k := 0; k < n; k++ {
		ch := r.Intn(nch)
		switch x := r.Intn(100); {
		case x < 42:
			publish(ch)
		case x < 46:
			run.base(c17Op{Kind: "rem", Ch: ch})
		case x < 60:
			run.base(c17Op{Kind: "adv", D: c17GenAdvance(r)})
		default:
			g := env.genHistory(r, ch) // reuse its (offset, epoch) choice
			st := c02Step{Ch: ch}
			if g.Since != nil {
				st.Off, st.Ep = g.Since.Off, g.Since.Ep
			} else {
				st.Off, st.Ep = env.lastTop[ch], env.lastEpoch[ch]
				if r.Intn(3) == 0 && st.Off > 0 {
					st.Off -= uint64(1 + r.Intn(int(st.Off)))
				}
			}
			if filtersLikely {
				st.UseS, st.UseC = r.Intn(2) == 0, r.Intn(2) == 0
			}
			if !cache && env.lastEpoch[ch] != 0 && r.Intn(6) == 0 {
				// two overlapping recoveries: leader with the current epoch, follower with another one
				st.Kind = "pair"
				st.Ep = env.lastEpoch[ch]
				if top := env.lastTop[ch]; r.Intn(3) != 0 {
					st.Off = top
					if top > 0 {
						st.Off = top - uint64(r.Intn(int(top)+1))
					}
				}
				switch y := r.Intn(10); {
				case y < 7:
					st.EpF = c17Foreign + uint64(r.Intn(3))
				case y < 9 && st.Ep > 1:
					st.EpF = 1 + uint64(r.Intn(int(st.Ep)-1))
				default:
					st.EpF = 0
				}
				run.pair(t, st)
				continue
			}
			if r.Intn(7) == 0 {
				// server-side Client.Subscribe with RecoverSince / AutoCacheRecover (no client filter, no flag)
				st.UseC = false
				st.Kind = "sstream"
				st.Handler = "no"
				if cache {
					st.Kind = "scache"
					if r.Intn(4) == 0 {
						st.Auto, st.Off, st.Ep = true, 0, 0
					}
					if r.Intn(3) == 0 {
						st.Handler = "populate"
						st.HPubs = genPubs(ch, 1+r.Intn(2))
					}
				}
				run.serverSubscribe(t, st)
				continue
			}
			if r.Intn(4) == 0 {
				st.Race = genPubs(ch, 1+r.Intn(2))
			}
			if cache {
				st.Kind = "cache"
				if r.Intn(6) == 0 {
					st.Auto, st.Off, st.Ep = true, 0, 0
				}
				// OnCacheEmpty is registered on the node: the handler is consulted only for an empty cache;
				// "no" reports not populated (same decision as without a handler), "populate" publishes.
				st.Handler = "no"
				if r.Intn(3) == 0 {
					st.Handler = "populate"
					st.HPubs = genPubs(ch, 1+r.Intn(2))
				}
			} else {
				st.Kind = "stream"
				st.Reject = r.Intn(4) == 0
			}
			run.subscribe(t, st)
		}
	}
}

// c03Corpus: the two minimal witnesses of the known deviations of cache recovery.
func c03Corpus(t testing.TB, run *c02Run, i int) {
	switch i {
	case 0: // all-filtered: the newest publication is retained but excluded by the client filter
		run.pubs[1], run.pubs[2] = [2]bool{true, true}, [2]bool{true, false}
		run.base(c17Op{Kind: "pub", Ch: 0, ID: 1, P: &c17Popts{Size: 1, TTL: 60000, Tags: c02Tags(true, true)}})
		run.base(c17Op{Kind: "pub", Ch: 0, ID: 2, P: &c17Popts{Size: 1, TTL: 60000, Tags: c02Tags(true, false)}})
		run.subscribe(t, c02Step{Kind: "cache", Ch: 0, Off: 1, Ep: 1, UseC: true, Handler: "no"})
	case 1: // zero-position: (0, current epoch) on an empty stream with top 0
		run.subscribe(t, c02Step{Kind: "cache", Ch: 0, Off: 0, Ep: 1, Handler: "no"})
		run.subscribe(t, c02Step{Kind: "stream", Ch: 0, Off: 0, Ep: 1}) // stream mode reports recovered=true
	case 2: // cache-gap-disconnect: newest visible publication is older than a filtered one; a publish races the read
		run.pubs[1], run.pubs[2], run.pubs[3] = [2]bool{true, true}, [2]bool{true, false}, [2]bool{true, true}
		run.base(c17Op{Kind: "pub", Ch: 0, ID: 1, P: &c17Popts{Size: 5, TTL: 60000, Tags: c02Tags(true, true)}})
		run.base(c17Op{Kind: "pub", Ch: 0, ID: 2, P: &c17Popts{Size: 5, TTL: 60000, Tags: c02Tags(true, false)}})
		run.subscribe(t, c02Step{Kind: "cache", Ch: 0, Off: 0, Ep: 1, UseC: true, Handler: "no",
			Race: []c02Pub{{ID: 3, P: &c17Popts{Size: 5, TTL: 60000, Tags: c02Tags(true, true)}}}})
	}
}

func c02Emit(w *verifW, i int, run *c02Run, lim int, class string, nontrivial bool, key string) {
	xs := make([]string, len(run.steps))
	for k, s := range run.steps {
		xs[k] = c02CoqStep(s)
	}
	term := vApp("mkCase", vN(uint64(run.env.Now0)), vN(uint64(run.env.Meta0)), vZ(int64(lim)), vList(xs))
	w.Case(i, term, map[string]any{"now0": run.env.Now0, "hub_meta_ms": run.env.Meta0, "recovery_max_publication_limit": lim,
		"steps": run.steps, "key": key}, class, nontrivial)
}

func TestVerifC02(t *testing.T) {
	w := verifOpen(t, "C02")
	defer w.Close()
	totals := map[string]int{}
	for i := 0; i < w.N; i++ {
		if !w.Want(i) {
			continue
		}
		run, lim := c02Case(t, w, i, false)
		class := "lim" + strconv.Itoa(lim)
		if run.recTrue > 0 {
			class += "/rec"
		}
		if run.recFalse > 0 {
			class += "/norec"
		}
		if run.errs > 0 {
			class += "/err"
		}
		totals["recovered_true"] += run.recTrue
		totals["recovered_false"] += run.recFalse
		totals["error_replies"] += run.errs
		totals["with_publications"] += run.withPubs
		totals["raced_subscribes"] += run.raced
		totals["server_side_subscribes"] += run.serverSide
		totals["overlapping_pairs"] += run.pairs
		totals["server_side_subscribes"] += run.serverSide
		totals["server_side_lost_publications"] += run.serverLost
		key := ""
		if run.serverLost > 0 {
			// known deviation (C01 finding of the same name): server-side Subscribe with RecoverSince announces the
			// requested offset but the push carries no recovered publications
			key = "serverside-recover-since"
			class += "/" + key
		}
		c02Emit(w, i, run, lim, class, run.recTrue > 0 && (run.recFalse > 0 || run.errs > 0) && run.withPubs > 0, key)
	}
	for k, v := range totals {
		w.Extra[k] = v
	}
}

// c03Key classifies a case by the known deviations it exhibits (used as finding key):
//   all-filtered : cache recovery scanned a non-empty history in which every scanned publication is
//                  excluded by the tags filters, and the client is not at the current position
//   zero-position: the client presents (0, current epoch) to an empty stream with top 0
//   cache-gap-disconnect: the subscribe ended in a disconnect (no reply): MergePublications saw a gap
//                  between the single recovered (older, newest VISIBLE) publication and a publication
//                  buffered during the subscribe, the offsets in between being filtered publications
func c03Key(run *c02Run, lim int) string {
	key := ""
	for _, st := range run.steps {
		if st.Kind == "cache" && st.Res != nil && st.Res.Err == 3010 {
			return "cache-gap-disconnect"
		}
		if st.Kind != "cache" || st.Res == nil || st.Res.Err != 0 {
			continue
		}
		items, top, epc := st.Full.Items, st.Full.Off, st.Full.Ep
		if st.Handler == "populate" && st.Full2 != nil && len(st.Full.Items) == 0 {
			items, top, epc = st.Full2.Items, st.Full2.Off, st.Full2.Ep
		}
		same := st.Off == top && st.Ep == epc && st.Ep != 0
		if (st.UseS || st.UseC) && len(items) > 0 && !same {
			filtered := map[uint64]bool{}
			for _, id := range st.Filt {
				filtered[id] = true
			}
			scan := items
			if lim > 0 && len(scan) > lim {
				scan = scan[len(scan)-lim:]
			}
			all := true
			for _, it := range scan {
				if !filtered[it[1]] {
					all = false
				}
			}
			if all && !st.Res.Recovered {
				return "all-filtered"
			}
		}
		if same && st.Off == 0 && len(items) == 0 && !st.Res.Recovered {
			key = "zero-position"
		}
	}
	return key
}

func TestVerifC03(t *testing.T) {
	w := verifOpen(t, "C03")
	defer w.Close()
	totals := map[string]int{}
	for i := 0; i < w.N; i++ {
		if !w.Want(i) {
			continue
		}
		run, lim := c02Case(t, w, i, true)
		class := "lim" + strconv.Itoa(lim)
		if run.recTrue > 0 {
			class += "/rec"
		}
		if run.recFalse > 0 {
			class += "/norec"
		}
		if run.populated > 0 {
			class += "/populated"
		}
		key := c03Key(run, lim)
		if key != "" {
			class += "/" + key
		}
		totals["recovered_true"] += run.recTrue
		totals["recovered_false"] += run.recFalse
		totals["error_replies"] += run.errs
		totals["with_publication"] += run.withPubs
		totals["handler_populated"] += run.populated
		totals["handler_populated_with_filters"] += run.populatedFiltered
		totals["raced_subscribes"] += run.raced
		totals["server_side_subscribes"] += run.serverSide
		c02Emit(w, i, run, lim, class, run.recTrue > 0 && run.recFalse > 0 && run.withPubs > 0, key)
	}
	for k, v := range totals {
		w.Extra[k] = v
	}
}
