package centrifuge

// C12 driver (per-connection write path).
//   CaseQ: random operation sequences on the real internal/queue.Queue through its exported API.
//   CaseW: the real writer (writer.go) under deterministic control: WriteFn/WriteManyFn block on a
//          gate the driver releases; producers / close calls are issued one at a time; every
//          observable step is appended to an event log that the Coq harness replays on the model.

import (
	"fmt"
	"math/rand"
	"os"
	"runtime"
	"strconv"
	"strings"
	"testing"
	"time"

	"github.com/centrifugal/centrifuge/internal/queue"
)

// ---------------------------------------------------------------- items

type c12Item struct {
	ID  uint64 `json:"id"`
	Len int    `json:"len"`
}

func c12Mk(it c12Item) queue.Item {
	return queue.Item{Data: make([]byte, it.Len), Key: strconv.FormatUint(it.ID, 10)}
}

func c12Un(it queue.Item) c12Item {
	id, _ := strconv.ParseUint(it.Key, 10, 64)
	return c12Item{ID: id, Len: len(it.Data)}
}

func c12CoqItem(it c12Item) string { return vApp("mkItem", vN(it.ID), vN(uint64(it.Len))) }

func c12CoqItems(its []c12Item) string {
	xs := make([]string, len(its))
	for i, it := range its {
		xs[i] = c12CoqItem(it)
	}
	return vList(xs)
}

func c12OptNat(m int) string { // -1 => None
	if m < 0 {
		return "None"
	}
	return "(Some " + vNat(m) + ")"
}

// ---------------------------------------------------------------- CaseQ

type c12QStep struct {
	Op  string    `json:"op"`
	A   int       `json:"a,omitempty"`
	B   int       `json:"b,omitempty"`
	In  []c12Item `json:"in,omitempty"`
	Out string    `json:"out"`
	Len int       `json:"len"`
	Sz  int       `json:"size"`
	Cl  bool      `json:"closed"`
	Cap int       `json:"cap"`
}

func c12RunQ(r *rand.Rand, ic int, script []int, nextID *uint64) (ops []string, obs []string, steps []c12QStep, panicked bool, resized bool, removed int) {
	q := queue.New(ic)
	lastCap := q.Cap()
	genItems := func(n int) []c12Item {
		its := make([]c12Item, n)
		for i := range its {
			*nextID++
			its[i] = c12Item{ID: *nextID, Len: r.Intn(6)}
		}
		return its
	}
	maxChoices := []int{-1, -1, 0, 1, 2, 3, 5, 9}
	for _, kind := range script {
		var opTerm, outTerm string
		st := c12QStep{}
		func() {
			defer func() {
				if e := recover(); e != nil {
					panicked = true
					st.Out = fmt.Sprintf("panic: %v", e)
				}
			}()
			switch kind {
			case 0: // Add
				its := genItems(1)
				st.Op, st.In = "Add", its
				opTerm = vApp("OpAdd", c12CoqItem(its[0]))
				ok := q.Add(c12Mk(its[0]))
				outTerm = vApp("OutBool", vBool(ok))
			case 1: // AddMany
				n := r.Intn(2*ic + 4)
				if r.Intn(6) == 0 {
					n = r.Intn(6*ic + 3)
				}
				its := genItems(n)
				st.Op, st.In = "AddMany", its
				opTerm = vApp("OpAddMany", c12CoqItems(its))
				items := make([]queue.Item, n)
				for i := range its {
					items[i] = c12Mk(its[i])
				}
				ok := q.AddMany(items...)
				outTerm = vApp("OutBool", vBool(ok))
			case 2: // Remove
				st.Op = "Remove"
				opTerm = "OpRemove"
				it, ok := q.Remove()
				if ok {
					removed++
					outTerm = vApp("OutItem", vOpt(c12CoqItem(c12Un(it)), true))
				} else {
					outTerm = vApp("OutItem", "None")
				}
			case 3: // RemoveMany
				m := maxChoices[r.Intn(len(maxChoices))]
				st.Op, st.A = "RemoveMany", m
				opTerm = vApp("OpRemoveMany", c12OptNat(m))
				its, ok := q.RemoveMany(m)
				outTerm = c12OutItems(its, ok)
				removed += len(its)
			case 4, 5: // RemoveManyInto / RemoveManyIntoShrink
				m := maxChoices[r.Intn(len(maxChoices))]
				bl := 1 + r.Intn(8)
				if r.Intn(12) == 0 {
					bl = 0
				}
				buf := make([]queue.Item, bl)
				var n int
				var ok bool
				if kind == 4 {
					st.Op = "RemoveManyInto"
					opTerm = vApp("OpRemoveManyInto", vNat(bl), c12OptNat(m))
					n, ok = q.RemoveManyInto(buf, m)
				} else {
					st.Op = "RemoveManyIntoShrink"
					opTerm = vApp("OpRemoveManyIntoShrink", vNat(bl), c12OptNat(m))
					n, ok = q.RemoveManyIntoShrink(buf, m)
				}
				st.A, st.B = bl, m
				outTerm = c12OutItems(buf[:n], ok)
				removed += n
			case 6: // FinishCollect(0): immediate shrink
				st.Op = "FinishCollect0"
				opTerm = vApp("OpFinishCollect", "false")
				q.FinishCollect(0)
				outTerm = "OutUnit"
			case 7: // Close
				st.Op = "Close"
				opTerm = "OpClose"
				q.Close()
				outTerm = "OutUnit"
			case 8: // CloseRemaining
				st.Op = "CloseRemaining"
				opTerm = "OpCloseRemaining"
				rem := q.CloseRemaining()
				xs := make([]c12Item, len(rem))
				for i := range rem {
					xs[i] = c12Un(rem[i])
				}
				outTerm = vApp("OutRemaining", c12CoqItems(xs))
			}
		}()
		if panicked {
			ops = append(ops, opTerm)
			steps = append(steps, st)
			return
		}
		st.Out, st.Len, st.Sz, st.Cl, st.Cap = outTerm, q.Len(), q.Size(), q.Closed(), q.Cap()
		if st.Cap != lastCap {
			resized = true
			lastCap = st.Cap
		}
		ops = append(ops, opTerm)
		obs = append(obs, vPair(outTerm, vApp("mkObs", vNat(st.Len), vZ(int64(st.Sz)), vBool(st.Cl), vNat(st.Cap))))
		steps = append(steps, st)

	}
	return
}

func c12OutItems(its []queue.Item, ok bool) string {
	if !ok {
		return vApp("OutItems", "None")
	}
	xs := make([]c12Item, len(its))
	for i := range its {
		xs[i] = c12Un(its[i])
	}
	return vApp("OutItems", vOpt(c12CoqItems(xs), true))
}

// delayed shrink: FinishCollect(d>0) arms a timer whose callback shrinks. It is exercised only in a
// state where the callback changes Cap (so that its firing is observable by polling Cap).
func c12DelayedShrinkCase(r *rand.Rand, nextID *uint64) (ic int, ops, obs []string, steps []c12QStep, ok bool) {
	ic = 1 + r.Intn(3)
	q := queue.New(ic)
	n := 4*ic + 1 + r.Intn(8)
	rec := func(op, opTerm, outTerm string) {
		st := c12QStep{Op: op, Out: outTerm, Len: q.Len(), Sz: q.Size(), Cl: q.Closed(), Cap: q.Cap()}
		steps = append(steps, st)
		ops = append(ops, opTerm)
		obs = append(obs, vPair(outTerm, vApp("mkObs", vNat(st.Len), vZ(int64(st.Sz)), vBool(st.Cl), vNat(st.Cap))))
	}
	for i := 0; i < n; i++ {
		*nextID++
		it := c12Item{ID: *nextID, Len: r.Intn(4)}
		okAdd := q.Add(c12Mk(it))
		rec("Add", vApp("OpAdd", c12CoqItem(it)), vApp("OutBool", vBool(okAdd)))
	}
	keep := r.Intn(ic + 1)
	buf := make([]queue.Item, n)
	k, okr := q.RemoveManyInto(buf, n-keep)
	rec("RemoveManyInto", vApp("OpRemoveManyInto", vNat(n), c12OptNat(n-keep)), c12OutItems(buf[:k], okr))
	capBefore := q.Cap()
	q.FinishCollect(time.Millisecond)
	rec("FinishCollectDelayed", vApp("OpFinishCollect", "true"), "OutUnit")
	deadline := time.Now().Add(3 * time.Second)
	for q.Cap() == capBefore && time.Now().Before(deadline) {
		time.Sleep(200 * time.Microsecond)
	}
	rec("ShrinkFire", "OpShrinkFire", "OutUnit")
	// continue with a few operations on the shrunk ring
	for i := 0; i < 3+r.Intn(4); i++ {
		if r.Intn(3) == 0 {
			it, okk := q.Remove()
			if okk {
				rec("Remove", "OpRemove", vApp("OutItem", vOpt(c12CoqItem(c12Un(it)), true)))
			} else {
				rec("Remove", "OpRemove", vApp("OutItem", "None"))
			}
		} else {
			*nextID++
			it := c12Item{ID: *nextID, Len: r.Intn(4)}
			okAdd := q.Add(c12Mk(it))
			rec("Add", vApp("OpAdd", c12CoqItem(it)), vApp("OutBool", vBool(okAdd)))
		}
	}
	q.Close()
	rec("Close", "OpClose", "OutUnit")
	return ic, ops, obs, steps, q.Cap() == 0 && capBefore > ic
}

// ---------------------------------------------------------------- CaseW

var c12Debug = os.Getenv("VERIF_DEBUG") != ""

type c12Notif struct {
	kind  int // 0 arrive, 1 enqDone, 2 closeDone
	who   string
	batch []c12Item
	id    int
	res   string
}

type c12Ev struct {
	K     string    `json:"k"`
	ID    int       `json:"id,omitempty"`
	Items []c12Item `json:"items,omitempty"`
	Many  bool      `json:"many,omitempty"`
	Res   string    `json:"res,omitempty"`
	Who   string    `json:"who,omitempty"`
	Err   bool      `json:"err,omitempty"`
	Flush bool      `json:"flush,omitempty"`
}

type c12W struct {
	mode       int // 0 MGo, 1 MDelay, 2 MTimer
	maxFrames  int
	maxQ       int
	shrink     time.Duration
	initCap    int
	w          *writer
	notif      chan c12Notif
	release    chan error
	evs        []c12Ev
	coq        []string
	gate       string // "", "flusher", "timer", "closer"
	qlen       int
	qbytes     int
	alive      bool // flusher goroutine running (MGo/MDelay)
	armed      bool // predicted: flush timer armed (MTimer)
	wclosed    bool // predicted: w.closed (close call completed or closer at the gate)
	closerID   int  // pending closer (0 = none)
	closerFl   bool
	pending    map[int]bool // async producers blocked on writer.mu
	nextThread int
	timeout    bool
	arrivals   int
	enqAtGate  int
	closes     int
}

func c12Who() string {
	pcs := make([]uintptr, 24)
	n := runtime.Callers(1, pcs)
	frames := runtime.CallersFrames(pcs[:n])
	for {
		f, more := frames.Next()
		switch {
		case strings.HasSuffix(f.Function, "(*writer).close"):
			return "closer"
		case strings.HasSuffix(f.Function, "(*writer).flush"):
			return "timer"
		case strings.HasSuffix(f.Function, "(*writer).waitSendMessage"):
			return "flusher"
		}
		if !more {
			return "unknown"
		}
	}
}

func c12Res(d *Disconnect) string {
	switch {
	case d == nil:
		return "RNil"
	case d.Code == DisconnectSlow.Code:
		return "RSlow"
	case d.Code == DisconnectConnectionClosed.Code:
		return "RClosed"
	}
	return "R?"
}

func (c *c12W) log(e c12Ev, term string) {
	if c12Debug {
		fmt.Printf("  ev %+v  [gate=%q qlen=%d armed=%v alive=%v wclosed=%v closer=%d pending=%d]\n", e, c.gate, c.qlen, c.armed, c.alive, c.wclosed, c.closerID, len(c.pending))
	}
	c.evs = append(c.evs, e)
	c.coq = append(c.coq, term)
}

func (c *c12W) start() {
	c.notif = make(chan c12Notif, 64)
	c.release = make(chan error)
	c.pending = map[int]bool{}
	gate := func(items []queue.Item) error {
		b := make([]c12Item, len(items))
		for i := range items {
			b[i] = c12Un(items[i])
		}
		c.notif <- c12Notif{kind: 0, who: c12Who(), batch: b}
		return <-c.release
	}
	conf := writerConfig{
		MaxQueueSize: c.maxQ,
		WriteFn:      func(item queue.Item) error { return gate([]queue.Item{item}) },
		WriteManyFn:  func(items ...queue.Item) error { return gate(items) },
	}
	c.w = newWriter(conf, c.initCap)
	delay := time.Duration(0)
	if c.mode != 0 {
		delay = time.Millisecond
	}
	if c.mode == 2 {
		c.w.run(delay, c.maxFrames, c.shrink, true)
	} else {
		c.alive = true
		go c.w.run(delay, c.maxFrames, c.shrink, false)
	}
}

// stable reports whether, by the driver's bookkeeping, no thread of the writer can make progress.
func (c *c12W) stable() bool {
	if c.gate != "" {
		return true // everything else that matters is blocked behind the gate (or idle)
	}
	if len(c.pending) > 0 || c.closerID != 0 {
		return false
	}
	if c.wclosed {
		return true
	}
	if c.mode == 2 {
		return !(c.armed && c.qlen > 0)
	}
	return !(c.alive && c.qlen > 0)
}

func (c *c12W) apply(n c12Notif) {
	switch n.kind {
	case 0:
		c.arrivals++
		c.gate = n.who
		who := "WFlusher"
		switch n.who {
		case "timer":
			who = "WTimer"
			c.armed = false
		case "closer":
			who = vApp("WCloser", vNat(c.closerID))
			c.wclosed = true
			c.alive = false
			c.armed = false
		}
		for _, it := range n.batch {
			c.qlen--
			c.qbytes -= it.Len
		}
		c.log(c12Ev{K: "arrive", Who: n.who, Items: n.batch}, vApp("EvArrive", who, c12CoqItems(n.batch)))
	case 1:
		delete(c.pending, n.id)
		if n.res == "RNil" && c.mode == 2 && !c.wclosed {
			c.armed = true
		}
		c.log(c12Ev{K: "enqDone", ID: n.id, Res: n.res}, vApp("EvEnqDone", vNat(n.id), n.res))
	case 2:
		c.closerID = 0
		c.wclosed = true
		c.alive = false
		c.armed = false
		c.qlen, c.qbytes = 0, 0
		c.log(c12Ev{K: "closeDone", ID: n.id}, vApp("EvCloseDone", vNat(n.id)))
	}
}

// drain applies the notifications that are already there.
func (c *c12W) drain() {
	for {
		select {
		case n := <-c.notif:
			c.apply(n)
		default:
			return
		}
	}
}

func (c *c12W) settle() {
	c.drain()
	for !c.stable() && !c.timeout {
		select {
		case n := <-c.notif:
			c.apply(n)
		case <-time.After(3 * time.Second):
			c.timeout = true
		}
	}
	// a silent timer flush (armed, empty queue) consumes the timer
	if c.mode == 2 && c.gate == "" && c.armed && c.qlen == 0 {
		c.armed = false
	}
}

func (c *c12W) enq(its []c12Item, many bool) {
	c.nextThread++
	id := c.nextThread
	items := make([]queue.Item, len(its))
	for i := range its {
		items[i] = c12Mk(its[i])
	}
	call := func() *Disconnect {
		if many {
			return c.w.enqueueMany(items...)
		}
		return c.w.enqueue(items[0])
	}
	c.log(c12Ev{K: "enq", ID: id, Items: its, Many: many}, vApp("EvEnq", vNat(id), c12CoqItems(its), vBool(many)))
	bytes := 0
	for _, it := range its {
		bytes += it.Len
	}
	if c.gate != "" {
		c.enqAtGate++
	}
	if c.mode != 2 {
		// goroutine modes: enqueue never takes writer.mu, the call returns at once
		res := c12Res(call())
		if res != "RClosed" {
			c.qlen += len(its)
			c.qbytes += bytes
		}
		c.apply(c12Notif{kind: 1, id: id, res: res})
		return
	}
	// timer mode: the call takes writer.mu after its Add, so it may block behind a flush that is at
	// the gate (now or, when the timer fires during the call, a moment later): never call it on the
	// controlling goroutine. Wait until the Add is visible, so that log order = queue order.
	before := c.w.messages.Len()
	go func() { c.notif <- c12Notif{kind: 1, id: id, res: c12Res(call())} }()
	if !c.wclosed {
		deadline := time.Now().Add(3 * time.Second)
		for len(its) > 0 && c.w.messages.Len() != before+len(its) && len(c.notif) == 0 && time.Now().Before(deadline) {
			runtime.Gosched()
		}
		c.qlen += len(its)
		c.qbytes += bytes
	}
	c.pending[id] = true
}

func (c *c12W) doRelease(fail bool) {
	var err error
	if fail {
		err = fmt.Errorf("c12 write error")
	}
	who := c.gate
	c.log(c12Ev{K: "release", Err: fail}, vApp("EvRelease", vBool(fail)))
	c.gate = ""
	switch who {
	case "flusher":
		if fail {
			c.alive = false
		}
	case "timer":
		if !fail && c.qlen > 0 && !c.wclosed {
			c.armed = true
		}
	}
	c.release <- err
	// the thread that was at the gate still runs the rest of its critical section (timer mode: the
	// re-arm decision reads Len): wait until writer.mu has been released, or something else arrived
	deadline := time.Now().Add(3 * time.Second)
	for time.Now().Before(deadline) {
		c.drain()
		if c.gate != "" {
			break
		}
		if c.w.mu.TryLock() {
			c.w.mu.Unlock()
			break
		}
		runtime.Gosched()
	}
	c.settle()
}

func (c *c12W) doClose(flush bool) {
	c.nextThread++
	id := c.nextThread
	c.closes++
	c.log(c12Ev{K: "close", ID: id, Flush: flush}, vApp("EvClose", vNat(id), vBool(flush)))
	c.closerID, c.closerFl = id, flush
	go func() {
		_ = c.w.close(flush)
		c.notif <- c12Notif{kind: 2, id: id}
	}()
	c.settle()
}

func c12RunW(r *rand.Rand, nextID *uint64) (cfgTerm string, c *c12W, finalLen int, finalClosed bool) {
	c = &c12W{}
	c.mode = []int{0, 0, 0, 1, 2, 2}[r.Intn(6)]
	c.maxFrames = []int{-1, -1, 0, 1, 2, 3}[r.Intn(6)]
	if r.Intn(2) == 0 {
		c.maxQ = 6 + r.Intn(30)
	}
	if r.Intn(2) == 0 {
		c.shrink = -1
	}
	c.initCap = []int{0, 1, 2, 4}[r.Intn(4)]
	c.start()
	if c12Debug {
		fmt.Printf("case mode=%d maxFrames=%d maxQ=%d shrink=%d initCap=%d\n", c.mode, c.maxFrames, c.maxQ, c.shrink, c.initCap)
	}

	gen := func(n int, cap int) []c12Item {
		its := make([]c12Item, n)
		for i := range its {
			*nextID++
			l := 1 + r.Intn(8)
			if cap > 0 && l > cap {
				l = cap
			}
			its[i] = c12Item{ID: *nextID, Len: l}
		}
		return its
	}
	steps := 4 + r.Intn(14)
	for s := 0; s < steps && !c.timeout; s++ {
		x := r.Intn(100)
		switch {
		case c.gate != "" && x < 35:
			c.doRelease(r.Intn(10) == 0)
		case x < 80 && c.closerID == 0:
			many := r.Intn(3) == 0
			n := 1
			if many {
				n = r.Intn(5)
				if c.mode == 2 && c.gate != "" && n == 0 {
					n = 1
				}
			}
			capLen := 0
			idleLive := c.gate == "" && !c.wclosed && ((c.mode == 2 && c.armed) || (c.mode != 2 && c.alive))
			if idleLive && c.maxQ > 0 {
				// an idle live flusher races with the size check of this call: stay within the limit
				capLen = (c.maxQ - c.qbytes) / (n + 1)
				if capLen < 1 {
					capLen = 1
				}
				if c.qbytes+n*capLen > c.maxQ {
					continue
				}
			}
			c.enq(gen(n, capLen), many)
			c.settle()
		case x < 90 && c.closerID == 0 && (!c.wclosed || r.Intn(3) == 0):
			c.doClose(r.Intn(2) == 0)
		case c.gate != "":
			c.doRelease(false)
		}
	}
	// drain
	for i := 0; i < 200 && c.gate != "" && !c.timeout; i++ {
		c.doRelease(false)
	}
	if !c.timeout && !c.wclosed && r.Intn(2) == 0 {
		c.doClose(r.Intn(2) == 0)
		for i := 0; i < 200 && c.gate != "" && !c.timeout; i++ {
			c.doRelease(false)
		}
	}
	c.settle()
	finalLen, finalClosed = c.w.messages.Len(), c.w.messages.Closed()
	// release the goroutines of this case (not part of the log)
	if !c.timeout && !c.wclosed {
		done := make(chan struct{})
		go func() { _ = c.w.close(false); close(done) }()
		select {
		case <-done:
		case <-time.After(time.Second):
		}
	}
	mode := []string{"MGo", "MDelay", "MTimer"}[c.mode]
	mx := "None"
	switch {
	case c.maxFrames == 0:
		mx = "(Some " + vNat(defaultMaxMessagesInFrame) + ")"
	case c.maxFrames > 0:
		mx = "(Some " + vNat(c.maxFrames) + ")"
	}
	ic := c.initCap
	if ic == 0 {
		ic = 2
	}
	cfgTerm = vApp("mkCfg", mode, mx, vZ(int64(c.maxQ)), vBool(effectiveShrinkDelay(c.shrink) != 0), vNat(ic))
	return
}

// ---------------------------------------------------------------- test

func TestVerifC12(t *testing.T) {
	w := verifOpen(t, "C12")
	defer w.Close()
	timeouts := 0
	for i := 0; i < w.N; i++ {
		if !w.Want(i) {
			continue
		}
		if timeouts > 25 { // the writer stopped delivering: do not spend hours waiting
			w.Extra["aborted_after_timeouts"] = true
			break
		}
		r := w.Rand(i)
		var nextID uint64
		switch {
		case i == 0: // New(0); Add panics (outside the writer's use: newWriter maps 0 to 2)
			ops, obs, steps, panicked, _, _ := c12RunQ(r, 0, []int{0}, &nextID)
			term := vApp("CaseQ", vNat(0), vList(ops), vBool(panicked), vList(obs))
			w.Case(i, term, map[string]any{"kind": "queue", "initCap": 0, "steps": steps, "panicked": panicked}, "queue/initcap0", false)
		case i%40 == 1: // delayed shrink through the real timer
			ic, ops, obs, steps, shrunk := c12DelayedShrinkCase(r, &nextID)
			term := vApp("CaseQ", vNat(ic), vList(ops), "false", vList(obs))
			w.Case(i, term, map[string]any{"kind": "queue", "initCap": ic, "steps": steps}, "queue/delayed-shrink", shrunk)
		case i%5 < 3: // sequential queue operations
			ic := []int{1, 1, 2, 2, 2, 3, 4, 5, 8}[r.Intn(9)]
			n := 5 + r.Intn(40)
			script := make([]int, n)
			for k := range script {
				x := r.Intn(1000)
				switch {
				case x < 360:
					script[k] = 0
				case x < 480:
					script[k] = 1
				case x < 590:
					script[k] = 2
				case x < 690:
					script[k] = 3
				case x < 790:
					script[k] = 4
				case x < 900:
					script[k] = 5
				case x < 975:
					script[k] = 6
				case x < 988:
					script[k] = 7
				default:
					script[k] = 8
				}
			}
			ops, obs, steps, panicked, resized, removed := c12RunQ(r, ic, script, &nextID)
			term := vApp("CaseQ", vNat(ic), vList(ops), vBool(panicked), vList(obs))
			class := "queue/seq"
			if panicked {
				class = "queue/panic"
			}
			w.Case(i, term, map[string]any{"kind": "queue", "initCap": ic, "steps": steps, "panicked": panicked}, class, resized && removed > 0)
		default: // the writer
			cfg, c, fl, fc := c12RunW(r, &nextID)
			term := vApp("CaseW", cfg, vList(c.coq), vNat(fl), vBool(fc))
			class := "writer/" + []string{"go", "delay", "timer"}[c.mode]
			if c.timeout {
				class += "/driver-timeout"
				timeouts++
			}
			nontrivial := c.arrivals >= 2 && (c.enqAtGate > 0 || c.closes > 0)
			w.Case(i, term, map[string]any{"kind": "writer", "mode": c.mode, "maxFrames": c.maxFrames, "maxQ": c.maxQ,
				"shrink": int64(c.shrink), "initCap": c.initCap, "events": c.evs, "finalLen": fl, "finalClosed": fc,
				"timeout": c.timeout}, class, nontrivial)
		}
	}
	w.Extra["driver_timeouts"] = timeouts
}
