package centrifuge

import (
	"math/rand"
	"testing"
)

// c07Park returns the first park of the given kind.
func c07Park(e *c04Eng, k c04Gk) *c04Park {
	for _, p := range e.parked() {
		if p.kind == k {
			return p
		}
	}
	return nil
}

// c07DrainOthers releases every park except PublishJoin ones until only joins are parked.
func c07DrainOthers(e *c04Eng) {
	for i := 0; i < 100; i++ {
		var p *c04Park
		for _, q := range e.parked() {
			if q.kind != c04GkJoin {
				p = q
				break
			}
		}
		if p == nil {
			return
		}
		e.release(p, true)
	}
}

// C07 Join and leave events are paired and ordered.
func TestVerifC07(t *testing.T) {
	w := verifOpen(t, "C07")
	defer w.Close()
	jl := c04Opts{JL: true}
	gates := []c04Gk{c04GkSubH, c04GkJoin, c04GkLeave, c04GkUnsubH}
	c04RunAll(w, func(i int, r *rand.Rand) c04Plan {
		switch i {
		case 0: // the suspected [leave, join]: close while the client-path join is in flight
			return c04Plan{Name: "join-in-flight/close/cli", NCh: 1, Armed: gates, Script: func(e *c04Eng, r *rand.Rand) {
				c04Connect(e)
				th := e.spawn(c04Op{Kind: "subcli", Ch: 0, Opts: jl})
				_ = th
				e.release(c07Park(e, c04GkSubH), true) // ... commit, gate released, parked at PublishJoin
				e.spawn(c04Op{Kind: "close"})
				c07DrainOthers(e) // the leave goes out
			}}
		case 1: // same with a server-side unsubscribe of a server-side subscription
			return c04Plan{Name: "join-in-flight/unsub/srv", NCh: 1, Armed: gates, Script: func(e *c04Eng, r *rand.Rand) {
				c04Connect(e)
				e.spawn(c04Op{Kind: "subsrv", Ch: 0, Opts: jl})
				e.spawn(c04Op{Kind: "unsubsrv", Ch: 0})
				c07DrainOthers(e)
			}}
		case 2: // and a client unsubscribe command of a client subscription
			return c04Plan{Name: "join-in-flight/unsub/cli", NCh: 1, Armed: gates, Script: func(e *c04Eng, r *rand.Rand) {
				c04Connect(e)
				e.spawn(c04Op{Kind: "subcli", Ch: 0, Opts: jl})
				e.release(c07Park(e, c04GkSubH), true)
				e.spawn(c04Op{Kind: "unsubcli", Ch: 0})
				c07DrainOthers(e)
			}}
		case 3: // the ordinary order: join lands, then unsubscribe
			return c04Plan{Name: "join-then-unsub", NCh: 1, Armed: gates, Script: func(e *c04Eng, r *rand.Rand) {
				c04Connect(e)
				e.spawn(c04Op{Kind: "subcli", Ch: 0, Opts: jl})
				e.release(c07Park(e, c04GkSubH), true)
				e.release(c07Park(e, c04GkJoin), true)
				e.spawn(c04Op{Kind: "unsubcli", Ch: 0})
			}}
		case 5: // a MAP subscription still in flight (between its two requests' effects: reserved in
			// c.mapSubscribing, parked in the node-level subscribe) when a server-side Unsubscribe arrives:
			// the unsubscribe waits for the subscribe, which goes live and publishes its join; the
			// unsubscribe must then tear down THAT subscription: leave and OnUnsubscribe
			return c04Plan{Name: "map-in-flight/unsub/srv", NCh: 1, Map: true, Armed: append([]c04Gk{c04GkBrokerSub}, gates...),
				Script: func(e *c04Eng, r *rand.Rand) {
					c04Connect(e)
					e.spawn(c04Op{Kind: "subcli", Ch: 0, Opts: jl, Map: true})
					e.release(c07Park(e, c04GkSubH), true) // first page, then last page up to the node-level subscribe
					e.spawn(c04Op{Kind: "unsubsrv", Ch: 0}) // waits on the reservation's gate
					if p := c07Park(e, c04GkBrokerSub); p != nil {
						e.release(p, true) // live: commit, gate closed, parked at PublishJoin; the unsubscribe wakes
					}
					if p := c07Park(e, c04GkJoin); p != nil {
						e.release(p, true)
					}
					c07DrainOthers(e)
				}}
		case 4: // a failed attempt emits nothing
			return c04Plan{Name: "failed-attempt", NCh: 1, Armed: gates, Script: func(e *c04Eng, r *rand.Rand) {
				c04Connect(e)
				e.spawn(c04Op{Kind: "subcli", Ch: 0, Opts: jl})
				e.release(c07Park(e, c04GkSubH), false)
			}}
		}
		if i%4 == 0 {
			return c04Plan{Name: "sequential", NCh: 2, Script: c04RandomWalk(6 + r.Intn(14))}
		}
		// random gated walks in which a parked join is usually released before anything else
		return c04Plan{Name: "random-gated", NCh: 1 + r.Intn(2), Armed: c04RandArmed(r),
			Script: c04RandomWalkOpt(6+r.Intn(18), 90)}
	})
}
