package centrifuge

// C13 driver (per-channel batching): the real perChannelWriter with a recording flushFn.
// perChannelWriter.Add is performed as its two halves (getWriter, then channelWriter.Add) so that other
// calls can be placed between them; the "timer fired" branch of waitTimer is invoked directly for a
// chosen timer (MaxDelay is one hour, so the real timers never fire on their own), except in a small
// class of cases that waits for a real 15 ms timer.

import (
	"math/rand"
	"strconv"
	"sync"
	"testing"
	"time"

	"github.com/centrifugal/centrifuge/internal/queue"
	"github.com/centrifugal/protocol"
)

type c13Item struct {
	ID  uint64 `json:"id"`
	Key uint64 `json:"key"`
	Pub bool   `json:"pub"`
}

type c13Batch struct {
	Ch    uint64    `json:"ch"`
	Items []c13Item `json:"items"`
}

type c13Ev struct {
	K     string     `json:"k"`
	T     int        `json:"t,omitempty"`
	Ch    uint64     `json:"ch,omitempty"`
	Item  *c13Item   `json:"item,omitempty"`
	Flush bool       `json:"flush,omitempty"`
	N     int        `json:"n,omitempty"`
	Obs   []c13Batch `json:"obs"`
}

type c13Timer struct {
	stop chan struct{}
	w    *channelWriter
	dead bool
}

type c13Cfg struct {
	Max    int64 `json:"max"`
	Delay  bool  `json:"delay"`
	Latest bool  `json:"latest"`
}

type c13Run struct {
	pcw     *perChannelWriter
	mu      sync.Mutex
	pending []c13Batch // batches seen since the last event was logged
	cfgs    map[uint64]c13Cfg
	delay   time.Duration
	timers  []*c13Timer
	seen    map[chan struct{}]bool
	refs    map[int]*channelWriter
	refCh   map[int]uint64
	evs     []c13Ev
	coq     []string
	split   bool // some Add was separated from its getWriter by a delWriter/Close
	flushes int
}

func c13CoqItem(it c13Item) string { return vApp("mkCI", vN(it.ID), vN(it.Key), vBool(it.Pub)) }

func c13CoqBatches(bs []c13Batch) string {
	xs := make([]string, len(bs))
	for i, b := range bs {
		ys := make([]string, len(b.Items))
		for j, it := range b.Items {
			ys[j] = c13CoqItem(it)
		}
		xs[i] = vPair(vN(b.Ch), vList(ys))
	}
	return vList(xs)
}

func (c *c13Run) flushFn(items []queue.Item) error {
	b := c13Batch{}
	for _, it := range items {
		id, _ := strconv.ParseUint(string(it.Data), 10, 64)
		key, _ := strconv.ParseUint(it.Key, 10, 64)
		ch, _ := strconv.ParseUint(it.Channel, 10, 64)
		b.Ch = ch
		b.Items = append(b.Items, c13Item{ID: id, Key: key, Pub: it.FrameType == protocol.FrameTypePushPublication})
	}
	c.mu.Lock()
	c.pending = append(c.pending, b)
	c.flushes++
	c.mu.Unlock()
	return nil
}

func (c *c13Run) take() []c13Batch {
	c.mu.Lock()
	defer c.mu.Unlock()
	p := c.pending
	c.pending = nil
	if p == nil {
		p = []c13Batch{}
	}
	return p
}

func (c *c13Run) log(e c13Ev, term string) {
	e.Obs = c.take()
	c.evs = append(c.evs, e)
	c.coq = append(c.coq, vPair(term, c13CoqBatches(e.Obs)))
}

func (c *c13Run) batchCfg(ch uint64) ChannelBatchConfig {
	cf := c.cfgs[ch]
	r := ChannelBatchConfig{MaxSize: cf.Max, FlushLatestPublication: cf.Latest}
	if cf.Delay {
		r.MaxDelay = c.delay
	}
	return r
}

func (c *c13Run) get(t int, ch uint64) {
	w := c.pcw.getWriter(strconv.FormatUint(ch, 10))
	c.refs[t] = w
	c.refCh[t] = ch
	c.log(c13Ev{K: "get", T: t, Ch: ch}, vApp("EGet", vNat(t), vN(ch)))
}

func (c *c13Run) add(t int, it c13Item, frame protocol.FrameType) {
	w := c.refs[t]
	ch := c.refCh[t]
	delete(c.refs, t)
	w.Add(queue.Item{Data: []byte(strconv.FormatUint(it.ID, 10)), Key: strconv.FormatUint(it.Key, 10),
		Channel: strconv.FormatUint(ch, 10), FrameType: frame}, c.batchCfg(ch))
	// did this call arm a timer?
	w.mu.Lock()
	st := w.timerStop
	w.mu.Unlock()
	if st != nil && !c.seen[st] {
		c.seen[st] = true
		c.timers = append(c.timers, &c13Timer{stop: st, w: w})
	}
	item := it
	c.log(c13Ev{K: "add", T: t, Item: &item}, vApp("EAdd", vNat(t), c13CoqItem(it)))
}

// fire runs the "timer fired" branch of waitTimer for the k-th timer.
func (c *c13Run) fire(k int) {
	tmr := c.timers[k]
	w := tmr.w
	w.mu.Lock()
	live := w.timerStop == tmr.stop
	w.mu.Unlock()
	tm := time.NewTimer(0)
	time.Sleep(300 * time.Microsecond) // the timer has expired: its channel is ready
	w.waitTimer(tm, tmr.stop)
	if live && !tmr.dead {
		// the flush cleared w.timerStop without closing it: release the goroutine of the real 1 h timer
		close(tmr.stop)
		tmr.dead = true
	}
	c.log(c13Ev{K: "fire", N: k}, vApp("EFire", vNat(k)))
}

func c13Case(r *rand.Rand) *c13Run {
	c := &c13Run{cfgs: map[uint64]c13Cfg{}, seen: map[chan struct{}]bool{}, refs: map[int]*channelWriter{},
		refCh: map[int]uint64{}, delay: time.Hour}
	c.pcw = newPerChannelWriter(c.flushFn)
	nch := 1 + r.Intn(3)
	for ch := uint64(1); ch <= uint64(nch); ch++ {
		cf := c13Cfg{Max: []int64{0, 1, 2, 3, 3, 5}[r.Intn(6)], Delay: r.Intn(3) != 0, Latest: r.Intn(2) == 0}
		if cf.Max == 0 {
			cf.Delay = true
		}
		c.cfgs[ch] = cf
	}
	var nextID uint64
	nextT := 0
	closed := false
	var open []int // threads that did getWriter and not yet Add
	newItem := func() (c13Item, protocol.FrameType) {
		nextID++
		x := r.Intn(100)
		switch {
		case x < 70:
			return c13Item{ID: nextID, Key: uint64(r.Intn(3)), Pub: true}, protocol.FrameTypePushPublication
		case x < 85:
			return c13Item{ID: nextID, Key: 0, Pub: false}, protocol.FrameTypePushJoin
		default:
			return c13Item{ID: nextID, Key: 0, Pub: false}, protocol.FrameTypePushLeave
		}
	}
	steps := 6 + r.Intn(24)
	for s := 0; s < steps; s++ {
		ch := uint64(1 + r.Intn(nch))
		x := r.Intn(100)
		switch {
		case x < 58: // a whole perChannelWriter.Add
			nextT++
			c.get(nextT, ch)
			it, fr := newItem()
			c.add(nextT, it, fr)
		case x < 66 && len(open) < 2: // first half only
			nextT++
			c.get(nextT, ch)
			open = append(open, nextT)
		case x < 76 && len(open) > 0: // second half of an earlier call
			k := r.Intn(len(open))
			t := open[k]
			open = append(open[:k], open[k+1:]...)
			it, fr := newItem()
			c.add(t, it, fr)
		case x < 88 && len(c.timers) > 0:
			k := r.Intn(len(c.timers))
			if r.Intn(3) != 0 { // prefer the most recent timers (more often live)
				k = len(c.timers) - 1 - r.Intn(1+len(c.timers)/3)
			}
			c.fire(k)
		case x < 95:
			fl := r.Intn(5) == 0
			if len(open) > 0 {
				for _, t := range open {
					if c.refCh[t] == ch {
						c.split = true
					}
				}
			}
			c.pcw.delWriter(strconv.FormatUint(ch, 10), fl)
			c.log(c13Ev{K: "del", Ch: ch, Flush: fl}, vApp("EDel", vN(ch), vBool(fl)))
		case x < 98 && !closed:
			fl := r.Intn(3) == 0
			closed = true
			c.pcw.Close(fl)
			c.log(c13Ev{K: "close", Flush: fl}, vApp("EClose", vBool(fl)))
		}
	}
	// finish the open calls and let every timer goroutine run once
	for _, t := range open {
		it, fr := newItem()
		c.add(t, it, fr)
	}
	for k := range c.timers {
		if r.Intn(2) == 0 {
			c.fire(k)
		}
	}
	// release the goroutines of the real timers that are still armed (not part of the log)
	for _, tmr := range c.timers {
		tmr.w.mu.Lock()
		if tmr.w.timerStop == tmr.stop {
			tmr.w.stopTimerLocked()
		}
		tmr.w.mu.Unlock()
	}
	return c
}

// c13RealTimer: one channel with a real 15 ms MaxDelay; the driver adds a few items and waits for the flush.
func c13RealTimer(r *rand.Rand) *c13Run {
	c := &c13Run{cfgs: map[uint64]c13Cfg{}, seen: map[chan struct{}]bool{}, refs: map[int]*channelWriter{},
		refCh: map[int]uint64{}, delay: 15 * time.Millisecond}
	c.pcw = newPerChannelWriter(c.flushFn)
	c.cfgs[1] = c13Cfg{Max: 50, Delay: true, Latest: r.Intn(2) == 0}
	var nextID uint64
	t := 0
	rounds := 1 + r.Intn(2)
	for round := 0; round < rounds; round++ {
		n := 1 + r.Intn(4)
		for i := 0; i < n; i++ {
			t++
			nextID++
			c.get(t, 1)
			c.add(t, c13Item{ID: nextID, Key: uint64(r.Intn(2)), Pub: true}, protocol.FrameTypePushPublication)
		}
		// wait for the real timer
		deadline := time.Now().Add(2 * time.Second)
		for time.Now().Before(deadline) {
			c.mu.Lock()
			got := len(c.pending) > 0
			c.mu.Unlock()
			if got {
				break
			}
			time.Sleep(500 * time.Microsecond)
		}
		k := len(c.timers) - 1
		c.log(c13Ev{K: "fire", N: k}, vApp("EFire", vNat(k)))
	}
	return c
}

func TestVerifC13(t *testing.T) {
	w := verifOpen(t, "C13")
	defer w.Close()
	for i := 0; i < w.N; i++ {
		if !w.Want(i) {
			continue
		}
		r := w.Rand(i)
		var c *c13Run
		class := "controlled"
		if i%25 == 7 {
			c = c13RealTimer(r)
			class = "real-timer"
		} else {
			c = c13Case(r)
		}
		cfgs := []string{}
		cfgJSON := map[string]c13Cfg{}
		for ch := uint64(1); ch <= 3; ch++ {
			if cf, ok := c.cfgs[ch]; ok {
				cfgs = append(cfgs, vPair(vN(ch), vApp("mkBcfg", vZ(cf.Max), vBool(cf.Delay), vBool(cf.Latest))))
				cfgJSON[strconv.FormatUint(ch, 10)] = cf
			}
		}
		term := vApp("mkCase", vList(cfgs), vList(c.coq))
		fkey := "none"
		if c.split {
			fkey = "add-in-flight-across-delWriter"
			class += "/split"
		}
		w.Case(i, term, map[string]any{"cfg": cfgJSON, "events": c.evs, "fkey": fkey}, class, c.flushes >= 2 && len(c.evs) >= 8)
	}
}
