package centrifuge

// C25 driver: one connection of a versioned shared-poll channel of the REAL node (delta negotiated,
// JSON or Protobuf, KeepLatestData on/off) with a scripted backend whose calls are held at a gate, so
// that SharedPollPublish / track / untrack / revoke can be placed while a backend call is in flight.
// Every push is decoded; for a delta push the base is identified by applying the real patch.

import (
	"bytes"
	"context"
	stdjson "encoding/json"
	"fmt"
	"math/rand"
	"sync"
	"sync/atomic"
	"testing"
	"time"

	"github.com/centrifugal/protocol"
	fdelta "github.com/shadowspore/fossil-delta"
)

const c25K = 3

type c25Resp struct {
	none    bool // no item for the key in the answer (nothing newer than the requested version)
	removed bool
	bv      uint64
	prev    bool
	epoch   string
}

type c25Call struct {
	key  int
	reqv uint64
	resp chan c25Resp
	// a call carrying several keys (timer-driven cycle): the items as sent by the node, answered together
	items []SharedPollItem
	multi chan []c25Resp
}

type c25Chan struct {
	keep    bool
	entered chan *c25Call
	mu      sync.Mutex
	epoch   string
	closed  bool
	// gate between the two phases of keyedWritePublication: the library calls Config.GetChannelBatchConfig
	// after its unlocked admission check and before its locked enqueue section
	parkArm atomic.Bool
	parked  chan struct{}
	release chan struct{}
}

func (c *c25Chan) epochNow() string {
	c.mu.Lock()
	defer c.mu.Unlock()
	return c.epoch
}

type c25Env struct {
	t     *testing.T
	node  *Node
	mu    sync.Mutex
	chans map[string]*c25Chan
	gx    bool
}

// payloads: the shared block sits at an offset that depends on the version, so a patch computed
// against another version's payload cannot be applied (fossil output checksum)
func c25Doc(key int, v uint64, json bool) []byte {
	pad := bytes.Repeat([]byte("x"), int(v))
	common := fmt.Sprintf("k%d-7f3a9c1e5b2d8406aa51c3e7d9f0b2468ace13579bdf02468ace1357", key)
	body := string(pad) + common + fmt.Sprintf("-v%d", v)
	if json {
		q, _ := stdjson.Marshal(body)
		return q
	}
	return []byte(body)
}

func c25NewEnv(t *testing.T) *c25Env {
	e := &c25Env{t: t, chans: map[string]*c25Chan{}}
	node, err := New(Config{
		LogLevel:   LogLevelNone,
		LogHandler: func(LogEntry) {},
		GetChannelBatchConfig: func(ch string) ChannelBatchConfig {
			e.mu.Lock()
			c := e.chans[ch]
			e.mu.Unlock()
			if c != nil && c.parkArm.CompareAndSwap(true, false) {
				c.parked <- struct{}{}
				<-c.release
			}
			return ChannelBatchConfig{}
		},
		SharedPoll: SharedPollConfig{GetSharedPollChannelOptions: func(ch string) (SharedPollChannelOptions, bool) {
			e.mu.Lock()
			c, ok := e.chans[ch]
			e.mu.Unlock()
			if !ok {
				return SharedPollChannelOptions{}, false
			}
			return SharedPollChannelOptions{RefreshInterval: time.Hour, RefreshBatchSize: 100, MaxKeysPerConnection: 100,
				KeepLatestData: c.keep, Mode: SharedPollModeVersioned, ChannelShutdownDelay: time.Hour}, true
		}},
	})
	if err != nil {
		t.Fatal(err)
	}
	node.OnSharedPoll(func(ctx context.Context, ev SharedPollEvent) (SharedPollResult, error) {
		e.mu.Lock()
		c := e.chans[ev.Channel]
		e.mu.Unlock()
		if c == nil || len(ev.Items) == 0 {
			return SharedPollResult{}, fmt.Errorf("unexpected poll %v", ev)
		}
		c.mu.Lock()
		closed := c.closed
		c.mu.Unlock()
		if closed {
			return SharedPollResult{Epoch: c.epochNow()}, nil // the scenario is over
		}
		if len(ev.Items) > 1 {
			// timer-driven cycle: every key of the channel in one call
			json := ev.Channel[len(ev.Channel)-1] == 'j'
			call := &c25Call{key: -2, items: append([]SharedPollItem(nil), ev.Items...), multi: make(chan []c25Resp, 1)}
			c.entered <- call
			select {
			case rs := <-call.multi:
				var out []SharedPollRefreshItem
				epoch := c.epochNow()
				for i, item := range ev.Items {
					if item.Key == "kz" {
						out = append(out, SharedPollRefreshItem{Key: "kz", Version: 1, Data: []byte("z")})
						continue
					}
					r := rs[i]
					epoch = r.epoch
					if r.none {
						continue
					}
					var k int
					_, _ = fmt.Sscanf(item.Key, "k%d", &k)
					it := SharedPollRefreshItem{Key: item.Key, Version: r.bv, Data: c25Doc(k, r.bv, json)}
					if r.prev && item.Version > 0 && item.Version < r.bv {
						it.PrevData = c25Doc(k, item.Version, json)
					}
					out = append(out, it)
				}
				return SharedPollResult{Items: out, Epoch: epoch}, nil
			case <-ctx.Done():
				return SharedPollResult{}, ctx.Err()
			}
		}
		if ev.Items[0].Key == "kz" {
			// barrier key tracked by a helper connection: the refresh worker handles notifications one at a
			// time, so when this call arrives every earlier notification has been dealt with
			c.entered <- &c25Call{key: -1}
			return SharedPollResult{Items: []SharedPollRefreshItem{{Key: "kz", Version: 1, Data: []byte("z")}}, Epoch: c.epochNow()}, nil
		}
		var k int
		_, _ = fmt.Sscanf(ev.Items[0].Key, "k%d", &k)
		call := &c25Call{key: k, reqv: ev.Items[0].Version, resp: make(chan c25Resp, 1)}
		c.entered <- call
		select {
		case r := <-call.resp:
			json := ev.Channel[len(ev.Channel)-1] == 'j'
			it := SharedPollRefreshItem{Key: ev.Items[0].Key}
			if r.none {
				return SharedPollResult{Epoch: r.epoch}, nil
			}
			if r.removed {
				it.Removed = true
			} else {
				it.Version, it.Data = r.bv, c25Doc(k, r.bv, json)
				if r.prev && call.reqv > 0 && call.reqv < r.bv {
					it.PrevData = c25Doc(k, call.reqv, json) // the payload of the version the node said it has
				}
			}
			return SharedPollResult{Items: []SharedPollRefreshItem{it}, Epoch: r.epoch}, nil
		case <-ctx.Done():
			return SharedPollResult{}, ctx.Err()
		}
	})
	node.OnConnect(func(client *Client) {
		client.OnSubscribe(func(ev SubscribeEvent, cb SubscribeCallback) {
			cb(SubscribeReply{Options: SubscribeOptions{ExpireAt: time.Now().Unix() + 3600, AllowedDeltaTypes: []DeltaType{DeltaTypeFossil}},
				ClientSideRefresh: true}, nil)
		})
		client.OnTrack(func(ev TrackEvent, cb TrackCallback) { cb(TrackReply{}, nil) })
		client.OnSubRefresh(func(ev SubRefreshEvent, cb SubRefreshCallback) { cb(SubRefreshReply{}, nil) })
	})
	if err := node.Run(); err != nil {
		t.Fatal(err)
	}
	e.node = node
	return e
}

type c25Scn struct {
	e       *c25Env
	r       *rand.Rand
	ch      string
	syncCh  string
	json    bool
	keep    bool
	cc      *c25Chan
	client  *Client
	tr      *testTransport
	sink    chan []byte
	nsync   int
	bad     string
	sub     bool
	tracked [c25K]bool
	held    [c25K]uint64 // version whose payload the client holds (0 = nothing)
	heldB   [c25K][]byte
	maxV    [c25K]uint64 // highest version ever used for the key (publisher / backend side)
	claimed [c25K]uint64 // version the client last claimed to have obtained elsewhere (0 = no such claim)
	nClaim  int
	epoch   string
	nepoch  int
	pending *c25Call
	late    *c25Call
	barriers int
	helper  *Client
	script  []string
	obs     []string
	jev     []string
	ndelta  int
	npush   int
	finding string
	reqs    []string // versions the node put into its backend requests, one per APollReq
	final   []string
	nTimer  int
	inPark  int // broadcasts held between the two phases of keyedWritePublication (0 or 1): they precede every later one in the model's list
	nPark   int
}

func (s *c25Scn) deliverNow() string { return vApp("ADeliver", vNat(s.inPark), "true") }

func (s *c25Scn) connect() {
	tr := newTestTransport(func() {})
	tr.setProtocolVersion(ProtocolVersion2)
	if s.json {
		tr.setProtocolType(ProtocolTypeJSON)
	} else {
		tr.setProtocolType(ProtocolTypeProtobuf)
	}
	s.sink = make(chan []byte, 4096)
	tr.setSink(s.sink)
	s.tr = tr
	s.client = newTestClientCustomTransport(s.e.t, context.Background(), s.e.node, tr, "u")
	connectClientV2(s.e.t, s.client)
	rw := testReplyWriterWrapper()
	if err := s.client.handleSubscribe(&protocol.SubscribeRequest{Channel: s.syncCh}, &protocol.Command{Id: 1}, time.Now(), rw.rw); err != nil {
		s.bad = "sync subscribe: " + err.Error()
	}
}

func (s *c25Scn) decode(msg []byte) *protocol.Reply {
	if s.json {
		r, err := protocol.NewJSONReplyDecoder(msg).Decode()
		if err != nil {
			return nil
		}
		return r
	}
	rep := &protocol.Reply{}
	if rep.UnmarshalVT(msg) != nil {
		return nil
	}
	return rep
}

// one decoded push fed to the reference client; returns its Coq term
func (s *c25Scn) onPub(p *protocol.Publication) string {
	var k int
	_, _ = fmt.Sscanf(p.Key, "k%d", &k)
	if p.Removed {
		s.tracked[k], s.held[k], s.heldB[k], s.claimed[k] = false, 0, nil, 0
		s.jev = append(s.jev, fmt.Sprintf("    push removed k%d", k))
		return vApp("PRemoved", vNat(k))
	}
	s.npush++
	if !s.tracked[k] {
		s.finding = "keyed-push-for-untracked-key"
	}
	raw := p.Data
	if s.json {
		var str string
		if err := stdjson.Unmarshal(p.Data, &str); err != nil {
			s.bad = fmt.Sprintf("push data of a delta subscription is not a JSON string: %q", p.Data)
		}
		raw = []byte(str)
	}
	want := c25Doc(k, p.Version, s.json)
	if !p.Delta {
		if !bytes.Equal(raw, want) {
			s.bad = fmt.Sprintf("full payload of k%d v%d differs from what was published", k, p.Version)
		}
		s.held[k], s.heldB[k] = p.Version, raw
		s.jev = append(s.jev, fmt.Sprintf("    push full k%d v%d", k, p.Version))
		return vApp("PFull", vNat(k), vNat(int(p.Version)))
	}
	s.ndelta++
	// which payload was the patch computed against?
	base := uint64(0)
	for u := uint64(1); u <= s.maxV[k]; u++ {
		if out, err := fdelta.Apply(c25Doc(k, u, s.json), raw); err == nil && bytes.Equal(out, want) {
			base = u
			break
		}
	}
	ok := false
	if s.heldB[k] != nil {
		if out, err := fdelta.Apply(s.heldB[k], raw); err == nil && bytes.Equal(out, want) {
			ok = true
		}
	}
	s.jev = append(s.jev, fmt.Sprintf("    push delta k%d v%d (base v%d, client holds v%d, applies=%v)", k, p.Version, base, s.held[k], ok))
	if ok {
		s.held[k], s.heldB[k] = p.Version, want
	} else {
		s.held[k], s.heldB[k] = 0, nil
		if s.keep || s.claimed[k] > 0 {
			// not the known PrevData race (KeepLatestData off, no claimed version): a delta against a payload
			// this node never delivered to the client
			s.finding = "keyed-delta-base-not-delivered"
		} else if s.finding == "" {
			s.finding = "keyed-delta-backend-prevdata-stale-base"
		}
	}
	return vApp("PDelta", vNat(k), vNat(int(p.Version)), vNat(int(base)))
}

// drain: sentinel on a plain channel; returns the pushes for the keyed channel in order
func (s *c25Scn) drain() []string {
	var out []string
	s.nsync++
	want := fmt.Sprintf(`{"sync":%d}`, s.nsync)
	if _, err := s.e.node.Publish(s.syncCh, []byte(want)); err != nil {
		s.bad = "sync publish: " + err.Error()
		return out
	}
	deadline := time.After(5 * time.Second)
	for {
		select {
		case msg := <-s.sink:
			rep := s.decode(msg)
			if rep == nil || rep.Push == nil {
				continue
			}
			if rep.Push.Channel == s.syncCh && rep.Push.Pub != nil {
				if string(rep.Push.Pub.Data) == want {
					return out
				}
				continue
			}
			if rep.Push.Channel == s.ch {
				if rep.Push.Pub != nil {
					out = append(out, s.onPub(rep.Push.Pub))
				}
				if rep.Push.Unsubscribe != nil {
					s.sub = false
					for k := range s.tracked {
						s.tracked[k], s.held[k], s.heldB[k], s.claimed[k] = false, 0, nil, 0
					}
					s.jev = append(s.jev, "    push unsubscribe")
					out = append(out, "PUnsub")
				}
			}
		case <-deadline:
			s.bad = "sync sentinel not received"
			return out
		}
	}
}

// idle: the refresh worker of the channel has nothing queued and is not inside a poll cycle (it holds the
// manager's semaphore for the whole cycle; finished scenarios never hold it)
func (s *c25Scn) idle() bool {
	s.e.node.sharedPollManager.mu.RLock()
	st := s.e.node.sharedPollManager.channels[s.ch]
	s.e.node.sharedPollManager.mu.RUnlock()
	return (st == nil || len(st.notifCh) == 0) && len(s.e.node.sharedPollManager.sem) == 0
}

// pump consumes backend calls until a real one is held at the gate (returned) or the worker is idle (nil).
// Barrier-key calls answer themselves; they only prove that everything queued before them was handled.
func (s *c25Scn) pump() *c25Call {
	deadline := time.Now().Add(10 * time.Second)
	calm := 0
	for time.Now().Before(deadline) {
		select {
		case call := <-s.cc.entered:
			if call.key >= 0 {
				return call
			}
			calm = 0
			continue
		default:
		}
		if s.idle() {
			calm++
			if calm >= 6 {
				return nil
			}
		} else {
			calm = 0
		}
		time.Sleep(200 * time.Microsecond)
	}
	s.bad = "refresh worker does not become idle"
	return nil
}

func (s *c25Scn) hold(call *c25Call) {
	s.pending = call
	s.reqs = append(s.reqs, vNat(int(call.reqv)))
	s.act(vApp("APollReq", vNat(call.key)), nil, fmt.Sprintf("poll request k%d with version %d", call.key, call.reqv))
}

// settle: after an operation that may have queued notifications, a barrier notification is queued behind
// them and the worker is pumped until a real call is held or it is idle
func (s *c25Scn) settle() {
	if s.pending != nil || s.bad != "" {
		return
	}
	s.e.node.SharedPollNotify([]SharedPollNotificationItem{{Channel: s.ch, Key: "kz"}})
	if call := s.pump(); call != nil {
		s.hold(call)
	}
}

// after releasing a held call: wait until its response has been applied (the next call, or idleness, proves it)
func (s *c25Scn) waitApplied() {
	if call := s.pump(); call != nil {
		s.late = call
	}
}

// continue with what was queued behind an answered call
func (s *c25Scn) resume() {
	if s.late != nil {
		call := s.late
		s.late = nil
		s.hold(call)
		return
	}
	if call := s.pump(); call != nil {
		s.hold(call)
	}
}

func (s *c25Scn) act(term string, pushes []string, j string) {
	s.script = append(s.script, term)
	s.obs = append(s.obs, vList(pushes))
	s.jev = append(s.jev, j)
}

func (s *c25Scn) subRefresh(req *protocol.SubRefreshRequest) *protocol.SubRefreshResult {
	rw := testReplyWriterWrapper()
	if err := s.client.handleSubRefresh(req, &protocol.Command{Id: 2}, time.Now(), rw.rw); err != nil {
		s.bad = "sub refresh: " + err.Error()
		return nil
	}
	for i := 0; i < 2000 && len(rw.replies) == 0; i++ {
		time.Sleep(time.Millisecond)
	}
	if len(rw.replies) == 0 || rw.replies[0].Error != nil {
		s.bad = "sub refresh failed"
		return nil
	}
	return rw.replies[0].SubRefresh
}

func (s *c25Scn) doSubscribe() {
	if s.sub {
		return
	}
	rw := testReplyWriterWrapper()
	err := s.client.handleSubscribe(&protocol.SubscribeRequest{Channel: s.ch, Type: int32(SubscriptionTypeSharedPoll), Delta: string(DeltaTypeFossil)},
		&protocol.Command{Id: 1}, time.Now(), rw.rw)
	for i := 0; i < 2000 && err == nil && len(rw.replies) == 0; i++ {
		time.Sleep(time.Millisecond)
	}
	if err != nil || len(rw.replies) == 0 || rw.replies[0].Error != nil || !rw.replies[0].Subscribe.Delta {
		s.bad = fmt.Sprintf("shared poll subscribe failed: %v", err)
		return
	}
	s.sub = true
	for k := range s.tracked {
		s.tracked[k], s.held[k], s.heldB[k], s.claimed[k] = false, 0, nil, 0
	}
	s.act("ASubscribe", s.drain(), "subscribe")
}

func (s *c25Scn) doTrack(k int, fresh bool) {
	if !s.sub {
		return
	}
	cv := s.held[k]
	s.claimed[k] = 0
	if fresh {
		cv = 0
		s.held[k], s.heldB[k] = 0, nil
	}
	res := s.subRefresh(&protocol.SubRefreshRequest{Channel: s.ch, Type: typeTrack,
		Track: []*protocol.TrackBatch{{Items: []*protocol.KeyedItem{{Key: fmt.Sprintf("k%d", k), Version: cv}}}}})
	if res == nil {
		return
	}
	s.tracked[k] = true
	s.jev = append(s.jev, fmt.Sprintf("track k%d sending version %d", k, cv))
	var pushes []string
	for _, p := range res.Items {
		pushes = append(pushes, s.onPub(p))
	}
	pushes = append(pushes, s.drain()...)
	s.script = append(s.script, vApp("ATrack", vNat(k), vBool(fresh)))
	s.obs = append(s.obs, vList(pushes))
	s.settle()
}

// (re-)track with a version the client obtained elsewhere: ahead of, equal to or behind what this node
// delivered to it. Its delta base stays what the node delivered.
func (s *c25Scn) doTrackV(k int) {
	if !s.sub {
		return
	}
	var cv uint64
	switch s.r.Intn(4) {
	case 0: // behind
		if s.held[k] > 1 {
			cv = 1 + uint64(s.r.Intn(int(s.held[k]-1)))
		} else {
			cv = s.maxV[k] + 1
		}
	case 1: // equal to what was delivered
		cv = s.held[k]
		if cv == 0 {
			cv = s.maxV[k] + 1
		}
	default: // ahead: the next version the publisher / backend will use, or one it already used
		cv = s.maxV[k] + 1
		if s.held[k] < s.maxV[k] && s.r.Intn(2) == 0 {
			cv = s.maxV[k]
		}
	}
	s.doTrackVWith(k, cv)
}

func (s *c25Scn) doTrackVWith(k int, cv uint64) {
	if !s.sub {
		return
	}
	res := s.subRefresh(&protocol.SubRefreshRequest{Channel: s.ch, Type: typeTrack,
		Track: []*protocol.TrackBatch{{Items: []*protocol.KeyedItem{{Key: fmt.Sprintf("k%d", k), Version: cv}}}}})
	if res == nil {
		return
	}
	s.tracked[k] = true
	s.claimed[k] = cv
	s.nClaim++
	s.jev = append(s.jev, fmt.Sprintf("track k%d claiming version %d obtained elsewhere (the node delivered v%d to it)", k, cv, s.held[k]))
	var pushes []string
	for _, p := range res.Items {
		pushes = append(pushes, s.onPub(p))
	}
	pushes = append(pushes, s.drain()...)
	s.script = append(s.script, vApp("ATrackV", vNat(k), vNat(int(cv))))
	s.obs = append(s.obs, vList(pushes))
	s.settle()
}

func (s *c25Scn) doUntrack(k int) {
	if !s.sub || !s.tracked[k] {
		return
	}
	s.claimed[k] = 0
	if s.subRefresh(&protocol.SubRefreshRequest{Channel: s.ch, Type: typeUntrack, Untrack: []string{fmt.Sprintf("k%d", k)}}) == nil {
		return
	}
	s.tracked[k], s.held[k], s.heldB[k], s.claimed[k] = false, 0, nil, 0
	s.act(vApp("AUntrack", vNat(k), "false"), s.drain(), fmt.Sprintf("untrack k%d", k))
}

func (s *c25Scn) doNotify(k int) {
	s.e.node.SharedPollNotify([]SharedPollNotificationItem{{Channel: s.ch, Key: fmt.Sprintf("k%d", k)}})
	s.jev = append(s.jev, fmt.Sprintf("notify k%d", k))
	s.settle()
}

func (s *c25Scn) nextVersion(k int) uint64 {
	switch s.r.Intn(6) {
	case 0:
		if s.maxV[k] > 0 {
			return 1 + uint64(s.r.Intn(int(s.maxV[k]))) // stale / equal
		}
	}
	s.maxV[k] += 1 + uint64(s.r.Intn(2))
	return s.maxV[k]
}

func (s *c25Scn) doRespond(removed bool) {
	if s.pending == nil {
		return
	}
	call := s.pending
	s.pending = nil
	k := call.key
	if removed {
		call.resp <- c25Resp{removed: true, epoch: s.epoch}
		s.waitApplied()
		pushes := s.drain()
		s.act(vApp("APollRemoved", vNat(k)), pushes, fmt.Sprintf("backend answers: k%d removed", k))
		s.resume()
		return
	}
	bv := s.nextVersion(k)
	prev := s.r.Intn(3) != 0
	call.resp <- c25Resp{bv: bv, prev: prev, epoch: s.epoch}
	s.waitApplied()
	pushes := s.drain()
	s.act(vApp("APollResp", "0%nat", vNat(int(bv)), vBool(prev)), nil, fmt.Sprintf("backend answers k%d: version %d, prev_data=%v (request had version %d)", k, bv, prev, call.reqv))
	s.act(s.deliverNow(), pushes, "  (broadcast of the response)")
	s.resume()
}

func (s *c25Scn) doPublish(k int, flip bool) {
	if flip {
		s.nepoch++
		s.epoch = fmt.Sprintf("e%d", s.nepoch)
		s.cc.mu.Lock()
		s.cc.epoch = s.epoch
		s.cc.mu.Unlock()
	}
	v := s.nextVersion(k)
	wasSub := s.sub
	_ = wasSub
	if err := s.e.node.SharedPollPublish(context.Background(), s.ch, fmt.Sprintf("k%d", k), v, s.epoch, c25Doc(k, v, s.json)); err != nil {
		s.bad = "publish: " + err.Error()
		return
	}
	pushes := s.drain()
	var flipPush, rest []string
	for _, p := range pushes {
		if p == "PUnsub" {
			flipPush = append(flipPush, p)
		} else {
			rest = append(rest, p)
		}
	}
	if flip {
		s.act("AEpochFlip", flipPush, fmt.Sprintf("publisher epoch becomes %s", s.epoch))
		// the flip unsubscribed the helper connection as well: bring the barrier key back; its cold-key
		// notification is one more barrier in the worker's queue
		rw := testReplyWriterWrapper()
		_ = s.helper.handleSubscribe(&protocol.SubscribeRequest{Channel: s.ch, Type: int32(SubscriptionTypeSharedPoll)}, &protocol.Command{Id: 1}, time.Now(), rw.rw)
		for i := 0; i < 2000 && len(rw.replies) == 0; i++ {
			time.Sleep(time.Millisecond)
		}
		rw2 := testReplyWriterWrapper()
		_ = s.helper.handleSubRefresh(&protocol.SubRefreshRequest{Channel: s.ch, Type: typeTrack,
			Track: []*protocol.TrackBatch{{Items: []*protocol.KeyedItem{{Key: "kz", Version: 0}}}}}, &protocol.Command{Id: 2}, time.Now(), rw2.rw)
		for i := 0; i < 2000 && len(rw2.replies) == 0; i++ {
			time.Sleep(time.Millisecond)
		}
		if len(rw2.replies) == 0 || rw2.replies[0].Error != nil {
			s.bad = "helper re-track failed"
		}
	} else if len(flipPush) > 0 {
		s.bad = "unsubscribe push without an epoch change"
	}
	s.act(vApp("APublish", vNat(k), vNat(int(v))), nil, fmt.Sprintf("publish k%d version %d", k, v))
	s.act(s.deliverNow(), rest, "  (broadcast of the publication)")
}

// A SharedPollPublish whose broadcast to the connection is held between the unlocked admission check and
// the locked enqueue section of keyedWritePublication while the connection untracks / is revoked /
// re-tracks / receives other broadcasts; then it resumes. In the model: APublish now, ADeliver later.
func (s *c25Scn) doPublishParked(k int) {
	if s.inPark > 0 || !s.sub {
		return
	}
	s.maxV[k] += 1 + uint64(s.r.Intn(2))
	v := s.maxV[k]
	key := fmt.Sprintf("k%d", k)
	s.cc.parkArm.Store(true)
	done := make(chan error, 1)
	go func() {
		done <- s.e.node.SharedPollPublish(context.Background(), s.ch, key, v, s.epoch, c25Doc(k, v, s.json))
	}()
	select {
	case err := <-done:
		// the first check did not admit it (key not tracked by the connection): nothing was held
		s.cc.parkArm.Store(false)
		if err != nil {
			s.bad = "publish: " + err.Error()
			return
		}
		pushes := s.drain()
		s.act(vApp("APublish", vNat(k), vNat(int(v))), nil, fmt.Sprintf("publish k%d version %d", k, v))
		s.act(s.deliverNow(), pushes, "  (broadcast of the publication)")
		return
	case <-s.cc.parked:
	case <-time.After(10 * time.Second):
		s.bad = "parked publish neither returned nor reached the gate"
		return
	}
	// what the first phase saw of deltaReady
	dp1 := false
	s.client.mu.RLock()
	if s.client.keyed != nil {
		if ks, ok := s.client.keyed.trackedKeys[s.ch][key]; ok {
			dp1 = ks.deltaReady
		}
	}
	s.client.mu.RUnlock()
	s.nPark++
	s.act(vApp("APublish", vNat(k), vNat(int(v))), nil, fmt.Sprintf("publish k%d version %d: its broadcast is held between the admission check and the enqueue (deltaReady seen: %v)", k, v, dp1))
	s.inPark = 1
	n := 1 + s.r.Intn(3)
	for j := 0; j < n && s.bad == "" && s.sub; j++ {
		x := s.r.Intn(100)
		switch {
		case x < 35:
			s.doUntrack(k)
		case x < 50:
			s.doRevoke(k)
		case x < 64:
			s.doTrack(k, s.held[k] == 0 || s.r.Intn(2) == 0)
		case x < 70:
			s.doTrackV(k)
		case x < 85:
			s.doPublish(k, false)
		case x < 92 && s.pending != nil:
			s.doRespond(false)
		default:
			s.doNotify(k)
		}
	}
	s.cc.release <- struct{}{}
	select {
	case err := <-done:
		if err != nil {
			s.bad = "publish: " + err.Error()
		}
	case <-time.After(10 * time.Second):
		s.bad = "parked publish did not return"
	}
	s.inPark = 0
	s.act(vApp("ADeliver", "0%nat", vBool(dp1)), s.drain(), "  (the held broadcast resumes)")
}

// One timer-driven refresh cycle (what the channel's refresh timer runs), with the backend's answer
// chosen per key. final: the backend behaves like a real one that reports changes since the requested
// version - it answers a key only when it has something newer than that version.
func (s *c25Scn) doTimerCycle(final bool) {
	if s.inPark > 0 || !s.sub || s.bad != "" {
		return
	}
	s.settle()
	if s.pending != nil || s.late != nil {
		return
	}
	m := s.e.node.sharedPollManager
	m.mu.RLock()
	st := m.channels[s.ch]
	m.mu.RUnlock()
	if st == nil {
		return
	}
	done := make(chan struct{})
	go func() {
		st.runRefreshCycle(context.Background(), s.e.node, s.ch, m.sem)
		close(done)
	}()
	var call *c25Call
	deadline := time.After(10 * time.Second)
	for call == nil {
		select {
		case c := <-s.cc.entered:
			if c.key == -2 {
				call = c
			} else if c.key >= 0 {
				s.bad = "single-key backend call during a timer cycle"
				c.resp <- c25Resp{none: true, epoch: s.epoch}
			}
		case <-done:
			s.jev = append(s.jev, "timer cycle: nothing to poll")
			return
		case <-deadline:
			s.bad = "timer cycle made no backend call"
			return
		}
	}
	s.nTimer++
	s.jev = append(s.jev, fmt.Sprintf("timer cycle (final=%v)", final))
	rs := make([]c25Resp, len(call.items))
	var keys []int
	for i, item := range call.items {
		if item.Key == "kz" {
			continue
		}
		var k int
		_, _ = fmt.Sscanf(item.Key, "k%d", &k)
		keys = append(keys, i)
		s.reqs = append(s.reqs, vNat(int(item.Version)))
		s.act(vApp("APollReq", vNat(k)), nil, fmt.Sprintf("  request k%d with version %d", k, item.Version))
		r := c25Resp{epoch: s.epoch}
		if final {
			if item.Version < s.maxV[k] {
				r.bv = s.maxV[k]
			} else {
				r.none = true
			}
		} else {
			switch x := s.r.Intn(10); {
			case x < 3:
				r.none = true
			default:
				r.bv = s.nextVersion(k)
				r.prev = s.r.Intn(3) != 0
			}
		}
		rs[i] = r
	}
	call.multi <- rs
	select {
	case <-done:
	case <-time.After(10 * time.Second):
		s.bad = "timer cycle did not finish"
		return
	}
	pushes := s.drain()
	byKey := map[int][]string{}
	for _, p := range pushes {
		var k, a, b int
		if n, _ := fmt.Sscanf(p, "(PFull %d%%nat %d%%nat)", &k, &a); n == 2 {
			byKey[k] = append(byKey[k], p)
		} else if n, _ := fmt.Sscanf(p, "(PDelta %d%%nat %d%%nat %d%%nat)", &k, &a, &b); n == 3 {
			byKey[k] = append(byKey[k], p)
		} else {
			s.bad = "unexpected push in a timer cycle: " + p
		}
	}
	for _, i := range keys {
		var k int
		_, _ = fmt.Sscanf(call.items[i].Key, "k%d", &k)
		r := rs[i]
		if r.none {
			s.act(vApp("APollNone", "0%nat"), nil, fmt.Sprintf("  backend has nothing for k%d", k))
			continue
		}
		s.act(vApp("APollResp", "0%nat", vNat(int(r.bv)), vBool(r.prev)), nil, fmt.Sprintf("  backend answers k%d: version %d prev_data=%v", k, r.bv, r.prev))
		s.act(s.deliverNow(), byKey[k], "    (broadcast of the response)")
		delete(byKey, k)
	}
	if len(byKey) > 0 {
		s.bad = "push for a key that was not answered in the timer cycle"
	}
}

func (s *c25Scn) doRevoke(k int) {
	if !s.tracked[k] {
		return
	}
	s.e.node.sharedPollManager.SharedPollRevokeKeys(s.ch, []string{fmt.Sprintf("k%d", k)}, nil, nil)
	s.act(vApp("ARevoke", vNat(k), "false"), s.drain(), fmt.Sprintf("revoke k%d", k))
}

// probe: is the backend's PrevData still used when a publish moved the entry's version meanwhile?
func (e *c25Env) probe() {
	s := c25NewScn(e, rand.New(rand.NewSource(3)), "c25probe", false, false)
	s.runForced([]string{"sub", "track0", "resp5", "notify0", "pub6", "resp7p"})
	e.gx = s.finding == ""
	s.close()
}

func c25NewScn(e *c25Env, r *rand.Rand, name string, json, keep bool) *c25Scn {
	ch := name + "_p"
	if json {
		ch = name + "_j"
	}
	s := &c25Scn{e: e, r: r, ch: ch, syncCh: name + "_sync", json: json, keep: keep}
	s.cc = &c25Chan{keep: keep, entered: make(chan *c25Call, 64), parked: make(chan struct{}, 1), release: make(chan struct{})}
	e.mu.Lock()
	e.chans[ch] = s.cc
	e.mu.Unlock()
	s.connect()
	// helper connection that keeps the barrier key tracked for the whole scenario
	htr := newTestTransport(func() {})
	htr.setProtocolVersion(ProtocolVersion2)
	s.helper = newTestClientCustomTransport(e.t, context.Background(), e.node, htr, "h")
	connectClientV2(e.t, s.helper)
	rw := testReplyWriterWrapper()
	_ = s.helper.handleSubscribe(&protocol.SubscribeRequest{Channel: ch, Type: int32(SubscriptionTypeSharedPoll)}, &protocol.Command{Id: 1}, time.Now(), rw.rw)
	for i := 0; i < 2000 && len(rw.replies) == 0; i++ {
		time.Sleep(time.Millisecond)
	}
	rw2 := testReplyWriterWrapper()
	_ = s.helper.handleSubRefresh(&protocol.SubRefreshRequest{Channel: ch, Type: typeTrack,
		Track: []*protocol.TrackBatch{{Items: []*protocol.KeyedItem{{Key: "kz", Version: 0}}}}}, &protocol.Command{Id: 2}, time.Now(), rw2.rw)
	for i := 0; i < 2000 && len(rw2.replies) == 0; i++ {
		time.Sleep(time.Millisecond)
	}
	if call := s.pump(); call != nil {
		s.bad = "unexpected first backend call"
	}
	return s
}

func (s *c25Scn) close() {
	s.cc.mu.Lock()
	s.cc.closed = true
	s.cc.mu.Unlock()
	for _, c := range []*c25Call{s.pending, s.late} {
		if c != nil {
			c.resp <- c25Resp{bv: 0, epoch: s.epoch}
		}
	}
	s.pending, s.late = nil, nil
	_ = s.client.close(DisconnectForceNoReconnect)
	_ = s.helper.close(DisconnectForceNoReconnect)
}

// quiescence with a fair poller and a responsive backend: a few timer cycles, after which every tracked
// key must hold the newest version
func (s *c25Scn) finish() {
	if !(s.sub && s.bad == "" && s.pending == nil) {
		return
	}
	for k := range s.tracked {
		if s.tracked[k] && s.maxV[k] == 0 {
			s.maxV[k] = 1
		}
	}
	for j := 0; j < 3; j++ {
		s.doTimerCycle(true)
		for q := 0; q < 10 && s.pending != nil; q++ {
			s.doRespond(false)
		}
	}
	if s.pending == nil && s.late == nil && s.sub && s.bad == "" {
		for k := range s.tracked {
			if s.tracked[k] && s.claimed[k] >= s.maxV[k] && s.claimed[k] > s.held[k] {
				continue // the client said it already has that version from elsewhere: nothing is owed to it
			}
			if s.tracked[k] {
				s.final = append(s.final, vPair(vNat(k), vNat(int(s.maxV[k]))))
				if s.held[k] != s.maxV[k] && s.finding == "" {
					s.finding = "keyed-late-joiner-not-served"
				}
			}
		}
	}
}

func (s *c25Scn) runForced(steps []string) {
	for _, st := range steps {
		var k, v int
		switch {
		case st == "sub":
			s.doSubscribe()
		case len(st) > 5 && st[:5] == "track":
			_, _ = fmt.Sscanf(st, "track%d", &k)
			s.doTrack(k, true)
		case len(st) > 6 && st[:6] == "notify":
			_, _ = fmt.Sscanf(st, "notify%d", &k)
			s.doNotify(k)
		case len(st) > 4 && st[:4] == "resp":
			prev := st[len(st)-1] == 'p'
			_, _ = fmt.Sscanf(st, "resp%d", &v)
			if s.pending == nil {
				s.settle()
			}
			if s.pending == nil {
				s.bad = "no backend call in flight"
				return
			}
			call := s.pending
			s.pending = nil
			if uint64(v) > s.maxV[call.key] {
				s.maxV[call.key] = uint64(v)
			}
			call.resp <- c25Resp{bv: uint64(v), prev: prev, epoch: s.epoch}
			s.waitApplied()
			pushes := s.drain()
			s.act(vApp("APollResp", "0%nat", vNat(v), vBool(prev)), nil, fmt.Sprintf("backend answers k%d: version %d prev_data=%v (request had version %d)", call.key, v, prev, call.reqv))
			s.act(vApp("ADeliver", "0%nat", "true"), pushes, "  (broadcast of the response)")
			s.resume()
		case len(st) > 5 && st[:5] == "claim":
			_, _ = fmt.Sscanf(st, "claim%d", &v)
			s.doTrackVWith(0, uint64(v))
		case st == "none":
			// the one backend call in flight ends without an item for its key (error / nothing newer)
			if s.pending == nil {
				s.settle()
			}
			if s.pending == nil {
				s.bad = "no backend call in flight"
				return
			}
			call := s.pending
			s.pending = nil
			call.resp <- c25Resp{none: true, epoch: s.epoch}
			s.waitApplied()
			s.act(vApp("APollNone", "0%nat"), s.drain(), fmt.Sprintf("backend call for k%d ends without an item", call.key))
			s.resume()
		case len(st) > 3 && st[:3] == "pub":
			_, _ = fmt.Sscanf(st, "pub%d", &v)
			if uint64(v) > s.maxV[0] {
				s.maxV[0] = uint64(v)
			}
			if err := s.e.node.SharedPollPublish(context.Background(), s.ch, "k0", uint64(v), s.epoch, c25Doc(0, uint64(v), s.json)); err != nil {
				s.bad = "publish: " + err.Error()
			}
			pushes := s.drain()
			s.act(vApp("APublish", "0%nat", vNat(v)), nil, fmt.Sprintf("publish k0 version %d", v))
			s.act(vApp("ADeliver", "0%nat", "true"), pushes, "  (broadcast of the publication)")
		}
	}
}

func TestVerifC25(t *testing.T) {
	w := verifOpen(t, "C25")
	defer w.Close()
	e := c25NewEnv(t)
	defer func() { _ = e.node.Shutdown(context.Background()) }()
	e.probe()
	w.Extra["probe_gx"] = e.gx
	for i := 0; i < w.N; i++ {
		if !w.Want(i) {
			continue
		}
		r := w.Rand(i)
		json, keep := r.Intn(2) == 0, r.Intn(2) == 0
		if i <= 1 {
			json, keep = false, false
		}
		if i == 2 {
			json, keep = false, true
		}
		s := c25NewScn(e, r, fmt.Sprintf("c25_%d", i), json, keep)
		if i == 0 {
			// corpus: SharedPollPublish while a backend call that will carry PrevData is in flight
			s.runForced([]string{"sub", "track0", "resp5", "notify0", "pub6", "resp7p"})
		} else if i == 2 {
			// corpus: re-track of a tracked, delta-ready key claiming a version obtained elsewhere, ahead of
			// what the node delivered; that version is then skipped for the client and the next one must
			// come in full
			s.runForced([]string{"sub", "track0", "resp1", "claim2", "pub2", "pub3"})
			s.finish()
		} else if i == 1 {
			// corpus: a late joiner of a warm key whose one notified backend call is lost; only the
			// periodic cycles can serve it, and only by asking from version 0
			s.runForced([]string{"sub", "track0", "resp5", "track0", "none"})
			s.finish()
		} else {
			s.doSubscribe()
			n := 10 + r.Intn(25)
			for j := 0; j < n && s.bad == ""; j++ {
				k := r.Intn(c25K)
				x := r.Intn(100)
				switch {
				case !s.sub:
					s.doSubscribe()
				case s.pending != nil && x < 35:
					s.doRespond(x < 3)
				case x < 50 && !s.tracked[k]:
					s.doTrack(k, s.held[k] == 0 || r.Intn(3) == 0)
				case x < 54:
					s.doTrack(k, r.Intn(2) == 0) // re-track
				case x < 59:
					s.doTrackV(k)
				case x < 64:
					s.doUntrack(k)
				case x < 72:
					s.doNotify(k)
				case x < 80:
					s.doPublish(k, false)
				case x < 92:
					s.doPublishParked(k)
				case x < 95:
					s.doRevoke(k)
				case x < 98:
					s.doTimerCycle(false)
				default:
					s.doPublish(k, true)
				}
			}
			for j := 0; j < 10 && s.pending != nil; j++ {
				s.doRespond(false)
			}
			s.finish()
		}
		s.close()
		class := "keyed"
		if keep {
			class += "+keep-latest"
		}
		if json {
			class += "/json"
		} else {
			class += "/protobuf"
		}
		if i == 0 {
			class += "/corpus-prevdata-race"
		}
		if i == 1 {
			class += "/corpus-late-joiner-notified-call-lost"
		}
		if i == 2 {
			class += "/corpus-retrack-claimed-version"
		}
		if s.nPark > 0 {
			class += "+held-broadcast"
		}
		if s.nTimer > 0 {
			class += "+timer"
		}
		if s.nClaim > 0 {
			class += "+claimed-version"
		}
		if s.bad != "" {
			t.Errorf("case %d (%s): driver problem: %s", i, class, s.bad)
			class += "/driver-problem"
		}
		term := vApp("mkCase", vBool(keep), vBool(e.gx), vList(s.script), vList(s.obs), vList(s.reqs), vList(s.final))
		w.Case(i, term, map[string]any{"class": class, "script": s.jev, "finding": s.finding, "pushes": s.npush, "deltas": s.ndelta},
			class, s.npush >= 4 && s.ndelta >= 1)
	}
}
