package centrifuge

// C31 driver: WebSocket opening handshake (internal/websocket Upgrader through its exported API),
// received close code validation, close frame written by websocketTransport.Close, first-close-wins.
// Everything runs on in-memory connections; no goroutines, no timers.

import (
	"bufio"
	"bytes"
	"crypto/sha1"
	"encoding/base64"
	"errors"
	"fmt"
	"io"
	"math/rand"
	"net"
	"net/http"
	"net/url"
	"strings"
	"testing"
	"time"

	"github.com/centrifugal/centrifuge/internal/websocket"
)

// ---------------------------------------------------------------- in-memory plumbing

type c31Addr struct{}

func (c31Addr) Network() string { return "mem" }
func (c31Addr) String() string  { return "mem" }

type c31Conn struct {
	in     bytes.Buffer
	out    bytes.Buffer
	closed bool
}

func (c *c31Conn) Read(p []byte) (int, error) {
	if c.closed {
		return 0, io.ErrClosedPipe
	}
	if c.in.Len() == 0 {
		return 0, io.EOF
	}
	return c.in.Read(p)
}
func (c *c31Conn) Write(p []byte) (int, error) {
	if c.closed {
		return 0, io.ErrClosedPipe
	}
	return c.out.Write(p)
}
func (c *c31Conn) Close() error                     { c.closed = true; return nil }
func (c *c31Conn) LocalAddr() net.Addr              { return c31Addr{} }
func (c *c31Conn) RemoteAddr() net.Addr             { return c31Addr{} }
func (c *c31Conn) SetDeadline(time.Time) error      { return nil }
func (c *c31Conn) SetReadDeadline(time.Time) error  { return nil }
func (c *c31Conn) SetWriteDeadline(time.Time) error { return nil }

// c31RW is an http.ResponseWriter that can be hijacked (HTTP/1.1) and flushed (HTTP/2 path).
type c31RW struct {
	hdr    http.Header
	status int
	body   bytes.Buffer
	conn   *c31Conn
}

func (w *c31RW) Header() http.Header { return w.hdr }
func (w *c31RW) WriteHeader(s int) {
	if w.status == 0 {
		w.status = s
	}
}
func (w *c31RW) Write(p []byte) (int, error) {
	if w.status == 0 {
		w.status = 200
	}
	return w.body.Write(p)
}
func (w *c31RW) Hijack() (net.Conn, *bufio.ReadWriter, error) {
	return w.conn, bufio.NewReadWriter(bufio.NewReader(w.conn), bufio.NewWriter(w.conn)), nil
}
func (w *c31RW) Flush()                            {}
func (w *c31RW) SetReadDeadline(time.Time) error   { return nil }
func (w *c31RW) SetWriteDeadline(time.Time) error  { return nil }

// ---------------------------------------------------------------- handshake cases

type c31Req struct {
	Major      int      `json:"major"`
	Method     string   `json:"method"`
	Host       string   `json:"host"`
	Connection []string `json:"connection"`
	Upgrade    []string `json:"upgrade"`
	Version    []string `json:"version"`
	Key        []string `json:"key"`
	Origin     []string `json:"origin"`
	Protocol   []string `json:"protocol"`
	Extensions []string `json:"extensions"`
	H2Protocol []string `json:"h2protocol"`
}

type c31Cfg struct {
	Subprotocols []string `json:"subprotocols"` // nil = not set
	HasSub       bool     `json:"has_sub"`
	Compression  bool     `json:"compression"`
	DisableH1    bool     `json:"disable_h1"`
	Origin       int      `json:"origin"` // 0 default checkSameOrigin, 1 callback true, 2 callback false
	RespExt      bool     `json:"resp_ext"`
	RespProto    *string  `json:"resp_proto"` // responseHeader Sec-Websocket-Protocol (nil responseHeader when nil and !RespExt)
}

func c31Strs(xs []string) string {
	ys := make([]string, len(xs))
	for i, x := range xs {
		ys[i] = vStr(x)
	}
	return vList(ys)
}

func c31ReqCoq(r c31Req) string {
	return vApp("mkRequest", vN(uint64(r.Major)), vStr(r.Method), vStr(r.Host), c31Strs(r.Connection), c31Strs(r.Upgrade),
		c31Strs(r.Version), c31Strs(r.Key), c31Strs(r.Origin), c31Strs(r.Protocol), c31Strs(r.Extensions), c31Strs(r.H2Protocol))
}

func c31CfgCoq(c c31Cfg) string {
	sub := "None"
	if c.HasSub {
		sub = "(Some " + c31Strs(c.Subprotocols) + ")"
	}
	org := "None"
	if c.Origin == 1 {
		org = "(Some true)"
	} else if c.Origin == 2 {
		org = "(Some false)"
	}
	rp := "None"
	if c.RespProto != nil {
		rp = "(Some " + vStr(*c.RespProto) + ")"
	} else if c.RespExt {
		rp = "(Some [])" // responseHeader non-nil without the protocol header: Get returns ""
	}
	return vApp("mkConfig", sub, vBool(c.Compression), vBool(c.DisableH1), org, vBool(c.RespExt), rp)
}

type c31HsObs struct {
	Panic  string `json:"panic,omitempty"`
	Status int    `json:"status"`
	Accept string `json:"accept"`
	Sub    string `json:"sub"`
	RetSub string `json:"ret_sub"`
	Ext    bool   `json:"ext"`
}

func c31SetHeader(h http.Header, k string, vs []string) {
	if vs != nil {
		h[k] = append([]string(nil), vs...)
	}
}

// c31RunHandshake calls the real Upgrader.
func c31RunHandshake(cfg c31Cfg, rq c31Req) (obs c31HsObs, conn *websocket.Conn, mem *c31Conn) {
	h := http.Header{}
	c31SetHeader(h, "Connection", rq.Connection)
	c31SetHeader(h, "Upgrade", rq.Upgrade)
	c31SetHeader(h, "Sec-Websocket-Version", rq.Version)
	c31SetHeader(h, "Sec-Websocket-Key", rq.Key)
	c31SetHeader(h, "Origin", rq.Origin)
	c31SetHeader(h, "Sec-Websocket-Protocol", rq.Protocol)
	c31SetHeader(h, "Sec-Websocket-Extensions", rq.Extensions)
	c31SetHeader(h, ":protocol", rq.H2Protocol)
	req := &http.Request{Method: rq.Method, URL: &url.URL{Path: "/connection/websocket"}, Proto: fmt.Sprintf("HTTP/%d.0", rq.Major),
		ProtoMajor: rq.Major, Header: h, Host: rq.Host, Body: io.NopCloser(strings.NewReader(""))}
	up := &websocket.Upgrader{EnableCompression: cfg.Compression, DisableHTTP1Upgrade: cfg.DisableH1}
	if cfg.HasSub {
		up.Subprotocols = append([]string{}, cfg.Subprotocols...)
	}
	switch cfg.Origin {
	case 1:
		up.CheckOrigin = func(*http.Request) bool { return true }
	case 2:
		up.CheckOrigin = func(*http.Request) bool { return false }
	}
	var respHeader http.Header
	if cfg.RespProto != nil || cfg.RespExt {
		respHeader = http.Header{}
		if cfg.RespProto != nil {
			respHeader["Sec-Websocket-Protocol"] = []string{*cfg.RespProto}
		}
		if cfg.RespExt {
			respHeader["Sec-Websocket-Extensions"] = []string{"x-app-ext"}
		}
	}
	mem = &c31Conn{}
	rw := &c31RW{hdr: http.Header{}, conn: mem}
	var retSub string
	var err error
	func() {
		defer func() {
			if p := recover(); p != nil {
				obs.Panic = fmt.Sprint(p)
			}
		}()
		conn, retSub, err = up.Upgrade(rw, req, respHeader)
	}()
	if obs.Panic != "" {
		return obs, nil, mem
	}
	obs.RetSub = retSub
	if err != nil {
		obs.Status = rw.status
		return obs, nil, mem
	}
	if rq.Major == 2 {
		obs.Status = rw.status
		obs.Accept = rw.hdr.Get("Sec-Websocket-Accept")
		obs.Sub = rw.hdr.Get("Sec-Websocket-Protocol")
		obs.Ext = rw.hdr.Get("Sec-Websocket-Extensions") != ""
		return obs, conn, mem
	}
	resp, perr := http.ReadResponse(bufio.NewReader(bytes.NewReader(mem.out.Bytes())), nil)
	if perr != nil {
		obs.Status = 998 // unparsable handshake response
		return obs, conn, mem
	}
	obs.Status = resp.StatusCode
	obs.Accept = resp.Header.Get("Sec-Websocket-Accept")
	obs.Sub = resp.Header.Get("Sec-Websocket-Protocol")
	obs.Ext = resp.Header.Get("Sec-Websocket-Extensions") != ""
	mem.out.Reset()
	return obs, conn, mem
}

const c31RFCGUID = "258EAFA5-E914-47DA-95CA-C5AB0DC85B11" // RFC 6455 section 1.3

func c31LibAccept(key string) string {
	s := sha1.Sum([]byte(key + c31RFCGUID))
	return base64.StdEncoding.EncodeToString(s[:])
}

func c31ValidKey(r *rand.Rand) string {
	b := make([]byte, 16)
	r.Read(b)
	return base64.StdEncoding.EncodeToString(b)
}

const c31B64 = "ABCDEFGHIJKLMNOPQRSTUVWXYZabcdefghijklmnopqrstuvwxyz0123456789+/"

func c31B64Chars(r *rand.Rand, n int) string {
	b := make([]byte, n)
	for i := range b {
		b[i] = c31B64[r.Intn(64)]
	}
	return string(b)
}

func c31Key(r *rand.Rand) []string {
	switch r.Intn(22) {
	case 0:
		return nil
	case 1:
		return []string{""}
	case 2:
		return []string{c31B64Chars(r, 24)} // decodes to 18 bytes
	case 3:
		return []string{c31B64Chars(r, 23) + "="} // 17 bytes
	case 4:
		return []string{c31B64Chars(r, 22) + "=="} // 16 bytes, pad bits arbitrary
	case 5:
		return []string{c31B64Chars(r, 20) + "===="}
	case 6:
		return []string{"\n" + c31B64Chars(r, 22) + "="}
	case 7:
		return []string{c31B64Chars(r, 21) + "\r=="}
	case 8:
		k := []byte(c31ValidKey(r))
		k[r.Intn(24)] = "!@ =\n-_"[r.Intn(7)]
		return []string{string(k)}
	case 9:
		return []string{c31ValidKey(r) + "A"}
	case 10:
		return []string{c31ValidKey(r)[:23]}
	case 11:
		return []string{c31ValidKey(r), c31B64Chars(r, 24)}
	case 12:
		return []string{"x", c31ValidKey(r)}
	case 13:
		return []string{c31B64Chars(r, 21) + "=A="}
	case 14:
		k := []byte(c31B64Chars(r, 24))
		for n := r.Intn(4); n > 0; n-- {
			k[r.Intn(24)] = "=\n\r"[r.Intn(3)]
		}
		return []string{string(k)}
	default:
		return []string{c31ValidKey(r)}
	}
}

var c31GoodTok = []string{"upgrade", "Upgrade", "UPGRADE", "keep-alive", "websocket", "WebSocket", "13", "8", "foo", "x!y", "close", "h2c", "TE"}
var c31BadElem = []string{"", " ", "a b", "a;b", "\"q\"", "a/b", "\xc3\xa9", "up\tgrade", "web socket", "13.0", "=", "websocket/13", "a\x00b"}

// c31ListLine builds one header field line: a comma separated list, mostly well-formed.
func c31ListLine(r *rand.Rand, want string) string {
	n := 1 + r.Intn(4)
	pos := r.Intn(n)
	if r.Intn(6) == 0 {
		pos = -1
	}
	parts := make([]string, n)
	for i := range parts {
		var e string
		switch {
		case i == pos:
			e = want
			if r.Intn(3) == 0 {
				e = strings.ToUpper(want)
			} else if r.Intn(4) == 0 {
				e = strings.Title(want)
			}
		case r.Intn(7) == 0:
			e = c31BadElem[r.Intn(len(c31BadElem))]
		default:
			e = c31GoodTok[r.Intn(len(c31GoodTok))]
		}
		ws := []string{"", "", " ", "\t", "  "}
		parts[i] = ws[r.Intn(len(ws))] + e + ws[r.Intn(len(ws))]
	}
	return strings.Join(parts, ",")
}

func c31ListHeader(r *rand.Rand, want string) []string {
	switch r.Intn(14) {
	case 0:
		return nil
	case 1:
		return []string{}
	case 2:
		return []string{c31ListLine(r, want), c31ListLine(r, want)}
	case 3:
		return []string{c31GoodTok[r.Intn(len(c31GoodTok))], want}
	case 4, 5, 6:
		return []string{c31ListLine(r, want)}
	default:
		return []string{want}
	}
}

var c31ProtoPool = []string{"centrifuge-json", "centrifuge-protobuf", "centrifuge-json, centrifuge-protobuf", "x, centrifuge-protobuf",
	" centrifuge-json ", "x,y", "centrifuge-protobuf,centrifuge-json", ",", "", "json", "Centrifuge-JSON", "\tcentrifuge-json\r\n",
	"x , centrifuge-json , y", "centrifuge-json,", ",centrifuge-protobuf", "a,,b", "centrifuge-json centrifuge-protobuf"}

var c31ExtPool = []string{"permessage-deflate", "permessage-deflate; client_max_window_bits", "x-webkit-deflate-frame",
	"foo, permessage-deflate", "foo; a=\"b,c\", permessage-deflate", "permessage-deflate; a=\"unterminated", "Permessage-Deflate",
	"permessage-deflate;", "foo bar, permessage-deflate", "permessage-deflate; server_no_context_takeover; client_max_window_bits=10",
	"foo; x=\"a, permessage-deflate; y\"", "permessage-deflate, foo bar", " permessage-deflate ", "permessage-deflate; a=b c",
	"foo; a=\"q\\\"r\", permessage-deflate", "foo;a=1;b, permessage-deflate ;c", ", permessage-deflate", "permessage-deflate,", "permessage-deflatex",
	"foo; a=\"x\\", "foo;=1, permessage-deflate", "permessage-deflate; a=\"\"x", ""}

func c31ExtSoup(r *rand.Rand) string {
	atoms := []string{"permessage-deflate", "foo", "a", "b", ";", ";", ",", ",", "=", "\"", "\\", " ", "\t", "x=1", "\"q\"", "bits"}
	n := 1 + r.Intn(9)
	var sb strings.Builder
	for i := 0; i < n; i++ {
		sb.WriteString(atoms[r.Intn(len(atoms))])
	}
	return sb.String()
}

func c31Pick(r *rand.Rand, pool []string) string { return pool[r.Intn(len(pool))] }

func c31GenHandshake(r *rand.Rand) (c31Cfg, c31Req, string) {
	class := "h1"
	rq := c31Req{Major: 1, Method: "GET", Host: "example.com"}
	if r.Intn(5) == 0 {
		rq.Major = 2
		rq.Method = "CONNECT"
		rq.H2Protocol = []string{"websocket"}
		class = "h2"
		if r.Intn(6) == 0 {
			rq.H2Protocol = [][]string{nil, {"Websocket"}, {"h2"}, {""}, {"websocket", "x"}}[r.Intn(5)]
		}
	} else if r.Intn(25) == 0 {
		rq.Major = []int{0, 3}[r.Intn(2)]
	}
	if r.Intn(12) == 0 {
		rq.Method = []string{"POST", "get", "CONNECT", "GET", "HEAD", ""}[r.Intn(6)]
	}
	rq.Connection = c31ListHeader(r, "upgrade")
	rq.Upgrade = c31ListHeader(r, "websocket")
	rq.Version = c31ListHeader(r, "13")
	if r.Intn(10) == 0 {
		rq.Version = [][]string{{"8"}, {"13, 8"}, {"8", "13"}, {"013"}, {"13.0"}, {" 13 "}, {"1 3"}, {""}}[r.Intn(8)]
	}
	rq.Key = c31Key(r)
	switch r.Intn(9) {
	case 0:
		rq.Origin = []string{"http://example.com"}
	case 1:
		rq.Origin = []string{"https://EXAMPLE.com"}
	case 2:
		rq.Origin = []string{"http://evil.com"}
	case 3:
		rq.Origin = []string{[]string{"http://[::1", "%zz", "http://exa mple.com", "://", "example.com", ""}[r.Intn(6)]}
	case 4:
		rq.Origin = []string{"http://example.com:8000"}
		if r.Intn(2) == 0 {
			rq.Host = "example.com:8000"
		}
	case 5:
		rq.Origin = []string{"http://example.com", "http://evil.com"}
		if r.Intn(2) == 0 {
			rq.Origin = []string{"http://evil.com", "http://example.com"}
		}
	}
	if r.Intn(3) > 0 {
		rq.Protocol = []string{c31Pick(r, c31ProtoPool)}
		if r.Intn(8) == 0 {
			rq.Protocol = append(rq.Protocol, c31Pick(r, c31ProtoPool))
		}
	}
	if r.Intn(2) == 0 {
		rq.Extensions = []string{c31Pick(r, c31ExtPool)}
		if r.Intn(3) == 0 {
			rq.Extensions = []string{c31ExtSoup(r)}
		}
		if r.Intn(8) == 0 {
			rq.Extensions = append(rq.Extensions, c31Pick(r, c31ExtPool))
		}
	}
	cfg := c31Cfg{HasSub: true, Subprotocols: []string{"centrifuge-json", "centrifuge-protobuf"}, Compression: r.Intn(3) > 0, Origin: 1}
	switch r.Intn(8) {
	case 0:
		cfg.Origin = 2
	case 1, 2, 3:
		cfg.Origin = 0
	}
	if r.Intn(10) == 0 {
		cfg.HasSub = false
		cfg.Subprotocols = nil
		if r.Intn(2) == 0 {
			p := c31Pick(r, []string{"app-proto", "", "centrifuge-json"})
			cfg.RespProto = &p
		}
	} else if r.Intn(10) == 0 {
		cfg.Subprotocols = [][]string{{}, {"json"}, {"", "x"}, {"y", "x"}}[r.Intn(4)]
	}
	if r.Intn(30) == 0 {
		cfg.DisableH1 = true
	}
	if r.Intn(40) == 0 {
		cfg.RespExt = true
	}
	return cfg, rq, class
}

func c31HandshakeCase(w *verifW, i int, cfg c31Cfg, rq c31Req, class string, libOverride string) {
	obs, _, _ := c31RunHandshake(cfg, rq)
	key := ""
	if len(rq.Key) > 0 {
		key = rq.Key[0]
	}
	lib := c31LibAccept(key)
	if libOverride != "" {
		lib = libOverride
	}
	urlHost, urlOK := "", false
	if len(rq.Origin) > 0 {
		if u, err := url.Parse(rq.Origin[0]); err == nil {
			urlHost, urlOK = u.Host, true
		}
	}
	term := vApp("KHandshake", c31CfgCoq(cfg), c31ReqCoq(rq), vOpt(vStr(urlHost), urlOK), vStr(lib),
		vBool(obs.Panic != ""), vN(uint64(obs.Status)), vStr(obs.Accept), vStr(obs.Sub), vStr(obs.RetSub), vBool(obs.Ext))
	switch {
	case obs.Panic != "":
		class += "/panic"
	case obs.Status == 101 || obs.Status == 200:
		class += "/accept"
		if obs.Ext {
			class += "+pmd"
		}
		if obs.Sub != "" {
			class += "+sub"
		}
	default:
		class += fmt.Sprintf("/%d", obs.Status)
	}
	deep := false
	for _, v := range rq.Connection {
		if strings.Contains(strings.ToLower(v), "upgrade") {
			deep = true
		}
	}
	fk := "handshake"
	if obs.Panic != "" {
		fk = "challenge-key-decode-panic"
	}
	w.Case(i, term, map[string]any{"kind": "handshake", "cfg": cfg, "req": rq, "obs": obs, "lib_accept": lib, "fkey": fk}, class, deep || rq.Major == 2)
}

// ---------------------------------------------------------------- server connections for close tests

func c31ServerConn(t *testing.T) (*websocket.Conn, *c31Conn) {
	cfg := c31Cfg{HasSub: true, Subprotocols: []string{"centrifuge-json"}, Origin: 1}
	rq := c31Req{Major: 1, Method: "GET", Host: "example.com", Connection: []string{"Upgrade"}, Upgrade: []string{"websocket"},
		Version: []string{"13"}, Key: []string{"dGhlIHNhbXBsZSBub25jZQ=="}}
	obs, conn, mem := c31RunHandshake(cfg, rq)
	if conn == nil || obs.Status != 101 {
		t.Fatalf("cannot create server conn: %+v", obs)
	}
	return conn, mem
}

// c31ClientFrame builds a masked frame as a client sends it.
func c31ClientFrame(opcode byte, payload []byte, key [4]byte) []byte {
	if len(payload) > 125 {
		panic("control payload too long")
	}
	f := []byte{0x80 | opcode, 0x80 | byte(len(payload)), key[0], key[1], key[2], key[3]}
	for i, b := range payload {
		f = append(f, b^key[i&3])
	}
	return f
}

// c31TakeFrames parses the unmasked control frames the server wrote and clears the buffer.
func c31TakeFrames(mem *c31Conn) (frames [][]byte, ok bool) {
	b := mem.out.Bytes()
	ok = true
	for len(b) > 0 {
		if len(b) < 2 || b[0] != 0x88 || b[1] > 125 || len(b) < 2+int(b[1]) {
			ok = false
			break
		}
		frames = append(frames, append([]byte{}, b[2:2+int(b[1])]...))
		b = b[2+int(b[1]):]
	}
	mem.out.Reset()
	return frames, ok
}

func c31Frames(fs [][]byte) string {
	xs := make([]string, len(fs))
	for i, f := range fs {
		xs[i] = vBytes(f)
	}
	return vList(xs)
}

// one received close code: 1 accepted, 0 protocol error with a 1002 frame, 2 anything else
func c31ProbeCode(t *testing.T, code int) uint64 {
	conn, mem := c31ServerConn(t)
	mem.in.Write(c31ClientFrame(8, []byte{byte(code >> 8), byte(code)}, [4]byte{1, 2, 3, 4}))
	_, _, err := conn.ReadMessage()
	frames, ok := c31TakeFrames(mem)
	rc, inc := conn.CloseCode()
	var ce *websocket.CloseError
	if errors.As(err, &ce) {
		if ok && ce.Code == code && ce.Text == "" && len(frames) == 1 && bytes.Equal(frames[0], []byte{byte(code >> 8), byte(code)}) && rc == code && inc {
			return 1
		}
		return 2
	}
	if err != nil && ok && len(frames) == 1 && len(frames[0]) >= 2 && frames[0][0] == 0x03 && frames[0][1] == 0xEA && rc == 1002 && !inc {
		return 0
	}
	return 2
}

// ---------------------------------------------------------------- sessions

type c31Event struct {
	Kind    string `json:"kind"` // write | transport | recv
	Code    uint32 `json:"code,omitempty"`
	Data    []byte `json:"data"`
	Frames  [][]byte `json:"frames"`
	Result  string `json:"result"`
	RCode   int    `json:"rcode,omitempty"`
	RText   []byte `json:"rtext,omitempty"`
}

func c31Reason(r *rand.Rand) []byte {
	var n int
	switch r.Intn(6) {
	case 0:
		n = 0
	case 1, 2:
		n = 118 + r.Intn(10) // around the 123 byte limit
	case 3:
		n = r.Intn(200)
	default:
		n = r.Intn(20)
	}
	b := make([]byte, n)
	mode := r.Intn(5)
	for i := range b {
		switch mode {
		case 0:
			b[i] = byte(r.Intn(256))
		default:
			b[i] = byte(32 + r.Intn(95))
		}
	}
	if mode == 1 && n >= 4 {
		copy(b[r.Intn(n-3):], []string{"\xe2\x82\xac", "\xf0\x9f\x98\x80", "\xc3\xa9", "\xed\xa0\x80", "\xc0\xaf", "\xf4\x90\x80\x80", "\xe0\x9f\xbf"}[r.Intn(7)])
	}
	if mode == 2 && n >= 1 {
		b[n-1] = []byte{0xc3, 0xe2, 0xf0, 0x80, 0xff}[r.Intn(5)] // truncated / stray
	}
	return b
}

func c31CloseCodePick(r *rand.Rand) int {
	pool := []int{1000, 1001, 1002, 1003, 1004, 1005, 1006, 1007, 1008, 1009, 1010, 1011, 1012, 1013, 1014, 1015, 1016, 0, 1, 999, 2999, 3000, 3001, 3999, 4000, 4999, 5000, 65535, 3500, 4500}
	if r.Intn(5) == 0 {
		return r.Intn(65536)
	}
	return pool[r.Intn(len(pool))]
}

func c31RunSession(t *testing.T, r *rand.Rand) (evs []c31Event, code int, incoming bool, ok bool) {
	conn, mem := c31ServerConn(t)
	graceCh := make(chan struct{})
	close(graceCh)
	transport := newWebsocketTransport(conn, websocketTransportOptions{protoType: ProtocolTypeJSON, writeTimeout: time.Second, protoMajor: 1}, graceCh, false)
	ok = true
	readDead, closed := false, false
	n := 1 + r.Intn(5)
	for k := 0; k < n; k++ {
		var ev c31Event
		switch r.Intn(3) {
		case 0:
			ev.Kind = "write"
			c := c31CloseCodePick(r)
			ev.Data = append([]byte{byte(c >> 8), byte(c)}, c31Reason(r)...)
			if r.Intn(8) == 0 {
				ev.Data = ev.Data[:r.Intn(3)]
			}
			err := conn.WriteControl(websocket.CloseMessage, ev.Data, time.Now().Add(time.Second))
			switch {
			case err == nil:
				ev.Result = "WOk"
			case errors.Is(err, websocket.ErrCloseSent):
				ev.Result = "WCloseSent"
			case err.Error() == "websocket: invalid control frame":
				ev.Result = "WTooLong"
			default:
				ev.Result = "WNetErr"
			}
		case 1:
			ev.Kind = "transport"
			ev.Code = uint32(c31CloseCodePick(r))
			if r.Intn(3) > 0 {
				ev.Code = uint32(3000 + r.Intn(2000))
			}
			if r.Intn(20) == 0 {
				ev.Code = 65536 + uint32(r.Intn(70000))
			}
			ev.Data = c31Reason(r)
			_ = transport.Close(Disconnect{Code: ev.Code, Reason: string(ev.Data)})
			closed = true
			ev.Result = "OTransport"
		default:
			ev.Kind = "recv"
			switch r.Intn(8) {
			case 0:
				ev.Data = []byte{}
			case 1:
				ev.Data = []byte{byte(r.Intn(256))}
			default:
				c := c31CloseCodePick(r)
				rs := c31Reason(r)
				if len(rs) > 123 {
					rs = rs[:123]
				}
				ev.Data = append([]byte{byte(c >> 8), byte(c)}, rs...)
			}
			if readDead || closed {
				ev.Result = "RNone"
				break
			}
			var mk [4]byte
			r.Read(mk[:])
			mem.in.Write(c31ClientFrame(8, ev.Data, mk))
			_, _, err := conn.ReadMessage()
			readDead = true
			var ce *websocket.CloseError
			switch {
			case errors.As(err, &ce) && ce.Code != websocket.CloseAbnormalClosure:
				ev.Result = "RClose"
				ev.RCode = ce.Code
				ev.RText = []byte(ce.Text)
			case err != nil && strings.HasPrefix(err.Error(), "websocket: "):
				ev.Result = "RProtoErr"
			default:
				ev.Result = "other:" + fmt.Sprint(err)
				ok = false
			}
		}
		fs, fok := c31TakeFrames(mem)
		if !fok {
			ok = false
		}
		ev.Frames = fs
		evs = append(evs, ev)
	}
	code, incoming = conn.CloseCode()
	return evs, code, incoming, ok
}

func c31SessionCoq(evs []c31Event) (string, string) {
	es := make([]string, len(evs))
	os := make([]string, len(evs))
	for i, ev := range evs {
		switch ev.Kind {
		case "write":
			es[i] = vApp("EvWriteClose", vBytes(ev.Data))
			os[i] = vApp("OWrite", c31Frames(ev.Frames), ev.Result)
		case "transport":
			es[i] = vApp("EvTransportClose", vN(uint64(ev.Code)), vBytes(ev.Data))
			os[i] = vApp("OTransport", c31Frames(ev.Frames))
		default:
			es[i] = vApp("EvRecvClose", vBytes(ev.Data), "[]")
			res := ev.Result
			if res == "RClose" {
				res = vApp("RClose", vN(uint64(ev.RCode)), vBytes(ev.RText))
			} else if res != "RProtoErr" && res != "RNone" {
				res = "RNone" // unexpected result: makes corr and oracle fail (frames non-empty or model disagrees)
			}
			os[i] = vApp("ORecv", c31Frames(ev.Frames), res)
		}
	}
	return vList(es), vList(os)
}

// ---------------------------------------------------------------- test

const c31CodeBatch = 1024

func TestVerifC31(t *testing.T) {
	w := verifOpen(t, "C31")
	defer w.Close()

	std := c31Cfg{HasSub: true, Subprotocols: []string{"centrifuge-json", "centrifuge-protobuf"}, Compression: true, Origin: 0}
	base := func() c31Req {
		return c31Req{Major: 1, Method: "GET", Host: "server.example.com", Connection: []string{"Upgrade"}, Upgrade: []string{"websocket"},
			Version: []string{"13"}, Key: []string{"dGhlIHNhbXBsZSBub25jZQ=="}}
	}
	type hs struct {
		cfg c31Cfg
		rq  c31Req
		lib string
	}
	var corpus []hs
	add := func(cfg c31Cfg, f func(*c31Req), lib string) {
		rq := base()
		f(&rq)
		corpus = append(corpus, hs{cfg, rq, lib})
	}
	// RFC 6455 section 1.3 example vector: expected accept value typed from the RFC, not computed
	add(std, func(r *c31Req) { r.Origin = []string{"http://server.example.com"}; r.Protocol = []string{"chat, superchat"} }, "s3pPLMBiTxaQ9kYGzzhZRbK+xOo=")
	add(std, func(r *c31Req) { r.Protocol = []string{"centrifuge-protobuf"}; r.Extensions = []string{"permessage-deflate; client_max_window_bits"} }, "")
	add(std, func(r *c31Req) { r.Connection = []string{"keep-alive, Upgrade"} }, "")
	add(std, func(r *c31Req) { r.Connection = []string{"keep-alive, , Upgrade"} }, "")   // empty list member (RFC 7230 section 7)
	add(std, func(r *c31Req) { r.Connection = []string{"keep-alive; x, Upgrade"} }, "")
	add(std, func(r *c31Req) { r.Upgrade = []string{"h2c/1, websocket"} }, "")
	add(std, func(r *c31Req) { r.Version = []string{"8, 13"} }, "")
	add(std, func(r *c31Req) { r.Key = []string{"AAAAAAAAAAAAAAAAAAAAAAAA"} }, "")             // 24 chars, 18 bytes
	add(std, func(r *c31Req) { r.Key = []string{"AAAAAAAAAAAAAAAAAAAAAAA="} }, "")             // 17 bytes
	add(std, func(r *c31Req) { r.Key = []string{"AAAAAAAAAAAAAAAAAAAAAB=="} }, "")             // non-zero pad bits
	add(std, func(r *c31Req) { r.Method = "POST" }, "")
	add(std, func(r *c31Req) { r.Origin = []string{"http://evil.example.com"} }, "")
	add(std, func(r *c31Req) { r.Origin = []string{"https://SERVER.example.com"} }, "")
	add(std, func(r *c31Req) {
		r.Major = 2
		r.Method = "CONNECT"
		r.H2Protocol = []string{"websocket"}
		r.Connection, r.Upgrade, r.Key = nil, nil, nil
		r.Extensions = []string{"permessage-deflate"}
	}, "")
	add(std, func(r *c31Req) { r.Major = 2; r.Method = "GET"; r.H2Protocol = []string{"websocket"} }, "")
	add(std, func(r *c31Req) { r.Key = nil }, "")
	add(std, func(r *c31Req) { r.Extensions = []string{"foo; x=\"a, permessage-deflate; y\""} }, "")

	nCodes := 65536 / c31CodeBatch
	for i := 0; i < w.N; i++ {
		if !w.Want(i) {
			continue
		}
		r := w.Rand(i)
		switch {
		case i < len(corpus):
			c31HandshakeCase(w, i, corpus[i].cfg, corpus[i].rq, "corpus", corpus[i].lib)
		case i < len(corpus)+nCodes:
			lo := (i - len(corpus)) * c31CodeBatch
			res := make([]string, c31CodeBatch)
			vals := make([]uint64, c31CodeBatch)
			for k := 0; k < c31CodeBatch; k++ {
				vals[k] = c31ProbeCode(t, lo+k)
				res[k] = vN(vals[k])
			}
			acc := []int{}
			for k, v := range vals {
				if v != 0 && len(acc) < 40 {
					acc = append(acc, lo+k)
				}
			}
			w.Case(i, vApp("KCodes", vN(uint64(lo)), vList(res)), map[string]any{"kind": "codes", "lo": lo, "n": c31CodeBatch, "first_nonrejected": acc, "fkey": "codes"}, "codes", true)
		case r.Intn(5) < 3:
			cfg, rq, class := c31GenHandshake(r)
			c31HandshakeCase(w, i, cfg, rq, class, "")
		default:
			evs, code, inc, ok := c31RunSession(t, r)
			es, os := c31SessionCoq(evs)
			class := "session"
			if !ok {
				class = "session/unexpected"
			}
			w.Case(i, vApp("KSession", es, os, vN(uint64(code)), vBool(inc)),
				map[string]any{"kind": "session", "events": evs, "code": code, "incoming": inc, "fkey": "session"}, class, len(evs) >= 2)
		}
	}
}
