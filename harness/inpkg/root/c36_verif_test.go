package centrifuge

import (
	"context"
	"encoding/json"
	"errors"
	"fmt"
	"io"
	"math"
	"math/rand"
	"sync"
	"testing"
	"time"

	"github.com/centrifugal/protocol"
)

// C36 driver: one real client connection whose timers are captured by a driver-supplied
// ClientTimerScheduler (public config). Virtual time: "advance d" subtracts d seconds from every
// timestamp the client stores (the code reads time.Now() directly), the driver fires the captured
// timer only when it is due on the virtual clock. All deadlines are multiples of 10 s and the virtual
// clock is always at 5 (mod 10) s, so real drift of a few ms cannot change any comparison.

type c36Timer struct {
	due      float64 // virtual seconds
	cb       func()
	canceled bool
	fired    bool
}

func (t *c36Timer) Cancel() { t.canceled = true }

type c36Sched struct {
	mu     sync.Mutex
	vnow   float64
	timers []*c36Timer
}

func (s *c36Sched) ScheduleTimer(d time.Duration, cb func()) TimerCanceler {
	s.mu.Lock()
	defer s.mu.Unlock()
	t := &c36Timer{due: s.vnow + d.Seconds(), cb: cb}
	s.timers = append(s.timers, t)
	return t
}

func (s *c36Sched) active() *c36Timer {
	s.mu.Lock()
	defer s.mu.Unlock()
	var a *c36Timer
	for _, t := range s.timers {
		if !t.canceled && !t.fired {
			a = t // the client keeps a single timer: the latest live one
		}
	}
	return a
}

type c36Cfg struct {
	Ping     int    `json:"ping"`
	Pong     int    `json:"pong"`
	Presence int    `json:"presence"`
	Stale    int    `json:"stale"`
	ExpDelay int    `json:"exp_delay"`
	SubDelay int    `json:"sub_delay"`
	Uni      bool   `json:"uni"`
	Refresh  string `json:"refresh"` // none | extend | expired | fail
	Extend   int    `json:"extend"`
	// SubRefreshHandler answer for subscriptions without client-side refresh found expired by the
	// presence tick: fail | expired | extend (by SubExtend seconds) | forever (ExpireAt 0)
	SubRefresh string `json:"sub_refresh"`
	SubExtend  int    `json:"sub_extend"`
	SrvSubs    bool   `json:"srv_subs"` // subscriptions of this case are server-side (Client.Subscribe)
	PosDelay   int    `json:"pos_delay"` // ClientChannelPositionCheckDelay, 0 = periodic position check off
}

// broker whose stream top is scripted per channel (the periodic position check reads it through
// Node.History); everything else is the memory broker
type c36Broker struct {
	*MemoryBroker
	mu  sync.Mutex
	off map[string]uint64
}

func (b *c36Broker) History(ch string, _ HistoryOptions) ([]*Publication, StreamPosition, error) {
	b.mu.Lock()
	defer b.mu.Unlock()
	return nil, StreamPosition{Offset: b.off[ch], Epoch: "c36"}, nil
}

func (b *c36Broker) top(ch string) uint64 {
	b.mu.Lock()
	defer b.mu.Unlock()
	return b.off[ch]
}

type c36Label struct {
	Kind    string `json:"kind"`
	D       int    `json:"d,omitempty"`
	E       int    `json:"e,omitempty"`
	CSR     bool   `json:"csr,omitempty"`
	FPres   int    `json:"fpres,omitempty"`
	FPing   int    `json:"fping,omitempty"`
	Chan    int    `json:"chan,omitempty"`
	Server  bool   `json:"server,omitempty"`
	Expired bool   `json:"expired,omitempty"`
	Pos     bool   `json:"pos,omitempty"` // subscribe: positioned
	Bad     bool   `json:"bad,omitempty"` // stream: the stream top moves away from the client's position
}

func (l c36Label) coq() string {
	switch l.Kind {
	case "advance":
		return vApp("LAdvance", vN(uint64(l.D)))
	case "fire":
		return "LFire"
	case "connect":
		return vApp("LConnect", vN(uint64(l.E)), vBool(l.CSR), vN(uint64(l.FPres)), vN(uint64(l.FPing)))
	case "connectslow":
		return vApp("LConnectSlow", vN(uint64(l.E)), vBool(l.CSR), vN(uint64(l.FPres)), vN(uint64(l.FPing)), vN(uint64(l.D)))
	case "subscribe":
		return vApp("LSubscribe", vApp("mkSub", vN(uint64(l.Chan)), vN(uint64(l.E)), vBool(l.CSR), vBool(l.Server), vBool(l.Pos), vN(0), vBool(false)))
	case "stream":
		return vApp("LStream", vN(uint64(l.Chan)), vBool(l.Bad))
	case "pong":
		return "LPong"
	case "refresh":
		return vApp("LRefreshCmd", vN(uint64(l.E)))
	case "srvrefresh":
		return vApp("LSrvRefresh", vBool(l.Expired), vN(uint64(l.E)))
	default:
		return vApp("LSubRefreshCmd", vN(uint64(l.Chan)), vN(uint64(l.E)))
	}
}

type c36Ev struct {
	Kind string `json:"kind"` // ping | close | unsub | reply | refreshpush | ask
	Chan int    `json:"chan,omitempty"`
	Code uint32 `json:"code,omitempty"`
}

func (e c36Ev) coq() string {
	switch e.Kind {
	case "ping":
		return "OPing"
	case "close":
		return vApp("OClose", vN(uint64(e.Code)))
	case "unsub":
		return vApp("OUnsub", vN(uint64(e.Chan)), vN(uint64(e.Code)))
	case "reply":
		return vApp("OReply", vN(uint64(e.Code)))
	case "ask":
		return vApp("OAsk", vN(uint64(e.Chan)))
	}
	return "ORefreshPush"
}

type c36Snap struct {
	Closed   bool   `json:"closed"`
	Op       string `json:"op"` // "" none
	Due      int64  `json:"due"`
	Expire   int64  `json:"expire"`
	Presence int64  `json:"presence"`
	Ping     int64  `json:"ping"`
	Pong     int64  `json:"pong"`
}

var c36OpCoq = map[timerOp]string{timerOpStale: "OpStale", timerOpPresence: "OpPresence", timerOpExpire: "OpExpire", timerOpPing: "OpPing", timerOpPong: "OpPong"}

func (s c36Snap) coq() string {
	armed := "None"
	if s.Op != "" {
		armed = "(Some " + vPair(s.Op, vN(uint64(s.Due))) + ")"
	}
	return vApp("mkSnap", vBool(s.Closed), armed, vN(uint64(s.Expire)), vN(uint64(s.Presence)), vN(uint64(s.Ping)), vN(uint64(s.Pong)))
}

type c36H struct {
	t      *testing.T
	cfg    c36Cfg
	sched  *c36Sched
	node   *Node
	client *Client
	tr     *testTransport
	sink   chan []byte
	evs    []c36Ev
	closed bool
	// what the scripted application handlers answer next (virtual seconds)
	refreshE    int
	subRefreshE int
	subSpec     map[string]c36Label
	cmdID       uint32
	conn        c36Label
	unsubDeadline time.Time
	asked       []c36Ev
	broker      *c36Broker
	slowD       int           // seconds the OnConnect handler of the connect in progress takes
	staleDone   chan struct{} // closed when the stale timer fired inside that handler has run
	positioned  []int // channels subscribed with positioning (generator)
	wantUnsub   int // unsubscribe pushes the current step must still deliver (they are written by goroutines)
}

func c36ChanName(n int) string { return fmt.Sprintf("ch%d", n) }

func (h *c36H) vnow() int { return int(math.Round(h.sched.vnow)) }

// absolute unix second of a virtual instant
func (h *c36H) abs(v int) int64 {
	if v == 0 {
		return 0
	}
	return time.Now().Unix() + int64(v-h.vnow())
}

func (h *c36H) advance(d int) {
	c := h.client
	ns := int64(d) * int64(time.Second)
	c.mu.Lock()
	if c.exp > 0 {
		c.exp -= int64(d)
	}
	for _, p := range []*int64{&c.nextExpire, &c.nextPresence, &c.nextPing, &c.nextPong, &c.lastSeen} {
		if *p > 0 {
			*p -= ns
		}
	}
	if c.lastPing > 0 {
		c.lastPing -= ns
	} else if c.lastPing < 0 {
		c.lastPing += ns
	}
	for ch, ctx := range c.channels {
		if ctx.expireAt > 0 {
			ctx.expireAt -= int64(d)
		}
		if ctx.positionCheckTime > 0 {
			ctx.positionCheckTime -= int64(d)
		}
		c.channels[ch] = ctx
	}
	c.mu.Unlock()
	h.sched.mu.Lock()
	h.sched.vnow += float64(d)
	h.sched.mu.Unlock()
}

func (h *c36H) rel(ns int64) int64 {
	if ns == 0 {
		return 0
	}
	return int64(math.Round(float64(ns-time.Now().UnixNano())/1e9 + h.sched.vnow))
}

func (h *c36H) snapshot() c36Snap {
	c := h.client
	c.mu.Lock()
	defer c.mu.Unlock()
	sn := c36Snap{Closed: c.status == statusClosed, Expire: h.rel(c.nextExpire), Presence: h.rel(c.nextPresence), Ping: h.rel(c.nextPing), Pong: h.rel(c.nextPong)}
	if a := h.sched.active(); a != nil && !sn.Closed {
		sn.Op = c36OpCoq[c.timerOp]
		sn.Due = int64(math.Round(a.due))
	}
	return sn
}

func (h *c36H) isClosed() bool {
	h.tr.mu.Lock()
	defer h.tr.mu.Unlock()
	return h.tr.closed
}

func (h *c36H) waitClosed() {
	select {
	case <-h.tr.closeCh:
	case <-time.After(5 * time.Second):
		h.t.Errorf("expected close did not happen")
	}
}

func (h *c36H) decode(data []byte) (marker bool) {
	handlePush := func(p *protocol.Push) {
		switch {
		case p.Message != nil && string(p.Message.Data) == `"c36"`:
			marker = true
		case p.Unsubscribe != nil:
			n := 0
			fmt.Sscanf(p.Channel, "ch%d", &n)
			h.evs = append(h.evs, c36Ev{Kind: "unsub", Chan: n, Code: p.Unsubscribe.Code})
		case p.Refresh != nil:
			h.evs = append(h.evs, c36Ev{Kind: "refreshpush"})
		}
	}
	if h.cfg.Uni {
		if string(data) == "{}" {
			h.evs = append(h.evs, c36Ev{Kind: "ping"})
			return false
		}
		var p protocol.Push
		if err := json.Unmarshal(data, &p); err != nil {
			h.t.Fatalf("decode push %q: %v", data, err)
		}
		handlePush(&p)
		return marker
	}
	dec := protocol.NewJSONReplyDecoder(data)
	for {
		rep, err := dec.Decode()
		if rep != nil {
			switch {
			case rep.Push != nil:
				handlePush(rep.Push)
			case rep.Error != nil:
				h.evs = append(h.evs, c36Ev{Kind: "reply", Code: rep.Error.Code})
			case rep.Id == 0:
				h.evs = append(h.evs, c36Ev{Kind: "ping"})
			case rep.Refresh != nil || rep.SubRefresh != nil:
				h.evs = append(h.evs, c36Ev{Kind: "reply"})
			}
		}
		if err != nil {
			if err != io.EOF {
				h.t.Fatalf("decode: %v", err)
			}
			return marker
		}
	}
}

// flush the writer and collect what was written since the last call
func (h *c36H) settle() []c36Ev {
	marker := []byte(`"c36"`)
	if !h.isClosed() && h.client.authenticated {
		if err := h.client.Send(marker); err == nil {
			deadline := time.After(5 * time.Second)
		loop:
			for {
				select {
				case data := <-h.sink:
					if h.decode(data) {
						break loop
					}
				case <-h.tr.closeCh:
					break loop
				case <-deadline:
					h.t.Fatalf("marker not seen")
				}
			}
		}
	}
	for {
		select {
		case data := <-h.sink:
			h.decode(data)
			continue
		default:
		}
		break
	}
	if h.wantUnsub > 0 && !h.isClosed() {
		n := 0
		for _, e := range h.evs {
			if e.Kind == "unsub" {
				n++
			}
		}
		if n < h.wantUnsub && time.Now().Before(h.unsubDeadline) {
			time.Sleep(200 * time.Microsecond)
			h.wantUnsub -= n
			keep := h.evs
			h.evs = nil
			more := h.settle()
			h.evs = nil
			return append(keep, more...)
		}
	}
	h.wantUnsub = 0
	evs := append(h.asked, h.evs...)
	h.asked = nil
	h.evs = nil
	if h.isClosed() && !h.closed {
		h.closed = true
		h.tr.mu.Lock()
		code := h.tr.disconnect.Code
		h.tr.mu.Unlock()
		// writes of this step that precede the close are already in evs
		evs = append(evs, c36Ev{Kind: "close", Code: code})
	}
	if evs == nil {
		evs = []c36Ev{}
	}
	return evs
}

func c36New(t *testing.T, cfg c36Cfg) *c36H {
	h := &c36H{t: t, cfg: cfg, sched: &c36Sched{}, subSpec: map[string]c36Label{}}
	sec := func(n int) time.Duration {
		if n == 0 {
			return -1 // "disabled" for delays whose zero value means default
		}
		return time.Duration(n) * time.Second
	}
	node, err := New(Config{LogLevel: LogLevelNone, ClientTimerScheduler: h.sched,
		ClientStaleCloseDelay: time.Duration(cfg.Stale) * time.Second, ClientExpiredCloseDelay: time.Duration(cfg.ExpDelay) * time.Second,
		ClientExpiredSubCloseDelay: time.Duration(cfg.SubDelay) * time.Second, ClientPresenceUpdateInterval: time.Duration(cfg.Presence) * time.Second,
		ClientChannelPositionCheckDelay: sec(cfg.PosDelay)})
	if err != nil {
		t.Fatal(err)
	}
	h.node = node
	mb, err := NewMemoryBroker(node, MemoryBrokerConfig{})
	if err != nil {
		t.Fatal(err)
	}
	h.broker = &c36Broker{MemoryBroker: mb, off: map[string]uint64{}}
	node.SetBroker(h.broker)
	node.OnConnecting(func(_ context.Context, _ ConnectEvent) (ConnectReply, error) {
		return ConnectReply{Credentials: &Credentials{UserID: "u", ExpireAt: h.abs(h.conn.E)}, ClientSideRefresh: h.conn.CSR}, nil
	})
	node.OnConnect(func(c *Client) {
		if h.slowD > 0 {
			// a slow OnConnect handler: the connection is authenticated (connect reply sent), its status
			// is still "connecting" and the stale timer is still the armed one.  Time passes, and if the
			// stale timer is due it fires now.  closeStale must return at once (authenticated); a close
			// started here would wait for this handler (connectMu), hence the goroutine.
			h.advance(h.slowD)
			if a := h.sched.active(); a != nil && a.due <= h.sched.vnow {
				a.fired = true
				done := make(chan struct{})
				h.staleDone = done
				go func() { c.closeStale(); close(done) }()
				select {
				case <-done:
				case <-time.After(20 * time.Millisecond):
				}
			}
		}
		c.OnSubscribe(func(e SubscribeEvent, cb SubscribeCallback) {
			sp := h.subSpec[e.Channel]
			cb(SubscribeReply{Options: SubscribeOptions{ExpireAt: h.abs(sp.E), EnablePositioning: sp.Pos}, ClientSideRefresh: sp.CSR}, nil)
		})
		if cfg.Refresh != "none" || h.conn.CSR {
			c.OnRefresh(func(e RefreshEvent, cb RefreshCallback) {
				if e.ClientSideRefresh {
					cb(RefreshReply{ExpireAt: h.abs(h.refreshE)}, nil)
					return
				}
				switch cfg.Refresh {
				case "extend":
					cb(RefreshReply{ExpireAt: h.abs(h.vnow() + cfg.Extend)}, nil)
				case "expired":
					cb(RefreshReply{Expired: true}, nil)
				default:
					cb(RefreshReply{}, errors.New("boom"))
				}
			})
		}
		c.OnSubRefresh(func(e SubRefreshEvent, cb SubRefreshCallback) {
			if !e.ClientSideRefresh {
				n := 0
				fmt.Sscanf(e.Channel, "ch%d", &n)
				h.asked = append(h.asked, c36Ev{Kind: "ask", Chan: n}) // called synchronously by the tick
				switch cfg.SubRefresh {
				case "extend":
					cb(SubRefreshReply{ExpireAt: h.abs(h.vnow() + cfg.SubExtend)}, nil)
				case "forever":
					cb(SubRefreshReply{}, nil)
				case "expired":
					cb(SubRefreshReply{Expired: true}, nil)
				default:
					cb(SubRefreshReply{}, errors.New("no server-side sub refresh"))
				}
				return
			}
			cb(SubRefreshReply{ExpireAt: h.abs(h.subRefreshE)}, nil)
		})
	})
	if err := node.Run(); err != nil {
		t.Fatal(err)
	}
	ctx, cancel := context.WithCancel(context.Background())
	h.tr = newTestTransport(cancel)
	h.tr.setProtocolVersion(ProtocolVersion2)
	h.tr.setUnidirectional(cfg.Uni)
	h.tr.setPing(sec(cfg.Ping), sec(cfg.Pong))
	h.sink = make(chan []byte, 4096)
	h.tr.setSink(h.sink)
	client, _, err := NewClient(SetCredentials(ctx, &Credentials{UserID: "u"}), node, h.tr)
	if err != nil {
		t.Fatal(err)
	}
	h.client = client
	return h
}

func (h *c36H) command(cmd *protocol.Command) {
	done := make(chan bool, 1)
	go func() { done <- h.client.HandleCommand(cmd, 0) }()
	select {
	case ok := <-done:
		if !ok && !h.closed {
			h.waitClosed()
		}
	case <-time.After(5 * time.Second):
		h.t.Fatalf("HandleCommand blocked")
	}
}

// align keeps an operation that converts between absolute unix seconds and durations away from a
// second boundary of the real clock (the driver computes ExpireAt from time.Now().Unix(), the code
// subtracts its own time.Now().Unix() a moment later: a boundary in between shifts a deadline by 1 s)
func c36Align() {
	if ns := time.Now().Nanosecond(); ns > 900_000_000 {
		time.Sleep(time.Duration(1_000_000_000-ns) + time.Millisecond)
	}
}

func (h *c36H) apply(l c36Label) {
	c := h.client
	switch l.Kind {
	case "connect", "connectslow", "subscribe", "refresh", "srvrefresh", "subrefresh", "fire":
		c36Align()
	}
	switch l.Kind {
	case "advance":
		h.advance(l.D)
	case "connect", "connectslow":
		if h.isClosed() || c.authenticated {
			if l.Kind == "connectslow" {
				h.advance(l.D)
			}
			return
		}
		h.conn = l
		h.cmdID++
		if l.Kind == "connectslow" {
			h.slowD = l.D
		}
		h.command(&protocol.Command{Id: h.cmdID, Connect: &protocol.ConnectRequest{}})
		h.slowD = 0
		if h.staleDone != nil {
			select {
			case <-h.staleDone:
			case <-time.After(5 * time.Second):
				h.t.Fatalf("closeStale fired inside OnConnect did not return")
			}
			h.staleDone = nil
		}
		// the first ping / presence delays are randomized by the code: pin them (inputs of the model)
		c.mu.Lock()
		if c.status != statusClosed && c.authenticated {
			now := time.Now().UnixNano()
			c.nextPresence = now + int64(l.FPres)*int64(time.Second)
			if c.pingInterval > 0 {
				c.nextPing = now + int64(l.FPing)*int64(time.Second)
			}
			c.scheduleNextTimer()
		}
		c.mu.Unlock()
	case "subscribe":
		if h.isClosed() {
			return
		}
		name := c36ChanName(l.Chan)
		h.subSpec[name] = l
		if l.Server {
			if err := c.Subscribe(name, WithExpireAt(h.abs(l.E)), WithPositioning(l.Pos)); err != nil {
				h.t.Fatalf("server subscribe: %v", err)
			}
		} else {
			h.cmdID++
			h.command(&protocol.Command{Id: h.cmdID, Subscribe: &protocol.SubscribeRequest{Channel: name}})
		}
	case "stream":
		// the client's position of a channel is the top at subscribe time (no publications are delivered)
		name := c36ChanName(l.Chan)
		c.mu.Lock()
		pos := c.channels[name].streamPosition.Offset
		c.mu.Unlock()
		h.broker.mu.Lock()
		if l.Bad {
			h.broker.off[name] = pos + 1
		} else {
			h.broker.off[name] = pos
		}
		h.broker.mu.Unlock()
	case "pong":
		h.command(&protocol.Command{})
	case "refresh":
		h.refreshE = l.E
		h.cmdID++
		h.command(&protocol.Command{Id: h.cmdID, Refresh: &protocol.RefreshRequest{Token: "t"}})
	case "srvrefresh":
		var opts []RefreshOption
		if l.Expired {
			opts = append(opts, WithRefreshExpired(true))
		}
		if l.E != 0 {
			opts = append(opts, WithRefreshExpireAt(h.abs(l.E)))
		}
		_ = c.Refresh(opts...)
		if !h.closed && (l.Expired || (l.E != 0 && l.E <= h.vnow())) {
			h.waitClosed()
		}
	case "subrefresh":
		h.subRefreshE = l.E
		h.cmdID++
		h.command(&protocol.Command{Id: h.cmdID, SubRefresh: &protocol.SubRefreshRequest{Channel: c36ChanName(l.Chan), Token: "t"}})
	case "fire":
		a := h.sched.active()
		if a == nil || a.due > h.sched.vnow {
			h.t.Fatalf("fire: nothing due")
		}
		a.fired = true
		c.mu.Lock()
		closed := c.status == statusClosed
		op := c.timerOp
		c.mu.Unlock()
		if closed {
			return
		}
		// the body of onTimerOp with the offloaded ops run synchronously (it would `go` them because a
		// TimerScheduler is set)
		switch op {
		case timerOpStale:
			c.closeStale()
		case timerOpPresence:
			want := 0
			c.mu.Lock()
			extends := h.cfg.SubRefresh == "extend" || h.cfg.SubRefresh == "forever"
			for _, ctx := range c.channels {
				if ctx.expireAt > 0 && time.Now().Unix() > ctx.expireAt+int64(h.cfg.SubDelay) &&
					(channelHasFlag(ctx.flags, flagClientSideRefresh) || !extends) {
					want++
				}
			}
			if h.cfg.PosDelay > 0 {
				for ch, ctx := range c.channels {
					if channelHasFlag(ctx.flags, flagPositioning) && time.Now().Unix()-ctx.positionCheckTime > int64(h.cfg.PosDelay) &&
						h.broker.top(ch) != ctx.streamPosition.Offset {
						want++
					}
				}
			}
			before := len(c.channels)
			c.mu.Unlock()
			c.updatePresence()
			h.wantUnsub, h.unsubDeadline = want, time.Now().Add(2*time.Second)
			// expired subscriptions are handled by goroutines spawned by the tick
			deadline := time.Now().Add(2 * time.Second)
			for want > 0 && time.Now().Before(deadline) && !h.isClosed() {
				c.mu.Lock()
				n := len(c.channels)
				c.mu.Unlock()
				if before-n >= want {
					break
				}
				time.Sleep(200 * time.Microsecond)
			}
		case timerOpExpire:
			c.expire()
		case timerOpPing:
			c.sendPing()
		case timerOpPong:
			c.checkPong()
			c.mu.Lock()
			noPong := c.nextPong != 0
			c.mu.Unlock()
			if noPong && !h.closed {
				h.waitClosed()
			}
		}
	}
}

func c36Gen(r *rand.Rand, h *c36H, step int, subs map[int]bool) *c36Label {
	vnow := h.vnow()
	if step == 0 {
		return &c36Label{Kind: "advance", D: 5}
	}
	closed := h.isClosed()
	auth := h.client.authenticated
	a := h.sched.active()
	due := a != nil && a.due <= h.sched.vnow && !closed
	x := r.Intn(100)
	if closed {
		if x < 50 {
			return &c36Label{Kind: "advance", D: 10}
		}
		return &c36Label{Kind: "pong"}
	}
	future := func() int { return (vnow/10+1+r.Intn(6))*10 + 0 } // a multiple of 10 strictly after vnow
	if !auth {
		if x < 75 {
			e := 0
			if r.Intn(2) != 0 {
				e = future()
			}
			fping := h.cfg.Ping / 2
			if h.cfg.Ping >= 20 && r.Intn(2) == 0 {
				fping = h.cfg.Ping/2 + 10*r.Intn(h.cfg.Ping/20)
			}
			if r.Intn(3) == 0 { // the OnConnect handler is slow: the stale timer may fire inside it
				d := 10 * (1 + r.Intn(2))
				if e != 0 {
					e += d
				}
				return &c36Label{Kind: "connectslow", E: e, CSR: r.Intn(2) == 0, FPres: h.cfg.Presence - 10*(h.cfg.Presence/20), FPing: fping, D: d}
			}
			return &c36Label{Kind: "connect", E: e, CSR: r.Intn(2) == 0, FPres: h.cfg.Presence - 10*(h.cfg.Presence/20), FPing: fping}
		}
		if due && x < 90 {
			return &c36Label{Kind: "fire"}
		}
		if x < 93 {
			return &c36Label{Kind: "pong"}
		}
		return &c36Label{Kind: "advance", D: 10}
	}
	h.client.mu.Lock()
	pingOut := h.client.lastPing > 0 // a ping is unanswered (the sign flips when the pong arrives)
	h.client.mu.Unlock()
	if h.cfg.Uni && x >= 62 && x < 88 && !(h.cfg.SrvSubs && x >= 72 && x < 82) {
		// a unidirectional client sends no commands
		x = 90
	}
	switch {
	case due && x < 50:
		return &c36Label{Kind: "fire"}
	case x < 62:
		if x >= 52 && len(h.positioned) > 0 {
			return &c36Label{Kind: "stream", Chan: h.positioned[r.Intn(len(h.positioned))], Bad: r.Intn(3) != 0}
		}
		return &c36Label{Kind: "advance", D: 10 * (1 + r.Intn(3))}
	case x < 72:
		if pingOut && r.Intn(4) != 0 || r.Intn(12) == 0 { // mostly answers to a ping, rarely unsolicited
			return &c36Label{Kind: "pong"}
		}
		return &c36Label{Kind: "advance", D: 10}
	case x < 82:
		n := 1 + r.Intn(3)
		if subs[n] && h.cfg.Uni {
			return &c36Label{Kind: "advance", D: 10}
		}
		if subs[n] {
			for _, p := range h.positioned {
				if p == n { // keep positioned subscriptions without expiry (see the subscribe branch)
					return &c36Label{Kind: "advance", D: 10}
				}
			}
			return &c36Label{Kind: "subrefresh", Chan: n, E: []int{0, future(), future(), (vnow / 10) * 10}[r.Intn(4)]}
		}
		subs[n] = true
		e := 0
		if r.Intn(4) != 0 {
			e = future()
			if r.Intn(3) != 0 { // soon, so that the run lives to see it expire
				e = (vnow/10 + 1 + r.Intn(2)) * 10
			}
		}
		pos := h.cfg.PosDelay > 0 && r.Intn(3) != 0
		if h.cfg.SrvSubs {
			// A close started by the tick for a server-side subscription (expired: 3006 from a goroutine,
			// invalid position: 3010 and the loop ends) makes what the tick does for the other channels
			// depend on the map order.  So a case uses either positions or expiries (the first subscribe
			// decides), and when nothing extends expiries a single subscription carries one.
			if !subs[-2] && !subs[-3] {
				if pos {
					subs[-2] = true
				} else {
					subs[-3] = true
				}
			}
			pos = pos && subs[-2]
			if subs[-2] {
				e = 0
			} else if h.cfg.SubRefresh != "extend" && h.cfg.SubRefresh != "forever" {
				if subs[-1] {
					e = 0
				} else if e != 0 {
					subs[-1] = true
				}
			}
		}
		if pos {
			e = 0 // a subscription both expired and at an invalid position would be unsubscribed twice, racing
			h.positioned = append(h.positioned, n)
		}
		if h.cfg.SrvSubs {
			return &c36Label{Kind: "subscribe", Chan: n, E: e, CSR: false, Server: true, Pos: pos}
		}
		return &c36Label{Kind: "subscribe", Chan: n, E: e, CSR: r.Intn(3) != 0, Server: false, Pos: pos}
	case x < 88:
		if !h.conn.CSR && r.Intn(6) != 0 { // a refresh command without client-side refresh is a bad request
			return &c36Label{Kind: "advance", D: 10}
		}
		return &c36Label{Kind: "refresh", E: []int{0, future(), future(), future(), (vnow / 10) * 10}[r.Intn(5)]}
	case x < 94:
		e := []int{0, future(), future(), future(), future(), (vnow / 10) * 10}[r.Intn(6)]
		return &c36Label{Kind: "srvrefresh", E: e, Expired: r.Intn(15) == 0}
	}
	return &c36Label{Kind: "advance", D: 10}
}

func TestVerifC36(t *testing.T) {
	w := verifOpen(t, "C36")
	defer w.Close()
	corpus := [][]c36Label{
		// stale: never connects
		{{Kind: "advance", D: 5}, {Kind: "advance", D: 20}, {Kind: "fire"}},
		// ping, no pong: closed with no-pong
		{{Kind: "advance", D: 5}, {Kind: "connect", FPres: 13, FPing: 10}, {Kind: "advance", D: 10}, {Kind: "fire"}, {Kind: "advance", D: 10}, {Kind: "fire"}},
		// ping, pong in time: stays
		{{Kind: "advance", D: 5}, {Kind: "connect", FPres: 13, FPing: 10}, {Kind: "advance", D: 10}, {Kind: "fire"}, {Kind: "pong"}, {Kind: "advance", D: 10}, {Kind: "fire"}},
		// expiry without refresh (client-side refresh mode): closed after expiry + delay
		{{Kind: "advance", D: 5}, {Kind: "connect", E: 20, CSR: true, FPres: 13, FPing: 10}, {Kind: "advance", D: 10}, {Kind: "fire"}, {Kind: "pong"}, {Kind: "advance", D: 10}, {Kind: "fire"}, {Kind: "advance", D: 10}, {Kind: "fire"}, {Kind: "fire"}},
		// refreshed in time by the client: not closed at the old expiry
		{{Kind: "advance", D: 5}, {Kind: "connect", E: 20, CSR: true, FPres: 13, FPing: 10}, {Kind: "refresh", E: 60}, {Kind: "advance", D: 30}, {Kind: "fire"}, {Kind: "fire"}, {Kind: "fire"}},
		// Refresh() without expiry on an expiring connection: pings must go on after the old expiry
		{{Kind: "advance", D: 5}, {Kind: "connect", E: 20, CSR: true, FPres: 13, FPing: 10}, {Kind: "srvrefresh"}, {Kind: "advance", D: 10}, {Kind: "fire"}, {Kind: "pong"}, {Kind: "advance", D: 10}, {Kind: "fire"}, {Kind: "advance", D: 10}, {Kind: "fire"}, {Kind: "fire"}, {Kind: "advance", D: 10}, {Kind: "fire"}},
		// subscription expiry
		{{Kind: "advance", D: 5}, {Kind: "connect", FPres: 13, FPing: 10}, {Kind: "subscribe", Chan: 1, E: 10, CSR: true}, {Kind: "subscribe", Chan: 2, E: 60, CSR: true}, {Kind: "advance", D: 20}, {Kind: "fire"}, {Kind: "fire"}, {Kind: "fire"}},
	}
	// server-side sub refresh at the presence tick (appended: earlier corpus indices stay)
	corpusCfg := map[int]func(c *c36Cfg){}
	subTail := []c36Label{{Kind: "advance", D: 20}, {Kind: "fire"}, {Kind: "fire"}, {Kind: "fire"}, {Kind: "advance", D: 30}, {Kind: "fire"}, {Kind: "fire"},
		{Kind: "advance", D: 30}, {Kind: "fire"}, {Kind: "fire"}, {Kind: "fire"}}
	addSub := func(mod func(c *c36Cfg), subs ...c36Label) {
		ls := []c36Label{{Kind: "advance", D: 5}, {Kind: "connect", FPres: 13, FPing: 10}}
		ls = append(ls, subs...)
		ls = append(ls, subTail...)
		corpusCfg[len(corpus)] = mod
		corpus = append(corpus, ls)
	}
	for _, sr := range []string{"extend", "forever", "expired", "fail"} {
		sr := sr
		mod := func(c *c36Cfg) { c.SubRefresh, c.SubExtend, c.Pong = sr, 17, 0 }
		addSub(mod, c36Label{Kind: "subscribe", Chan: 1, E: 10}, c36Label{Kind: "subscribe", Chan: 2, E: 10, CSR: true}, c36Label{Kind: "subscribe", Chan: 3, E: 90})
		addSub(mod, c36Label{Kind: "subscribe", Chan: 1, E: 10, Server: true}, c36Label{Kind: "subscribe", Chan: 2, E: 90, Server: true})
	}
	// slow OnConnect handler: the stale timer (due at 20) fires inside it, the connection lives on
	corpus = append(corpus, []c36Label{{Kind: "advance", D: 5}, {Kind: "connectslow", E: 90, CSR: true, FPres: 13, FPing: 10, D: 20}, {Kind: "advance", D: 10}, {Kind: "fire"}, {Kind: "pong"}, {Kind: "advance", D: 10}, {Kind: "fire"}, {Kind: "fire"}})
	corpus = append(corpus, []c36Label{{Kind: "advance", D: 15}, {Kind: "connectslow", FPres: 13, FPing: 10, D: 10}, {Kind: "advance", D: 10}, {Kind: "fire"}, {Kind: "fire"}})
	// periodic position check
	posMod := func(c *c36Cfg) { c.PosDelay, c.Pong = 20, 0 }
	addSub(posMod, c36Label{Kind: "subscribe", Chan: 1, Pos: true}, c36Label{Kind: "subscribe", Chan: 2, Pos: true}, c36Label{Kind: "subscribe", Chan: 3}, c36Label{Kind: "stream", Chan: 1, Bad: true})
	addSub(posMod, c36Label{Kind: "subscribe", Chan: 1, Pos: true, Server: true}, c36Label{Kind: "subscribe", Chan: 2, Server: true}, c36Label{Kind: "stream", Chan: 1, Bad: true})
	// valid at the first check (stamped), the stream moves afterwards: found only once the delay has passed again
	corpusCfg[len(corpus)] = posMod
	corpus = append(corpus, []c36Label{{Kind: "advance", D: 5}, {Kind: "connect", FPres: 13, FPing: 10}, {Kind: "subscribe", Chan: 1, Pos: true},
		{Kind: "advance", D: 40}, {Kind: "fire"}, {Kind: "fire"}, {Kind: "fire"}, {Kind: "stream", Chan: 1, Bad: true}, {Kind: "advance", D: 20}, {Kind: "fire"}, {Kind: "fire"}, {Kind: "fire"},
		{Kind: "advance", D: 20}, {Kind: "fire"}, {Kind: "fire"}, {Kind: "fire"}, {Kind: "advance", D: 20}, {Kind: "fire"}, {Kind: "fire"}, {Kind: "fire"}})
	// ... and a tick in between, less than the delay after the stamp, must leave it alone
	corpusCfg[len(corpus)] = func(c *c36Cfg) { c.PosDelay, c.Pong = 30, 0 }
	corpus = append(corpus, []c36Label{{Kind: "advance", D: 5}, {Kind: "connect", FPres: 13, FPing: 10}, {Kind: "subscribe", Chan: 1, Pos: true},
		{Kind: "advance", D: 40}, {Kind: "fire"}, {Kind: "fire"}, {Kind: "stream", Chan: 1, Bad: true}, {Kind: "advance", D: 25}, {Kind: "fire"}, {Kind: "fire"},
		{Kind: "advance", D: 20}, {Kind: "fire"}, {Kind: "advance", D: 10}, {Kind: "fire"}, {Kind: "fire"}})
	// the stream comes back before the check is due
	corpusCfg[len(corpus)] = posMod
	corpus = append(corpus, []c36Label{{Kind: "advance", D: 5}, {Kind: "connect", FPres: 13, FPing: 10}, {Kind: "subscribe", Chan: 1, Pos: true}, {Kind: "stream", Chan: 1, Bad: true},
		{Kind: "advance", D: 20}, {Kind: "fire"}, {Kind: "fire"}, {Kind: "stream", Chan: 1}, {Kind: "advance", D: 30}, {Kind: "fire"}, {Kind: "fire"}, {Kind: "fire"}})
	for i := 0; i < w.N; i++ {
		if !w.Want(i) {
			continue
		}
		r := w.Rand(i)
		// deadlines of different kinds never coincide: pings / pong checks fall on 5 (mod 10) like the clock,
		// presence ticks on 8, expiry checks on 0 or 2 (the code breaks ties by nanoseconds)
		cfg := c36Cfg{Ping: 20, Pong: 10, Presence: 23, Stale: 20, ExpDelay: 10, SubDelay: 10, Refresh: "none", SubRefresh: "fail"}
		var fixed []c36Label
		class := "random"
		if i < len(corpus) {
			fixed = corpus[i]
			class = "corpus"
			if mod := corpusCfg[i]; mod != nil {
				mod(&cfg)
			}
		} else {
			cfg.Ping = []int{20, 20, 40}[r.Intn(3)]
			cfg.Pong = []int{10, 10, 0}[r.Intn(3)]
			cfg.Presence = []int{23, 43}[r.Intn(2)]
			cfg.Stale = []int{10, 20}[r.Intn(2)]
			cfg.ExpDelay = []int{10, 20}[r.Intn(2)]
			cfg.SubDelay = []int{10, 20}[r.Intn(2)]
			cfg.Uni = r.Intn(5) == 0
			cfg.Refresh = []string{"none", "none", "extend", "expired", "fail"}[r.Intn(5)]
			cfg.Extend = 7 + 10*(1+r.Intn(3))
			cfg.SubRefresh = []string{"fail", "expired", "extend", "extend", "forever"}[r.Intn(5)]
			cfg.SubExtend = 7 + 10*(1+r.Intn(3)) // new expiries fall on 5 (mod 10), ticks on 8
			cfg.SrvSubs = r.Intn(4) == 0
			cfg.PosDelay = []int{0, 20, 20, 30}[r.Intn(4)]
		}
		h := c36New(t, cfg)
		var labels []c36Label
		var obs [][]c36Ev
		var snaps []c36Snap
		steps := 10 + r.Intn(30)
		if fixed != nil {
			steps = len(fixed)
		}
		subs := map[int]bool{}
		closedSteps := 0
		for k := 0; k < steps; k++ {
			var l *c36Label
			if fixed != nil {
				l = &fixed[k]
			} else {
				if h.isClosed() {
					closedSteps++
					if closedSteps > 2 { // a closed connection stays closed: two more labels show it
						break
					}
				}
				l = c36Gen(r, h, k, subs)
			}
			if l.Kind == "fire" {
				if a := h.sched.active(); a == nil || a.due > h.sched.vnow || h.isClosed() {
					if fixed != nil {
						t.Logf("case %d: corpus fire at step %d not enabled", i, k)
					}
					continue
				}
			}
			h.apply(*l)
			labels = append(labels, *l)
			obs = append(obs, h.settle())
			snaps = append(snaps, h.snapshot())
		}
		if !h.isClosed() {
			_ = h.client.close(DisconnectConnectionClosed)
		}
		_ = h.node.Shutdown(context.Background())

		rs := "RNone"
		switch cfg.Refresh {
		case "extend":
			rs = vApp("RExtend", vN(uint64(cfg.Extend)))
		case "expired":
			rs = "RExpired"
		case "fail":
			rs = "RFail"
		}
		ss0 := "SFail"
		switch cfg.SubRefresh {
		case "extend":
			ss0 = vApp("SExtend", vN(uint64(cfg.SubExtend)))
		case "expired":
			ss0 = "SExpired"
		case "forever":
			ss0 = "SForever"
		}
		cfgT := vApp("mkCfg", vN(uint64(cfg.Ping)), vN(uint64(cfg.Pong)), vN(uint64(cfg.Presence)), vN(uint64(cfg.Stale)),
			vN(uint64(cfg.ExpDelay)), vN(uint64(cfg.SubDelay)), vBool(cfg.Uni), rs, ss0, vN(uint64(cfg.PosDelay)))
		ls := make([]string, len(labels))
		os := make([]string, len(labels))
		ss := make([]string, len(labels))
		fires, closes := 0, 0
		for k := range labels {
			ls[k] = labels[k].coq()
			xs := make([]string, len(obs[k]))
			for j, e := range obs[k] {
				xs[j] = e.coq()
				if e.Kind == "close" {
					closes++
				}
			}
			os[k] = vList(xs)
			ss[k] = snaps[k].coq()
			if labels[k].Kind == "fire" {
				fires++
			}
		}
		term := vApp("mkCase", cfgT, vList(ls), vList(os), vList(ss))
		if closes > 0 {
			class += "/closed"
		} else {
			class += "/open"
		}
		w.Case(i, term, map[string]any{"config": cfg, "labels": labels, "observed": obs, "snapshots": snaps}, class, fires >= 2)
	}
}
