package centrifuge

import (
	"fmt"
	"math/rand"
	"sort"
	"testing"
)

// C06 Presence reflects live subscriptions.
// Even indexes: call sequences on the real presenceHub (presence_memory.go); indexes = 8 mod 10: which
// channels a presence tick refreshes, sequential and concurrent variant (c06TickCase).
// Odd indexes: life-cycle schedules on the real Node/Client (shared engine); every life-cycle case
// ends with a presence tick, so "settled" includes one periodic presence update.

type c06Op struct {
	Add  bool `json:"add"`
	Ch   int  `json:"ch"`
	UID  int  `json:"uid"`
	User int  `json:"user"`
}

func c06HubCase(r *rand.Rand) (string, map[string]any, string, bool) {
	nch, nuid, nuser := 1+r.Intn(2), 2+r.Intn(4), 1+r.Intn(3)
	n := r.Intn(14)
	h := newPresenceHub()
	var ops []c06Op
	var opsCoq, steps []string
	name := func(p string, i int) string { return fmt.Sprintf("%s%d", p, i) }
	for i := 0; i < n; i++ {
		o := c06Op{Add: r.Intn(100) < 62, Ch: r.Intn(nch), UID: r.Intn(nuid), User: r.Intn(nuser)}
		ops = append(ops, o)
		if o.Add {
			_ = h.add(name("ch", o.Ch), name("client", o.UID), &ClientInfo{ClientID: name("client", o.UID), UserID: name("user", o.User)})
			opsCoq = append(opsCoq, vApp("PAdd", vN(uint64(o.Ch)), vN(uint64(o.UID)), vN(uint64(o.User))))
		} else {
			_ = h.remove(name("ch", o.Ch), name("client", o.UID))
			opsCoq = append(opsCoq, vApp("PRemove", vN(uint64(o.Ch)), vN(uint64(o.UID))))
		}
		st, _ := h.getStats(name("ch", o.Ch))
		steps = append(steps, vPair(vN(uint64(st.NumClients)), vN(uint64(st.NumUsers))))
	}
	var finals []string
	var finalJS []map[string]any
	dups := false
	for c := 0; c < nch; c++ {
		m, _ := h.get(name("ch", c))
		st, _ := h.getStats(name("ch", c))
		var ents [][2]int
		for uid, info := range m {
			var u, us int
			fmt.Sscanf(uid, "client%d", &u)
			fmt.Sscanf(info.UserID, "user%d", &us)
			if info.ClientID != uid {
				us = 999 // the stored info must be the one that was added
			}
			ents = append(ents, [2]int{u, us})
		}
		sort.Slice(ents, func(i, j int) bool { return ents[i][0] < ents[j][0] })
		var es []string
		seen := map[int]bool{}
		for _, e := range ents {
			es = append(es, vPair(vN(uint64(e[0])), vN(uint64(e[1]))))
			if seen[e[1]] {
				dups = true
			}
			seen[e[1]] = true
		}
		finals = append(finals, vApp("mkPFinal", vN(uint64(c)), vList(es), vN(uint64(st.NumClients)), vN(uint64(st.NumUsers))))
		finalJS = append(finalJS, map[string]any{"ch": c, "entries": ents, "clients": st.NumClients, "users": st.NumUsers})
	}
	var uids []string
	for u := 0; u < nuid; u++ {
		uids = append(uids, vN(uint64(u)))
	}
	term := vApp("CPres", vList(opsCoq), vList(steps), vList(finals), vList(uids))
	return term, map[string]any{"kind": "presenceHub", "ops": ops, "final": finalJS, "key": ""}, "presence-hub", n >= 4 && dups
}

// c06TickCase: which channels one presence tick refreshes, for the sequential (concurrency 0/1) and the
// concurrent (clientPresenceUpdateConcurrency > 1) variant: the connection subscribes server-side to 2..5
// channels (presence on for most), then 1..3 ticks run alone; per tick the channels of the connection's
// AddPresence calls are recorded.  Coq side: CTick - compared with the model's tick snapshot
// (pres_items) and judged by the oracle "every presence subscription exactly once, nothing else".
func c06TickCase(r *rand.Rand) (string, map[string]any, string, bool) {
	nch := 2 + r.Intn(4)
	conc := []int{0, 1, 2, 3, 8}[r.Intn(5)]
	fail := func(msg string) (string, map[string]any, string, bool) {
		return vApp("CTick", vList(nil), vList([]string{vList([]string{vN(0)})})), map[string]any{"kind": "tick", "error": msg, "key": ""}, "tick-variant", false
	}
	e, err := c04NewEngCfg(nil, nch, c04EngCfg{TickConc: conc})
	if err != nil {
		return fail(err.Error())
	}
	defer e.shutdown()
	c04Connect(e)
	var subs []string
	pres := make([]bool, nch)
	npres := 0
	for c := 0; c < nch; c++ {
		pres[c] = r.Intn(100) < 75
		if pres[c] {
			npres++
		}
		e.spawn(c04Op{Kind: "subsrv", Ch: c, Opts: c04Opts{Pres: pres[c]}})
		if !e.client.IsSubscribed(e.chs[c]) {
			return fail("subscribe did not complete")
		}
		subs = append(subs, vPair(vN(uint64(c)), vBool(pres[c])))
	}
	e.takePresAdds()
	var ticks []string
	var ticksJS [][]uint64
	for k, nt := 0, 1+r.Intn(3); k < nt; k++ {
		e.spawn(c04Op{Kind: "tick"})
		adds := e.takePresAdds()
		var l []string
		for _, c := range adds {
			l = append(l, vN(c))
		}
		ticks = append(ticks, vList(l))
		ticksJS = append(ticksJS, adds)
	}
	term := vApp("CTick", vList(subs), vList(ticks))
	return term, map[string]any{"kind": "tick", "concurrency": conc, "presence": pres, "ticks": ticksJS, "key": ""}, "tick-variant", conc > 1 && npres >= 2
}

// c06Finish: release everything, then one presence tick (also released), so that the observed
// state is "settled" in the sense of the property.
func c06Finish(e *c04Eng) {
	c04Finish(e, false)
	if o := (c04Op{Kind: "tick"}); e.enabled(o) {
		e.spawn(o)
		c04Finish(e, false)
	}
}

func c06PresClass(o c04Obs) string {
	if !o.Settled || o.Stuck != "" {
		return ""
	}
	for _, c := range o.Chs {
		want := c.IsSub && c.FPres
		if c.Pres && !want {
			return "C06-stale-presence"
		}
		if !c.Pres && want {
			return "C06-presence-missing"
		}
	}
	return ""
}

func TestVerifC06(t *testing.T) {
	w := verifOpen(t, "C06")
	defer w.Close()
	pr := c04Opts{Pres: true}
	lifeIdx := 0
	_ = lifeIdx
	c06RunAll(w, func(i int, r *rand.Rand) c04Plan {
		k := i / 2 // life-cycle case number
		switch k {
		case 0: // tick add lands after the unsubscribe; a fresh reservation hides the race; the fresh attempt fails
			return c04Plan{Name: "tick-vs-unsub/resub-fails", NCh: 1, Armed: []c04Gk{c04GkSubH, c04GkPresAdd, c04GkJoin},
				Script: func(e *c04Eng, r *rand.Rand) {
					c04Connect(e)
					e.spawn(c04Op{Kind: "subcli", Ch: 0, Opts: pr})
					e.release(c07Park(e, c04GkSubH), true)
					e.release(c07Park(e, c04GkPresAdd), true) // subscribed with presence
					e.spawn(c04Op{Kind: "tick"})              // parked at AddPresence
					e.spawn(c04Op{Kind: "unsubcli", Ch: 0})   // removes presence
					e.spawn(c04Op{Kind: "subcli", Ch: 0, Opts: pr})
					e.release(c07Park(e, c04GkPresAdd), true) // the tick's add lands
					e.release(c07Park(e, c04GkSubH), false)   // the re-subscribe is rejected
				}}
		case 1: // the documented transient: a stale RemovePresence after the re-subscribe's add; the final tick heals it
			return c04Plan{Name: "stale-remove/healed-by-tick", NCh: 1, Armed: []c04Gk{c04GkPresRem, c04GkJoin},
				Script: func(e *c04Eng, r *rand.Rand) {
					c04Connect(e)
					e.spawn(c04Op{Kind: "subcli", Ch: 0, Opts: pr})
					e.spawn(c04Op{Kind: "unsubcli", Ch: 0}) // parked at RemovePresence
					e.spawn(c04Op{Kind: "subsrv", Ch: 0, Opts: pr})
					e.release(c07Park(e, c04GkPresRem), true)
				}}
		case 2: // close while a tick is adding presence: close waits for presenceMu, then removes
			return c04Plan{Name: "close-vs-tick", NCh: 1, Armed: []c04Gk{c04GkPresAdd, c04GkJoin},
				Script: func(e *c04Eng, r *rand.Rand) {
					c04Connect(e)
					e.spawn(c04Op{Kind: "subsrv", Ch: 0, Opts: pr})
					e.release(c07Park(e, c04GkPresAdd), true)
					e.spawn(c04Op{Kind: "tick"})
					e.spawn(c04Op{Kind: "close"})
					e.release(c07Park(e, c04GkPresAdd), true)
				}}
		case 3: // tick add racing an unsubscribe with nothing re-reserving: compensated
			return c04Plan{Name: "tick-vs-unsub/compensated", NCh: 1, Armed: []c04Gk{c04GkPresAdd, c04GkJoin},
				Script: func(e *c04Eng, r *rand.Rand) {
					c04Connect(e)
					e.spawn(c04Op{Kind: "subsrv", Ch: 0, Opts: pr})
					e.release(c07Park(e, c04GkPresAdd), true)
					e.spawn(c04Op{Kind: "tick"})
					e.spawn(c04Op{Kind: "unsubsrv", Ch: 0})
					e.release(c07Park(e, c04GkPresAdd), true)
				}}
		}
		armed := c04RandArmed(r)
		for _, g := range []c04Gk{c04GkPresAdd, c04GkPresRem} {
			if r.Intn(100) < 50 {
				armed = append(armed, g)
			}
		}
		if k%4 == 0 {
			return c04Plan{Name: "sequential", NCh: 2, Script: c04RandomWalk(6 + r.Intn(14))}
		}
		return c04Plan{Name: "random-gated", NCh: 1 + r.Intn(2), Armed: armed, Script: c04RandomWalkOpt(6+r.Intn(18), 60)}
	})
}

// c06RunAll: even indexes are presenceHub call sequences, odd ones life-cycle plans.
func c06RunAll(w *verifW, mk func(i int, r *rand.Rand) c04Plan) {
	type out struct {
		term  string
		js    any
		class string
		nt    bool
	}
	results := make([]*out, w.N)
	sem := make(chan struct{}, 8)
	done := make(chan struct{})
	pending := 0
	for i := 0; i < w.N; i++ {
		if !w.Want(i) {
			continue
		}
		if i%10 == 8 {
			pending++
			sem <- struct{}{}
			go func(i int) {
				defer func() { <-sem; done <- struct{}{} }()
				term, js, class, nt := c06TickCase(w.Rand(i))
				results[i] = &out{term, js, class, nt}
			}(i)
			continue
		}
		if i%2 == 0 {
			term, js, class, nt := c06HubCase(w.Rand(i))
			results[i] = &out{term, js, class, nt}
			continue
		}
		pending++
		sem <- struct{}{}
		go func(i int) {
			defer func() { <-sem; done <- struct{}{} }()
			p := mk(i, w.Rand(i))
			p.Finish = c06Finish
			res := c04RunPlan(p, w.Rand(i+1<<20).Int63())
			res.JS["key"] = c06PresClass(res.JS["obs"].(c04Obs))
			results[i] = &out{vApp("CLife", res.Term), res.JS, "life/" + res.Class, res.Nontriv}
		}(i)
	}
	for ; pending > 0; pending-- {
		<-done
	}
	for i, res := range results {
		if res != nil {
			w.Case(i, res.term, res.js, res.class, res.nt)
		}
	}
}
