package centrifuge

// C24 driver: runs the REAL mapHub.expireKeysIteration in its own goroutine and stops it between
// its phases / between Phase-2 candidates with a natural gate: the BrokerEventHandler call for
// the removal of a "decoy" key of another channel blocks (the sweep then holds pubLock(decoy
// channel), Phase 1 is complete and the remaining candidates are still pending) while the driver
// performs publish / keep-alive / remove / clear / reads on the target channel's keys, some of which
// are pending candidates.  Strictly alternating, hence deterministic.

import (
	"fmt"
	"math/rand"
	"testing"
)

type c24Label struct {
	Kind string `json:"kind"` // op phase1 until drain
	Op   *c20Op `json:"op,omitempty"`
	Ch   int    `json:"ch,omitempty"`
	Key  string `json:"key,omitempty"`
}

func (l c24Label) coq() string {
	switch l.Kind {
	case "op":
		return vApp("MOp", l.Op.coq())
	case "phase1":
		return "MPhase1"
	case "until":
		return vApp("MUntil", vN(uint64(l.Ch)), vStr(l.Key))
	case "drain":
		return "MDrain"
	}
	panic("bad label")
}

type c24Case struct {
	Cfgs  []c20Raw   `json:"cfgs"`
	Sched []c24Label `json:"sched"`
	Obs   []c20Obs   `json:"obs"`
}

func (c c24Case) coq() string {
	cf := make([]string, len(c.Cfgs))
	for i, x := range c.Cfgs {
		cf[i] = x.coq()
	}
	ls := make([]string, len(c.Sched))
	ob := make([]string, len(c.Sched))
	for i := range c.Sched {
		ls[i] = c.Sched[i].coq()
		ob[i] = c.Obs[i].coq()
	}
	return vApp("mkCase", vList(cf), vList(ls), vList(ob))
}

type c24Run struct {
	t      *testing.T
	r      *rand.Rand
	e      *c20Env
	c      c24Case
	data   uint64
	tkeys  []string
	racing int // gate operations that hit a key whose deadline had passed when the sweep started
	gates  int
}

const c24T, c24D = 0, 1

func (x *c24Run) emitOp(o c20Op, ob c20Obs) {
	oo := o
	x.c.Sched = append(x.c.Sched, c24Label{Kind: "op", Op: &oo})
	x.c.Obs = append(x.c.Obs, ob)
}

func (x *c24Run) do(o c20Op) c20Obs {
	if o.Kind == "publish" {
		x.e.avoidTie(o.Ch, o.Key, x.emitOp)
	}
	ob := x.e.exec(o)
	x.emitOp(o, ob)
	return ob
}

func (x *c24Run) pub(ch int, key string) c20Op {
	x.data++
	return c20Op{Kind: "publish", Ch: ch, Key: key, Data: x.data, Tags: int64(x.r.Intn(3)) - 1}
}

func (x *c24Run) keepAlive(ch int, key string) c20Op {
	o := x.pub(ch, key)
	o.Mode, o.Refresh = 1, true
	return o
}

// expiredNow reports whether the key's tracked deadline has passed (virtual clock).
func (x *c24Run) expiredNow(ch int, key string) bool {
	h := x.e.b.mapHub
	h.RLock()
	defer h.RUnlock()
	d, ok := h.keyExpires[x.e.names[ch]+"\x00"+key]
	return ok && d <= x.e.base+c20Tick/2
}

// gateOp picks an operation on the target channels performed while the sweep is stopped.
func (x *c24Run) gateOp() c20Op {
	r := x.r
	ch := c24T
	if len(x.e.cfgs) > 2 && r.Intn(4) == 0 {
		ch = 2
	}
	key := x.tkeys[r.Intn(len(x.tkeys))]
	var o c20Op
	switch v := r.Intn(100); {
	case v < 35:
		o = x.pub(ch, key)
	case v < 55:
		o = x.keepAlive(ch, key)
	case v < 75:
		o = c20Op{Kind: "remove", Ch: ch, Key: key, Tags: -1}
	case v < 80:
		o = c20Op{Kind: "clear", Ch: ch, Tags: -1}
	case v < 90:
		o = c20Op{Kind: "rstate", Ch: ch, Limit: -1, Tags: -1}
	default:
		o = c20Op{Kind: "rstream", Ch: ch, Limit: -1, Tags: -1}
	}
	if o.Kind == "publish" {
		// the clock cannot be advanced while a sweep is in flight: avoid deadline ties by reading instead
		ttl := x.e.cfgs[ch].KeyTTL
		if x.e.deadlineTaken(x.e.vnow+ttl, x.e.names[ch]+"\x00"+key) {
			o = c20Op{Kind: "rstate", Ch: ch, Limit: -1, Tags: -1}
		}
	}
	if (o.Kind == "publish" || o.Kind == "remove") && x.expiredNow(ch, key) {
		x.racing++
	}
	return o
}

// sweep runs one real expireKeysIteration, stopping it at every decoy removal.
func (x *c24Run) sweep(maxOpsPerGate int) {
	e := x.e
	e.snap()
	x.c.Sched = append(x.c.Sched, c24Label{Kind: "phase1"})
	x.c.Obs = append(x.c.Obs, c20Obs{Res: "RUnit", Bcasts: e.takeLog()})
	gateCh := make(chan string)
	resume := make(chan struct{})
	done := make(chan any, 1)
	e.mu.Lock()
	e.gate = func(ch int, pub *Publication) {
		if ch == c24D && pub.Removed {
			gateCh <- pub.Key
			<-resume
		}
	}
	e.mu.Unlock()
	go func() {
		defer func() { done <- recover() }()
		var next int64
		e.b.mapHub.expireKeysIteration(&next)
	}()
	for running := true; running; {
		select {
		case key := <-gateCh:
			x.gates++
			x.c.Sched = append(x.c.Sched, c24Label{Kind: "until", Ch: c24D, Key: key})
			x.c.Obs = append(x.c.Obs, c20Obs{Res: "RUnit", Bcasts: e.takeLog()})
			for n := x.r.Intn(maxOpsPerGate + 1); n > 0; n-- {
				o := x.gateOp()
				x.emitOp(o, e.exec(o))
			}
			resume <- struct{}{}
		case p := <-done:
			if p != nil {
				x.t.Fatalf("expireKeysIteration panicked: %v", p)
			}
			running = false
		}
	}
	e.mu.Lock()
	e.gate = nil
	e.mu.Unlock()
	e.snap()
	x.c.Sched = append(x.c.Sched, c24Label{Kind: "drain"})
	x.c.Obs = append(x.c.Obs, c20Obs{Res: "RUnit", Bcasts: e.takeLog()})
}

func c24Names(n int) []string {
	// channel names whose pubLock buckets are pairwise different (the gate relies on it)
	names := []string{}
	used := map[int]bool{}
	for i := 0; len(names) < n; i++ {
		nm := fmt.Sprintf("m%d", i)
		ix := index(nm, numPubLocks)
		if !used[ix] {
			used[ix] = true
			names = append(names, nm)
		}
	}
	return names
}

func TestVerifC24(t *testing.T) {
	w := verifOpen(t, "C24")
	defer w.Close()
	for i := 0; i < w.N; i++ {
		if !w.Want(i) {
			continue
		}
		r := w.Rand(i)
		ttlT := int64(2 + r.Intn(3))
		ttlD := int64(2 + r.Intn(3))
		modeT := 2
		if r.Intn(5) == 0 {
			modeT = 1
		}
		cfgs := []c20Raw{{Mode: modeT, KeyTTL: ttlT, Size: []int{0, 2, 3, 5}[r.Intn(4)]}, {Mode: 2, KeyTTL: ttlD, Size: 2}}
		if modeT == 1 {
			cfgs[0].Size = 0
		}
		if r.Intn(3) == 0 {
			cfgs = append(cfgs, c20Raw{Mode: 2, KeyTTL: int64(2 + r.Intn(3)), Size: 3, Ordered: true})
		}
		names := c24Names(len(cfgs) + 1)
		e := c20NewEnv(t, cfgs, names)
		x := &c24Run{t: t, r: r, e: e, c: c24Case{Cfgs: cfgs}, tkeys: []string{"a", "b", "c"}}
		dkeys := []string{"x", "y", "z", "u", "v"}
		nd := 0
		// setup: target keys and decoys with interleaved deadlines, some early life-cycle traffic
		for s, n := 0, 5+r.Intn(8); s < n; s++ {
			switch v := r.Intn(100); {
			case v < 35:
				ch := c24T
				if len(cfgs) > 2 && r.Intn(4) == 0 {
					ch = 2
				}
				x.do(x.pub(ch, x.tkeys[r.Intn(3)]))
			case v < 60 && nd < len(dkeys):
				x.do(x.pub(c24D, dkeys[nd]))
				nd++
			case v < 70:
				x.do(x.keepAlive(c24T, x.tkeys[r.Intn(3)]))
			case v < 78:
				x.do(c20Op{Kind: "remove", Ch: c24T, Key: x.tkeys[r.Intn(3)], Tags: -1})
			default:
				x.do(c20Op{Kind: "advance", N: int64(1 + r.Intn(2)), Tags: -1})
			}
		}
		for s, n := 0, 1+r.Intn(3); s < n; s++ {
			x.do(c20Op{Kind: "advance", N: int64(1 + r.Intn(4)), Tags: -1})
			x.sweep(3)
			if r.Intn(2) == 0 {
				x.do(x.pub(c24T, x.tkeys[r.Intn(3)]))
			}
			if nd < len(dkeys) && r.Intn(2) == 0 {
				x.do(x.pub(c24D, dkeys[nd]))
				nd++
			}
		}
		// quiescence: everything left expires, then the final state and streams are read
		x.do(c20Op{Kind: "rstate", Ch: c24T, Limit: -1, Tags: -1})
		x.do(c20Op{Kind: "advance", N: 6, Tags: -1})
		x.sweep(0)
		for ch := range cfgs {
			x.do(c20Op{Kind: "rstate", Ch: ch, Limit: -1, Tags: -1})
			x.do(c20Op{Kind: "rstream", Ch: ch, Limit: -1, Tags: -1})
		}
		class := fmt.Sprintf("mode%d/ch%d", modeT, len(cfgs))
		c20Count(w, "gates", x.gates)
		c20Count(w, "racing_gate_ops", x.racing)
		w.Case(i, x.c.coq(), x.c, class, x.racing > 0)
	}
}
