package centrifuge

import (
	"context"
	"encoding/json"
	"fmt"
	"io"
	"math/rand"
	"sort"
	"strings"
	"sync"
	"testing"
	"time"

	"github.com/centrifugal/protocol"
)

// C27 driver: Node.Subscribe / Unsubscribe / Disconnect / Refresh called on node A of a real two-node
// cluster (in-memory Controller), once with the target connections on A and once with them on B;
// the effect on the connections' node is rendered canonically and the two renderings are the case.

type c27Rec struct {
	mu   sync.Mutex
	evs  []string
	cidx map[string]int
}

func (r *c27Rec) add(s string) {
	r.mu.Lock()
	r.evs = append(r.evs, s)
	r.mu.Unlock()
}

func (r *c27Rec) idx(clientID string) int {
	r.mu.Lock()
	defer r.mu.Unlock()
	return r.cidx[clientID]
}

type c27Broker struct {
	*MemoryBroker
	rec *c27Rec
}

func (b *c27Broker) History(ch string, opts HistoryOptions) ([]*Publication, StreamPosition, error) {
	since := "-"
	if opts.Filter.Since != nil {
		since = fmt.Sprint(opts.Filter.Since.Offset)
	}
	b.rec.add(fmt.Sprintf("history(%s limit=%d reverse=%v since=%s metattl=%s)", ch, opts.Filter.Limit, opts.Filter.Reverse, since, opts.MetaTTL))
	return b.MemoryBroker.History(ch, opts)
}

func (b *c27Broker) PublishJoin(ch string, info *ClientInfo) error {
	b.rec.add(fmt.Sprintf("join(%s c%d)", ch, b.rec.idx(info.ClientID)))
	return b.MemoryBroker.PublishJoin(ch, info)
}

type c27Presence struct{ rec *c27Rec }

func (p *c27Presence) Presence(string) (map[string]*ClientInfo, error) {
	return map[string]*ClientInfo{}, nil
}
func (p *c27Presence) PresenceStats(string) (PresenceStats, error) { return PresenceStats{}, nil }
func (p *c27Presence) AddPresence(ch string, clientID string, _ *ClientInfo) error {
	p.rec.add(fmt.Sprintf("presence+(%s c%d)", ch, p.rec.idx(clientID)))
	return nil
}
func (p *c27Presence) RemovePresence(ch string, clientID string, _ string) error {
	p.rec.add(fmt.Sprintf("presence-(%s c%d)", ch, p.rec.idx(clientID)))
	return nil
}

type c27Cluster struct {
	mu       sync.Mutex
	handlers []ControlEventHandler
}
type c27Controller struct{ cl *c27Cluster }

func (c *c27Controller) RegisterControlEventHandler(h ControlEventHandler) error {
	c.cl.mu.Lock()
	defer c.cl.mu.Unlock()
	c.cl.handlers = append(c.cl.handlers, h)
	return nil
}
func (c *c27Controller) PublishControl(data []byte, _, _ string) error {
	c.cl.mu.Lock()
	hs := append([]ControlEventHandler{}, c.cl.handlers...)
	c.cl.mu.Unlock()
	for _, h := range hs {
		_ = h.HandleControl(data)
	}
	return nil
}

type c27Conn struct {
	client *Client
	tr     *testTransport
	sink   chan []byte
	uni    bool
}

// what a scenario may refer to
type c27Env struct {
	conns  []*c27Conn // on the target node: c1 (u1, gold), c2 (u1, free), c3 (u2), c4 (anonymous)
	epoch  string     // epoch of channel "news" on the target node
	expire int64      // a fixed future instant (same for the local and the remote run)
}

type c27Opt struct {
	Setter string
	Field  string
}

const c27Chan = "news"

// the options of one call, built against an environment
type c27Call struct {
	Kind    int // 0 sub 1 unsub 2 disc 3 refresh
	User    string
	Setters []string
	Sub     func(e *c27Env) []SubscribeOption
	Unsub   func(e *c27Env) []UnsubscribeOption
	Disc    func(e *c27Env) []DisconnectOption
	Refresh func(e *c27Env) []RefreshOption
}

func c27Gold() *FilterNode { return &FilterNode{Op: "", Key: "tier", Cmp: "eq", Val: "gold"} }

// singleton scenarios: every With* setter with a non-default value plus the carried base options
// that make its effect observable. name -> (field, options)
type c27SubScenario struct {
	Field string
	Base  []string // other setters used to make the option observable
	Opts  func(e *c27Env) []SubscribeOption
	User  string
}

func c27SubScenarios() map[string]c27SubScenario {
	return map[string]c27SubScenario{
		"WithExpireAt":      {Field: "ExpireAt", Opts: func(e *c27Env) []SubscribeOption { return []SubscribeOption{WithExpireAt(e.expire)} }},
		"WithChannelInfo":   {Field: "ChannelInfo", Opts: func(e *c27Env) []SubscribeOption { return []SubscribeOption{WithChannelInfo([]byte(`{"k":1}`))} }},
		"WithEmitPresence":  {Field: "EmitPresence", Opts: func(e *c27Env) []SubscribeOption { return []SubscribeOption{WithEmitPresence(true)} }},
		"WithEmitJoinLeave": {Field: "EmitJoinLeave", Opts: func(e *c27Env) []SubscribeOption { return []SubscribeOption{WithEmitJoinLeave(true)} }},
		"WithPushJoinLeave": {Field: "PushJoinLeave", Opts: func(e *c27Env) []SubscribeOption { return []SubscribeOption{WithPushJoinLeave(true)} }},
		"WithPositioning":   {Field: "EnablePositioning", Opts: func(e *c27Env) []SubscribeOption { return []SubscribeOption{WithPositioning(true)} }},
		"WithRecovery":      {Field: "EnableRecovery", Opts: func(e *c27Env) []SubscribeOption { return []SubscribeOption{WithRecovery(true)} }},
		"WithRecoveryMode": {Field: "RecoveryMode", Base: []string{"WithRecovery", "WithRecoverSince"}, Opts: func(e *c27Env) []SubscribeOption {
			return []SubscribeOption{WithRecovery(true), WithRecoverSince(&StreamPosition{Offset: 0, Epoch: e.epoch}), WithRecoveryMode(RecoveryModeCache)}
		}},
		"WithSubscribeClient":  {Field: "clientID", Opts: func(e *c27Env) []SubscribeOption { return []SubscribeOption{WithSubscribeClient(e.conns[0].client.ID())} }},
		"WithSubscribeSession": {Field: "sessionID", Opts: func(e *c27Env) []SubscribeOption { return []SubscribeOption{WithSubscribeSession(e.conns[1].client.sessionID())} }},
		"WithSubscribeData":    {Field: "Data", Opts: func(e *c27Env) []SubscribeOption { return []SubscribeOption{WithSubscribeData([]byte(`{"d":2}`))} }},
		"WithRecoverSince": {Field: "RecoverSince", Base: []string{"WithRecovery"}, Opts: func(e *c27Env) []SubscribeOption {
			return []SubscribeOption{WithRecovery(true), WithRecoverSince(&StreamPosition{Offset: 1, Epoch: e.epoch})}
		}},
		// boundary values of RecoverSince: zero / non-zero offset x empty / valid epoch
		"WithRecoverSince#zero-offset": {Field: "RecoverSince", Base: []string{"WithRecovery"}, Opts: func(e *c27Env) []SubscribeOption {
			return []SubscribeOption{WithRecovery(true), WithRecoverSince(&StreamPosition{Offset: 0, Epoch: e.epoch})}
		}},
		"WithRecoverSince#zero-offset-no-epoch": {Field: "RecoverSince", Base: []string{"WithRecovery"}, Opts: func(e *c27Env) []SubscribeOption {
			return []SubscribeOption{WithRecovery(true), WithRecoverSince(&StreamPosition{})}
		}},
		"WithRecoverSince#no-epoch": {Field: "RecoverSince", Base: []string{"WithRecovery"}, Opts: func(e *c27Env) []SubscribeOption {
			return []SubscribeOption{WithRecovery(true), WithRecoverSince(&StreamPosition{Offset: 1})}
		}},
		"WithRecoverSince#top": {Field: "RecoverSince", Base: []string{"WithRecovery"}, Opts: func(e *c27Env) []SubscribeOption {
			return []SubscribeOption{WithRecovery(true), WithRecoverSince(&StreamPosition{Offset: 2, Epoch: e.epoch})}
		}},
		"WithRecoverSince#foreign-epoch": {Field: "RecoverSince", Base: []string{"WithRecovery"}, Opts: func(e *c27Env) []SubscribeOption {
			return []SubscribeOption{WithRecovery(true), WithRecoverSince(&StreamPosition{Offset: 0, Epoch: "gone"})}
		}},
		// zero values of the other options, next to a non-zero one so that the call does something
		"WithExpireAt#zero":        {Field: "ExpireAt", Base: []string{"WithChannelInfo"}, Opts: func(e *c27Env) []SubscribeOption { return []SubscribeOption{WithChannelInfo([]byte(`{"k":1}`)), WithExpireAt(0)} }},
		"WithChannelInfo#empty":    {Field: "ChannelInfo", Base: []string{"WithExpireAt"}, Opts: func(e *c27Env) []SubscribeOption { return []SubscribeOption{WithExpireAt(e.expire), WithChannelInfo([]byte{})} }},
		"WithSubscribeData#empty":  {Field: "Data", Base: []string{"WithExpireAt"}, Opts: func(e *c27Env) []SubscribeOption { return []SubscribeOption{WithExpireAt(e.expire), WithSubscribeData([]byte{})} }},
		"WithSubscribeSource#zero": {Field: "Source", Base: []string{"WithExpireAt"}, Opts: func(e *c27Env) []SubscribeOption { return []SubscribeOption{WithExpireAt(e.expire), WithSubscribeSource(0)} }},
		"WithPositioning#false":    {Field: "EnablePositioning", Base: []string{"WithRecovery"}, Opts: func(e *c27Env) []SubscribeOption { return []SubscribeOption{WithRecovery(true), WithPositioning(false)} }},
		"WithRecovery#false":       {Field: "EnableRecovery", Base: []string{"WithPositioning"}, Opts: func(e *c27Env) []SubscribeOption { return []SubscribeOption{WithPositioning(true), WithRecovery(false)} }},
		"WithEmitPresence#false":   {Field: "EmitPresence", Base: []string{"WithEmitJoinLeave"}, Opts: func(e *c27Env) []SubscribeOption { return []SubscribeOption{WithEmitJoinLeave(true), WithEmitPresence(false)} }},
		"WithSubscribeClient#empty": {Field: "clientID", Opts: func(e *c27Env) []SubscribeOption { return []SubscribeOption{WithSubscribeClient("")} }},
		"WithSubscribeSession#empty": {Field: "sessionID", Opts: func(e *c27Env) []SubscribeOption { return []SubscribeOption{WithSubscribeSession("")} }},
		"WithSubscribeAllUsers#false": {Field: "allUsers", Opts: func(e *c27Env) []SubscribeOption { return []SubscribeOption{WithSubscribeAllUsers(false)} }},
		"WithAutoCacheRecover": {Field: "AutoCacheRecover", Base: []string{"WithRecovery", "WithRecoveryMode"}, Opts: func(e *c27Env) []SubscribeOption {
			return []SubscribeOption{WithRecovery(true), WithRecoveryMode(RecoveryModeCache), WithAutoCacheRecover(true)}
		}},
		"WithSubscribeSource": {Field: "Source", Opts: func(e *c27Env) []SubscribeOption { return []SubscribeOption{WithSubscribeSource(7)} }},
		"WithSubscribeHistoryMetaTTL": {Field: "HistoryMetaTTL", Base: []string{"WithPositioning"}, Opts: func(e *c27Env) []SubscribeOption {
			return []SubscribeOption{WithPositioning(true), WithSubscribeHistoryMetaTTL(90 * time.Second)}
		}},
		"WithSubscribeLabelFilter": {Field: "labelFilter", Opts: func(e *c27Env) []SubscribeOption { return []SubscribeOption{WithSubscribeLabelFilter(c27Gold())} }},
		"WithSubscribeAllUsers":    {Field: "allUsers", User: "", Opts: func(e *c27Env) []SubscribeOption { return []SubscribeOption{WithSubscribeAllUsers(true)} }},
	}
}

type c27GenScenario struct {
	Field string
	User  string
	Opts  func(e *c27Env) any
}

func c27UnsubScenarios() map[string]c27GenScenario {
	return map[string]c27GenScenario{
		"WithUnsubscribeClient":  {Field: "clientID", Opts: func(e *c27Env) any { return WithUnsubscribeClient(e.conns[0].client.ID()) }},
		"WithUnsubscribeSession": {Field: "sessionID", Opts: func(e *c27Env) any { return WithUnsubscribeSession(e.conns[1].client.sessionID()) }},
		"WithCustomUnsubscribe": {Field: "unsubscribe", Opts: func(e *c27Env) any {
			return WithCustomUnsubscribe(Unsubscribe{Code: 2555, Reason: "custom reason"})
		}},
		"WithCustomUnsubscribe#empty-reason": {Field: "unsubscribe", Opts: func(e *c27Env) any { return WithCustomUnsubscribe(Unsubscribe{Code: 2556}) }},
		"WithCustomUnsubscribe#zero-code":    {Field: "unsubscribe", Opts: func(e *c27Env) any { return WithCustomUnsubscribe(Unsubscribe{Reason: "no code"}) }},
		"WithUnsubscribeClient#empty":        {Field: "clientID", Opts: func(e *c27Env) any { return WithUnsubscribeClient("") }},
		"WithUnsubscribeLabelFilter": {Field: "labelFilter", Opts: func(e *c27Env) any { return WithUnsubscribeLabelFilter(c27Gold()) }},
		"WithUnsubscribeAllUsers":    {Field: "allUsers", User: "", Opts: func(e *c27Env) any { return WithUnsubscribeAllUsers(true) }},
	}
}

func c27DiscScenarios() map[string]c27GenScenario {
	return map[string]c27GenScenario{
		"WithCustomDisconnect": {Field: "Disconnect", Opts: func(e *c27Env) any {
			return WithCustomDisconnect(Disconnect{Code: 4444, Reason: "bye bye"})
		}},
		"WithDisconnectClient":  {Field: "clientID", Opts: func(e *c27Env) any { return WithDisconnectClient(e.conns[0].client.ID()) }},
		"WithDisconnectSession": {Field: "sessionID", Opts: func(e *c27Env) any { return WithDisconnectSession(e.conns[1].client.sessionID()) }},
		"WithDisconnectClientWhitelist": {Field: "ClientWhitelist", Opts: func(e *c27Env) any {
			return WithDisconnectClientWhitelist([]string{e.conns[1].client.ID()})
		}},
		"WithCustomDisconnect#empty-reason": {Field: "Disconnect", Opts: func(e *c27Env) any { return WithCustomDisconnect(Disconnect{Code: 4445}) }},
		"WithCustomDisconnect#zero-code":    {Field: "Disconnect", Opts: func(e *c27Env) any { return WithCustomDisconnect(Disconnect{Reason: "no code"}) }},
		"WithDisconnectClientWhitelist#empty": {Field: "ClientWhitelist", Opts: func(e *c27Env) any { return WithDisconnectClientWhitelist([]string{}) }},
		"WithDisconnectLabelFilter": {Field: "labelFilter", Opts: func(e *c27Env) any { return WithDisconnectLabelFilter(c27Gold()) }},
		"WithDisconnectAllUsers":    {Field: "allUsers", User: "", Opts: func(e *c27Env) any { return WithDisconnectAllUsers(true) }},
	}
}

func c27RefreshScenarios() map[string]c27GenScenario {
	return map[string]c27GenScenario{
		"WithRefreshClient":      {Field: "clientID", Opts: func(e *c27Env) any { return WithRefreshClient(e.conns[0].client.ID()) }},
		"WithRefreshSession":     {Field: "sessionID", Opts: func(e *c27Env) any { return WithRefreshSession(e.conns[1].client.sessionID()) }},
		"WithRefreshExpired":     {Field: "Expired", Opts: func(e *c27Env) any { return WithRefreshExpired(true) }},
		"WithRefreshExpireAt":    {Field: "ExpireAt", Opts: func(e *c27Env) any { return WithRefreshExpireAt(e.expire) }},
		"WithRefreshInfo":        {Field: "Info", Opts: func(e *c27Env) any { return WithRefreshInfo([]byte(`{"i":3}`)) }},
		"WithRefreshExpireAt#zero": {Field: "ExpireAt", Opts: func(e *c27Env) any { return WithRefreshExpireAt(0) }},
		"WithRefreshExpireAt#past": {Field: "ExpireAt", Opts: func(e *c27Env) any { return WithRefreshExpireAt(1) }},
		"WithRefreshInfo#empty":    {Field: "Info", Opts: func(e *c27Env) any { return WithRefreshInfo([]byte{}) }},
		"WithRefreshExpired#false": {Field: "Expired", Opts: func(e *c27Env) any { return WithRefreshExpired(false) }},
		"WithRefreshLabelFilter": {Field: "labelFilter", Opts: func(e *c27Env) any { return WithRefreshLabelFilter(c27Gold()) }},
		"WithRefreshAllUsers":    {Field: "allUsers", User: "", Opts: func(e *c27Env) any { return WithRefreshAllUsers(true) }},
	}
}

func c27Drain(t *testing.T, c *c27Conn, marker string) []*protocol.Push {
	var out []*protocol.Push
	c.tr.mu.Lock()
	closed := c.tr.closed
	c.tr.mu.Unlock()
	if closed {
		for {
			select {
			case data := <-c.sink:
				out = append(out, c27Decode(t, c, data)...)
			default:
				return out
			}
		}
	}
	if err := c.client.Send([]byte(`"` + marker + `"`)); err != nil {
		return out
	}
	deadline := time.After(10 * time.Second)
	for {
		select {
		case data := <-c.sink:
			for _, p := range c27Decode(t, c, data) {
				if p.Message != nil && string(p.Message.Data) == `"`+marker+`"` {
					return out
				}
				out = append(out, p)
			}
		case <-c.tr.closeCh:
			for {
				select {
				case data := <-c.sink:
					out = append(out, c27Decode(t, c, data)...)
				default:
					return out
				}
			}
		case <-deadline:
			t.Fatalf("marker %s not seen", marker)
		}
	}
}

func c27Decode(t *testing.T, c *c27Conn, data []byte) []*protocol.Push {
	if c.uni {
		var p protocol.Push
		if err := json.Unmarshal(data, &p); err != nil {
			t.Fatalf("decode push %q: %v", data, err)
		}
		return []*protocol.Push{&p}
	}
	var out []*protocol.Push
	dec := protocol.NewJSONReplyDecoder(data)
	for {
		rep, err := dec.Decode()
		if rep != nil && rep.Push != nil {
			out = append(out, rep.Push)
		}
		if err != nil {
			if err != io.EOF {
				t.Fatalf("decode: %v", err)
			}
			return out
		}
	}
}

// one execution: fresh two-node cluster, connections on node `target` (0 = A local, 1 = B remote),
// call on A, canonical rendering of the effect.
func c27Run(t *testing.T, call c27Call, target int, expire int64) string {
	rec := &c27Rec{cidx: map[string]int{}}
	cluster := &c27Cluster{}
	labels := map[string]map[string]string{}
	var lmu sync.Mutex
	var nodes []*Node
	for k := 0; k < 2; k++ {
		n, err := New(Config{LogLevel: LogLevelNone})
		if err != nil {
			t.Fatal(err)
		}
		mb, err := NewMemoryBroker(n, MemoryBrokerConfig{})
		if err != nil {
			t.Fatal(err)
		}
		if k == target {
			n.SetBroker(&c27Broker{MemoryBroker: mb, rec: rec})
			n.SetPresenceManager(&c27Presence{rec: rec})
		} else {
			n.SetBroker(mb)
		}
		n.SetController(&c27Controller{cl: cluster})
		n.OnConnecting(func(_ context.Context, e ConnectEvent) (ConnectReply, error) {
			lmu.Lock()
			defer lmu.Unlock()
			return ConnectReply{Labels: labels[e.ClientID]}, nil
		})
		n.OnConnect(func(client *Client) {
			client.OnUnsubscribe(func(e UnsubscribeEvent) {
				rec.add(fmt.Sprintf("unsubscribed(c%d %s code=%d reason=%q)", rec.idx(client.ID()), e.Channel, e.Unsubscribe.Code, e.Unsubscribe.Reason))
			})
		})
		if err := n.Run(); err != nil {
			t.Fatal(err)
		}
		nodes = append(nodes, n)
	}
	defer func() {
		for _, n := range nodes {
			_ = n.Shutdown(context.Background())
		}
	}()
	T := nodes[target]
	specs := []struct {
		user string
		uni  bool
		lab  map[string]string
	}{{"u1", true, map[string]string{"tier": "gold"}}, {"u1", true, map[string]string{"tier": "free"}}, {"u2", false, nil}, {"", false, nil}}
	env := &c27Env{expire: expire}
	for i, sp := range specs {
		ctx, cancel := context.WithCancel(context.Background())
		tr := newTestTransport(cancel)
		tr.setProtocolVersion(ProtocolVersion2)
		tr.setUnidirectional(sp.uni)
		sink := make(chan []byte, 4096)
		tr.setSink(sink)
		client := newTestClientCustomTransport(t, ctx, T, tr, sp.user)
		lmu.Lock()
		labels[client.ID()] = sp.lab
		lmu.Unlock()
		rec.mu.Lock()
		rec.cidx[client.ID()] = i + 1
		rec.mu.Unlock()
		connectClientV2(t, client)
		env.conns = append(env.conns, &c27Conn{client: client, tr: tr, sink: sink, uni: sp.uni})
	}
	// channel with some history on the target node
	for k := 1; k <= 2; k++ {
		if _, err := T.Publish(c27Chan, []byte(fmt.Sprintf(`{"n":%d}`, k)), WithHistory(10, time.Minute)); err != nil {
			t.Fatal(err)
		}
	}
	hr, err := T.History(c27Chan, WithLimit(0))
	if err != nil {
		t.Fatal(err)
	}
	env.epoch = hr.Epoch
	if call.Kind == 1 { // unsubscribe needs subscriptions
		for _, c := range env.conns {
			if err := c.client.Subscribe(c27Chan); err != nil {
				t.Fatal(err)
			}
		}
	}
	for _, c := range env.conns {
		c27Drain(t, c, "pre")
	}
	rec.mu.Lock()
	rec.evs = nil
	rec.mu.Unlock()

	var cerr error
	switch call.Kind {
	case 0:
		cerr = nodes[0].Subscribe(call.User, c27Chan, call.Sub(env)...)
	case 1:
		cerr = nodes[0].Unsubscribe(call.User, c27Chan, call.Unsub(env)...)
	case 2:
		cerr = nodes[0].Disconnect(call.User, call.Disc(env)...)
	case 3:
		cerr = nodes[0].Refresh(call.User, call.Refresh(env)...)
	}
	if call.Kind == 2 || call.Kind == 3 {
		// Disconnect / Refresh(expired) close in their own goroutines: give them time to finish
		deadline := time.Now().Add(60 * time.Millisecond)
		for time.Now().Before(deadline) {
			all := true
			for _, c := range env.conns {
				c.tr.mu.Lock()
				if !c.tr.closed {
					all = false
				}
				c.tr.mu.Unlock()
			}
			if all {
				break
			}
			time.Sleep(2 * time.Millisecond)
		}
	}

	var sb strings.Builder
	fmt.Fprintf(&sb, "err=%v\n", cerr)
	for i, c := range env.conns {
		fmt.Fprintf(&sb, "c%d:", i+1)
		c.tr.mu.Lock()
		closed, d := c.tr.closed, c.tr.disconnect
		c.tr.mu.Unlock()
		if closed {
			fmt.Fprintf(&sb, " closed(code=%d reason=%q)", d.Code, d.Reason)
		}
		c.client.mu.RLock()
		ctx, ok := c.client.channels[c27Chan]
		exp, info := c.client.exp, string(c.client.info)
		c.client.mu.RUnlock()
		if ok {
			fmt.Fprintf(&sb, " sub(flags=%d exp=%d info=%q source=%d metattl=%d offset=%d epochok=%v)", ctx.flags, ctx.expireAt,
				string(ctx.info), ctx.Source, ctx.metaTTLSeconds, ctx.streamPosition.Offset, ctx.streamPosition.Epoch == env.epoch || ctx.streamPosition.Epoch == "")
		}
		fmt.Fprintf(&sb, " exp=%d info=%q", exp, info)
		for _, p := range c27Drain(t, c, "post") {
			switch {
			case p.Subscribe != nil:
				s := p.Subscribe
				fmt.Fprintf(&sb, " push.subscribe(%s recoverable=%v positioned=%v offset=%d epochok=%v data=%q)",
					p.Channel, s.Recoverable, s.Positioned, s.Offset, s.Epoch == env.epoch || s.Epoch == "", string(s.Data))
			case p.Unsubscribe != nil:
				fmt.Fprintf(&sb, " push.unsubscribe(%s code=%d reason=%q)", p.Channel, p.Unsubscribe.Code, p.Unsubscribe.Reason)
			case p.Refresh != nil:
				fmt.Fprintf(&sb, " push.refresh(expires=%v ttl>0=%v)", p.Refresh.Expires, p.Refresh.Ttl > 0)
			case p.Disconnect != nil:
				fmt.Fprintf(&sb, " push.disconnect(code=%d reason=%q)", p.Disconnect.Code, p.Disconnect.Reason)
			case p.Pub != nil:
				fmt.Fprintf(&sb, " push.pub(%s offset=%d)", p.Channel, p.Pub.Offset)
			case p.Join != nil:
				fmt.Fprintf(&sb, " push.join(%s)", p.Channel)
			}
		}
		sb.WriteString("\n")
	}
	rec.mu.Lock()
	evs := append([]string{}, rec.evs...)
	rec.mu.Unlock()
	sort.Strings(evs) // connections are handled by concurrent goroutines
	sb.WriteString("node: " + strings.Join(evs, " ") + "\n")
	return sb.String()
}

type c27Case struct {
	Kind    int
	Setters []string // under test (for the key)
	All     []string // all setters used (under test + base)
	Fields  map[string]string
	Call    c27Call
}

func c27Singleton(kind int, name string) (c27Case, bool) {
	switch kind {
	case 0:
		sc, ok := c27SubScenarios()[name]
		if !ok {
			return c27Case{}, false
		}
		user := "u1"
		if c27Base(name) == "WithSubscribeAllUsers" {
			user = ""
		}
		all := c27Dedupe(append(append([]string{}, sc.Base...), name))
		return c27Case{Kind: 0, Setters: []string{name}, All: all, Fields: map[string]string{name: sc.Field},
			Call: c27Call{Kind: 0, User: user, Sub: sc.Opts}}, true
	default:
		var m map[string]c27GenScenario
		switch kind {
		case 1:
			m = c27UnsubScenarios()
		case 2:
			m = c27DiscScenarios()
		default:
			m = c27RefreshScenarios()
		}
		sc, ok := m[name]
		if !ok {
			return c27Case{}, false
		}
		user := "u1"
		if strings.HasSuffix(c27Base(name), "AllUsers") {
			user = ""
		}
		cs := c27Case{Kind: kind, Setters: []string{name}, All: []string{c27Base(name)}, Fields: map[string]string{name: sc.Field}}
		cs.Call = c27Combine(kind, user, []c27GenScenario{sc})
		return cs, true
	}
}

func c27Combine(kind int, user string, scs []c27GenScenario) c27Call {
	call := c27Call{Kind: kind, User: user}
	switch kind {
	case 1:
		call.Unsub = func(e *c27Env) []UnsubscribeOption {
			var out []UnsubscribeOption
			for _, s := range scs {
				out = append(out, s.Opts(e).(UnsubscribeOption))
			}
			return out
		}
	case 2:
		call.Disc = func(e *c27Env) []DisconnectOption {
			var out []DisconnectOption
			for _, s := range scs {
				out = append(out, s.Opts(e).(DisconnectOption))
			}
			return out
		}
	case 3:
		call.Refresh = func(e *c27Env) []RefreshOption {
			var out []RefreshOption
			for _, s := range scs {
				out = append(out, s.Opts(e).(RefreshOption))
			}
			return out
		}
	}
	return call
}

func c27Names(kind int) []string {
	var names []string
	switch kind {
	case 0:
		for k := range c27SubScenarios() {
			names = append(names, k)
		}
	case 1:
		for k := range c27UnsubScenarios() {
			names = append(names, k)
		}
	case 2:
		for k := range c27DiscScenarios() {
			names = append(names, k)
		}
	default:
		for k := range c27RefreshScenarios() {
			names = append(names, k)
		}
	}
	sort.Strings(names)
	return names
}

func c27Combo(r *rand.Rand, kind int) c27Case {
	names := c27Names(kind)
	r.Shuffle(len(names), func(i, j int) { names[i], names[j] = names[j], names[i] })
	k := 2 + r.Intn(3)
	if k > len(names) {
		k = len(names)
	}
	pick := names[:k]
	sort.Strings(pick)
	cs := c27Case{Kind: kind, Setters: pick, Fields: map[string]string{}}
	user := "u1"
	for _, n := range pick {
		if strings.HasSuffix(c27Base(n), "AllUsers") {
			user = ""
		}
	}
	if kind == 0 {
		scs := c27SubScenarios()
		set := map[string]bool{}
		for _, n := range pick {
			cs.Fields[n] = scs[n].Field
			set[n] = true
			for _, b := range scs[n].Base {
				set[b] = true
			}
		}
		for n := range set {
			cs.All = append(cs.All, n)
		}
		cs.All = c27Dedupe(cs.All)
		cs.Call = c27Call{Kind: 0, User: user, Sub: func(e *c27Env) []SubscribeOption {
			var out []SubscribeOption
			for _, n := range pick {
				out = append(out, scs[n].Opts(e)...)
			}
			return out
		}}
		return cs
	}
	var m map[string]c27GenScenario
	switch kind {
	case 1:
		m = c27UnsubScenarios()
	case 2:
		m = c27DiscScenarios()
	default:
		m = c27RefreshScenarios()
	}
	var scs []c27GenScenario
	for _, n := range pick {
		cs.Fields[n] = m[n].Field
		scs = append(scs, m[n])
	}
	cs.All = c27Dedupe(pick)
	cs.Call = c27Combine(kind, user, scs)
	return cs
}

func c27Str(s string) string { return `"` + c27Base(s) + `"%string` }

// scenario names may carry a "#variant" suffix: the setter is the part before it
func c27Base(s string) string {
	if i := strings.Index(s, "#"); i >= 0 {
		return s[:i]
	}
	return s
}

func c27Dedupe(names []string) []string {
	seen := map[string]bool{}
	var out []string
	for _, n := range names {
		if b := c27Base(n); !seen[b] {
			seen[b] = true
			out = append(out, b)
		}
	}
	sort.Strings(out)
	return out
}

func TestVerifC27(t *testing.T) {
	w := verifOpen(t, "C27")
	defer w.Close()
	type fixed struct {
		kind int
		name string // "" = no options, "#inventory" = inventory case
	}
	var corpus []fixed
	for kind := 0; kind < 4; kind++ {
		corpus = append(corpus, fixed{kind, "#inventory"}, fixed{kind, ""})
		for _, n := range c27Names(kind) {
			corpus = append(corpus, fixed{kind, n})
		}
	}
	expire := time.Now().Unix() + 100000
	for i := 0; i < w.N; i++ {
		if !w.Want(i) {
			continue
		}
		r := w.Rand(i)
		var cs c27Case
		class := ""
		if i < len(corpus) {
			f := corpus[i]
			switch f.name {
			case "#inventory":
				names := c27Dedupe(c27Names(f.kind))
				xs := make([]string, len(names))
				for k, n := range names {
					xs[k] = c27Str(n)
				}
				term := vApp("mkCase", vN(uint64(f.kind)), vList(xs), "true", "false", "[]", "[]")
				w.Case(i, term, map[string]any{"call": f.kind, "inventory": names, "key": ""}, "inventory", false)
				continue
			case "":
				cs = c27Case{Kind: f.kind, Setters: []string{}, All: []string{}, Fields: map[string]string{}}
				cs.Call = c27Call{Kind: f.kind, User: "u1",
					Sub:     func(*c27Env) []SubscribeOption { return nil },
					Unsub:   func(*c27Env) []UnsubscribeOption { return nil },
					Disc:    func(*c27Env) []DisconnectOption { return nil },
					Refresh: func(*c27Env) []RefreshOption { return nil }}
				class = "no-options"
			default:
				cs, _ = c27Singleton(f.kind, f.name)
				class = "singleton"
			}
		} else {
			cs = c27Combo(r, r.Intn(4))
			class = "combination"
		}
		local := c27Run(t, cs.Call, 0, expire)
		remote := c27Run(t, cs.Call, 1, expire)
		key := ""
		if local != remote {
			// attribute the difference to the option(s) that differ on their own
			var lostFields []string
			if len(cs.Setters) == 1 {
				lostFields = []string{cs.Fields[cs.Setters[0]]}
			} else {
				for _, n := range cs.Setters {
					one, ok := c27Singleton(cs.Kind, n)
					if ok && c27Run(t, one.Call, 0, expire) != c27Run(t, one.Call, 1, expire) {
						lostFields = append(lostFields, cs.Fields[n])
					}
				}
			}
			sort.Strings(lostFields)
			if len(lostFields) > 0 {
				key = lostFields[0]
			} else {
				key = "combination:" + strings.Join(cs.Setters, "+")
			}
		}
		xs := make([]string, len(cs.All))
		for k, n := range cs.All {
			xs[k] = c27Str(n)
		}
		class = []string{"subscribe", "unsubscribe", "disconnect", "refresh"}[cs.Kind] + "/" + class
		term := vApp("mkCase", vN(uint64(cs.Kind)), vList(xs), "false", vBool(strings.HasSuffix(class, "/singleton")), vStr(local), vStr(remote))
		w.Case(i, term, map[string]any{"call": cs.Kind, "setters": cs.Setters, "all_setters": cs.All, "local": local, "remote": remote,
			"key": key}, class, len(cs.All) > 0)
	}
}
