package centrifuge

import (
	"bufio"
	"bytes"
	"context"
	"encoding/binary"
	"fmt"
	"io"
	"math/rand"
	"net"
	"net/http"
	"net/http/httptest"
	"net/url"
	"strconv"
	"strings"
	"sync"
	"testing"
	"time"

	"github.com/centrifugal/protocol"
)

// C32 driver: the real SSEHandler / HTTPStreamHandler behind an httptest server; one long-lived
// connection per framing (SSE, JSON stream, Protobuf stream).  Per case a list of payloads is
// published to the channel of one connection; the case records the slice of the response body
// produced for them and the encoded messages a second client of the same protocol (the repo's
// recording test transport) received for the same publications.

type c32Stream struct {
	mu   sync.Mutex
	buf  []byte
	ends []int // end offsets (in buf) of the HTTP/1.1 chunks = one per flush of the handler
	err  error
	wake chan struct{}
	pos  int // start of the not yet consumed part of buf
	conn net.Conn
}

// c32Open speaks HTTP/1.1 itself so that the chunk boundaries of the response (one chunk per
// Flush of the handler, i.e. per batch of messages) stay visible.
func c32Open(t *testing.T, addr, method, target string, body []byte, ctype string) *c32Stream {
	conn, err := net.Dial("tcp", addr)
	if err != nil {
		t.Fatal(err)
	}
	var req bytes.Buffer
	fmt.Fprintf(&req, "%s %s HTTP/1.1\r\nHost: c32\r\n", method, target)
	if ctype != "" {
		fmt.Fprintf(&req, "Content-Type: %s\r\n", ctype)
	}
	if method == http.MethodPost {
		fmt.Fprintf(&req, "Content-Length: %d\r\n", len(body))
	}
	req.WriteString("\r\n")
	req.Write(body)
	if _, err := conn.Write(req.Bytes()); err != nil {
		t.Fatal(err)
	}
	br := bufio.NewReader(conn)
	status, err := br.ReadString('\n')
	if err != nil || !strings.Contains(status, " 200 ") {
		t.Fatalf("%s %s: status %q err %v", method, target, status, err)
	}
	chunked := false
	for {
		line, err := br.ReadString('\n')
		if err != nil {
			t.Fatal(err)
		}
		if strings.TrimSpace(line) == "" {
			break
		}
		if strings.HasPrefix(strings.ToLower(line), "transfer-encoding:") && strings.Contains(strings.ToLower(line), "chunked") {
			chunked = true
		}
	}
	if !chunked {
		t.Fatalf("%s %s: response is not chunked", method, target)
	}
	s := &c32Stream{wake: make(chan struct{}, 1), conn: conn}
	go func() {
		defer conn.Close()
		for {
			var data []byte
			line, err := br.ReadString('\n')
			if err == nil {
				var size int64
				size, err = strconv.ParseInt(strings.TrimSpace(line), 16, 64)
				if err == nil && size == 0 {
					err = io.EOF
				}
				if err == nil {
					data = make([]byte, size)
					_, err = io.ReadFull(br, data)
					if err == nil {
						_, err = br.Discard(2)
					}
				}
			}
			s.mu.Lock()
			if len(data) > 0 {
				s.buf = append(s.buf, data...)
				s.ends = append(s.ends, len(s.buf))
			}
			if err != nil {
				s.err = err
			}
			s.mu.Unlock()
			select {
			case s.wake <- struct{}{}:
			default:
			}
			if err != nil {
				return
			}
		}
	}()
	return s
}

// take waits until end(unconsumed) >= 0 and returns unconsumed[:end] (consuming it) together with
// the pieces the HTTP chunk boundaries cut it into.
func (s *c32Stream) take(end func([]byte) int) ([]byte, [][]byte, error) {
	deadline := time.After(5 * time.Second)
	for {
		s.mu.Lock()
		rest := s.buf[s.pos:]
		if k := end(rest); k >= 0 {
			out := append([]byte{}, rest[:k]...)
			var pieces [][]byte
			from := s.pos
			for _, e := range s.ends {
				if e <= s.pos {
					continue
				}
				if e >= s.pos+k {
					break
				}
				pieces = append(pieces, append([]byte{}, s.buf[from:e]...))
				from = e
			}
			pieces = append(pieces, append([]byte{}, s.buf[from:s.pos+k]...))
			s.pos += k
			s.mu.Unlock()
			return out, pieces, nil
		}
		err := s.err
		s.mu.Unlock()
		if err != nil {
			return nil, nil, err
		}
		select {
		case <-s.wake:
		case <-deadline:
			return nil, nil, fmt.Errorf("timeout waiting for response body")
		}
	}
}

const (
	c32ChSSE    = "c32:sse"
	c32ChSSEGet = "c32:sseget"
	c32ChND     = "c32:nd"
	c32ChPB     = "c32:pb"
)

func c32JSONValue(r *rand.Rand, depth int) string {
	ws := func() string {
		switch r.Intn(9) {
		case 0:
			return " "
		case 1:
			return "\n"
		case 2:
			return "\r"
		case 3:
			return "\r\n"
		case 4:
			return "\t"
		case 5:
			return " \r \n\t"
		default:
			return ""
		}
	}
	str := func() string {
		parts := []string{"a", "data: x", "x:y", "\\n", "\\r", "\\\"", "\\\\", "é", "\\u000d", " ", "event: e", "__", "}", "{", "[", ",", "\\t", ""}
		n := r.Intn(4)
		var sb strings.Builder
		sb.WriteByte('"')
		for i := 0; i < n; i++ {
			sb.WriteString(parts[r.Intn(len(parts))])
		}
		sb.WriteByte('"')
		return sb.String()
	}
	if depth <= 0 || r.Intn(3) == 0 {
		switch r.Intn(5) {
		case 0:
			return str()
		case 1:
			return fmt.Sprintf("%d", r.Intn(2000)-1000)
		case 2:
			return []string{"true", "false", "null"}[r.Intn(3)]
		case 3:
			return "1.5e3"
		default:
			return str()
		}
	}
	var sb strings.Builder
	if r.Intn(2) == 0 {
		sb.WriteString("{" + ws())
		n := r.Intn(4)
		for i := 0; i < n; i++ {
			if i > 0 {
				sb.WriteString("," + ws())
			}
			sb.WriteString(str() + ws() + ":" + ws() + c32JSONValue(r, depth-1) + ws())
		}
		sb.WriteString("}")
	} else {
		sb.WriteString("[" + ws())
		n := r.Intn(4)
		for i := 0; i < n; i++ {
			if i > 0 {
				sb.WriteString("," + ws())
			}
			sb.WriteString(c32JSONValue(r, depth-1) + ws())
		}
		sb.WriteString("]")
	}
	return sb.String()
}

func c32JSONPayload(r *rand.Rand) string {
	lead := []string{"", "", "", " ", "\r", "\n", "\r\n", "\t"}[r.Intn(8)]
	trail := []string{"", "", "", " ", "\r", "\n", "\r\n"}[r.Intn(7)]
	return lead + c32JSONValue(r, 1+r.Intn(3)) + trail
}

func c32BinPayload(r *rand.Rand) []byte {
	n := r.Intn(20)
	switch r.Intn(8) {
	case 0:
		n = 0
	case 1:
		n = 120 + r.Intn(20) // around the 1-byte / 2-byte varint boundary of the whole message
	case 2:
		n = 200 + r.Intn(100)
	}
	b := make([]byte, n)
	for i := range b {
		switch r.Intn(4) {
		case 0:
			b[i] = []byte{0x0a, 0x0d, 0x00, 0x80, 0xff, 0x7f, ':', ' '}[r.Intn(8)]
		default:
			b[i] = byte(r.Intn(256))
		}
	}
	return b
}

func c32List(ms [][]byte) string {
	xs := make([]string, len(ms))
	for i, m := range ms {
		xs[i] = vBytes(m)
	}
	return vList(xs)
}

func TestVerifC32(t *testing.T) {
	w := verifOpen(t, "C32")
	defer w.Close()

	n, err := New(Config{LogLevel: LogLevelNone})
	if err != nil {
		t.Fatal(err)
	}
	n.OnConnecting(func(ctx context.Context, e ConnectEvent) (ConnectReply, error) {
		subs := map[string]SubscribeOptions{}
		switch e.Name { // the driver's connections name themselves in the connect command
		case "sse":
			subs[c32ChSSE] = SubscribeOptions{}
		case "sseget":
			subs[c32ChSSEGet] = SubscribeOptions{}
		case "nd":
			subs[c32ChND] = SubscribeOptions{}
		case "pb":
			subs[c32ChPB] = SubscribeOptions{}
		default: // the recording clients
			if e.Transport.Protocol() == ProtocolTypeProtobuf {
				subs[c32ChPB] = SubscribeOptions{}
			} else {
				subs[c32ChSSE] = SubscribeOptions{}
				subs[c32ChSSEGet] = SubscribeOptions{}
				subs[c32ChND] = SubscribeOptions{}
			}
		}
		return ConnectReply{Credentials: &Credentials{UserID: "u"}, Subscriptions: subs}, nil
	})
	if err := n.Run(); err != nil {
		t.Fatal(err)
	}
	defer func() { _ = n.Shutdown(context.Background()) }()

	noPing := PingPongConfig{PingInterval: -1, PongTimeout: -1}
	mux := http.NewServeMux()
	mux.Handle("/sse", NewSSEHandler(n, SSEConfig{PingPongConfig: noPing}))
	mux.Handle("/hs", NewHTTPStreamHandler(n, HTTPStreamConfig{PingPongConfig: noPing}))
	server := httptest.NewServer(mux)
	defer server.Close()

	addr := server.Listener.Addr().String()
	jsonConnect := func(name string) []byte { return []byte(`{"id":1,"connect":{"name":"` + name + `"}}`) }
	pbCmd, _ := (&protocol.Command{Id: 1, Connect: &protocol.ConnectRequest{Name: "pb"}}).MarshalVT()
	pbConnect := append(binary.AppendUvarint(nil, uint64(len(pbCmd))), pbCmd...)

	sse := c32Open(t, addr, http.MethodPost, "/sse", jsonConnect("sse"), "")
	// the EventSource way: GET with the connect command in the cf_connect query parameter
	sseGet := c32Open(t, addr, http.MethodGet, "/sse?"+connectUrlParam+"="+url.QueryEscape(string(jsonConnect("sseget"))), nil, "")
	nd := c32Open(t, addr, http.MethodPost, "/hs", jsonConnect("nd"), "")
	pb := c32Open(t, addr, http.MethodPost, "/hs", pbConnect, "application/octet-stream")
	defer func() { // runs before server.Close, which waits for the connections to end
		for _, st := range []*c32Stream{sse, sseGet, nd, pb} {
			_ = st.conn.Close()
		}
	}()

	// end-of-chunk detectors
	sseEnd := func(marker []byte) func([]byte) int {
		return func(b []byte) int {
			k := bytes.Index(b, marker)
			if k < 0 {
				return -1
			}
			e := bytes.Index(b[k:], []byte("\n\n"))
			if e < 0 {
				return -1
			}
			return k + e + 2
		}
	}
	ndEnd := func(marker []byte) func([]byte) int {
		return func(b []byte) int {
			k := bytes.Index(b, marker)
			if k < 0 {
				return -1
			}
			e := bytes.IndexByte(b[k:], '\n')
			if e < 0 {
				return -1
			}
			return k + e + 1
		}
	}
	pbEnd := func(marker []byte) func([]byte) int { // end of the length-delimited frame that contains the marker
		return func(b []byte) int {
			pos := 0
			for pos < len(b) {
				l, k := binary.Uvarint(b[pos:])
				if k <= 0 || pos+k+int(l) > len(b) {
					return -1
				}
				frame := b[pos+k : pos+k+int(l)]
				pos += k + int(l)
				if bytes.Contains(frame, marker) {
					return pos
				}
			}
			return -1
		}
	}

	// connect replies
	ssePre, _, err := sse.take(sseEnd([]byte(`"connect"`)))
	if err != nil {
		t.Fatalf("sse connect: %v", err)
	}
	sseGetPre, _, err := sseGet.take(sseEnd([]byte(`"connect"`)))
	if err != nil {
		t.Fatalf("sse GET connect: %v", err)
	}
	if _, _, err := nd.take(ndEnd([]byte(`"connect"`))); err != nil {
		t.Fatalf("http stream json connect: %v", err)
	}
	if _, _, err := pb.take(pbEnd(nil)); err != nil { // first frame = connect reply
		t.Fatalf("http stream protobuf connect: %v", err)
	}

	// recording clients
	jsonSink := make(chan []byte, 4096)
	refJSON := newTestClientV2(t, n, "ref")
	refJSON.transport.(*testTransport).setSink(jsonSink)
	refJSON.transport.(*testTransport).setPing(-1, -1) // no server pings: they would interleave with the recorded pushes
	connectClientV2(t, refJSON)
	pbSink := make(chan []byte, 4096)
	refPB := newTestClientV2Protocol(t, n, "refpb", ProtocolTypeProtobuf)
	refPB.transport.(*testTransport).setSink(pbSink)
	refPB.transport.(*testTransport).setPing(-1, -1)
	connectClientV2(t, refPB)
	drain := func(ch chan []byte) {
		for {
			select {
			case <-ch:
			default:
				return
			}
		}
	}
	collect := func(ch chan []byte, k int) ([][]byte, error) {
		out := make([][]byte, 0, k)
		deadline := time.After(5 * time.Second)
		for len(out) < k {
			select {
			case m := <-ch:
				out = append(out, append([]byte{}, m...))
			case <-deadline:
				return nil, fmt.Errorf("timeout waiting for the recording client (%d of %d)", len(out), k)
			}
		}
		return out, nil
	}
	time.Sleep(20 * time.Millisecond)
	drain(jsonSink)
	drain(pbSink)

	corpus := [][]string{
		{`{"a":1}`},
		{"{\"a\":\r1}"},                  // raw CR between tokens (finding F8)
		{"{\"a\":\n1}"},                  // raw LF between tokens
		{"{\"a\":\r\n1}"},                // CRLF
		{"\r{\"a\":1}\r"},                // leading / trailing CR
		{"[1,\r2,\r3]", `{"b":2}`},       // batch after a CR payload
		{`{"s":"x\ny\rz"}`},              // escaped newlines inside a string
		{`{"s":"data: x"}`, `"event: y"`, `":comment"`},
		{` {"a" : 1 } `, `{ }`, `{}`},    // spaces
		{`{"a":"\\"}`, `{"a":"\\\""}`},   // escaped backslash / quote before the closing quote
		{"{\"a\":\t1}", `[]`, `0`, `""`, `null`},
		{},
	}

	for i := 0; i < w.N; i++ {
		if !w.Want(i) {
			continue
		}
		r := w.Rand(i)
		if i < 2 {
			pre := [][]byte{ssePre, sseGetPre}[i]
			w.Case(i, vApp("CSsePre", vBytes(pre)), map[string]any{"kind": []string{"sse-preamble", "sse-get-preamble"}[i], "body": string(pre)}, "sse-preamble", true)
			continue
		}
		kind := []string{"sse", "sseget", "nd", "pb"}[i%4]
		var payloads [][]byte
		if j := (i - 2) / 4; j < len(corpus) && kind != "pb" {
			for _, p := range corpus[j] {
				payloads = append(payloads, []byte(p))
			}
		} else {
			k := r.Intn(5)
			if r.Intn(10) == 0 {
				k = 5 + r.Intn(10)
			}
			for q := 0; q < k; q++ {
				if kind == "pb" {
					payloads = append(payloads, c32BinPayload(r))
				} else {
					payloads = append(payloads, []byte(c32JSONPayload(r)))
				}
			}
		}
		marker := []byte(fmt.Sprintf("c32end%dz", i))
		var endPayload []byte
		if kind == "pb" {
			endPayload = append([]byte{0}, marker...)
		} else {
			endPayload = []byte(fmt.Sprintf(`{"end":"%s"}`, marker))
		}
		ch := map[string]string{"sse": c32ChSSE, "sseget": c32ChSSEGet, "nd": c32ChND, "pb": c32ChPB}[kind]
		all := append(append([][]byte{}, payloads...), endPayload)
		burst := r.Intn(2) == 0
		for _, p := range all {
			if _, err := n.Publish(ch, p); err != nil {
				t.Fatalf("case %d: publish: %v", i, err)
			}
			if !burst {
				time.Sleep(200 * time.Microsecond) // let the writer flush message by message
			}
		}
		var body []byte
		var pieces [][]byte
		var ref [][]byte
		switch kind {
		case "sse":
			body, pieces, err = sse.take(sseEnd(marker))
			if err == nil {
				ref, err = collect(jsonSink, len(all))
			}
		case "sseget":
			body, pieces, err = sseGet.take(sseEnd(marker))
			if err == nil {
				ref, err = collect(jsonSink, len(all))
			}
		case "nd":
			body, pieces, err = nd.take(ndEnd(marker))
			if err == nil {
				ref, err = collect(jsonSink, len(all))
			}
		default:
			body, pieces, err = pb.take(pbEnd(marker))
			if err == nil {
				ref, err = collect(pbSink, len(all))
			}
		}
		if err != nil {
			t.Fatalf("case %d (%s): %v", i, kind, err)
		}
		// how many complete messages did one write (= one HTTP chunk) carry at most?
		maxPerWrite := 0
		for _, pc := range pieces {
			k := 0
			switch kind {
			case "sse", "sseget":
				k = bytes.Count(pc, []byte("\n\n"))
			case "nd":
				k = bytes.Count(pc, []byte("\n"))
			default:
				for pos := 0; pos < len(pc); {
					l, m := binary.Uvarint(pc[pos:])
					if m <= 0 || pos+m+int(l) > len(pc) {
						break
					}
					pos += m + int(l)
					k++
				}
			}
			if k > maxPerWrite {
				maxPerWrite = k
			}
		}
		if prev, _ := w.Extra["max_messages_per_write_"+kind].(int); maxPerWrite > prev {
			w.Extra["max_messages_per_write_"+kind] = maxPerWrite
		}
		hasCR, hasLF := false, false
		for _, p := range payloads {
			if bytes.IndexByte(p, '\r') >= 0 {
				hasCR = true
			}
			if bytes.IndexByte(p, '\n') >= 0 {
				hasLF = true
			}
		}
		ctor := map[string]string{"sse": "CSse", "sseget": "CSse", "nd": "CNd", "pb": "CPb"}[kind]
		class := kind
		if maxPerWrite >= 2 {
			class += "/multi-write"
		}
		if kind != "pb" {
			if hasCR {
				class += "/cr"
			}
			if hasLF {
				class += "/lf"
			}
		}
		strs := make([]string, len(payloads))
		for q, p := range payloads {
			strs[q] = string(p)
		}
		refs := make([]string, len(ref))
		for q, p := range ref {
			refs[q] = string(p)
		}
		js := map[string]any{"kind": kind, "messages_per_write_max": maxPerWrite, "writes": len(pieces), "payloads": strs, "payload_bytes": payloads, "body": string(body), "body_bytes": body, "queued": refs}
		if (kind == "sse" || kind == "sseget") && hasCR {
			js["key"] = "sse-raw-cr-in-json-whitespace" // canonical key of finding F8 (props finding_key)
		}
		w.Case(i, vApp(ctor, vBytes(body), c32List(ref)), js, class, len(payloads) > 0)
	}
}
