package centrifuge

import (
	"bytes"
	"context"
	"encoding/binary"
	"fmt"
	"io"
	"math/rand"
	"net/http"
	"net/http/httptest"
	"strings"
	"sync"
	"testing"
	"time"

	"github.com/centrifugal/protocol"
)

// C32 driver: the real SSEHandler / HTTPStreamHandler behind an httptest server; one long-lived
// connection per framing (SSE, JSON stream, Protobuf stream).  Per case a list of payloads is
// published to the channel of one connection; the case records the slice of the response body
// produced for them and the encoded messages a second client of the same protocol (the repo's
// recording test transport) received for the same publications.

type c32Stream struct {
	mu   sync.Mutex
	buf  []byte
	err  error
	wake chan struct{}
	pos  int // start of the not yet consumed part of buf
}

func c32NewStream(body io.Reader) *c32Stream {
	s := &c32Stream{wake: make(chan struct{}, 1)}
	go func() {
		tmp := make([]byte, 1<<16)
		for {
			n, err := body.Read(tmp)
			s.mu.Lock()
			s.buf = append(s.buf, tmp[:n]...)
			if err != nil {
				s.err = err
			}
			s.mu.Unlock()
			select {
			case s.wake <- struct{}{}:
			default:
			}
			if err != nil {
				return
			}
		}
	}()
	return s
}

// take waits until end(unconsumed) >= 0 and returns unconsumed[:end], consuming it.
func (s *c32Stream) take(end func([]byte) int) ([]byte, error) {
	deadline := time.After(5 * time.Second)
	for {
		s.mu.Lock()
		rest := s.buf[s.pos:]
		if k := end(rest); k >= 0 {
			out := append([]byte{}, rest[:k]...)
			s.pos += k
			s.mu.Unlock()
			return out, nil
		}
		err := s.err
		s.mu.Unlock()
		if err != nil {
			return nil, err
		}
		select {
		case <-s.wake:
		case <-deadline:
			return nil, fmt.Errorf("timeout waiting for response body")
		}
	}
}

const (
	c32ChSSE = "c32:sse"
	c32ChND  = "c32:nd"
	c32ChPB  = "c32:pb"
)

func c32JSONValue(r *rand.Rand, depth int) string {
	ws := func() string {
		switch r.Intn(9) {
		case 0:
			return " "
		case 1:
			return "\n"
		case 2:
			return "\r"
		case 3:
			return "\r\n"
		case 4:
			return "\t"
		case 5:
			return " \r \n\t"
		default:
			return ""
		}
	}
	str := func() string {
		parts := []string{"a", "data: x", "x:y", "\\n", "\\r", "\\\"", "\\\\", "é", "\\u000d", " ", "event: e", "__", "}", "{", "[", ",", "\\t", ""}
		n := r.Intn(4)
		var sb strings.Builder
		sb.WriteByte('"')
		for i := 0; i < n; i++ {
			sb.WriteString(parts[r.Intn(len(parts))])
		}
		sb.WriteByte('"')
		return sb.String()
	}
	if depth <= 0 || r.Intn(3) == 0 {
		switch r.Intn(5) {
		case 0:
			return str()
		case 1:
			return fmt.Sprintf("%d", r.Intn(2000)-1000)
		case 2:
			return []string{"true", "false", "null"}[r.Intn(3)]
		case 3:
			return "1.5e3"
		default:
			return str()
		}
	}
	var sb strings.Builder
	if r.Intn(2) == 0 {
		sb.WriteString("{" + ws())
		n := r.Intn(4)
		for i := 0; i < n; i++ {
			if i > 0 {
				sb.WriteString("," + ws())
			}
			sb.WriteString(str() + ws() + ":" + ws() + c32JSONValue(r, depth-1) + ws())
		}
		sb.WriteString("}")
	} else {
		sb.WriteString("[" + ws())
		n := r.Intn(4)
		for i := 0; i < n; i++ {
			if i > 0 {
				sb.WriteString("," + ws())
			}
			sb.WriteString(c32JSONValue(r, depth-1) + ws())
		}
		sb.WriteString("]")
	}
	return sb.String()
}

func c32JSONPayload(r *rand.Rand) string {
	lead := []string{"", "", "", " ", "\r", "\n", "\r\n", "\t"}[r.Intn(8)]
	trail := []string{"", "", "", " ", "\r", "\n", "\r\n"}[r.Intn(7)]
	return lead + c32JSONValue(r, 1+r.Intn(3)) + trail
}

func c32BinPayload(r *rand.Rand) []byte {
	n := r.Intn(20)
	switch r.Intn(8) {
	case 0:
		n = 0
	case 1:
		n = 120 + r.Intn(20) // around the 1-byte / 2-byte varint boundary of the whole message
	case 2:
		n = 200 + r.Intn(100)
	}
	b := make([]byte, n)
	for i := range b {
		switch r.Intn(4) {
		case 0:
			b[i] = []byte{0x0a, 0x0d, 0x00, 0x80, 0xff, 0x7f, ':', ' '}[r.Intn(8)]
		default:
			b[i] = byte(r.Intn(256))
		}
	}
	return b
}

func c32List(ms [][]byte) string {
	xs := make([]string, len(ms))
	for i, m := range ms {
		xs[i] = vBytes(m)
	}
	return vList(xs)
}

func TestVerifC32(t *testing.T) {
	w := verifOpen(t, "C32")
	defer w.Close()

	n, err := New(Config{LogLevel: LogLevelNone})
	if err != nil {
		t.Fatal(err)
	}
	n.OnConnecting(func(ctx context.Context, e ConnectEvent) (ConnectReply, error) {
		subs := map[string]SubscribeOptions{}
		pb := e.Transport.Protocol() == ProtocolTypeProtobuf
		switch {
		case e.Transport.Name() == transportSSE:
			subs[c32ChSSE] = SubscribeOptions{}
		case e.Transport.Name() == transportHTTPStream && !pb:
			subs[c32ChND] = SubscribeOptions{}
		case pb:
			subs[c32ChPB] = SubscribeOptions{}
		default: // the recording JSON client
			subs[c32ChSSE] = SubscribeOptions{}
			subs[c32ChND] = SubscribeOptions{}
		}
		return ConnectReply{Credentials: &Credentials{UserID: "u"}, Subscriptions: subs}, nil
	})
	if err := n.Run(); err != nil {
		t.Fatal(err)
	}
	defer func() { _ = n.Shutdown(context.Background()) }()

	noPing := PingPongConfig{PingInterval: -1, PongTimeout: -1}
	mux := http.NewServeMux()
	mux.Handle("/sse", NewSSEHandler(n, SSEConfig{PingPongConfig: noPing}))
	mux.Handle("/hs", NewHTTPStreamHandler(n, HTTPStreamConfig{PingPongConfig: noPing}))
	server := httptest.NewServer(mux)
	defer server.Close()

	ctx, cancel := context.WithCancel(context.Background())
	defer cancel()
	open := func(path string, body []byte, ctype string) *c32Stream {
		req, _ := http.NewRequestWithContext(ctx, http.MethodPost, server.URL+path, bytes.NewReader(body))
		if ctype != "" {
			req.Header.Set("Content-Type", ctype)
		}
		resp, err := http.DefaultClient.Do(req)
		if err != nil {
			t.Fatal(err)
		}
		if resp.StatusCode != 200 {
			t.Fatalf("%s: status %d", path, resp.StatusCode)
		}
		return c32NewStream(resp.Body)
	}
	jsonConnect := []byte(`{"id":1,"connect":{}}`)
	pbCmd, _ := (&protocol.Command{Id: 1, Connect: &protocol.ConnectRequest{}}).MarshalVT()
	pbConnect := append(binary.AppendUvarint(nil, uint64(len(pbCmd))), pbCmd...)

	sse := open("/sse", jsonConnect, "")
	nd := open("/hs", jsonConnect, "")
	pb := open("/hs", pbConnect, "application/octet-stream")

	// end-of-chunk detectors
	sseEnd := func(marker []byte) func([]byte) int {
		return func(b []byte) int {
			k := bytes.Index(b, marker)
			if k < 0 {
				return -1
			}
			e := bytes.Index(b[k:], []byte("\n\n"))
			if e < 0 {
				return -1
			}
			return k + e + 2
		}
	}
	ndEnd := func(marker []byte) func([]byte) int {
		return func(b []byte) int {
			k := bytes.Index(b, marker)
			if k < 0 {
				return -1
			}
			e := bytes.IndexByte(b[k:], '\n')
			if e < 0 {
				return -1
			}
			return k + e + 1
		}
	}
	pbEnd := func(marker []byte) func([]byte) int { // end of the length-delimited frame that contains the marker
		return func(b []byte) int {
			pos := 0
			for pos < len(b) {
				l, k := binary.Uvarint(b[pos:])
				if k <= 0 || pos+k+int(l) > len(b) {
					return -1
				}
				frame := b[pos+k : pos+k+int(l)]
				pos += k + int(l)
				if bytes.Contains(frame, marker) {
					return pos
				}
			}
			return -1
		}
	}

	// connect replies
	ssePre, err := sse.take(sseEnd([]byte(`"connect"`)))
	if err != nil {
		t.Fatalf("sse connect: %v", err)
	}
	if _, err := nd.take(ndEnd([]byte(`"connect"`))); err != nil {
		t.Fatalf("http stream json connect: %v", err)
	}
	if _, err := pb.take(pbEnd(nil)); err != nil { // first frame = connect reply
		t.Fatalf("http stream protobuf connect: %v", err)
	}

	// recording clients
	jsonSink := make(chan []byte, 4096)
	refJSON := newTestClientV2(t, n, "ref")
	refJSON.transport.(*testTransport).setSink(jsonSink)
	refJSON.transport.(*testTransport).setPing(-1, -1) // no server pings: they would interleave with the recorded pushes
	connectClientV2(t, refJSON)
	pbSink := make(chan []byte, 4096)
	refPB := newTestClientV2Protocol(t, n, "refpb", ProtocolTypeProtobuf)
	refPB.transport.(*testTransport).setSink(pbSink)
	refPB.transport.(*testTransport).setPing(-1, -1)
	connectClientV2(t, refPB)
	drain := func(ch chan []byte) {
		for {
			select {
			case <-ch:
			default:
				return
			}
		}
	}
	collect := func(ch chan []byte, k int) ([][]byte, error) {
		out := make([][]byte, 0, k)
		deadline := time.After(5 * time.Second)
		for len(out) < k {
			select {
			case m := <-ch:
				out = append(out, append([]byte{}, m...))
			case <-deadline:
				return nil, fmt.Errorf("timeout waiting for the recording client (%d of %d)", len(out), k)
			}
		}
		return out, nil
	}
	time.Sleep(20 * time.Millisecond)
	drain(jsonSink)
	drain(pbSink)

	corpus := [][]string{
		{`{"a":1}`},
		{"{\"a\":\r1}"},                  // raw CR between tokens (finding F8)
		{"{\"a\":\n1}"},                  // raw LF between tokens
		{"{\"a\":\r\n1}"},                // CRLF
		{"\r{\"a\":1}\r"},                // leading / trailing CR
		{"[1,\r2,\r3]", `{"b":2}`},       // batch after a CR payload
		{`{"s":"x\ny\rz"}`},              // escaped newlines inside a string
		{`{"s":"data: x"}`, `"event: y"`, `":comment"`},
		{` {"a" : 1 } `, `{ }`, `{}`},    // spaces
		{`{"a":"\\"}`, `{"a":"\\\""}`},   // escaped backslash / quote before the closing quote
		{"{\"a\":\t1}", `[]`, `0`, `""`, `null`},
		{},
	}

	for i := 0; i < w.N; i++ {
		if !w.Want(i) {
			continue
		}
		r := w.Rand(i)
		if i == 0 {
			w.Case(i, vApp("CSsePre", vBytes(ssePre)), map[string]any{"kind": "sse-preamble", "body": string(ssePre)}, "sse-preamble", true)
			continue
		}
		kind := []string{"sse", "nd", "pb"}[i%3]
		var payloads [][]byte
		if j := (i - 1) / 3; j < len(corpus) && kind != "pb" {
			for _, p := range corpus[j] {
				payloads = append(payloads, []byte(p))
			}
		} else {
			k := r.Intn(5)
			if r.Intn(10) == 0 {
				k = 5 + r.Intn(10)
			}
			for q := 0; q < k; q++ {
				if kind == "pb" {
					payloads = append(payloads, c32BinPayload(r))
				} else {
					payloads = append(payloads, []byte(c32JSONPayload(r)))
				}
			}
		}
		marker := []byte(fmt.Sprintf("c32end%dz", i))
		var endPayload []byte
		if kind == "pb" {
			endPayload = append([]byte{0}, marker...)
		} else {
			endPayload = []byte(fmt.Sprintf(`{"end":"%s"}`, marker))
		}
		ch := map[string]string{"sse": c32ChSSE, "nd": c32ChND, "pb": c32ChPB}[kind]
		all := append(append([][]byte{}, payloads...), endPayload)
		burst := r.Intn(2) == 0
		for _, p := range all {
			if _, err := n.Publish(ch, p); err != nil {
				t.Fatalf("case %d: publish: %v", i, err)
			}
			if !burst {
				time.Sleep(200 * time.Microsecond) // let the writer flush message by message
			}
		}
		var body []byte
		var ref [][]byte
		switch kind {
		case "sse":
			body, err = sse.take(sseEnd(marker))
			if err == nil {
				ref, err = collect(jsonSink, len(all))
			}
		case "nd":
			body, err = nd.take(ndEnd(marker))
			if err == nil {
				ref, err = collect(jsonSink, len(all))
			}
		default:
			body, err = pb.take(pbEnd(marker))
			if err == nil {
				ref, err = collect(pbSink, len(all))
			}
		}
		if err != nil {
			t.Fatalf("case %d (%s): %v", i, kind, err)
		}
		hasCR, hasLF := false, false
		for _, p := range payloads {
			if bytes.IndexByte(p, '\r') >= 0 {
				hasCR = true
			}
			if bytes.IndexByte(p, '\n') >= 0 {
				hasLF = true
			}
		}
		ctor := map[string]string{"sse": "CSse", "nd": "CNd", "pb": "CPb"}[kind]
		class := kind
		if kind != "pb" {
			if hasCR {
				class += "/cr"
			}
			if hasLF {
				class += "/lf"
			}
		}
		strs := make([]string, len(payloads))
		for q, p := range payloads {
			strs[q] = string(p)
		}
		refs := make([]string, len(ref))
		for q, p := range ref {
			refs[q] = string(p)
		}
		js := map[string]any{"kind": kind, "payloads": strs, "payload_bytes": payloads, "body": string(body), "body_bytes": body, "queued": refs}
		if kind == "sse" && hasCR {
			js["key"] = "sse-raw-cr-in-json-whitespace" // canonical key of finding F8 (props finding_key)
		}
		w.Case(i, vApp(ctor, vBytes(body), c32List(ref)), js, class, len(payloads) > 0)
	}
}
