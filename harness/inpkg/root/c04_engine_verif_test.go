package centrifuge

// Shared engine of the C04 C05 C06 C07 C08 C26 drivers (model: coq/Model/SubLifecycle.v,
// macro semantics: coq/Harness/SLCommon.v).
//
// One case = one real Node + one real Client under test, driven by commands. Every command
// lets all goroutines run until each logical thread is finished, parked at an ARMED natural
// gate (a call into the fake Broker / PresenceManager / Transport or an event handler), or
// blocked on a lock / channel of the code under test. No source of /repo is touched: gates
// are the driver-supplied interfaces only.

import (
	"math"
	"bytes"
	"context"
	"encoding/json"
	"errors"
	"fmt"
	"math/rand"
	"runtime"
	"sort"
	"strconv"
	"strings"
	"sync"
	"time"

	"github.com/centrifugal/centrifuge/internal/dissolve"
	"github.com/centrifugal/protocol"
	"github.com/prometheus/client_golang/prometheus"
	dto "github.com/prometheus/client_model/go"
)

type c04Gk int

const (
	c04GkSubH c04Gk = iota
	c04GkBrokerSub
	c04GkPresAdd
	c04GkPresRem
	c04GkJoin
	c04GkLeave
	c04GkUnsubH
	c04GkTransport
	c04GkDiscH
	c04GkAliveH
	c04GkConnH
	c04GkBrokerUnsub
	c04NumGk
)

// c04GkConnecting: the OnConnecting handler, called by the connect command between its first look at the
// connection (closed / already authenticated) and the registration.  Numbered after c04NumGk so that random
// plans never arm it: only fixed templates park a connect command there.
const c04GkConnecting c04Gk = c04NumGk

var c04GkNames = [...]string{"GkSubH", "GkBrokerSub", "GkPresAdd", "GkPresRem", "GkJoin", "GkLeave", "GkUnsubH",
	"GkTransport", "GkDiscH", "GkAliveH", "GkConnH", "GkBrokerUnsub", "GkConnecting"}

type c04Opts struct {
	Pres bool `json:"pres"`
	JL   bool `json:"jl"`
}

func (o c04Opts) coq() string { return vApp("mkOpts", vBool(o.Pres), vBool(o.JL)) }

// ---- goroutine identity / state -------------------------------------------------------------

func c04Gid() int64 {
	var buf [64]byte
	n := runtime.Stack(buf[:], false)
	s := buf[len("goroutine "):n]
	i := bytes.IndexByte(s, ' ')
	id, _ := strconv.ParseInt(string(s[:i]), 10, 64)
	return id
}

var c04DumpMu sync.Mutex
var c04DumpBuf = make([]byte, 1<<20)

// c04States returns the scheduler state of every goroutine ("running", "select", "sync.Mutex.Lock", ...).
func c04States() map[int64]string {
	c04DumpMu.Lock()
	defer c04DumpMu.Unlock()
	var buf []byte
	for {
		n := runtime.Stack(c04DumpBuf, true)
		if n < len(c04DumpBuf) {
			buf = c04DumpBuf[:n]
			break
		}
		c04DumpBuf = make([]byte, 2*len(c04DumpBuf))
	}
	res := map[int64]string{}
	for len(buf) > 0 {
		// one block per goroutine, separated by an empty line; only the header line is needed
		var blk []byte
		if i := bytes.Index(buf, []byte("\n\n")); i >= 0 {
			blk, buf = buf[:i], buf[i+2:]
		} else {
			blk, buf = buf, nil
		}
		if !bytes.HasPrefix(blk, []byte("goroutine ")) {
			continue
		}
		line := blk
		if i := bytes.IndexByte(blk, '\n'); i >= 0 {
			line = blk[:i]
		}
		rest := line[len("goroutine "):]
		i := bytes.IndexByte(rest, ' ')
		if i < 0 {
			continue
		}
		id, err := strconv.ParseInt(string(rest[:i]), 10, 64)
		if err != nil {
			continue
		}
		st := string(rest[i+1:])
		st = strings.TrimPrefix(st, "[")
		if j := strings.IndexAny(st, ",]"); j >= 0 {
			st = st[:j]
		}
		res[id] = st
	}
	return res
}

func c04Blocked(state string) bool {
	switch state {
	case "chan receive", "chan send", "select", "semacquire", "sleep":
		return true
	}
	return strings.HasPrefix(state, "sync.")
}

// ---- engine -----------------------------------------------------------------------------------

type c04Park struct {
	kind c04Gk
	ch   string
	gid  int64
	th   *c04Thread // external thread or nil
	rel  chan bool
	cb   SubscribeCallback
	opts c04Opts
}

type c04Thread struct {
	k       int
	what    string
	gid     int64
	done    bool
	pending bool // parked at the OnSubscribe handler (no goroutine)
	isClose bool
	mapSub  bool              // a two-request map subscribe (state page, then go-live)
	replies []*protocol.Reply // replies of a map subscribe's requests
}

type c04Ev struct {
	Kind string `json:"k"`
	Ch   string `json:"ch,omitempty"`
}

type c04Eng struct {
	node    *Node
	client  *Client
	others  []*Client
	otherOn []map[string]uint64 // per other client: channel -> generation used
	br      *c04Broker
	pm      *c04Pres
	tr      *c04Transport
	chs     []string

	mu        sync.Mutex
	armed     [c04NumGk + 1]bool
	bypass    bool // gates pass with bypassDec (used for the atomic "other connection" actions and observation)
	bypassDec bool
	parks     []*c04Park
	threads   []*c04Thread
	byGid     map[int64]*c04Thread
	trace     []c04Ev
	bsub      map[string]bool
	bsubMap   map[string]bool // the map broker's node-level subscriptions (map plans)
	presAdds  []string        // channels of the connection's successful AddPresence calls since the last take
	connSubs  map[string]SubscribeOptions // connect-time server-side subscriptions (ConnectReply.Subscriptions)
	trackCbs  []TrackCallback             // pending (unanswered) OnTrack authorisations
	useMap    bool
	mapPres   bool
	noSnap    bool
	deltaPos  bool // client subscriptions are positioned with fossil delta allowed (driver-only cases)
	closeGid  int64 // goroutine of a close() the driver did not start itself, seen at Transport.Close
	subOpts   map[string]c04Opts
	stuck     string
	panicked  bool
	lastCmdAt time.Time
	started []*dissolve.Dissolver
	expectClosing bool
	wake chan struct{}
	why map[string]int
	windowStart  time.Time
	timingUnsafe bool

	cmdsCoq []string
	snaps   [][]c04Snap
	cmdsJS  []string
}

var c04ErrBoom = errors.New("c04 injected failure")

func (e *c04Eng) gate(kind c04Gk, ch string) bool {
	gid := c04Gid()
	e.mu.Lock()
	th := e.byGid[gid]
	if kind == c04GkTransport && th == nil {
		e.closeGid = gid
		if c04Timing {
			buf := make([]byte, 1<<14)
			fmt.Printf("internal close:\n%s\n", buf[:runtime.Stack(buf, false)])
		}
	}
	if e.bypass {
		d := e.bypassDec
		e.mu.Unlock()
		return d
	}
	if !e.armed[kind] {
		e.mu.Unlock()
		return true
	}
	p := &c04Park{kind: kind, ch: ch, gid: gid, th: th, rel: make(chan bool, 1)}
	e.parks = append(e.parks, p)
	e.mu.Unlock()
	e.poke()
	return <-p.rel
}

func (e *c04Eng) log(kind, ch string) {
	e.mu.Lock()
	e.trace = append(e.trace, c04Ev{kind, ch})
	e.mu.Unlock()
}

// fake broker: the real MemoryBroker behind gates
type c04Broker struct {
	*MemoryBroker
	e *c04Eng
}

func (b *c04Broker) Subscribe(chs ...string) error {
	for _, ch := range chs {
		if !b.e.gate(c04GkBrokerSub, ch) {
			return c04ErrBoom
		}
		b.e.mu.Lock()
		b.e.bsub[ch] = true
		b.e.mu.Unlock()
	}
	return b.MemoryBroker.Subscribe(chs...)
}

func (b *c04Broker) Unsubscribe(chs ...string) error {
	for _, ch := range chs {
		if !b.e.gate(c04GkBrokerUnsub, ch) {
			return c04ErrBoom
		}
		b.e.mu.Lock()
		b.e.bsub[ch] = false
		b.e.mu.Unlock()
	}
	return b.MemoryBroker.Unsubscribe(chs...)
}

func (b *c04Broker) PublishJoin(ch string, info *ClientInfo) error {
	b.e.gate(c04GkJoin, ch)
	if info != nil && info.ClientID == b.e.client.uid {
		b.e.log("join", ch)
	}
	return b.MemoryBroker.PublishJoin(ch, info)
}

func (b *c04Broker) PublishLeave(ch string, info *ClientInfo) error {
	b.e.gate(c04GkLeave, ch)
	if info != nil && info.ClientID == b.e.client.uid {
		b.e.log("leave", ch)
	}
	return b.MemoryBroker.PublishLeave(ch, info)
}

// c04MapBroker: the in-memory map broker with Subscribe/Unsubscribe passing the same gates and
// bookkeeping as the fake Broker, so that a map subscription's node-level subscribe is observed alike.
type c04MapBroker struct {
	*MemoryMapBroker
	e *c04Eng
}

func (b *c04MapBroker) Subscribe(chs ...string) error {
	for _, ch := range chs {
		if !b.e.gate(c04GkBrokerSub, ch) {
			return c04ErrBoom
		}
		b.e.mu.Lock()
		b.e.bsubMap[ch] = true
		b.e.mu.Unlock()
	}
	return b.MemoryMapBroker.Subscribe(chs...)
}

func (b *c04MapBroker) Unsubscribe(chs ...string) error {
	for _, ch := range chs {
		if !b.e.gate(c04GkBrokerUnsub, ch) {
			return c04ErrBoom
		}
		b.e.mu.Lock()
		b.e.bsubMap[ch] = false
		b.e.mu.Unlock()
	}
	return b.MemoryMapBroker.Unsubscribe(chs...)
}

type c04Pres struct {
	*MemoryPresenceManager
	e *c04Eng
}

func (p *c04Pres) AddPresence(ch string, uid string, info *ClientInfo) error {
	if !p.e.gate(c04GkPresAdd, ch) {
		return c04ErrBoom
	}
	if p.e.client != nil && uid == p.e.client.uid {
		p.e.mu.Lock()
		p.e.presAdds = append(p.e.presAdds, ch)
		p.e.mu.Unlock()
	}
	return p.MemoryPresenceManager.AddPresence(ch, uid, info)
}

func (p *c04Pres) RemovePresence(ch string, uid string, user string) error {
	// fault: released with b = false the call takes effect in the backend but reports an error (a reply lost
	// after the command ran); the model's RemovePresence always takes effect, so schedules stay comparable
	ok := p.e.gate(c04GkPresRem, ch)
	err := p.MemoryPresenceManager.RemovePresence(ch, uid, user)
	if !ok {
		return c04ErrBoom
	}
	return err
}

type c04Transport struct {
	e      *c04Eng
	mu     sync.Mutex
	closed bool
	pubs   map[string]int
	cancel func()
	accept string
	hold   chan struct{}
}

func (t *c04Transport) Name() string                     { return "c04" }
func (t *c04Transport) AcceptProtocol() string           { return t.accept }
func (t *c04Transport) Protocol() ProtocolType           { return ProtocolTypeJSON }
func (t *c04Transport) ProtocolVersion() ProtocolVersion { return ProtocolVersion2 }
func (t *c04Transport) Unidirectional() bool             { return false }
func (t *c04Transport) Emulation() bool                  { return false }
// DisabledPushFlags is called by the publication delivery between the position update and the enqueue (outside
// c.mu): when armed by the driver (holdPush) the calling goroutine waits here - a natural gate for positioned
// subscriptions (driver-only cases).
func (t *c04Transport) DisabledPushFlags() uint64 {
	t.mu.Lock()
	h := t.hold
	t.hold = nil
	t.mu.Unlock()
	if h != nil {
		<-h
	}
	return PushFlagDisconnect
}
func (t *c04Transport) PingPongConfig() PingPongConfig {
	return PingPongConfig{PingInterval: time.Hour, PongTimeout: time.Minute}
}

func (t *c04Transport) record(msg []byte) {
	dec := json.NewDecoder(bytes.NewReader(msg))
	for {
		var r struct {
			Push *struct {
				Channel string           `json:"channel"`
				Pub     *json.RawMessage `json:"pub"`
			} `json:"push"`
		}
		if err := dec.Decode(&r); err != nil {
			return
		}
		if r.Push != nil && r.Push.Pub != nil {
			t.pubs[r.Push.Channel]++
		}
	}
}

func (t *c04Transport) Write(msg []byte) error {
	t.mu.Lock()
	defer t.mu.Unlock()
	if t.closed {
		return errors.New("closed")
	}
	t.record(msg)
	return nil
}

func (t *c04Transport) WriteMany(msgs ...[]byte) error {
	t.mu.Lock()
	defer t.mu.Unlock()
	if t.closed {
		return errors.New("closed")
	}
	for _, m := range msgs {
		t.record(m)
	}
	return nil
}

func (t *c04Transport) Close(_ Disconnect) error {
	if t.e != nil {
		t.e.gate(c04GkTransport, "")
	}
	t.mu.Lock()
	t.closed = true
	t.mu.Unlock()
	if t.cancel != nil {
		t.cancel()
	}
	return nil
}

func (t *c04Transport) count(ch string) int {
	t.mu.Lock()
	defer t.mu.Unlock()
	return t.pubs[ch]
}

// c04Channels picks channel names with pairwise distinct subLock and hub shard indexes.
func c04Channels(prefix string, n int) []string {
	var out []string
	usedL, usedS := map[int]bool{}, map[int]bool{}
	for i := 0; len(out) < n; i++ {
		ch := fmt.Sprintf("%s%d", prefix, i)
		l, s := index(ch, numSubLocks), index(ch, numHubShards)
		if usedL[l] || usedS[s] {
			continue
		}
		usedL[l], usedS[s] = true, true
		out = append(out, ch)
	}
	return out
}

// c04EngCfg: optional node features of an engine instance.
type c04EngCfg struct {
	Map      bool // map broker + published keys (map-subscribe templates)
	TickConc int  // clientPresenceUpdateConcurrency (> 1: the concurrent variant of the presence tick)
	Keyed    bool // shared-poll (keyed) channels: every channel of the engine is a shared poll channel
	MapPres  bool // client subscriptions additionally get MapClientPresenceChannel = <channel>:clients
	// AcceptProto: Metrics.ExposeTransportAcceptProtocol on and the connection's transport reports accept
	// protocol "h1": the connection gauge is then kept per accept-protocol label
	AcceptProto bool
}

func c04NewEng(armed []c04Gk, nch int, withMap ...bool) (*c04Eng, error) {
	return c04NewEngCfg(armed, nch, c04EngCfg{Map: len(withMap) > 0 && withMap[0]})
}

func c04NewEngCfg(armed []c04Gk, nch int, ec c04EngCfg) (*c04Eng, error) {
	e := &c04Eng{wake: make(chan struct{}, 1), why: map[string]int{}, byGid: map[int64]*c04Thread{}, bsub: map[string]bool{}, bsubMap: map[string]bool{}, subOpts: map[string]c04Opts{}}
	for _, k := range armed {
		e.armed[k] = true
	}
	cfg := Config{LogLevel: LogLevelNone, ClientStaleCloseDelay: time.Hour}
	useMap := ec.Map || ec.MapPres
	e.useMap = ec.Map
	e.mapPres = ec.MapPres
	cfg.clientPresenceUpdateConcurrency = ec.TickConc
	cfg.Metrics.ExposeTransportAcceptProtocol = ec.AcceptProto
	if ec.Keyed {
		cfg.SharedPoll = SharedPollConfig{GetSharedPollChannelOptions: func(string) (SharedPollChannelOptions, bool) {
			return SharedPollChannelOptions{RefreshInterval: 100 * time.Millisecond, RefreshBatchSize: 100, MaxKeysPerConnection: 100}, true
		}}
	}
	if useMap {
		cfg.Map = MapConfig{GetMapChannelOptions: func(string) MapChannelOptions {
			return MapChannelOptions{Mode: MapModeEphemeral, KeyTTL: time.Minute, MinPageSize: 1}
		}}
	}
	n, err := New(cfg)
	if err != nil {
		return nil, err
	}
	if ec.Keyed {
		n.OnSharedPoll(func(ctx context.Context, ev SharedPollEvent) (SharedPollResult, error) {
			return SharedPollResult{}, nil
		})
	}
	if useMap {
		mmb, err := NewMemoryMapBroker(n, MemoryMapBrokerConfig{})
		if err != nil {
			return nil, err
		}
		n.SetMapBroker(&c04MapBroker{MemoryMapBroker: mmb, e: e})
	}
	mb, err := NewMemoryBroker(n, MemoryBrokerConfig{})
	if err != nil {
		return nil, err
	}
	e.br = &c04Broker{MemoryBroker: mb, e: e}
	n.SetBroker(e.br)
	mp, err := NewMemoryPresenceManager(n, MemoryPresenceManagerConfig{})
	if err != nil {
		return nil, err
	}
	e.pm = &c04Pres{MemoryPresenceManager: mp, e: e}
	n.SetPresenceManager(e.pm)
	e.node = n
	e.chs = c04Channels("c", nch)
	n.OnConnecting(func(ctx context.Context, ev ConnectEvent) (ConnectReply, error) {
		if e.client != nil && ev.ClientID == e.client.uid {
			e.gate(c04GkConnecting, "")
			return ConnectReply{Subscriptions: e.connSubs}, nil
		}
		return ConnectReply{}, nil
	})
	n.OnConnect(func(c *Client) {
		if c != e.client {
			return
		}
		e.log("connectcb", "")
		c.OnSubscribe(func(ev SubscribeEvent, cb SubscribeCallback) {
			e.onSubscribe(ev, cb)
		})
		c.OnTrack(func(ev TrackEvent, cb TrackCallback) {
			e.mu.Lock()
			e.trackCbs = append(e.trackCbs, cb) // answered by answerTrack
			e.mu.Unlock()
		})
		c.OnUnsubscribe(func(ev UnsubscribeEvent) {
			e.gate(c04GkUnsubH, ev.Channel)
			e.log("unsubcb", ev.Channel)
		})
		c.OnDisconnect(func(ev DisconnectEvent) {
			e.gate(c04GkDiscH, "")
			e.log("disconnectcb", "")
		})
		c.OnAlive(func() {
			e.gate(c04GkAliveH, "")
			e.log("alivecb", "")
		})
		// the connect callback has started and registered the handlers (model: KEnter); it returns
		// when the driver releases it (model: KHandler)
		e.gate(c04GkConnH, "")
	})
	// writeDisconnectOrErrorFlush starts `go c.close(...)` and then reports the command: the report tells the
	// driver that a close goroutine exists even before it has been scheduled
	n.OnCommandProcessed(func(c *Client, ev CommandProcessedEvent) {
		if _, ok := disconnectFromError(ev.Error); ok && c == e.client {
			e.mu.Lock()
			e.expectClosing = true
			e.mu.Unlock()
		}
	})
	if err := n.Run(); err != nil {
		return nil, err
	}
	// Dissolver jobs start on their own 1 s after submission. To keep their start under the driver's
	// control the node gets a dissolver whose workers are only started by the drain command.
	_ = n.subDissolver.Close()
	n.subDissolver = dissolve.New(numSubDissolverWorkers)
	if useMap {
		for _, ch := range e.chs {
			for _, k := range []string{"a", "b", "c"} {
				if _, err := n.MapPublish(context.Background(), ch, k, MapPublishOptions{Data: []byte(`{"v":1}`)}); err != nil {
					return nil, err
				}
			}
		}
	}
	mk := func(user string, tr *c04Transport) (*Client, error) {
		ctx, cancel := context.WithCancel(context.Background())
		tr.cancel = cancel
		tr.pubs = map[string]int{}
		c, _, err := NewClient(SetCredentials(ctx, &Credentials{UserID: user}), n, tr)
		return c, err
	}
	e.tr = &c04Transport{e: e}
	if ec.AcceptProto {
		e.tr.accept = "h1"
	}
	if e.client, err = mk("u1", e.tr); err != nil {
		return nil, err
	}
	for i := 0; i < 2; i++ {
		oc, err := mk(fmt.Sprintf("o%d", i), &c04Transport{})
		if err != nil {
			return nil, err
		}
		oc.startWriter(0, 0, 0, 0, false)
		e.others = append(e.others, oc)
		e.otherOn = append(e.otherOn, map[string]uint64{})
	}
	e.lastCmdAt = time.Now()
	e.windowStart = e.lastCmdAt
	return e, nil
}

func (e *c04Eng) shutdown() {
	e.mu.Lock()
	e.bypass, e.bypassDec = true, true
	ps := e.parks
	e.parks = nil
	e.mu.Unlock()
	for _, p := range ps {
		if p.rel != nil {
			p.rel <- true
		}
	}
	ctx, cancel := context.WithTimeout(context.Background(), 2*time.Second)
	defer cancel()
	_ = e.node.Shutdown(ctx)
	_ = e.client.close(DisconnectForceNoReconnect)
	for _, oc := range e.others {
		_ = oc.close(DisconnectForceNoReconnect)
	}
	for _, d := range e.started {
		_ = d.Close()
	}
}

func (e *c04Eng) onSubscribe(ev SubscribeEvent, cb SubscribeCallback) {
	gid := c04Gid()
	e.mu.Lock()
	e.trace = append(e.trace, c04Ev{"subcb", ev.Channel})
	th := e.byGid[gid]
	o := e.subOpts[ev.Channel]
	if ev.Type == SubscriptionTypeSharedPoll {
		e.mu.Unlock()
		cb(SubscribeReply{Options: SubscribeOptions{Type: ev.Type, ExpireAt: time.Now().Unix() + 3600}, ClientSideRefresh: true}, nil)
		return
	}
	if e.bypass || !e.armed[c04GkSubH] {
		e.mu.Unlock()
		so := SubscribeOptions{Type: ev.Type, EmitPresence: o.Pres, EmitJoinLeave: o.JL}
		if e.mapPres {
			so.MapClientPresenceChannel = ev.Channel + ":clients"
		}
		if e.deltaPos {
			so.EnablePositioning = true
			so.AllowedDeltaTypes = []DeltaType{DeltaTypeFossil}
		}
		cb(SubscribeReply{Options: so}, nil)
		return
	}
	if th != nil {
		th.pending = true
	}
	e.parks = append(e.parks, &c04Park{kind: c04GkSubH, ch: ev.Channel, gid: 0, th: th, cb: cb, opts: o})
	e.mu.Unlock()
}

// ---- quiescence -------------------------------------------------------------------------------

func (e *c04Eng) closeState() (closing, closed, muFree bool) {
	closing = e.client.closing.Load()
	e.client.mu.RLock()
	closed = e.client.status == statusClosed
	e.client.mu.RUnlock()
	if e.client.connectMu.TryLock() {
		muFree = true
		e.client.connectMu.Unlock()
	}
	return
}

// isQuiet: every logical thread is finished, parked at an armed gate or blocked.
func (e *c04Eng) isQuiet(useDump bool) bool {
	var states map[int64]string
	getState := func(gid int64) (string, bool) {
		if !useDump {
			return "", false
		}
		if states == nil {
			states = c04States()
		}
		s, ok := states[gid]
		if !ok {
			return "gone", true
		}
		return s, true
	}
	e.mu.Lock()
	parkedGid := map[int64]bool{}
	lockParked := map[string]bool{}
	for _, p := range e.parks {
		parkedGid[p.gid] = true
		if p.kind == c04GkBrokerSub || p.kind == c04GkBrokerUnsub {
			lockParked[p.ch] = true
		}
	}
	var pendingGids []int64
	for _, th := range e.threads {
		if th.done {
			continue
		}
		if th.pending {
			// parked at the OnSubscribe handler: quiet only once the goroutine that called the handler has
			// returned (finish sets gid = -1); otherwise its late finish() would hit the goroutine that the
			// handler release starts for the same thread
			if th.gid != -1 {
				e.why["pending-not-returned"]++
				e.mu.Unlock()
				return false
			}
			continue
		}
		if th.gid == 0 {
			e.why["gid0"]++
			e.mu.Unlock()
			return false
		}
		if !parkedGid[th.gid] {
			pendingGids = append(pendingGids, th.gid)
		}
	}
	closeGid := e.closeGid
	expectClosing := e.expectClosing
	e.mu.Unlock()
	if expectClosing && !e.client.closing.Load() {
		e.why["close-not-started"]++
		return false
	}
	for _, g := range pendingGids {
		s, ok := getState(g)
		if !ok || !c04Blocked(s) {
			e.why["thread:"+s]++
			return false
		}
	}
	// a close() started by the code itself (go c.close(...))
	closing, closed, muFree := e.closeState()
	if closing && !closed && muFree {
		e.why["closing"]++
		return false // about to take connectMu and flip
	}
	if closed && !muFree {
		// the winning close is still active (or a loser is blocked behind a parked winner)
		driverClose := false
		e.mu.Lock()
		for _, th := range e.threads {
			if th.isClose && !th.done {
				driverClose = true
			}
		}
		e.mu.Unlock()
		if !driverClose {
			if closeGid == 0 {
				return false
			}
			if !parkedGid[closeGid] {
				s, ok := getState(closeGid)
				if !ok || !c04Blocked(s) {
					return false
				}
			}
		}
	}
	// nobody is inside a subLock section except threads parked at the broker gates
	for _, ch := range e.chs {
		if lockParked[ch] {
			continue
		}
		m := e.node.subLock(ch)
		if !m.TryLock() {
			e.why["sublock"]++
			return false
		}
		m.Unlock()
	}
	return true
}

func (e *c04Eng) poke() {
	select {
	case e.wake <- struct{}{}:
	default:
	}
}

func (e *c04Eng) quiesce() {
	deadline := time.Now().Add(8 * time.Second)
	tm := time.NewTimer(time.Hour)
	defer tm.Stop()
	wait := time.Millisecond
	for {
		if e.isQuiet(false) {
			break
		}
		// wait for a thread to finish or park; after 1 ms without news look at goroutine states
		if !tm.Stop() {
			select {
			case <-tm.C:
			default:
			}
		}
		tm.Reset(wait)
		select {
		case <-e.wake:
			wait = time.Millisecond
			continue
		case <-tm.C:
		}
		if wait < 32*time.Millisecond {
			wait *= 2 // a goroutine that is merely waiting for a CPU: look less often
		}
		if e.isQuiet(true) {
			// confirm after yielding: a goroutine woken by the last action may not have run yet
			runtime.Gosched()
			time.Sleep(100 * time.Microsecond)
			if e.isQuiet(true) {
				break
			}
		}
		if time.Now().After(deadline) {
			e.mu.Lock()
			if e.stuck == "" {
				e.stuck = "quiesce timeout"
			}
			e.mu.Unlock()
			break
		}
	}
	if c04Timing {
		fmt.Printf("quiesce took %v reasons %v\n", time.Since(deadline.Add(-8*time.Second)), e.why)
		e.why = map[string]int{}
	}
	e.snapshot()
	e.lastCmdAt = time.Now()
	// a thread blocked at the unsubscribe wait gate has a real 5 s timer that cannot be held back: the
	// commands between two timed commands must fit well into that, otherwise the run is repeated (c04RunPlan)
	if e.lastCmdAt.Sub(e.windowStart) > 4000*time.Millisecond {
		e.timingUnsafe = true
	}
}

// ---- commands ---------------------------------------------------------------------------------

func (e *c04Eng) setGid(th *c04Thread) {
	gid := c04Gid()
	e.mu.Lock()
	th.gid = gid
	e.byGid[gid] = th
	e.mu.Unlock()
}

func (e *c04Eng) finish(th *c04Thread) {
	if r := recover(); r != nil {
		e.mu.Lock()
		e.panicked = true
		e.mu.Unlock()
	}
	e.mu.Lock()
	delete(e.byGid, th.gid)
	th.gid = 0
	if !th.pending {
		th.done = true
	} else {
		th.gid = -1
	}
	e.mu.Unlock()
	e.poke()
}

func (e *c04Eng) addCmd(coq string, js string) {
	e.cmdsCoq = append(e.cmdsCoq, coq)
	e.cmdsJS = append(e.cmdsJS, js)
}

// snapshot records, at the quiescent point after a command, what C26 talks about.
func (e *c04Eng) snapshot() {
	if e.noSnap {
		return // driver-only cases may sit inside hub locks between commands
	}
	row := make([]c04Snap, 0, len(e.chs))
	for _, ch := range e.chs {
		sn := c04Snap{N: e.node.hub.NumSubscribers(ch), IsSub: e.client.IsSubscribed(ch)}
		e.mu.Lock()
		sn.BSub = e.bsub[ch] || e.bsubMap[ch] // subscribed in the stream or in the map broker
		e.mu.Unlock()
		m := e.node.subLock(ch)
		if m.TryLock() {
			sn.Free = true
			m.Unlock()
		}
		row = append(row, sn)
	}
	e.snaps = append(e.snaps, row)
}

func (e *c04Eng) chIdx(ch string) uint64 {
	for i, c := range e.chs {
		if c == ch {
			return uint64(i)
		}
	}
	return 99
}

func (e *c04Eng) runThread(what string, isClose bool, f func()) *c04Thread {
	return e.runThreadInit(what, isClose, nil, f)
}

func (e *c04Eng) runThreadInit(what string, isClose bool, init func(*c04Thread), f func()) *c04Thread {
	th := &c04Thread{what: what, isClose: isClose}
	if init != nil {
		init(th)
	}
	e.mu.Lock()
	th.k = len(e.threads)
	e.threads = append(e.threads, th)
	e.mu.Unlock()
	ready := make(chan struct{})
	go func() {
		e.setGid(th)
		close(ready)
		defer e.finish(th)
		f()
	}()
	<-ready
	e.quiesce()
	return th
}

type c04Op struct {
	Kind string  `json:"op"` // subcli subsrv unsubcli unsubsrv close tick connect
	Ch   int     `json:"ch"`
	Opts c04Opts `json:"opts"`
	// Map: the client subscribe is a MAP subscription (ephemeral mode, no presence) done in two requests:
	// first state page (the OnSubscribe handler authorises, the reservation goes to c.mapSubscribing), then
	// the last page which goes live (hub add, commit, close of the reservation's gate, join).  The model
	// route is the ordinary client subscribe; only schedules in which nothing looks at the channel
	// between the two requests are comparable, so this is used by fixed templates only.
	Map bool `json:"map,omitempty"`
}

func (o c04Op) coq() string {
	c := vN(uint64(o.Ch))
	switch o.Kind {
	case "subcli":
		return vApp("OSubCli", c, o.Opts.coq())
	case "subsrv":
		return vApp("OSubSrv", c, o.Opts.coq())
	case "unsubcli":
		return vApp("OUnsubCli", c)
	case "unsubsrv":
		return vApp("OUnsubSrv", c)
	case "close":
		return "OClose"
	case "tick":
		return "OTick"
	case "shutdown":
		return "OShutdown"
	}
	return "OConnect"
}

// enabled mirrors the entry-point checks made before the first lock section (model: spawn).
func (e *c04Eng) enabled(o c04Op) bool {
	c := e.client
	c.mu.RLock()
	authed, closed := c.authenticated, c.status == statusClosed
	c.mu.RUnlock()
	switch o.Kind {
	case "subcli":
		return authed && !closed && c.eventHub.subscribeHandler != nil
	case "unsubcli":
		return authed && !closed
	case "subsrv", "unsubsrv":
		_, ok := e.node.hub.UserConnections("u1")[c.uid]
		return ok
	case "tick":
		return authed
	case "connect":
		for _, th := range e.threads {
			if th.what == "connect" {
				return false
			}
		}
		return true
	}
	return true
}

func (e *c04Eng) spawn(o c04Op) *c04Thread {
	e.addCmd(vApp("CSpawn", o.coq()), fmt.Sprintf("spawn %s c%d %v", o.Kind, o.Ch, o.Opts))
	c := e.client
	ch := ""
	if o.Ch < len(e.chs) {
		ch = e.chs[o.Ch]
	}
	var f func()
	switch o.Kind {
	case "subcli":
		if o.Map {
			return e.spawnMapSub(o, ch)
		}
		f = func() {
			e.mu.Lock()
			e.subOpts[ch] = o.Opts
			e.mu.Unlock()
			req := &protocol.SubscribeRequest{Channel: ch}
			if e.deltaPos {
				req.Delta = string(DeltaTypeFossil)
			}
			_ = c.handleSubscribe(req, &protocol.Command{Id: 7}, time.Now(), &replyWriter{write: func(*protocol.Reply) {}})
		}
	case "publish": // a history publication whose delivery to the connection waits in the transport (holdPush)
		f = func() { _, _ = e.node.Publish(ch, []byte(`{"n":1}`), WithHistory(10, time.Minute)) }
	case "subkeyed": // shared-poll subscription (outside the model)
		f = func() {
			_ = c.handleSubscribe(&protocol.SubscribeRequest{Channel: ch, Type: int32(SubscriptionTypeSharedPoll)}, &protocol.Command{Id: 7}, time.Now(),
				&replyWriter{write: func(*protocol.Reply) {}})
		}
	case "track": // track two keys; the OnTrack authorisation stays pending until answerTrack
		f = func() {
			_ = c.handleSubRefresh(&protocol.SubRefreshRequest{Channel: ch, Type: typeTrack,
				Track: []*protocol.TrackBatch{{Items: []*protocol.KeyedItem{{Key: "k1", Version: 1}, {Key: "k2", Version: 1}}}}},
				&protocol.Command{Id: 10}, time.Now(), &replyWriter{write: func(*protocol.Reply) {}})
		}
	case "subsrv":
		f = func() { _ = c.Subscribe(ch, WithEmitPresence(o.Opts.Pres), WithEmitJoinLeave(o.Opts.JL)) }
	case "unsubcli":
		f = func() {
			_ = c.handleUnsubscribe(&protocol.UnsubscribeRequest{Channel: ch}, &protocol.Command{Id: 8}, time.Now(),
				&replyWriter{write: func(*protocol.Reply) {}})
		}
	case "unsubsrv":
		f = func() { c.Unsubscribe(ch) }
	case "close":
		f = func() { _ = c.close(DisconnectForceNoReconnect) }
	case "tick":
		f = func() { c.updatePresence() }
	case "shutdown":
		// Node.Shutdown closes every registered connection in goroutines of its own: the driver must not take
		// the moment before such a goroutine has started for quiescence
		if _, ok := e.node.hub.UserConnections("u1")[c.uid]; ok && !c.closing.Load() {
			e.mu.Lock()
			e.expectClosing = true
			e.mu.Unlock()
		}
		f = func() {
			ctx, cancel := context.WithTimeout(context.Background(), 30*time.Second)
			defer cancel()
			_ = e.node.Shutdown(ctx)
		}
	case "connect":
		f = func() {
			err := c.connectCmd(&protocol.ConnectRequest{}, &protocol.Command{Id: 1}, time.Now(),
				&replyWriter{write: func(*protocol.Reply) {}})
			if err == nil {
				c.triggerConnect()
			} else if d, ok := disconnectFromError(err); ok && d.Code != DisconnectConnectionClosed.Code {
				// what the command dispatcher does with a Disconnect returned by a handler
				e.mu.Lock()
				e.expectClosing = true
				e.mu.Unlock()
				go func() { _ = c.close(*d) }()
			}
		}
	}
	return e.runThread(o.Kind, o.Kind == "close", f)
}

// spawnMapSub: first request of a map subscribe (state phase, one key per page so that the page is
// intermediate).  The OnSubscribe handler parks as usual; releasing it runs the rest of the first request
// and then the second request (last page -> live) in the same goroutine.
func (e *c04Eng) spawnMapSub(o c04Op, ch string) *c04Thread {
	c := e.client
	var th *c04Thread
	th = e.runThreadInit("subcli", false, func(t *c04Thread) { t.mapSub = true; th = t }, func() {
		e.mu.Lock()
		e.subOpts[ch] = o.Opts
		e.mu.Unlock()
		_ = c.handleSubscribe(&protocol.SubscribeRequest{Channel: ch, Type: int32(SubscriptionTypeMap), Phase: MapPhaseState, Limit: 1},
			&protocol.Command{Id: 7}, time.Now(), e.mapReplyWriter(th))
	})
	return th
}

func (e *c04Eng) mapReplyWriter(th *c04Thread) *replyWriter {
	return &replyWriter{write: func(rep *protocol.Reply) {
		d, _ := rep.MarshalVT()
		var r protocol.Reply
		_ = r.UnmarshalVT(d)
		e.mu.Lock()
		th.replies = append(th.replies, &r)
		e.mu.Unlock()
	}}
}

// mapGoLive issues the second request of a map subscribe: the last state page, which goes live.
func (e *c04Eng) mapGoLive(th *c04Thread, ch string) {
	e.mu.Lock()
	var first *protocol.SubscribeResult
	if len(th.replies) == 1 && th.replies[0].Error == nil {
		first = th.replies[0].Subscribe
	}
	e.mu.Unlock()
	if first == nil || first.Cursor == "" {
		e.mu.Lock()
		if e.stuck == "" {
			e.stuck = "map subscribe: first state page is not an intermediate page"
		}
		e.mu.Unlock()
		return
	}
	_ = e.client.handleSubscribe(&protocol.SubscribeRequest{Channel: ch, Type: int32(SubscriptionTypeMap), Phase: MapPhaseState,
		Limit: 100, Cursor: first.Cursor, Offset: first.Offset, Epoch: first.Epoch},
		&protocol.Command{Id: 9}, time.Now(), e.mapReplyWriter(th))
}

// holdPush makes the next DisabledPushFlags call of the connection's transport wait; the returned function
// lets it go on.
func (e *c04Eng) holdPush() func() {
	h := make(chan struct{})
	e.tr.mu.Lock()
	e.tr.hold = h
	e.tr.mu.Unlock()
	return func() {
		e.addCmd("CNoModel", "release push")
		close(h)
		e.quiesce()
	}
}

// answerTrack answers the oldest pending OnTrack authorisation (in a thread of its own).
func (e *c04Eng) answerTrack(ok bool) bool {
	e.mu.Lock()
	if len(e.trackCbs) == 0 {
		e.mu.Unlock()
		return false
	}
	cb := e.trackCbs[0]
	e.trackCbs = e.trackCbs[1:]
	e.mu.Unlock()
	e.addCmd("CNoModel", "answer track")
	e.runThread("trackanswer", false, func() {
		if ok {
			cb(TrackReply{}, nil)
		} else {
			cb(TrackReply{}, ErrorPermissionDenied)
		}
	})
	return true
}

// takePresAdds returns (as channel indexes) and clears the AddPresence calls recorded for the connection.
func (e *c04Eng) takePresAdds() []uint64 {
	e.mu.Lock()
	l := e.presAdds
	e.presAdds = nil
	e.mu.Unlock()
	var out []uint64
	for _, ch := range l {
		out = append(out, e.chIdx(ch))
	}
	return out
}

// parkOf returns the first park of the given kind (nil if none).
func (e *c04Eng) parkOf(k c04Gk) *c04Park {
	for _, p := range e.parked() {
		if p.kind == k {
			return p
		}
	}
	return nil
}

// parked returns the current parks in a deterministic order.
func (e *c04Eng) parked() []*c04Park {
	e.mu.Lock()
	defer e.mu.Unlock()
	ps := append([]*c04Park(nil), e.parks...)
	return ps
}

func (e *c04Eng) isClosePark(p *c04Park) bool {
	if p.th != nil {
		return p.th.isClose
	}
	return p.kind != c04GkBrokerUnsub && p.kind != c04GkSubH
}

func (e *c04Eng) release(p *c04Park, b bool) {
	e.mu.Lock()
	found := false
	for i, q := range e.parks {
		if q == p {
			e.parks = append(e.parks[:i], e.parks[i+1:]...)
			found = true
			break
		}
	}
	e.mu.Unlock()
	if !found {
		return
	}
	switch {
	case p.kind == c04GkBrokerUnsub:
		e.addCmd(vApp("CReleaseJob", vN(e.chIdx(p.ch)), vBool(b)), fmt.Sprintf("release job %s %v", p.ch, b))
	case e.isClosePark(p):
		e.addCmd(vApp("CReleaseClose", c04GkNames[p.kind], vN(e.chIdx(p.ch)), vBool(b)), fmt.Sprintf("release close@%s(%s) %v", c04GkNames[p.kind], p.ch, b))
	default:
		e.addCmd(vApp("CRelease", vN(uint64(p.th.k)), c04GkNames[p.kind], vN(e.chIdx(p.ch)), vBool(b)), fmt.Sprintf("release %d@%s %v", p.th.k, c04GkNames[p.kind], b))
	}
	if p.kind == c04GkSubH {
		th := p.th
		e.mu.Lock()
		th.pending = false
		th.gid = 0
		e.mu.Unlock()
		ready := make(chan struct{})
		go func() {
			e.setGid(th)
			close(ready)
			defer e.finish(th)
			if b && th != nil && th.mapSub {
				p.cb(SubscribeReply{Options: SubscribeOptions{Type: SubscriptionTypeMap, EmitJoinLeave: p.opts.JL}}, nil)
				e.mapGoLive(th, p.ch)
			} else if b {
				p.cb(SubscribeReply{Options: SubscribeOptions{EmitPresence: p.opts.Pres, EmitJoinLeave: p.opts.JL}}, nil)
			} else {
				p.cb(SubscribeReply{}, ErrorPermissionDenied)
			}
		}()
		<-ready
	} else {
		p.rel <- b
	}
	e.quiesce()
}

// blockedAtWait lists external threads (and the close thread) blocked in the unsubscribe wait gate's select.
func (e *c04Eng) waiters() (ext []*c04Thread, closeWaits bool) {
	states := c04States()
	e.mu.Lock()
	defer e.mu.Unlock()
	parked := map[int64]bool{}
	for _, p := range e.parks {
		parked[p.gid] = true
	}
	for _, th := range e.threads {
		if th.done || th.pending || th.gid <= 0 || parked[th.gid] {
			continue
		}
		if states[th.gid] == "select" {
			if th.isClose {
				closeWaits = true
			} else if th.what == "unsubcli" || th.what == "unsubsrv" {
				ext = append(ext, th)
			}
		}
	}
	if e.closeGid != 0 && !parked[e.closeGid] && states[e.closeGid] == "select" {
		closeWaits = true
	}
	return
}

// timeout waits for the 5 s wait-gate timer of the given thread (nil = the close thread) to fire.
func (e *c04Eng) timeout(th *c04Thread) {
	if th == nil {
		e.addCmd("CTimeoutClose", "timeout close")
	} else {
		e.addCmd(vApp("CTimeout", vN(uint64(th.k))), fmt.Sprintf("timeout %d", th.k))
	}
	deadline := time.Now().Add(7 * time.Second)
	for time.Now().Before(deadline) {
		if th != nil {
			e.mu.Lock()
			d := th.done
			e.mu.Unlock()
			if d {
				break
			}
		} else {
			_, cw := e.waiters()
			if !cw {
				break
			}
		}
		time.Sleep(20 * time.Millisecond)
	}
	e.mu.Lock()
	e.expectClosing = true
	e.mu.Unlock()
	e.windowStart = time.Now()
	e.quiesce()
}

// drain waits until every dissolver job submitted so far has passed its 1 s sleep and run (or parked).
func (e *c04Eng) drain() {
	e.addCmd("CDrain", "drain")
	d := e.node.subDissolver
	e.node.subDissolver = dissolve.New(numSubDissolverWorkers)
	e.started = append(e.started, d)
	_ = d.Run()
	wait := 1150*time.Millisecond - time.Since(e.lastCmdAt)
	if wait > 0 {
		time.Sleep(wait)
	}
	e.windowStart = time.Now()
	e.quiesce()
}

func (e *c04Eng) otherAdd(chI int, b bool) bool {
	ch := e.chs[chI]
	slot := -1
	for i := range e.others {
		if _, on := e.otherOn[i][ch]; !on {
			slot = i
			break
		}
	}
	m := e.node.subLock(ch)
	if slot < 0 || !m.TryLock() {
		return false
	}
	m.Unlock()
	e.addCmd(vApp("COtherAdd", vN(uint64(chI)), vBool(b)), fmt.Sprintf("otheradd c%d %v", chI, b))
	e.mu.Lock()
	e.bypass, e.bypassDec = true, b
	e.mu.Unlock()
	gen := uint64(1000 + len(e.cmdsCoq))
	_, err := e.node.addSubscription(ch, subInfo{client: e.others[slot], deltaType: deltaTypeNone, subGen: gen, isMap: e.useMap})
	e.mu.Lock()
	e.bypass = false
	e.mu.Unlock()
	if err == nil {
		e.otherOn[slot][ch] = gen
	}
	e.quiesce()
	return true
}

func (e *c04Eng) otherRem(chI int) bool {
	ch := e.chs[chI]
	slot := -1
	for i := range e.others {
		if _, on := e.otherOn[i][ch]; on {
			slot = i
		}
	}
	m := e.node.subLock(ch)
	if slot < 0 || !m.TryLock() {
		return false
	}
	m.Unlock()
	e.addCmd(vApp("COtherRem", vN(uint64(chI))), fmt.Sprintf("otherrem c%d", chI))
	_ = e.node.removeSubscription(ch, e.others[slot], e.otherOn[slot][ch])
	delete(e.otherOn[slot], ch)
	e.quiesce()
	return true
}

// ---- observation ------------------------------------------------------------------------------

type c04ChObs struct {
	Ch    int     `json:"ch"`
	Ctx   *uint64 `json:"ctx"`
	IsSub bool    `json:"issub"`
	Hub   *uint64 `json:"hub"`
	NSubs int     `json:"nsubs"`
	Pres  bool    `json:"pres"`
	BSub  bool    `json:"bsub"`
	Deliv int     `json:"deliv"`
	FPres bool    `json:"fpres"`
	FJL   bool    `json:"fjl"`
}


type c04Obs struct {
	Chs     []c04ChObs `json:"chs"`
	Status  int        `json:"status"`
	Reg     bool       `json:"reg"`
	GConn   int64      `json:"gconn"`
	GSub    int64      `json:"gsub"`
	Trace   []c04Ev    `json:"trace"`
	Settled bool       `json:"settled"`
	Panic   bool       `json:"panic"`
	Stuck   string     `json:"stuck,omitempty"`
	Drained bool       `json:"drained"`
	Snaps   [][]c04Snap `json:"snaps"`
	Extra   uint64      `json:"extra"` // tracked keys left in the shared poll manager
}

type c04Snap struct {
	N     int  `json:"n"`
	BSub  bool `json:"b"`
	Free  bool `json:"f"`
	IsSub bool `json:"s"`
}

// c04GaugeSum: the gauge as the driver observes it = the sum over its label sets of |value|: every series has
// to return to its prior value (0) on its own, a +1 on one label set is not offset by a -1 on another.
func c04GaugeSum(g *prometheus.GaugeVec) int64 {
	chm := make(chan prometheus.Metric, 64)
	go func() { g.Collect(chm); close(chm) }()
	var sum float64
	for m := range chm {
		var d dto.Metric
		if m.Write(&d) == nil && d.Gauge != nil {
			sum += math.Abs(d.Gauge.GetValue())
		}
	}
	return int64(sum)
}

func (e *c04Eng) observe() c04Obs {
	c, n := e.client, e.node
	var o c04Obs
	// a marker publication per channel, delivered through the real hub broadcast and client writer
	e.mu.Lock()
	e.bypass, e.bypassDec = true, true
	e.mu.Unlock()
	expect := 0
	for _, ch := range e.chs {
		sh := n.hub.subShards[index(ch, numHubShards)]
		sh.mu.RLock()
		if _, ok := sh.subs[ch][c.uid]; ok {
			expect++
		}
		sh.mu.RUnlock()
		_, _ = n.Publish(ch, []byte(`{"marker":1}`))
	}
	deadline := time.Now().Add(150 * time.Millisecond)
	for {
		got := 0
		for _, ch := range e.chs {
			got += e.tr.count(ch)
		}
		if got >= expect && (expect > 0 || time.Now().After(deadline.Add(-149*time.Millisecond))) {
			break
		}
		if time.Now().After(deadline) {
			break
		}
		time.Sleep(200 * time.Microsecond)
	}
	if expect > 0 {
		time.Sleep(300 * time.Microsecond) // room for a (wrong) duplicate to arrive
	}
	for i, ch := range e.chs {
		co := c04ChObs{Ch: i}
		c.mu.RLock()
		if ctx, ok := c.channels[ch]; ok {
			g := ctx.subGen
			co.Ctx = &g
			if channelHasFlag(ctx.flags, flagSubscribed) {
				co.FPres = channelHasFlag(ctx.flags, flagEmitPresence)
				co.FJL = channelHasFlag(ctx.flags, flagEmitJoinLeave)
			}
		}
		c.mu.RUnlock()
		co.IsSub = c.IsSubscribed(ch)
		inList := false
		for _, x := range c.Channels() {
			if x == ch {
				inList = true
			}
		}
		if inList != co.IsSub {
			e.stuck = "Channels() and IsSubscribed disagree"
		}
		sh := n.hub.subShards[index(ch, numHubShards)]
		sh.mu.RLock()
		cnt := 0
		for uid, si := range sh.subs[ch] {
			if si.client == c {
				cnt++
				g := si.subGen
				co.Hub = &g
				if uid != c.uid {
					cnt += 100
				}
			}
		}
		sh.mu.RUnlock()
		if cnt > 1 {
			e.stuck = "more than one hub entry for the connection"
		}
		co.NSubs = n.hub.NumSubscribers(ch)
		if pr, err := n.Presence(ch); err == nil {
			if info, ok := pr.Presence[c.uid]; ok {
				co.Pres = true
				if info.ClientID != c.uid || info.UserID != "u1" {
					e.stuck = "presence entry carries wrong client/user info"
				}
			}
		}
		e.mu.Lock()
		co.BSub = e.bsub[ch] || e.bsubMap[ch]
		e.mu.Unlock()
		co.Deliv = e.tr.count(ch)
		o.Chs = append(o.Chs, co)
	}
	c.mu.RLock()
	o.Status = int(c.status)
	c.mu.RUnlock()
	cs := n.hub.connShards[index("u1", numHubShards)]
	cs.mu.RLock()
	_, inClients := cs.clients[c.uid]
	_, inUsers := cs.users["u1"][c.uid]
	cs.mu.RUnlock()
	if inClients != inUsers {
		e.stuck = "hub clients and users maps disagree"
	}
	o.Reg = inClients
	if n.sharedPollManager != nil {
		_, keys := n.sharedPollManager.stats()
		o.Extra = uint64(keys)
	}
	o.GConn = c04GaugeSum(n.metrics.connectionsInflight)
	o.GSub = c04GaugeSum(n.metrics.subscriptionsInflight)
	e.mu.Lock()
	o.Trace = append([]c04Ev(nil), e.trace...)
	o.Settled = len(e.parks) == 0
	for _, th := range e.threads {
		if !th.done {
			o.Settled = false
		}
	}
	o.Panic = e.panicked
	o.Stuck = e.stuck
	e.mu.Unlock()
	if closing, closed, muFree := e.closeState(); closing && (!closed || !muFree) {
		o.Settled = false
	}
	return o
}

func c04OptN(p *uint64) string {
	if p == nil {
		return "None"
	}
	return vOpt(vN(*p), true)
}

func (e *c04Eng) evCoq(ev c04Ev) string {
	c := vN(e.chIdx(ev.Ch))
	switch ev.Kind {
	case "subcb":
		return vApp("OSubCb", c)
	case "join":
		return vApp("OJoin", c)
	case "leave":
		return vApp("OLeave", c)
	case "unsubcb":
		return vApp("OUnsubCb", c)
	case "connectcb":
		return "OConnectCb"
	case "disconnectcb":
		return "ODisconnectCb"
	}
	return "OAliveCb"
}

func (e *c04Eng) obsCoq(o c04Obs) string {
	var chs, tr []string
	for _, c := range o.Chs {
		chs = append(chs, vApp("mkChObs", vN(uint64(c.Ch)), c04OptN(c.Ctx), vBool(c.IsSub), c04OptN(c.Hub),
			vN(uint64(c.NSubs)), vBool(c.Pres), vBool(c.BSub), vN(uint64(c.Deliv)), vBool(c.FPres), vBool(c.FJL)))
	}
	for _, ev := range o.Trace {
		tr = append(tr, e.evCoq(ev))
	}
	var snaps []string
	for _, row := range o.Snaps {
		var xs []string
		for _, sn := range row {
			xs = append(xs, vApp("mkSnap", vN(uint64(sn.N)), vBool(sn.BSub), vBool(sn.Free), vBool(sn.IsSub)))
		}
		snaps = append(snaps, vList(xs))
	}
	return vApp("mkObs", vList(chs), vN(uint64(o.Status)), vBool(o.Reg), vZ(o.GConn), vZ(o.GSub), vList(tr),
		vBool(o.Settled && o.Stuck == ""), vBool(o.Panic), vBool(o.Drained), vList(snaps), vN(o.Extra))
}

// ---- cases ------------------------------------------------------------------------------------

var c04Timing = false

type c04Result struct {
	Term    string
	JS      map[string]any
	Class   string
	Nontriv bool
}

type c04ConnSub struct {
	Ch   int
	Opts c04Opts
}

type c04Plan struct {
	Name   string
	Key    string // canonical finding key (props JSON finding_key = "key")
	Armed  []c04Gk
	NCh    int
	Map    bool // node with a map broker and two published keys per channel (map-subscribe templates)
	Keyed  bool // shared-poll channels (keyed tracking templates)
	MapPres bool // client subscriptions combine EmitPresence with a map client-presence channel
	AcceptProto bool // set by c04RunPlan for every other seed: per-accept-protocol connection gauge
	DeltaPos    bool // positioned client subscriptions with fossil delta (driver-only cases)
	// NoModel: the schedule uses routes outside the Coq model (connect-time subscriptions, keyed tracking):
	// the case is marked CNoModel and judged by the oracle on the observed end state only
	NoModel  bool
	ConnSubs []c04ConnSub // connect-time server-side subscriptions returned by OnConnecting
	Script func(e *c04Eng, r *rand.Rand)
	Drain  bool
	Finish func(e *c04Eng) // replaces the default "release everything (and drain)" ending
}

func c04Finish(e *c04Eng, drain bool) {
	// release everything that is still parked (ok), until all threads are done
	for i := 0; i < 200; i++ {
		ps := e.parked()
		if len(ps) == 0 {
			break
		}
		e.release(ps[0], true)
	}
	if drain {
		e.drain()
		for i := 0; i < 50; i++ {
			ps := e.parked()
			if len(ps) == 0 {
				break
			}
			e.release(ps[0], true)
		}
	}
}

func c04RunPlan(p c04Plan, seed int64) (res c04Result) {
	p.AcceptProto = seed&1 == 1
	for try := 0; ; try++ {
		var unsafe bool
		res, unsafe = c04RunPlanOnce(p, rand.New(rand.NewSource(seed)))
		if !unsafe || try >= 5 {
			if unsafe {
				res.Class = "timing-unsafe"
			}
			return res
		}
	}
}

func c04RunPlanOnce(p c04Plan, r *rand.Rand) (res c04Result, unsafe bool) {
	e, err := c04NewEngCfg(p.Armed, p.NCh, c04EngCfg{Map: p.Map, Keyed: p.Keyed, MapPres: p.MapPres, AcceptProto: p.AcceptProto})
	if err != nil {
		return c04Result{Term: "", JS: map[string]any{"error": err.Error()}, Class: "setup-error"}, false
	}
	t0 := time.Now()
	defer func() {
		t3 := time.Now()
		e.shutdown()
		if c04Timing {
			fmt.Printf("timing %s: total-before-shutdown %v shutdown %v\n", p.Name, t3.Sub(t0), time.Since(t3))
		}
	}()
	e.deltaPos = p.DeltaPos
	e.noSnap = p.NoModel
	if len(p.ConnSubs) > 0 {
		e.connSubs = map[string]SubscribeOptions{}
		for _, cs := range p.ConnSubs {
			e.connSubs[e.chs[cs.Ch]] = SubscribeOptions{EmitPresence: cs.Opts.Pres, EmitJoinLeave: cs.Opts.JL}
		}
	}
	if p.NoModel {
		e.addCmd("CNoModel", "no model: oracle only")
	}
	p.Script(e, r)
	if p.Finish != nil {
		p.Finish(e)
	} else {
		c04Finish(e, p.Drain)
	}
	t1 := time.Now()
	o := e.observe()
	o.Drained = p.Drain
	o.Snaps = e.snaps
	if c04Timing {
		fmt.Printf("timing %s: script %v observe %v cmds %d\n", p.Name, t1.Sub(t0), time.Since(t1), len(e.cmdsCoq))
	}
	var armed []string
	for _, k := range p.Armed {
		armed = append(armed, c04GkNames[k])
	}
	sort.Strings(armed)
	term := vApp("mkCase", vList(armed), vList(e.cmdsCoq), e.obsCoq(o))
	nsub := 0
	for _, ev := range o.Trace {
		if ev.Kind == "subcb" || ev.Kind == "unsubcb" || ev.Kind == "join" {
			nsub++
		}
	}
	return c04Result{Term: term, Class: p.Name, Nontriv: len(e.cmdsCoq) >= 4 && o.Stuck == "",
		JS: map[string]any{"plan": p.Name, "key": p.Key, "armed": armed, "cmds": e.cmdsJS, "obs": o,
			"jl": c04JLClass(o, e.chs)}}, e.timingUnsafe
}

// ---- plans ------------------------------------------------------------------------------------

func c04RandOpts(r *rand.Rand) c04Opts { return c04Opts{Pres: r.Intn(2) == 0, JL: r.Intn(2) == 0} }

func c04RandArmed(r *rand.Rand) []c04Gk {
	var out []c04Gk
	p := 20 + r.Intn(60)
	for k := c04Gk(0); k < c04NumGk; k++ {
		// PublishJoin is always a gate: the subscriber releases the wait gate BEFORE it publishes the join,
		// so with an ungated join the woken unsubscribe's leave and the join race for real (see C07)
		if r.Intn(100) < p || k == c04GkJoin {
			out = append(out, k)
		}
	}
	return out
}

// c04Connect performs the connect command (releasing the connect handler when it is armed).
func c04Connect(e *c04Eng) {
	e.spawn(c04Op{Kind: "connect"})
	for _, p := range e.parked() {
		if p.kind == c04GkConnH {
			e.release(p, true)
		}
	}
}

// c04RandomWalk: random interleaving of operation starts and gate releases.
func c04RandomWalk(steps int) func(e *c04Eng, r *rand.Rand) { return c04RandomWalkOpt(steps, 0) }

// c04RandomWalkOpt: preferJoin = percentage of release choices that pick a parked PublishJoin first.
func c04RandomWalkOpt(steps int, preferJoin int) func(e *c04Eng, r *rand.Rand) {
	return func(e *c04Eng, r *rand.Rand) {
		nch := len(e.chs)
		if r.Intn(100) < 92 {
			if r.Intn(100) < 85 {
				c04Connect(e)
			} else {
				e.spawn(c04Op{Kind: "connect"})
			}
		}
		for i := 0; i < steps; i++ {
			ps := e.parked()
			if len(ps) > 0 && r.Intn(100) < 45 {
				p := ps[r.Intn(len(ps))]
				if r.Intn(100) < preferJoin {
					for _, q := range ps {
						if q.kind == c04GkJoin {
							p = q
						}
					}
				}
				b := r.Intn(100) < 85
				e.release(p, b)
				if p.kind == c04GkBrokerUnsub && !b {
					e.drain() // the failed job re-queues itself after its 500 ms cool-down
				}
				continue
			}
			x := r.Intn(100)
			ch := r.Intn(nch)
			var o c04Op
			switch {
			case x < 25:
				o = c04Op{Kind: "subcli", Ch: ch, Opts: c04RandOpts(r)}
			case x < 40:
				o = c04Op{Kind: "subsrv", Ch: ch, Opts: c04RandOpts(r)}
			case x < 55:
				o = c04Op{Kind: "unsubcli", Ch: ch}
			case x < 65:
				o = c04Op{Kind: "unsubsrv", Ch: ch}
			case x < 75:
				o = c04Op{Kind: "tick"}
			case x < 80:
				o = c04Op{Kind: "close"}
			case x < 88:
				e.otherAdd(ch, r.Intn(100) < 85)
				continue
			case x < 94:
				e.otherRem(ch)
				continue
			case x < 96:
				o = c04Op{Kind: "connect"}
			default:
				continue
			}
			if e.enabled(o) {
				e.spawn(o)
			}
		}
	}
}

func c04Plans(i int, r *rand.Rand, drain bool) c04Plan {
	switch {
	case i%4 == 0:
		// sequential: nothing parks, every operation runs to completion before the next starts
		return c04Plan{Name: "sequential", NCh: 2, Script: c04RandomWalk(6 + r.Intn(14)), Drain: drain}
	default:
		return c04Plan{Name: "random-gated", NCh: 1 + r.Intn(2), Armed: c04RandArmed(r), Script: c04RandomWalk(6 + r.Intn(18)), Drain: drain}
	}
}

// c04RunAll runs the cases of one driver in parallel (each on its own Node) and emits them in index order.
func c04RunAll(w *verifW, mk func(i int, r *rand.Rand) c04Plan) { c04RunAllKey(w, nil, mk) }

// c04RunAllKey: as c04RunAll; the canonical finding key of a case (JSON field "key") is the plan's Key,
// or what classify says about the observation when the plan has none.
func c04RunAllKey(w *verifW, classify func(o c04Obs) string, mk func(i int, r *rand.Rand) c04Plan) {
	type job struct{ i int }
	results := make([]*c04Result, w.N)
	var wg sync.WaitGroup
	sem := make(chan struct{}, 8)
	for i := 0; i < w.N; i++ {
		if !w.Want(i) {
			continue
		}
		wg.Add(1)
		sem <- struct{}{}
		go func(i int) {
			defer wg.Done()
			defer func() { <-sem }()
			res := c04RunPlan(mk(i, w.Rand(i)), w.Rand(i+1<<20).Int63())
			if k, _ := res.JS["key"].(string); k == "" && classify != nil {
				if o, ok := res.JS["obs"].(c04Obs); ok {
					res.JS["key"] = classify(o)
				}
			}
			results[i] = &res
		}(i)
	}
	wg.Wait()
	for i, res := range results {
		if res == nil {
			continue
		}
		if res.Term == "" {
			w.t.Fatalf("case %d: %v", i, res.JS)
		}
		w.Case(i, res.Term, res.JS, res.Class, res.Nontriv)
	}
}


// c04JLClass classifies the observed join/leave word of each channel the way Harness/C07.v's oracle does;
// the result is the canonical finding key of the case ("" when the property holds).
func c04JLClass(o c04Obs, chs []string) string {
	for i, ch := range chs {
		open := 0
		for _, ev := range o.Trace {
			if ev.Ch != ch {
				continue
			}
			switch ev.Kind {
			case "join":
				open++
			case "leave":
				if open == 0 {
					return "C07-leave-before-join"
				}
				open--
			}
		}
		if o.Settled && o.Stuck == "" && i < len(o.Chs) {
			want := 0
			if o.Chs[i].IsSub && o.Chs[i].FJL {
				want = 1
			}
			if open != want {
				return "C07-join-leave-unbalanced"
			}
		}
	}
	return ""
}
