package centrifuge

// Shared machinery of the C17 / C19 / C43 / C02 / C03 drivers: an operation language for the
// memory stream broker, an executor that runs the operations on a REAL MemoryBroker inside a
// testing/synctest bubble (virtual clock: time.Now / timers / the real sweeper goroutines all run
// on fake time), and printers to the Coq terms of Cfg.Model.MemStream.

import (
	"context"
	"fmt"
	"math/rand"
	"strconv"
	"sync"
	"time"
)

// ---- operation language (mirrors Model/MemStream.v) ----

type c17Popts struct {
	Size int    `json:"size"`
	TTL  int64  `json:"ttl_ms"`
	Meta int64  `json:"meta_ms"`
	Key  int    `json:"key,omitempty"`
	RTTL int64  `json:"rttl_ms,omitempty"`
	Ver  uint64 `json:"ver,omitempty"`
	Vep  int    `json:"vep,omitempty"`
	// Tags are attached to the real publication only (tags filters of C02/C03); the broker model ignores them.
	Tags map[string]string `json:"tags,omitempty"`
}

type c17Since struct {
	Off uint64 `json:"off"`
	Ep  uint64 `json:"ep"` // epoch index: 0 = "", k = k-th epoch seen, >= 1000000 = foreign
}

type c17Op struct {
	Kind  string    `json:"op"` // pub hist rem adv sweepE sweepR sweepC
	Ch    int       `json:"ch,omitempty"`
	ID    uint64    `json:"id,omitempty"`
	P     *c17Popts `json:"p,omitempty"`
	Since *c17Since `json:"since,omitempty"`
	Limit int       `json:"limit,omitempty"`
	Rev   bool      `json:"rev,omitempty"`
	Meta  int64     `json:"meta_ms,omitempty"`
	D     int64     `json:"d_ms,omitempty"`
}

type c17Deliv struct {
	Ch   int    `json:"ch"`
	ID   uint64 `json:"id"`
	POff uint64 `json:"pub_off"`
	Off  uint64 `json:"off"`
	Ep   uint64 `json:"ep"`
}

type c17Out struct {
	Kind  string      `json:"out"` // pub hist unit err
	Off   uint64      `json:"off,omitempty"`
	Ep    uint64      `json:"ep,omitempty"`
	Supp  int         `json:"supp,omitempty"`
	Deliv []c17Deliv  `json:"deliv,omitempty"`
	Items [][2]uint64 `json:"items,omitempty"`
	Code  uint64      `json:"code,omitempty"`
	Msg   string      `json:"msg,omitempty"`
}

const c17Foreign = 1000000

func c17ChName(ch int) string { return "c17ch" + strconv.Itoa(ch) }

func c17CoqPopts(p *c17Popts) string {
	return vApp("mkPopts", vZ(int64(p.Size)), vN(uint64(p.TTL)), vN(uint64(p.Meta)), vN(uint64(p.Key)),
		vN(uint64(p.RTTL)), vN(p.Ver), vN(uint64(p.Vep)))
}

func c17CoqFilter(since *c17Since, limit int, rev bool) string {
	s := "None"
	if since != nil {
		s = "(Some " + vPair(vN(since.Off), vN(since.Ep)) + ")"
	}
	return vApp("mkFilter", s, vZ(int64(limit)), vBool(rev))
}

func c17CoqOp(o c17Op) string {
	switch o.Kind {
	case "pub":
		return vApp("Publish", vN(uint64(o.Ch)), vN(o.ID), c17CoqPopts(o.P))
	case "hist":
		return vApp("History", vN(uint64(o.Ch)), c17CoqFilter(o.Since, o.Limit, o.Rev), vN(uint64(o.Meta)))
	case "rem":
		return vApp("Remove", vN(uint64(o.Ch)))
	case "adv":
		return vApp("Advance", vN(uint64(o.D)))
	case "sweepE":
		return "SweepExpire"
	case "sweepR":
		return "SweepRemove"
	case "sweepC":
		return "SweepCache"
	}
	panic("c17: unknown op " + o.Kind)
}

func c17CoqItems(items [][2]uint64) string {
	xs := make([]string, len(items))
	for i, it := range items {
		xs[i] = vApp("mkItem", vN(it[0]), vN(it[1]))
	}
	return vList(xs)
}

func c17CoqOut(o c17Out) string {
	switch o.Kind {
	case "pub":
		ds := make([]string, len(o.Deliv))
		for i, d := range o.Deliv {
			ds[i] = vApp("mkDeliv", vN(uint64(d.Ch)), vN(d.ID), vN(d.POff), vN(d.Off), vN(d.Ep))
		}
		return vApp("OPub", vN(o.Off), vN(o.Ep), vN(uint64(o.Supp)), vList(ds))
	case "hist":
		return vApp("OHist", c17CoqItems(o.Items), vN(o.Off), vN(o.Ep))
	case "unit":
		return "OUnit"
	default:
		return vApp("OErr", vN(o.Code))
	}
}

func c17CoqOps(ops []c17Op) string {
	xs := make([]string, len(ops))
	for i, o := range ops {
		xs[i] = c17CoqOp(o)
	}
	return vList(xs)
}

func c17CoqOuts(outs []c17Out) string {
	xs := make([]string, len(outs))
	for i, o := range outs {
		xs[i] = c17CoqOut(o)
	}
	return vList(xs)
}

// ---- recording broker event handler ----

type c17Handler struct {
	mu    sync.Mutex
	env   *c17Env
	deliv []c17Deliv
	inner BrokerEventHandler // optional: forward to the node
}

func c17ParseID(data []byte) uint64 {
	v, err := strconv.ParseUint(string(data), 10, 64)
	if err != nil {
		return 999999999
	}
	return v
}

func c17ChIndex(ch string) int {
	if len(ch) > 5 && ch[:5] == "c17ch" {
		if v, err := strconv.Atoi(ch[5:]); err == nil {
			return v
		}
	}
	return 99
}

func (h *c17Handler) HandlePublication(ch string, pub *Publication, sp StreamPosition, delta bool, prevPub *Publication) error {
	h.mu.Lock()
	h.deliv = append(h.deliv, c17Deliv{Ch: c17ChIndex(ch), ID: c17ParseID(pub.Data), POff: pub.Offset, Off: sp.Offset, Ep: h.env.epochIndex(sp.Epoch)})
	h.mu.Unlock()
	if h.inner != nil {
		return h.inner.HandlePublication(ch, pub, sp, delta, prevPub)
	}
	return nil
}
func (h *c17Handler) HandleJoin(ch string, info *ClientInfo) error {
	if h.inner != nil {
		return h.inner.HandleJoin(ch, info)
	}
	return nil
}
func (h *c17Handler) HandleLeave(ch string, info *ClientInfo) error {
	if h.inner != nil {
		return h.inner.HandleLeave(ch, info)
	}
	return nil
}

func (h *c17Handler) take() []c17Deliv {
	h.mu.Lock()
	defer h.mu.Unlock()
	d := h.deliv
	h.deliv = nil
	return d
}

// ---- executor ----

// c17Env drives one real MemoryBroker. It must be created and used inside a synctest bubble.
// Virtual time: the bubble starts at an integral second; the broker (and with it the three sweeper
// goroutines, each ticking every second from its start) is created at +700 ms, so sweeps happen at
// x.700 s. Operations are executed at instants that are never x.700, hence every operation is either
// strictly before or strictly after a sweep: the driver makes each sweeper tick explicit as
// [SweepCache; SweepExpire; SweepRemove] at the tick instant (the three loop bodies touch disjoint
// maps, and expire/remove commute on the streams map).
type c17Env struct {
	b       *MemoryBroker
	wrap    *c17BrokerWrap // set when the broker is attached to a Node
	h       *c17Handler
	now     int64 // virtual ms since the bubble start
	epochs  map[string]uint64
	epochOf []string // index -> epoch string (1-based)
	Ops     []c17Op
	Outs    []c17Out
	Now0    int64
	Uniform bool // generator flag: per-channel constant TTLs
	Meta0   int64
	// interesting-state counters
	SawExpired, SawEpochChange, SawTrim, SawNonEmpty, SawSuppIdem, SawSuppVer int
	lastEpoch                                                           map[int]uint64
	lastTop                                                             map[int]uint64
}

const c17TickPhase = 700

// c17NewEnv: must be called inside a bubble at virtual time 0. node supplies config.HistoryMetaTTL.
func c17NewEnv(node *Node) *c17Env {
	e := &c17Env{epochs: map[string]uint64{}, lastEpoch: map[int]uint64{}, lastTop: map[int]uint64{}}
	time.Sleep(c17TickPhase * time.Millisecond)
	e.now = c17TickPhase
	e.Now0 = e.now
	e.Meta0 = node.config.HistoryMetaTTL.Milliseconds()
	b, err := NewMemoryBroker(node, MemoryBrokerConfig{})
	if err != nil {
		panic(err)
	}
	e.b = b
	e.h = &c17Handler{env: e}
	return e
}

// start launches the broker goroutines with the recording handler (optionally forwarding to inner).
func (e *c17Env) start(inner BrokerEventHandler) {
	e.h.inner = inner
	_ = e.b.RegisterBrokerEventHandler(e.h)
}

func (e *c17Env) close() { _ = e.b.Close(context.Background()) }

func (e *c17Env) epochIndex(s string) uint64 {
	if s == "" {
		return 0
	}
	if v, ok := e.epochs[s]; ok {
		return v
	}
	v := uint64(len(e.epochOf) + 1)
	e.epochs[s] = v
	e.epochOf = append(e.epochOf, s)
	return v
}

func (e *c17Env) epochString(idx uint64) string {
	if idx == 0 {
		return ""
	}
	if idx <= uint64(len(e.epochOf)) {
		return e.epochOf[idx-1]
	}
	return "zz-foreign-" + strconv.FormatUint(idx, 10)
}

func (e *c17Env) record(op c17Op, out c17Out) {
	e.Ops = append(e.Ops, op)
	e.Outs = append(e.Outs, out)
}

// advance moves the virtual clock by d ms and records the model operations that happened meanwhile.
// d is adjusted so that the clock never rests on a sweeper tick.
func (e *c17Env) advance(d int64) {
	if (e.now+d)%1000 == c17TickPhase {
		d += 100
	}
	target := e.now + d
	time.Sleep(time.Duration(d) * time.Millisecond)
	// ticks in (now, target]
	first := e.now - (e.now % 1000) + c17TickPhase
	if first <= e.now {
		first += 1000
	}
	var ticks []int64
	for t := first; t <= target; t += 1000 {
		ticks = append(ticks, t)
	}
	if len(ticks) > 6 {
		// idle sweeps collapse: sweeping at t and then at t' >= t with nothing in between equals
		// sweeping at t' (Proofs/MemStream.v, idle_ticks_collapse)
		ticks = ticks[len(ticks)-1:]
	}
	cur := e.now
	for _, t := range ticks {
		e.record(c17Op{Kind: "adv", D: t - cur}, c17Out{Kind: "unit"})
		e.record(c17Op{Kind: "sweepC"}, c17Out{Kind: "unit"})
		e.record(c17Op{Kind: "sweepE"}, c17Out{Kind: "unit"})
		e.record(c17Op{Kind: "sweepR"}, c17Out{Kind: "unit"})
		cur = t
	}
	if target > cur {
		e.record(c17Op{Kind: "adv", D: target - cur}, c17Out{Kind: "unit"})
	}
	e.now = target
}

func (e *c17Env) pubOptions(p *c17Popts) PublishOptions {
	o := PublishOptions{
		HistorySize:         p.Size,
		HistoryTTL:          time.Duration(p.TTL) * time.Millisecond,
		HistoryMetaTTL:      time.Duration(p.Meta) * time.Millisecond,
		IdempotentResultTTL: time.Duration(p.RTTL) * time.Millisecond,
		Version:             p.Ver,
		Tags:                p.Tags,
	}
	if p.Key != 0 {
		o.IdempotencyKey = "k" + strconv.Itoa(p.Key)
	}
	if p.Vep != 0 {
		o.VersionEpoch = "ve" + strconv.Itoa(p.Vep)
	}
	return o
}

func (e *c17Env) histOptions(op c17Op) HistoryOptions {
	o := HistoryOptions{Filter: HistoryFilter{Limit: op.Limit, Reverse: op.Rev}, MetaTTL: time.Duration(op.Meta) * time.Millisecond}
	if op.Since != nil {
		o.Filter.Since = &StreamPosition{Offset: op.Since.Off, Epoch: e.epochString(op.Since.Ep)}
	}
	return o
}

func c17Items(pubs []*Publication) [][2]uint64 {
	items := make([][2]uint64, 0, len(pubs))
	for _, p := range pubs {
		items = append(items, [2]uint64{p.Offset, c17ParseID(p.Data)})
	}
	return items
}

// do executes one generator-level operation on the real broker.
func (e *c17Env) do(op c17Op) (out c17Out) {
	if op.Kind == "adv" {
		e.advance(op.D)
		return c17Out{Kind: "unit"}
	}
	defer func() {
		if r := recover(); r != nil {
			out = c17Out{Kind: "err", Code: 1, Msg: fmt.Sprint("panic: ", r)}
		}
		e.record(op, out)
	}()
	switch op.Kind {
	case "pub":
		e.h.take()
		res, err := e.b.Publish(c17ChName(op.Ch), []byte(strconv.FormatUint(op.ID, 10)), e.pubOptions(op.P))
		if err != nil {
			return c17Out{Kind: "err", Code: 2, Msg: err.Error()}
		}
		supp := 0
		if res.Suppressed {
			switch res.SuppressReason {
			case SuppressReasonIdempotency:
				supp = 1
				e.SawSuppIdem++
			case SuppressReasonVersion:
				supp = 2
				e.SawSuppVer++
			default:
				supp = 9
			}
		} else if res.SuppressReason != "" {
			supp = 8
		}
		out = c17Out{Kind: "pub", Off: res.Offset, Ep: e.epochIndex(res.Epoch), Supp: supp, Deliv: e.h.take()}
		e.notePos(op.Ch, out.Off, out.Ep, supp == 0 && op.P.Size > 0 && op.P.TTL > 0)
		return out
	case "hist":
		pubs, sp, err := e.b.History(c17ChName(op.Ch), e.histOptions(op))
		if err != nil {
			return c17Out{Kind: "err", Code: 3, Msg: err.Error()}
		}
		out = c17Out{Kind: "hist", Items: c17Items(pubs), Off: sp.Offset, Ep: e.epochIndex(sp.Epoch)}
		if len(out.Items) > 0 {
			e.SawNonEmpty++
		}
		if op.Since == nil && op.Limit < 0 {
			if len(out.Items) == 0 && sp.Offset > 0 {
				e.SawExpired++
			}
			if len(out.Items) > 0 && uint64(len(out.Items)) < sp.Offset {
				e.SawTrim++
			}
		}
		e.notePos(op.Ch, out.Off, out.Ep, false)
		return out
	case "rem":
		if err := e.b.RemoveHistory(c17ChName(op.Ch)); err != nil {
			return c17Out{Kind: "err", Code: 4, Msg: err.Error()}
		}
		return c17Out{Kind: "unit"}
	}
	panic("c17: cannot execute " + op.Kind)
}

func (e *c17Env) notePos(ch int, top, ep uint64, stored bool) {
	if ep == 0 {
		return
	}
	if prev, ok := e.lastEpoch[ch]; ok && prev != ep {
		e.SawEpochChange++
	}
	e.lastEpoch[ch] = ep
	e.lastTop[ch] = top
}

// ---- generator pieces shared by the drivers ----

func c17Node(meta time.Duration, forceZero bool) *Node {
	n, err := New(Config{LogLevel: LogLevelNone, HistoryMetaTTL: meta})
	if err != nil {
		panic(err)
	}
	if forceZero {
		n.config.HistoryMetaTTL = 0 // the hub-level "never discard metadata" branch
	}
	return n
}



func c17Pick[T any](r *rand.Rand, xs ...T) T { return xs[r.Intn(len(xs))] }

func (e *c17Env) genHistory(r *rand.Rand, ch int) c17Op {
	op := c17Op{Kind: "hist", Ch: ch}
	op.Limit = c17Pick(r, -1, -1, -1, 0, 1, 2, 3, 10, -5)
	op.Rev = r.Intn(100) < 35
	op.Meta = c17Pick[int64](r, 0, 0, 2000, 4000)
	if r.Intn(100) < 60 {
		top := e.lastTop[ch]
		var off uint64
		switch r.Intn(12) {
		case 0:
			off = 0
		case 1:
			off = 1
		case 2:
			if top > 0 {
				off = top - 1
			}
		case 3, 4:
			off = top
		case 5:
			off = top + 1
		case 6:
			off = top + 2
		case 7:
			off = top + 3 + uint64(r.Intn(5))
		default:
			off = uint64(r.Int63n(int64(top) + 2))
		}
		if op.Rev && off == 0 && r.Intn(4) != 0 {
			off = 1 // reverse since 0 is outside the property's domain (node rejects it): keep it rare
		}
		var ep uint64
		switch x := r.Intn(100); {
		case x < 60:
			ep = e.lastEpoch[ch]
		case x < 75:
			ep = 0
		case x < 85 && len(e.epochOf) > 0:
			ep = uint64(1 + r.Intn(len(e.epochOf)))
		default:
			ep = c17Foreign + uint64(r.Intn(3))
		}
		op.Since = &c17Since{Off: off, Ep: ep}
	}
	return op
}

func c17GenPopts(r *rand.Rand) *c17Popts {
	p := &c17Popts{}
	p.Size = c17Pick(r, 1, 2, 2, 3, 3, 5, 5, 8)
	p.TTL = c17Pick[int64](r, 1000, 2000, 2000, 3000, 3000, 1500, 500, 10000)
	p.Meta = c17Pick[int64](r, 0, 0, 0, 2000, 4000, 4000, 60000)
	if r.Intn(40) == 0 {
		p.Size = c17Pick(r, 0, -1)
	}
	if r.Intn(40) == 0 {
		p.TTL = 0
	}
	return p
}

func c17GenAdvance(r *rand.Rand) int64 {
	switch x := r.Intn(100); {
	case x < 50:
		return c17Pick[int64](r, 100, 300, 500, 1000, 1000)
	case x < 90:
		return c17Pick[int64](r, 2000, 2000, 3000, 4000)
	case x < 97:
		return 10000
	default:
		return 400000
	}
}

// ---- a full Node on top of the recorded broker (C43 / C02 / C03 drivers) ----

// c17BrokerWrap makes Node.Run register the recording handler (which forwards to the node) and lets a
// driver act inside the node's own Broker.History calls (natural gate): hold the first call for a
// channel until released, or run a hook right after the first read of a channel.
type c17BrokerWrap struct {
	*MemoryBroker
	env      *c17Env
	mu       sync.Mutex
	gateCh   string
	gate     chan struct{} // the next History(gateCh) waits for this channel to be closed BEFORE reading
	hookCh   string
	hook     func() // runs once, right AFTER the next History(hookCh) read
	hookRuns int
}

func (w *c17BrokerWrap) RegisterBrokerEventHandler(h BrokerEventHandler) error {
	w.env.start(h)
	return nil
}

func (w *c17BrokerWrap) History(ch string, opts HistoryOptions) ([]*Publication, StreamPosition, error) {
	w.mu.Lock()
	var g chan struct{}
	if w.gate != nil && ch == w.gateCh {
		g, w.gate = w.gate, nil
	}
	w.mu.Unlock()
	if g != nil {
		<-g
	}
	pubs, sp, err := w.MemoryBroker.History(ch, opts)
	w.mu.Lock()
	var f func()
	if w.hook != nil && ch == w.hookCh {
		f, w.hook = w.hook, nil
		w.hookRuns++
	}
	w.mu.Unlock()
	if f != nil {
		f()
	}
	return pubs, sp, err
}

// c17NewNodeEnv must be called inside a synctest bubble at virtual time 0. It creates a Node whose
// broker is a real MemoryBroker (sweepers ticking at x.700 s) and runs it. zeroMeta forces the
// hub-level meta TTL to 0 (never discard metadata).
func c17NewNodeEnv(cfg Config, zeroMeta bool, setup func(n *Node)) (*c17Env, *Node) {
	cfg.LogLevel = LogLevelNone
	n, err := New(cfg)
	if err != nil {
		panic(err)
	}
	if zeroMeta {
		n.config.HistoryMetaTTL = 0
	}
	e := c17NewEnv(n) // sleeps to x.700 and creates the broker
	e.wrap = &c17BrokerWrap{MemoryBroker: e.b, env: e}
	n.SetBroker(e.wrap)
	if setup != nil {
		setup(n)
	}
	if err := n.Run(); err != nil {
		panic(err)
	}
	return e, n
}

// c17CloseNode shuts the node down and lets the remaining timers of the bubble run out.
func c17CloseNode(n *Node, clients ...*Client) {
	for _, c := range clients {
		_ = c.close(DisconnectForceNoReconnect)
	}
	_ = n.Shutdown(context.Background())
	time.Sleep(5 * time.Second)
}
