package centrifuge

import (
	"context"
	"encoding/json"
	"runtime"
	"io"
	"math/rand"
	"sort"
	"strings"
	"sync"
	"testing"
	"time"

	"github.com/centrifugal/protocol"
)

// C28 driver: Node.Unsubscribe(user, "", opts...) (and a minority of single-channel calls) on a real
// node -- optionally with a second node joined through an in-memory Controller -- against
// connections with 0..3 subscriptions each; observes Client.channels, hub routing, OnUnsubscribe
// callbacks, PublishLeave, RemovePresence and the unsubscribe pushes written to the transports.

type c28Chan struct {
	Name      string `json:"name"`
	Server    bool   `json:"server"`
	Presence  bool   `json:"presence"`
	JoinLeave bool   `json:"joinleave"`
}

type c28Conn struct {
	User   string            `json:"user"`
	Uni    bool              `json:"uni"` // unidirectional transport => has a session id
	Labels map[string]string `json:"labels,omitempty"`
	Closed bool              `json:"closed,omitempty"`
	Chans  []c28Chan         `json:"chans"`
	// client-side subscribe attempts whose OnSubscribe callback is parked by the driver when
	// Node.Unsubscribe is called and answered (OK or rejected) while the call is waiting
	Inflight []c28Attempt `json:"inflight,omitempty"`
}

type c28Attempt struct {
	Chan c28Chan `json:"chan"`
	OK   bool    `json:"ok"`
}

type c28Target struct {
	User     string `json:"user"`
	Client   int    `json:"client"`  // 0 none, k>0: id of k-th connection (global numbering), -1 bogus
	Session  int    `json:"session"` // same convention (session of k-th connection)
	Filter   string `json:"filter"`  // "" none, "k=v" eq leaf, "!k=v" not(eq)
	AllUsers bool   `json:"all_users"`
	Custom   bool   `json:"custom"` // WithCustomUnsubscribe{Code: 2500}
	Channel  string `json:"channel"`
}

type c28Input struct {
	Nodes  [][]c28Conn `json:"nodes"` // node 0 is the caller
	Target c28Target   `json:"target"`
}

type c28Event struct {
	Kind   string `json:"kind"` // presence | leave | callback | push
	Client int    `json:"client"`
	Chan   string `json:"chan"`
	Server bool   `json:"server,omitempty"`
	Code   uint32 `json:"code,omitempty"`
}

type c28ObsConn struct {
	Chans []string `json:"chans"`
	Hub   []string `json:"hub"`
}

type c28Log struct {
	mu   sync.Mutex
	evs  []c28Event
	cids map[string]int
}

func (l *c28Log) add(kind, clientID, ch string, server bool, code uint32) {
	l.mu.Lock()
	defer l.mu.Unlock()
	l.evs = append(l.evs, c28Event{Kind: kind, Client: l.cids[clientID], Chan: ch, Server: server, Code: code})
}

type c28Broker struct {
	*MemoryBroker
	log *c28Log
}

func (b *c28Broker) PublishLeave(ch string, info *ClientInfo) error {
	b.log.add("leave", info.ClientID, ch, false, 0)
	return b.MemoryBroker.PublishLeave(ch, info)
}

type c28Presence struct {
	log *c28Log
}

func (p *c28Presence) Presence(string) (map[string]*ClientInfo, error) {
	return map[string]*ClientInfo{}, nil
}
func (p *c28Presence) PresenceStats(string) (PresenceStats, error) { return PresenceStats{}, nil }
func (p *c28Presence) AddPresence(string, string, *ClientInfo) error { return nil }
func (p *c28Presence) RemovePresence(ch string, clientID string, _ string) error {
	p.log.add("presence", clientID, ch, false, 0)
	return nil
}

// in-memory Controller: synchronous delivery to every registered node.
type c28Cluster struct {
	mu       sync.Mutex
	handlers []ControlEventHandler
}

type c28Controller struct{ cl *c28Cluster }

func (c *c28Controller) RegisterControlEventHandler(h ControlEventHandler) error {
	c.cl.mu.Lock()
	defer c.cl.mu.Unlock()
	c.cl.handlers = append(c.cl.handlers, h)
	return nil
}

func (c *c28Controller) PublishControl(data []byte, _, _ string) error {
	c.cl.mu.Lock()
	hs := append([]ControlEventHandler{}, c.cl.handlers...)
	c.cl.mu.Unlock()
	for _, h := range hs {
		_ = h.HandleControl(data) // the sender ignores its own message (uid check in handleControl)
	}
	return nil
}

var c28Pool = []string{"a", "b", "c", "d"}
var c28Users = []string{"", "u1", "u2"}

func c28ChanN(name string) uint64 {
	for i, n := range c28Pool {
		if n == name {
			return uint64(i + 1)
		}
	}
	if name == "" {
		return 0
	}
	return 77
}

func c28UserN(u string) uint64 {
	for i, n := range c28Users {
		if n == u {
			return uint64(i)
		}
	}
	return 9
}

func c28Filter(s string) *FilterNode {
	if s == "" {
		return nil
	}
	neg := strings.HasPrefix(s, "!")
	s = strings.TrimPrefix(s, "!")
	kv := strings.SplitN(s, "=", 2)
	leaf := &FilterNode{Op: "", Key: kv[0], Cmp: "eq", Val: kv[1]}
	if neg {
		return &FilterNode{Op: "not", Nodes: []*FilterNode{leaf}}
	}
	return leaf
}

func c28GenConn(r *rand.Rand) c28Conn {
	c := c28Conn{User: c28Users[r.Intn(len(c28Users))], Uni: r.Intn(3) == 0}
	switch r.Intn(4) {
	case 0:
		c.Labels = map[string]string{"tier": "gold"}
	case 1:
		c.Labels = map[string]string{"tier": "free", "region": "eu"}
	}
	n := r.Intn(4)
	perm := r.Perm(len(c28Pool))
	for k := 0; k < n; k++ {
		c.Chans = append(c.Chans, c28Chan{Name: c28Pool[perm[k]], Server: c.Uni || r.Intn(3) == 0,
			Presence: r.Intn(3) == 0, JoinLeave: r.Intn(3) == 0})
	}
	if r.Intn(12) == 0 {
		c.Closed = true
	}
	if !c.Uni && !c.Closed && r.Intn(4) == 0 {
		m := 1 + r.Intn(2)
		for k := n; k < n+m && k < len(perm); k++ {
			c.Inflight = append(c.Inflight, c28Attempt{Chan: c28Chan{Name: c28Pool[perm[k]], Presence: r.Intn(3) == 0,
				JoinLeave: r.Intn(3) == 0}, OK: r.Intn(3) != 0})
		}
	}
	return c
}

func c28Gen(r *rand.Rand) c28Input {
	var in c28Input
	nn := 1
	if r.Intn(3) == 0 {
		nn = 2
	}
	total := 0
	for k := 0; k < nn; k++ {
		var conns []c28Conn
		m := r.Intn(4)
		if k == 0 && nn == 1 && m == 0 {
			m = 1
		}
		for j := 0; j < m; j++ {
			conns = append(conns, c28GenConn(r))
			total++
		}
		in.Nodes = append(in.Nodes, conns)
	}
	t := c28Target{User: c28Users[r.Intn(len(c28Users))]}
	if r.Intn(10) == 0 {
		t.User = "nobody"
	}
	if r.Intn(3) == 0 && total > 0 {
		t.Client = 1 + r.Intn(total)
		if r.Intn(8) == 0 {
			t.Client = -1
		}
	}
	if r.Intn(4) == 0 && total > 0 {
		t.Session = 1 + r.Intn(total)
		if r.Intn(8) == 0 {
			t.Session = -1
		}
	}
	if r.Intn(3) == 0 {
		t.Filter = []string{"tier=gold", "!tier=gold", "region=eu", "tier=free"}[r.Intn(4)]
	}
	t.AllUsers = r.Intn(3) == 0
	t.Custom = r.Intn(3) == 0
	if r.Intn(5) == 0 {
		t.Channel = append(c28Pool, "zz")[r.Intn(len(c28Pool)+1)]
	}
	// bias towards targets that hit something: align the user with an existing connection
	if r.Intn(2) == 0 && total > 0 && t.User != "nobody" && !(t.User == "" && t.AllUsers) {
		k := r.Intn(total)
		for _, conns := range in.Nodes {
			if k < len(conns) {
				t.User = conns[k].User
				break
			}
			k -= len(conns)
		}
	}
	in.Target = t
	return in
}

type c28Live struct {
	client *Client
	tr     *testTransport
	sink   chan []byte
	spec   c28Conn
	node   *Node
}

func c28Drain(t *testing.T, lv *c28Live, marker string) []*protocol.Push {
	// a message push enqueued now is written after everything enqueued before it
	var out []*protocol.Push
	if lv.spec.Closed {
		for {
			select {
			case <-lv.sink:
			default:
				return nil
			}
		}
	}
	if err := lv.client.Send([]byte(`"` + marker + `"`)); err != nil {
		t.Fatalf("send marker: %v", err)
	}
	deadline := time.After(10 * time.Second)
	for {
		select {
		case data := <-lv.sink:
			if lv.spec.Uni { // unidirectional transports carry bare Push objects
				var p protocol.Push
				if err := json.Unmarshal(data, &p); err != nil {
					t.Fatalf("decode push %q: %v", data, err)
				}
				if p.Message != nil && string(p.Message.Data) == `"`+marker+`"` {
					return out
				}
				out = append(out, &p)
				continue
			}
			dec := protocol.NewJSONReplyDecoder(data)
			for {
				rep, err := dec.Decode()
				if rep != nil && rep.Push != nil {
					if rep.Push.Message != nil && string(rep.Push.Message.Data) == `"`+marker+`"` {
						return out
					}
					out = append(out, rep.Push)
				}
				if err != nil {
					if err != io.EOF {
						t.Fatalf("decode: %v", err)
					}
					break
				}
			}
		case <-deadline:
			t.Fatalf("marker %s not seen", marker)
		}
	}
}

func c28Run(t *testing.T, in c28Input) (obs [][]c28ObsConn, evs []c28Event, lfm [][]bool, term string) {
	log := &c28Log{cids: map[string]int{}}
	cluster := &c28Cluster{}
	chanSpec := map[string]c28Chan{} // key clientID + "/" + channel
	labels := map[string]map[string]string{}
	parkSpec := map[string]c28Attempt{}
	var parked []func()
	var specMu sync.Mutex
	var nodes []*Node
	for range in.Nodes {
		n, err := New(Config{LogLevel: LogLevelNone})
		if err != nil {
			t.Fatal(err)
		}
		mb, err := NewMemoryBroker(n, MemoryBrokerConfig{})
		if err != nil {
			t.Fatal(err)
		}
		n.SetBroker(&c28Broker{MemoryBroker: mb, log: log})
		n.SetPresenceManager(&c28Presence{log: log})
		n.SetController(&c28Controller{cl: cluster})
		n.OnConnecting(func(_ context.Context, e ConnectEvent) (ConnectReply, error) {
			specMu.Lock()
			defer specMu.Unlock()
			return ConnectReply{Labels: labels[e.ClientID]}, nil
		})
		n.OnConnect(func(client *Client) {
			client.OnSubscribe(func(e SubscribeEvent, cb SubscribeCallback) {
				specMu.Lock()
				cs := chanSpec[client.ID()+"/"+e.Channel]
				att, parkIt := parkSpec[client.ID()+"/"+e.Channel]
				specMu.Unlock()
				answer := func() {
					if parkIt && !att.OK {
						cb(SubscribeReply{}, ErrorPermissionDenied)
						return
					}
					cb(SubscribeReply{Options: SubscribeOptions{EmitPresence: cs.Presence, EmitJoinLeave: cs.JoinLeave}}, nil)
				}
				if parkIt {
					specMu.Lock()
					parked = append(parked, answer)
					specMu.Unlock()
					return
				}
				answer()
			})
			client.OnUnsubscribe(func(e UnsubscribeEvent) {
				log.add("callback", client.ID(), e.Channel, e.ServerSide, e.Unsubscribe.Code)
			})
		})
		if err := n.Run(); err != nil {
			t.Fatal(err)
		}
		nodes = append(nodes, n)
	}
	defer func() {
		for _, n := range nodes {
			_ = n.Shutdown(context.Background())
		}
	}()

	var live [][]*c28Live
	var flat []*c28Live
	for ni, conns := range in.Nodes {
		var row []*c28Live
		for _, cs := range conns {
			ctx, cancel := context.WithCancel(context.Background())
			tr := newTestTransport(cancel)
			tr.setProtocolVersion(ProtocolVersion2)
			tr.setUnidirectional(cs.Uni)
			sink := make(chan []byte, 4096)
			tr.setSink(sink)
			client := newTestClientCustomTransport(t, ctx, nodes[ni], tr, cs.User)
			specMu.Lock()
			labels[client.ID()] = cs.Labels
			for _, ch := range cs.Chans {
				chanSpec[client.ID()+"/"+ch.Name] = ch
			}
			specMu.Unlock()
			lv := &c28Live{client: client, tr: tr, sink: sink, spec: cs, node: nodes[ni]}
			row = append(row, lv)
			flat = append(flat, lv)
			log.mu.Lock()
			log.cids[client.ID()] = len(flat)
			log.mu.Unlock()
			connectClientV2(t, client)
			for _, ch := range cs.Chans {
				if ch.Server {
					if err := client.Subscribe(ch.Name, WithEmitPresence(ch.Presence), WithEmitJoinLeave(ch.JoinLeave)); err != nil {
						t.Fatalf("server subscribe: %v", err)
					}
				} else {
					subscribeClientV2(t, client, ch.Name)
				}
			}
			if cs.Closed {
				_ = client.close(DisconnectForceNoReconnect)
			}
			for k, at := range cs.Inflight {
				specMu.Lock()
				chanSpec[client.ID()+"/"+at.Chan.Name] = at.Chan
				parkSpec[client.ID()+"/"+at.Chan.Name] = at
				specMu.Unlock()
				rw := testReplyWriterWrapper()
				if err := client.handleSubscribe(&protocol.SubscribeRequest{Channel: at.Chan.Name}, &protocol.Command{Id: uint32(100 + k)}, time.Now(), rw.rw); err != nil {
					t.Fatalf("in-flight subscribe: %v", err)
				}
			}
		}
		live = append(live, row)
	}
	for _, lv := range flat {
		c28Drain(t, lv, "pre")
	}
	log.mu.Lock()
	log.evs = nil
	log.mu.Unlock()

	// label-filter outcome per connection (input to the model; filter semantics is C15's subject)
	tg := in.Target
	f := c28Filter(tg.Filter)
	for _, row := range live {
		var ms []bool
		for _, lv := range row {
			ms = append(ms, matchLabelFilter(lv.client, f))
		}
		lfm = append(lfm, ms)
	}

	var opts []UnsubscribeOption
	clientN, sessionN := uint64(0), uint64(0)
	if tg.Client > 0 {
		opts = append(opts, WithUnsubscribeClient(flat[tg.Client-1].client.ID()))
		clientN = uint64(tg.Client)
	} else if tg.Client < 0 {
		opts = append(opts, WithUnsubscribeClient("no-such-client"))
		clientN = 98
	}
	if tg.Session > 0 {
		sid := flat[tg.Session-1].client.sessionID()
		if sid == "" { // bidirectional connections have no session: the option is then unset
			tg.Session = 0
		} else {
			opts = append(opts, WithUnsubscribeSession(sid))
			sessionN = uint64(tg.Session)
		}
	} else if tg.Session < 0 {
		opts = append(opts, WithUnsubscribeSession("no-such-session"))
		sessionN = 99
	}
	if f != nil {
		opts = append(opts, WithUnsubscribeLabelFilter(f))
	}
	if tg.AllUsers {
		opts = append(opts, WithUnsubscribeAllUsers(true))
	}
	code := uint64(unsubscribeServer.Code)
	if tg.Custom {
		opts = append(opts, WithCustomUnsubscribe(Unsubscribe{Code: 2500, Reason: "custom"}))
		code = 2500
	}
	if len(parked) == 0 {
		if err := nodes[0].Unsubscribe(tg.User, tg.Channel, opts...); err != nil {
			t.Fatalf("Node.Unsubscribe: %v", err)
		}
	} else {
		// the call takes its snapshot of each connection's channels and then waits on the subscribing
		// gates of the attempts in flight; the application answers them while it waits
		done := make(chan error, 1)
		go func() { done <- nodes[0].Unsubscribe(tg.User, tg.Channel, opts...) }()
		for k := 0; k < 20; k++ {
			runtime.Gosched()
		}
		time.Sleep(3 * time.Millisecond)
		for _, answer := range parked {
			answer()
		}
		select {
		case err := <-done:
			if err != nil {
				t.Fatalf("Node.Unsubscribe: %v", err)
			}
		case <-time.After(20 * time.Second):
			t.Fatalf("Node.Unsubscribe did not return after the in-flight subscribes were answered")
		}
	}

	for _, lv := range flat {
		for _, p := range c28Drain(t, lv, "post") {
			if p.Unsubscribe != nil {
				log.add("push", lv.client.ID(), p.Channel, false, p.Unsubscribe.Code)
			}
		}
	}
	log.mu.Lock()
	evs = append(evs, log.evs...)
	log.mu.Unlock()
	sort.SliceStable(evs, func(i, j int) bool {
		a, b := evs[i], evs[j]
		if a.Client != b.Client {
			return a.Client < b.Client
		}
		if a.Chan != b.Chan {
			return a.Chan < b.Chan
		}
		return a.Kind < b.Kind
	})

	// final state, channel names listed in the order of the initial state (then any extra name)
	for _, row := range live {
		var orow []c28ObsConn
		for _, lv := range row {
			oc := c28ObsConn{Chans: []string{}, Hub: []string{}}
			lv.client.mu.RLock()
			held := map[string]bool{}
			for ch := range lv.client.channels {
				held[ch] = true
			}
			lv.client.mu.RUnlock()
			order := []string{}
			seen := map[string]bool{}
			for _, ch := range lv.spec.Chans {
				order = append(order, ch.Name)
				seen[ch.Name] = true
			}
			for _, at := range lv.spec.Inflight {
				order = append(order, at.Chan.Name)
				seen[at.Chan.Name] = true
			}
			var extra []string
			for ch := range held {
				if !seen[ch] {
					extra = append(extra, ch)
				}
			}
			sort.Strings(extra)
			for _, ch := range append(order, extra...) {
				if held[ch] {
					oc.Chans = append(oc.Chans, ch)
				}
			}
			for _, ch := range append(append([]string{}, c28Pool...), "zz", "") {
				if !seen[ch] {
					order = append(order, ch)
				}
			}
			for _, ch := range order {
				sh := lv.node.hub.subShards[index(ch, numHubShards)]
				sh.mu.RLock()
				_, ok := sh.subs[ch][lv.client.ID()]
				sh.mu.RUnlock()
				if ok {
					oc.Hub = append(oc.Hub, ch)
				}
			}
			orow = append(orow, oc)
		}
		obs = append(obs, orow)
	}

	// ---- Coq term ----
	var nodeTerms, obsTerms []string
	k := 0
	for ni, row := range live {
		var cts, ots []string
		for ci, lv := range row {
			k++
			var chs []string
			if !lv.spec.Closed {
				for _, ch := range lv.spec.Chans {
					chs = append(chs, vApp("mkChan", vN(c28ChanN(ch.Name)), vBool(ch.Server), vBool(ch.Presence), vBool(ch.JoinLeave)))
				}
			}
			sess := uint64(0)
			if lv.client.sessionID() != "" {
				sess = uint64(k)
			}
			var ats []string
			for _, at := range lv.spec.Inflight {
				ats = append(ats, vPair(vApp("mkChan", vN(c28ChanN(at.Chan.Name)), "false", vBool(at.Chan.Presence), vBool(at.Chan.JoinLeave)), vBool(at.OK)))
			}
			cts = append(cts, vApp("mkConn", vN(uint64(k)), vN(c28UserN(lv.spec.User)), vN(sess),
				vBool(lfm[ni][ci]), vBool(lv.spec.Closed), vList(chs), vList(ats)))
			var a, b []string
			for _, ch := range obs[ni][ci].Chans {
				a = append(a, vN(c28ChanN(ch)))
			}
			for _, ch := range obs[ni][ci].Hub {
				b = append(b, vN(c28ChanN(ch)))
			}
			ots = append(ots, vApp("mkOConn", vN(uint64(k)), vList(a), vList(b)))
		}
		nodeTerms = append(nodeTerms, vList(cts))
		obsTerms = append(obsTerms, vList(ots))
	}
	var evTerms []string
	for _, e := range evs {
		cid, ch := vN(uint64(e.Client)), vN(c28ChanN(e.Chan))
		switch e.Kind {
		case "presence":
			evTerms = append(evTerms, vApp("EvPresenceRemove", cid, ch))
		case "leave":
			evTerms = append(evTerms, vApp("EvLeave", cid, ch))
		case "callback":
			evTerms = append(evTerms, vApp("EvCallback", cid, ch, vBool(e.Server), vN(uint64(e.Code))))
		case "push":
			evTerms = append(evTerms, vApp("EvPush", cid, ch, vN(uint64(e.Code))))
		}
	}
	target := vApp("mkTarget", vN(c28UserN(tg.User)), vN(clientN), vN(sessionN), vBool(f != nil), vBool(tg.AllUsers))
	term = vApp("mkCase", target, vN(code), vN(c28ChanN(tg.Channel)), vList(nodeTerms), vList(obsTerms), vList(evTerms))
	return
}

func TestVerifC28(t *testing.T) {
	w := verifOpen(t, "C28")
	defer w.Close()
	one := func(user string, chans ...c28Chan) c28Conn { return c28Conn{User: user, Chans: chans} }
	a, b := c28Chan{Name: "a"}, c28Chan{Name: "b", Presence: true, JoinLeave: true}
	sc := c28Chan{Name: "c", Server: true}
	corpus := []c28Input{
		{Nodes: [][]c28Conn{{one("u1", a)}}, Target: c28Target{User: "u1"}},
		{Nodes: [][]c28Conn{{one("u1", a, b)}}, Target: c28Target{User: "u1"}},
		{Nodes: [][]c28Conn{{one("u1", a, b, sc), one("u2", a)}}, Target: c28Target{User: "u1", Custom: true}},
		{Nodes: [][]c28Conn{{}, {one("u1", a, b)}}, Target: c28Target{User: "u1"}},                   // remote only
		{Nodes: [][]c28Conn{{one("u1", a)}, {one("u1", b), one("u2", b)}}, Target: c28Target{User: "u1"}}, // local + remote
		{Nodes: [][]c28Conn{{one("", a), one("u1", a)}}, Target: c28Target{User: ""}},                // anonymous bucket only
		{Nodes: [][]c28Conn{{one("", a), one("u1", a)}, {one("u2", sc)}}, Target: c28Target{User: "", AllUsers: true}},
		{Nodes: [][]c28Conn{{one("u1", a), one("u1", b)}}, Target: c28Target{User: "u1", Client: 2}},
		{Nodes: [][]c28Conn{{{User: "u1", Uni: true, Chans: []c28Chan{sc}}, {User: "u1", Uni: true, Chans: []c28Chan{sc}}}}, Target: c28Target{User: "u1", Session: 1}},
		{Nodes: [][]c28Conn{{{User: "u1", Labels: map[string]string{"tier": "gold"}, Chans: []c28Chan{a}}, one("u1", a)}}, Target: c28Target{User: "u1", Filter: "tier=gold"}},
		{Nodes: [][]c28Conn{{one("u1")}}, Target: c28Target{User: "u1"}},                               // no subscriptions
		{Nodes: [][]c28Conn{{one("u1", a, b)}}, Target: c28Target{User: "u1", Channel: "a"}},          // single channel
		{Nodes: [][]c28Conn{{one("u1", a)}}, Target: c28Target{User: "u1", Channel: "zz"}},            // not subscribed: push only
		{Nodes: [][]c28Conn{{{User: "u1", Inflight: []c28Attempt{{Chan: a, OK: true}}}}}, Target: c28Target{User: "u1"}}, // attempt in flight, accepted
		{Nodes: [][]c28Conn{{{User: "u1", Chans: []c28Chan{a}, Inflight: []c28Attempt{{Chan: b, OK: true}, {Chan: c28Chan{Name: "c"}, OK: false}}}}}, Target: c28Target{User: "u1"}},
		{Nodes: [][]c28Conn{{one("u1", a)}, {{User: "u1", Inflight: []c28Attempt{{Chan: b, OK: true}}}}}, Target: c28Target{User: "u1"}}, // in flight on the remote node
		{Nodes: [][]c28Conn{{{User: "u2", Inflight: []c28Attempt{{Chan: a, OK: true}}}, one("u1", a)}}, Target: c28Target{User: "u1"}},       // in flight on a non-matching connection
	}
	for i := 0; i < w.N; i++ {
		if !w.Want(i) {
			continue
		}
		var in c28Input
		if i < len(corpus) {
			in = corpus[i]
		} else {
			in = c28Gen(w.Rand(i))
		}
		obs, evs, lfm, term := c28Run(t, in)
		class := "all-channels"
		if in.Target.Channel != "" {
			class = "single-channel"
		}
		for _, row := range in.Nodes {
			for _, c := range row {
				if len(c.Inflight) > 0 && !strings.Contains(class, "/inflight") {
					class += "/inflight"
				}
			}
		}
		if len(in.Nodes) > 1 {
			class += "/cluster"
		} else {
			class += "/local"
		}
		subs := 0
		for _, row := range in.Nodes {
			for _, c := range row {
				if !c.Closed {
					subs += len(c.Chans) + len(c.Inflight)
				}
			}
		}
		nontrivial := in.Target.Channel == "" && subs > 0 && len(evs) > 0
		if len(evs) == 0 {
			class += "/no-effect"
		}
		w.Case(i, term, map[string]any{"input": in, "label_match": lfm, "final": obs, "events": evs}, class, nontrivial)
	}
}
