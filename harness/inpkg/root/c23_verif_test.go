package centrifuge

// C23 driver: the REAL RedisMapBroker (map_broker_redis.go over rueidis) runs against the C18
// in-process RESP3 fake server; every command and EVAL/EVALSHA is answered by a live coqtop in
// which Model/RedisMapServer.v interprets the ASTs generated from the real map_broker_*.lua
// scripts over the Coq Redis model.  The same operation sequences run against the REAL
// MemoryMapBroker.  Each case records both observable streams (epochs canonicalised per run and
// per channel to the operation that first produced them) and the commands put on the wire.
// Uses the plumbing of c18_verif_test.go (compiled into the same test binary).

import (
	"context"
	"fmt"
	"math/rand"
	"reflect"
	"sort"
	"strconv"
	"strings"
	"testing"
	"time"
)

type c23Op struct {
	Kind    string `json:"kind"` // pub | rem | state | stream | clear | expire (Limit = ms to sleep first)
	Ch      string `json:"ch"`
	Key     string `json:"key,omitempty"`
	Data    string `json:"data,omitempty"`
	Idem    string `json:"idem,omitempty"`
	IdemTTL int    `json:"idem_ttl_ms,omitempty"`
	Delta   bool   `json:"delta,omitempty"`
	Ver     uint64 `json:"version,omitempty"`
	VEp     string `json:"vepoch,omitempty"`
	Score   int64  `json:"score,omitempty"`
	Mode    string `json:"key_mode,omitempty"`
	Refresh bool   `json:"refresh,omitempty"`
	Pos     bool   `json:"pos,omitempty"` // ExpectedPosition / Revision / Since present
	POff    uint64 `json:"pos_off,omitempty"`
	PEpoch  string `json:"pos_epoch,omitempty"` // token
	Limit   int    `json:"limit,omitempty"`
	Reverse bool   `json:"reverse,omitempty"`
	Asc     bool   `json:"asc,omitempty"`
}

type c23Cfg struct {
	Mode    int   `json:"mode"` // 1 ephemeral 2 recoverable 3 persistent
	KeyTTL  int64 `json:"key_ttl_ms"`
	Size    int   `json:"stream_size"`
	STTL    int64 `json:"stream_ttl_ms"`
	MTTL    int64 `json:"meta_ttl_ms"`
	Ordered bool  `json:"ordered"`
}

func (c c23Cfg) opts() MapChannelOptions {
	return MapChannelOptions{Mode: MapMode(c.Mode), KeyTTL: time.Duration(c.KeyTTL) * time.Millisecond, StreamSize: c.Size,
		StreamTTL: time.Duration(c.STTL) * time.Millisecond, MetaTTL: time.Duration(c.MTTL) * time.Millisecond, ordered: c.Ordered}
}

type c23Res struct {
	Kind   string     `json:"kind"` // err | unrec | upd | state | stream | unit
	Off    uint64     `json:"off,omitempty"`
	Epoch  string     `json:"epoch,omitempty"`
	Supp   bool       `json:"suppressed,omitempty"`
	Reason string     `json:"reason,omitempty"`
	Cur    *[2]string `json:"current,omitempty"`
	State  [][4]string `json:"state,omitempty"`  // key, offset, data, score
	Stream [][4]string `json:"stream,omitempty"` // offset, key, data, removed
	Err    string     `json:"err,omitempty"`
	Count  int        `json:"count,omitempty"`
}

// per run, per channel epoch tokens
type c23Epochs struct {
	tok map[string]string
	rev map[string]string
}

func c23NewEpochs() *c23Epochs { return &c23Epochs{tok: map[string]string{}, rev: map[string]string{}} }
func (e *c23Epochs) real(ch, token string) string {
	if token == "" {
		return ""
	}
	if r, ok := e.tok[ch+"\x00"+token]; ok {
		return r
	}
	return "zz" + token
}
func (e *c23Epochs) token(ch, real string) string {
	if real == "" {
		return ""
	}
	if t, ok := e.rev[ch+"\x00"+real]; ok {
		return t
	}
	if strings.HasPrefix(real, "zz") {
		return real[2:]
	}
	return "?" + real
}
func (e *c23Epochs) learn(i int, ch, real string) string {
	if real == "" {
		return ""
	}
	if t, ok := e.rev[ch+"\x00"+real]; ok {
		return t
	}
	t := fmt.Sprintf("N%d", i)
	e.tok[ch+"\x00"+t], e.rev[ch+"\x00"+real] = real, t
	return t
}

func c23Upd(r MapUpdateResult, err error) c23Res {
	if err != nil {
		return c23Res{Kind: "err", Err: err.Error()}
	}
	res := c23Res{Kind: "upd", Off: r.Position.Offset, Epoch: r.Position.Epoch, Supp: r.Suppressed, Reason: string(r.SuppressReason)}
	if r.CurrentEntry != nil {
		res.Cur = &[2]string{strconv.FormatUint(r.CurrentEntry.Offset, 10), string(r.CurrentEntry.Data)}
	}
	return res
}

// c23Ordered: the channel configuration of the current case is ordered (ReadState order is observable).
var c23Ordered bool

// c23Exec runs one abstract operation against a map broker.
func c23Exec(b MapBroker, op c23Op, ep *c23Epochs) (res c23Res) {
	defer func() {
		if r := recover(); r != nil {
			res = c23Res{Kind: "err", Err: fmt.Sprint("panic: ", r)}
		}
	}()
	ctx := context.Background()
	var pos *StreamPosition
	if op.Pos {
		pos = &StreamPosition{Offset: op.POff, Epoch: ep.real(op.Ch, op.PEpoch)}
	}
	switch op.Kind {
	case "pub":
		defer time.Sleep(3 * time.Millisecond) // distinct, ordered key deadlines
		return c23Upd(b.Publish(ctx, op.Ch, op.Key, MapPublishOptions{IdempotencyKey: op.Idem,
			IdempotentResultTTL: time.Duration(op.IdemTTL) * time.Millisecond, Data: []byte(op.Data), UseDelta: op.Delta,
			Version: op.Ver, VersionEpoch: op.VEp, score: op.Score, KeyMode: KeyMode(op.Mode), RefreshTTLOnSuppress: op.Refresh,
			ExpectedPosition: pos}))
	case "rem":
		return c23Upd(b.Remove(ctx, op.Ch, op.Key, MapRemoveOptions{IdempotencyKey: op.Idem,
			IdempotentResultTTL: time.Duration(op.IdemTTL) * time.Millisecond, ExpectedPosition: pos}))
	case "state":
		var all []*Publication
		cursor := ""
		var last MapStateResult
		for page := 0; page < 50; page++ {
			r, err := b.ReadState(ctx, op.Ch, MapReadStateOptions{Revision: pos, Cursor: cursor, Limit: op.Limit, Key: op.Key, Asc: op.Asc})
			if err == ErrorUnrecoverablePosition {
				// the position that comes with the error is only used to learn the epoch token (a read can create the epoch)
				return c23Res{Kind: "unrec", Epoch: r.Position.Epoch}
			}
			if err != nil {
				return c23Res{Kind: "err", Err: err.Error()}
			}
			all = append(all, r.Publications...)
			last = r
			if r.Cursor == "" {
				break
			}
			cursor = r.Cursor
		}
		out := c23Res{Kind: "state", Off: last.Position.Offset, Epoch: last.Position.Epoch}
		for _, p := range all {
			out.State = append(out.State, [4]string{p.Key, strconv.FormatUint(p.Offset, 10), string(p.Data), strconv.FormatInt(p.Score, 10)})
		}
		if !c23Ordered {
			// unordered channels: compared in key order (= up to page boundaries)
			sort.SliceStable(out.State, func(i, j int) bool { return out.State[i][0] < out.State[j][0] })
		}
		return out
	case "stream":
		r, err := b.ReadStream(ctx, op.Ch, MapReadStreamOptions{Filter: StreamFilter{Since: pos, Limit: op.Limit, Reverse: op.Reverse}})
		if err == ErrorUnrecoverablePosition {
			return c23Res{Kind: "unrec", Epoch: r.Position.Epoch}
		}
		if err != nil {
			return c23Res{Kind: "err", Err: err.Error()}
		}
		out := c23Res{Kind: "stream", Off: r.Position.Offset, Epoch: r.Position.Epoch}
		for _, p := range r.Publications {
			out.Stream = append(out.Stream, [4]string{strconv.FormatUint(p.Offset, 10), p.Key, string(p.Data), vBool(p.Removed)})
		}
		return out
	case "stats":
		st, err := b.Stats(ctx, op.Ch)
		if err != nil {
			return c23Res{Kind: "err", Err: err.Error()}
		}
		return c23Res{Kind: "count", Count: st.NumKeys}
	case "expire":
		// one key-TTL sweep, after every key published so far has passed its (short) KeyTTL
		time.Sleep(time.Duration(op.Limit) * time.Millisecond)
		switch bb := b.(type) {
		case *RedisMapBroker:
			// (cleanupPartition repeats while the registration ZSET still lists due channels: bound it)
			cctx, cancel := context.WithTimeout(ctx, 20*time.Second)
			bb.runCleanupCycle(cctx)
			timedOut := cctx.Err() != nil
			cancel()
			if timedOut {
				return c23Res{Kind: "err", Err: "cleanup cycle did not terminate"}
			}
		case *MemoryMapBroker:
			var next int64
			bb.mapHub.expireKeysIteration(&next)
		}
		return c23Res{Kind: "unit"}
	case "clear":
		if err := b.Clear(ctx, op.Ch, MapClearOptions{}); err != nil {
			return c23Res{Kind: "err", Err: err.Error()}
		}
		return c23Res{Kind: "unit"}
	}
	return c23Res{Kind: "err", Err: "bad op"}
}

// ---------------------------------------------------------------- Coq printing

func c23PosCoq(op c23Op) string {
	if !op.Pos {
		return "None"
	}
	return "(Some " + vPair(vN(op.POff), c18Str(op.PEpoch)) + ")"
}

func c23OpCoq(i int, op c23Op, nonceR string, now uint64, node string) string {
	nm := c18Str(fmt.Sprintf("N%d", i))
	nr := c18Str(nonceR)
	switch op.Kind {
	case "pub":
		po := vApp("mkMP", c18Str(op.Idem), vZ(int64(op.IdemTTL)), c18Str(op.Data), vBool(op.Delta), vN(op.Ver), c18Str(op.VEp),
			vZ(op.Score), c18Str(op.Mode), vBool(op.Refresh), c23PosCoq(op))
		return vApp("MPublish", c18Str(op.Ch), c18Str(op.Key), po, nr, vN(now))
	case "rem":
		return vApp("MRemove", c18Str(op.Ch), c18Str(op.Key), vApp("mkMR", c18Str(op.Idem), vZ(int64(op.IdemTTL)), c23PosCoq(op)), nr, vN(now))
	case "state":
		return vApp("MReadState", c18Str(op.Ch), c23PosCoq(op), vZ(int64(op.Limit)), c18Str(op.Key), vBool(op.Asc), nr, nm)
	case "stream":
		return vApp("MReadStream", c18Str(op.Ch), c23PosCoq(op), vZ(int64(op.Limit)), vBool(op.Reverse), nr, nm)
	case "expire":
		return vApp("MCleanup", vN(now), c18Str(node))
	case "stats":
		return vApp("MStats", c18Str(op.Ch))
	default:
		return vApp("MClear", c18Str(op.Ch))
	}
}

func c23ResCoq(r c23Res, ch string, ep *c23Epochs) string {
	switch r.Kind {
	case "unrec":
		return "MUnrec"
	case "unit":
		return "MUnit"
	case "count":
		return vApp("MCount", vN(uint64(r.Count)))
	case "upd":
		cur := "None"
		if r.Cur != nil {
			cur = "(Some " + vPair(r.Cur[0], c18Str(r.Cur[1])) + ")"
		}
		return vApp("MUpd", vN(r.Off), c18Str(ep.token(ch, r.Epoch)), vBool(r.Supp), c18Str(r.Reason), cur)
	case "state":
		ps := make([]string, len(r.State))
		for i, p := range r.State {
			ps[i] = "(" + c18Str(p[0]) + ", " + p[1] + ", " + c18Str(p[2]) + ", (" + p[3] + ")%Z)"
		}
		return vApp("MState", vList(ps), vN(r.Off), c18Str(ep.token(ch, r.Epoch)))
	case "stream":
		ps := make([]string, len(r.Stream))
		for i, p := range r.Stream {
			ps[i] = "(" + p[0] + ", " + c18Str(p[1]) + ", " + c18Str(p[2]) + ", " + p[3] + ")"
		}
		return vApp("MStream", vList(ps), vN(r.Off), c18Str(ep.token(ch, r.Epoch)))
	}
	return "MErr"
}

// ---------------------------------------------------------------- environment

type c23Env struct {
	coq  *c18Coq
	srv  *c18Server
	node *Node
	rb   *RedisMapBroker
	cfg  c23Cfg
}

func c23Setup(t *testing.T) *c23Env {
	c18NonceIdx["map_broker_add"] = 6
	c18NonceIdx["map_broker_read_unordered"] = 2
	c18NonceIdx["map_broker_stream_read"] = 5
	c18NonceIdx["map_broker_read_ordered"] = 3
	coq, err := c18StartCoqWith("Model.Redis Model.RedisMapServer", "map_srv_step")
	if err != nil {
		t.Fatalf("coqtop: %v", err)
	}
	srv, err := c18StartServerWith(coq, map[string]string{
		c18Sha(brokerStatePublishScriptSource):       "map_broker_add",
		c18Sha(brokerStateReadUnorderedScriptSource): "map_broker_read_unordered",
		c18Sha(brokerStateReadStreamScriptSource):    "map_broker_stream_read",
		c18Sha(brokerStateReadMetaScriptSource):      "map_broker_read_meta",
		c18Sha(brokerStateFindExpiredScriptSource):   "map_broker_find_expired",
		c18Sha(brokerStateBatchRemoveScriptSource):   "map_broker_batch_remove",
		c18Sha(brokerStateReadOrderedScriptSource):   "map_broker_read_ordered",
		c18Sha(brokerStateStatsScriptSource):         "map_broker_stats",
	})
	if err != nil {
		t.Fatal(err)
	}
	e := &c23Env{coq: coq, srv: srv}
	node, err := New(Config{LogLevel: LogLevelNone})
	if err != nil {
		t.Fatal(err)
	}
	node.config.Map.GetMapChannelOptions = func(string) MapChannelOptions { return e.cfg.opts() }
	e.node = node
	shard, err := NewRedisShard(node, RedisShardConfig{Address: srv.ln.Addr().String(), IOTimeout: 20 * time.Second, ConnectTimeout: 5 * time.Second})
	if err != nil {
		t.Fatalf("shard: %v", err)
	}
	rb, err := NewRedisMapBroker(node, RedisMapBrokerConfig{Shards: []*RedisShard{shard}, CleanupInterval: -1})
	if err != nil {
		t.Fatalf("map broker: %v", err)
	}
	e.rb = rb
	return e
}

type c23Run struct {
	res    []c23Res
	wire   [][][]string
	nonceR []string // per op: token of the string the Redis scripts received as new epoch (or N<i>)
	now    []uint64 // per op: the "now" (ms) the Redis broker put on the wire (Publish / Remove / cleanup), 0 if none
	ep     *c23Epochs
}

func (e *c23Env) runRedis(t *testing.T, ops []c23Op) c23Run {
	e.srv.mu.Lock()
	e.coq.reset()
	e.srv.mu.Unlock()
	e.srv.resetLog()
	run := c23Run{ep: c23NewEpochs()}
	for i, op := range ops {
		r := c23Exec(e.rb, op, run.ep)
		log, nonce := e.srv.resetLog()
		tokR := fmt.Sprintf("N%d", i)
		if nonce != "" {
			tokR = run.ep.learn(i, op.Ch, nonce)
		}
		var now uint64
		if op.Kind == "state" && e.cfg.Ordered && op.Key == "" && op.Limit != 0 {
			log = nil // the pages of an ordered read depend on the replies
		}
		if op.Kind == "expire" {
			// the sweep's commands depend on the replies; only its time is taken from the wire
			for _, c := range log {
				if c[0] == "zrangebyscore" && len(c) > 3 && now == 0 {
					now, _ = strconv.ParseUint(c[3], 10, 64)
				}
			}
			log = nil
		}
		for _, c := range log {
			switch c[0] {
			case "publish":
				if len(c) == 3 {
					c[2] = "@P"
				}
			case "EVAL:map_broker_add":
				if len(c) > 35 {
					c[11] = "@P"
					now, _ = strconv.ParseUint(c[35], 10, 64)
				}
			}
			for k := range c {
				if nonce != "" && c[k] == nonce {
					c[k] = tokR
				} else if strings.HasPrefix(c[k], "zzN") || c[k] == "zzbogus" {
					c[k] = c[k][2:]
				} else if t, ok := run.ep.rev[op.Ch+"\x00"+c[k]]; ok && k >= 2 {
					c[k] = t // an epoch string of this channel passed back in (ExpectedPosition)
				}
			}
		}
		run.res = append(run.res, r)
		run.wire = append(run.wire, log)
		run.nonceR = append(run.nonceR, tokR)
		run.now = append(run.now, now)
	}
	if e.srv.fail != nil {
		t.Fatalf("model server failure: %v", e.srv.fail)
	}
	return run
}

func (e *c23Env) runMemory(t *testing.T, ops []c23Op) c23Run {
	b, err := NewMemoryMapBroker(e.node, MemoryMapBrokerConfig{})
	if err != nil {
		t.Fatal(err)
	}
	defer func() { _ = b.Close(context.Background()) }()
	run := c23Run{ep: c23NewEpochs()}
	for i, op := range ops {
		r := c23Exec(b, op, run.ep)
		run.ep.learn(i, op.Ch, r.Epoch)
		run.res = append(run.res, r)
	}
	return run
}

// ---------------------------------------------------------------- generators

var c23Persistent = c23Cfg{Mode: 3, Size: 100, STTL: 3600000}
var c23Recoverable = c23Cfg{Mode: 2, KeyTTL: 3600000, Size: 100, STTL: 3600000, MTTL: 36000000}
var c23Ephemeral = c23Cfg{Mode: 1, KeyTTL: 3600000}
var c23RecoverableTTL = c23Cfg{Mode: 2, KeyTTL: 40, Size: 100, STTL: 3600000, MTTL: 36000000}
var c23EphemeralTTL = c23Cfg{Mode: 1, KeyTTL: 40}
var c23Ordered3 = c23Cfg{Mode: 3, Size: 100, STTL: 3600000, Ordered: true}
var c23Ordered2 = c23Cfg{Mode: 2, KeyTTL: 3600000, Size: 100, STTL: 3600000, MTTL: 36000000, Ordered: true}

type c23Probe struct {
	name string
	cfg  c23Cfg
	ops  []c23Op
}

func c23P(ch, key, data string, f func(*c23Op)) c23Op {
	op := c23Op{Kind: "pub", Ch: ch, Key: key, Data: data}
	if f != nil {
		f(&op)
	}
	return op
}

var c23Probes = []c23Probe{
	{name: "core", cfg: c23Persistent, ops: []c23Op{
		{Kind: "stream", Ch: "a", Limit: -1},
		c23P("a", "k1", "d1", nil), c23P("a", "k2", "d2", nil), c23P("a", "k1", "d3", nil), c23P("a", "", "d4", nil),
		{Kind: "rem", Ch: "a", Key: "k2"}, {Kind: "rem", Ch: "a", Key: "zz"},
		{Kind: "state", Ch: "a", Limit: -1}, {Kind: "state", Ch: "a", Limit: 1}, {Kind: "state", Ch: "a", Limit: 0},
		{Kind: "state", Ch: "a", Limit: -1, Key: "k1"},
		{Kind: "stream", Ch: "a", Limit: -1}, {Kind: "stream", Ch: "a", Limit: -1, Pos: true, POff: 2, PEpoch: "N0"},
		{Kind: "stream", Ch: "a", Limit: 2, Reverse: true}}},
	{name: "keymodes-cas-idem-version", cfg: c23Persistent, ops: []c23Op{
		c23P("a", "k1", "d1", nil),
		c23P("a", "k1", "d2", func(o *c23Op) { o.Mode = "if_new" }), c23P("a", "k9", "d3", func(o *c23Op) { o.Mode = "if_exists" }),
		c23P("a", "k1", "d4", func(o *c23Op) { o.Pos = true; o.POff = 7; o.PEpoch = "N0" }),
		c23P("a", "k1", "d5", func(o *c23Op) { o.Pos = true; o.POff = 1; o.PEpoch = "N0" }),
		c23P("a", "k1", "d6", func(o *c23Op) { o.Idem = "i1" }), c23P("a", "k1", "d7", func(o *c23Op) { o.Idem = "i1" }),
		c23P("a", "k1", "d8", func(o *c23Op) { o.Ver = 5 }), c23P("a", "k1", "d9", func(o *c23Op) { o.Ver = 3 }),
		{Kind: "rem", Ch: "a", Key: "k1", Pos: true, POff: 1, PEpoch: "N0"},
		{Kind: "state", Ch: "a", Limit: -1}, {Kind: "stream", Ch: "a", Limit: -1}}},
	// ---- suspected disagreements, one family per probe ----
	{name: "remove-missing-channel", cfg: c23Persistent, ops: []c23Op{{Kind: "rem", Ch: "a", Key: "k1"}}},
	{name: "reverse-since-one", cfg: c23Persistent, ops: []c23Op{
		c23P("a", "k1", "d1", nil), c23P("a", "k2", "d2", nil), {Kind: "stream", Ch: "a", Limit: -1, Reverse: true, Pos: true, POff: 1, PEpoch: "N0"}}},
	{name: "reverse-since-beyond-top", cfg: c23Persistent, ops: []c23Op{
		c23P("a", "k1", "d1", nil), c23P("a", "k2", "d2", nil), {Kind: "stream", Ch: "a", Limit: -1, Reverse: true, Pos: true, POff: 9, PEpoch: "N0"}}},
	{name: "stream-approx-trim", cfg: c23Cfg{Mode: 3, Size: 2, STTL: 3600000}, ops: []c23Op{
		c23P("a", "k1", "d1", nil), c23P("a", "k2", "d2", nil), c23P("a", "k3", "d3", nil), c23P("a", "k4", "d4", nil), {Kind: "stream", Ch: "a", Limit: -1}}},
	{name: "single-key-missing-channel", cfg: c23Persistent, ops: []c23Op{{Kind: "state", Ch: "a", Limit: -1, Key: "k1"}}},
	{name: "stream-missing-channel-since-epoch", cfg: c23Persistent, ops: []c23Op{
		{Kind: "stream", Ch: "a", Limit: -1, Pos: true, POff: 0, PEpoch: "bogus"}}},
	{name: "state-missing-channel-empty-revision", cfg: c23Persistent, ops: []c23Op{
		{Kind: "state", Ch: "a", Limit: -1, Pos: true, POff: 0, PEpoch: ""}}},
	{name: "key-collision", cfg: c23Persistent, ops: []c23Op{
		c23P("x", "k1", "d1", nil), c23P("meta:x", "e", "d2", nil), {Kind: "state", Ch: "x", Limit: -1}, c23P("x", "k2", "d3", nil)}},
	{name: "version-2^53", cfg: c23Persistent, ops: []c23Op{
		c23P("a", "k1", "d1", func(o *c23Op) { o.Ver = 1 << 53 }), c23P("a", "k1", "d2", func(o *c23Op) { o.Ver = 1<<53 + 1 })}},
	{name: "clear-epoch-reuse", cfg: c23Persistent, ops: []c23Op{
		{Kind: "stream", Ch: "a", Limit: -1}, {Kind: "clear", Ch: "a"}, {Kind: "stream", Ch: "a", Limit: -1}}},
	{name: "ephemeral-epoch", cfg: c23Ephemeral, ops: []c23Op{
		c23P("a", "k1", "d1", nil), c23P("a", "k2", "d2", nil), {Kind: "state", Ch: "a", Limit: -1}}},
	{name: "ephemeral-keymode", cfg: c23Ephemeral, ops: []c23Op{
		c23P("a", "k1", "d1", func(o *c23Op) { o.Mode = "if_exists" }), {Kind: "state", Ch: "a", Limit: -1}}},
	{name: "clear-idempotency", cfg: c23Persistent, ops: []c23Op{
		c23P("a", "k1", "d1", func(o *c23Op) { o.Idem = "i1" }), {Kind: "clear", Ch: "a"},
		c23P("a", "k1", "d2", func(o *c23Op) { o.Idem = "i1" }), {Kind: "state", Ch: "a", Limit: -1}}},
	{name: "key-expiry-recoverable", cfg: c23RecoverableTTL, ops: []c23Op{
		c23P("a", "k1", "d1", nil), c23P("a", "k2", "d2", nil), c23P("b", "k1", "x", nil), c23P("a", "k1", "d3", nil),
		{Kind: "rem", Ch: "a", Key: "k2"}, c23P("a", "k3", "d4", nil),
		c23P("a", "k3", "d5", func(o *c23Op) { o.Mode = "if_new"; o.Refresh = true }),
		{Kind: "expire", Limit: 80}, {Kind: "state", Ch: "a", Limit: -1}, {Kind: "stream", Ch: "a", Limit: -1},
		{Kind: "state", Ch: "b", Limit: -1}, c23P("a", "k1", "d6", nil), {Kind: "expire", Limit: 80},
		{Kind: "state", Ch: "a", Limit: -1}, {Kind: "stream", Ch: "a", Limit: -1}}},
	{name: "key-expiry-ephemeral", cfg: c23EphemeralTTL, ops: []c23Op{
		c23P("a", "k1", "d1", nil), c23P("a", "k2", "d2", nil), {Kind: "expire", Limit: 80}, {Kind: "state", Ch: "a", Limit: -1},
		c23P("a", "k3", "d3", nil), {Kind: "state", Ch: "a", Limit: -1}}},
	{name: "ephemeral-single-key-revision", cfg: c23Ephemeral, ops: []c23Op{
		c23P("a", "k1", "d1", nil), {Kind: "state", Ch: "a", Limit: -1, Key: "k1", Pos: true, PEpoch: "bogus"}}},
	{name: "ordered", cfg: c23Ordered3, ops: []c23Op{
		{Kind: "state", Ch: "a", Limit: -1},
		c23P("a", "k1", "d1", func(o *c23Op) { o.Score = 5 }), c23P("a", "k2", "d2", func(o *c23Op) { o.Score = 1 }),
		c23P("a", "k3", "d3", func(o *c23Op) { o.Score = 5 }), c23P("a", "k4", "d4", func(o *c23Op) { o.Score = 3 }),
		c23P("a", "k0", "d5", func(o *c23Op) { o.Score = 5 }),
		{Kind: "state", Ch: "a", Limit: -1}, {Kind: "state", Ch: "a", Limit: -1, Asc: true},
		{Kind: "state", Ch: "a", Limit: 1}, {Kind: "state", Ch: "a", Limit: 2, Asc: true}, {Kind: "state", Ch: "a", Limit: 3},
		c23P("a", "k2", "d6", func(o *c23Op) { o.Score = 9 }), {Kind: "rem", Ch: "a", Key: "k3"},
		{Kind: "state", Ch: "a", Limit: 2}, {Kind: "state", Ch: "a", Limit: -1, Asc: true}, {Kind: "stats", Ch: "a"},
		{Kind: "state", Ch: "a", Limit: -1, Key: "k1"}, {Kind: "state", Ch: "a", Limit: 0}, {Kind: "stream", Ch: "a", Limit: -1}}},
	{name: "cas-empty-epoch", cfg: c23Persistent, ops: []c23Op{
		c23P("a", "k1", "d1", nil), c23P("a", "k1", "d2", func(o *c23Op) { o.Pos = true; o.POff = 7 }),
		{Kind: "state", Ch: "a", Limit: -1}}},
	{name: "state-limit0-revision", cfg: c23Persistent, ops: []c23Op{
		c23P("a", "k1", "d1", nil), {Kind: "state", Ch: "a", Limit: 0, Pos: true, POff: 1, PEpoch: "bogus"}}},
}

func c23Gen(r *rand.Rand) []c23Op {
	n := 4 + r.Intn(12)
	chans := []string{"a", "b"}
	if r.Intn(3) == 0 {
		chans = []string{"room#1"}
	}
	keys := []string{"k1", "k2", "k3", ""}
	count := map[string]int{}
	created := map[string]int{} // op index that created the channel (epoch token)
	var ops []c23Op
	id := 0
	tokOf := func(ch string, i int) string {
		if c, ok := created[ch]; ok && r.Intn(5) > 0 {
			return fmt.Sprintf("N%d", c)
		}
		return "bogus"
	}
	for i := 0; i < n; i++ {
		ch := chans[r.Intn(len(chans))]
		if _, ok := created[ch]; !ok {
			created[ch] = i
		}
		switch k := r.Intn(13); {
		case k == 12:
			if r.Intn(2) == 0 {
				ops = append(ops, c23Op{Kind: "clear", Ch: ch})
				delete(created, ch)
				count[ch] = 0
			} else {
				ops = append(ops, c23Op{Kind: "stats", Ch: ch})
			}
		case k < 6:
			id++
			op := c23P(ch, keys[r.Intn(len(keys))], fmt.Sprintf("d%d", id), nil)
			switch r.Intn(8) {
			case 0:
				op.Mode = "if_new"
			case 1:
				op.Mode = "if_exists"
			case 2:
				op.Pos, op.POff, op.PEpoch = true, uint64(r.Intn(count[ch]+2)), tokOf(ch, i)
			case 3:
				op.Idem = []string{"i1", "i2"}[r.Intn(2)]
			case 4:
				op.Ver, op.VEp = uint64(1+r.Intn(5)), []string{"", "", "va"}[r.Intn(3)]
			}
			op.Delta = r.Intn(6) == 0
			op.Refresh = r.Intn(4) == 0
			count[ch]++
			ops = append(ops, op)
		case k < 8:
			op := c23Op{Kind: "rem", Ch: ch, Key: keys[r.Intn(3)]}
			if _, ok := created[ch]; !ok || created[ch] == i {
				// removing from a channel that does not exist yet is a known disagreement (probe)
				op = c23Op{Kind: "stream", Ch: ch, Limit: -1}
			}
			if op.Kind == "rem" && r.Intn(5) == 0 {
				op.Pos, op.POff, op.PEpoch = true, uint64(r.Intn(count[ch]+2)), tokOf(ch, i)
			}
			if op.Kind == "rem" && r.Intn(6) == 0 {
				op.Idem = []string{"i1", "i2"}[r.Intn(2)]
			}
			count[ch]++
			ops = append(ops, op)
		case k < 10:
			op := c23Op{Kind: "state", Ch: ch, Limit: []int{-1, -1, 0, 1, 2}[r.Intn(5)]}
			if r.Intn(4) == 0 && created[ch] != i {
				op.Key = keys[r.Intn(3)]
			}
			if r.Intn(4) == 0 && created[ch] != i {
				op.Pos, op.PEpoch = true, tokOf(ch, i)
			}
			ops = append(ops, op)
		default:
			op := c23Op{Kind: "stream", Ch: ch, Limit: []int{-1, -1, 0, 1, 3}[r.Intn(5)], Reverse: r.Intn(3) == 0}
			if r.Intn(2) == 0 && created[ch] != i {
				op.Pos, op.PEpoch = true, tokOf(ch, i)
				if op.Reverse {
					op.POff = uint64(2 + r.Intn(count[ch]+1)) // 2..top+1 at most: inside the agreement domain
					if op.POff > uint64(count[ch]+1) {
						op.POff = uint64(count[ch] + 1)
					}
					if op.POff < 2 {
						op.Pos = false
					}
				} else {
					op.POff = uint64(r.Intn(count[ch] + 2))
				}
			}
			ops = append(ops, op)
		}
	}
	return ops
}

// c23Tags names the known-disagreement families a case touches (finding key).
func c23Tags(cfg c23Cfg, ops []c23Op, mem []c23Res, red []c23Res) string {
	t := map[string]bool{}
	if cfg.Mode == 1 && len(red) == len(mem) {
		// KeyMode is evaluated inside the "meta_key ~= ''" block of map_broker_add.lua: ignored when streamless
		for i, op := range ops {
			if op.Kind == "pub" && op.Mode != "" && op.Key != "" && mem[i].Kind == "upd" && mem[i].Supp &&
				(mem[i].Reason == "key_exists" || mem[i].Reason == "key_not_found") {
				return "map-ephemeral-keymode"
			}
		}
		// the streamless single-key read is a bare HGET: the Revision is never looked at
		for i, op := range ops {
			if op.Kind == "state" && op.Key != "" && op.Pos && mem[i].Kind == "unrec" && red[i].Kind == "state" {
				return "map-ephemeral-single-key-revision"
			}
		}
		// streamless channels have no meta key: Redis reports a fresh / empty epoch on every call
		sameNoEpoch := true
		for i := range mem {
			a, b := red[i], mem[i]
			a.Epoch, b.Epoch = "", ""
			if a.Kind == "unrec" && ops[i].Pos && ops[i].PEpoch != "" {
				continue // a position taken from an earlier result never matches the epoch of this call
			}
			if !reflect.DeepEqual(a, b) {
				sameNoEpoch = false
			}
		}
		if sameNoEpoch {
			return "map-ephemeral-epoch"
		}
	}
	exists := map[string]bool{}
	pubs := map[string]int{}
	cleared := map[string]bool{}
	idems := map[string]bool{}      // ch + "\x00" + idempotency key used so far
	staleIdems := map[string]bool{} // ... that survived a Clear of the channel
	for i, op := range ops {
		if (op.Kind == "pub" || op.Kind == "rem") && op.Idem != "" {
			if staleIdems[op.Ch+"\x00"+op.Idem] {
				t["map-clear-idempotency"] = true
			}
			idems[op.Ch+"\x00"+op.Idem] = true
		}
		if op.Kind == "clear" {
			for k := range idems {
				if strings.HasPrefix(k, op.Ch+"\x00") {
					staleIdems[k] = true
				}
			}
		}
		if strings.ContainsAny(op.Ch, ":.") {
			t["map-key-collision"] = true
		}
		if (op.Kind == "pub" || op.Kind == "rem") && op.Pos && op.PEpoch == "" && op.Key != "" && cfg.Mode != 1 {
			t["map-cas-empty-epoch"] = true
		}
		switch op.Kind {
		case "pub":
			if op.Ver >= 1<<53 {
				t["map-version-ge-2^53"] = true
			}
			pubs[op.Ch]++
			if cfg.Size > 0 && pubs[op.Ch] > cfg.Size {
				t["map-stream-approx-trim"] = true
			}
		case "rem":
			if !exists[op.Ch] {
				t["map-remove-missing-channel"] = true
			}
			pubs[op.Ch]++
		case "state":
			if !exists[op.Ch] && op.Key != "" {
				t["map-single-key-missing-channel"] = true
			}
			if !exists[op.Ch] && op.Pos && op.PEpoch == "" {
				t["map-state-missing-channel-empty-revision"] = true
			}
			if cleared[op.Ch] && !exists[op.Ch] && op.Key == "" && op.Limit == 0 {
				t["map-clear-epoch-reuse"] = true
			}
			if exists[op.Ch] && op.Key == "" && op.Limit == 0 && op.Pos && i < len(mem) && mem[i].Kind == "unrec" {
				t["map-state-limit0-revision"] = true
			}
		case "stream":
			if !exists[op.Ch] && op.Pos && op.PEpoch != "" {
				t["map-stream-missing-channel-since-epoch"] = true
			}
			if op.Reverse && op.Pos && i < len(mem) && mem[i].Kind == "stream" {
				if op.POff == 1 {
					t["map-reverse-since-one"] = true
				} else if op.POff-1 > mem[i].Off {
					t["map-reverse-since-beyond-top"] = true
				}
			}
			if cleared[op.Ch] && !exists[op.Ch] {
				t["map-clear-epoch-reuse"] = true
			}
		case "clear":
			exists[op.Ch] = false
			cleared[op.Ch] = true
			continue
		case "stats", "expire":
			continue
		}
		exists[op.Ch] = true
	}
	if len(t) == 0 {
		return "-"
	}
	ks := make([]string, 0, len(t))
	for k := range t {
		ks = append(ks, k)
	}
	sort.Strings(ks)
	return ks[0] // one family per case (the check matches keys exactly); the first in name order
}

func TestVerifC23(t *testing.T) {
	w := verifOpen(t, "C23")
	defer w.Close()
	e := c23Setup(t)
	defer e.coq.close()
	for i := 0; i < w.N; i++ {
		if !w.Want(i) {
			continue
		}
		r := w.Rand(i)
		var ops []c23Op
		cfg := c23Persistent
		class := "persistent-unordered"
		if i < len(c23Probes) {
			ops, cfg, class = c23Probes[i].ops, c23Probes[i].cfg, "probe:"+c23Probes[i].name
		} else {
			ops = c23Gen(r)
			switch r.Intn(8) {
			case 0, 1:
				cfg, class = c23Recoverable, "recoverable-unordered"
			case 2:
				cfg, class = c23Ephemeral, "ephemeral-unordered"
			case 3:
				cfg, class = c23Ordered3, "persistent-ordered"
			case 4:
				cfg, class = c23Ordered2, "recoverable-ordered"
			}
			if cfg.Ordered {
				for k := range ops {
					if ops[k].Kind == "pub" {
						ops[k].Score = int64(r.Intn(4))
					}
					if ops[k].Kind == "state" {
						ops[k].Asc = r.Intn(2) == 0
					}
				}
			}
		}
		e.cfg = cfg
		c23Ordered = cfg.Ordered
		rr := e.runRedis(t, ops)
		mr := e.runMemory(t, ops)

		opsC := make([]string, len(ops))
		redC := make([]string, len(ops))
		memC := make([]string, len(ops))
		wireC := make([]string, len(ops))
		upd, stateNonEmpty := 0, false
		for k, op := range ops {
			opsC[k] = c23OpCoq(k, op, rr.nonceR[k], rr.now[k], e.node.ID())
			redC[k] = c23ResCoq(rr.res[k], op.Ch, rr.ep)
			memC[k] = c23ResCoq(mr.res[k], op.Ch, mr.ep)
			cmds := make([]string, len(rr.wire[k]))
			for a, c := range rr.wire[k] {
				ss := make([]string, len(c))
				for b, s := range c {
					ss[b] = c18Str(s)
				}
				cmds[a] = vList(ss)
			}
			wireC[k] = vList(cmds)
			if mr.res[k].Kind == "upd" && !mr.res[k].Supp {
				upd++
			}
			if mr.res[k].Kind == "state" && len(mr.res[k].State) > 0 {
				stateNonEmpty = true
			}
		}
		cfgC := vApp("mkMC", vN(uint64(cfg.Mode)), vZ(cfg.KeyTTL), vZ(int64(cfg.Size)), vZ(cfg.STTL), vZ(cfg.MTTL), vBool(cfg.Ordered))
		term := vApp("mkCase", cfgC, vList(opsC), vList(redC), vList(memC), vList(wireC))
		key := c23Tags(cfg, ops, mr.res, rr.res)
		js := map[string]any{"cfg": cfg, "ops": ops, "redis": rr.res, "memory": mr.res, "key": key, "class": class}
		w.Case(i, term, js, class, len(ops) >= 4 && upd >= 2 && stateNonEmpty)
	}
}
