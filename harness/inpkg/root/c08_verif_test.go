package centrifuge

import (
	"math/rand"
	"testing"
)

func c08Class(o c04Obs) string { return "" }

// C08 Connection lifecycle callbacks fire once and in order.
func TestVerifC08(t *testing.T) {
	w := verifOpen(t, "C08")
	defer w.Close()
	cb := []c04Gk{c04GkConnH, c04GkSubH, c04GkUnsubH, c04GkDiscH, c04GkAliveH, c04GkJoin}
	c04RunAllKey(w, c08Class, func(i int, r *rand.Rand) c04Plan {
		switch i {
		case 0: // a connection accepted before Node.Shutdown whose connect command is processed after it
			return c04Plan{Name: "shutdown-then-connect", Key: "C08-connect-after-shutdown", NCh: 1, Armed: []c04Gk{c04GkJoin},
				Script: func(e *c04Eng, r *rand.Rand) {
					e.spawn(c04Op{Kind: "shutdown"})
					e.spawn(c04Op{Kind: "connect"})
				}}
		case 1: // shutdown of a connected client: disconnect callback once, after everything else
			return c04Plan{Name: "connect-then-shutdown", NCh: 1, Armed: cb,
				Script: func(e *c04Eng, r *rand.Rand) {
					c04Connect(e)
					e.spawn(c04Op{Kind: "subsrv", Ch: 0})
					e.spawn(c04Op{Kind: "tick"})
					e.spawn(c04Op{Kind: "shutdown"})
				}}
		case 2: // the established subscription that loses its context after the gate timeout (see C05 case 0)
			return c04Plan{Name: "gate-timeout/genstamp", Key: "C08-genstamp-after-gate-timeout", NCh: 1,
				Armed: []c04Gk{c04GkConnH, c04GkSubH, c04GkJoin}, Script: c05GenStamp}
		case 5: // a connect command inside a slow OnConnecting handler across the whole Node.Shutdown: it passed its
			// first look before the shutdown, registers after the hub snapshot, and must be refused then
			return c04Plan{Name: "connecting-across-shutdown", NCh: 1, Armed: []c04Gk{c04GkConnecting, c04GkJoin},
				Script: func(e *c04Eng, r *rand.Rand) {
					e.spawn(c04Op{Kind: "connect"}) // parked in OnConnecting
					e.spawn(c04Op{Kind: "shutdown"})
					if p := e.parkOf(c04GkConnecting); p != nil {
						e.release(p, true)
					}
				}}
		case 6: // two connect commands processed concurrently, both inside OnConnecting: both pass the
			// "already authenticated" look; connectMu serialises the two triggerConnect calls and only the
			// first may run the connect callback
			return c04Plan{Name: "two-connects-concurrently", NCh: 1, Armed: []c04Gk{c04GkConnecting, c04GkConnH, c04GkJoin},
				Script: func(e *c04Eng, r *rand.Rand) {
					e.spawn(c04Op{Kind: "connect"})
					e.spawn(c04Op{Kind: "connect"})
					for i := 0; i < 2; i++ {
						if p := e.parkOf(c04GkConnecting); p != nil {
							e.release(p, true)
						}
					}
					for i := 0; i < 2; i++ {
						if p := e.parkOf(c04GkConnH); p != nil {
							e.release(p, true)
						}
					}
					e.spawn(c04Op{Kind: "subsrv", Ch: 0})
				}}
		case 7: // a second connect command after the first completed: bad request, the connection is closed
			return c04Plan{Name: "second-connect-after-connected", NCh: 1, Armed: []c04Gk{c04GkJoin},
				Script: func(e *c04Eng, r *rand.Rand) {
					c04Connect(e)
					e.spawn(c04Op{Kind: "connect"})
				}}
		case 3: // close racing the connect handler: connectMu serialises them
			return c04Plan{Name: "close-during-connect-handler", NCh: 1, Armed: cb,
				Script: func(e *c04Eng, r *rand.Rand) {
					e.spawn(c04Op{Kind: "connect"})
					e.spawn(c04Op{Kind: "close"})
					e.release(c07Park(e, c04GkConnH), true)
				}}
		case 4: // tick parked in the alive handler while close arrives: alive, then disconnect
			return c04Plan{Name: "close-during-alive", NCh: 1, Armed: cb,
				Script: func(e *c04Eng, r *rand.Rand) {
					c04Connect(e)
					e.spawn(c04Op{Kind: "tick"})
					e.spawn(c04Op{Kind: "close"})
					e.release(c07Park(e, c04GkAliveH), true)
					e.spawn(c04Op{Kind: "tick"})
				}}
		}
		if i%4 == 0 {
			return c04Plan{Name: "sequential", NCh: 2, Script: c04RandomWalk(6 + r.Intn(14))}
		}
		armed := c04RandArmed(r)
		for _, g := range cb {
			if r.Intn(100) < 40 {
				armed = append(armed, g)
			}
		}
		return c04Plan{Name: "random-gated", NCh: 1 + r.Intn(2), Armed: armed, Script: c04RandomWalkOpt(6+r.Intn(18), 60)}
	})
}
