package centrifuge

import (
	"math/rand"
	"strings"
	"testing"

	"github.com/centrifugal/centrifuge/internal/redispartition"
)

// C34 driver: the real key / PUB/SUB channel builders of RedisBroker, RedisPresenceManager and
// RedisMapBroker (structs filled in directly: the builders read only Prefix, NumShardedPubSubPartitions,
// UseLists, messagePrefix, partitionTags and shard.isCluster), the real extractChannel and the real redisSlot.

type c34Cfg struct {
	Prefix  string `json:"prefix"`
	Cluster bool   `json:"cluster"`
	Parts   int    `json:"parts"`
	Lists   bool   `json:"lists"`
	Precomp bool   `json:"precomputed_tags"`
}

func c34List(ss []string) string {
	xs := make([]string, len(ss))
	for i, s := range ss {
		xs[i] = vStr(s)
	}
	return vList(xs)
}

func c34Run(t *testing.T, cf c34Cfg, ch, ik string) (term string, js map[string]any) {
	var tags []string
	if cf.Precomp {
		var err error
		tags, err = redispartition.FindTags(cf.Parts)
		if err != nil {
			t.Fatalf("FindTags(%d): %v", cf.Parts, err)
		}
	}
	shard := &RedisShard{isCluster: cf.Cluster}
	b := &RedisBroker{
		config:        RedisBrokerConfig{Prefix: cf.Prefix, NumShardedPubSubPartitions: cf.Parts, UseLists: cf.Lists},
		messagePrefix: cf.Prefix + redisClientChannelPrefix,
		partitionTags: tags,
	}
	pm := &RedisPresenceManager{config: RedisPresenceManagerConfig{Prefix: cf.Prefix}}
	mb := &RedisMapBroker{
		conf:          RedisMapBrokerConfig{Prefix: cf.Prefix, NumShardedPubSubPartitions: cf.Parts},
		messagePrefix: cf.Prefix + redisClientChannelPrefix,
		partitionTags: tags,
	}
	idx, tag := 0, ""
	if cf.Parts > 0 {
		idx = consistentIndex(ch, cf.Parts)
		tag = b.pubSubPartitionHashTag(idx)
		if mt := mb.pubSubPartitionHashTag(idx); mt != tag {
			t.Fatalf("map broker and broker disagree on the partition tag: %q vs %q", mt, tag)
		}
	}
	msg := b.messageChannelID(shard, ch)
	broker := []string{string(msg), string(b.historyListKey(shard, ch)), string(b.historyStreamKey(shard, ch)),
		string(b.historyMetaKey(shard, ch)), string(b.resultCacheKey(shard, ch, ik))}
	presence := []string{string(pm.presenceHashKey(shard, ch)), string(pm.presenceSetKey(shard, ch)),
		string(pm.userSetKey(shard, ch)), string(pm.userHashKey(shard, ch))}
	bext := b.extractChannel(cf.Cluster, msg)
	var mapKeys []string
	mext := ""
	// NewRedisMapBroker rejects cluster without partitions and partitions without cluster
	if cf.Cluster == (cf.Parts > 0) {
		mmsg := mb.messageChannelID(shard, ch)
		mapKeys = []string{mmsg, mb.streamKey(shard, ch), mb.metaKey(shard, ch), mb.stateHashKey(shard, ch),
			mb.stateOrderKey(shard, ch), mb.stateExpireKey(shard, ch), mb.stateMetaKey(shard, ch),
			mb.resultCacheKey(shard, ch, ik), mb.cleanupRegistrationKeyForChannel(shard, ch)}
		mext = mb.extractChannel(mmsg)
	}
	var slots []string
	var slotsJS []uint16
	for _, k := range append(append(append([]string{}, broker...), presence...), mapKeys...) {
		s := redisSlot(k)
		slots = append(slots, vN(uint64(s)))
		slotsJS = append(slotsJS, s)
	}
	cfgTerm := vApp("mkCfg", vStr(cf.Prefix), vBool(cf.Cluster), vN(uint64(cf.Parts)), vBool(cf.Lists))
	term = vApp("mkCase", cfgTerm, vBool(cf.Precomp), vStr(ch), vN(uint64(idx)), vStr(tag), vStr(ik),
		c34List(broker), c34List(presence), c34List(mapKeys), vStr(bext), vStr(mext), vList(slots))
	js = map[string]any{"cfg": cf, "channel": ch, "channel_bytes": []byte(ch), "idempotency_key": ik, "idx": idx, "tag": tag,
		"broker": broker, "presence": presence, "map": mapKeys, "broker_extract": bext, "map_extract": mext, "slots": slotsJS}
	return term, js
}

func c34Channel(r *rand.Rand) string {
	pieces := []string{"}", "{", "}x", "{x}", "a}b", "a{b", ".", "a.b", "news", "user:42", "{}", "}{", "$", "#", "\x00", "\xff", "é", " ", "1", "chat:index"}
	if r.Intn(3) == 0 {
		// ordinary names
		return []string{"news", "chat:index", "user#42", "a.b.c", "$private", "room/1", "x"}[r.Intn(7)] + strings.Repeat("1", r.Intn(3))
	}
	n := r.Intn(5)
	var sb strings.Builder
	for i := 0; i < n; i++ {
		sb.WriteString(pieces[r.Intn(len(pieces))])
	}
	return sb.String()
}

func TestVerifC34(t *testing.T) {
	w := verifOpen(t, "C34")
	defer w.Close()
	sizes := redispartition.PrecomputedSizes()
	type fx struct {
		cf     c34Cfg
		ch, ik string
	}
	cl0 := c34Cfg{"centrifuge", true, 0, false, false}
	cl0l := c34Cfg{"centrifuge", true, 0, true, false}
	cl7 := c34Cfg{"centrifuge", true, 7, false, false}
	cl16 := c34Cfg{"centrifuge", true, 16, false, true}
	st := c34Cfg{"centrifuge", false, 0, false, false}
	corpus := []fx{
		{cl0, "news", ""}, {cl0l, "news", "k1"}, {cl7, "news", "k1"}, {cl16, "news", "k1"}, {st, "news", "k1"},
		{cl0, "a}b", "k"}, {cl0, "a{b", "k"}, {cl0, "{x}", "k"}, {cl0, "a.b.c", "{i}"}, {cl0, "x}", "k"}, {cl0, "{", "k"},
		{cl7, "}x", "k"}, {cl7, "a.b}c{d", "k.{}"}, {cl16, "{}.", ""}, {cl16, "..", ""}, {st, "}x", "k"}, {st, "{a}", "k"},
		{c34Cfg{"", true, 0, false, false}, "news", "k"}, {c34Cfg{"c.f", true, 7, true, false}, "news", "k"},
		// known weak spots (keyed): empty tag, brace in prefix
		{cl0, "}x", "k"}, {cl0, "}", ""}, {cl0, "", ""}, {cl0l, "}{a}", "k"},
		{c34Cfg{"a{b", true, 0, false, false}, "news", "k"}, {c34Cfg{"a{b", true, 7, false, false}, "news", "k"},
		{c34Cfg{"{p}", true, 0, false, false}, "news", "k"},
	}
	for i := 0; i < w.N; i++ {
		if !w.Want(i) {
			continue
		}
		r := w.Rand(i)
		var cf c34Cfg
		var ch, ik string
		class := "corpus"
		if i < len(corpus) {
			cf, ch, ik = corpus[i].cf, corpus[i].ch, corpus[i].ik
		} else {
			cf.Prefix = []string{"centrifuge", "centrifuge", "app1", "c.f", "", "x}y", "p:q"}[r.Intn(7)]
			cf.Cluster = r.Intn(4) > 0
			cf.Lists = r.Intn(3) == 0
			if cf.Cluster {
				switch r.Intn(4) {
				case 0:
					cf.Parts = 0
				case 1:
					cf.Parts = []int{1, 2, 3, 7, 10, 100, 1000}[r.Intn(7)]
				case 2:
					cf.Parts = sizes[r.Intn(len(sizes))]
					cf.Precomp = true
				default:
					cf.Parts = sizes[r.Intn(len(sizes))]
				}
			}
			ch = c34Channel(r)
			ik = []string{"", "k1", "a.b", "{x}", "}", "id-42"}[r.Intn(6)]
			weak := cf.Cluster && (ch == "" || ch[0] == '}')
			if weak && r.Intn(25) != 0 {
				// keep the known weak spot (empty hash tag) to a small share of the stream
				ch = "c" + ch
			}
			if cf.Cluster && r.Intn(40) == 0 {
				cf.Prefix = []string{"a{b", "{p}", "pre{"}[r.Intn(3)]
			}
			class = "standalone"
			if cf.Cluster {
				class = "cluster/plain"
				if cf.Parts > 0 {
					class = "cluster/partitioned"
					if cf.Precomp {
						class = "cluster/precomputed-tags"
					}
				}
			}
		}
		term, js := c34Run(t, cf, ch, ik)
		if cf.Cluster && (ch == "" || ch[0] == '}') {
			js["key"] = "emptytag-nonpartitioned"
			class += "/emptytag"
		} else if cf.Cluster && strings.Contains(cf.Prefix, "{") {
			js["key"] = "brace-in-prefix"
			class += "/brace-in-prefix"
		}
		nontrivial := cf.Cluster && (cf.Parts > 0 || strings.ContainsAny(ch, "{}."))
		w.Case(i, term, js, class, nontrivial)
	}
}
