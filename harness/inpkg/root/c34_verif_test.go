package centrifuge

import (
	"bufio"
	"context"
	"fmt"
	"io"
	"math/rand"
	"net"
	"strconv"
	"strings"
	"sync"
	"testing"
	"time"

	"github.com/centrifugal/centrifuge/internal/redispartition"
	"github.com/redis/rueidis"
)

// C34 driver: the real key / PUB/SUB channel builders of RedisBroker, RedisPresenceManager and
// RedisMapBroker (structs filled in directly: the builders read only Prefix, NumShardedPubSubPartitions,
// UseLists, messagePrefix, partitionTags and shard.isCluster), the real extractChannel and the real redisSlot.

type c34Cfg struct {
	Prefix  string `json:"prefix"`
	Cluster bool   `json:"cluster"`
	Parts   int    `json:"parts"`
	Lists   bool   `json:"lists"`
	Precomp bool   `json:"precomputed_tags"`
}

func c34List(ss []string) string {
	xs := make([]string, len(ss))
	for i, s := range ss {
		xs[i] = vStr(s)
	}
	return vList(xs)
}

func c34Run(t *testing.T, cf c34Cfg, ch, ik string) (term string, js map[string]any) {
	var tags []string
	if cf.Precomp {
		var err error
		tags, err = redispartition.FindTags(cf.Parts)
		if err != nil {
			t.Fatalf("FindTags(%d): %v", cf.Parts, err)
		}
	}
	shard := &RedisShard{isCluster: cf.Cluster}
	b := &RedisBroker{
		config:        RedisBrokerConfig{Prefix: cf.Prefix, NumShardedPubSubPartitions: cf.Parts, UseLists: cf.Lists},
		messagePrefix: cf.Prefix + redisClientChannelPrefix,
		partitionTags: tags,
	}
	pm := &RedisPresenceManager{config: RedisPresenceManagerConfig{Prefix: cf.Prefix}}
	mb := &RedisMapBroker{
		conf:          RedisMapBrokerConfig{Prefix: cf.Prefix, NumShardedPubSubPartitions: cf.Parts},
		messagePrefix: cf.Prefix + redisClientChannelPrefix,
		partitionTags: tags,
	}
	idx, tag := 0, ""
	if cf.Parts > 0 {
		idx = consistentIndex(ch, cf.Parts)
		tag = b.pubSubPartitionHashTag(idx)
		if mt := mb.pubSubPartitionHashTag(idx); mt != tag {
			t.Fatalf("map broker and broker disagree on the partition tag: %q vs %q", mt, tag)
		}
	}
	msg := b.messageChannelID(shard, ch)
	broker := []string{string(msg), string(b.historyListKey(shard, ch)), string(b.historyStreamKey(shard, ch)),
		string(b.historyMetaKey(shard, ch)), string(b.resultCacheKey(shard, ch, ik))}
	presence := []string{string(pm.presenceHashKey(shard, ch)), string(pm.presenceSetKey(shard, ch)),
		string(pm.userSetKey(shard, ch)), string(pm.userHashKey(shard, ch))}
	bext := b.extractChannel(cf.Cluster, msg)
	var mapKeys []string
	mext := ""
	// NewRedisMapBroker rejects cluster without partitions and partitions without cluster
	if cf.Cluster == (cf.Parts > 0) {
		mmsg := mb.messageChannelID(shard, ch)
		mapKeys = []string{mmsg, mb.streamKey(shard, ch), mb.metaKey(shard, ch), mb.stateHashKey(shard, ch),
			mb.stateOrderKey(shard, ch), mb.stateExpireKey(shard, ch), mb.stateMetaKey(shard, ch), mb.buildKey(shard, ch, ":nil:"),
			mb.resultCacheKey(shard, ch, ik), mb.cleanupRegistrationKeyForChannel(shard, ch)}
		mext = mb.extractChannel(mmsg)
	}
	var slots []string
	var slotsJS []uint16
	for _, k := range append(append(append([]string{}, broker...), presence...), mapKeys...) {
		s := redisSlot(k)
		slots = append(slots, vN(uint64(s)))
		slotsJS = append(slotsJS, s)
	}
	cfgTerm := vApp("mkCfg", vStr(cf.Prefix), vBool(cf.Cluster), vN(uint64(cf.Parts)), vBool(cf.Lists))
	term = vApp("KBuild", vApp("mkCase", cfgTerm, vBool(cf.Precomp), vStr(ch), vN(uint64(idx)), vStr(tag), vStr(ik),
		c34List(broker), c34List(presence), c34List(mapKeys), vStr(bext), vStr(mext), vList(slots)))
	js = map[string]any{"cfg": cf, "channel": ch, "channel_bytes": []byte(ch), "idempotency_key": ik, "idx": idx, "tag": tag,
		"broker": broker, "presence": presence, "map": mapKeys, "broker_extract": bext, "map_extract": mext, "slots": slotsJS}
	return term, js
}

// ---- real script calls, captured by a fake RESP server (no Redis here) ----

// c34FakeRedis answers the rueidis handshake and records every EVALSHA / EVAL command, replying with an
// error so that the caller returns at once: only the KEYS and ARGV the real code assembled are observed.
type c34FakeRedis struct {
	ln    net.Listener
	mu    sync.Mutex
	evals [][]string
}

func c34StartFakeRedis(t *testing.T) *c34FakeRedis {
	ln, err := net.Listen("tcp", "127.0.0.1:0")
	if err != nil {
		t.Fatal(err)
	}
	f := &c34FakeRedis{ln: ln}
	t.Cleanup(func() { _ = ln.Close() })
	go func() {
		for {
			c, err := ln.Accept()
			if err != nil {
				return
			}
			go f.serve(c)
		}
	}()
	return f
}

func c34ReadCommand(br *bufio.Reader) ([]string, error) {
	line, err := br.ReadString('\n')
	if err != nil {
		return nil, err
	}
	line = strings.TrimRight(line, "\r\n")
	if len(line) == 0 || line[0] != '*' {
		return nil, fmt.Errorf("unexpected request line %q", line)
	}
	n, err := strconv.Atoi(line[1:])
	if err != nil {
		return nil, err
	}
	args := make([]string, 0, n)
	for i := 0; i < n; i++ {
		hdr, err := br.ReadString('\n')
		if err != nil {
			return nil, err
		}
		hdr = strings.TrimRight(hdr, "\r\n")
		if len(hdr) == 0 || hdr[0] != '$' {
			return nil, fmt.Errorf("unexpected bulk header %q", hdr)
		}
		l, err := strconv.Atoi(hdr[1:])
		if err != nil {
			return nil, err
		}
		buf := make([]byte, l+2)
		if _, err := io.ReadFull(br, buf); err != nil {
			return nil, err
		}
		args = append(args, string(buf[:l]))
	}
	return args, nil
}

func (f *c34FakeRedis) serve(c net.Conn) {
	defer func() { _ = c.Close() }()
	br := bufio.NewReader(c)
	for {
		args, err := c34ReadCommand(br)
		if err != nil {
			return
		}
		var reply string
		switch strings.ToUpper(args[0]) {
		case "HELLO":
			reply = "%2\r\n+proto\r\n:3\r\n+version\r\n+7.2.0\r\n"
		case "PING":
			reply = "+PONG\r\n"
		case "EVALSHA", "EVAL":
			f.mu.Lock()
			f.evals = append(f.evals, args)
			f.mu.Unlock()
			reply = "-ERR c34: script execution is not emulated\r\n"
		default:
			reply = "+OK\r\n"
		}
		if _, err := c.Write([]byte(reply)); err != nil {
			return
		}
	}
}

func (f *c34FakeRedis) takeEvals() [][]string {
	f.mu.Lock()
	defer f.mu.Unlock()
	e := f.evals
	f.evals = nil
	return e
}

type c34Env struct {
	fake    *c34FakeRedis
	client  rueidis.Client
	node    *Node
	mapOpts MapChannelOptions // what GetMapChannelOptions returns for the current case
}

func c34NewEnv(t *testing.T) *c34Env {
	env := &c34Env{fake: c34StartFakeRedis(t)}
	client, err := rueidis.NewClient(rueidis.ClientOption{
		InitAddress:       []string{env.fake.ln.Addr().String()},
		DisableCache:      true,
		DisableRetry:      true,
		ForceSingleClient: true,
		ConnWriteTimeout:  10 * time.Second,
	})
	if err != nil {
		t.Fatal(err)
	}
	t.Cleanup(client.Close)
	env.client = client
	node, err := New(Config{
		LogLevel:   LogLevelNone,
		LogHandler: func(LogEntry) {},
		Map: MapConfig{GetMapChannelOptions: func(string) MapChannelOptions { return env.mapOpts }},
	})
	if err != nil {
		t.Fatal(err)
	}
	t.Cleanup(func() { _ = node.Shutdown(context.Background()) })
	env.node = node
	return env
}

var c34OpNames = []string{
	"broker.publish+history", "broker.publish+history+idempotency", "broker.publish-idempotent", "broker.history",
	"presence.add", "presence.remove", "presence.get", "presence.stats",
	"map.publish", "map.remove",
}

// c34Call performs ONE real operation and returns the single script call it made.
// chanArg is the ARGV index of the PUB/SUB channel the script publishes to (-1: the script has none).
func c34Call(t *testing.T, env *c34Env, cf c34Cfg, op int, variant int, ch, ik string) (term string, js map[string]any, ok bool) {
	var tags []string
	if cf.Precomp {
		tags, _ = redispartition.FindTags(cf.Parts)
	}
	shard := &RedisShard{isCluster: cf.Cluster, client: env.client}
	comp, chanArg := 0, -1
	desc := c34OpNames[op]
	env.fake.takeEvals()
	switch {
	case op <= 3:
		b := &RedisBroker{
			node:                    env.node,
			config:                  RedisBrokerConfig{Prefix: cf.Prefix, NumShardedPubSubPartitions: cf.Parts, UseLists: cf.Lists},
			shards:                  []*shardWrapper{{shard: shard}},
			partitionTags:           tags,
			publishIdempotentScript: rueidis.NewLuaScript(publishIdempotentSource),
			historyListScript:       rueidis.NewLuaScript(historyListSource),
			historyStreamScript:     rueidis.NewLuaScript(historyStreamSource),
			addHistoryListScript:    rueidis.NewLuaScript(addHistoryListSource),
			addHistoryStreamScript:  rueidis.NewLuaScript(addHistoryStreamSource),
			messagePrefix:           cf.Prefix + redisClientChannelPrefix,
		}
		switch op {
		case 0:
			ik = ""
			_, _ = b.publish(b.shards[0], ch, []byte("{}"), PublishOptions{HistorySize: 10, HistoryTTL: time.Minute})
			chanArg = 3
		case 1:
			if ik == "" {
				ik = "idem"
			}
			_, _ = b.publish(b.shards[0], ch, []byte("{}"), PublishOptions{HistorySize: 10, HistoryTTL: time.Minute, IdempotencyKey: ik})
			chanArg = 3
		case 2:
			if ik == "" {
				ik = "idem"
			}
			_, _ = b.publish(b.shards[0], ch, []byte("{}"), PublishOptions{IdempotencyKey: ik})
			chanArg = 1
		case 3:
			if cf.Lists {
				_, _, _ = b.historyList(shard, ch, HistoryFilter{Limit: -1})
			} else {
				_, _, _ = b.historyStream(shard, ch, HistoryOptions{Filter: HistoryFilter{Limit: -1}})
			}
		}
	case op <= 7:
		comp = 1
		m := &RedisPresenceManager{
			node:                env.node,
			config:              RedisPresenceManagerConfig{Prefix: cf.Prefix, PresenceTTL: time.Minute},
			shards:              []*RedisShard{shard},
			addPresenceScript:   rueidis.NewLuaScript(addPresenceScriptSource),
			remPresenceScript:   rueidis.NewLuaScript(remPresenceScriptSource),
			presenceScript:      rueidis.NewLuaScript(presenceScriptSource),
			presenceStatsScript: rueidis.NewLuaScript(presenceStatsScriptSource),
		}
		switch op {
		case 4:
			_ = m.addPresence(shard, ch, "client1", &ClientInfo{ClientID: "client1", UserID: "u1"})
		case 5:
			_ = m.removePresence(shard, ch, "client1", "u1")
		case 6:
			_, _ = m.presence(shard, ch)
		case 7:
			_, _ = m.presenceStats(shard, ch)
		}
	default:
		comp = 2
		if cf.Cluster != (cf.Parts > 0) {
			return "", nil, false // NewRedisMapBroker rejects the configuration
		}
		modes := []MapChannelOptions{
			{Mode: MapModeEphemeral, KeyTTL: time.Minute},
			{Mode: MapModeRecoverable, KeyTTL: time.Minute},
			{Mode: MapModePersistent},
			{Mode: MapModePersistent, ordered: true},
			{Mode: MapModeRecoverable, KeyTTL: time.Minute, ordered: true},
		}
		env.mapOpts = modes[variant%len(modes)]
		key := "k1"
		if (variant/len(modes))%3 == 0 && !env.mapOpts.Mode.IsEphemeral() && op == 8 {
			key = "" // unkeyed publication into a channel with a stream
		}
		desc += fmt.Sprintf("/mode%d/key=%q", variant%len(modes), key)
		e := &RedisMapBroker{
			node:          env.node,
			conf:          RedisMapBrokerConfig{Prefix: cf.Prefix, NumShardedPubSubPartitions: cf.Parts},
			shards:        []*brokerShardWrapper{{shard: shard}},
			partitionTags: tags,
			addScript:     rueidis.NewLuaScript(brokerStatePublishScriptSource),
			closeCh:       make(chan struct{}),
			messagePrefix: cf.Prefix + redisClientChannelPrefix,
		}
		if op == 8 {
			_, _ = e.Publish(context.Background(), ch, key, MapPublishOptions{Data: []byte("{}"), IdempotencyKey: ik})
		} else {
			_, _ = e.Remove(context.Background(), ch, key, MapRemoveOptions{IdempotencyKey: ik})
		}
		chanArg = 4
	}
	evals := env.fake.takeEvals()
	if len(evals) != 1 {
		t.Fatalf("%s on channel %q: expected exactly one script call, got %d", desc, ch, len(evals))
	}
	args := evals[0]
	numKeys, err := strconv.Atoi(args[2])
	if err != nil || 3+numKeys > len(args) {
		t.Fatalf("%s: malformed EVALSHA %q", desc, args[:3])
	}
	keys := args[3 : 3+numKeys]
	argv := args[3+numKeys:]
	idx, tag := 0, ""
	if cf.Parts > 0 {
		idx = consistentIndex(ch, cf.Parts)
		if tags != nil {
			tag = tags[idx]
		} else {
			tag = strconv.Itoa(idx)
		}
	}
	chanTerm, strs := "None", append([]string{}, keys...)
	var pubsub any
	if chanArg >= 0 {
		if chanArg >= len(argv) {
			t.Fatalf("%s: ARGV too short", desc)
		}
		chanTerm = vOpt(vStr(argv[chanArg]), true)
		strs = append(strs, argv[chanArg])
		pubsub = argv[chanArg]
	}
	var slots []string
	var slotsJS []uint16
	for _, k := range strs {
		sl := redisSlot(k)
		slots = append(slots, vN(uint64(sl)))
		slotsJS = append(slotsJS, sl)
	}
	cfgTerm := vApp("mkCfg", vStr(cf.Prefix), vBool(cf.Cluster), vN(uint64(cf.Parts)), vBool(cf.Lists))
	term = vApp("KCall", vApp("mkCall", cfgTerm, vBool(cf.Precomp), vN(uint64(comp)), vStr(ch), vN(uint64(idx)), vStr(tag), vStr(ik),
		c34List(keys), chanTerm, vList(slots)))
	js = map[string]any{"cfg": cf, "operation": desc, "channel": ch, "channel_bytes": []byte(ch), "idempotency_key": ik,
		"idx": idx, "tag": tag, "KEYS": keys, "pubsub_channel": pubsub, "slots": slotsJS}
	return term, js, true
}

func c34Channel(r *rand.Rand) string {
	pieces := []string{"}", "{", "}x", "{x}", "a}b", "a{b", ".", "a.b", "news", "user:42", "{}", "}{", "$", "#", "\x00", "\xff", "é", " ", "1", "chat:index"}
	if r.Intn(3) == 0 {
		// ordinary names
		return []string{"news", "chat:index", "user#42", "a.b.c", "$private", "room/1", "x"}[r.Intn(7)] + strings.Repeat("1", r.Intn(3))
	}
	n := r.Intn(5)
	var sb strings.Builder
	for i := 0; i < n; i++ {
		sb.WriteString(pieces[r.Intn(len(pieces))])
	}
	return sb.String()
}

func TestVerifC34(t *testing.T) {
	w := verifOpen(t, "C34")
	defer w.Close()
	sizes := redispartition.PrecomputedSizes()
	env := c34NewEnv(t)
	type fx struct {
		cf     c34Cfg
		ch, ik string
	}
	cl0 := c34Cfg{"centrifuge", true, 0, false, false}
	cl0l := c34Cfg{"centrifuge", true, 0, true, false}
	cl7 := c34Cfg{"centrifuge", true, 7, false, false}
	cl16 := c34Cfg{"centrifuge", true, 16, false, true}
	st := c34Cfg{"centrifuge", false, 0, false, false}
	corpus := []fx{
		{cl0, "news", ""}, {cl0l, "news", "k1"}, {cl7, "news", "k1"}, {cl16, "news", "k1"}, {st, "news", "k1"},
		{cl0, "a}b", "k"}, {cl0, "a{b", "k"}, {cl0, "{x}", "k"}, {cl0, "a.b.c", "{i}"}, {cl0, "x}", "k"}, {cl0, "{", "k"},
		{cl7, "}x", "k"}, {cl7, "a.b}c{d", "k.{}"}, {cl16, "{}.", ""}, {cl16, "..", ""}, {st, "}x", "k"}, {st, "{a}", "k"},
		{c34Cfg{"", true, 0, false, false}, "news", "k"}, {c34Cfg{"c.f", true, 7, true, false}, "news", "k"},
		// known weak spots (keyed): empty tag, brace in prefix
		{cl0, "}x", "k"}, {cl0, "}", ""}, {cl0, "", ""}, {cl0l, "}{a}", "k"},
		{c34Cfg{"a{b", true, 0, false, false}, "news", "k"}, {c34Cfg{"a{b", true, 7, false, false}, "news", "k"},
		{c34Cfg{"{p}", true, 0, false, false}, "news", "k"},
	}
	for i := 0; i < w.N; i++ {
		if !w.Want(i) {
			continue
		}
		r := w.Rand(i)
		var cf c34Cfg
		var ch, ik string
		class := "corpus"
		if i < len(corpus) {
			cf, ch, ik = corpus[i].cf, corpus[i].ch, corpus[i].ik
		} else {
			cf.Prefix = []string{"centrifuge", "centrifuge", "app1", "c.f", "", "x}y", "p:q"}[r.Intn(7)]
			cf.Cluster = r.Intn(4) > 0
			cf.Lists = r.Intn(3) == 0
			if cf.Cluster {
				switch r.Intn(4) {
				case 0:
					cf.Parts = 0
				case 1:
					cf.Parts = []int{1, 2, 3, 7, 10, 100, 1000}[r.Intn(7)]
				case 2:
					cf.Parts = sizes[r.Intn(len(sizes))]
					cf.Precomp = true
				default:
					cf.Parts = sizes[r.Intn(len(sizes))]
				}
			}
			ch = c34Channel(r)
			ik = []string{"", "k1", "a.b", "{x}", "}", "id-42"}[r.Intn(6)]
			weak := cf.Cluster && (ch == "" || ch[0] == '}')
			if weak && r.Intn(25) != 0 {
				// keep the known weak spot (empty hash tag) to a small share of the stream
				ch = "c" + ch
			}
			if cf.Cluster && r.Intn(40) == 0 {
				cf.Prefix = []string{"a{b", "{p}", "pre{"}[r.Intn(3)]
			}
			class = "standalone"
			if cf.Cluster {
				class = "cluster/plain"
				if cf.Parts > 0 {
					class = "cluster/partitioned"
					if cf.Precomp {
						class = "cluster/precomputed-tags"
					}
				}
			}
		}
		var term string
		var js map[string]any
		isCall := false
		if i >= len(corpus) && (i < len(corpus)+200 || r.Intn(5) < 2) {
			// a real script call: the first 200 indexes after the corpus sweep operations x variants systematically
			op, variant := r.Intn(len(c34OpNames)), r.Intn(15)
			if i < len(corpus)+200 {
				k := i - len(corpus)
				op, variant = k%len(c34OpNames), k/len(c34OpNames)
				if op >= 8 { // map broker: make the configuration acceptable so that every variant is exercised
					if cf.Cluster && cf.Parts == 0 {
						cf.Parts = 16
					}
				}
			}
			term, js, isCall = c34Call(t, env, cf, op, variant, ch, ik)
			if isCall {
				class = "call/" + c34OpNames[op] + "/" + class
			}
		}
		if !isCall {
			term, js = c34Run(t, cf, ch, ik)
		}
		if cf.Cluster && (ch == "" || ch[0] == '}') {
			js["key"] = "emptytag-nonpartitioned"
			class += "/emptytag"
		} else if cf.Cluster && strings.Contains(cf.Prefix, "{") {
			js["key"] = "brace-in-prefix"
			class += "/brace-in-prefix"
		}
		nontrivial := cf.Cluster && (cf.Parts > 0 || strings.ContainsAny(ch, "{}."))
		w.Case(i, term, js, class, nontrivial)
	}
}
