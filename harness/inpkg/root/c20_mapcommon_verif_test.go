package centrifuge

// Shared plumbing of the C20 / C21 / C24 drivers: builds a real MemoryMapBroker with a recording
// (and optionally gating) BrokerEventHandler, gives it a virtual clock by deadline shifting, runs
// operations of the model's [op] type against it and prints observables as Coq terms of
// Cfg.Model.MapHub.  Never part of /repo (injected with go test -overlay).

import (
	"context"
	"fmt"
	"sort"
	"strconv"
	"strings"
	"sync"
	"testing"
	"testing/synctest"
	"time"
)

const c20Tick = int64(60000) // one virtual tick = one minute of time.Now().UnixMilli()

// ---- configuration ----

type c20Raw struct {
	Mode    int   `json:"mode"`
	KeyTTL  int64 `json:"keyttl"`
	Size    int   `json:"size"`
	STTL    int64 `json:"sttl"`
	MTTL    int64 `json:"mttl"`
	Ordered bool  `json:"ordered"`
}

func (r c20Raw) coq() string {
	return vApp("mkRaw", vN(uint64(r.Mode)), vZ(r.KeyTTL), vZ(int64(r.Size)), vZ(r.STTL), vZ(r.MTTL), vBool(r.Ordered))
}

func (r c20Raw) opts() MapChannelOptions {
	return MapChannelOptions{
		Mode: MapMode(r.Mode), KeyTTL: time.Duration(r.KeyTTL) * time.Minute, StreamSize: r.Size,
		StreamTTL: time.Duration(r.STTL) * time.Minute, MetaTTL: time.Duration(r.MTTL) * time.Minute, ordered: r.Ordered,
	}
}

func (r c20Raw) hasStream() bool { return r.Mode == 2 || r.Mode == 3 }

// ---- recorded broadcasts ----

type c20Pub struct {
	Key     string `json:"key"`
	Off     uint64 `json:"off"`
	Data    uint64 `json:"data"`
	Tags    int64  `json:"tags"` // -1 = nil map
	Removed bool   `json:"removed"`
	Score   int64  `json:"score"`
}

func c20TagsOf(m map[string]string) int64 {
	if m == nil {
		return -1
	}
	if v, ok := m["t"]; ok {
		n, _ := strconv.ParseInt(v, 10, 64)
		return n
	}
	return 0
}

func c20MkTags(t int64) map[string]string {
	if t < 0 {
		return nil
	}
	if t == 0 {
		return map[string]string{}
	}
	return map[string]string{"t": strconv.FormatInt(t, 10)}
}

func c20DataOf(b []byte) uint64 {
	if len(b) == 0 {
		return 0
	}
	n, _ := strconv.ParseUint(string(b), 10, 64)
	return n
}

func c20PubOf(p *Publication) c20Pub {
	return c20Pub{Key: p.Key, Off: p.Offset, Data: c20DataOf(p.Data), Tags: c20TagsOf(p.Tags), Removed: p.Removed, Score: p.Score}
}

func c20OptN(t int64) string {
	if t < 0 {
		return "None"
	}
	return "(Some " + vN(uint64(t)) + ")"
}

func (p c20Pub) coq() string {
	return vApp("mkPub", vStr(p.Key), vN(p.Off), vN(p.Data), c20OptN(p.Tags), vBool(p.Removed), vZ(p.Score))
}

func c20PubsCoq(ps []c20Pub) string {
	xs := make([]string, len(ps))
	for i, p := range ps {
		xs[i] = p.coq()
	}
	return vList(xs)
}

type c20Pos struct {
	Off   uint64 `json:"off"`
	Epoch uint64 `json:"epoch"` // canonical index, 0 = ""
}

func (p c20Pos) coq() string { return vPair(vN(p.Off), vN(p.Epoch)) }

type c20Bcast struct {
	Ch    int     `json:"ch"`
	Pub   c20Pub  `json:"pub"`
	Pos   c20Pos  `json:"pos"`
	Delta bool    `json:"delta"`
	Prev  *c20Pub `json:"prev"`
}

func (b c20Bcast) coq() string {
	prev := "None"
	if b.Prev != nil {
		prev = "(Some " + b.Prev.coq() + ")"
	}
	return vApp("mkBc", vN(uint64(b.Ch)), b.Pub.coq(), b.Pos.coq(), vBool(b.Delta), prev)
}

// ---- environment ----

type c20Env struct {
	t      *testing.T
	node   *Node
	b      *MemoryMapBroker
	cfgs   []c20Raw
	names  []string
	base   int64
	vnow   int64
	epochs map[string]uint64
	mu     sync.Mutex
	log    []c20Bcast
	// retention: the real expireStreams / removeChannels goroutines run (only inside a synctest bubble)
	retention bool
	// gate: when non-nil, called from inside HandlePublication (any goroutine) after recording.
	gate func(ch int, pub *Publication)
}

func (e *c20Env) chIndex(name string) int {
	for i, n := range e.names {
		if n == name {
			return i
		}
	}
	return -1
}

func (e *c20Env) epoch(s string) uint64 {
	if s == "" {
		return 0
	}
	e.mu.Lock()
	defer e.mu.Unlock()
	if v, ok := e.epochs[s]; ok {
		return v
	}
	v := uint64(len(e.epochs)) // "bogus" pre-seeded, so the first real epoch gets 1
	e.epochs[s] = v
	return v
}

// epochStr maps a canonical index back to a string usable in a request.
func (e *c20Env) epochStr(i uint64) string {
	if i == 0 {
		return ""
	}
	e.mu.Lock()
	defer e.mu.Unlock()
	for s, v := range e.epochs {
		if v == i {
			return s
		}
	}
	return "unknown-" + strconv.FormatUint(i, 10)
}

func (e *c20Env) pos(sp StreamPosition) c20Pos { return c20Pos{Off: sp.Offset, Epoch: e.epoch(sp.Epoch)} }

type c20Handler struct{ e *c20Env }

func (h *c20Handler) HandlePublication(ch string, pub *Publication, sp StreamPosition, useDelta bool, prevPub *Publication) error {
	e := h.e
	b := c20Bcast{Ch: e.chIndex(ch), Pub: c20PubOf(pub), Pos: e.pos(sp), Delta: useDelta}
	if prevPub != nil {
		p := c20PubOf(prevPub)
		b.Prev = &p
	}
	e.mu.Lock()
	e.log = append(e.log, b)
	g := e.gate
	e.mu.Unlock()
	if g != nil {
		g(b.Ch, pub)
	}
	return nil
}
func (h *c20Handler) HandleJoin(string, *ClientInfo) error  { return nil }
func (h *c20Handler) HandleLeave(string, *ClientInfo) error { return nil }

var c20NodeOnce sync.Once
var c20Node *Node

// c20EnsureNode creates the shared Node (call it outside any synctest bubble first).
func c20EnsureNode(t *testing.T) {
	c20NodeOnce.Do(func() {
		n, err := New(Config{})
		if err != nil {
			t.Fatal(err)
		}
		c20Node = n
	})
}

// startRetention runs the broker's own StreamTTL / MetaTTL sweeper goroutines. Must be called inside
// a synctest bubble: their 1-second timers then fire on the bubble's fake clock, exactly when the
// driver sleeps (op "xstreams"), and close() must be called before the bubble ends.
func (e *c20Env) startRetention() {
	e.retention = true
	go e.b.mapHub.expireStreams()
	go e.b.mapHub.removeChannels()
}

func (e *c20Env) close() { _ = e.b.Close(context.Background()) }

// retentionTick lets the fake clock pass one second: both sweepers run their loop body once
// (synctest.Wait returns when they are blocked on their timers again), then the clock base is
// moved so that all stored deadlines keep their virtual distance.
func (e *c20Env) retentionTick() {
	e.snap()
	time.Sleep(time.Second)
	synctest.Wait()
	delta := time.Now().UnixMilli() - e.base
	e.mapDeadlines(func(d int64) int64 { return d + delta })
	e.base += delta
}

func c20NewEnv(t *testing.T, cfgs []c20Raw, names []string) *c20Env {
	c20EnsureNode(t)
	e := &c20Env{t: t, node: c20Node, cfgs: cfgs, names: names, epochs: map[string]uint64{"\x00unused": 0}}
	e.node.config.Map.GetMapChannelOptions = func(channel string) MapChannelOptions {
		i := e.chIndex(channel)
		if i < 0 || i >= len(e.cfgs) {
			return MapChannelOptions{}
		}
		return e.cfgs[i].opts()
	}
	b, err := NewMemoryMapBroker(e.node, MemoryMapBrokerConfig{})
	if err != nil {
		t.Fatal(err)
	}
	// Register the handler WITHOUT starting the background sweepers (RegisterEventHandler would
	// run them on wall-clock timers); the driver triggers expireKeysIteration itself.
	h := &c20Handler{e: e}
	b.eventHandler = h
	b.mapHub.setEventHandler(h)
	e.b = b
	e.base = time.Now().UnixMilli()
	return e
}

func c20FloorDiv(a, b int64) int64 {
	q := a / b
	if (a%b != 0) && ((a < 0) != (b < 0)) {
		q--
	}
	return q
}

// mapDeadlines applies f to every absolute deadline the broker keeps for key TTLs and idempotency results.
func (e *c20Env) mapDeadlines(f func(int64) int64) {
	h := e.b.mapHub
	h.Lock()
	for _, c := range h.channels {
		for _, ent := range c.state {
			if ent.ExpireAt != 0 {
				ent.ExpireAt = f(ent.ExpireAt)
			}
		}
	}
	for k, d := range h.keyExpires {
		h.keyExpires[k] = f(d)
	}
	for _, it := range h.keyExpireQueue {
		it.Priority = f(it.Priority) // monotone map: heap order is preserved
	}
	if h.nextKeyExpireCheck != 0 {
		h.nextKeyExpireCheck = f(h.nextKeyExpireCheck)
	}
	for k, d := range h.expires {
		h.expires[k] = f(d)
	}
	for _, it := range h.expireQueue {
		it.Priority = f(it.Priority)
	}
	if h.nextExpireCheck != 0 {
		h.nextExpireCheck = f(h.nextExpireCheck)
	}
	for k, d := range h.removes {
		h.removes[k] = f(d)
	}
	for _, it := range h.removeQueue {
		it.Priority = f(it.Priority)
	}
	if h.nextRemoveCheck != 0 {
		h.nextRemoveCheck = f(h.nextRemoveCheck)
	}
	h.Unlock()
	e.b.resultCacheMu.Lock()
	for _, m := range e.b.resultCache {
		for k, v := range m {
			v.ExpireAt = f(v.ExpireAt)
			m[k] = v
		}
	}
	e.b.resultCacheMu.Unlock()
}

// snap removes the real-clock drift: every deadline becomes base + k*tick exactly.
func (e *c20Env) snap() {
	drift := time.Now().UnixMilli() - e.base
	if drift < 0 || drift > c20Tick/4 {
		e.t.Fatalf("C20 virtual clock: real drift %d ms too large for a %d ms tick", drift, c20Tick)
	}
	e.mapDeadlines(func(d int64) int64 { return e.base + c20FloorDiv(d-e.base+c20Tick/2, c20Tick)*c20Tick })
}

func (e *c20Env) advance(n int64) {
	e.snap()
	e.mapDeadlines(func(d int64) int64 { return d - n*c20Tick })
	e.vnow += n
}

// validDeadlines: virtual deadline -> set of "ch\x00key" currently tracked in keyExpires.
func (e *c20Env) deadlineTaken(d int64, except string) bool {
	h := e.b.mapHub
	h.RLock()
	defer h.RUnlock()
	for k, v := range h.keyExpires {
		if k == except {
			continue
		}
		if c20FloorDiv(v-e.base+c20Tick/2, c20Tick)+e.vnow == d {
			return true
		}
	}
	return false
}

// ---- operations ----

type c20Op struct {
	Kind string `json:"kind"` // publish remove clear rstate rstream advance sweep phase1 phase2
	Ch   int    `json:"ch"`
	Key  string `json:"key,omitempty"`
	// publish / remove
	Idem    uint64  `json:"idem,omitempty"`
	IdemTTL uint64  `json:"idemttl,omitempty"`
	Data    uint64  `json:"data,omitempty"`
	Tags    int64   `json:"tags"`
	Delta   bool    `json:"delta,omitempty"`
	Ver     uint64  `json:"ver,omitempty"`
	Vep     uint64  `json:"vep,omitempty"`
	Score   int64   `json:"score,omitempty"`
	Mode    int     `json:"mode,omitempty"` // 0 replace 1 ifnew 2 ifexists
	Refresh bool    `json:"refresh,omitempty"`
	Exp     *c20Pos `json:"exp,omitempty"`
	// reads
	Rev     *c20Pos `json:"rev,omitempty"`
	Cursor  string  `json:"cursor,omitempty"`
	Limit   int     `json:"limit,omitempty"`
	Asc     bool    `json:"asc,omitempty"`
	Reverse bool    `json:"reverse,omitempty"`
	// advance
	N int64 `json:"n,omitempty"`
}

func c20OptPos(p *c20Pos) string {
	if p == nil {
		return "None"
	}
	return "(Some " + p.coq() + ")"
}

func (o c20Op) coq() string {
	ch := vN(uint64(o.Ch))
	switch o.Kind {
	case "publish":
		mode := [...]string{"KReplace", "KIfNew", "KIfExists"}[o.Mode]
		po := vApp("mkPO", vN(o.Idem), vN(o.IdemTTL), vN(o.Data), c20OptN(o.Tags), vBool(o.Delta), vN(o.Ver), vN(o.Vep),
			vZ(o.Score), mode, vBool(o.Refresh), c20OptPos(o.Exp))
		return vApp("OPublish", ch, vStr(o.Key), po)
	case "remove":
		ro := vApp("mkRO", vN(o.Idem), vN(o.IdemTTL), c20OptPos(o.Exp), c20OptN(o.Tags))
		return vApp("ORemove", ch, vStr(o.Key), ro)
	case "clear":
		return vApp("OClear", ch)
	case "rstate":
		return vApp("OReadState", ch, c20OptPos(o.Rev), vStr(o.Cursor), vZ(int64(o.Limit)), vStr(o.Key), vBool(o.Asc))
	case "rstream":
		return vApp("OReadStream", ch, c20OptPos(o.Rev), vZ(int64(o.Limit)), vBool(o.Reverse))
	case "advance":
		return vApp("OAdvance", vN(uint64(o.N)))
	case "sweep":
		return "OSweep"
	case "xstreams":
		return "OExpireStreams"
	case "xchannels":
		return "ORemoveChannels"
	case "phase1":
		return "OPhase1"
	case "phase2":
		return "OPhase2"
	}
	panic("bad op kind " + o.Kind)
}

var c20ErrCodes = []struct {
	sub  string
	code uint64
}{
	{"map channel not configured: set Mode", 1},
	{"invalid Mode value", 2},
	{"KeyTTL required for mode with expiry", 3},
	{"KeyTTL must be positive", 4},
	{"KeyTTL must be 0 for persistent mode", 5},
	{"StreamSize requires recoverable or persistent mode", 6},
	{"StreamTTL requires recoverable or persistent mode", 7},
	{"MetaTTL requires recoverable or persistent mode", 8},
	{"StreamSize must be non-negative", 9},
	{"StreamTTL must be non-negative", 10},
	{"MetaTTL must be non-negative", 11},
	{"MetaTTL must be >= StreamTTL", 12},
	{"MetaTTL must be 0 (permanent) when KeyTTL is 0", 13},
	{"MetaTTL must be >= KeyTTL", 14},
	{"CAS (ExpectedPosition) requires recoverable or persistent mode", 20},
	{"version-based dedup requires recoverable or persistent mode", 21},
}

func c20ErrCode(err error) uint64 {
	s := err.Error()
	for _, c := range c20ErrCodes {
		if strings.Contains(s, c.sub) {
			return c.code
		}
	}
	return 99
}

func (e *c20Env) spOf(p *c20Pos) *StreamPosition {
	if p == nil {
		return nil
	}
	return &StreamPosition{Offset: p.Off, Epoch: e.epochStr(p.Epoch)}
}

func c20Name(prefix string, n uint64) string {
	if n == 0 {
		return ""
	}
	return prefix + strconv.FormatUint(n, 10)
}

func c20Reason(r SuppressReason) string {
	switch r {
	case SuppressReasonNone:
		return "RNone"
	case SuppressReasonIdempotency:
		return "RIdem"
	case SuppressReasonVersion:
		return "RVersion"
	case SuppressReasonKeyExists:
		return "RKeyExists"
	case SuppressReasonKeyNotFound:
		return "RKeyNotFound"
	case SuppressReasonPositionMismatch:
		return "RMismatch"
	}
	return "RNone"
}

func (e *c20Env) updCoq(res MapUpdateResult, err error) string {
	if err != nil {
		return vApp("RUpd", vApp("UErr", vN(c20ErrCode(err))))
	}
	cur := "None"
	if res.CurrentEntry != nil {
		cur = "(Some " + vPair(vN(res.CurrentEntry.Offset), vN(c20DataOf(res.CurrentEntry.Data))) + ")"
	}
	return vApp("RUpd", vApp("URes", e.pos(res.Position).coq(), vBool(res.Suppressed), c20Reason(res.SuppressReason), cur))
}

func c20Pubs(ps []*Publication) []c20Pub {
	out := make([]c20Pub, len(ps))
	for i, p := range ps {
		out[i] = c20PubOf(p)
	}
	return out
}

// c20Obs is what one operation produced: the result as a Coq term of type [res], the broadcasts
// emitted while it ran, and a JSON-friendly summary.
type c20Obs struct {
	Res    string     `json:"res"`
	Bcasts []c20Bcast `json:"bcasts"`
	// for generators
	pubs       []c20Pub
	cursor     string
	suppressed bool
	isErr      bool
}

func (o c20Obs) coq() string {
	xs := make([]string, len(o.Bcasts))
	for i, b := range o.Bcasts {
		xs[i] = b.coq()
	}
	return vPair(o.Res, vList(xs))
}

// c20Count accumulates a counter in the evidence's "extra" section.
func c20Count(w *verifW, key string, n int) {
	v, _ := w.Extra[key].(int)
	w.Extra[key] = v + n
}

func (e *c20Env) takeLog() []c20Bcast {
	e.mu.Lock()
	defer e.mu.Unlock()
	l := e.log
	e.log = nil
	return l
}

// exec runs one operation on the real broker (panics are reported as an impossible result so
// that the check fails loudly instead of crashing the test binary).
func (e *c20Env) exec(o c20Op) (obs c20Obs) {
	ctx := context.Background()
	defer func() {
		if r := recover(); r != nil {
			obs = c20Obs{Res: "RFuel (* PANIC: " + strings.ReplaceAll(fmt.Sprint(r), "*)", "* )") + " *)", Bcasts: e.takeLog()}
		}
	}()
	name := ""
	if o.Ch >= 0 && o.Ch < len(e.names) {
		name = e.names[o.Ch]
	}
	switch o.Kind {
	case "publish":
		mo := MapPublishOptions{
			IdempotencyKey: c20Name("ik", o.Idem), IdempotentResultTTL: time.Duration(o.IdemTTL) * time.Minute,
			Data: []byte(strconv.FormatUint(o.Data, 10)), Tags: c20MkTags(o.Tags), UseDelta: o.Delta,
			Version: o.Ver, VersionEpoch: c20Name("ve", o.Vep), score: o.Score,
			KeyMode: [...]KeyMode{KeyModeReplace, KeyModeIfNew, KeyModeIfExists}[o.Mode], RefreshTTLOnSuppress: o.Refresh,
			ExpectedPosition: e.spOf(o.Exp),
		}
		res, err := e.b.Publish(ctx, name, o.Key, mo)
		e.snap()
		obs.Res = e.updCoq(res, err)
		obs.suppressed, obs.isErr = res.Suppressed, err != nil
	case "remove":
		ro := MapRemoveOptions{IdempotencyKey: c20Name("ik", o.Idem), IdempotentResultTTL: time.Duration(o.IdemTTL) * time.Minute,
			ExpectedPosition: e.spOf(o.Exp), Tags: c20MkTags(o.Tags)}
		res, err := e.b.Remove(ctx, name, o.Key, ro)
		e.snap()
		obs.Res = e.updCoq(res, err)
		obs.suppressed, obs.isErr = res.Suppressed, err != nil
	case "clear":
		_ = e.b.Clear(ctx, name, MapClearOptions{})
		obs.Res = "RUnit"
	case "rstate":
		res, err := e.b.ReadState(ctx, name, MapReadStateOptions{Revision: e.spOf(o.Rev), Cursor: o.Cursor, Limit: o.Limit, Key: o.Key, Asc: o.Asc})
		switch {
		case err == ErrorUnrecoverablePosition:
			obs.Res = vApp("RState", vApp("StUnrec", e.pos(res.Position).coq()))
			obs.isErr = true
		case err != nil:
			obs.Res = vApp("RState", vApp("StErr", vN(c20ErrCode(err))))
			obs.isErr = true
		default:
			obs.Res = vApp("RState", vApp("StOk", c20PubsCoq(c20Pubs(res.Publications)), e.pos(res.Position).coq(), vStr(res.Cursor)))
			obs.cursor = res.Cursor
			obs.pubs = c20Pubs(res.Publications)
		}
	case "rstream":
		res, err := e.b.ReadStream(ctx, name, MapReadStreamOptions{Filter: StreamFilter{Since: e.spOf(o.Rev), Limit: o.Limit, Reverse: o.Reverse}})
		switch {
		case err == ErrorUnrecoverablePosition:
			obs.Res = vApp("RStream", "SUnrec")
			obs.isErr = true
		case err != nil:
			obs.Res = "RFuel (* unexpected ReadStream error *)"
			obs.isErr = true
		default:
			obs.Res = vApp("RStream", vApp("SOk", c20PubsCoq(c20Pubs(res.Publications)), e.pos(res.Position).coq()))
		}
	case "advance":
		e.advance(o.N)
		obs.Res = "RUnit"
	case "xstreams": // one tick of both real retention sweepers (they commute); "xchannels" is its second label
		if !e.retention {
			panic("xstreams without retention goroutines")
		}
		e.retentionTick()
		obs.Res = "RUnit"
	case "xchannels":
		obs.Res = "RUnit"
	case "sweep":
		e.snap()
		var next int64
		e.b.mapHub.expireKeysIteration(&next)
		e.snap()
		obs.Res = "RUnit"
	default:
		panic("exec: bad kind " + o.Kind)
	}
	obs.Bcasts = e.takeLog()
	return obs
}

// ---- introspection used by generators (never part of the observables) ----

func (e *c20Env) curEpoch(ch int) uint64 {
	h := e.b.mapHub
	h.RLock()
	s := ""
	if c, ok := h.channels[e.names[ch]]; ok && c.stream != nil {
		s = c.stream.Epoch()
	}
	h.RUnlock()
	return e.epoch(s)
}

func (e *c20Env) curEntry(ch int, key string) (off uint64, ver uint64, ok bool) {
	h := e.b.mapHub
	h.RLock()
	defer h.RUnlock()
	if c, ok := h.channels[e.names[ch]]; ok {
		if ent, ok := c.state[key]; ok {
			return ent.Publication.Offset, ent.Version, true
		}
	}
	return 0, 0, false
}

func (e *c20Env) curTop(ch int) uint64 {
	h := e.b.mapHub
	h.RLock()
	defer h.RUnlock()
	if c, ok := h.channels[e.names[ch]]; ok && c.stream != nil {
		return c.stream.Top()
	}
	return 0
}

func (e *c20Env) keysOf(ch int) []string {
	h := e.b.mapHub
	h.RLock()
	defer h.RUnlock()
	var ks []string
	if c, ok := h.channels[e.names[ch]]; ok {
		for k := range c.state {
			ks = append(ks, k)
		}
	}
	sort.Strings(ks)
	return ks
}

// avoidTie inserts virtual-time advances (returned as ops already executed) until setting a key
// deadline now+ttl would not coincide with the deadline of a different tracked key: the order in
// which container/heap pops equal priorities is not part of the model.
func (e *c20Env) avoidTie(ch int, key string, emit func(c20Op, c20Obs)) {
	if ch < 0 || ch >= len(e.cfgs) || key == "" {
		return
	}
	ttl := e.cfgs[ch].KeyTTL
	if ttl <= 0 || e.cfgs[ch].Mode == 3 || e.cfgs[ch].Mode < 1 || e.cfgs[ch].Mode > 3 {
		return
	}
	for i := 0; i < 64 && e.deadlineTaken(e.vnow+ttl, e.names[ch]+"\x00"+key); i++ {
		o := c20Op{Kind: "advance", N: 1, Tags: -1}
		emit(o, e.exec(o))
	}
}
