package centrifuge

// C21 driver: builds map channel states with adversarial keys (prefixes of each other, NUL / 0xff
// bytes, digit and '-' look-alikes) and scores (ties, int64 extremes), then paginates the real
// MemoryMapBroker.ReadState with one page size and direction until the cursor is empty, and reads
// single keys.

import (
	"fmt"
	"math"
	"math/rand"
	"sort"
	"testing"
)

var c21Alphabet = []byte{0x00, 'a', 'b', 0xff, '-', '1', '0', 0x01}

func c21Key(r *rand.Rand) string {
	n := 1 + r.Intn(4)
	b := make([]byte, n)
	for i := range b {
		b[i] = c21Alphabet[r.Intn(len(c21Alphabet))]
	}
	return string(b)
}

func c21Keys(r *rand.Rand, n int) []string {
	seen := map[string]bool{}
	var ks []string
	add := func(k string) {
		if k != "" && !seen[k] && len(ks) < n {
			seen[k] = true
			ks = append(ks, k)
		}
	}
	for guard := 0; len(ks) < n && guard < 20*n+20; guard++ {
		k := c21Key(r)
		add(k)
		switch r.Intn(4) {
		case 0: // prefixes
			for i := 1; i < len(k); i++ {
				add(k[:i])
			}
		case 1: // extensions, incl. a trailing NUL
			add(k + "\x00")
			add(k + string(c21Alphabet[r.Intn(len(c21Alphabet))]))
		}
	}
	return ks
}

func c21Score(r *rand.Rand, style int) int64 {
	switch style {
	case 0:
		return 7 // all tied
	case 1:
		return int64(r.Intn(3) - 1)
	case 2:
		return []int64{math.MinInt64, math.MaxInt64, -1, 0, 1, math.MinInt64 + 1, math.MaxInt64 - 1}[r.Intn(7)]
	default:
		return r.Int63n(2001) - 1000
	}
}

type c21Entry struct {
	Key   string `json:"key"`
	Score int64  `json:"score"`
	Data  uint64 `json:"data"`
}

type c21Page struct {
	Pubs   []c20Pub `json:"pubs"`
	Cursor string   `json:"cursor"`
}

type c21Case struct {
	Cfg    c20Raw     `json:"cfg"`
	Setup  []c20Op    `json:"setup"`
	Final  []c21Entry `json:"final"`
	Asc    bool       `json:"asc"`
	Limit  int        `json:"limit"`
	Pages  []c21Page  `json:"pages"`
	Probes []string   `json:"probes"`
	OProbe [][]c20Pub `json:"oprobes"`
}

func (c c21Case) coq() string {
	ops := make([]string, len(c.Setup))
	for i, o := range c.Setup {
		ops[i] = o.coq()
	}
	fin := make([]string, len(c.Final))
	for i, e := range c.Final {
		fin[i] = vPair(vStr(e.Key), vPair(vZ(e.Score), vN(e.Data)))
	}
	pgs := make([]string, len(c.Pages))
	for i, p := range c.Pages {
		pgs[i] = vPair(c20PubsCoq(p.Pubs), vStr(p.Cursor))
	}
	prs := make([]string, len(c.Probes))
	ops2 := make([]string, len(c.Probes))
	for i := range c.Probes {
		prs[i] = vStr(c.Probes[i])
		ops2[i] = c20PubsCoq(c.OProbe[i])
	}
	return vApp("mkCase", c.Cfg.coq(), vList(ops), vList(fin), vBool(c.Asc), vZ(int64(c.Limit)), vList(pgs), vList(prs), vList(ops2))
}

func c21Run(t *testing.T, r *rand.Rand, cfg c20Raw, keys []string, style int, n int, limit int, asc bool, churn bool, preRead int) c21Case {
	e := c20NewEnv(t, []c20Raw{cfg}, []string{"c0", "c1"})
	c := c21Case{Cfg: cfg, Asc: asc, Limit: limit}
	state := map[string]c21Entry{}
	var data uint64
	do := func(o c20Op) c20Obs {
		ob := e.exec(o)
		c.Setup = append(c.Setup, o)
		return ob
	}
	pub := func(k string, score int64) {
		data++
		ob := do(c20Op{Kind: "publish", Ch: 0, Key: k, Data: data, Score: score, Tags: -1})
		if !ob.isErr && !ob.suppressed {
			state[k] = c21Entry{Key: k, Score: score, Data: data}
		}
	}
	// the channel object may be created by a read (pinning the epoch) before the first publish
	switch preRead {
	case 1:
		do(c20Op{Kind: "rstate", Ch: 0, Limit: -1, Asc: asc, Tags: -1})
	case 2:
		do(c20Op{Kind: "rstream", Ch: 0, Limit: -1, Tags: -1})
	}
	for _, k := range keys {
		pub(k, c21Score(r, style))
		if churn && r.Intn(6) == 0 { // warm the sorted-key cache in some direction mid-way
			do(c20Op{Kind: "rstate", Ch: 0, Limit: 1 + r.Intn(3), Asc: r.Intn(2) == 0, Tags: -1})
		}
	}
	if churn {
		for _, k := range keys {
			switch r.Intn(8) {
			case 0:
				pub(k, c21Score(r, style))
			case 1:
				ob := do(c20Op{Kind: "remove", Ch: 0, Key: k, Tags: -1})
				if !ob.isErr && !ob.suppressed {
					delete(state, k)
				}
			}
		}
		do(c20Op{Kind: "rstate", Ch: 0, Limit: 2, Asc: !asc, Tags: -1})
	}
	for _, v := range state {
		c.Final = append(c.Final, v)
	}
	sort.Slice(c.Final, func(i, j int) bool { return c.Final[i].Key < c.Final[j].Key })
	// paginate
	cursor := ""
	for it := 0; it < len(state)+3; it++ {
		ob := e.exec(c20Op{Kind: "rstate", Ch: 0, Cursor: cursor, Limit: limit, Asc: asc, Tags: -1})
		if ob.isErr {
			break
		}
		c.Pages = append(c.Pages, c21Page{Pubs: ob.pubs, Cursor: ob.cursor})
		cursor = ob.cursor
		if cursor == "" {
			break
		}
	}
	// single-key reads: present and absent keys
	probe := func(k string) {
		if k == "" {
			return
		}
		ob := e.exec(c20Op{Kind: "rstate", Ch: 0, Key: k, Limit: 1, Tags: -1})
		c.Probes = append(c.Probes, k)
		c.OProbe = append(c.OProbe, ob.pubs)
	}
	for i := 0; i < 2 && len(keys) > 0; i++ {
		k := keys[r.Intn(len(keys))]
		probe(k)
		switch r.Intn(3) {
		case 0:
			probe(k + "\x00")
		case 1:
			probe(k[:len(k)-1])
		}
	}
	probe(c21Key(r))
	_ = n
	return c
}

func TestVerifC21(t *testing.T) {
	w := verifOpen(t, "C21")
	defer w.Close()
	for i := 0; i < w.N; i++ {
		if !w.Want(i) {
			continue
		}
		r := w.Rand(i)
		cfg := c20Raw{Mode: 3, Ordered: r.Intn(10) < 7}
		if r.Intn(4) == 0 {
			cfg = c20Raw{Mode: 2, KeyTTL: 5, Ordered: cfg.Ordered}
		}
		if r.Intn(8) == 0 {
			cfg = c20Raw{Mode: 1, KeyTTL: 5, Ordered: cfg.Ordered}
		}
		var n int
		switch r.Intn(10) {
		case 0:
			n = 0
		case 1:
			n = 1
		case 2, 3:
			n = 20 + r.Intn(21)
		default:
			n = 2 + r.Intn(12)
		}
		style := r.Intn(4)
		keys := c21Keys(r, n)
		limit := 1 + r.Intn(len(keys)+2)
		if r.Intn(12) == 0 {
			limit = -1
		}
		asc := r.Intn(2) == 0
		churn := r.Intn(3) == 0
		preRead := r.Intn(4) // 0,3: none; 1: ReadState first; 2: ReadStream first
		// fixed low indices: the classic shapes
		switch i {
		case 0:
			cfg, keys, style, limit, asc, churn = c20Raw{Mode: 3, Ordered: true}, []string{"a", "ab", "a\x00", "b", "\x00", "-1", "1"}, 0, 2, false, false
		case 1:
			cfg, keys, style, limit, asc, churn = c20Raw{Mode: 3, Ordered: true}, []string{"a", "ab", "a\x00", "b", "\x00", "-1", "1"}, 2, 1, true, false
		case 2:
			cfg, keys, style, limit, asc, churn = c20Raw{Mode: 3}, []string{"a", "ab", "a\x00", "a\x00\x00", "\xff", "\x00"}, 1, 2, false, false
		case 3:
			cfg, keys, style, limit, asc, churn = c20Raw{Mode: 3, Ordered: true}, nil, 0, 3, true, false
		case 4:
			cfg, keys, style, limit, asc, churn, preRead = c20Raw{Mode: 3, Ordered: true}, []string{"a", "b", "c", "d", "e"}, 3, 2, false, false, 1
		case 5:
			cfg, keys, style, limit, asc, churn, preRead = c20Raw{Mode: 2, KeyTTL: 5, Ordered: true}, []string{"a", "b", "c", "d", "e"}, 3, 2, true, false, 2
		}
		c := c21Run(t, r, cfg, keys, style, n, limit, asc, churn, preRead)
		class := fmt.Sprintf("ord=%v/asc=%v/style%d", cfg.Ordered, asc, style)
		if preRead == 1 || preRead == 2 {
			class += "/preread"
		}
		if limit < 0 {
			class += "/all"
		}
		nontrivial := len(c.Final) >= 2 && len(c.Pages) >= 2
		c20Count(w, "pages", len(c.Pages))
		if len(c.Final) > 0 && limit > 0 && len(c.Final)%limit == 0 {
			c20Count(w, "exact_multiple", 1)
		}
		w.Case(i, c.coq(), c, class, nontrivial)
	}
}
