package centrifuge

import (
	"math/rand"
	"testing"
)

// c05GenStamp: the 5 s wait-gate timeout drops a stalled attempt's reservation, a fresh attempt reserves
// the channel, the stalled attempt resumes and subscribeCmd reads the FRESH generation from c.channels.
// The close() the timeout path spawns is held back the natural way: triggerConnect holds connectMu while
// the OnConnect handler is still running.
func c05GenStamp(e *c04Eng, r *rand.Rand) {
	pr := c04Opts{Pres: true}
	e.spawn(c04Op{Kind: "connect"})                 // parked in OnConnect (connectMu held, handlers registered)
	e.spawn(c04Op{Kind: "subcli", Ch: 0, Opts: pr}) // A: reservation (generation 1), handler pending
	u1 := e.spawn(c04Op{Kind: "unsubsrv", Ch: 0})   // waits at A's gate
	e.timeout(u1)                                   // 5 s: gate nil-ed, close spawned (blocked on connectMu)
	e.spawn(c04Op{Kind: "unsubsrv", Ch: 0})         // deletes A's reservation
	e.spawn(c04Op{Kind: "subcli", Ch: 0})           // B: fresh reservation (generation 2)
	var pa, pb *c04Park
	for _, p := range e.parked() {
		if p.kind == c04GkSubH && pa == nil {
			pa = p
		} else if p.kind == c04GkSubH {
			pb = p
		}
	}
	e.release(pa, true)                     // A resumes with B's generation and commits B's reservation
	e.release(pb, false)                    // B is rejected: its rollback deletes A's committed context
	e.release(c07Park(e, c04GkConnH), true) // connect handler returns; the spawned close runs
}

func c05Class(o c04Obs) string {
	if !o.Settled || o.Stuck != "" || o.Status != 3 {
		return ""
	}
	bad := o.Reg || o.GConn != 0 || o.Extra != 0
	var others int64
	for _, c := range o.Chs {
		others += int64(c.NSubs)
		if c.Ctx != nil || c.Hub != nil || c.Pres || c.IsSub || c.Deliv != 0 {
			bad = true
		}
	}
	if bad || o.GSub != others {
		return "C05-leftover-after-close"
	}
	return ""
}

// c05Finish: release everything, then close the connection if it is not closed yet, release again.
func c05Finish(e *c04Eng) {
	c04Finish(e, false)
	e.client.mu.RLock()
	closed := e.client.status == statusClosed
	e.client.mu.RUnlock()
	if !closed {
		e.spawn(c04Op{Kind: "close"})
		c04Finish(e, false)
	}
}

// C05 Nothing of a connection survives its end: every case ends with the connection closed.
func TestVerifC05(t *testing.T) {
	w := verifOpen(t, "C05")
	defer w.Close()
	c04RunAllKey(w, c05Class, func(i int, r *rand.Rand) c04Plan {
		switch i {
		case 0:
			return c04Plan{Name: "gate-timeout/genstamp", Key: "C05-genstamp-after-gate-timeout", NCh: 1,
				Armed: []c04Gk{c04GkConnH, c04GkSubH, c04GkJoin}, Script: c05GenStamp, Finish: c05Finish}
		case 1, 2:
			// OUTSIDE THE MODEL (CNoModel, oracle only): connect-time server-side subscriptions
			// (ConnectReply.Subscriptions) with presence; the connection is closed while the connect command
			// is inside the subscription's AddPresence call; when the call returns the connect command finds
			// the connection closed and must roll back hub entry AND presence entry.  i == 2: two channels.
			subs := []c04ConnSub{{Ch: 0, Opts: c04Opts{Pres: true}}}
			if i == 2 {
				subs = append(subs, c04ConnSub{Ch: 1, Opts: c04Opts{Pres: true, JL: true}})
			}
			return c04Plan{Name: "connect-time-subs/close-during-connect", NCh: len(subs), NoModel: true, ConnSubs: subs,
				Armed: []c04Gk{c04GkPresAdd}, Finish: c05Finish,
				Script: func(e *c04Eng, r *rand.Rand) {
					e.spawn(c04Op{Kind: "connect"}) // the subscriptions' goroutines park in AddPresence
					e.spawn(c04Op{Kind: "close"})   // waits for the in-flight subscriptions
					for k := 0; k < 4; k++ {
						if p := e.parkOf(c04GkPresAdd); p != nil {
							e.release(p, true)
						}
					}
				}}
		case 3, 5:
			// OUTSIDE THE MODEL (CNoModel, oracle only): keyed tracking.  A shared-poll subscription tracks two
			// keys; the asynchronous OnTrack authorisation is answered after the connection was closed
			// (i == 3) or after the channel was unsubscribed (i == 5): no tracked key may stay registered
			// in the shared poll manager (observation ob_extra).
			closeFirst := i == 3
			return c04Plan{Name: "keyed-track/answer-after-end", NCh: 1, NoModel: true, Keyed: true, Finish: c05Finish,
				Script: func(e *c04Eng, r *rand.Rand) {
					c04Connect(e)
					e.spawn(c04Op{Kind: "subkeyed", Ch: 0})
					e.spawn(c04Op{Kind: "track", Ch: 0})
					if closeFirst {
						e.spawn(c04Op{Kind: "close"})
					} else {
						e.spawn(c04Op{Kind: "unsubsrv", Ch: 0})
					}
					e.answerTrack(true)
				}}
		case 9, 10:
			// OUTSIDE THE MODEL (CNoModel, oracle only): a client subscription combining EmitPresence with a
			// map client-presence channel (MapClientPresenceChannel): explicit unsubscribe (9) or close (10)
			// must remove the node-level presence entry as well
			unsub := i == 9
			return c04Plan{Name: "presence+map-presence/end", NCh: 1, NoModel: true, MapPres: true, Finish: c05Finish,
				Script: func(e *c04Eng, r *rand.Rand) {
					c04Connect(e)
					e.spawn(c04Op{Kind: "subcli", Ch: 0, Opts: c04Opts{Pres: true}})
					if !e.client.IsSubscribed(e.chs[0]) {
						e.stuck = "subscription with presence + map presence did not complete"
					}
					if unsub {
						e.spawn(c04Op{Kind: "unsubcli", Ch: 0})
					}
				}}
		case 7:
			// keyed tracking, the ordinary order: tracked keys are registered and removed by close
			return c04Plan{Name: "keyed-track/then-close", NCh: 1, NoModel: true, Keyed: true, Finish: c05Finish,
				Script: func(e *c04Eng, r *rand.Rand) {
					c04Connect(e)
					e.spawn(c04Op{Kind: "subkeyed", Ch: 0})
					e.spawn(c04Op{Kind: "track", Ch: 0})
					e.answerTrack(true)
				}}
		}
		var p c04Plan
		if i%4 == 0 {
			p = c04Plan{Name: "sequential+close", NCh: 2, Script: c04RandomWalk(6 + r.Intn(14))}
		} else {
			p = c04Plan{Name: "random-gated+close", NCh: 1 + r.Intn(2), Armed: c04RandArmed(r),
				Script: c04RandomWalkOpt(6+r.Intn(18), 60)}
		}
		p.Finish = c05Finish
		return p
	})
}
