package centrifuge

import (
	"math"
	"math/rand"
	"testing"
	"testing/synctest"
	"time"
)

// C19 driver: keyed/unkeyed and versioned/unversioned publishes mixed with reads, removals and clock
// moves on a real MemoryBroker under a virtual clock (shares the executor of the C17 driver).

func c19P(ver uint64, vep int, key int, rttl int64, ttl int64) *c17Popts {
	return &c17Popts{Size: 5, TTL: ttl, Ver: ver, Vep: vep, Key: key, RTTL: rttl}
}

func c19Corpus() [][]c17Op {
	all := func(ch int) c17Op { return c17Op{Kind: "hist", Ch: ch, Limit: -1} }
	pub := func(ch int, id uint64, p *c17Popts) c17Op { return c17Op{Kind: "pub", Ch: ch, ID: id, P: p} }
	adv := func(d int64) c17Op { return c17Op{Kind: "adv", D: d} }
	return [][]c17Op{
		// 0: an unversioned publish must not reset the version protection
		{pub(0, 1, c19P(5, 0, 0, 0, 60000)), pub(0, 2, c19P(0, 0, 0, 0, 60000)), pub(0, 3, c19P(3, 0, 0, 0, 60000))},
		// 1: a version-suppressed publish must not extend the stream's lifetime
		{pub(0, 1, c19P(5, 0, 0, 0, 1000)), pub(0, 2, c19P(3, 0, 0, 0, 100000)), adv(2000), all(0)},
		// 2: idempotency: repeat within TTL, other key, repeat after TTL (1 s), default TTL (300 s) edge
		{pub(0, 1, c19P(0, 0, 1, 1000, 60000)), pub(0, 2, c19P(0, 0, 0, 0, 60000)), adv(900), pub(0, 3, c19P(0, 0, 1, 1000, 60000)),
			pub(0, 4, c19P(0, 0, 2, 0, 60000)), adv(100), pub(0, 5, c19P(0, 0, 1, 1000, 60000)), all(0),
			adv(299800), pub(0, 6, c19P(0, 0, 2, 0, 600000)), adv(200), pub(0, 7, c19P(0, 0, 2, 0, 600000)), all(0)},
		// 3: version epochs: same, other, empty; equal version; versions beyond 2^53 and 2^63
		{pub(0, 1, c19P(2, 1, 0, 0, 60000)), pub(0, 2, c19P(2, 1, 0, 0, 60000)), pub(0, 3, c19P(1, 2, 0, 0, 60000)), pub(0, 4, c19P(1, 0, 0, 0, 60000)),
			pub(0, 5, c19P(1<<53, 0, 0, 0, 60000)), pub(0, 6, c19P(1<<53+1, 0, 0, 0, 60000)), pub(0, 7, c19P(1<<53, 0, 0, 0, 60000)),
			pub(0, 8, c19P(1<<63, 0, 0, 0, 60000)), pub(0, 9, c19P(math.MaxUint64, 0, 0, 0, 60000)), pub(0, 10, c19P(math.MaxUint64, 0, 0, 0, 60000)),
			pub(0, 11, c19P(1<<63, 2, 0, 0, 60000)), all(0)},
		// 4: the version survives expiry and removal, not the discard of the metadata
		{pub(0, 1, &c17Popts{Size: 5, TTL: 1000, Meta: 4000, Ver: 7}), adv(2000), all(0), pub(0, 2, &c17Popts{Size: 5, TTL: 1000, Meta: 4000, Ver: 6}),
			{Kind: "rem", Ch: 0}, pub(0, 3, &c17Popts{Size: 5, TTL: 1000, Meta: 4000, Ver: 7}), adv(6000), pub(0, 4, &c17Popts{Size: 5, TTL: 1000, Meta: 4000, Ver: 6}), all(0)},
		// 5: keyed + versioned: a version-suppressed publish does not store its key; no-history keyed publishes
		{pub(0, 1, c19P(5, 0, 0, 0, 60000)), pub(0, 2, c19P(3, 0, 1, 0, 60000)), pub(0, 3, c19P(0, 0, 1, 0, 60000)), pub(0, 4, c19P(9, 0, 1, 0, 60000)),
			pub(1, 5, &c17Popts{Size: 0, TTL: 0, Key: 2}), pub(1, 6, &c17Popts{Size: 0, TTL: 0, Key: 2}), pub(1, 7, &c17Popts{Size: 3, TTL: 5000, Key: 2}), all(0), all(1)},
		// 6: sub-second result TTL truncates to 0 s: never a hit
		{pub(0, 1, c19P(0, 0, 1, 500, 60000)), pub(0, 2, c19P(0, 0, 1, 500, 60000)), pub(0, 3, c19P(0, 0, 1, 1500, 60000)), adv(900), pub(0, 4, c19P(0, 0, 1, 1500, 60000)), adv(100), pub(0, 5, c19P(0, 0, 1, 1500, 60000))},
	}
}

func c19GenPopts(r *rand.Rand, cfg *c17Popts) *c17Popts {
	p := &c17Popts{Size: c17Pick(r, 1, 2, 3, 5, 8), TTL: cfg.TTL, Meta: cfg.Meta}
	if r.Intn(40) == 0 {
		p.Size = 0
	}
	if r.Intn(100) < 45 {
		p.Key = 1 + r.Intn(2)
		p.RTTL = c17Pick[int64](r, 0, 1000, 1000, 2000, 1500, 500, 5000)
	}
	if r.Intn(100) < 60 {
		p.Ver = c17Pick[uint64](r, 1, 2, 2, 3, 3, 4, 5, 6, 1<<53, 1<<53+1, 1<<63, math.MaxUint64)
		p.Vep = c17Pick(r, 0, 0, 1, 1, 2)
	}
	return p
}

func TestVerifC19(t *testing.T) {
	w := verifOpen(t, "C19")
	defer w.Close()
	nodes := []*Node{c17Node(0, false), c17Node(3*time.Second, false), c17Node(0, true), c17Node(5*time.Second, false)}
	corpus := c19Corpus()
	totals := map[string]int{}
	for i := 0; i < w.N; i++ {
		if !w.Want(i) {
			continue
		}
		r := w.Rand(i)
		var env *c17Env
		synctest.Test(t, func(t *testing.T) {
			var node *Node
			if i < len(corpus) {
				node = nodes[2]
			} else {
				node = nodes[r.Intn(len(nodes))]
			}
			env = c17NewEnv(node)
			env.start(nil)
			defer env.close()
			if i < len(corpus) {
				env.Uniform = true
				for _, op := range corpus[i] {
					env.do(op)
				}
				return
			}
			c19RandomCase(r, env)
		})
		class := "random"
		if i < len(corpus) {
			class = "corpus"
		}
		if env.SawSuppIdem > 0 {
			class += "/idem"
		}
		if env.SawSuppVer > 0 {
			class += "/version"
		}
		totals["suppressed_idempotency"] += env.SawSuppIdem
		totals["suppressed_version"] += env.SawSuppVer
		totals["expired_seen"] += env.SawExpired
		totals["epoch_changes"] += env.SawEpochChange
		totals["ops"] += len(env.Ops)
		nontrivial := env.SawSuppIdem+env.SawSuppVer > 0
		term := vApp("mkCase", vN(uint64(env.Now0)), vN(uint64(env.Meta0)), c17CoqOps(env.Ops), c17CoqOuts(env.Outs))
		w.Case(i, term, map[string]any{"now0": env.Now0, "hub_meta_ms": env.Meta0, "ops": env.Ops, "outs": env.Outs}, class, nontrivial)
	}
	for k, v := range totals {
		w.Extra[k] = v
	}
}

func c19RandomCase(r *rand.Rand, env *c17Env) {
	n := 4 + r.Intn(30)
	nch := 1 + r.Intn(2)
	env.Uniform = true // per-channel constant TTLs: inside the domain of the refinement theorem
	cfg := make([]*c17Popts, nch)
	for ch := range cfg {
		cfg[ch] = c17GenPopts(r)
		if cfg[ch].TTL == 0 {
			cfg[ch].TTL = 2000
		}
	}
	var id uint64
	for k := 0; k < n; k++ {
		ch := r.Intn(nch)
		switch x := r.Intn(100); {
		case x < 60:
			id++
			env.do(c17Op{Kind: "pub", Ch: ch, ID: id, P: c19GenPopts(r, cfg[ch])})
		case x < 75:
			op := env.genHistory(r, ch)
			op.Meta = cfg[ch].Meta
			env.do(op)
		case x < 78:
			env.do(c17Op{Kind: "rem", Ch: ch})
		default:
			d := c17GenAdvance(r)
			if r.Intn(25) == 0 {
				d = c17Pick[int64](r, 299000, 300000, 301000)
			}
			env.do(c17Op{Kind: "adv", D: d})
		}
	}
	for ch := 0; ch < nch; ch++ {
		env.do(c17Op{Kind: "hist", Ch: ch, Limit: -1, Meta: cfg[ch].Meta})
	}
}
