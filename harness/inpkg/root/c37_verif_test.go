package centrifuge

import (
	"context"
	"fmt"
	"io"
	"math/rand"
	"sort"
	"strings"
	"sync"
	"testing"
	"time"

	"github.com/centrifugal/protocol"
)

// C37 driver: channel limit / channel name length / queue size decisions on a real client.
// Kind "subs": client subscribe commands (stream and shared-poll routes) with OnSubscribe callbacks
// answered at once or held by the driver, server-side subscribes, unsubscribes.
// Kind "queue": the transport write is blocked by the driver, messages of chosen sizes are enqueued.

type c37Label struct {
	Kind   string `json:"kind"` // sub | complete | srvsub | unsub | enqueue
	Name   int    `json:"name,omitempty"`
	Len    int    `json:"len,omitempty"`
	SP     bool   `json:"sp,omitempty"`  // shared-poll route
	Map    bool   `json:"map,omitempty"` // map route
	Paged  bool   `json:"paged,omitempty"` // map channel whose state takes two pages
	Pre    bool   `json:"pre,omitempty"`   // the bytes were queued by an earlier step (timer mode never flushes here): attributed now
	Many   []int  `json:"many,omitempty"`  // enqueue through the per-channel batch writer (enqueueMany): payload lengths
	Script string `json:"script,omitempty"` // ok | err | async
	Tok    int    `json:"tok,omitempty"`
	OK     bool   `json:"ok,omitempty"`
	Size   int    `json:"size,omitempty"`
}

func (l c37Label) coq() string {
	switch l.Kind {
	case "sub":
		sc := "SOk"
		if l.Script == "err" {
			sc = vApp("SErr", "109")
		} else if l.Script == "async" {
			sc = "SAsync"
		}
		rt := "RStream"
		if l.SP {
			rt = "RSharedPoll"
		} else if l.Paged {
			rt = "RMapPaged"
		} else if l.Map {
			rt = "RMap"
		}
		return vApp("LSub", vN(uint64(l.Name)), vN(uint64(l.Len)), rt, sc)
	case "complete":
		return vApp("LComplete", vN(uint64(l.Tok)), vBool(l.OK))
	case "srvsub":
		return vApp("LSrvSub", vN(uint64(l.Name)))
	case "unsub":
		return vApp("LUnsub", vN(uint64(l.Name)))
	case "mapnext":
		return vApp("LMapNext", vN(uint64(l.Name)))
	case "unsubrace":
		return vApp("LUnsubRace", vN(uint64(l.Tok)), vBool(l.OK))
	}
	return vApp("LEnqueue", vN(uint64(l.Size)))
}

type c37Ev struct {
	Kind string `json:"kind"` // reply | close | handler
	Code uint32 `json:"code,omitempty"`
	Name int    `json:"name,omitempty"`
}

func (e c37Ev) coq() string {
	switch e.Kind {
	case "reply":
		return vApp("OReply", vN(uint64(e.Code)))
	case "close":
		return vApp("OClose", vN(uint64(e.Code)))
	}
	return vApp("OHandler", vN(uint64(e.Name)))
}

type c37Snap struct {
	Closed bool `json:"closed"`
	Held   int  `json:"held"`
	Q      int  `json:"q"`
}

type c37Transport struct {
	*testTransport
	h *c37H
}

func (t *c37Transport) Write(message []byte) error {
	t.h.enterWrite()
	t.testTransport.mu.Lock()
	closed := t.testTransport.closed
	t.testTransport.mu.Unlock()
	if closed {
		return io.EOF
	}
	t.h.onWrite(message)
	return nil
}

func (t *c37Transport) WriteMany(messages ...[]byte) error {
	for _, m := range messages {
		if err := t.Write(m); err != nil {
			return err
		}
	}
	return nil
}

type c37H struct {
	t       *testing.T
	mu      sync.Mutex
	evs     []c37Ev
	client  *Client
	tr      *c37Transport
	marker  chan struct{}
	names   map[string]int
	scripts map[string]string
	pending map[int]func(ok bool)
	mapPending map[int]int // token -> model name of a held map subscribe
	pendChan map[int]string // token -> channel of a held stream / shared-poll subscribe
	qOffset int // queued bytes not yet attributed to a label (timer mode: connect reply, subscribe push)
	cmdChan map[uint32]string // command id -> channel (to attribute subscribe results)
	pages   map[string]*protocol.SubscribeResult // last state page of a paginating map subscription
	nextTok int
	// write gate
	blocked bool
	gate    chan struct{}
	entered chan struct{}
	once    sync.Once
}

func (h *c37H) release() {
	h.once.Do(func() {
		h.mu.Lock()
		h.blocked = false
		h.mu.Unlock()
		close(h.gate)
	})
}

func (h *c37H) enterWrite() {
	h.mu.Lock()
	b := h.blocked
	h.mu.Unlock()
	if b {
		select {
		case h.entered <- struct{}{}:
		default:
		}
		<-h.gate
	}
}

func (h *c37H) onWrite(data []byte) {
	dec := protocol.NewJSONReplyDecoder(data)
	for {
		rep, err := dec.Decode()
		if rep != nil {
			switch {
			case rep.Push != nil:
				if rep.Push.Message != nil && string(rep.Push.Message.Data) == `"c37"` {
					select {
					case h.marker <- struct{}{}:
					default:
					}
				}
			case rep.Error != nil:
				h.mu.Lock()
				h.evs = append(h.evs, c37Ev{Kind: "reply", Code: rep.Error.Code})
				h.mu.Unlock()
			case rep.Id != 0:
				h.mu.Lock()
				h.evs = append(h.evs, c37Ev{Kind: "reply"})
				if rep.Subscribe != nil && rep.Subscribe.Cursor != "" {
					h.pages[h.cmdChan[rep.Id]] = rep.Subscribe
				}
				h.mu.Unlock()
			}
		}
		if err != nil {
			return
		}
	}
}

func c37Channel(name, length int, sp bool) string {
	base := fmt.Sprintf("c%d", name)
	if sp {
		base = fmt.Sprintf("sp%d", name)
	}
	if name >= 20 { // map channels (30.. : pre-populated with two pages of state)
		base = fmt.Sprintf("m%d", name)
	}
	if name == 40 {
		return "batch" // channel written through the per-channel batch writer
	}
	if length > len(base) {
		base += strings.Repeat("x", length-len(base))
	}
	return base
}

func (h *c37H) isClosed() bool {
	h.client.mu.RLock()
	defer h.client.mu.RUnlock()
	return h.client.status == statusClosed
}

func (h *c37H) snapshot() c37Snap {
	c := h.client
	c.mu.RLock()
	sn := c37Snap{Closed: c.status == statusClosed, Held: len(c.channels) + len(c.mapSubscribing)}
	c.mu.RUnlock()
	if c.messageWriter != nil && !sn.Closed {
		sn.Q = c.messageWriter.messages.Size() - h.qOffset
	}
	return sn
}

func (h *c37H) settle(wasClosed *bool) []c37Ev {
	h.mu.Lock()
	blocked := h.blocked
	h.mu.Unlock()
	if !blocked && !h.isClosed() {
		select {
		case <-h.marker:
		default:
		}
		if err := h.client.Send([]byte(`"c37"`)); err == nil {
			select {
			case <-h.marker:
			case <-h.tr.closeCh:
			case <-time.After(5 * time.Second):
				h.t.Fatalf("marker not seen")
			}
		}
	}
	h.mu.Lock()
	evs := h.evs
	h.evs = nil
	h.mu.Unlock()
	var hs, rs []c37Ev
	for _, e := range evs {
		if e.Kind == "handler" {
			hs = append(hs, e)
		} else {
			rs = append(rs, e)
		}
	}
	evs = append(hs, rs...)
	if h.isClosed() && !*wasClosed {
		*wasClosed = true
		code := uint32(0)
		if !blocked {
			select {
			case <-h.tr.closeCh:
			case <-time.After(5 * time.Second):
			}
			h.tr.testTransport.mu.Lock()
			code = h.tr.testTransport.disconnect.Code
			h.tr.testTransport.mu.Unlock()
		}
		evs = append(evs, c37Ev{Kind: "close", Code: code})
	}
	if evs == nil {
		evs = []c37Ev{}
	}
	return evs
}

func c37Run(t *testing.T, limit, maxlen, maxq int, kind string, r *rand.Rand, fixed []c37Label, steps int) (labels []c37Label, obs [][]c37Ev, snaps []c37Snap, conn []c37Ev, snap0 c37Snap) {
	nsubs := 0
	if i := strings.Index(kind, "+"); i >= 0 {
		fmt.Sscanf(kind[i+1:], "%d", &nsubs)
		kind = kind[:i]
	}
	h := &c37H{t: t, marker: make(chan struct{}, 1), names: map[string]int{}, scripts: map[string]string{}, pending: map[int]func(bool){}, mapPending: map[int]int{}, pendChan: map[int]string{}, cmdChan: map[uint32]string{}, pages: map[string]*protocol.SubscribeResult{},
		gate: make(chan struct{}), entered: make(chan struct{}, 1)}
	cfgv := func(n int) int {
		if n == 0 {
			return -1 // zero means "default" for these options
		}
		return n
	}
	node, err := New(Config{LogLevel: LogLevelNone, ClientChannelLimit: cfgv(limit), ChannelMaxLength: cfgv(maxlen), ClientQueueMaxSize: cfgv(maxq),
		SharedPoll: SharedPollConfig{GetSharedPollChannelOptions: func(ch string) (SharedPollChannelOptions, bool) {
			return SharedPollChannelOptions{RefreshInterval: time.Hour, RefreshBatchSize: 10, MaxKeysPerConnection: 10}, strings.HasPrefix(ch, "sp")
		}},
		GetChannelBatchConfig: func(ch string) ChannelBatchConfig {
			if ch == "batch" {
				return ChannelBatchConfig{MaxSize: 2, MaxDelay: time.Hour}
			}
			return ChannelBatchConfig{}
		},
		Map: MapConfig{GetMapChannelOptions: func(string) MapChannelOptions {
			return MapChannelOptions{Mode: MapModeEphemeral, KeyTTL: time.Minute, MinPageSize: 1}
		}}})
	if err != nil {
		t.Fatal(err)
	}
	mapBroker, err := NewMemoryMapBroker(node, MemoryMapBrokerConfig{})
	if err != nil {
		t.Fatal(err)
	}
	if err := mapBroker.RegisterEventHandler(nil); err != nil {
		t.Fatal(err)
	}
	node.SetMapBroker(mapBroker)
	for name := 30; name <= 33; name++ {
		for k := 0; k < 10; k++ {
			if _, err := mapBroker.Publish(context.Background(), c37Channel(name, 3, false), string(rune('a'+k)), MapPublishOptions{Data: []byte(`{"v":1}`)}); err != nil {
				t.Fatal(err)
			}
		}
	}
	node.OnSharedPoll(func(context.Context, SharedPollEvent) (SharedPollResult, error) { return SharedPollResult{}, nil })
	node.OnConnecting(func(context.Context, ConnectEvent) (ConnectReply, error) {
		rep := ConnectReply{Credentials: &Credentials{UserID: "u"}}
		if nsubs > 0 { // server-side subscriptions at connect: model names 50, 51, ...
			rep.Subscriptions = map[string]SubscribeOptions{}
			for k := 0; k < nsubs; k++ {
				rep.Subscriptions[c37Channel(50+k, 3, false)] = SubscribeOptions{}
			}
		}
		if strings.Contains(kind, "delay") || strings.Contains(kind, "timer") {
			rep.WriteDelay = 3 * time.Millisecond
			if strings.Contains(kind, "timer") {
				// timer mode flushes under the writer mutex which enqueue also takes: a stuck transport would
				// block the enqueue itself, so nothing is flushed at all during the case instead
				rep.WriteDelay = 10 * time.Minute
				rep.WriteWithTimer = true
			}
		}
		return rep, nil
	})
	node.OnConnect(func(c *Client) {
		c.OnSubscribe(func(e SubscribeEvent, cb SubscribeCallback) {
			h.mu.Lock()
			h.evs = append(h.evs, c37Ev{Kind: "handler", Name: h.names[e.Channel]})
			sc := h.scripts[e.Channel]
			h.mu.Unlock()
			answer := func(ok bool) {
				if !ok {
					cb(SubscribeReply{}, ErrorPermissionDenied)
					return
				}
				rep := SubscribeReply{}
				if e.Type == SubscriptionTypeSharedPoll || e.Type == SubscriptionTypeMap {
					rep.Options.Type = e.Type
				}
				cb(rep, nil)
			}
			switch sc {
			case "async":
				h.pending[h.nextTok] = answer
				if e.Type == SubscriptionTypeMap {
					h.mapPending[h.nextTok] = h.names[e.Channel]
				} else {
					h.pendChan[h.nextTok] = e.Channel
				}
				h.nextTok++
			case "err":
				cb(SubscribeReply{}, &Error{Code: 109, Message: "scripted"})
			default:
				answer(true)
			}
		})
		c.OnTrack(func(e TrackEvent, cb TrackCallback) { cb(TrackReply{}, nil) })
	})
	if err := node.Run(); err != nil {
		t.Fatal(err)
	}
	defer func() { go func() { _ = node.Shutdown(context.Background()) }() }() // the dissolver sleeps 1 s per job
	ctx, cancel := context.WithCancel(context.Background())
	tt := newTestTransport(cancel)
	tt.setProtocolVersion(ProtocolVersion2)
	h.tr = &c37Transport{testTransport: tt, h: h}
	client, closeFn, err := NewClient(ctx, node, h.tr)
	if err != nil {
		t.Fatal(err)
	}
	h.client = client
	defer func() {
		// answer what the application still holds, otherwise close() waits 5 s on each subscribing gate
		for tk, cb := range h.pending {
			delete(h.pending, tk)
			cb(false)
		}
		_ = closeFn()
	}()
	wasClosed := false
	if !client.HandleCommand(&protocol.Command{Id: 1, Connect: &protocol.ConnectRequest{}}, 0) {
		// refused at connect (more server-side subscriptions than the limit)
		select {
		case <-h.tr.closeCh:
		case <-time.After(5 * time.Second):
			t.Fatalf("connect failed without closing")
		}
		conn = h.settle(&wasClosed)
		snap0 = h.snapshot()
		steps = 0
		fixed = nil
	}
	timerMode := strings.Contains(kind, "timer")
	if timerMode {
		h.mu.Lock()
		h.blocked = true // no flush will happen: do not wait for markers
		h.mu.Unlock()
		h.qOffset = client.messageWriter.messages.Size() // the connect reply
	}
	if !wasClosed {
		conn = h.settle(&wasClosed)
		snap0 = h.snapshot()
		if timerMode {
			snap0.Q = 0 // the queued connect reply is attributed by the first label
		}
	}
	plug := func() {
		// plug the writer: it takes the first message out of the queue and blocks in the transport
		h.mu.Lock()
		h.blocked = true
		h.mu.Unlock()
		_ = client.Send([]byte(`"plug"`))
		select {
		case <-h.entered:
		case <-time.After(5 * time.Second):
			t.Fatalf("writer did not reach the transport")
		}
	}
	defer h.release()
	plugAt := -1
	if strings.HasPrefix(kind, "queue") && !timerMode {
		plugAt = 0
		if strings.Contains(kind, "many") {
			plugAt = 1 // after the server-side subscription to the batched channel
		}
	}
	lastQ := 0
	manyBase := -1 // encoded size of a publication push minus its payload, learnt from the first batch
	cmdID := uint32(1)
	command := func(cmd *protocol.Command) {
		done := make(chan bool, 1)
		go func() { done <- client.HandleCommand(cmd, 0) }()
		select {
		case <-done:
		case <-time.After(5 * time.Second):
			t.Fatalf("HandleCommand blocked")
		}
	}
	used := map[int]c37Label{}
	paging := map[int]bool{} // paged map subscriptions between their two pages
	for k := 0; k < steps; k++ {
		if k == plugAt {
			plug()
		}
		var l c37Label
		if timerMode && h.qOffset > 0 && !wasClosed {
			// attribute what earlier steps left in the queue
			l = c37Label{Kind: "enqueue", Size: h.qOffset, Pre: true}
			h.qOffset = 0
			k--
		} else if fixed != nil {
			l = fixed[k]
		} else if strings.Contains(kind, "many") {
			if k == 0 {
				l = c37Label{Kind: "srvsub", Name: 40}
			} else if k == 1 {
				l = c37Label{Kind: "enqueue", Many: []int{2, 2}} // small first batch: calibrates the push overhead
			} else {
				l = c37Label{Kind: "enqueue", Many: []int{10 + 10*r.Intn(8), 10 + 10*r.Intn(8)}}
			}
		} else if strings.HasPrefix(kind, "queue") {
			l = c37Label{Kind: "enqueue", Size: 40 + 10*r.Intn(12)}
		} else {
			x := r.Intn(100)
			var toks []int
			for tk := range h.pending {
				toks = append(toks, tk)
			}
			var raceToks []int
			for tk := range h.pendChan {
				raceToks = append(raceToks, tk)
			}
			sort.Ints(raceToks)
			switch {
			case len(raceToks) > 0 && x < 6 && !h.isClosed():
				l = c37Label{Kind: "unsubrace", Tok: raceToks[r.Intn(len(raceToks))], OK: r.Intn(3) != 0}
			case len(toks) > 0 && x < 25:
				min := toks[0]
				for _, tk := range toks {
					if tk < min {
						min = tk
					}
				}
				tk := min + r.Intn(1)
				if r.Intn(2) == 0 {
					tk = toks[r.Intn(len(toks))]
				}
				l = c37Label{Kind: "complete", Tok: tk, OK: r.Intn(4) != 0}
			case x < 75:
				name := 1 + r.Intn(7)
				if r.Intn(3) == 0 {
					name = 20 + r.Intn(5) // map route
				}
				if prev, ok := used[name]; ok {
					l = prev
					l.Script = []string{"ok", "ok", "err", "async", "async"}[r.Intn(5)]
					if l.Map {
						for tk := range h.mapPending {
							if h.mapPending[tk] == name {
								// no two overlapping map subscribes of one channel
								l = c37Label{Kind: "srvsub", Name: 10 + r.Intn(4)}
							}
						}
					}
				} else if name >= 20 {
					ln := 3 + r.Intn(3)
					if maxlen > 0 && r.Intn(5) == 0 {
						ln = maxlen + r.Intn(3)
					}
					l = c37Label{Kind: "sub", Name: name, Len: ln, Map: true, Script: []string{"ok", "async", "async", "err"}[r.Intn(4)]}
					used[name] = l
				} else {
					sp := r.Intn(4) == 0
					ln := 3 + r.Intn(3)
					if maxlen > 0 && r.Intn(4) == 0 {
						ln = maxlen + r.Intn(3) // at or above the maximum
					}
					if sp && ln < 4 {
						ln = 4
					}
					l = c37Label{Kind: "sub", Name: name, Len: ln, SP: sp, Script: []string{"ok", "ok", "err", "async", "async"}[r.Intn(5)]}
					used[name] = l
				}
			case x < 79 && len(paging) > 0:
				for n := range paging {
					l = c37Label{Kind: "mapnext", Name: n}
					break
				}
			case x < 82:
				name := 30 + r.Intn(3)
				if _, seen := used[name]; seen {
					l = c37Label{Kind: "srvsub", Name: 10 + r.Intn(4)}
				} else {
					l = c37Label{Kind: "sub", Name: name, Len: 3, Map: true, Paged: true, Script: []string{"ok", "ok", "err"}[r.Intn(3)]}
					used[name] = l
				}
			case x < 87:
				name := 10 + r.Intn(4)
				l = c37Label{Kind: "srvsub", Name: name}
			default:
				name := 1 + r.Intn(7)
				prev, ok := used[name]
				if !ok {
					prev = c37Label{Name: name, Len: 3}
				}
				l = c37Label{Kind: "unsub", Name: name, Len: prev.Len, SP: prev.SP}
				// an unsubscribe waits for a subscribe in flight on the same channel: not generated
				c := h.client
				c.mu.RLock()
				ctx, held := c.channels[c37Channel(name, prev.Len, prev.SP)]
				c.mu.RUnlock()
				if held && !channelHasFlag(ctx.flags, flagSubscribed) {
					l = c37Label{Kind: "srvsub", Name: 10 + r.Intn(4)}
				}
			}
		}
		switch l.Kind {
		case "sub":
			ch := c37Channel(l.Name, l.Len, l.SP)
			if len(ch) != l.Len {
				l.Len = len(ch)
			}
			h.mu.Lock()
			h.names[ch] = l.Name
			h.scripts[ch] = l.Script
			h.mu.Unlock()
			cmdID++
			req := &protocol.SubscribeRequest{Channel: ch}
			if l.SP {
				req.Type = int32(SubscriptionTypeSharedPoll)
			} else if l.Map {
				req.Type = int32(SubscriptionTypeMap)
				req.Phase = MapPhaseState
				req.Limit = 100
				if l.Paged {
					req.Limit = 5
				}
			}
			h.mu.Lock()
			h.cmdChan[cmdID] = ch
			h.mu.Unlock()
			command(&protocol.Command{Id: cmdID, Subscribe: req})
		case "unsubrace":
			// the unsubscribe command blocks on the subscribing gate until the application answers
			cb, ok := h.pending[l.Tok]
			ch := h.pendChan[l.Tok]
			if !ok || ch == "" {
				t.Fatalf("unsubrace: token %d is not a held stream subscribe", l.Tok)
			}
			delete(h.pending, l.Tok)
			delete(h.pendChan, l.Tok)
			cmdID++
			done := make(chan bool, 1)
			unsubCmd := &protocol.Command{Id: cmdID, Unsubscribe: &protocol.UnsubscribeRequest{Channel: ch}}
			go func() { done <- client.HandleCommand(unsubCmd, 0) }()
			select {
			case <-done:
				t.Errorf("unsubscribe did not wait for the subscribe in flight")
			case <-time.After(120 * time.Millisecond):
			}
			cb(l.OK)
			select {
			case <-done:
			case <-time.After(5 * time.Second):
				t.Fatalf("unsubscribe still blocked after the subscribe callback was answered")
			}
		case "complete":
			if cb, ok := h.pending[l.Tok]; ok {
				delete(h.pending, l.Tok)
				delete(h.pendChan, l.Tok)
				delete(h.mapPending, l.Tok)
				cb(l.OK)
			}
		case "srvsub":
			c := h.client
			c.mu.RLock()
			fullBefore := limit > 0 && len(c.channels)+len(c.mapSubscribing) >= limit && c.status != statusClosed
			c.mu.RUnlock()
			_ = client.Subscribe(c37Channel(l.Name, 3, false))
			if fullBefore && !wasClosed {
				select { // Client.Subscribe closes in a goroutine when the limit is reached
				case <-h.tr.closeCh:
				case <-time.After(300 * time.Millisecond):
				}
			}
		case "mapnext":
			ch := c37Channel(l.Name, 3, false)
			h.mu.Lock()
			page := h.pages[ch]
			delete(h.pages, ch)
			h.mu.Unlock()
			if page == nil {
				t.Fatalf("no page to continue for %s", ch)
			}
			cmdID++
			h.mu.Lock()
			h.cmdChan[cmdID] = ch
			h.mu.Unlock()
			command(&protocol.Command{Id: cmdID, Subscribe: &protocol.SubscribeRequest{Channel: ch, Type: int32(SubscriptionTypeMap),
				Phase: MapPhaseState, Limit: 100, Cursor: page.Cursor, Offset: page.Offset, Epoch: page.Epoch}})
			delete(paging, l.Name)
		case "unsub":
			cmdID++
			command(&protocol.Command{Id: cmdID, Unsubscribe: &protocol.UnsubscribeRequest{Channel: c37Channel(l.Name, l.Len, l.SP)}})
		case "enqueue":
			if l.Pre {
				break
			}
			if len(l.Many) > 0 {
				before := client.messageWriter.messages.Size()
				total := 0
				for _, n := range l.Many {
					total += n
				}
				if manyBase >= 0 {
					l.Size = len(l.Many)*manyBase + total
				}
				for _, n := range l.Many {
					if _, err := node.Publish("batch", []byte(`"`+strings.Repeat("b", n-2)+`"`)); err != nil {
						t.Fatalf("publish: %v", err)
					}
				}
				if manyBase < 0 {
					l.Size = client.messageWriter.messages.Size() - before
					manyBase = (l.Size - total) / len(l.Many)
				}
				if maxq > 0 && before+l.Size > maxq && !wasClosed {
					deadline := time.Now().Add(2 * time.Second)
					for !h.isClosed() && time.Now().Before(deadline) {
						time.Sleep(100 * time.Microsecond)
					}
				}
				break
			}
			// payload such that the encoded push has exactly l.Size bytes
			probe, _ := client.getSendPushReply([]byte(`""`))
			pad := l.Size - len(probe)
			if pad < 0 {
				pad = 0
			}
			data := []byte(`"` + strings.Repeat("a", pad) + `"`)
			enc, _ := client.getSendPushReply(data)
			l.Size = len(enc)
			before := 0
			if client.messageWriter != nil {
				before = client.messageWriter.messages.Size()
			}
			_ = client.Send(data)
			if maxq > 0 && before+l.Size > maxq && !wasClosed {
				deadline := time.Now().Add(2 * time.Second)
				for !h.isClosed() && time.Now().Before(deadline) {
					time.Sleep(100 * time.Microsecond)
				}
			}
		}
		labels = append(labels, l)
		evs := h.settle(&wasClosed)
		if l.Kind == "sub" && l.Paged {
			h.mu.Lock()
			if h.pages[c37Channel(l.Name, l.Len, false)] != nil {
				paging[l.Name] = true
			}
			h.mu.Unlock()
		}
		if strings.HasPrefix(kind, "queue") {
			for i := range evs {
				if evs[i].Kind == "close" {
					evs[i].Code = 0 // the code is known only after the gate is released: filled in below
				}
			}
		}
		obs = append(obs, evs)
		if timerMode && l.Kind != "enqueue" && !h.isClosed() {
			// e.g. the subscribe push of a server-side subscribe stays queued: attributed by the next label
			h.qOffset = client.messageWriter.messages.Size() - lastQ
		}
		sn := h.snapshot()
		lastQ = sn.Q
		snaps = append(snaps, sn)
	}
	if strings.HasPrefix(kind, "queue") {
		h.release()
		if wasClosed {
			select {
			case <-h.tr.closeCh:
			case <-time.After(5 * time.Second):
				t.Fatalf("close did not complete after the gate was released")
			}
			h.tr.testTransport.mu.Lock()
			code := h.tr.testTransport.disconnect.Code
			h.tr.testTransport.mu.Unlock()
			for _, evs := range obs {
				for i := range evs {
					if evs[i].Kind == "close" {
						evs[i].Code = code
					}
				}
			}
		}
	}
	return
}

func TestVerifC37(t *testing.T) {
	w := verifOpen(t, "C37")
	defer w.Close()
	type fx struct {
		limit, maxlen, maxq int
		kind                string
		labels              []c37Label
	}
	sub := func(n, ln int, sp bool, sc string) c37Label {
		return c37Label{Kind: "sub", Name: n, Len: ln, SP: sp, Script: sc}
	}
	corpus := []fx{
		{2, 8, 0, "subs", []c37Label{sub(1, 3, false, "ok"), sub(2, 3, false, "ok"), sub(3, 3, false, "ok")}},                                    // third over the limit
		{2, 8, 0, "subs", []c37Label{sub(1, 3, false, "async"), sub(2, 3, false, "async"), sub(3, 3, false, "ok"), {Kind: "complete", Tok: 0, OK: true}, {Kind: "complete", Tok: 1, OK: false}, sub(3, 3, false, "ok")}}, // reservations count
		{2, 8, 0, "subs", []c37Label{sub(1, 3, false, "ok"), sub(2, 3, false, "ok"), {Kind: "srvsub", Name: 10}}},                              // server-side at the limit: disconnect
		{4, 6, 0, "subs", []c37Label{sub(1, 6, false, "ok"), sub(2, 7, false, "ok"), sub(3, 9, false, "async")}},                               // name length: at max ok, above rejected
		{4, 6, 0, "subs", []c37Label{sub(1, 6, true, "ok"), sub(2, 7, true, "ok"), sub(3, 12, true, "async")}},                                  // the same on the shared-poll route
		{2, 8, 0, "subs", []c37Label{{Kind: "sub", Name: 20, Len: 3, Map: true, Script: "async"}, {Kind: "sub", Name: 21, Len: 3, Map: true, Script: "async"}, {Kind: "sub", Name: 22, Len: 3, Map: true, Script: "async"},
			{Kind: "complete", Tok: 0, OK: true}, {Kind: "complete", Tok: 1, OK: true}, {Kind: "complete", Tok: 2, OK: true}}}, // overlapping map subscribes at limit 2
		{2, 8, 0, "subs", []c37Label{sub(1, 3, false, "ok"), {Kind: "sub", Name: 30, Len: 3, Map: true, Paged: true, Script: "ok"}, sub(2, 3, false, "ok"),
			{Kind: "mapnext", Name: 30}, sub(3, 3, false, "ok")}}, // a stream subscribe while a map subscription is between two pages: its slot counts
		{2, 8, 0, "subs", []c37Label{sub(1, 3, false, "ok"), {Kind: "sub", Name: 30, Len: 3, Map: true, Paged: true, Script: "ok"}, {Kind: "srvsub", Name: 10}, {Kind: "mapnext", Name: 30}}},
		{2, 8, 0, "subs+3", nil},                                                                                 // connect with 3 server-side subscriptions, limit 2: 3505
		{2, 8, 0, "subs+2", []c37Label{sub(1, 3, false, "ok"), {Kind: "srvsub", Name: 10}}},               // exactly the limit at connect, then full
		{3, 8, 0, "subs", []c37Label{sub(1, 3, false, "async"), {Kind: "unsubrace", Tok: 0, OK: true}, sub(1, 3, false, "ok")}}, // unsubscribe waits for the held subscribe
		{3, 8, 0, "subs", []c37Label{sub(1, 3, false, "async"), {Kind: "unsubrace", Tok: 0, OK: false}}},
		{0, 0, 200, "queue-delay", []c37Label{{Kind: "enqueue", Size: 90}, {Kind: "enqueue", Size: 90}, {Kind: "enqueue", Size: 90}}},
		{0, 0, 200, "queue-timer", []c37Label{{Kind: "enqueue", Size: 90}, {Kind: "enqueue", Size: 90}, {Kind: "enqueue", Size: 90}}},
		{0, 0, 300, "queue-many", []c37Label{{Kind: "srvsub", Name: 40}, {Kind: "enqueue", Many: []int{2, 2}}, {Kind: "enqueue", Many: []int{60, 60}}, {Kind: "enqueue", Many: []int{60, 60}}}},
		{0, 0, 300, "queue-timer-many", []c37Label{{Kind: "srvsub", Name: 40}, {Kind: "enqueue", Many: []int{2, 2}}, {Kind: "enqueue", Many: []int{60, 60}}, {Kind: "enqueue", Many: []int{60, 60}}}},
		{0, 0, 200, "queue", []c37Label{{Kind: "enqueue", Size: 90}, {Kind: "enqueue", Size: 90}, {Kind: "enqueue", Size: 90}}},              // third crosses 200
		{0, 0, 200, "queue", []c37Label{{Kind: "enqueue", Size: 100}, {Kind: "enqueue", Size: 100}, {Kind: "enqueue", Size: 40}}},            // exactly 200 is fine, 240 is slow
	}
	for i := 0; i < w.N; i++ {
		if !w.Want(i) {
			continue
		}
		r := w.Rand(i)
		var f fx
		steps := 0
		if i < len(corpus) {
			f = corpus[i]
			steps = len(f.labels)
		} else if r.Intn(4) == 0 {
			// the slow-consumer decision in every writer mode, through enqueue and enqueueMany
			mode := []string{"queue", "queue-delay", "queue-timer", "queue-many", "queue-delay-many", "queue-timer-many"}[r.Intn(6)]
			f = fx{0, 0, 150 + 50*r.Intn(4), mode, nil}
			if strings.Contains(mode, "many") {
				f.maxq = 300 + 100*r.Intn(3)
			}
			steps = 3 + r.Intn(6)
		} else {
			f = fx{2 + r.Intn(3), 6 + r.Intn(3), 0, "subs", nil}
			if r.Intn(4) == 0 {
				f.kind = fmt.Sprintf("subs+%d", r.Intn(f.limit+2)) // connect-time subscriptions, up to one more than the limit
			}
			steps = 6 + r.Intn(14)
		}
		labels, obs, snaps, conn, snap0 := c37Run(t, f.limit, f.maxlen, f.maxq, f.kind, r, f.labels, steps)
		ls := make([]string, len(labels))
		os := make([]string, len(labels))
		ss := make([]string, len(labels))
		rejected := 0
		for k := range labels {
			ls[k] = labels[k].coq()
			xs := make([]string, len(obs[k]))
			for j, e := range obs[k] {
				xs[j] = e.coq()
				if (e.Kind == "reply" && (e.Code == 106 || e.Code == 107)) || e.Kind == "close" {
					rejected++
				}
			}
			os[k] = vList(xs)
			ss[k] = vApp("mkSnap", vBool(snaps[k].Closed), vN(uint64(snaps[k].Held)), vN(uint64(snaps[k].Q)))
		}
		nsubs := 0
		if j := strings.Index(f.kind, "+"); j >= 0 {
			fmt.Sscanf(f.kind[j+1:], "%d", &nsubs)
		}
		subNames := make([]string, nsubs)
		for k := range subNames {
			subNames[k] = vN(uint64(50 + k))
		}
		var cs []string
		for _, e := range conn {
			if e.Kind == "reply" {
				continue // the connect reply itself
			}
			cs = append(cs, e.coq())
			if e.Kind == "close" {
				rejected++
			}
		}
		term := vApp("mkCase", vApp("mkCfg", vN(uint64(f.limit)), vN(uint64(f.maxlen)), vN(uint64(f.maxq))), vList(subNames), vList(ls),
			vList(cs), vApp("mkSnap", vBool(snap0.Closed), vN(uint64(snap0.Held)), vN(uint64(snap0.Q))), vList(os), vList(ss))
		class := f.kind
		if rejected > 0 {
			class += "/limit-hit"
		}
		w.Case(i, term, map[string]any{"limit": f.limit, "maxlen": f.maxlen, "maxq": f.maxq, "kind": f.kind, "labels": labels,
			"observed": obs, "snapshots": snaps}, class, rejected > 0)
	}
}
