package centrifuge

import (
	"bytes"
	"context"
	"errors"
	"fmt"
	"io"
	"math/rand"
	"sync"
	"testing"
	"time"

	"github.com/centrifugal/protocol"
)

// C09 driver: random frame / ping / callback-completion sequences against a real Client through
// HandleReadFrame (JSON and Protobuf framing), with application handlers that reply, fail,
// disconnect or keep their callback until the driver completes it.

type c09Kind int

const (
	c09Connect c09Kind = iota
	c09Ping
	c09Subscribe
	c09Unsubscribe
	c09Publish
	c09Presence
	c09PresenceStats
	c09History
	c09Rpc
	c09Send
	c09Refresh
	c09SubRefresh
)

var c09KindCoq = []string{"KConnect", "KPing", "KSubscribe", "KUnsubscribe", "KPublish", "KPresence",
	"KPresenceStats", "KHistory", "KRpc", "KSend", "KRefresh", "KSubRefresh"}

type c09Ev struct {
	Kind string `json:"kind"` // handler | reply | close
	K    int    `json:"k,omitempty"`
	ID   uint32 `json:"id"`
	Code uint32 `json:"code,omitempty"`
}

func (e c09Ev) coq() string {
	switch e.Kind {
	case "handler":
		return vApp("OHandler", c09KindCoq[e.K], vN(uint64(e.ID)))
	case "reply":
		return vApp("OReply", vN(uint64(e.ID)), vN(uint64(e.Code)))
	default:
		return vApp("OClose", vN(uint64(e.Code)))
	}
}

// script of the application handler, a function of the command id (so that the handler can find
// it through the OnCommandRead hook): see c09Script.
type c09Scr struct {
	Kind string // ok | err | disc | async
	Code uint32
}

func c09Script(id uint32) c09Scr {
	switch id % 16 {
	case 8:
		return c09Scr{"err", 100} // plain error => internal
	case 9:
		return c09Scr{"err", 4321}
	case 10:
		return c09Scr{"disc", 3500}
	case 11, 12, 13, 14:
		return c09Scr{"async", 0}
	case 15:
		return c09Scr{"err", 103}
	case 6, 7:
		// the application callback succeeds without a result, the engine call made by the library
		// afterwards (Node.History / Presence / PresenceStats / Publish) decides: see c09EngineCode
		return c09Scr{"engine", 0}
	}
	return c09Scr{"ok", 0}
}

// outcome of the engine step for the scripted fakes: channel "a" fails with a typed client error,
// "b" with an untyped error (=> internal, 100), other channels succeed. 0 = success.
func c09EngineCode(kind c09Kind, ch string) uint32 {
	switch kind {
	case c09History, c09Presence, c09PresenceStats, c09Publish:
	default:
		return 0 // no engine step after the callback
	}
	switch ch {
	case "a":
		switch kind {
		case c09History:
			return ErrorUnrecoverablePosition.Code
		case c09Publish:
			return ErrorTooManyRequests.Code
		}
		return ErrorNotAvailable.Code
	case "b":
		return ErrorInternal.Code
	}
	return 0
}

// what the model is told for a script: an engine outcome is an error reply or a result
func c09Effective(s c09Scr, kind c09Kind, ch string) c09Scr {
	if s.Kind != "engine" {
		return s
	}
	if code := c09EngineCode(kind, ch); code != 0 {
		return c09Scr{"err", code}
	}
	return c09Scr{"ok", 0}
}

// what the OnCommandRead hook answers, a function of the command id as well (ids whose handler
// script is "ok", so that only the hook decides): typed client error, untyped error (=> internal),
// disconnect; everything else passes.
func c09Read(id uint32) c09Scr {
	switch id % 32 {
	case 21:
		if id%64 == 21 {
			return c09Scr{"err", 4001}
		}
		return c09Scr{"err", 100}
	case 5:
		if id%64 == 5 {
			return c09Scr{"disc", 3999}
		}
	}
	return c09Scr{"ok", 0}
}

func (s c09Scr) coqRead() string {
	switch s.Kind {
	case "err":
		return vApp("RdErr", vN(uint64(s.Code)))
	case "disc":
		return vApp("RdDisc", vN(uint64(s.Code)))
	}
	return "RdOk"
}

type c09FailBroker struct{ *MemoryBroker }

func c09EngineErr(kind c09Kind, ch string) error {
	switch c09EngineCode(kind, ch) {
	case 0:
		return nil
	case ErrorInternal.Code:
		return errors.New("engine failure")
	case ErrorUnrecoverablePosition.Code:
		return ErrorUnrecoverablePosition
	case ErrorTooManyRequests.Code:
		return ErrorTooManyRequests
	}
	return ErrorNotAvailable
}

func (b *c09FailBroker) Publish(ch string, data []byte, opts PublishOptions) (PublishResult, error) {
	if err := c09EngineErr(c09Publish, ch); err != nil {
		return PublishResult{}, err
	}
	return b.MemoryBroker.Publish(ch, data, opts)
}

func (b *c09FailBroker) History(ch string, opts HistoryOptions) ([]*Publication, StreamPosition, error) {
	if err := c09EngineErr(c09History, ch); err != nil {
		return nil, StreamPosition{}, err
	}
	return b.MemoryBroker.History(ch, opts)
}

type c09FailPresence struct{}

func (c09FailPresence) Presence(ch string) (map[string]*ClientInfo, error) {
	return map[string]*ClientInfo{}, c09EngineErr(c09Presence, ch)
}
func (c09FailPresence) PresenceStats(ch string) (PresenceStats, error) {
	return PresenceStats{}, c09EngineErr(c09PresenceStats, ch)
}
func (c09FailPresence) AddPresence(string, string, *ClientInfo) error { return nil }
func (c09FailPresence) RemovePresence(string, string, string) error   { return nil }

func (s c09Scr) coq() string {
	switch s.Kind {
	case "err":
		return vApp("SErr", vN(uint64(s.Code)))
	case "disc":
		return vApp("SDisc", vN(uint64(s.Code)))
	case "async":
		return "SAsync"
	}
	return "SOk"
}

var c09Chans = []string{"", "a", "b", "c"}

func c09ChanN(ch string) uint64 {
	for i, c := range c09Chans {
		if c == ch {
			return uint64(i)
		}
	}
	return 50
}

type c09Cmd struct {
	ID     uint32   `json:"id"`
	Fields []int    `json:"fields"`
	Chan   string   `json:"chan"`
	Tok    bool     `json:"tok"`
	Script c09Scr   `json:"script"`
	Read   c09Scr   `json:"read"`
	RawScript string `json:"raw_script,omitempty"`
	names  []string `json:"-"`
}

func (c c09Cmd) coq() string {
	fs := make([]string, len(c.Fields))
	for i, f := range c.Fields {
		fs[i] = c09KindCoq[f]
	}
	return vApp("mkCmd", vN(uint64(c.ID)), vList(fs), vN(c09ChanN(c.Chan)), vBool(c.Tok), c.Script.coq(), c.Read.coqRead())
}

func c09Build(id uint32, fields []int, ch string, tok bool) *protocol.Command {
	cmd := &protocol.Command{Id: id}
	token := ""
	if tok {
		token = "t"
	}
	for _, f := range fields {
		switch c09Kind(f) {
		case c09Connect:
			cmd.Connect = &protocol.ConnectRequest{Name: "c09"}
		case c09Ping:
			cmd.Ping = &protocol.PingRequest{}
		case c09Subscribe:
			cmd.Subscribe = &protocol.SubscribeRequest{Channel: ch}
		case c09Unsubscribe:
			cmd.Unsubscribe = &protocol.UnsubscribeRequest{Channel: ch}
		case c09Publish:
			cmd.Publish = &protocol.PublishRequest{Channel: ch, Data: []byte(`{}`)}
		case c09Presence:
			cmd.Presence = &protocol.PresenceRequest{Channel: ch}
		case c09PresenceStats:
			cmd.PresenceStats = &protocol.PresenceStatsRequest{Channel: ch}
		case c09History:
			cmd.History = &protocol.HistoryRequest{Channel: ch}
		case c09Rpc:
			cmd.Rpc = &protocol.RPCRequest{Method: "m", Data: []byte(`{}`)}
		case c09Send:
			cmd.Send = &protocol.SendRequest{Data: []byte(`{}`)}
		case c09Refresh:
			cmd.Refresh = &protocol.RefreshRequest{Token: token}
		case c09SubRefresh:
			cmd.SubRefresh = &protocol.SubRefreshRequest{Channel: ch, Token: token}
		}
	}
	return cmd
}

// abstraction of a decoded command (what the model gets)
func c09Abstract(cmd *protocol.Command) c09Cmd {
	out := c09Cmd{ID: cmd.Id, Script: c09Script(cmd.Id), Read: c09Read(cmd.Id)}
	add := func(k c09Kind, ch string, tok string, hasTok bool) {
		out.Fields = append(out.Fields, int(k))
		if ch != "" {
			out.Chan = ch
		}
		if hasTok && tok != "" {
			out.Tok = true
		}
	}
	if cmd.Connect != nil {
		add(c09Connect, "", "", false)
	}
	if cmd.Ping != nil {
		add(c09Ping, "", "", false)
	}
	if cmd.Subscribe != nil {
		add(c09Subscribe, cmd.Subscribe.Channel, "", false)
	}
	if cmd.Unsubscribe != nil {
		add(c09Unsubscribe, cmd.Unsubscribe.Channel, "", false)
	}
	if cmd.Publish != nil {
		add(c09Publish, cmd.Publish.Channel, "", false)
	}
	if cmd.Presence != nil {
		add(c09Presence, cmd.Presence.Channel, "", false)
	}
	if cmd.PresenceStats != nil {
		add(c09PresenceStats, cmd.PresenceStats.Channel, "", false)
	}
	if cmd.History != nil {
		add(c09History, cmd.History.Channel, "", false)
	}
	if cmd.Rpc != nil {
		add(c09Rpc, "", "", false)
	}
	if cmd.Send != nil {
		add(c09Send, "", "", false)
	}
	if cmd.Refresh != nil {
		add(c09Refresh, "", cmd.Refresh.Token, true)
	}
	if cmd.SubRefresh != nil {
		add(c09SubRefresh, cmd.SubRefresh.Channel, cmd.SubRefresh.Token, true)
	}
	if out.Fields == nil {
		out.Fields = []int{}
	}
	if len(out.Fields) > 0 {
		// the request fields are listed in the order dispatchCommand tests them
		out.RawScript = out.Script.Kind
		out.Script = c09Effective(out.Script, c09Kind(out.Fields[0]), out.Chan)
	}
	return out
}

type c09Transport struct {
	*testTransport
	h *c09Harness
}

func (t *c09Transport) Write(message []byte) error {
	t.testTransport.mu.Lock()
	closed := t.testTransport.closed
	t.testTransport.mu.Unlock()
	if closed {
		return io.EOF
	}
	t.h.onWrite(message)
	return nil
}

func (t *c09Transport) WriteMany(messages ...[]byte) error {
	for _, m := range messages {
		if err := t.Write(m); err != nil {
			return err
		}
	}
	return nil
}

type c09Pending struct {
	tok  int
	kind c09Kind
	ch   string
	done func(res c09Scr)
}

type c09Harness struct {
	t       *testing.T
	mu      sync.Mutex
	evs     []c09Ev
	proto   ProtocolType
	direct  bool // ReplyWithoutQueue: transport writes happen in the caller's goroutine
	curID   uint32
	pending []*c09Pending
	nextTok int
	panics  int
	useEngine bool // the callback being answered returns no result: the library calls the engine
	marker  chan struct{}
	niceID  uint32
	pinged  bool // driver-side: a server ping was sent and no pong frame since
	tr      *c09Transport
	client  *Client
}

var c09Marker = []byte(`"c09-marker"`)

func (h *c09Harness) log(e c09Ev) {
	h.mu.Lock()
	h.evs = append(h.evs, e)
	h.mu.Unlock()
}

func (h *c09Harness) onWrite(data []byte) {
	var dec protocol.ReplyDecoder
	if h.proto == ProtocolTypeJSON {
		dec = protocol.NewJSONReplyDecoder(data)
	}
	for {
		var rep *protocol.Reply
		var err error
		if dec != nil {
			rep, err = dec.Decode()
		} else { // protobuf: the transport gets one unframed Reply per message
			rep = &protocol.Reply{}
			if uerr := rep.UnmarshalVT(data); uerr != nil {
				h.t.Errorf("reply decode: %v", uerr)
				return
			}
			err = io.EOF
		}
		if rep != nil {
			switch {
			case rep.Push != nil:
				if rep.Push.Message != nil && bytes.Equal(rep.Push.Message.Data, c09Marker) {
					select {
					case h.marker <- struct{}{}:
					default:
					}
				}
			case rep.Error != nil:
				h.log(c09Ev{Kind: "reply", ID: rep.Id, Code: rep.Error.Code})
			case rep.Id == 0 && rep.Connect == nil && rep.Subscribe == nil && rep.Unsubscribe == nil && rep.Publish == nil &&
				rep.Presence == nil && rep.PresenceStats == nil && rep.History == nil && rep.Rpc == nil && rep.Refresh == nil && rep.SubRefresh == nil:
				// server ping (empty reply)
			default:
				h.log(c09Ev{Kind: "reply", ID: rep.Id})
			}
		}
		if err != nil {
			if err != io.EOF {
				h.t.Errorf("reply decode: %v", err)
			}
			return
		}
	}
}

func (h *c09Harness) closedNow() (bool, uint32) {
	h.tr.testTransport.mu.Lock()
	defer h.tr.testTransport.mu.Unlock()
	return h.tr.testTransport.closed, h.tr.testTransport.disconnect.Code
}

func (h *c09Harness) waitClosed() {
	select {
	case <-h.tr.testTransport.closeCh:
	case <-time.After(10 * time.Second):
		h.t.Fatalf("connection was not closed")
	}
}

func c09Err(s c09Scr) error {
	switch s.Kind {
	case "err":
		if s.Code == 100 {
			return errors.New("boom")
		}
		return &Error{Code: s.Code, Message: "scripted"}
	case "disc":
		return Disconnect{Code: s.Code, Reason: "scripted"}
	}
	return nil
}

// invoke is the body of every scripted application handler.
func (h *c09Harness) invoke(kind c09Kind, ch string, finish func(err error)) {
	id := h.curID
	h.log(c09Ev{Kind: "handler", K: int(kind), ID: id})
	s := c09Script(id)
	if s.Kind == "async" {
		p := &c09Pending{tok: h.nextTok, kind: kind, ch: ch}
		h.nextTok++
		p.done = func(res c09Scr) {
			h.useEngine = res.Kind == "engine"
			finish(c09Err(res))
			h.useEngine = false
		}
		h.pending = append(h.pending, p)
		return
	}
	h.useEngine = s.Kind == "engine"
	finish(c09Err(s))
	h.useEngine = false
	if s.Kind == "disc" {
		h.waitClosed() // the close runs in its own goroutine: make it take effect before the reader goes on
	}
}

type c09Label struct {
	Kind      string   `json:"kind"` // frame | ping | complete
	Cmds      []c09Cmd `json:"cmds,omitempty"`
	Malformed bool     `json:"malformed,omitempty"`
	Tok       int      `json:"tok,omitempty"`
	Res       c09Scr   `json:"res,omitempty"`
	RawRes    string   `json:"raw_res,omitempty"`
	Raw       []byte   `json:"raw,omitempty"`
}

func (l c09Label) coq() string {
	switch l.Kind {
	case "frame":
		cs := make([]string, len(l.Cmds))
		for i, c := range l.Cmds {
			cs[i] = c.coq()
		}
		return vApp("LFrame", vList(cs), vBool(l.Malformed))
	case "ping":
		return "LPing"
	}
	r := "ROk"
	switch l.Res.Kind {
	case "err":
		r = vApp("RErr", vN(uint64(l.Res.Code)))
	case "disc":
		r = vApp("RDisc", vN(uint64(l.Res.Code)))
	}
	return vApp("LComplete", vN(uint64(l.Tok)), r)
}

type c09Config struct {
	Handlers []int  `json:"handlers"`
	CSR      bool   `json:"csr"`
	Proto    string `json:"proto"`
	Direct   bool   `json:"direct"`
	Nice     bool   `json:"nice"` // generator profile: protocol-abiding client (keeps the connection open longer)
}

func c09Has(hs []int, k c09Kind) bool {
	for _, x := range hs {
		if x == int(k) {
			return true
		}
	}
	return false
}

func c09Encode(proto ProtocolType, cmds []*protocol.Command, garbage bool) []byte {
	var buf bytes.Buffer
	for i, c := range cmds {
		if proto == ProtocolTypeJSON {
			b, err := protocol.NewJSONCommandEncoder().Encode(c)
			if err != nil {
				panic(err)
			}
			if i > 0 {
				buf.WriteByte('\n')
			}
			buf.Write(b)
		} else {
			b, err := protocol.NewProtobufCommandEncoder().Encode(c)
			if err != nil {
				panic(err)
			}
			buf.Write(b)
		}
	}
	if garbage {
		if proto == ProtocolTypeJSON {
			if len(cmds) > 0 {
				buf.WriteByte('\n')
			}
			buf.WriteString(`{"id":`)
		} else {
			buf.Write([]byte{0x7f, 0x01, 0x02}) // length prefix larger than what follows
		}
	}
	return buf.Bytes()
}

// what the real stream decoder makes of the frame: the model's input
func c09Predecode(proto ProtocolType, raw []byte) (cmds []c09Cmd, malformed bool) {
	dec := protocol.GetStreamCommandDecoderLimited(proto.toProto(), bytes.NewReader(raw), 65536)
	defer protocol.PutStreamCommandDecoder(proto.toProto(), dec)
	for {
		cmd, _, err := dec.Decode()
		if cmd != nil {
			cmds = append(cmds, c09Abstract(cmd))
		}
		if err != nil {
			return cmds, err != io.EOF
		}
	}
}

func c09RunCase(t *testing.T, r *rand.Rand, fixed []func(h *c09Harness) *c09Label, cfg c09Config, steps int) (labels []c09Label, obs [][]c09Ev, quiescent bool) {
	h := &c09Harness{t: t, marker: make(chan struct{}, 1), direct: cfg.Direct, niceID: 1}
	h.proto = ProtocolTypeJSON
	if cfg.Proto == "protobuf" {
		h.proto = ProtocolTypeProtobuf
	}
	node, err := New(Config{LogLevel: LogLevelNone})
	if err != nil {
		t.Fatal(err)
	}
	mb, err := NewMemoryBroker(node, MemoryBrokerConfig{})
	if err != nil {
		t.Fatal(err)
	}
	node.SetBroker(&c09FailBroker{MemoryBroker: mb})
	node.SetPresenceManager(c09FailPresence{})
	node.OnCommandRead(func(_ *Client, e CommandReadEvent) error {
		h.curID = e.Command.Id
		return c09Err(c09Read(e.Command.Id)) // no handler event: the handler must not run after a refusal
	})
	node.OnConnecting(func(_ context.Context, _ ConnectEvent) (ConnectReply, error) {
		id := h.curID
		h.log(c09Ev{Kind: "handler", K: int(c09Connect), ID: id})
		s := c09Script(id)
		if s.Kind == "err" || s.Kind == "disc" {
			return ConnectReply{}, c09Err(s)
		}
		cred := &Credentials{UserID: "u"}
		if cfg.CSR {
			cred.ExpireAt = time.Now().Unix() + 1000000
		}
		return ConnectReply{Credentials: cred, ClientSideRefresh: cfg.CSR, ReplyWithoutQueue: cfg.Direct}, nil
	})
	far := func() int64 { return time.Now().Unix() + 1000000 }
	node.OnConnect(func(c *Client) {
		if c09Has(cfg.Handlers, c09Subscribe) {
			c.OnSubscribe(func(e SubscribeEvent, cb SubscribeCallback) {
				h.invoke(c09Subscribe, e.Channel, func(err error) {
					rep := SubscribeReply{ClientSideRefresh: cfg.CSR}
					if cfg.CSR {
						rep.Options.ExpireAt = far()
					}
					cb(rep, err)
				})
			})
		}
		if c09Has(cfg.Handlers, c09Publish) {
			c.OnPublish(func(e PublishEvent, cb PublishCallback) {
				h.invoke(c09Publish, e.Channel, func(err error) {
					rep := PublishReply{Result: &PublishResult{}}
					if h.useEngine {
						rep.Result = nil
					}
					cb(rep, err)
				})
			})
		}
		if c09Has(cfg.Handlers, c09Presence) {
			c.OnPresence(func(e PresenceEvent, cb PresenceCallback) {
				h.invoke(c09Presence, e.Channel, func(err error) {
					rep := PresenceReply{Result: &PresenceResult{}}
					if h.useEngine {
						rep.Result = nil
					}
					cb(rep, err)
				})
			})
		}
		if c09Has(cfg.Handlers, c09PresenceStats) {
			c.OnPresenceStats(func(e PresenceStatsEvent, cb PresenceStatsCallback) {
				h.invoke(c09PresenceStats, e.Channel, func(err error) {
					rep := PresenceStatsReply{Result: &PresenceStatsResult{}}
					if h.useEngine {
						rep.Result = nil
					}
					cb(rep, err)
				})
			})
		}
		if c09Has(cfg.Handlers, c09History) {
			c.OnHistory(func(e HistoryEvent, cb HistoryCallback) {
				h.invoke(c09History, e.Channel, func(err error) {
					rep := HistoryReply{Result: &HistoryResult{}}
					if h.useEngine {
						rep.Result = nil
					}
					cb(rep, err)
				})
			})
		}
		if c09Has(cfg.Handlers, c09Rpc) {
			c.OnRPC(func(e RPCEvent, cb RPCCallback) {
				h.invoke(c09Rpc, "", func(err error) { cb(RPCReply{Data: []byte(`{}`)}, err) })
			})
		}
		if c09Has(cfg.Handlers, c09Send) {
			c.OnMessage(func(e MessageEvent) {
				h.log(c09Ev{Kind: "handler", K: int(c09Send), ID: h.curID})
			})
		}
		if c09Has(cfg.Handlers, c09Refresh) {
			c.OnRefresh(func(e RefreshEvent, cb RefreshCallback) {
				h.invoke(c09Refresh, "", func(err error) { cb(RefreshReply{ExpireAt: far()}, err) })
			})
		}
		if c09Has(cfg.Handlers, c09SubRefresh) {
			c.OnSubRefresh(func(e SubRefreshEvent, cb SubRefreshCallback) {
				h.invoke(c09SubRefresh, e.Channel, func(err error) { cb(SubRefreshReply{ExpireAt: far()}, err) })
			})
		}
	})
	if err := node.Run(); err != nil {
		t.Fatal(err)
	}
	defer func() { _ = node.Shutdown(context.Background()) }()

	ctx, cancel := context.WithCancel(context.Background())
	tt := newTestTransport(cancel)
	tt.setProtocolVersion(ProtocolVersion2)
	tt.setProtocolType(h.proto)
	h.tr = &c09Transport{testTransport: tt, h: h}
	client, closeFn, err := NewClient(ctx, node, h.tr)
	if err != nil {
		t.Fatal(err)
	}
	h.client = client
	wasClosed := false

	settle := func() []c09Ev {
		closed, code := h.closedNow()
		if !closed {
			client.mu.RLock()
			auth := client.authenticated
			client.mu.RUnlock()
			if auth {
				select {
				case <-h.marker:
				default:
				}
				if err := client.Send(c09Marker); err == nil {
					select {
					case <-h.marker:
					case <-h.tr.testTransport.closeCh:
					case <-time.After(10 * time.Second):
						t.Fatalf("marker not seen")
					}
				}
			}
			closed, code = h.closedNow()
		}
		h.mu.Lock()
		evs := h.evs
		h.evs = nil
		h.mu.Unlock()
		var hs, rs []c09Ev
		for _, e := range evs {
			if e.Kind == "handler" {
				hs = append(hs, e)
			} else {
				rs = append(rs, e)
			}
		}
		if !cfg.Direct { // writes come from the writer goroutine: order against handler events is not meaningful
			evs = append(hs, rs...)
		}
		if closed && !wasClosed {
			wasClosed = true
			evs = append(evs, c09Ev{Kind: "close", Code: code})
		}
		if evs == nil {
			evs = []c09Ev{}
		}
		return evs
	}

	runFrame := func(raw []byte) {
		done := make(chan bool, 1)
		go func() {
			defer func() {
				if rec := recover(); rec != nil {
					// the library panicked while handling the frame: reported as a reply with an id no
					// command ever carried (the "never more replies than commands" rule then fails), and the
					// transport closes the connection as a real reader would
					h.log(c09Ev{Kind: "reply", ID: 4294967295, Code: 4294967295})
					h.panics++
					_ = closeFn()
					done <- false
				}
			}()
			done <- HandleReadFrame(client, bytes.NewReader(raw), 65536)
		}()
		select {
		case ok := <-done:
			if !ok {
				if c, _ := h.closedNow(); !c {
					client.mu.RLock()
					unusable := client.unusable
					client.mu.RUnlock()
					if unusable {
						// a real transport leaves the reader loop here and closes after its grace wait, by
						// which time the writer goroutine has sent what was queued: flush, then close
						select {
						case <-h.marker:
						default:
						}
						if err := client.Send(c09Marker); err == nil {
							select {
							case <-h.marker:
							case <-time.After(10 * time.Second):
								t.Fatalf("marker not seen before transport close")
							}
						}
						_ = closeFn() // the transport's own close after the reader stopped
					}
				}
				h.waitClosed()
			} else {
				// Disconnect() calls inside HandleReadFrame (empty / malformed frame) close asynchronously
				time.Sleep(0)
			}
		case <-time.After(10 * time.Second):
			t.Fatalf("HandleReadFrame blocked")
		}
	}

	for i := 0; i < steps; i++ {
		var lab *c09Label
		if i < len(fixed) {
			lab = fixed[i](h)
		} else {
			lab = c09GenLabel(r, h, cfg)
		}
		if lab == nil {
			continue
		}
		switch lab.Kind {
		case "frame":
			lab.Cmds, lab.Malformed = c09Predecode(h.proto, lab.Raw)
			if lab.Cmds == nil {
				lab.Cmds = []c09Cmd{}
			}
			emptyOrBad := lab.Malformed || len(lab.Cmds) == 0
			runFrame(lab.Raw)
			if emptyOrBad {
				// the close of an empty / malformed frame is asynchronous; if it never comes the step is
				// recorded without it and the frame rule of the oracle decides
				select {
				case <-h.tr.testTransport.closeCh:
				case <-time.After(2 * time.Second):
				}
			}
		case "ping":
			client.sendPing()
		case "complete":
			for k, p := range h.pending {
				if p.tok == lab.Tok {
					h.pending = append(h.pending[:k], h.pending[k+1:]...)
					p.done(lab.Res)
					lab.RawRes = lab.Res.Kind
					lab.Res = c09Effective(lab.Res, p.kind, p.ch)
					if lab.Res.Kind == "disc" {
						if c, _ := h.closedNow(); !c {
							h.waitClosed()
						}
					}
					break
				}
			}
		}
		labels = append(labels, *lab)
		obs = append(obs, settle())
	}
	if fixed == nil && r.Intn(5) != 0 { // usually end quiescent: complete what the application still holds
		for len(h.pending) > 0 {
			p := h.pending[r.Intn(len(h.pending))]
			res := c09Scr{Kind: "ok"}
			switch r.Intn(5) {
			case 0:
				res = c09Scr{"err", 109}
			case 1:
				res = c09Scr{"engine", 0}
			}
			lab := c09Label{Kind: "complete", Tok: p.tok, Res: c09Effective(res, p.kind, p.ch), RawRes: res.Kind}
			for k, q := range h.pending {
				if q == p {
					h.pending = append(h.pending[:k], h.pending[k+1:]...)
					break
				}
			}
			p.done(res)
			labels = append(labels, lab)
			obs = append(obs, settle())
		}
	}
	quiescent = len(h.pending) == 0
	if c, _ := h.closedNow(); !c {
		_ = closeFn()
	}
	return
}

// online generator: sees the driver-side shadow of the connection (pending callbacks, closedness)
func c09GenLabel(r *rand.Rand, h *c09Harness, cfg c09Config) *c09Label {
	closed, _ := h.closedNow()
	h.client.mu.RLock()
	auth := h.client.authenticated
	h.client.mu.RUnlock()
	x := r.Intn(100)
	if len(h.pending) > 0 && (x < 25 || closed && x < 70) {
		p := h.pending[r.Intn(len(h.pending))]
		res := c09Scr{Kind: "ok"}
		switch r.Intn(8) {
		case 0:
			res = c09Scr{"err", 100}
		case 1:
			res = c09Scr{"err", 109}
		case 2:
			if !cfg.Nice || r.Intn(4) == 0 {
				res = c09Scr{"disc", 3500}
			}
		case 3, 4:
			res = c09Scr{"engine", 0}
		}
		return &c09Label{Kind: "complete", Tok: p.tok, Res: res}
	}
	if closed && x < 80 {
		return nil
	}
	if auth && !closed && x >= 25 && x < 33 {
		h.pinged = true
		return &c09Label{Kind: "ping"}
	}
	if cfg.Nice && !closed {
		return c09GenNice(r, h, cfg, auth)
	}
	// a frame
	n := 1
	if r.Intn(4) == 0 {
		n = 2 + r.Intn(2)
	}
	if r.Intn(40) == 0 {
		n = 0
	}
	busy := map[string]bool{} // channels with a subscribe callback in flight (now or earlier in this frame)
	for _, p := range h.pending {
		if p.kind == c09Subscribe {
			busy[p.ch] = true
		}
	}
	var cmds []*protocol.Command
	for k := 0; k < n; k++ {
		var fields []int
		id := uint32(1 + r.Intn(48))
		if r.Intn(12) == 0 {
			id = uint32(1 + r.Intn(4)) // duplicate ids
		}
		ch := c09Chans[1+r.Intn(3)]
		if r.Intn(15) == 0 {
			ch = ""
		}
		tok := r.Intn(5) != 0
		y := r.Intn(100)
		switch {
		case !auth && y < 70 && k == 0:
			fields = []int{int(c09Connect)}
			if r.Intn(3) == 0 { // connect together with another request field, before authentication
				fields = append(fields, int(c09Ping)+r.Intn(11))
			}
		case y < 8:
			// pong / empty command
			id = 0
			if r.Intn(4) == 0 {
				fields = []int{int(c09Subscribe)} // still a pong: id 0 and no send
			}
		case y < 12:
			fields = []int{int(c09Connect)}
			if r.Intn(2) == 0 { // connect + X (also after authentication)
				fields = append(fields, int(c09Ping)+r.Intn(11))
			}
		case y < 16:
			fields = []int{int(c09Ping)}
			if r.Intn(2) == 0 {
				fields = append(fields, int(c09Rpc))
			}
		case y < 22:
			fields = []int{int(c09Send)}
			if r.Intn(3) != 0 {
				id = 0 // the usual way to send
			}
		case y < 26: // several request fields at once
			fields = []int{int(c09Subscribe) + r.Intn(10), int(c09Subscribe) + r.Intn(10)}
		case y < 28:
			fields = []int{} // id but no request
		default:
			fields = []int{[]int{int(c09Subscribe), int(c09Subscribe), int(c09Unsubscribe), int(c09Publish), int(c09Presence),
				int(c09PresenceStats), int(c09History), int(c09Rpc), int(c09Rpc), int(c09Refresh), int(c09SubRefresh)}[r.Intn(11)]}
		}
		if !cfg.Direct && c09Has(fields, c09Connect) && (k > 0 || n > 1) {
			// queue mode: keep connect alone in its frame (handler/reply interleaving is not observable there)
			if k > 0 {
				continue
			}
			n = 1
		}
		if c09Has(fields, c09Unsubscribe) {
			for busy[ch] {
				if len(busy) >= 3 {
					fields = []int{int(c09Rpc)}
					break
				}
				ch = c09Chans[1+r.Intn(3)]
			}
		}
		if c09Has(fields, c09Subscribe) && c09Script(id).Kind == "async" {
			busy[ch] = true
		}
		cmds = append(cmds, c09Build(id, fields, ch, tok))
	}
	garbage := r.Intn(30) == 0
	return &c09Label{Kind: "frame", Raw: c09Encode(h.proto, cmds, garbage)}
}

// protocol-abiding client: connect first, distinct increasing ids, valid channels, pongs only after a
// ping, sends without id; application scripts still include errors, async callbacks and (rarely) disconnects
func c09GenNice(r *rand.Rand, h *c09Harness, cfg c09Config, auth bool) *c09Label {
	if !auth {
		return &c09Label{Kind: "frame", Raw: c09Encode(h.proto, []*protocol.Command{c09Build(1, []int{int(c09Connect)}, "", true)}, false)}
	}
	if h.pinged && r.Intn(2) == 0 {
		h.pinged = false
		return &c09Label{Kind: "frame", Raw: c09Encode(h.proto, []*protocol.Command{c09Build(0, nil, "", false)}, false)}
	}
	n := 1
	if r.Intn(3) == 0 {
		n = 2 + r.Intn(3)
	}
	busy := map[string]bool{}
	for _, p := range h.pending {
		if p.kind == c09Subscribe {
			busy[p.ch] = true
		}
	}
	var cmds []*protocol.Command
	for k := 0; k < n; k++ {
		h.niceID++
		id := h.niceID
		for (c09Script(id).Kind == "disc" || c09Read(id).Kind == "disc") && r.Intn(8) != 0 {
			h.niceID++
			id = h.niceID
		}
		ch := c09Chans[1+r.Intn(3)]
		kinds := []int{int(c09Subscribe), int(c09Subscribe), int(c09Unsubscribe), int(c09Publish), int(c09Presence),
			int(c09PresenceStats), int(c09History), int(c09Rpc), int(c09Rpc), int(c09Send)}
		if cfg.CSR {
			kinds = append(kinds, int(c09Refresh), int(c09SubRefresh))
		}
		f := kinds[r.Intn(len(kinds))]
		if f == int(c09Send) {
			if !c09Has(cfg.Handlers, c09Send) {
				f = int(c09Rpc)
			} else if r.Intn(6) != 0 {
				id = 0
			}
		}
		if f == int(c09Unsubscribe) && busy[ch] {
			f = int(c09Rpc)
		}
		if f == int(c09Subscribe) && c09Script(id).Kind == "async" {
			busy[ch] = true
		}
		cmds = append(cmds, c09Build(id, []int{f}, ch, true))
	}
	return &c09Label{Kind: "frame", Raw: c09Encode(h.proto, cmds, false)}
}

func TestVerifC09(t *testing.T) {
	w := verifOpen(t, "C09")
	defer w.Close()
	all := []int{int(c09Subscribe), int(c09Publish), int(c09Presence), int(c09PresenceStats), int(c09History), int(c09Rpc),
		int(c09Send), int(c09Refresh), int(c09SubRefresh)}
	frame := func(cmds ...*protocol.Command) func(h *c09Harness) *c09Label {
		return func(h *c09Harness) *c09Label { return &c09Label{Kind: "frame", Raw: c09Encode(h.proto, cmds, false)} }
	}
	ping := func(h *c09Harness) *c09Label { return &c09Label{Kind: "ping"} }
	completeFirst := func(res c09Scr) func(h *c09Harness) *c09Label {
		return func(h *c09Harness) *c09Label {
			if len(h.pending) == 0 {
				return nil
			}
			return &c09Label{Kind: "complete", Tok: h.pending[0].tok, Res: res}
		}
	}
	cmd := func(id uint32, ch string, fields ...int) *protocol.Command { return c09Build(id, fields, ch, true) }
	connect := frame(cmd(1, "", int(c09Connect)))
	corpus := [][]func(h *c09Harness) *c09Label{
		{frame(cmd(2, "a", int(c09Subscribe)))},                                   // gate
		{frame(cmd(0, ""))},                                                      // pong before connect
		{connect, frame(cmd(0, ""))},                                             // pong without ping
		{connect, ping, frame(cmd(0, "")), frame(cmd(0, ""))},                    // ping, pong, second pong
		{connect, frame(cmd(2, "a", int(c09Subscribe))), frame(cmd(3, "a", int(c09Subscribe)))},
		{connect, frame(cmd(11, "a", int(c09Subscribe))), frame(cmd(12, "", int(c09Rpc))), completeFirst(c09Scr{Kind: "ok"}), completeFirst(c09Scr{Kind: "ok"})},
		{connect, frame(cmd(7, "", int(c09Send)))},                               // send carrying an id: no reply
		{connect, frame(cmd(0, "", int(c09Send)))},
		{connect, frame(cmd(4, "", int(c09Ping)))},                               // legacy ping alone: bad request
		{connect, frame(cmd(4, "", int(c09Ping), int(c09Rpc)))},                  // ping + rpc: not available
		{connect, frame(cmd(4, "", int(c09Connect)))},                            // second connect
		{frame(cmd(8, "", int(c09Connect)))},                                     // connect error: reply, reader stops
		{frame(cmd(10, "", int(c09Connect)))},                                    // connect disconnect
		{connect, frame()},                                                       // empty frame
		{connect, frame(cmd(2, "", int(c09Rpc)), cmd(10, "", int(c09Rpc)), cmd(3, "", int(c09Rpc)))},
		{connect, frame(cmd(11, "", int(c09Rpc))), frame(cmd(9, "", int(c09Rpc))), completeFirst(c09Scr{"disc", 3500})},
	}
	for x := int(c09Ping); x <= int(c09SubRefresh); x++ {
		// first frame carries connect together with another request: must be handled as connect only
		corpus = append(corpus, []func(h *c09Harness) *c09Label{frame(cmd(1, "a", int(c09Connect), x)), frame(cmd(2, "", int(c09Rpc)))})
		corpus = append(corpus, []func(h *c09Harness) *c09Label{connect, frame(cmd(2, "a", int(c09Connect), x))})
	}
	// the engine step after a successful callback fails (typed on channel a, untyped on b) or succeeds (c)
	for _, k := range []int{int(c09History), int(c09Presence), int(c09PresenceStats), int(c09Publish)} {
		corpus = append(corpus, []func(h *c09Harness) *c09Label{connect, frame(cmd(6, "a", k)), frame(cmd(7, "b", k)), frame(cmd(22, "c", k)), frame(cmd(3, "", int(c09Rpc)))})
		corpus = append(corpus, []func(h *c09Harness) *c09Label{connect, frame(cmd(11, "a", k)), frame(cmd(12, "b", k)), completeFirst(c09Scr{Kind: "engine"}), completeFirst(c09Scr{Kind: "engine"}), frame(cmd(3, "", int(c09Rpc)))})
	}
	// OnCommandRead refuses the command: ids 21 (typed error), 53 (untyped error), 5 (disconnect)
	corpus = append(corpus,
		[]func(h *c09Harness) *c09Label{frame(cmd(21, "", int(c09Connect)))}, // before the writer exists
		[]func(h *c09Harness) *c09Label{frame(cmd(53, "", int(c09Connect)))},
		[]func(h *c09Harness) *c09Label{frame(cmd(5, "", int(c09Connect)))},
		[]func(h *c09Harness) *c09Label{connect, frame(cmd(21, "", int(c09Rpc))), frame(cmd(53, "a", int(c09Subscribe))), frame(cmd(2, "a", int(c09Subscribe)))},
		[]func(h *c09Harness) *c09Label{connect, frame(cmd(21, "", int(c09Send))), frame(cmd(3, "", int(c09Rpc)))}, // a send that is answered
		[]func(h *c09Harness) *c09Label{connect, frame(cmd(2, "", int(c09Rpc)), cmd(5, "", int(c09Rpc)), cmd(3, "", int(c09Rpc)))},
		[]func(h *c09Harness) *c09Label{connect, frame(cmd(21, "", int(c09Connect)))}, // second connect refused by the hook: error, not 3501
		[]func(h *c09Harness) *c09Label{connect, frame(cmd(21, "", int(c09Ping)))},
	)
	// frames with an undecodable rest after one / two good commands, and unsubscribes of channels the
	// client never held (answered like any other)
	frameBad := func(cmds ...*protocol.Command) func(h *c09Harness) *c09Label {
		return func(h *c09Harness) *c09Label { return &c09Label{Kind: "frame", Raw: c09Encode(h.proto, cmds, true)} }
	}
	corpus = append(corpus,
		[]func(h *c09Harness) *c09Label{connect, frameBad(cmd(2, "", int(c09Rpc))), frame(cmd(3, "", int(c09Rpc)))},
		[]func(h *c09Harness) *c09Label{connect, frameBad(cmd(2, "", int(c09Rpc)), cmd(3, "a", int(c09Subscribe)))},
		[]func(h *c09Harness) *c09Label{frameBad(cmd(1, "", int(c09Connect)))},
		[]func(h *c09Harness) *c09Label{connect, frame(cmd(2, "a", int(c09Unsubscribe))), frame(cmd(3, "b", int(c09Unsubscribe)), cmd(4, "", int(c09Rpc)))},
		[]func(h *c09Harness) *c09Label{connect, frame(cmd(2, "a", int(c09Subscribe))), frame(cmd(3, "a", int(c09Unsubscribe))), frame(cmd(4, "a", int(c09Unsubscribe)))},
	)
	for i := 0; i < w.N; i++ {
		if !w.Want(i) {
			continue
		}
		r := w.Rand(i)
		cfg := c09Config{Handlers: all, CSR: r.Intn(3) != 0, Proto: "json", Direct: r.Intn(2) == 0, Nice: r.Intn(2) == 0}
		if r.Intn(2) == 0 {
			cfg.Proto = "protobuf"
		}
		if r.Intn(4) == 0 {
			cfg.Handlers = nil
			for _, k := range all {
				if r.Intn(3) != 0 {
					cfg.Handlers = append(cfg.Handlers, k)
				}
			}
			if cfg.Handlers == nil {
				cfg.Handlers = []int{}
			}
		}
		var fixed []func(h *c09Harness) *c09Label
		steps := 4 + r.Intn(14)
		if cfg.Nice {
			steps += 8
		}
		class := "random"
		if i < 2*len(corpus) {
			fixed = corpus[i/2]
			steps = len(fixed)
			cfg.Handlers = all
			cfg.Nice = false
			cfg.Proto = []string{"json", "protobuf"}[i%2]
			class = "corpus"
		}
		labels, obs, quiescent := c09RunCase(t, r, fixed, cfg, steps)
		hs := make([]string, len(cfg.Handlers))
		for k, x := range cfg.Handlers {
			hs[k] = c09KindCoq[x]
		}
		ls := make([]string, len(labels))
		for k, l := range labels {
			ls[k] = l.coq()
		}
		os := make([]string, len(obs))
		nrep, nasync, ncmd := 0, 0, 0
		closed := false
		for k, evs := range obs {
			xs := make([]string, len(evs))
			for j, e := range evs {
				xs[j] = e.coq()
				if e.Kind == "reply" {
					nrep++
				}
				if e.Kind == "close" {
					closed = true
				}
			}
			os[k] = vList(xs)
			if labels[k].Kind == "complete" {
				nasync++
			}
			ncmd += len(labels[k].Cmds)
		}
		term := vApp("mkCase", vApp("mkCfg", vList(hs), vBool(cfg.CSR)), vList(ls), vBool(quiescent), vList(os))
		class += "/" + cfg.Proto
		if cfg.Nice {
			class += "/nice"
		}
		if cfg.Direct {
			class += "/direct"
		} else {
			class += "/queue"
		}
		if closed {
			class += "/closed"
		} else {
			class += "/open"
		}
		finding := ""
		for _, l := range labels {
			for _, c := range l.Cmds {
				// Send is the selected request when none of the fields tested before it is set
				sel := c09Has(c.Fields, c09Send)
				for _, f := range c.Fields {
					if f < int(c09Send) {
						sel = false
					}
				}
				if c.ID > 0 && sel {
					finding = "send-with-id"
				}
			}
		}
		nontrivial := nrep >= 2 && ncmd >= 3
		w.Case(i, term, map[string]any{"config": cfg, "labels": labels, "observed": obs, "quiescent": quiescent,
			"finding": finding, "summary": fmt.Sprintf("%d cmds, %d replies, %d completions", ncmd, nrep, nasync)}, class, nontrivial)
	}
}
