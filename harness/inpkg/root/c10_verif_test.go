package centrifuge

// C10 driver: reuses the C01 world (c01_verif_test.go: real Node + wrapped MemoryBroker +
// recording transport + natural gates).  Scripts here add join/leave messages, publications
// without offset, non-positioned subscriptions, per-channel batching (flush fired by the
// driver) and a delivery parked between CheckPosition and Enqueue with an unsubscribe
// started meanwhile.

import (
	"fmt"
	"math/rand"
	"strings"
	"testing"
)

// do the pushes on the wire appear in the order the broker delivered them?
func c10OrderOK(frames []c01Frame, delivK []string) bool {
	j := 0
	for _, f := range frames {
		var k string
		switch f.K {
		case "pub":
			k = fmt.Sprintf("pub:%d", f.Pubs[0].ID)
		case "join", "leave":
			k = f.K
		default:
			continue
		}
		for j < len(delivK) && delivK[j] != k {
			j++
		}
		if j == len(delivK) {
			return false
		}
		j++
	}
	return true
}

func c10Key(sc *c01Script, frames []c01Frame, phaseOf map[int]int) string {
	started, ended := false, false
	for _, f := range frames {
		if f.K == "pub" && f.Pubs[0].Off == ^uint64(0) {
			return "marker-pushed-as-publication" // the channel medium's insufficient-state marker
		}
	}
	for _, f := range frames {
		switch f.K {
		case "subreply", "subpush":
			started = true
		case "unsubreply", "unsubpush", "disc":
			ended = true
		case "pub", "join", "leave":
			if ended {
				if sc.Batch {
					// the recorded finding needs a broadcast parked between its subscription
					// check and the enqueue while the unsubscribe runs (deliverx)
					for _, ph := range sc.Phase {
						for _, op := range ph {
							if op.K == "deliverx" {
								return "batch-add-after-delwriter"
							}
						}
					}
					return "batch-writer-survives-unsubscribe"
				}
				return "other-late"
			}
			if !started {
				if f.K == "pub" && f.Pubs[0].Off == 0 && !(sc.Server && phaseOf[f.Pubs[0].ID] == 5) {
					// (an offset-less publication delivered between the server-side commit and
					// the subscribe push belongs to the commit-before-push path)
					return "offset0-pub-before-start"
				}
				if sc.Server {
					return "serverside-commit-before-push"
				}
				return "other-early"
			}
		}
	}
	return "ok"
}

func c10RandOps(r *rand.Rand, n int, sc *c01Script, late bool) []c01Op {
	ops := c01RandOps(r, n, true)
	for i := range ops {
		switch {
		case ops[i].K == "pub" && r.Intn(4) == 0:
			ops[i] = c01Op{K: "pub0", F: r.Intn(6) == 0}
		case ops[i].K == "pub" && r.Intn(4) == 0:
			if r.Intn(2) == 0 {
				ops[i] = c01Op{K: "join"}
			} else {
				ops[i] = c01Op{K: "leave"}
			}
		case ops[i].K == "reset" || ops[i].K == "clear" || ops[i].K == "dup":
			ops[i] = c01Op{K: "deliver"}
		case late && ops[i].K == "deliver" && !ops[i].Lag && r.Intn(6) == 0:
			ops[i] = c01Op{K: "deliverx", I: ops[i].I, Unsub: r.Intn(3)}
		}
	}
	if sc.Batch && r.Intn(2) == 0 {
		ops = append(ops, c01Op{K: "flush"})
	}
	return ops
}

func c10RandScript(r *rand.Rand) *c01Script {
	sc := &c01Script{Server: r.Intn(2) == 0, Pos: r.Intn(2) == 0, Rec: r.Intn(4) == 0, JL: r.Intn(5) != 0, Batch: r.Intn(6) == 0}
	sc.SinceDelta = []int{0, 0, -1, -2}[r.Intn(4)]
	sc.SinceEp = 1
	sc.Phase = make([][]c01Op, 9)
	sc.Phase[0] = c10RandOps(r, r.Intn(4), sc, false)
	for k := 1; k <= 5; k++ {
		sc.Phase[k] = c10RandOps(r, r.Intn(4), sc, false)
	}
	sc.Phase[6] = c10RandOps(r, r.Intn(8), sc, true)
	if r.Intn(2) == 0 {
		sc.Unsub = 1 + r.Intn(2)
		sc.Phase[7] = c10RandOps(r, 1+r.Intn(4), sc, true)
	}
	if r.Intn(6) == 0 {
		sc.Close = true
		sc.Phase[8] = c10RandOps(r, 1+r.Intn(3), sc, false)
	}
	if sc.Batch && sc.Unsub > 0 && r.Intn(2) == 0 {
		sc.BatchReload = true
		sc.Phase[7] = append(sc.Phase[7], c01Op{K: "flush"})
	}
	// connect-time server-side subscription (drawn last: the other scripts of a seed stay what they were)
	if !sc.Server && r.Intn(3) == 0 {
		sc.Connect = true
	}
	c01AddMedium(r, sc)
	// delta-negotiated client subscriptions (drawn last)
	if !sc.Server && !sc.Connect && !sc.Batch && r.Intn(4) == 0 {
		sc.Delta, sc.NoFilter = true, true
		// (no offset-less publications here: for a delta subscriber that branch of writePublication
		// consults the channel context, which the model of the offset-less path does not have)
		for _, ph := range sc.Phase {
			for i := range ph {
				if ph[i].K == "pub0" {
					ph[i] = c01Op{K: "pub", Size: 100}
				}
			}
		}
	}
	return sc
}

func c10Corpus() []*c01Script {
	P, D := c01P, c01D
	J := c01Op{K: "join"}
	L := c01Op{K: "leave"}
	P0 := c01Op{K: "pub0"}
	return []*c01Script{
		// 0: non-positioned client subscription, joins / publications / leave inside the bracket
		{JL: true, Unsub: 1, Phase: c01Phases(map[int][]c01Op{6: c01Ops(J, D(0), P(false), D(0), P0, D(0), L, D(0)), 7: c01Ops(P(false), D(0), J, D(0))})},
		// 1: FINDING (a) offset-less publication between hub registration and reply, non-positioned
		{JL: true, Phase: c01Phases(map[int][]c01Op{2: c01Ops(P0, D(0)), 6: c01Ops(P(false), D(0))})},
		// 2: FINDING (a) same, positioned channel, gate after the history read
		{Pos: true, Phase: c01Phases(map[int][]c01Op{3: c01Ops(P0, D(0)), 6: c01Ops(P(false), D(0))})},
		// 3: joins and offset publications between hub registration and reply are held back
		{JL: true, Phase: c01Phases(map[int][]c01Op{2: c01Ops(J, D(0), P(false), D(0)), 6: c01Ops(J, D(0))})},
		// 4: FINDING (b) server-side: join between commit and subscribe push
		{Server: true, Pos: true, JL: true, Phase: c01Phases(map[int][]c01Op{5: c01Ops(J, D(0)), 6: c01Ops(P(false), D(0))})},
		// 5: FINDING (b) server-side, non-positioned: publication between commit and push
		{Server: true, JL: true, Phase: c01Phases(map[int][]c01Op{5: c01Ops(P(false), D(0)), 6: c01Ops(P(false), D(0))})},
		// 6: server-side positioned: publication between commit and push is held back
		{Server: true, Pos: true, Phase: c01Phases(map[int][]c01Op{5: c01Ops(P(false), D(0)), 6: c01Ops(P(false), D(0))})},
		// 7: FINDING (c) batching: unsubscribe while a broadcast sits between check and enqueue
		{Pos: true, Batch: true, Phase: c01Phases(map[int][]c01Op{6: c01Ops(P(false), c01Op{K: "deliverx", Unsub: 1}, c01Op{K: "flush"})})},
		// 8: same interleaving without batching: nothing after the unsubscribe reply
		{Pos: true, Phase: c01Phases(map[int][]c01Op{6: c01Ops(P(false), c01Op{K: "deliverx", Unsub: 1})})},
		// 9: batching: pushes buffered, flushed, buffered again, discarded by unsubscribe
		{JL: true, Batch: true, Unsub: 1, Phase: c01Phases(map[int][]c01Op{6: c01Ops(P(false), D(0), J, D(0), c01Op{K: "flush"}, P(false), D(0)), 7: c01Ops(c01Op{K: "flush"}, P(false), D(0))})},
		// 10: batching, close flushes the remaining batch before the disconnect
		{JL: true, Batch: true, Close: true, Phase: c01Phases(map[int][]c01Op{6: c01Ops(P(false), D(0), J, D(0))})},
		// 11: server API unsubscribe with the broadcast parked (push 2000 after the publication)
		{Pos: true, JL: true, Phase: c01Phases(map[int][]c01Op{6: c01Ops(P(false), c01Op{K: "deliverx", Unsub: 2}, J, D(0))})},
		// 15 (below): batching, a configuration reload (GetChannelBatchConfig answers "no batching") races the unsubscribe
		// 12: connect-time server-side subscription: joins and offset publications inside the connect window are held back
		{Connect: true, Pos: true, JL: true, Unsub: 2, Phase: c01Phases(map[int][]c01Op{2: c01Ops(J, D(0), P(false), D(0)), 6: c01Ops(J, D(0), P(false), D(0), L, D(0)), 7: c01Ops(P(false), D(0), J, D(0))})},
		// 13: connect-time, FINDING (a): offset-less publication between hub registration and the connect reply
		{Connect: true, JL: true, Phase: c01Phases(map[int][]c01Op{2: c01Ops(P0, D(0)), 6: c01Ops(P(false), D(0))})},
		// 14: connect-time with batching, client unsubscribe with the broadcast parked
		{Connect: true, Pos: true, Batch: true, Phase: c01Phases(map[int][]c01Op{6: c01Ops(P(false), c01Op{K: "deliverx", Unsub: 1}, c01Op{K: "flush"})})},
		// 15: the buffered publication must be discarded with the unsubscribe whatever the callback says at that moment
		{Pos: true, JL: true, Batch: true, BatchReload: true, Unsub: 1, Phase: c01Phases(map[int][]c01Op{6: c01Ops(P(false), D(0), J, D(0)), 7: c01Ops(c01Op{K: "flush"}, P(false), D(0))})},
		// 17, 20 (below): behind a channel medium, the insufficient-state marker reaches a plain / a positioned subscription
		// 16: same, server-side unsubscribe
		{JL: true, Batch: true, BatchReload: true, Unsub: 2, Phase: c01Phases(map[int][]c01Op{6: c01Ops(P(false), D(0)), 7: c01Ops(c01Op{K: "flush"})})},
		{Medium: true, NoFilter: true, JL: true, Phase: c01Phases(map[int][]c01Op{6: c01Ops(P(false), D(0), c01Op{K: "mark"}, J, D(0), P0, D(0), P(false), D(0))})},
		// 18: positioned subscription with fossil delta negotiated: the unsubscribe lands while the FIRST
		// publication sits between its position update and the enqueue (the delta flag is written there)
		{Pos: true, Delta: true, NoFilter: true, Phase: c01Phases(map[int][]c01Op{6: c01Ops(P(false), c01Op{K: "deliverx", Unsub: 1}), 7: c01Ops(P(false), D(0))})},
		// 19: same, server API unsubscribe, after a first publication already went out
		{Pos: true, Delta: true, NoFilter: true, JL: true, Phase: c01Phases(map[int][]c01Op{6: c01Ops(P(false), D(0), P(false), c01Op{K: "deliverx", Unsub: 2}, J, D(0))})},
		{Medium: true, NoFilter: true, Pos: true, JL: true, Phase: c01Phases(map[int][]c01Op{6: c01Ops(P(false), D(0), c01Op{K: "mark"}, J, D(0), P(false), D(0))})},
	}
}

func TestVerifC10(t *testing.T) {
	w := verifOpen(t, "C10")
	defer w.Close()
	corpus := c10Corpus()
	for i := 0; i < w.N; i++ {
		if !w.Want(i) {
			continue
		}
		r := w.Rand(i)
		var sc *c01Script
		if i < len(corpus) {
			sc = corpus[i]
			if sc.Phase == nil {
				sc.Phase = make([][]c01Op, 9)
			}
			sc.SinceEp = 1
		} else {
			sc = c10RandScript(r)
		}
		world := c01NewWorld(t, sc)
		func() {
			defer func() {
				if e := recover(); e != nil {
					world.fail("panic: %v", e)
				}
			}()
			world.run()
		}()
		frames := world.decode()
		world.shutdown()
		class := ""
		if len(world.errs) > 0 {
			frames = append(frames, c01Frame{K: "unknown", Code: 999})
			class = "driver-error"
			t.Logf("case %d: %v", i, world.errs)
		}
		key := c10Key(sc, frames, world.phaseOf)
		if key == "ok" && !c10OrderOK(frames, world.delivK) {
			key = "push-overtakes"
		}
		if key == "ok" && world.subEnd {
			for _, f := range frames {
				if f.K == "unsubreply" || f.K == "unsubpush" || f.K == "disc" {
					key = "channel-listed-after-end" // Client.IsSubscribed after the end went out
					break
				}
			}
		}
		pushes, started := 0, false
		for _, f := range frames {
			switch f.K {
			case "pub", "join", "leave":
				pushes++
			case "subreply", "subpush":
				started = true
			}
		}
		nontrivial := (started && pushes > 0) || key != "ok"
		if class == "" {
			class = "client"
			if sc.Server {
				class = "server"
			}
			if sc.Connect {
				class = "connect"
			}
			if sc.Pos {
				class += "/positioned"
			} else {
				class += "/plain"
			}
			if sc.Batch {
				class += "/batch"
			}
			if key != "ok" {
				class += "/VIOLATES:" + key
			}
		}
		w.Case(i, world.caseTerm(frames), map[string]any{"script": sc, "since": world.since, "since_ep": world.sinceEp,
			"sched": strings.Join(world.sched, " "), "frames": frames, "glog": world.glog, "finding": key, "errors": world.errs}, class, nontrivial)
	}
}
