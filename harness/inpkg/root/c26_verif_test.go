package centrifuge

import (
	"math/rand"
	"testing"
)

// C26 Broker subscription tracks local interest: the shared engine with broker gates armed more often,
// broker failures, other subscribers and a final drain of the dissolver queue in most cases.
func TestVerifC26(t *testing.T) {
	w := verifOpen(t, "C26")
	defer w.Close()
	c04RunAll(w, func(i int, r *rand.Rand) c04Plan {
		// MAP channel ("stream or map broker"): the connection (a map subscription, see c04Op.Map) and another
		// subscriber leave one after another; the dissolver job of the last leaver must unsubscribe the node
		// in the MAP broker.  Observation bsub = subscribed in the stream or in the map broker.
		if i == 1 || i == 2 {
			mainFirst := i == 1
			return c04Plan{Name: "map-channel/two-leavers", NCh: 1, Map: true, Drain: true, Armed: []c04Gk{c04GkSubH},
				Script: func(e *c04Eng, r *rand.Rand) {
					c04Connect(e)
					e.spawn(c04Op{Kind: "subcli", Ch: 0, Map: true})
					e.release(e.parkOf(c04GkSubH), true)
					e.otherAdd(0, true)
					if mainFirst {
						e.spawn(c04Op{Kind: "unsubsrv", Ch: 0})
						e.otherRem(0)
					} else {
						e.otherRem(0)
						e.spawn(c04Op{Kind: "unsubsrv", Ch: 0})
					}
				}}
		}
		p := c04Plans(i, r, i%5 != 4)
		if i%4 != 0 {
			// make sure the broker gates take part
			has := map[c04Gk]bool{}
			for _, k := range p.Armed {
				has[k] = true
			}
			for _, k := range []c04Gk{c04GkBrokerSub, c04GkBrokerUnsub} {
				if !has[k] && r.Intn(100) < 70 {
					p.Armed = append(p.Armed, k)
				}
			}
			p.Name = "random-gated-broker"
		}
		return p
	})
}
