package centrifuge

import (
	"math/rand"
	"testing"
)

// C26 Broker subscription tracks local interest: the shared engine with broker gates armed more often,
// broker failures, other subscribers and a final drain of the dissolver queue in most cases.
func TestVerifC26(t *testing.T) {
	w := verifOpen(t, "C26")
	defer w.Close()
	c04RunAll(w, func(i int, r *rand.Rand) c04Plan {
		p := c04Plans(i, r, i%5 != 4)
		if i%4 != 0 {
			// make sure the broker gates take part
			has := map[c04Gk]bool{}
			for _, k := range p.Armed {
				has[k] = true
			}
			for _, k := range []c04Gk{c04GkBrokerSub, c04GkBrokerUnsub} {
				if !has[k] && r.Intn(100) < 70 {
					p.Armed = append(p.Armed, k)
				}
			}
			p.Name = "random-gated-broker"
		}
		return p
	})
}
