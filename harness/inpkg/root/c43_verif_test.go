package centrifuge

import (
	"context"
	"math/rand"
	"sort"
	"strconv"
	"testing"
	"testing/synctest"
	"time"

	"github.com/centrifugal/protocol"
)

// C43 driver: a real Client issues history / presence / presence-stats commands (handle* entry points,
// protobuf reply round trip as in the repo's own tests) against a real Node over the C17 broker,
// after random C17 histories under a virtual clock.

type c43Step struct {
	Kind    string      `json:"step"` // base hist presence stats
	Op      *c17Op      `json:"op,omitempty"`
	Out     *c17Out     `json:"out,omitempty"`
	Ch      int         `json:"ch,omitempty"`
	Since   *c17Since   `json:"since,omitempty"`
	Limit   int         `json:"limit,omitempty"`
	Rev     bool        `json:"rev,omitempty"`
	Full    *c17Out     `json:"full,omitempty"`
	Reply   *c43Reply   `json:"reply,omitempty"`
	NodeP   [][4]uint64 `json:"node_presence,omitempty"`
	ReplyP  [][4]uint64 `json:"reply_presence,omitempty"`
	NodeS   [2]uint64   `json:"node_stats,omitempty"`
	ReplyS  [2]uint64   `json:"reply_stats,omitempty"`
	Comment string      `json:"comment,omitempty"`
}

type c43Reply struct {
	Err   uint64      `json:"err,omitempty"`
	Items [][2]uint64 `json:"items,omitempty"`
	Top   uint64      `json:"top,omitempty"`
	Ep    uint64      `json:"ep,omitempty"`
}

func c43CoqReply(r *c43Reply) string {
	if r.Err != 0 {
		return vApp("CErr", vN(r.Err))
	}
	return vApp("COk", c17CoqItems(r.Items), vN(r.Top), vN(r.Ep))
}

func c43CoqPres(ps [][4]uint64) string {
	xs := make([]string, len(ps))
	for i, p := range ps {
		xs[i] = vApp("mkPentry", vN(p[0]), vN(p[1]), vN(p[2]), vN(p[3]))
	}
	return vList(xs)
}

func c43CoqStep(s c43Step) string {
	switch s.Kind {
	case "base":
		return vApp("SBase", c17CoqOp(*s.Op), c17CoqOut(*s.Out))
	case "hist":
		since := "None"
		if s.Since != nil {
			since = "(Some " + vPair(vN(s.Since.Off), vN(s.Since.Ep)) + ")"
		}
		return vApp("SHist", vN(uint64(s.Ch)), since, vZ(int64(s.Limit)), vBool(s.Rev), c17CoqOut(*s.Full), c43CoqReply(s.Reply))
	case "presence":
		return vApp("SPresence", c43CoqPres(s.NodeP), c43CoqPres(s.ReplyP))
	default:
		return vApp("SStats", vPair(vN(s.NodeS[0]), vN(s.NodeS[1])), vPair(vN(s.ReplyS[0]), vN(s.ReplyS[1])))
	}
}

type c43Run struct {
	env     *c17Env
	node    *Node
	clients []*Client
	users   []int
	steps   []c43Step
	mark    int // env.Ops consumed so far
	bites   int
	subFails int
	errs    int
}

// flush turns the operations the executor recorded since the last call into base steps.
func (c *c43Run) flush() {
	for ; c.mark < len(c.env.Ops); c.mark++ {
		op, out := c.env.Ops[c.mark], c.env.Outs[c.mark]
		c.steps = append(c.steps, c43Step{Kind: "base", Op: &op, Out: &out})
	}
}

func (c *c43Run) base(op c17Op) {
	c.env.do(op)
	c.flush()
}

func (c *c43Run) clientIdx(id string) uint64 {
	for i, cl := range c.clients {
		if cl.ID() == id {
			return uint64(i + 1)
		}
	}
	return 99
}

func c43Info(b []byte) uint64 {
	if len(b) == 0 {
		return 0
	}
	v, err := strconv.ParseUint(string(b), 10, 64)
	if err != nil {
		return 9999
	}
	return v
}

func (c *c43Run) userIdx(u string) uint64 {
	if len(u) == 2 && u[0] == 'u' {
		return uint64(u[1] - '0')
	}
	return 99
}

func c43SortPres(ps [][4]uint64) [][4]uint64 {
	sort.Slice(ps, func(i, j int) bool { return ps[i][0] < ps[j][0] })
	return ps
}

func (c *c43Run) history(cl *Client, ch int, since *c17Since, limit int, rev bool, maxl int) {
	c.env.do(c17Op{Kind: "hist", Ch: ch, Limit: -1})
	full := c.env.Outs[len(c.env.Outs)-1]
	c.mark = len(c.env.Ops) // the full read is part of the hist step
	req := &protocol.HistoryRequest{Channel: c17ChName(ch), Limit: int32(limit), Reverse: rev}
	if since != nil {
		req.Since = &protocol.StreamPosition{Offset: since.Off, Epoch: c.env.epochString(since.Ep)}
	}
	rw := testReplyWriterWrapper()
	reply := &c43Reply{}
	err := cl.handleHistory(req, &protocol.Command{Id: 7}, time.Now(), rw.rw)
	switch {
	case err != nil:
		reply.Err = 9000
		if e, ok := err.(*Error); ok {
			reply.Err = uint64(e.Code)
		}
	case len(rw.replies) != 1:
		reply.Err = 9001
	case rw.replies[0].Error != nil:
		reply.Err = uint64(rw.replies[0].Error.Code)
	case rw.replies[0].History == nil:
		reply.Err = 9002
	default:
		h := rw.replies[0].History
		for _, p := range h.Publications {
			reply.Items = append(reply.Items, [2]uint64{p.Offset, c17ParseID(p.Data)})
		}
		reply.Top, reply.Ep = h.Offset, c.env.epochIndex(h.Epoch)
	}
	if reply.Err != 0 {
		c.errs++
	}
	if maxl > 0 && (limit < 0 || limit > maxl) && len(full.Items) > maxl && reply.Err == 0 {
		c.bites++
	}
	c.steps = append(c.steps, c43Step{Kind: "hist", Ch: ch, Since: since, Limit: limit, Rev: rev, Full: &full, Reply: reply})
}

func (c *c43Run) presence(cl *Client, ch int) {
	var nodeP [][4]uint64
	res, err := c.node.Presence(c17ChName(ch))
	if err == nil {
		for id, info := range res.Presence {
			ci := c.clientIdx(info.ClientID)
			if id != info.ClientID {
				ci = 98
			}
			nodeP = append(nodeP, [4]uint64{ci, c.userIdx(info.UserID), c43Info(info.ConnInfo), c43Info(info.ChanInfo)})
		}
	}
	rw := testReplyWriterWrapper()
	var replyP [][4]uint64
	err = cl.handlePresence(&protocol.PresenceRequest{Channel: c17ChName(ch)}, &protocol.Command{Id: 8}, time.Now(), rw.rw)
	if err != nil || len(rw.replies) != 1 || rw.replies[0].Error != nil || rw.replies[0].Presence == nil {
		replyP = append(replyP, [4]uint64{97, 97, 97, 97})
	} else {
		for id, info := range rw.replies[0].Presence.Presence {
			ci := c.clientIdx(info.Client)
			if id != info.Client {
				ci = 98
			}
			replyP = append(replyP, [4]uint64{ci, c.userIdx(info.User), c43Info(info.ConnInfo), c43Info(info.ChanInfo)})
		}
	}
	c.steps = append(c.steps, c43Step{Kind: "presence", NodeP: c43SortPres(nodeP), ReplyP: c43SortPres(replyP)})
}

func (c *c43Run) stats(cl *Client, ch int) {
	var nodeS, replyS [2]uint64
	if res, err := c.node.PresenceStats(c17ChName(ch)); err == nil {
		nodeS = [2]uint64{uint64(res.NumClients), uint64(res.NumUsers)}
	}
	rw := testReplyWriterWrapper()
	err := cl.handlePresenceStats(&protocol.PresenceStatsRequest{Channel: c17ChName(ch)}, &protocol.Command{Id: 9}, time.Now(), rw.rw)
	if err != nil || len(rw.replies) != 1 || rw.replies[0].Error != nil || rw.replies[0].PresenceStats == nil {
		replyS = [2]uint64{9997, 9997}
	} else {
		replyS = [2]uint64{uint64(rw.replies[0].PresenceStats.NumClients), uint64(rw.replies[0].PresenceStats.NumUsers)}
	}
	c.steps = append(c.steps, c43Step{Kind: "stats", NodeS: nodeS, ReplyS: replyS})
}

func c43Subscribe(cl *Client, ch string) bool {
	rw := testReplyWriterWrapper()
	err := cl.handleSubscribe(&protocol.SubscribeRequest{Channel: ch}, &protocol.Command{Id: 3}, time.Now(), rw.rw)
	return err == nil && len(rw.replies) == 1 && rw.replies[0].Error == nil
}

func c43Setup(n *Node) {
	n.OnConnect(func(client *Client) {
		client.OnSubscribe(func(e SubscribeEvent, cb SubscribeCallback) {
			cb(SubscribeReply{Options: SubscribeOptions{EmitPresence: true, ChannelInfo: []byte(strconv.Itoa(len(e.Channel) + int(e.Channel[len(e.Channel)-1]-'0')))}}, nil)
		})
		client.OnHistory(func(e HistoryEvent, cb HistoryCallback) { cb(HistoryReply{}, nil) })
		client.OnPresence(func(e PresenceEvent, cb PresenceCallback) { cb(PresenceReply{}, nil) })
		client.OnPresenceStats(func(e PresenceStatsEvent, cb PresenceStatsCallback) { cb(PresenceStatsReply{}, nil) })
	})
}

func c43NewClient(t testing.TB, n *Node, user int) *Client {
	ctx, cancelFn := context.WithCancel(context.Background())
	transport := newTestTransport(cancelFn)
	ctx = SetCredentials(ctx, &Credentials{UserID: "u" + strconv.Itoa(user), Info: []byte(strconv.Itoa(40 + user))})
	client, err := newClient(ctx, n, transport)
	if err != nil {
		panic(err)
	}
	connectClientV2(t, client)
	return client
}

func TestVerifC43(t *testing.T) {
	w := verifOpen(t, "C43")
	defer w.Close()
	totals := map[string]int{}
	for i := 0; i < w.N; i++ {
		if !w.Want(i) {
			continue
		}
		r := w.Rand(i)
		maxl := c17Pick(r, 0, 1, 2, 2, 3, 3, 5)
		metaIdx := r.Intn(4)
		run := &c43Run{}
		synctest.Test(t, func(t *testing.T) {
			cfg := Config{HistoryMaxPublicationLimit: maxl, HistoryMetaTTL: []time.Duration{0, 3 * time.Second, 0, 5 * time.Second}[metaIdx]}
			run.env, run.node = c17NewNodeEnv(cfg, metaIdx == 2, c43Setup)
			defer func() { c17CloseNode(run.node, run.clients...) }()
			c43RandomCase(t, r, run, maxl)
		})
		nh, np := 0, 0
		for _, s := range run.steps {
			switch s.Kind {
			case "hist":
				nh++
			case "presence", "stats":
				np++
			}
		}
		class := "max" + strconv.Itoa(maxl)
		if run.bites > 0 {
			class += "/clamped"
		}
		if run.errs > 0 {
			class += "/err"
		}
		totals["history_cmds"] += nh
		totals["presence_cmds"] += np
		totals["clamp_bites"] += run.bites
		totals["error_replies"] += run.errs
		totals["subscribe_failures"] += run.subFails
		xs := make([]string, len(run.steps))
		for k, s := range run.steps {
			xs[k] = c43CoqStep(s)
		}
		term := vApp("mkCase", vN(uint64(run.env.Now0)), vN(uint64(run.env.Meta0)), vZ(int64(maxl)), vList(xs))
		w.Case(i, term, map[string]any{"now0": run.env.Now0, "hub_meta_ms": run.env.Meta0, "max": maxl, "steps": run.steps}, class, run.bites > 0)
	}
	for k, v := range totals {
		w.Extra[k] = v
	}
}

func c43RandomCase(t testing.TB, r *rand.Rand, run *c43Run, maxl int) {
	env := run.env
	nch := 1 + r.Intn(2)
	ncl := 1 + r.Intn(3)
	for k := 0; k < ncl; k++ {
		u := 1 + r.Intn(2)
		run.clients = append(run.clients, c43NewClient(t, run.node, u))
		run.users = append(run.users, u)
	}
	subscribed := map[[2]int]bool{}
	cfg := make([]*c17Popts, nch)
	for ch := range cfg {
		cfg[ch] = c17GenPopts(r)
		cfg[ch].Size = c17Pick(r, 2, 3, 5, 8)
		if cfg[ch].TTL == 0 {
			cfg[ch].TTL = 2000
		}
	}
	var id uint64
	n := 6 + r.Intn(25)
	for k := 0; k < n; k++ {
		ch := r.Intn(nch)
		cl := r.Intn(ncl)
		switch x := r.Intn(100); {
		case x < 35:
			id++
			p := *cfg[ch]
			run.base(c17Op{Kind: "pub", Ch: ch, ID: id, P: &p})
		case x < 40:
			run.base(c17Op{Kind: "rem", Ch: ch})
		case x < 52:
			run.base(c17Op{Kind: "adv", D: c17GenAdvance(r)})
		case x < 80:
			g := env.genHistory(r, ch)
			limit := c17Pick(r, -5, -1, -1, 0, 1, maxl-1, maxl, maxl+1, maxl+1, 2147483647)
			run.history(run.clients[cl], ch, g.Since, limit, g.Rev, maxl)
		case x < 88:
			if !subscribed[[2]int{cl, ch}] {
				if c43Subscribe(run.clients[cl], c17ChName(ch)) {
					subscribed[[2]int{cl, ch}] = true
				} else {
					run.subFails++
				}
			} else {
				run.clients[cl].Unsubscribe(c17ChName(ch))
				delete(subscribed, [2]int{cl, ch})
			}
		case x < 94:
			run.presence(run.clients[cl], ch)
		default:
			run.stats(run.clients[cl], ch)
		}
	}
	for ch := 0; ch < nch; ch++ {
		run.history(run.clients[0], ch, nil, -1, false, maxl)
		run.presence(run.clients[0], ch)
		run.stats(run.clients[0], ch)
	}
}
