package centrifuge

// C11 driver: a real Node, the real WebsocketHandler / websocketTransport behind an
// httptest server (loopback), a driver-supplied DictionaryCompression engine whose
// per-connection codec records every Encode (enter / exit) and Close call and can park inside
// Encode, a wrapped MemoryBroker (c01Broker) whose Broker.Subscribe parks the connect command
// inside the window between addClient and the connect reply (a connect-time server-side
// subscription), and a wire reader on the client end of the WebSocket.  What is compared and
// judged is what actually crossed the wire, frame by frame, and the codec's call log.

import (
	"context"
	"encoding/base64"
	"fmt"
	"math/rand"
	"net/http/httptest"
	"strings"
	"sync"
	"sync/atomic"
	"testing"
	"time"

	"github.com/centrifugal/centrifuge/internal/websocket"
	"github.com/centrifugal/protocol"
)

const c11Ch = "c11ch"

type c11Codec struct {
	w *c11World
}

func (c *c11Codec) Dictionary() *protocol.Dictionary {
	return &protocol.Dictionary{Id: "c11dict", DataB64: base64.StdEncoding.EncodeToString([]byte("dictionary"))}
}
func (c *c11Codec) Encode(frame []byte) ([]byte, bool) {
	c.w.ev("EBegin")
	if atomic.CompareAndSwapInt32(&c.w.armEnc, 1, 0) {
		c.w.encReached <- struct{}{}
		<-c.w.encRelease
	}
	out := append([]byte{'Z'}, frame...)
	c.w.ev("EEnd")
	return out, false
}
func (c *c11Codec) Close() { c.w.ev("EClose") }

type c11Engine struct{ w *c11World }

func (e *c11Engine) NewDictionaryConnection(p DictionaryConnectionParams) DictionaryConnection {
	if !e.w.sc.Dict {
		return nil
	}
	return &c11Codec{w: e.w}
}

type c11Script struct {
	RWQ    bool     `json:"rwq"`
	Dict   bool     `json:"dict"`
	Pos    bool     `json:"pos,omitempty"` // the connect-time subscription is positioned
	Window []string `json:"window"`        // ops inside the connect window: send | subscribe | pub0 | pub
	// ops at the moment the connect reply is handed to the transport (OnTransportWrite of the
	// connect frame; ReplyWithoutQueue only: the command goroutine itself is parked there, after
	// all the connect-time subscribe work and before the write): send | subscribe | pub0 | pub.
	// "pub" is a publication WITH offset on the connect-time subscription: the subscription is not
	// installed yet, so it is dropped (non-positioned) or held behind the recovery buffer until
	// after the reply (positioned)
	Late  []string `json:"late,omitempty"`
	After []string `json:"after"` // ops after the connect reply: send | rpc | pub0
	Close string   `json:"close"` // "" (plain close at the end) | "during-encode" (close while a reply sits inside Encode)
}

type c11World struct {
	t          *testing.T
	sc         *c11Script
	node       *Node
	br         *c01Broker
	srv        *httptest.Server
	conn       *websocket.Conn
	mu         sync.Mutex
	wire       []string // "WRaw IConn" ...
	elog       []string
	sched      []string
	armEnc     int32
	encReached chan struct{}
	encRelease chan struct{}
	arrive     chan string
	release    chan struct{}
	errs       []string
	readerDone chan struct{}
	nsub       int
	armTW      int32
	firstEarly string        // the operation that put the first frame on the wire before the connect reply
	parked     chan struct{} // a positioned publication parked behind the recovery buffer (at most one)
}

func (w *c11World) ev(e string) {
	w.mu.Lock()
	w.elog = append(w.elog, e)
	w.mu.Unlock()
}
func (w *c11World) fail(f string, a ...any) { w.errs = append(w.errs, fmt.Sprintf(f, a...)) }
func (w *c11World) emit(l string)           { w.sched = append(w.sched, l) }
func (w *c11World) wireLen() int {
	w.mu.Lock()
	defer w.mu.Unlock()
	return len(w.wire)
}
func (w *c11World) elogHas(e string) bool {
	w.mu.Lock()
	defer w.mu.Unlock()
	for _, x := range w.elog {
		if x == e {
			return true
		}
	}
	return false
}
func (w *c11World) waitFor(what string, cond func() bool) bool {
	deadline := time.Now().Add(5 * time.Second)
	for !cond() {
		if time.Now().After(deadline) {
			w.fail("timeout waiting for %s", what)
			return false
		}
		time.Sleep(100 * time.Microsecond)
	}
	return true
}

func c11NewWorld(t *testing.T, sc *c11Script) *c11World {
	w := &c11World{t: t, sc: sc, encReached: make(chan struct{}), encRelease: make(chan struct{}),
		arrive: make(chan string), release: make(chan struct{}), readerDone: make(chan struct{})}
	n, err := New(Config{LogLevel: LogLevelNone, DictionaryCompression: &c11Engine{w: w}})
	if err != nil {
		t.Fatal(err)
	}
	mb, _ := NewMemoryBroker(n, MemoryBrokerConfig{})
	w.br = &c01Broker{MemoryBroker: mb}
	n.SetBroker(w.br)
	n.OnConnecting(func(ctx context.Context, e ConnectEvent) (ConnectReply, error) {
		return ConnectReply{
			Credentials:       &Credentials{UserID: "u11"},
			ReplyWithoutQueue: sc.RWQ,
			Subscriptions:     map[string]SubscribeOptions{c11Ch: {EnablePositioning: sc.Pos}},
		}, nil
	})
	n.OnTransportWrite(func(c *Client, e TransportWriteEvent) bool {
		if e.FrameType == protocol.FrameTypeConnect && atomic.CompareAndSwapInt32(&w.armTW, 1, 0) {
			w.arrive <- "tw"
			<-w.release
		}
		return true
	})
	n.OnConnect(func(c *Client) {
		c.OnRPC(func(e RPCEvent, cb RPCCallback) { cb(RPCReply{Data: []byte(`{}`)}, nil) })
	})
	if err := n.Run(); err != nil {
		t.Fatal(err)
	}
	w.node = n
	w.srv = httptest.NewServer(NewWebsocketHandler(n, WebsocketConfig{}))
	return w
}

func (w *c11World) reader() {
	defer close(w.readerDone)
	for {
		_, msg, err := w.conn.ReadMessage()
		if err != nil {
			return
		}
		kind := "WRaw"
		if len(msg) > 0 && msg[0] == 'Z' {
			kind = "WEnc"
			msg = msg[1:]
		}
		for _, line := range strings.Split(strings.TrimSpace(string(msg)), "\n") {
			if line == "" || line == "{}" { // ping
				continue
			}
			item := "IPush"
			if strings.Contains(line, `"connect":`) && strings.Contains(line, `"id":1`) {
				item = "IConn"
			}
			w.mu.Lock()
			w.wire = append(w.wire, "("+kind+" "+item+")")
			w.mu.Unlock()
		}
	}
}

func (w *c11World) client() *Client {
	for _, c := range w.node.hub.UserConnections("u11") {
		return c
	}
	return nil
}

// one enqueue-producing operation, followed by the frame it causes on the wire
func (w *c11World) op(name string, direct bool) { w.opw(name, direct, false) }

// window = true: inside the connect window the operation may be impossible (client not in
// the hub) or have no effect (publication refused): then nothing happened, no labels
func (w *c11World) opw(name string, direct bool, window bool) {
	before := w.wireLen()
	c := w.client()
	if c == nil {
		if !window {
			w.fail("client not in the hub for %s", name)
			return
		}
		if name != "pub0" && name != "pub" {
			return
		}
	}
	switch name {
	case "send":
		_ = c.Send([]byte(`{"m":1}`))
	case "subscribe":
		w.nsub++
		ch := fmt.Sprintf("c11other%d", w.nsub)
		go func() { _ = w.node.Subscribe("u11", ch) }()
	case "pub0":
		if _, err := w.node.Publish(c11Ch, []byte(`{"p":0}`)); err != nil {
			w.fail("publish: %v", err)
			return
		}
		for _, tk := range w.br.take() {
			_ = w.br.h.HandlePublication(c11Ch, tk.pub, tk.sp, false, nil)
		}
	case "pub":
		// a publication with an offset (history stream) on the connect-time subscription
		if _, err := w.node.Publish(c11Ch, []byte(`{"p":1}`), WithHistory(100, time.Minute)); err != nil {
			w.fail("publish: %v", err)
			return
		}
		toks := w.br.take()
		if window && w.sc.Pos && w.parked == nil {
			// may block behind the locked recovery buffer until the connect command goes on
			done := make(chan struct{})
			w.parked = done
			go func() {
				for _, tk := range toks {
					_ = w.br.h.HandlePublication(c11Ch, tk.pub, tk.sp, false, nil)
				}
				close(done)
			}()
			select {
			case <-done: // not held (buffered or dropped)
				w.parked = nil
			case <-time.After(50 * time.Millisecond):
			}
		} else {
			for _, tk := range toks {
				_ = w.br.h.HandlePublication(c11Ch, tk.pub, tk.sp, false, nil)
			}
		}
	case "rpc":
		_ = w.conn.WriteMessage(websocket.TextMessage, []byte(`{"id":2,"rpc":{"method":"m","data":{}}}`))
	}
	if window {
		deadline := time.Now().Add(40 * time.Millisecond)
		for w.wireLen() == before && time.Now().Before(deadline) {
			time.Sleep(200 * time.Microsecond)
		}
		if w.wireLen() == before {
			return
		}
		if w.firstEarly == "" {
			w.firstEarly = name
		}
	}
	if direct {
		w.emit("ADirect")
	} else {
		w.emit("APush")
	}
	if !w.waitFor("frame of "+name, func() bool { return w.wireLen() > before }) {
		return
	}
	if direct {
		w.emit("ADEnd")
	} else {
		w.emit("AWBegin")
		w.emit("AWEnd")
	}
}

func (w *c11World) run() {
	url := "ws" + strings.TrimPrefix(w.srv.URL, "http")
	conn, resp, _, err := (&websocket.Dialer{}).Dial(url, nil)
	if err != nil {
		w.fail("dial: %v", err)
		return
	}
	defer func() { _ = resp.Body.Close() }()
	w.conn = conn
	go w.reader()
	// park the connect command inside the window (Broker.Subscribe of the connect-time subscription)
	var once int32
	w.br.hook = func(name string) {
		if name == "bsub" && atomic.CompareAndSwapInt32(&once, 0, 1) {
			w.arrive <- name
			<-w.release
		}
	}
	flag := int64(0)
	if w.sc.Dict {
		flag = ConnectionFlagDictionaryCompression
	}
	data, _ := protocol.NewJSONCommandEncoder().Encode(&protocol.Command{Id: 1, Connect: &protocol.ConnectRequest{Flag: flag}})
	_ = conn.WriteMessage(websocket.TextMessage, data)
	select {
	case <-w.arrive:
	case <-time.After(5 * time.Second):
		w.fail("connect command did not reach the window")
		return
	}
	w.emit("AConnAdd")
	for _, o := range w.sc.Window {
		if o == "pub0" {
			// the hub entry of the connect-time subscription exists (Broker.Subscribe is
			// called right after hub.addSub)
		}
		w.opw(o, false, true)
	}
	late := w.sc.RWQ && len(w.sc.Late) > 0
	if late {
		atomic.StoreInt32(&w.armTW, 1)
		w.release <- struct{}{}
		select {
		case <-w.arrive:
		case <-time.After(5 * time.Second):
			w.fail("connect reply did not reach the transport write hook")
			return
		}
		for _, o := range w.sc.Late {
			w.opw(o, false, true)
		}
	}
	before := w.wireLen()
	w.release <- struct{}{}
	w.emit("AConnReply")
	if !w.waitFor("connect reply", func() bool { return w.wireLen() > before }) {
		return
	}
	if w.sc.RWQ {
		w.emit("ADEnd")
	} else {
		w.emit("AWBegin")
		w.emit("AWEnd")
	}
	if w.parked != nil {
		// the held publication goes out once the connect command installed the subscription
		n0 := before + 1 // (the frames before the release, and the connect reply)
		select {
		case <-w.parked:
		case <-time.After(5 * time.Second):
			w.fail("parked publication never released")
			return
		}
		deadline := time.Now().Add(300 * time.Millisecond)
		for w.wireLen() == n0 && time.Now().Before(deadline) {
			time.Sleep(200 * time.Microsecond)
		}
		if w.wireLen() > n0 {
			w.emit("APush")
			w.emit("AWBegin")
			w.emit("AWEnd")
		}
	}
	if !w.waitFor("client registered in the hub", func() bool { return w.client() != nil }) {
		return
	}
	c := w.client()
	w.waitFor("connect to finish", func() bool {
		c.mu.RLock()
		defer c.mu.RUnlock()
		return c.status == statusConnected
	})
	for _, o := range w.sc.After {
		w.op(o, w.sc.RWQ && o == "rpc")
	}
	if w.sc.Close == "during-encode" && w.sc.Dict {
		// a command reply is parked inside Encode while close() runs
		atomic.StoreInt32(&w.armEnc, 1)
		_ = w.conn.WriteMessage(websocket.TextMessage, []byte(`{"id":3,"rpc":{"method":"m","data":{}}}`))
		select {
		case <-w.encReached:
		case <-time.After(5 * time.Second):
			w.fail("reply did not reach Encode")
			return
		}
		if w.sc.RWQ {
			w.emit("ADirect")
		} else {
			w.emit("APush")
			w.emit("AWBegin")
		}
		closed := make(chan struct{})
		go func() { _ = c.close(DisconnectForceNoReconnect); close(closed) }()
		// does close() get as far as the codec's Close while Encode is still running?
		reachedClose := false
		deadline := time.Now().Add(300 * time.Millisecond)
		for time.Now().Before(deadline) {
			if w.elogHas("EClose") {
				reachedClose = true
				break
			}
			time.Sleep(200 * time.Microsecond)
		}
		if reachedClose {
			// close() did not wait for the write: let it finish (transport closed), then let
			// the parked Encode return
			<-closed
			w.emit("AKFlag")
			w.emit("AKWriter")
			w.emit("AKDict")
			w.emit("AKDone")
			w.encRelease <- struct{}{}
			time.Sleep(2 * time.Millisecond)
			if w.sc.RWQ {
				w.emit("ADEnd")
			} else {
				w.emit("AWEnd")
			}
		} else {
			w.emit("AKFlag")
			w.encRelease <- struct{}{}
			<-closed
			if w.sc.RWQ {
				w.emit("ADEnd")
			} else {
				w.emit("AWEnd")
			}
			w.emit("AKWriter")
			w.emit("AKDict")
			w.emit("AKDone")
		}
	} else {
		_ = c.close(DisconnectForceNoReconnect)
		w.emit("AKFlag")
		w.emit("AKWriter")
		w.emit("AKDict")
		w.emit("AKDone")
	}
	select {
	case <-w.readerDone:
	case <-time.After(5 * time.Second):
		w.fail("wire reader did not finish")
	}
}

func (w *c11World) shutdown() {
	if w.conn != nil {
		_ = w.conn.Close()
	}
	w.srv.Close()
	_ = w.node.Shutdown(context.Background())
}

func c11Key(sc *c11Script, firstEarly string, wire, elog []string) string {
	if len(wire) > 0 && !strings.Contains(wire[0], "IConn") {
		if firstEarly == "pub" {
			// a publication with offset on a connect-time subscription that is not installed yet:
			// not the window finding (Send / subscribe push / offset-less publication)
			return "held-publication-before-connect-reply"
		}
		return "push-before-connect-reply"
	}
	active, closed := 0, false
	for _, e := range elog {
		switch e {
		case "EBegin":
			if closed {
				return "encode-after-close"
			}
			active++
		case "EEnd":
			active--
		case "EClose":
			if active > 0 {
				return "close-during-encode"
			}
			if closed {
				return "close-twice"
			}
			closed = true
		}
	}
	return "ok"
}

func c11RandScript(r *rand.Rand) *c11Script {
	sc := &c11Script{RWQ: r.Intn(3) == 0, Dict: r.Intn(4) != 0}
	ops := []string{"send", "subscribe", "pub0"}
	if r.Intn(3) == 0 {
		for k := 0; k < 1+r.Intn(2); k++ {
			sc.Window = append(sc.Window, ops[r.Intn(len(ops))])
		}
	}
	after := []string{"send", "rpc", "pub0", "send"}
	for k := 0; k < r.Intn(4); k++ {
		sc.After = append(sc.After, after[r.Intn(len(after))])
	}
	if r.Intn(4) == 0 {
		sc.Close = "during-encode"
	}
	// drawn last: the scripts of a seed stay what they were otherwise
	sc.Pos = r.Intn(2) == 0
	if sc.RWQ && r.Intn(2) == 0 {
		lateOps := []string{"pub", "pub", "send", "pub0", "subscribe"}
		npub := 0
		for k := 0; k < 1+r.Intn(2); k++ {
			o := lateOps[r.Intn(len(lateOps))]
			if o == "pub" {
				if npub++; npub > 1 {
					continue
				}
			}
			sc.Late = append(sc.Late, o)
		}
	}
	if len(sc.Window) > 0 && r.Intn(3) == 0 {
		sc.Window = append(sc.Window, "pub")
	}
	if r.Intn(3) == 0 {
		sc.After = append(sc.After, "pub")
	}
	return sc
}

func TestVerifC11(t *testing.T) {
	w := verifOpen(t, "C11")
	defer w.Close()
	corpus := []*c11Script{
		{Dict: true, After: []string{"send", "rpc", "pub0"}},
		{Dict: false, After: []string{"send"}},
		{Dict: true, Window: []string{"send"}},      // FINDING candidate: push inside the window
		{Dict: true, Window: []string{"subscribe"}}, // server-side subscribe push inside the window
		{Dict: true, Window: []string{"pub0"}},      // offset-less publication on a connect-time subscription
		{Dict: true, RWQ: true, After: []string{"rpc", "send"}},
		{Dict: true, RWQ: true, After: []string{"rpc"}, Close: "during-encode"}, // FINDING candidate: Close during Encode
		{Dict: true, After: []string{"rpc"}, Close: "during-encode"},            // queue mode: close waits for the writer
		{Dict: false, Window: []string{"send"}},
		// publications with offset while the connect reply is handed to the transport: dropped (plain) ...
		{Dict: true, RWQ: true, Late: []string{"pub"}, After: []string{"pub", "send"}},
		// ... or held until the subscription is installed, after the reply (positioned)
		{Dict: true, RWQ: true, Pos: true, Late: []string{"pub"}, After: []string{"pub"}},
		{Dict: false, RWQ: true, Pos: true, Window: []string{"pub"}, Late: []string{"pub", "send"}},
		{Dict: true, RWQ: true, Late: []string{"pub0"}}, // the window finding, at the later gate
	}
	for i := 0; i < w.N; i++ {
		if !w.Want(i) {
			continue
		}
		r := w.Rand(i)
		var sc *c11Script
		if i < len(corpus) {
			sc = corpus[i]
		} else {
			sc = c11RandScript(r)
		}
		world := c11NewWorld(t, sc)
		func() {
			defer func() {
				if e := recover(); e != nil {
					world.fail("panic: %v", e)
				}
			}()
			world.run()
		}()
		world.shutdown()
		world.mu.Lock()
		wire := append([]string(nil), world.wire...)
		elog := append([]string(nil), world.elog...)
		world.mu.Unlock()
		class := "queue"
		if sc.RWQ {
			class = "direct"
		}
		if sc.Dict {
			class += "/dict"
		}
		if len(sc.Window) > 0 {
			class += "/window"
		}
		if sc.RWQ && len(sc.Late) > 0 {
			class += "/late"
		}
		if sc.Pos {
			class += "/pos"
		}
		if sc.Close != "" {
			class += "/close-during-encode"
		}
		key := c11Key(sc, world.firstEarly, wire, elog)
		if len(world.errs) > 0 {
			class = "driver-error"
			wire = append(wire, "(WEnc IConn)", "(WEnc IConn)")
			t.Logf("case %d: %v", i, world.errs)
		} else if key != "ok" {
			class += "/VIOLATES:" + key
		}
		term := vApp("mkCase", vBool(sc.RWQ), vBool(sc.Dict), vList(world.sched), vList(wire), vList(elog))
		nontrivial := sc.Dict && len(wire) >= 2
		w.Case(i, term, map[string]any{"script": sc, "sched": strings.Join(world.sched, " "), "wire": wire, "elog": elog,
			"finding": key, "errors": world.errs}, class, nontrivial)
	}
}
