package centrifuge

// C20 driver: random operation sequences (publish with every option subset, remove, clear, state
// and stream reads, virtual-time advances, whole expiry sweeps) over 2-3 channels of every mode
// through the real MemoryMapBroker with a recording handler.

import (
	"fmt"
	"math/rand"
	"strings"
	"testing"
	"testing/synctest"
)

func c20GenCfg(r *rand.Rand) c20Raw {
	var c c20Raw
	c.Mode = 1 + r.Intn(3)
	c.Ordered = r.Intn(2) == 0
	if c.Mode != 3 {
		c.KeyTTL = []int64{1, 2, 3, 5}[r.Intn(4)]
	}
	if c.Mode != 1 {
		c.Size = []int{0, 1, 2, 3, 5}[r.Intn(5)]
		if r.Intn(3) == 0 {
			c.STTL = int64(10 + r.Intn(5))
		}
		if c.Mode == 2 && r.Intn(4) == 0 {
			c.MTTL = 200
		}
	}
	if r.Intn(20) == 0 { // a malformed configuration
		switch r.Intn(12) {
		case 0:
			c.Mode = 0
		case 1:
			c.Mode = 7
		case 2:
			c.KeyTTL = -1
		case 3:
			if c.Mode == 3 {
				c.KeyTTL = 2
			} else {
				c.KeyTTL = 0
			}
		case 4:
			c.Mode, c.KeyTTL, c.Size = 1, 2, 3
		case 5:
			c.Mode, c.KeyTTL, c.Size, c.STTL = 1, 2, 0, 3
		case 6:
			c.Mode, c.KeyTTL, c.Size, c.STTL, c.MTTL = 1, 2, 0, 0, 3
		case 7:
			c.Size = -2
		case 8:
			c.STTL = -2
		case 9:
			c.MTTL = -2
		case 10:
			c.Mode, c.KeyTTL, c.MTTL, c.STTL = 3, 0, 50, 0
		case 11:
			c.Mode, c.KeyTTL, c.STTL, c.MTTL = 2, 4, 8, 3
		}
	}
	return c
}

var c20Keys = []string{"a", "b", "ab"}

func c20PickEpoch(r *rand.Rand, e *c20Env, ch int) uint64 {
	switch r.Intn(10) {
	case 0:
		return 0
	case 1:
		return 999999 // never a real epoch
	case 2:
		return uint64(1 + r.Intn(4)) // possibly stale / another channel's
	default:
		return e.curEpoch(ch)
	}
}

func c20PickExp(r *rand.Rand, e *c20Env, ch int, key string) *c20Pos {
	off, _, ok := e.curEntry(ch, key)
	if !ok {
		off = e.curTop(ch)
	}
	switch r.Intn(6) {
	case 0:
		off++
	case 1:
		if off > 0 {
			off--
		}
	case 2:
		off = uint64(r.Intn(4))
	}
	return &c20Pos{Off: off, Epoch: c20PickEpoch(r, e, ch)}
}

type c20Gen struct {
	r       *rand.Rand
	e       *c20Env
	nch     int
	data    uint64
	cursors map[int]string
	verHeavy bool
	vepHeavy bool // versions with non-empty version epochs, interleaved with unversioned publishes
}

func (g *c20Gen) pickCh() int {
	if g.r.Intn(25) == 0 {
		return g.nch // an unconfigured channel
	}
	return g.r.Intn(g.nch)
}

func (g *c20Gen) op() c20Op {
	r, e := g.r, g.e
	ch := g.pickCh()
	key := c20Keys[r.Intn(len(c20Keys))]
	if r.Intn(20) == 0 {
		key = ""
	}
	o := c20Op{Ch: ch, Tags: -1}
	x := r.Intn(100)
	switch {
	case x < 45:
		o.Kind, o.Key = "publish", key
		g.data++
		o.Data = g.data
		if r.Intn(3) == 0 {
			o.Idem = uint64(1 + r.Intn(3))
			o.IdemTTL = uint64(r.Intn(4))
		}
		if r.Intn(5) < 2 {
			o.Tags = int64(r.Intn(4))
		}
		o.Delta = r.Intn(4) == 0
		if g.vepHeavy {
			// few keys, small versions, mostly one epoch, every third publish unversioned
			o.Key = c20Keys[r.Intn(2)]
			if r.Intn(3) != 0 {
				o.Ver = uint64(1 + r.Intn(4))
				o.Vep = uint64(1 + r.Intn(5)/4) // epoch 1 mostly, sometimes 2
				if r.Intn(8) == 0 {
					o.Vep = 0
				}
			}
		} else if g.verHeavy && r.Intn(4) != 0 {
			o.Ver = uint64(1 + r.Intn(3))
			if r.Intn(4) == 0 {
				o.Vep = uint64(1 + r.Intn(2))
			}
		} else if r.Intn(5) < 2 {
			_, ver, _ := e.curEntry(ch, key)
			switch r.Intn(4) {
			case 0:
				o.Ver = ver + 1
			case 1:
				o.Ver = ver
			case 2:
				if ver > 1 {
					o.Ver = ver - 1
				} else {
					o.Ver = 1
				}
			default:
				o.Ver = uint64(1 + r.Intn(5))
			}
			if r.Intn(2) == 0 {
				o.Vep = uint64(1 + r.Intn(2))
			}
		}
		o.Score = int64(r.Intn(7) - 3)
		switch r.Intn(10) {
		case 0, 1:
			o.Mode = 1
			o.Refresh = r.Intn(2) == 0
		case 2, 3:
			o.Mode = 2
		}
		if r.Intn(10) < 3 {
			o.Exp = c20PickExp(r, e, ch, key)
		}
		if ch < len(e.cfgs) && e.cfgs[ch].Mode == 1 && r.Intn(6) != 0 {
			o.Ver, o.Vep, o.Exp = 0, 0, nil // ephemeral channels reject these: keep most publishes valid
		}
	case x < 60:
		o.Kind, o.Key = "remove", key
		if r.Intn(4) == 0 {
			o.Idem = uint64(1 + r.Intn(3))
			o.IdemTTL = uint64(r.Intn(4))
		}
		if r.Intn(4) == 0 {
			o.Tags = int64(r.Intn(4))
		}
		if r.Intn(10) < 3 {
			o.Exp = c20PickExp(r, e, ch, key)
		}
		if ch < len(e.cfgs) && e.cfgs[ch].Mode == 1 && r.Intn(6) != 0 {
			o.Exp = nil
		}
		if ks := e.keysOf(ch); len(ks) > 0 && r.Intn(2) == 0 {
			o.Key = ks[r.Intn(len(ks))] // mostly remove keys that exist
		}
	case x < 72:
		o.Kind = "rstate"
		if r.Intn(10) < 3 {
			o.Rev = &c20Pos{Off: uint64(r.Intn(3)), Epoch: c20PickEpoch(r, e, ch)}
		}
		switch r.Intn(10) {
		case 0, 1, 2:
			o.Cursor = g.cursors[ch]
		case 3:
			o.Cursor = c20Keys[r.Intn(len(c20Keys))]
		case 4:
			o.Cursor = fmt.Sprintf("%d\x00%s", r.Intn(7)-3, c20Keys[r.Intn(len(c20Keys))])
		case 5:
			o.Cursor = []string{"zz", "\x00", "-\x00a", "99999999999999999999\x00a", "+1\x00b", "1x\x00b"}[r.Intn(6)]
		}
		o.Limit = []int{-1, 0, 1, 2, 3, -4}[r.Intn(6)]
		if r.Intn(5) == 0 {
			o.Key = c20Keys[r.Intn(len(c20Keys))]
		}
		o.Asc = r.Intn(2) == 0
	case x < 82:
		o.Kind = "rstream"
		if r.Intn(10) < 6 {
			o.Rev = &c20Pos{Off: uint64(r.Intn(int(e.curTop(ch)) + 3)), Epoch: c20PickEpoch(r, e, ch)}
		}
		o.Limit = []int{-1, 0, 1, 2, 5, -3}[r.Intn(6)]
		o.Reverse = r.Intn(3) == 0
	case x < 85:
		o.Kind = "clear"
	case x < 93:
		o.Kind, o.N = "advance", int64(1+r.Intn(3))
	default:
		o.Kind = "sweep"
	}
	return o
}

type c20Case struct {
	Cfgs []c20Raw `json:"cfgs"`
	Ops  []c20Op  `json:"ops"`
	Obs  []c20Obs `json:"obs"`
}

func c20CaseTerm(ctor string, c c20Case) string {
	cf := make([]string, len(c.Cfgs))
	for i, x := range c.Cfgs {
		cf[i] = x.coq()
	}
	ops := make([]string, len(c.Ops))
	obs := make([]string, len(c.Ops))
	for i := range c.Ops {
		ops[i] = c.Ops[i].coq()
		obs[i] = c.Obs[i].coq()
	}
	return vApp(ctor, vList(cf), vList(ops), vList(obs))
}

// c20RunScript executes fixed ops (corpus) on a fresh broker.
func c20RunScript(t *testing.T, cfgs []c20Raw, ops []c20Op) c20Case {
	names := make([]string, len(cfgs)+1)
	for i := range names {
		names[i] = fmt.Sprintf("c%d", i)
	}
	e := c20NewEnv(t, cfgs, names)
	defer e.close()
	for _, o := range ops {
		if o.Kind == "xstreams" {
			e.startRetention()
			break
		}
	}
	c := c20Case{Cfgs: cfgs}
	emit := func(o c20Op, ob c20Obs) { c.Ops = append(c.Ops, o); c.Obs = append(c.Obs, ob) }
	for _, o := range ops {
		if o.Kind == "publish" {
			e.avoidTie(o.Ch, o.Key, emit)
		}
		emit(o, e.exec(o))
	}
	return c
}

func c20P(ch int, key string, data uint64) c20Op {
	return c20Op{Kind: "publish", Ch: ch, Key: key, Data: data, Tags: -1}
}

func c20Corpus() []struct {
	cfgs []c20Raw
	ops  []c20Op
} {
	rec := c20Raw{Mode: 2, KeyTTL: 2, Size: 3}
	per := c20Raw{Mode: 3, Size: 2, Ordered: true}
	eph := c20Raw{Mode: 1, KeyTTL: 1}
	with := func(o c20Op, f func(*c20Op)) c20Op { f(&o); return o }
	rs := func(ch int, lim int) c20Op { return c20Op{Kind: "rstate", Ch: ch, Limit: lim, Tags: -1} }
	rst := func(ch int, lim int) c20Op { return c20Op{Kind: "rstream", Ch: ch, Limit: lim, Tags: -1} }
	adv := func(n int64) c20Op { return c20Op{Kind: "advance", N: n, Tags: -1} }
	sweep := c20Op{Kind: "sweep", Tags: -1}
	xs, xc := c20Op{Kind: "xstreams", Tags: -1}, c20Op{Kind: "xchannels", Tags: -1}
	return []struct {
		cfgs []c20Raw
		ops  []c20Op
	}{
		{[]c20Raw{rec}, []c20Op{c20P(0, "a", 1), c20P(0, "b", 2), c20P(0, "a", 3), rs(0, -1), rst(0, -1)}},
		// check order: version loses nothing to key mode / CAS
		{[]c20Raw{per}, []c20Op{
			with(c20P(0, "a", 1), func(o *c20Op) { o.Ver = 5 }),
			with(c20P(0, "a", 2), func(o *c20Op) { o.Ver = 3; o.Mode = 1; o.Exp = &c20Pos{Off: 9, Epoch: 1} }),
			with(c20P(0, "a", 3), func(o *c20Op) { o.Mode = 1; o.Exp = &c20Pos{Off: 9, Epoch: 1} }),
			with(c20P(0, "a", 4), func(o *c20Op) { o.Exp = &c20Pos{Off: 9, Epoch: 1} }),
			with(c20P(0, "a", 5), func(o *c20Op) { o.Exp = &c20Pos{Off: 1, Epoch: 1} }),
			with(c20P(0, "z", 6), func(o *c20Op) { o.Mode = 2; o.Exp = &c20Pos{Off: 1, Epoch: 1} }),
			rs(0, -1), rst(0, -1)}},
		// version preserved by unversioned publish, reset by remove
		{[]c20Raw{per}, []c20Op{
			with(c20P(0, "a", 1), func(o *c20Op) { o.Ver = 5 }), c20P(0, "a", 2),
			with(c20P(0, "a", 3), func(o *c20Op) { o.Ver = 4 }),
			{Kind: "remove", Ch: 0, Key: "a", Tags: -1},
			with(c20P(0, "a", 4), func(o *c20Op) { o.Ver = 4 }), rs(0, -1), rst(0, -1)}},
		// idempotency: hit, expiry of the cached result, clear drops it
		{[]c20Raw{rec}, []c20Op{
			with(c20P(0, "a", 1), func(o *c20Op) { o.Idem = 1; o.IdemTTL = 2 }),
			with(c20P(0, "b", 2), func(o *c20Op) { o.Idem = 1 }), adv(2),
			with(c20P(0, "b", 3), func(o *c20Op) { o.Idem = 1 }),
			with(c20P(0, "b", 4), func(o *c20Op) { o.Idem = 1 }),
			{Kind: "clear", Ch: 0, Tags: -1},
			with(c20P(0, "b", 5), func(o *c20Op) { o.Idem = 1 }), rs(0, -1)}},
		// TTL: expiry, keep-alive by suppressed if_new publish, CAS after expiry
		{[]c20Raw{rec}, []c20Op{
			c20P(0, "a", 1), adv(1), c20P(0, "b", 2), adv(1),
			with(c20P(0, "b", 3), func(o *c20Op) { o.Mode = 1; o.Refresh = true }), sweep, rs(0, -1), rst(0, -1),
			with(c20P(0, "a", 4), func(o *c20Op) { o.Exp = &c20Pos{Off: 1, Epoch: 1} }), adv(2), sweep, rs(0, -1), rst(0, -1)}},
		// ephemeral: no stream, offsets 0, CAS / version rejected
		{[]c20Raw{eph}, []c20Op{
			c20P(0, "a", 1), with(c20P(0, "a", 2), func(o *c20Op) { o.Ver = 1 }),
			with(c20P(0, "a", 3), func(o *c20Op) { o.Exp = &c20Pos{} }), rs(0, -1), rst(0, -1), adv(1), sweep, rs(0, -1)}},
		// stream window and reads
		{[]c20Raw{per}, []c20Op{
			c20P(0, "a", 1), c20P(0, "b", 2), c20P(0, "ab", 3), c20P(0, "", 4),
			{Kind: "rstream", Ch: 0, Limit: -1, Rev: &c20Pos{Off: 1, Epoch: 1}, Tags: -1},
			{Kind: "rstream", Ch: 0, Limit: -1, Rev: &c20Pos{Off: 4, Epoch: 1}, Reverse: true, Tags: -1},
			{Kind: "rstream", Ch: 0, Limit: 1, Rev: &c20Pos{Off: 9, Epoch: 1}, Reverse: true, Tags: -1},
			{Kind: "rstream", Ch: 0, Limit: -1, Rev: &c20Pos{Off: 0, Epoch: 2}, Tags: -1},
			rs(0, 2), {Kind: "rstate", Ch: 0, Limit: 2, Cursor: "0\x00b", Tags: -1}}},
		// version epoch survives an unversioned publish (and a keep-alive), changes with a new epoch
		{[]c20Raw{per}, []c20Op{
			with(c20P(0, "a", 1), func(o *c20Op) { o.Ver = 10; o.Vep = 1 }), c20P(0, "a", 2),
			with(c20P(0, "a", 3), func(o *c20Op) { o.Ver = 7; o.Vep = 1 }),
			with(c20P(0, "a", 4), func(o *c20Op) { o.Ver = 7; o.Vep = 2 }), c20P(0, "a", 5),
			with(c20P(0, "a", 6), func(o *c20Op) { o.Ver = 7; o.Vep = 2 }),
			with(c20P(0, "a", 7), func(o *c20Op) { o.Ver = 7; o.Vep = 1 }),
			with(c20P(0, "a", 8), func(o *c20Op) { o.Ver = 3 }), rs(0, -1), rst(0, -1)}},
		// an ordered channel first touched by a read is still sorted by score afterwards
		{[]c20Raw{per, {Mode: 2, KeyTTL: 3, Ordered: true}}, []c20Op{
			rs(0, -1), rst(1, -1),
			with(c20P(0, "a", 1), func(o *c20Op) { o.Score = 1 }), with(c20P(0, "b", 2), func(o *c20Op) { o.Score = 3 }),
			with(c20P(0, "ab", 3), func(o *c20Op) { o.Score = 2 }),
			with(c20P(1, "a", 4), func(o *c20Op) { o.Score = -1 }), with(c20P(1, "b", 5), func(o *c20Op) { o.Score = 3 }),
			with(c20P(1, "ab", 6), func(o *c20Op) { o.Score = 2 }),
			rs(0, -1), rs(1, -1), with(rs(0, 2), func(o *c20Op) { o.Asc = true }), with(rs(1, 2), func(o *c20Op) { o.Asc = true })}},
		// StreamTTL: entries vanish, offsets and epoch stay; a key-expiry removal appended afterwards is readable
		{[]c20Raw{{Mode: 2, KeyTTL: 3, Size: 3, STTL: 1, MTTL: 9}}, []c20Op{
			c20P(0, "a", 1), c20P(0, "b", 2), adv(1), xs, xc, rst(0, -1), rs(0, -1),
			c20P(0, "ab", 3), rst(0, -1), adv(2), sweep, rst(0, -1), adv(1), xs, xc, rst(0, -1), rs(0, -1)}},
		// MetaTTL: the channel is forgotten (fresh epoch), idempotency results are not; reads keep it alive
		{[]c20Raw{{Mode: 2, KeyTTL: 2, Size: 3, STTL: 1, MTTL: 2}}, []c20Op{
			with(c20P(0, "a", 1), func(o *c20Op) { o.Idem = 1; o.IdemTTL = 9 }), adv(1), rs(0, -1), adv(1), xs, xc, rs(0, -1),
			adv(2), xs, xc, rs(0, -1), rst(0, -1),
			with(c20P(0, "a", 2), func(o *c20Op) { o.Idem = 1 }), c20P(0, "a", 3), adv(1), xs, xc, adv(1), sweep, rs(0, -1), rst(0, -1)}},
		// reads create channels; remove on a missing channel
		{[]c20Raw{rec, per}, []c20Op{
			{Kind: "remove", Ch: 1, Key: "a", Tags: -1},
			{Kind: "remove", Ch: 1, Key: "a", Exp: &c20Pos{Off: 0, Epoch: 0}, Tags: -1},
			rst(1, 0), rs(0, 0), {Kind: "rstate", Ch: 2, Limit: -1, Tags: -1}, rst(2, -1),
			{Kind: "rstate", Ch: 0, Limit: -1, Rev: &c20Pos{Off: 0, Epoch: 0}, Tags: -1},
			c20P(1, "a", 1), c20P(0, "a", 2)}},
	}
}

func TestVerifC20(t *testing.T) {
	w := verifOpen(t, "C20")
	defer w.Close()
	corpus := c20Corpus()
	c20EnsureNode(t) // outside any bubble
	for i := 0; i < w.N; i++ {
		if !w.Want(i) {
			continue
		}
		r := w.Rand(i)
		var c c20Case
		class := "corpus"
		// every case runs in its own synctest bubble: the fake clock stands still except when the
		// driver lets the broker's retention sweepers tick
		synctest.Test(t, func(t *testing.T) {
		if i < len(corpus) {
			c = c20RunScript(t, corpus[i].cfgs, corpus[i].ops)
		} else {
			nch := 2 + r.Intn(2)
			cfgs := make([]c20Raw, nch)
			names := make([]string, nch+1)
			retention := r.Intn(3) == 0
			for k := range cfgs {
				cfgs[k] = c20GenCfg(r)
				if retention && cfgs[k].Mode >= 2 && cfgs[k].Mode <= 3 && r.Intn(4) != 0 {
					// short stream / metadata lifetimes so that they actually elapse
					cfgs[k].STTL = int64(r.Intn(4))
					cfgs[k].MTTL = 0
					if cfgs[k].Mode == 2 && cfgs[k].KeyTTL > 0 && r.Intn(2) == 0 {
						st := cfgs[k].STTL
						if st == 0 {
							st = 1
						}
						m := cfgs[k].KeyTTL
						if st > m {
							m = st
						}
						cfgs[k].MTTL = m + int64(r.Intn(3))
					}
				}
			}
			for k := range names {
				names[k] = fmt.Sprintf("c%d", k)
			}
			e := c20NewEnv(t, cfgs, names)
			defer e.close()
			if retention {
				e.startRetention()
			}
			g := &c20Gen{r: r, e: e, nch: nch, cursors: map[int]string{}, verHeavy: r.Intn(4) == 0, vepHeavy: r.Intn(5) == 0}
			c = c20Case{Cfgs: cfgs}
			emit := func(o c20Op, ob c20Obs) { c.Ops = append(c.Ops, o); c.Obs = append(c.Obs, ob) }
			if r.Intn(3) == 0 { // channels first touched by a read (which creates the channel object) before any publish
				for ch := 0; ch < nch; ch++ {
					if r.Intn(3) != 0 {
						o := c20Op{Kind: []string{"rstate", "rstream"}[r.Intn(2)], Ch: ch, Limit: -1, Tags: -1}
						emit(o, e.exec(o))
					}
				}
			}
			n := 4 + r.Intn(22)
			for k := 0; k < n; k++ {
				o := g.op()
				if retention && r.Intn(5) == 0 {
					// time passes, then the StreamTTL and MetaTTL sweepers tick
					if r.Intn(3) != 0 {
						a := c20Op{Kind: "advance", N: int64(1 + r.Intn(6)), Tags: -1}
						emit(a, e.exec(a))
					}
					x := c20Op{Kind: "xstreams", Tags: -1}
					emit(x, e.exec(x))
					y := c20Op{Kind: "xchannels", Tags: -1}
					emit(y, e.exec(y))
					c20Count(w, "retention_ticks", 1)
				}
				if o.Kind == "publish" {
					e.avoidTie(o.Ch, o.Key, emit)
				}
				ob := e.exec(o)
				if o.Kind == "rstate" && ob.cursor != "" {
					g.cursors[o.Ch] = ob.cursor
				}
				emit(o, ob)
			}
			class = fmt.Sprintf("modes%d%d", cfgs[0].Mode, cfgs[1].Mode)
			if retention {
				class += "/ret"
			}
		}
		})
		var supp, unsupStream, reads bool
		for k, o := range c.Ops {
			ob := c.Obs[k]
			if o.Kind == "sweep" {
				c20Count(w, "sweep_removals", len(ob.Bcasts))
				if len(ob.Bcasts) > 1 {
					c20Count(w, "sweeps_removing_several_keys", 1)
				}
			}
			for _, rs := range []string{"RIdem", "RVersion", "RKeyExists", "RKeyNotFound", "RMismatch", "UErr", "StUnrec", "SUnrec"} {
				if strings.Contains(ob.Res, rs) {
					c20Count(w, "result_"+rs, 1)
				}
			}
			switch o.Kind {
			case "publish", "remove":
				if ob.suppressed {
					supp = true
				} else if !ob.isErr && o.Ch < len(c.Cfgs) && c.Cfgs[o.Ch].hasStream() {
					unsupStream = true
				}
			case "rstate", "rstream":
				reads = true
			}
		}
		w.Case(i, c20CaseTerm("mkCase", c), c, class, supp && unsupStream && reads)
	}
}
