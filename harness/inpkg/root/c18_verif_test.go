package centrifuge

// C18 driver: the REAL RedisBroker (broker_redis.go, rueidis, the real PUB/SUB reader)
// runs against an in-process RESP3 fake Redis server on loopback TCP.  The fake server has
// NO Redis logic: every data command and every EVAL/EVALSHA is forwarded to a live
// `coqtop -Q /verif/coq Cfg` in which Model/RedisServer.v interprets the ASTs generated from
// the real .lua files over the Coq Redis model; the RESP3 reply bytes computed in Coq are
// copied to the socket and PUBLISH outbox entries are pushed to the subscribed connection.
// The same operation sequences are run against the REAL MemoryBroker.  Each case records
// both observable streams (epochs canonicalised to nonce tokens) and the commands the real
// broker put on the wire.

import (
	"bufio"
	"bytes"
	"context"
	"crypto/sha1"
	"encoding/hex"
	"fmt"
	"io"
	"math/rand"
	"net"
	"os"
	"os/exec"
	"path/filepath"
	"regexp"
	"sort"
	"strconv"
	"strings"
	"sync"
	"testing"
	"time"

	"github.com/centrifugal/protocol"
)

// ---------------------------------------------------------------- coqtop bridge

type c18Coq struct {
	cmd    *exec.Cmd
	in     io.WriteCloser
	out    *bufio.Reader
	n      int
	cur    string
	stepFn string // Coq function : rstate -> list (list N) -> rstate * list N
}

var c18NumRe = regexp.MustCompile(`\d+`)

func c18VerifRoot() string {
	if v := os.Getenv("VERIF_ROOT"); v != "" {
		return v
	}
	return "/verif"
}

func c18StartCoq() (*c18Coq, error) { return c18StartCoqWith("Model.Redis Model.RedisServer", "srv_step") }

// c18StartCoqWith starts a coqtop that answers wire commands with the given server step function.
func c18StartCoqWith(requires, stepFn string) (*c18Coq, error) {
	cmd := exec.Command("coqtop", "-q", "-Q", filepath.Join(c18VerifRoot(), "coq"), "Cfg")
	in, err := cmd.StdinPipe()
	if err != nil {
		return nil, err
	}
	out, err := cmd.StdoutPipe()
	if err != nil {
		return nil, err
	}
	cmd.Stderr = io.Discard
	if err := cmd.Start(); err != nil {
		return nil, err
	}
	c := &c18Coq{cmd: cmd, in: in, out: bufio.NewReaderSize(out, 1<<20), cur: "rinit", stepFn: stepFn}
	_, err = c.send("From Coq Require Import List NArith ZArith String.\nFrom Cfg Require Import " + requires + ".\n" +
		"Import ListNotations.\nOpen Scope N_scope.\nSet Printing Depth 100000000.\nSet Printing Width 100000000.\n")
	if err != nil {
		return nil, err
	}
	return c, nil
}

// send writes vernacular and returns everything coqtop printed up to the end marker.
func (c *c18Coq) send(v string) (string, error) {
	if _, err := io.WriteString(c.in, v+"\nCheck tt.\n"); err != nil {
		return "", err
	}
	var sb strings.Builder
	sawTT := false
	for {
		line, err := c.out.ReadString('\n')
		if err != nil {
			return sb.String(), fmt.Errorf("coqtop died: %v (so far: %s)", err, sb.String())
		}
		t := strings.TrimSpace(line)
		if t == "tt" {
			sawTT = true
			continue
		}
		if sawTT && t == ": unit" {
			return sb.String(), nil
		}
		sawTT = false
		sb.WriteString(line)
	}
}

func (c *c18Coq) reset() { c.cur = "rinit" }

func c18CoqBytes(b []byte) string {
	var sb strings.Builder
	sb.WriteByte('[')
	for i, x := range b {
		if i > 0 {
			sb.WriteByte(';')
		}
		sb.WriteString(strconv.Itoa(int(x)))
	}
	sb.WriteByte(']')
	return sb.String()
}

// step runs one wire command in the Coq server model: RESP3 reply bytes + PUBLISHed messages.
func (c *c18Coq) step(cmd [][]byte) ([]byte, [][2][]byte, error) {
	c.n++
	if os.Getenv("VERIF_DEBUG_WIRE") != "" {
		fmt.Fprintf(os.Stderr, "wire %d: %q\n", c.n, cmd)
	}
	parts := make([]string, len(cmd))
	for i, a := range cmd {
		parts[i] = c18CoqBytes(a)
	}
	r, s := fmt.Sprintf("c18r%d", c.n), fmt.Sprintf("c18s%d", c.n)
	out, err := c.send(fmt.Sprintf("Definition %s := Eval vm_compute in %s %s [%s].\nDefinition %s := Eval vm_compute in fst %s.\nEval vm_compute in snd %s.",
		r, c.stepFn, c.cur, strings.Join(parts, ";"), s, r, r))
	if err != nil {
		return nil, nil, err
	}
	i := strings.Index(out, "= [")
	if i < 0 {
		return nil, nil, fmt.Errorf("coqtop: unexpected output: %q", out)
	}
	c.cur = s
	body := out[i:]
	if j := strings.LastIndex(body, ": list N"); j >= 0 {
		body = body[:j]
	}
	var nums []int
	for _, m := range c18NumRe.FindAllString(strings.ReplaceAll(body, "%N", ""), -1) {
		v, _ := strconv.Atoi(m)
		nums = append(nums, v)
	}
	p := 0
	frame := func() ([]byte, error) {
		if p >= len(nums) || p+1+nums[p] > len(nums) {
			return nil, fmt.Errorf("coqtop: bad framing in %q", out)
		}
		n := nums[p]
		b := make([]byte, n)
		for k := 0; k < n; k++ {
			b[k] = byte(nums[p+1+k])
		}
		p += 1 + n
		return b, nil
	}
	resp, err := frame()
	if err != nil {
		return nil, nil, err
	}
	if p >= len(nums) {
		return nil, nil, fmt.Errorf("coqtop: bad framing (outbox) in %q", out)
	}
	cnt := nums[p]
	p++
	var ob [][2][]byte
	for k := 0; k < cnt; k++ {
		ch, err := frame()
		if err != nil {
			return nil, nil, err
		}
		msg, err := frame()
		if err != nil {
			return nil, nil, err
		}
		ob = append(ob, [2][]byte{ch, msg})
	}
	return resp, ob, nil
}

func (c *c18Coq) close() {
	_ = c.in.Close()
	_ = c.cmd.Process.Kill()
	_, _ = c.cmd.Process.Wait()
}

// ---------------------------------------------------------------- fake RESP3 server

type c18Conn struct {
	c  net.Conn
	mu sync.Mutex
}

func (cc *c18Conn) write(b []byte) {
	cc.mu.Lock()
	_, _ = cc.c.Write(b)
	cc.mu.Unlock()
}

type c18Server struct {
	ln      net.Listener
	mu      sync.Mutex // serialises command execution (one modelled Redis)
	coq     *c18Coq
	subs    map[string]map[*c18Conn]struct{}
	scripts map[string]string // sha1 hex -> script name
	log     [][]string        // commands forwarded to the model since the last resetLog
	nonce   string            // nonce argument seen in the last script call
	fail    error
}

func c18Sha(src string) string { h := sha1.Sum([]byte(src)); return hex.EncodeToString(h[:]) }

func c18StartServer(coq *c18Coq) (*c18Server, error) {
	return c18StartServerWith(coq, map[string]string{
		c18Sha(addHistoryStreamSource):  "broker_history_add_stream",
		c18Sha(addHistoryListSource):    "broker_history_add_list",
		c18Sha(historyStreamSource):     "broker_history_stream",
		c18Sha(historyListSource):       "broker_history_list",
		c18Sha(publishIdempotentSource): "broker_publish_idempotent",
	})
}

// c18StartServerWith starts the fake RESP3 server knowing the given scripts (sha1 hex -> name).
func c18StartServerWith(coq *c18Coq, scripts map[string]string) (*c18Server, error) {
	ln, err := net.Listen("tcp", "127.0.0.1:0")
	if err != nil {
		return nil, err
	}
	s := &c18Server{ln: ln, coq: coq, subs: map[string]map[*c18Conn]struct{}{}, scripts: scripts}
	go func() {
		for {
			c, err := ln.Accept()
			if err != nil {
				return
			}
			go s.serve(&c18Conn{c: c})
		}
	}()
	return s, nil
}

func c18ReadCommand(r *bufio.Reader) ([][]byte, error) {
	line, err := r.ReadString('\n')
	if err != nil {
		return nil, err
	}
	line = strings.TrimRight(line, "\r\n")
	if len(line) == 0 || line[0] != '*' {
		return nil, fmt.Errorf("unexpected RESP input %q", line)
	}
	n, err := strconv.Atoi(line[1:])
	if err != nil {
		return nil, err
	}
	out := make([][]byte, 0, n)
	for i := 0; i < n; i++ {
		h, err := r.ReadString('\n')
		if err != nil {
			return nil, err
		}
		h = strings.TrimRight(h, "\r\n")
		if len(h) == 0 || h[0] != '$' {
			return nil, fmt.Errorf("unexpected RESP bulk header %q", h)
		}
		l, err := strconv.Atoi(h[1:])
		if err != nil {
			return nil, err
		}
		b := make([]byte, l+2)
		if _, err := io.ReadFull(r, b); err != nil {
			return nil, err
		}
		out = append(out, b[:l])
	}
	return out, nil
}

func c18Bulk(s string) string { return fmt.Sprintf("$%d\r\n%s\r\n", len(s), s) }

func c18PushMessage(ch, msg []byte) []byte {
	var b bytes.Buffer
	b.WriteString(">3\r\n$7\r\nmessage\r\n")
	fmt.Fprintf(&b, "$%d\r\n", len(ch))
	b.Write(ch)
	fmt.Fprintf(&b, "\r\n$%d\r\n", len(msg))
	b.Write(msg)
	b.WriteString("\r\n")
	return b.Bytes()
}

func (s *c18Server) publishLocked(ch, msg []byte) {
	for cc := range s.subs[string(ch)] {
		cc.write(c18PushMessage(ch, msg))
	}
}

// inject pushes a message to subscribers without going through the model (sentinels).
func (s *c18Server) inject(ch string, msg []byte) {
	s.mu.Lock()
	s.publishLocked([]byte(ch), msg)
	s.mu.Unlock()
}

var c18NonceIdx = map[string]int{"broker_history_add_stream": 5, "broker_history_add_list": 5,
	"broker_history_stream": 5, "broker_history_list": 3}

func (s *c18Server) serve(cc *c18Conn) {
	defer cc.c.Close()
	r := bufio.NewReader(cc.c)
	defer func() {
		s.mu.Lock()
		for _, m := range s.subs {
			delete(m, cc)
		}
		s.mu.Unlock()
	}()
	for {
		cmd, err := c18ReadCommand(r)
		if err != nil {
			return
		}
		if len(cmd) == 0 {
			continue
		}
		name := strings.ToUpper(string(cmd[0]))
		switch name {
		case "HELLO":
			cc.write([]byte("%7\r\n" + c18Bulk("server") + c18Bulk("redis") + c18Bulk("version") + c18Bulk("7.2.4") +
				c18Bulk("proto") + ":3\r\n" + c18Bulk("id") + ":1\r\n" + c18Bulk("mode") + c18Bulk("standalone") +
				c18Bulk("role") + c18Bulk("master") + c18Bulk("modules") + "*0\r\n"))
		case "CLIENT", "SELECT", "READONLY":
			cc.write([]byte("+OK\r\n"))
		case "PING":
			cc.write([]byte("+PONG\r\n"))
		case "QUIT":
			cc.write([]byte("+OK\r\n"))
			return
		case "CLUSTER":
			cc.write([]byte("-ERR This instance has cluster support disabled\r\n"))
		case "SUBSCRIBE", "SSUBSCRIBE":
			s.mu.Lock()
			for _, ch := range cmd[1:] {
				m := s.subs[string(ch)]
				if m == nil {
					m = map[*c18Conn]struct{}{}
					s.subs[string(ch)] = m
				}
				m[cc] = struct{}{}
				n := 0
				for _, mm := range s.subs {
					if _, ok := mm[cc]; ok {
						n++
					}
				}
				cc.write([]byte(">3\r\n" + c18Bulk(strings.ToLower(name)) + c18Bulk(string(ch)) + fmt.Sprintf(":%d\r\n", n)))
			}
			s.mu.Unlock()
		case "UNSUBSCRIBE", "SUNSUBSCRIBE":
			s.mu.Lock()
			for _, ch := range cmd[1:] {
				delete(s.subs[string(ch)], cc)
				n := 0
				for _, mm := range s.subs {
					if _, ok := mm[cc]; ok {
						n++
					}
				}
				cc.write([]byte(">3\r\n" + c18Bulk(strings.ToLower(name)) + c18Bulk(string(ch)) + fmt.Sprintf(":%d\r\n", n)))
			}
			s.mu.Unlock()
		default:
			s.mu.Lock()
			fwd := cmd
			logged := make([]string, 0, len(cmd))
			if name == "EVALSHA" || name == "EVAL" {
				if len(cmd) < 3 {
					cc.write([]byte("-ERR wrong number of arguments\r\n"))
					s.mu.Unlock()
					continue
				}
				sha := strings.ToLower(string(cmd[1]))
				if name == "EVAL" {
					sha = c18Sha(string(cmd[1]))
				}
				sn, ok := s.scripts[sha]
				if !ok {
					cc.write([]byte("-NOSCRIPT No matching script. Please use EVAL.\r\n"))
					s.mu.Unlock()
					continue
				}
				fwd = append([][]byte{[]byte("EVAL:" + sn)}, cmd[2:]...)
				nk, _ := strconv.Atoi(string(cmd[2]))
				if idx, ok := c18NonceIdx[sn]; ok && 3+nk+idx < len(cmd) {
					s.nonce = string(cmd[3+nk+idx])
				}
				logged = append(logged, "EVAL:"+sn)
			} else {
				logged = append(logged, strings.ToLower(string(cmd[0])))
			}
			for _, a := range fwd[1:] {
				logged = append(logged, string(a))
			}
			s.log = append(s.log, logged)
			resp, ob, err := s.coq.step(fwd)
			if err != nil {
				s.fail = err
				cc.write([]byte("-ERR model failure\r\n"))
				s.mu.Unlock()
				continue
			}
			for _, m := range ob {
				s.publishLocked(m[0], m[1])
			}
			cc.write(resp)
			s.mu.Unlock()
		}
	}
}

func (s *c18Server) resetLog() ([][]string, string) {
	s.mu.Lock()
	l, n := s.log, s.nonce
	s.log, s.nonce = nil, ""
	s.mu.Unlock()
	return l, n
}

// ---------------------------------------------------------------- broker event handler

type c18Delivery struct {
	Ch    string `json:"ch"`
	Data  string `json:"data"`
	Off   uint64 `json:"off"`
	Epoch string `json:"epoch"`
	Delta bool   `json:"delta"`
	Prev  *string `json:"prev"`
	POff  uint64 `json:"pub_off"`
}

const c18SentinelCh = "c18sentinel"

func c18Sentinel(lists bool) string {
	if lists {
		return c18SentinelCh + "L"
	}
	return c18SentinelCh + "S"
}

type c18Handler struct {
	mu   sync.Mutex
	buf  []c18Delivery
	sent chan struct{}
}

func (h *c18Handler) HandlePublication(ch string, pub *Publication, sp StreamPosition, useDelta bool, prevPub *Publication) error {
	if strings.HasPrefix(ch, c18SentinelCh) {
		h.sent <- struct{}{}
		return nil
	}
	d := c18Delivery{Ch: ch, Data: string(pub.Data), Off: sp.Offset, Epoch: sp.Epoch, Delta: useDelta, POff: pub.Offset}
	if prevPub != nil {
		p := string(prevPub.Data)
		d.Prev = &p
	}
	h.mu.Lock()
	h.buf = append(h.buf, d)
	h.mu.Unlock()
	return nil
}
func (h *c18Handler) HandleJoin(string, *ClientInfo) error  { return nil }
func (h *c18Handler) HandleLeave(string, *ClientInfo) error { return nil }
func (h *c18Handler) take() []c18Delivery {
	h.mu.Lock()
	b := h.buf
	h.buf = nil
	h.mu.Unlock()
	return b
}

// ---------------------------------------------------------------- abstract operations

type c18Op struct {
	Kind    string `json:"kind"` // pub | hist | rem
	Ch      string `json:"ch"`
	Data    string `json:"data,omitempty"`
	Size    int    `json:"size,omitempty"`
	TTL     int    `json:"ttl,omitempty"`      // seconds
	MetaTTL int    `json:"meta_ttl,omitempty"` // seconds, 0 = node default
	Idem    string `json:"idem,omitempty"`
	IdemTTL int    `json:"idem_ttl,omitempty"`
	Delta   bool   `json:"delta,omitempty"`
	Version uint64 `json:"version,omitempty"`
	VEpoch  string `json:"vepoch,omitempty"`
	Since   bool   `json:"since,omitempty"`
	SOff    uint64 `json:"since_off,omitempty"`
	SEpoch  string `json:"since_epoch,omitempty"` // token "N<i>" or a bogus literal
	Limit   int    `json:"limit,omitempty"`
	Reverse bool   `json:"reverse,omitempty"`
}

type c18Res struct {
	Kind   string       `json:"kind"` // err | pub | hist | unit
	Off    uint64       `json:"off,omitempty"`
	Epoch  string       `json:"epoch,omitempty"`
	Supp   bool         `json:"suppressed,omitempty"`
	Reason string       `json:"reason,omitempty"`
	Pubs   [][2]string  `json:"pubs,omitempty"` // (offset, data)
	Err    string       `json:"err,omitempty"`
	Dels   []c18Delivery `json:"deliveries,omitempty"`
}

const c18NodeMetaTTL = 7200

type c18Epochs struct {
	tok map[string]string // token -> real epoch string in this run
	rev map[string]string // real -> token
}

func c18NewEpochs() *c18Epochs { return &c18Epochs{tok: map[string]string{}, rev: map[string]string{}} }
func (e *c18Epochs) real(token string) string {
	if token == "" {
		return ""
	}
	if r, ok := e.tok[token]; ok {
		return r
	}
	return "zz" + token // never generated by epoch.Generate (8 letters)
}
func (e *c18Epochs) token(real string) string {
	if real == "" {
		return ""
	}
	if t, ok := e.rev[real]; ok {
		return t
	}
	if strings.HasPrefix(real, "zz") {
		return real[2:]
	}
	return "?" + real
}
func (e *c18Epochs) learn(i int, real string) {
	if real == "" {
		return
	}
	if _, ok := e.rev[real]; ok {
		return
	}
	t := fmt.Sprintf("N%d", i)
	if _, ok := e.tok[t]; ok {
		return
	}
	e.tok[t], e.rev[real] = real, t
}

func c18PubOpts(op c18Op) PublishOptions {
	return PublishOptions{HistorySize: op.Size, HistoryTTL: time.Duration(op.TTL) * time.Second,
		HistoryMetaTTL: time.Duration(op.MetaTTL) * time.Second, IdempotencyKey: op.Idem,
		IdempotentResultTTL: time.Duration(op.IdemTTL) * time.Second, UseDelta: op.Delta,
		Version: op.Version}
}

func c18Reason(r SuppressReason) string { return string(r) }

// c18Exec runs one abstract operation against a broker (epoch tokens resolved for this run).
func c18Exec(b Broker, op c18Op, ep *c18Epochs) (res c18Res) {
	defer func() {
		if r := recover(); r != nil {
			res = c18Res{Kind: "err", Err: fmt.Sprint("panic: ", r)}
		}
	}()
	switch op.Kind {
	case "pub":
		o := c18PubOpts(op)
		o.VersionEpoch = op.VEpoch
		r, err := b.Publish(op.Ch, []byte(op.Data), o)
		if err != nil {
			return c18Res{Kind: "err", Err: err.Error()}
		}
		return c18Res{Kind: "pub", Off: r.Offset, Epoch: r.Epoch, Supp: r.Suppressed, Reason: c18Reason(r.SuppressReason)}
	case "hist":
		f := HistoryFilter{Limit: op.Limit, Reverse: op.Reverse}
		if op.Since {
			f.Since = &StreamPosition{Offset: op.SOff, Epoch: ep.real(op.SEpoch)}
		}
		pubs, sp, err := b.History(op.Ch, HistoryOptions{Filter: f, MetaTTL: time.Duration(op.MetaTTL) * time.Second})
		if err != nil {
			return c18Res{Kind: "err", Err: err.Error()}
		}
		r := c18Res{Kind: "hist", Off: sp.Offset, Epoch: sp.Epoch}
		for _, p := range pubs {
			r.Pubs = append(r.Pubs, [2]string{strconv.FormatUint(p.Offset, 10), string(p.Data)})
		}
		return r
	case "rem":
		if err := b.RemoveHistory(op.Ch); err != nil {
			return c18Res{Kind: "err", Err: err.Error()}
		}
		return c18Res{Kind: "unit"}
	}
	return c18Res{Kind: "err", Err: "bad op"}
}

func (r *c18Res) epochs() []string {
	out := []string{}
	if r.Epoch != "" {
		out = append(out, r.Epoch)
	}
	for _, d := range r.Dels {
		if d.Epoch != "" {
			out = append(out, d.Epoch)
		}
	}
	return out
}

// ---------------------------------------------------------------- Coq term printing

func c18Str(s string) string {
	ok := true
	for i := 0; i < len(s); i++ {
		if s[i] < 32 || s[i] > 126 {
			ok = false
			break
		}
	}
	if ok {
		return `"` + strings.ReplaceAll(s, `"`, `""`) + `"`
	}
	return "(of_bytes " + vBytes([]byte(s)) + ")"
}

func c18OpCoq(i int, op c18Op) string {
	nonce := c18Str(fmt.Sprintf("N%d", i))
	switch op.Kind {
	case "pub":
		po := vApp("mkPO", vZ(int64(op.Size)), vZ(int64(op.TTL)), vZ(int64(op.MetaTTL)), c18Str(op.Idem), vZ(int64(op.IdemTTL)),
			vBool(op.Delta), vN(op.Version), c18Str(op.VEpoch))
		return vApp("OpPublish", c18Str(op.Ch), c18Str(op.Data), po, nonce)
	case "hist":
		since := "None"
		if op.Since {
			since = "(Some " + vPair(vN(op.SOff), c18Str(op.SEpoch)) + ")"
		}
		return vApp("OpHistory", c18Str(op.Ch), vApp("mkHF", since, vZ(int64(op.Limit)), vBool(op.Reverse)), vZ(int64(op.MetaTTL)), nonce)
	default:
		return vApp("OpRemove", c18Str(op.Ch))
	}
}

func c18ReasonN(s string) string {
	switch s {
	case "":
		return "0"
	case "idempotency":
		return "1"
	case "version":
		return "2"
	}
	return "99"
}

func c18ResCoq(r c18Res, ep *c18Epochs) string {
	dels := make([]string, len(r.Dels))
	for i, d := range r.Dels {
		prev := "None"
		if d.Prev != nil {
			prev = "(Some " + c18Str(*d.Prev) + ")"
		}
		off := d.Off
		if d.POff != d.Off { // pub.Offset and sp.Offset must coincide; make a mismatch visible
			off = ^uint64(0)
		}
		dels[i] = vApp("mkDel", c18Str(d.Ch), c18Str(d.Data), vN(off), c18Str(ep.token(d.Epoch)), vBool(d.Delta), prev)
	}
	var res string
	switch r.Kind {
	case "pub":
		res = vApp("ResPublish", vN(r.Off), c18Str(ep.token(r.Epoch)), vBool(r.Supp), c18ReasonN(r.Reason))
	case "hist":
		ps := make([]string, len(r.Pubs))
		for i, p := range r.Pubs {
			ps[i] = vPair(p[0], c18Str(p[1]))
		}
		res = vApp("ResHistory", vList(ps), vN(r.Off), c18Str(ep.token(r.Epoch)))
	case "unit":
		res = "ResUnit"
	default:
		res = "ResErr"
	}
	return vPair(res, vList(dels))
}

// ---------------------------------------------------------------- generators

func c18Pick(r *rand.Rand, xs ...int) int { return xs[r.Intn(len(xs))] }

type c18Profile struct {
	name     string
	lists    bool
	versions bool
	delta    bool
	reverse  bool
	idem     bool
	nohist   bool
}

var c18Profiles = []c18Profile{
	{name: "stream-core", delta: true, reverse: true, idem: true, nohist: true},
	{name: "stream-versions", versions: true, delta: true, idem: true},
	{name: "list-core", lists: true, idem: true, nohist: true},
	{name: "stream-core", delta: true, reverse: true, idem: true, nohist: true},
}

func c18Gen(r *rand.Rand, p c18Profile) []c18Op {
	n := 3 + r.Intn(11)
	chans := []string{"a", "b"}
	switch r.Intn(4) {
	case 0:
		chans = []string{"news"}
	case 1:
		chans = []string{"a", "chat:42", "$private#7"}
	}
	count := map[string]int{}
	var ops []c18Op
	pubID := 0
	for i := 0; i < n; i++ {
		ch := chans[r.Intn(len(chans))]
		k := r.Intn(10)
		switch {
		case k < 6:
			pubID++
			op := c18Op{Kind: "pub", Ch: ch, Data: fmt.Sprintf("p%d", pubID), Size: c18Pick(r, 1, 2, 3, 3, 5), TTL: 3600,
				MetaTTL: c18Pick(r, 0, 0, 5400)}
			if p.nohist && r.Intn(8) == 0 {
				if r.Intn(2) == 0 {
					op.Size = 0
				} else {
					op.TTL = 0
				}
			}
			if p.delta && r.Intn(3) == 0 {
				op.Delta = true
			}
			if p.idem && r.Intn(4) == 0 && op.Size > 0 && op.TTL > 0 {
				op.Idem = []string{"k1", "k2"}[r.Intn(2)]
				op.IdemTTL = c18Pick(r, 0, 600)
			}
			if p.versions && r.Intn(3) > 0 {
				op.Version = uint64(1 + r.Intn(6))
				op.VEpoch = []string{"", "", "va", "vb"}[r.Intn(4)]
			}
			if op.Size > 0 && op.TTL > 0 {
				count[ch]++
			}
			ops = append(ops, op)
		case k < 9:
			op := c18Op{Kind: "hist", Ch: ch, Limit: c18Pick(r, -1, -1, 0, 1, 2, 5), MetaTTL: c18Pick(r, 0, 0, 5400)}
			if p.reverse && r.Intn(3) == 0 {
				op.Reverse = true
			}
			if p.lists {
				op.MetaTTL = 0 // historyList ignores opts.MetaTTL (timing only, not observable here)
			}
			if r.Intn(2) == 0 {
				op.Since = true
				top := count[ch]
				if op.Reverse {
					op.SOff = uint64(1 + r.Intn(top+1)) // 1..top+1 : inside the agreement domain
				} else {
					op.SOff = uint64(r.Intn(top + 3))
				}
				if r.Intn(4) == 0 || i == 0 {
					op.SEpoch = "bogus"
				} else {
					op.SEpoch = fmt.Sprintf("N%d", r.Intn(i))
				}
			}
			ops = append(ops, op)
		default:
			ops = append(ops, c18Op{Kind: "rem", Ch: ch})
		}
	}
	return ops
}

type c18Probe struct {
	name  string
	lists bool
	ops   []c18Op
}

func c18HP(ch, data string, f func(*c18Op)) c18Op {
	op := c18Op{Kind: "pub", Ch: ch, Data: data, Size: 5, TTL: 3600}
	if f != nil {
		f(&op)
	}
	return op
}

var c18Probes = []c18Probe{
	{name: "core-stream", ops: []c18Op{
		{Kind: "hist", Ch: "a", Limit: -1},
		c18HP("a", "x1", nil), c18HP("a", "x2", func(o *c18Op) { o.Delta = true }), c18HP("a", "x3", func(o *c18Op) { o.Size = 2 }),
		{Kind: "hist", Ch: "a", Limit: -1}, {Kind: "hist", Ch: "a", Limit: 1, Reverse: true},
		{Kind: "hist", Ch: "a", Limit: -1, Since: true, SOff: 2, SEpoch: "N0"},
		{Kind: "rem", Ch: "a"}, {Kind: "hist", Ch: "a", Limit: -1}, c18HP("a", "x4", nil), {Kind: "hist", Ch: "a", Limit: -1}}},
	{name: "core-list", lists: true, ops: []c18Op{
		{Kind: "hist", Ch: "a", Limit: -1},
		c18HP("a", "x1", nil), c18HP("a", "x2", nil), c18HP("a", "x3", func(o *c18Op) { o.Size = 2 }),
		{Kind: "hist", Ch: "a", Limit: -1}, {Kind: "hist", Ch: "a", Limit: 1},
		{Kind: "hist", Ch: "a", Limit: -1, Since: true, SOff: 2, SEpoch: "N0"},
		{Kind: "rem", Ch: "a"}, {Kind: "hist", Ch: "a", Limit: -1}, c18HP("a", "x4", nil), {Kind: "hist", Ch: "a", Limit: -1}}},
	{name: "idempotency", ops: []c18Op{
		c18HP("a", "x1", func(o *c18Op) { o.Idem = "k" }), c18HP("a", "x2", func(o *c18Op) { o.Idem = "k" }),
		c18HP("a", "x3", func(o *c18Op) { o.Idem = "k2" }), {Kind: "hist", Ch: "a", Limit: -1}}},
	{name: "versions", ops: []c18Op{
		c18HP("a", "x1", func(o *c18Op) { o.Version = 5 }), c18HP("a", "x2", func(o *c18Op) { o.Version = 3 }),
		c18HP("a", "x3", func(o *c18Op) { o.Version = 5 }), c18HP("a", "x4", func(o *c18Op) { o.Version = 6 }),
		c18HP("a", "x5", func(o *c18Op) { o.Version = 2; o.VEpoch = "other" }),
		c18HP("a", "x6", func(o *c18Op) { o.Version = 1; o.VEpoch = "other" }), {Kind: "hist", Ch: "a", Limit: -1}}},
	// ---- known / suspected disagreements, one family per probe ----
	{name: "F2-unversioned-publish-keeps-version", ops: []c18Op{
		c18HP("a", "x1", func(o *c18Op) { o.Version = 5 }), c18HP("a", "x2", nil), c18HP("a", "x3", func(o *c18Op) { o.Version = 3 })}},
	{name: "version-2^53", ops: []c18Op{
		c18HP("a", "x1", func(o *c18Op) { o.Version = 1 << 53 }), c18HP("a", "x2", func(o *c18Op) { o.Version = 1<<53 + 1 })}},
	{name: "version-2^63", ops: []c18Op{
		c18HP("a", "x1", func(o *c18Op) { o.Version = 5 }), c18HP("a", "x2", func(o *c18Op) { o.Version = 1 << 63 })}},
	{name: "nohist-idempotent-flag", ops: []c18Op{
		{Kind: "pub", Ch: "a", Data: "x1", Idem: "k"}, {Kind: "pub", Ch: "a", Data: "x2", Idem: "k"}}},
	{name: "idempotency-nohist-then-history", ops: []c18Op{
		{Kind: "pub", Ch: "a", Data: "x1", Idem: "k"}, c18HP("a", "x2", func(o *c18Op) { o.Idem = "k" })}},
	{name: "reverse-since-beyond-top", ops: []c18Op{
		c18HP("a", "x1", nil), c18HP("a", "x2", nil), {Kind: "hist", Ch: "a", Limit: -1, Reverse: true, Since: true, SOff: 9, SEpoch: "N0"}}},
	{name: "reverse-since-zero", ops: []c18Op{
		c18HP("a", "x1", nil), {Kind: "hist", Ch: "a", Limit: -1, Reverse: true, Since: true, SOff: 0, SEpoch: "N0"}}},
	{name: "key-collision-meta", ops: []c18Op{
		c18HP("x", "x1", nil), c18HP("meta.x", "y1", nil), {Kind: "hist", Ch: "x", Limit: -1}, c18HP("x", "x2", nil)}},
	{name: "list-version", lists: true, ops: []c18Op{
		c18HP("a", "x1", func(o *c18Op) { o.Version = 5 }), c18HP("a", "x2", func(o *c18Op) { o.Version = 3 })}},
	{name: "list-delta", lists: true, ops: []c18Op{
		c18HP("a", "x1", func(o *c18Op) { o.Delta = true }), c18HP("a", "x2", func(o *c18Op) { o.Delta = true })}},
	{name: "list-reverse", lists: true, ops: []c18Op{
		c18HP("a", "x1", nil), c18HP("a", "x2", nil), {Kind: "hist", Ch: "a", Limit: -1, Reverse: true}}},
	{name: "list-since-maxuint", lists: true, ops: []c18Op{
		c18HP("a", "x1", nil), {Kind: "hist", Ch: "a", Limit: -1, Since: true, SOff: ^uint64(0), SEpoch: "N0"}}},
}

// c18Tags names the known-disagreement families a case touches (used as finding key).
func c18Tags(lists bool, ops []c18Op, mem []c18Res) string {
	t := map[string]bool{}
	seenVer := map[string]bool{}
	seenUnverAfterVer := map[string]bool{}
	idemHist, idemNo := map[string]bool{}, map[string]bool{}
	for i, op := range ops {
		hist := op.Size > 0 && op.TTL > 0
		if strings.ContainsAny(op.Ch, "._") || strings.ContainsAny(op.Idem, "._") {
			t["key-collision"] = true
		}
		switch op.Kind {
		case "pub":
			if hist && op.Version > 0 {
				if lists {
					t["list-version"] = true
				}
				if op.Version >= 1<<63 {
					t["version-ge-2^63"] = true
				} else if op.Version >= 1<<53 {
					t["version-ge-2^53"] = true
				}
				if seenUnverAfterVer[op.Ch] {
					t["mem-version-reset"] = true
				}
				seenVer[op.Ch] = true
			}
			if hist && op.Version == 0 && seenVer[op.Ch] {
				seenUnverAfterVer[op.Ch] = true
			}
			if hist && op.Delta && lists {
				t["list-delta"] = true
			}
			if op.Idem != "" {
				if hist {
					idemHist[op.Ch+"\x00"+op.Idem] = true
				} else {
					idemNo[op.Ch+"\x00"+op.Idem] = true
					t["nohist-idem"] = true
				}
			}
		case "hist":
			if lists && op.Reverse {
				t["list-reverse"] = true
			}
			if lists && op.Since && op.SOff == ^uint64(0) {
				t["list-since-maxuint"] = true
			}
			if !lists && op.Reverse && op.Since && i < len(mem) && mem[i].Kind == "hist" && op.SOff-1 > mem[i].Off {
				t["reverse-since-beyond-top"] = true
			}
		}
	}
	for k := range idemHist {
		if idemNo[k] {
			t["idem-cross-mode"] = true
			delete(t, "nohist-idem")
		}
	}
	if len(t) == 0 {
		return "-"
	}
	ks := make([]string, 0, len(t))
	for k := range t {
		ks = append(ks, k)
	}
	sort.Strings(ks)
	return strings.Join(ks, "+")
}

// ---------------------------------------------------------------- the test

type c18Env struct {
	coq     *c18Coq
	srv     *c18Server
	node    *Node
	shard   *RedisShard
	brokers map[bool]*RedisBroker
	hs      map[bool]*c18Handler
	sentMsg []byte
}

func c18Setup(t *testing.T) *c18Env {
	coq, err := c18StartCoq()
	if err != nil {
		t.Fatalf("coqtop: %v", err)
	}
	srv, err := c18StartServer(coq)
	if err != nil {
		t.Fatal(err)
	}
	node, err := New(Config{LogLevel: LogLevelNone, HistoryMetaTTL: c18NodeMetaTTL * time.Second})
	if err != nil {
		t.Fatal(err)
	}
	e := &c18Env{coq: coq, srv: srv, node: node, brokers: map[bool]*RedisBroker{}, hs: map[bool]*c18Handler{}}
	e.sentMsg, _ = (&protocol.Publication{Data: []byte("S")}).MarshalVT()
	for _, lists := range []bool{false, true} {
		shard, err := NewRedisShard(node, RedisShardConfig{Address: srv.ln.Addr().String(), IOTimeout: 20 * time.Second, ConnectTimeout: 5 * time.Second})
		if err != nil {
			t.Fatalf("shard: %v", err)
		}
		b, err := NewRedisBroker(node, RedisBrokerConfig{Shards: []*RedisShard{shard}, UseLists: lists, numPubSubProcessors: 1, pubSubProbeInterval: -1})
		if err != nil {
			t.Fatalf("broker: %v", err)
		}
		h := &c18Handler{sent: make(chan struct{}, 16)}
		if err := b.RegisterBrokerEventHandler(h); err != nil {
			t.Fatalf("register: %v", err)
		}
		e.brokers[lists], e.hs[lists] = b, h
	}
	return e
}

func (e *c18Env) subscribe(t *testing.T, lists bool, chans []string) {
	b := e.brokers[lists]
	for _, ch := range append([]string{c18Sentinel(lists)}, chans...) {
		if err := b.Subscribe(ch); err != nil {
			t.Fatalf("subscribe %s: %v", ch, err)
		}
	}
}

func (e *c18Env) flush(t *testing.T, lists bool) {
	e.srv.inject("centrifuge.client."+c18Sentinel(lists), e.sentMsg)
	select {
	case <-e.hs[lists].sent:
	case <-time.After(10 * time.Second):
		t.Fatalf("sentinel not delivered")
	}
}

type c18Run struct {
	res  []c18Res
	wire [][][]string
	ep   *c18Epochs
}

func (e *c18Env) runRedis(t *testing.T, lists bool, ops []c18Op) c18Run {
	// fresh modelled Redis; the broker objects keep no per-channel state of their own
	e.srv.mu.Lock()
	e.coq.reset()
	e.srv.mu.Unlock()
	chset := map[string]bool{}
	var chans []string
	for _, op := range ops {
		if !chset[op.Ch] {
			chset[op.Ch] = true
			chans = append(chans, op.Ch)
		}
	}
	e.subscribe(t, lists, chans)
	e.flush(t, lists)
	e.hs[lists].take()
	e.srv.resetLog()
	run := c18Run{ep: c18NewEpochs()}
	for i, op := range ops {
		r := c18Exec(e.brokers[lists], op, run.ep)
		e.flush(t, lists)
		r.Dels = e.hs[lists].take()
		log, nonce := e.srv.resetLog()
		if nonce != "" {
			run.ep.learn(i, nonce)
		}
		// canonicalise the wire log: payload -> "@P", nonce -> token
		for _, c := range log {
			switch c[0] {
			case "publish":
				if len(c) == 3 {
					c[2] = "@P"
				}
			case "EVAL:broker_publish_idempotent":
				if len(c) > 3 {
					c[3] = "@P"
				}
			case "EVAL:broker_history_add_stream", "EVAL:broker_history_add_list":
				if len(c) > 5 {
					c[5] = "@P"
				}
			}
			for k := range c {
				if nonce != "" && c[k] == nonce {
					c[k] = run.ep.token(nonce)
				} else if strings.HasPrefix(c[k], "zzN") || c[k] == "zzbogus" {
					c[k] = c[k][2:]
				}
			}
		}
		run.res = append(run.res, r)
		run.wire = append(run.wire, log)
	}
	if err := e.brokers[lists].Unsubscribe(chans...); err != nil {
		t.Fatalf("unsubscribe: %v", err)
	}
	if e.srv.fail != nil {
		t.Fatalf("model server failure: %v", e.srv.fail)
	}
	return run
}

func (e *c18Env) runMemory(t *testing.T, ops []c18Op) c18Run {
	b, err := NewMemoryBroker(e.node, MemoryBrokerConfig{})
	if err != nil {
		t.Fatal(err)
	}
	h := &c18Handler{sent: make(chan struct{}, 1)}
	if err := b.RegisterBrokerEventHandler(h); err != nil {
		t.Fatal(err)
	}
	defer func() { _ = b.Close(context.Background()) }()
	run := c18Run{ep: c18NewEpochs()}
	for i, op := range ops {
		r := c18Exec(b, op, run.ep)
		r.Dels = h.take()
		for _, ep := range r.epochs() {
			run.ep.learn(i, ep)
		}
		run.res = append(run.res, r)
	}
	return run
}

func TestVerifC18(t *testing.T) {
	w := verifOpen(t, "C18")
	defer w.Close()
	e := c18Setup(t)
	defer e.coq.close()
	for i := 0; i < w.N; i++ {
		if !w.Want(i) {
			continue
		}
		r := w.Rand(i)
		var ops []c18Op
		var lists bool
		var class string
		if i < len(c18Probes) {
			ops, lists, class = c18Probes[i].ops, c18Probes[i].lists, "probe:"+c18Probes[i].name
		} else {
			p := c18Profiles[r.Intn(len(c18Profiles))]
			ops, lists, class = c18Gen(r, p), p.lists, p.name
		}
		rr := e.runRedis(t, lists, ops)
		mr := e.runMemory(t, ops)

		opsC := make([]string, len(ops))
		redC := make([]string, len(ops))
		memC := make([]string, len(ops))
		wireC := make([]string, len(ops))
		histPub, histNonEmpty := false, false
		for k, op := range ops {
			opsC[k] = c18OpCoq(k, op)
			redC[k] = c18ResCoq(rr.res[k], rr.ep)
			memC[k] = c18ResCoq(mr.res[k], mr.ep)
			cmds := make([]string, len(rr.wire[k]))
			for a, c := range rr.wire[k] {
				ss := make([]string, len(c))
				for b, s := range c {
					ss[b] = c18Str(s)
				}
				cmds[a] = vList(ss)
			}
			wireC[k] = vList(cmds)
			if op.Kind == "pub" && op.Size > 0 && op.TTL > 0 {
				histPub = true
			}
			if mr.res[k].Kind == "hist" && len(mr.res[k].Pubs) > 0 {
				histNonEmpty = true
			}
		}
		term := vApp("mkCase", vApp("mkCfg", vBool(lists), vZ(c18NodeMetaTTL)), vList(opsC), vList(redC), vList(memC), vList(wireC))
		key := c18Tags(lists, ops, mr.res)
		js := map[string]any{"lists": lists, "ops": ops, "redis": rr.res, "memory": mr.res, "key": key, "class": class}
		w.Case(i, term, js, class, len(ops) >= 3 && histPub && histNonEmpty)
	}
}
