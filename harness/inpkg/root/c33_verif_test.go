package centrifuge

import (
	"fmt"
	"math/rand"
	"regexp"
	"strconv"
	"strings"
	"testing"

	"github.com/centrifugal/centrifuge/internal/epoch"
)

// C33 driver: the real extractPushData / parseDeltaPush on (a) arbitrary bytes, (b) payloads built
// the way the broker builds them: Go prefixes (joinTypePrefix / leaveTypePrefix / plain), and the
// `payload = ... .. ...` concatenations read from the embedded Lua script sources
// (addHistoryStreamSource / addHistoryListSource) and evaluated here, (c) samples of epoch.Generate().

type c33Tok struct {
	kind string // "lit", "var", "len"
	val  string
}

var c33LuaVars = map[string]bool{"top_offset": true, "current_epoch": true, "prev_message_payload": true, "message_payload": true}

func c33StripLuaComments(src string) string {
	lines := strings.Split(src, "\n")
	for i, l := range lines {
		if k := strings.Index(l, "--"); k >= 0 {
			lines[i] = l[:k]
		}
	}
	return strings.Join(lines, "\n")
}

func c33ParseConcat(expr string) ([]c33Tok, error) {
	var toks []c33Tok
	i, operand := 0, true
	for i < len(expr) {
		c := expr[i]
		if c == ' ' || c == '\n' || c == '\t' || c == '\r' {
			i++
			continue
		}
		if operand {
			switch {
			case c == '"' || c == '\'':
				j := strings.IndexByte(expr[i+1:], c)
				if j < 0 {
					return nil, fmt.Errorf("unterminated literal")
				}
				lit := expr[i+1 : i+1+j]
				if strings.Contains(lit, "\\") {
					return nil, fmt.Errorf("escape in literal")
				}
				toks = append(toks, c33Tok{"lit", lit})
				i += j + 2
			case c == '#':
				m := regexp.MustCompile(`^#\s*([A-Za-z_]\w*)`).FindStringSubmatch(expr[i:])
				if m == nil || !c33LuaVars[m[1]] {
					return nil, fmt.Errorf("bad length operand near %q", expr[i:])
				}
				toks = append(toks, c33Tok{"len", m[1]})
				i += len(m[0])
			default:
				m := regexp.MustCompile(`^[A-Za-z_]\w*`).FindString(expr[i:])
				if m == "" || !c33LuaVars[m] {
					return nil, fmt.Errorf("bad operand near %q", expr[i:])
				}
				toks = append(toks, c33Tok{"var", m})
				i += len(m)
			}
			operand = false
		} else {
			if !strings.HasPrefix(expr[i:], "..") {
				return nil, fmt.Errorf("expected .. near %q", expr[i:])
			}
			i += 2
			operand = true
		}
	}
	if operand {
		return nil, fmt.Errorf("dangling ..")
	}
	return toks, nil
}

// returns the positioned ("p1:") and the delta ("d1:") template of a history-add script
func c33Templates(src string) (plain, delta []c33Tok, err error) {
	src = c33StripLuaComments(src)
	re := regexp.MustCompile(`(?s)(?:local\s+)?\bpayload\s*=\s*(.*?)\n\s*(?:else\b|end\b|redis\.call|local\b|if\b|return\b)`)
	ms := re.FindAllStringSubmatch(src, -1)
	if len(ms) != 2 {
		return nil, nil, fmt.Errorf("expected 2 payload assignments, found %d", len(ms))
	}
	for _, m := range ms {
		toks, e := c33ParseConcat(strings.TrimSpace(m[1]))
		if e != nil {
			return nil, nil, e
		}
		isDelta := false
		for _, t := range toks {
			if t.kind == "lit" && t.val == "d1:" {
				isDelta = true
			}
		}
		if isDelta {
			delta = toks
		} else {
			plain = toks
		}
	}
	if plain == nil || delta == nil {
		return nil, nil, fmt.Errorf("missing template")
	}
	return plain, delta, nil
}

// Lua 5.1 number -> string in a concatenation: "%.14g"
func c33LuaNum(x uint64) string { return strconv.FormatFloat(float64(x), 'g', 14, 64) }

func c33Eval(tpl []c33Tok, off uint64, ep, prev, payload string) string {
	vars := map[string]string{"current_epoch": ep, "prev_message_payload": prev, "message_payload": payload}
	var sb strings.Builder
	for _, t := range tpl {
		switch t.kind {
		case "lit":
			sb.WriteString(t.val)
		case "var":
			if t.val == "top_offset" {
				sb.WriteString(c33LuaNum(off))
			} else {
				sb.WriteString(vars[t.val])
			}
		case "len":
			sb.WriteString(c33LuaNum(uint64(len(vars[t.val]))))
		}
	}
	return sb.String()
}

type c33Obs struct {
	Panic bool   `json:"panic"`
	Data  []byte `json:"data"`
	Type  int    `json:"type"`
	Off   uint64 `json:"offset"`
	Epoch string `json:"epoch"`
	Delta bool   `json:"delta"`
	Prev  []byte `json:"prev"`
	OK    bool   `json:"ok"`
}

func c33Run(data []byte) (o c33Obs) {
	defer func() {
		if e := recover(); e != nil {
			o = c33Obs{Panic: true}
		}
	}()
	in := append([]byte{}, data...) // the function aliases its input; keep ours intact
	d, typ, sp, delta, prev, ok := extractPushData(in)
	return c33Obs{Data: append([]byte{}, d...), Type: int(typ), Off: sp.Offset, Epoch: sp.Epoch, Delta: delta, Prev: append([]byte{}, prev...), OK: ok}
}

func (o c33Obs) coq() string {
	if o.Panic {
		return "Panic"
	}
	typ := [...]string{"PPub", "PJoin", "PLeave"}[o.Type]
	return vApp("Ret", vApp("mkPush", vBytes(o.Data), typ, vN(o.Off), vStr(o.Epoch), vBool(o.Delta), vBytes(o.Prev), vBool(o.OK)))
}

var c33Alphabet = []byte("_pdjl1:-0x")

func c33Payload(r *rand.Rand) string {
	switch r.Intn(8) {
	case 0:
		return ""
	case 1:
		return "__"
	case 2:
		return ":"
	case 3:
		return "_x__y:1:"
	}
	n := r.Intn(12)
	if r.Intn(25) == 0 {
		n = 95 + r.Intn(12) // lengths with three digits (Coq-side cost grows with the byte count)
	}
	b := make([]byte, n)
	for i := range b {
		switch r.Intn(4) {
		case 0:
			b[i] = c33Alphabet[r.Intn(len(c33Alphabet))]
		case 1:
			b[i] = byte(r.Intn(256))
		default:
			b[i] = byte(0x08 + r.Intn(0x30))
		}
	}
	return string(b)
}

func c33Epoch(r *rand.Rand) string {
	switch r.Intn(12) {
	case 0:
		return ""
	case 1:
		return "a:b"
	case 2:
		return "a__b"
	case 3:
		return "ab_"
	case 4:
		return "_a_b"
	case 5:
		return "xyz.123"
	case 6:
		return ":"
	case 7:
		return "_"
	default:
		return epoch.Generate()
	}
}

func c33Offset(r *rand.Rand) uint64 {
	switch r.Intn(10) {
	case 0:
		return 0
	case 1:
		return 1
	case 2:
		return 99999999999999 // largest offset Lua prints in plain decimal
	case 3:
		return 100000000000000 // "%.14g" switches to 1e+14
	case 4:
		return ^uint64(0)
	case 5:
		return uint64(r.Int63())
	case 6: // rounding of the 14-digit mantissa / of the double conversion: ties, carries
		xs := []uint64{999999999999995, 99999999999999500, 9007199254740993, 1000000000000005, 1000000000000015,
			123456789012345678, 150000000000000, 18446744073709551615, 100000000000001, 9999999999999950000}
		return xs[r.Intn(len(xs))]
	case 7:
		return 100000000000000 + uint64(r.Int63n(1000000000000000))
	default:
		return uint64(r.Intn(100000))
	}
}

// grammar-aware malformed delta frames
func c33BadDelta(r *rand.Rand) string {
	pick := func(xs ...string) string { return xs[r.Intn(len(xs))] }
	prev, payload := c33Payload(r), c33Payload(r)
	if len(prev) > 40 {
		prev = prev[:40]
	}
	if len(payload) > 40 {
		payload = payload[:40]
	}
	rest := len(prev) + 1 + len(strconv.Itoa(len(payload))) + 1 + len(payload)
	lens := func(n int, remaining int) string {
		return pick(strconv.Itoa(n), strconv.Itoa(n), strconv.Itoa(n), "-1", "0", "+"+strconv.Itoa(n), "-0", strconv.Itoa(n-1), strconv.Itoa(n+1),
			strconv.Itoa(remaining), strconv.Itoa(remaining+1), strconv.Itoa(remaining-1), "9223372036854775807", "9223372036854775808",
			"-9223372036854775808", "-9223372036854775809", "x", "", "1_0", "0x1", " 1", "-"+strconv.Itoa(n))
	}
	off := pick("0", "1", "42", "007", "18446744073709551615", "18446744073709551616", "-1", "+1", "x", "", "1_0")
	ep := pick("e", "abcdEFGH", "", "a_b", "__", "é")
	s := pick("__d1:", "__d1:", "__d1:", "__d1", "__d2:", "__d:", "__d1::") + off + ":" + ep + ":" + lens(len(prev), rest) + ":" + prev + pick(":", ":", ":", "", "x") + lens(len(payload), len(payload)) + pick(":", ":", ":", "") + payload
	if r.Intn(4) == 0 {
		s = s[:r.Intn(len(s)+1)]
	}
	return s
}

func c33BadP(r *rand.Rand) string {
	pick := func(xs ...string) string { return xs[r.Intn(len(xs))] }
	s := "__" + pick("p1:", "p1:", "p", "p1", "p:", "pp:", "p1::", "p12", "") + pick("1", "0", "18446744073709551615", "18446744073709551616", "", "x", "-1", "+1", "1_0") +
		pick(":", ":", "", "::") + pick("e", "abcdEFGH", "", "a:b", "a_") + pick("__", "__", "_", "", "___") + c33Payload(r)
	if r.Intn(4) == 0 {
		s = s[:r.Intn(len(s)+1)]
	}
	return s
}

func TestVerifC33(t *testing.T) {
	w := verifOpen(t, "C33")
	defer w.Close()
	streamP, streamD, err := c33Templates(addHistoryStreamSource)
	if err != nil {
		t.Fatalf("stream script: %v", err)
	}
	listP, listD, err := c33Templates(addHistoryListSource)
	if err != nil {
		t.Fatalf("list script: %v", err)
	}
	corpus := []string{
		"__p__x", "__d1:1:e:3:abc", "__d1:1:e:-1:abc:1:x", // the three confirmed panics (F6)
		"__p1__", "__p__", "__p1:__", "__p1:1__", "__p1:1:__", "__p1:1:e__", "__p1:1:e__x", "__p1::e__x", "__pXY1:e__x", "__p1:x:e__x",
		"__p1:18446744073709551616:e__x", "__p1:18446744073709551615:e__x", "__p1:1:a:b__x", "__p1:1:a___x", "__p1:1:e", "__p", "__",
		"", "_", "x", "_x", "___", "____", "__a__x", "__j", "__j_", "__j__", "__j__x", "__jx__y", "__j____", "__l__", "__l__x", "__l", "__lx_",
		"__d", "__d1", "__d1:", "__d1:1", "__d1:1:", "__d1:1:e", "__d1:1:e:", "__d1:1:e:0", "__d1:1:e:0:", "__d1:1:e:0::", "__d1:1:e:0::0", "__d1:1:e:0::0:",
		"__d1:1:e:0::0:x", "__d1:1:e:1:a:1:b", "__d1:1:e:1:a:1:", "__d1:1:e:1:a:2:b", "__d1:1:e:1:ab1:b", "__d1:1:e:2:a:1:b", "__d1:1:e:3:a:1", "__d1:1:e:4:a:1:", "__d1:1:e:5:a:1:b",
		"__d1:1:e:1:a:-1:b", "__d1:1:e:1:a:+1:b", "__d1:1:e:+1:a:1:b", "__d1:1:e:-0:a:1:b", "__d1:1:e:9223372036854775807:a:1:b", "__d1:1:e:9223372036854775808:a:1:b",
		"__d1:1:e:1:a:9223372036854775807:b", "__d1:x:e:1:a:1:b", "__d1:1::1:a:1:b", "__d1:1:e:1:a:1:bcd", "__d2:1:e:1:a:1:b", "__D1:1:e:1:a:1:b", "__d1:1:e:0:", "__d1:1:e:0",
	}
	const alpha = 10
	nExh := 0
	for k, p := 0, 1; k <= 4; k++ { // strings "__"+t, |t| <= 4 over the 10-letter alphabet
		nExh += p
		p *= alpha
	}
	if w.Tier == "thorough" {
		nExh += 100000 // |t| = 5
	}
	kinds := []string{"BPlain", "BJoin", "BLeave", "BStreamP", "BStreamD", "BListP", "BListD"}
	for i := 0; i < w.N; i++ {
		if !w.Want(i) {
			continue
		}
		r := w.Rand(i)
		j := i - len(corpus)
		var term, class string
		var js any
		nontrivial := false
		parseCase := func(data string, cl string) {
			o := c33Run([]byte(data))
			term = vApp("CParse", vStr(data), o.coq())
			class = cl
			if o.Panic {
				class += "/panic"
			} else if o.OK {
				class += "/ok"
			} else {
				class += "/malformed"
			}
			m := map[string]any{"kind": "parse", "data": data, "data_bytes": []byte(data), "obs": o}
			if o.Panic {
				m["key"] = "extractPushData-slice-bounds-panic" // canonical key of finding F6 (props finding_key)
			}
			js = m
			nontrivial = strings.HasPrefix(data, "__") && len(data) > 2
		}
		switch {
		case i < len(corpus):
			parseCase(corpus[i], "corpus")
		case j < nExh:
			// enumerate t by length then lexicographic index
			k, p := 0, 1
			idx := j
			for idx >= p {
				idx -= p
				p *= alpha
				k++
			}
			tb := make([]byte, k)
			for q := k - 1; q >= 0; q-- {
				tb[q] = c33Alphabet[idx%alpha]
				idx /= alpha
			}
			parseCase("__"+string(tb), "exhaustive")
		default:
			switch c := r.Intn(20); {
			case c < 9: // builders
				kind := r.Intn(len(kinds))
				off, ep, prev, payload := c33Offset(r), c33Epoch(r), c33Payload(r), c33Payload(r)
				var built string
				switch kinds[kind] {
				case "BPlain":
					built = payload
					off, ep, prev = 0, "", ""
				case "BJoin":
					built = string(append(append([]byte{}, joinTypePrefix...), payload...))
					off, ep, prev = 0, "", ""
				case "BLeave":
					built = string(append(append([]byte{}, leaveTypePrefix...), payload...))
					off, ep, prev = 0, "", ""
				case "BStreamP":
					built = c33Eval(streamP, off, ep, prev, payload)
				case "BStreamD":
					built = c33Eval(streamD, off, ep, prev, payload)
				case "BListP":
					built = c33Eval(listP, off, ep, prev, payload)
				case "BListD":
					built = c33Eval(listD, off, ep, prev, payload)
				}
				o := c33Run([]byte(built))
				term = vApp("CBuild", kinds[kind], vN(off), vStr(ep), vStr(prev), vStr(payload), vStr(built), o.coq())
				class = "build/" + kinds[kind]
				if o.Panic {
					class += "/panic"
				} else if !o.OK {
					class += "/rejected"
				}
				js = map[string]any{"kind": "build", "builder": kinds[kind], "offset": off, "epoch": ep, "prev": []byte(prev), "payload": []byte(payload), "built": built, "built_bytes": []byte(built), "obs": o}
				nontrivial = true
			case c < 10:
				e := epoch.Generate()
				term = vApp("CEpoch", vStr(e))
				class = "epoch"
				js = map[string]any{"kind": "epoch", "epoch": e}
			case c < 14:
				parseCase(c33BadDelta(r), "mutated-delta")
			case c < 16:
				parseCase(c33BadP(r), "mutated-positioned")
			case c < 18: // truncation / byte flip of a well-formed frame
				off, ep, prev, payload := c33Offset(r)%1000, epoch.Generate(), c33Payload(r), c33Payload(r)
				s := c33Eval([][]c33Tok{streamP, streamD, listD}[r.Intn(3)], off, ep, prev, payload)
				b := []byte(s)
				switch r.Intn(3) {
				case 0:
					b = b[:r.Intn(len(b)+1)]
				case 1:
					if len(b) > 0 {
						b[r.Intn(len(b))] = c33Alphabet[r.Intn(len(c33Alphabet))]
					}
				default:
					k := r.Intn(len(b) + 1)
					b = append(append(append([]byte{}, b[:k]...), c33Alphabet[r.Intn(len(c33Alphabet))]), b[k:]...)
				}
				parseCase(string(b), "mutated-frame")
			default: // random strings over the alphabet behind "__"
				n := 5 + r.Intn(12)
				b := make([]byte, n)
				for q := range b {
					b[q] = c33Alphabet[r.Intn(len(c33Alphabet))]
				}
				pre := "__"
				if r.Intn(8) == 0 {
					pre = []string{"", "_", "___"}[r.Intn(3)]
				}
				parseCase(pre+string(b), "random")
			}
		}
		w.Case(i, term, js, class, nontrivial)
	}
}
