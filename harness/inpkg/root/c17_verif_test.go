package centrifuge

import (
	"math"
	"math/rand"
	"testing"
	"testing/synctest"
	"time"
)

// C17 driver: random operation sequences (publish / history / remove-history / clock moves) on a real
// MemoryBroker under a virtual clock. Versioned and idempotent publishes belong to C19's generator.

func c17P(size int, ttl, meta int64) *c17Popts { return &c17Popts{Size: size, TTL: ttl, Meta: meta} }

func c17Corpus() [][]c17Op {
	all := func(ch int) c17Op { return c17Op{Kind: "hist", Ch: ch, Limit: -1} }
	pub := func(ch int, id uint64, p *c17Popts) c17Op { return c17Op{Kind: "pub", Ch: ch, ID: id, P: p} }
	adv := func(d int64) c17Op { return c17Op{Kind: "adv", D: d} }
	since := func(ch int, off, ep uint64, limit int, rev bool) c17Op {
		return c17Op{Kind: "hist", Ch: ch, Since: &c17Since{Off: off, Ep: ep}, Limit: limit, Rev: rev}
	}
	return [][]c17Op{
		// trim, reads, expiry keeps top/epoch, publish continues, meta discard restarts
		{pub(0, 1, c17P(2, 2000, 5000)), pub(0, 2, c17P(2, 2000, 5000)), pub(0, 3, c17P(2, 2000, 5000)), all(0),
			since(0, 2, 1, -1, false), since(0, 4, 0, 1, true), adv(2300), all(0), pub(0, 4, c17P(2, 2000, 5000)),
			adv(6000), pub(0, 5, c17P(2, 2000, 5000)), all(0)},
		// the window between a deadline and the sweeper tick (deadline passed at x.000, sweep at x.700)
		{adv(300), pub(0, 1, c17P(3, 1000, 0)), adv(1000), all(0), adv(500), all(0), adv(400), all(0)},
		// uint64 wrap corners (outside the property's domain; compared with the model only)
		{pub(0, 1, c17P(3, 5000, 0)), pub(0, 2, c17P(3, 5000, 0)), since(0, math.MaxUint64, 1, -1, false),
			since(0, math.MaxUint64-1, 1, -1, false), since(0, 0, 1, -1, true), since(0, math.MaxUint64, 0, 2, true)},
		// remove history, then reads and a publish; history of an unknown channel creates metadata
		{all(1), pub(1, 1, c17P(5, 3000, 0)), pub(1, 2, c17P(5, 3000, 0)), {Kind: "rem", Ch: 1}, all(1),
			since(1, 0, 1, -1, false), pub(1, 3, c17P(5, 3000, 0)), all(1), since(1, 1, 1, -1, false), since(1, 3, 1, -1, true)},
		// size shrinks then grows; limits; reverse
		{pub(0, 1, c17P(5, 9000, 0)), pub(0, 2, c17P(5, 9000, 0)), pub(0, 3, c17P(5, 9000, 0)), pub(0, 4, c17P(2, 9000, 0)),
			all(0), pub(0, 5, c17P(5, 9000, 0)), all(0), {Kind: "hist", Ch: 0, Limit: 2, Rev: true}, {Kind: "hist", Ch: 0, Limit: 0},
			since(0, 3, 1, 1, false), since(0, 5, 1, 1, true), since(0, 6, 1, -1, true), since(0, 7, 1, -1, true), since(0, 5, c17Foreign, -1, false)},
		// sub-second TTL truncates to 0 s; TTL refreshed by a later publish; meta refreshed by reads
		{adv(300), pub(2, 1, c17P(3, 500, 2000)), adv(1000), all(2), pub(2, 2, c17P(3, 1500, 2000)), adv(1000), all(2),
			pub(2, 3, c17P(3, 3000, 2000)), adv(1000), all(2), adv(1000), all(2), adv(1000), all(2), adv(3000), all(2)},
		// no-history publishes
		{pub(0, 1, c17P(0, 2000, 0)), pub(0, 2, c17P(2, 0, 0)), pub(0, 3, c17P(-1, 2000, 0)), all(0), pub(0, 4, c17P(2, 2000, 0)), all(0)},
	}
}

func TestVerifC17(t *testing.T) {
	w := verifOpen(t, "C17")
	defer w.Close()
	nodes := []*Node{c17Node(0, false), c17Node(3*time.Second, false), c17Node(0, true), c17Node(5*time.Second, false)}
	corpus := c17Corpus()
	totals := map[string]int{}
	for i := 0; i < w.N; i++ {
		if !w.Want(i) {
			continue
		}
		r := w.Rand(i)
		var env *c17Env
		synctest.Test(t, func(t *testing.T) {
			var node *Node
			if i < len(corpus) {
				node = nodes[2]
			} else {
				node = nodes[r.Intn(len(nodes))]
			}
			env = c17NewEnv(node)
			env.start(nil)
			defer env.close()
			if i < len(corpus) {
				for _, op := range corpus[i] {
					env.do(op)
				}
				return
			}
			c17RandomCase(r, env)
		})
		class := "varying-ttl"
		if env.Uniform {
			class = "uniform-ttl"
		}
		if i < len(corpus) {
			class = "corpus"
		}
		flags := ""
		for _, f := range []struct {
			n int
			s string
		}{{env.SawExpired, "X"}, {env.SawEpochChange, "E"}, {env.SawTrim, "T"}} {
			if f.n > 0 {
				flags += f.s
			}
		}
		if flags != "" {
			class += "/" + flags
		}
		totals["expired_seen"] += env.SawExpired
		totals["epoch_changes"] += env.SawEpochChange
		totals["trimmed_reads"] += env.SawTrim
		totals["nonempty_reads"] += env.SawNonEmpty
		totals["ops"] += len(env.Ops)
		nontrivial := env.Uniform && env.SawNonEmpty > 0 && (env.SawExpired > 0 || env.SawEpochChange > 0 || env.SawTrim > 0)
		term := vApp("mkCase", vN(uint64(env.Now0)), vN(uint64(env.Meta0)), c17CoqOps(env.Ops), c17CoqOuts(env.Outs))
		w.Case(i, term, map[string]any{"now0": env.Now0, "hub_meta_ms": env.Meta0, "ops": env.Ops, "outs": env.Outs}, class, nontrivial)
	}
	for k, v := range totals {
		w.Extra[k] = v
	}
}

func c17RandomCase(r *rand.Rand, env *c17Env) {
	n := 5 + r.Intn(36)
	nch := 1 + r.Intn(3)
	// uniform: every channel has one history TTL and one metadata TTL (the realistic configuration and
	// the domain of C17_refines); otherwise TTLs vary per operation (compared with the model only).
	env.Uniform = r.Intn(4) != 0
	cfg := make([]*c17Popts, nch)
	for ch := range cfg {
		cfg[ch] = c17GenPopts(r)
	}
	var id uint64
	for k := 0; k < n; k++ {
		ch := r.Intn(nch)
		switch x := r.Intn(100); {
		case x < 40:
			id++
			p := c17GenPopts(r)
			if env.Uniform {
				p.TTL, p.Meta = cfg[ch].TTL, cfg[ch].Meta
			}
			env.do(c17Op{Kind: "pub", Ch: ch, ID: id, P: p})
		case x < 70:
			op := env.genHistory(r, ch)
			if env.Uniform {
				op.Meta = cfg[ch].Meta
			}
			env.do(op)
		case x < 75:
			env.do(c17Op{Kind: "rem", Ch: ch})
		default:
			env.do(c17Op{Kind: "adv", D: c17GenAdvance(r)})
		}
	}
	// finish with a full read of every channel
	for ch := 0; ch < nch; ch++ {
		op := c17Op{Kind: "hist", Ch: ch, Limit: -1}
		if env.Uniform {
			op.Meta = cfg[ch].Meta
		}
		env.do(op)
	}
}
