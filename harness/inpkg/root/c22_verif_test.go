package centrifuge

// C22 driver: a scripted protocol client (state pages -> stream pages -> live, recovery join after a
// drop or an insufficient-state unsubscribe) against the REAL node + MemoryMapBroker, with writer
// operations (publish / remove / key expiry / stream expiry / clear; stream trimming through small
// StreamSize) between any two requests and, through a broker wrapper used as a gate, inside the three
// windows of the live transition.  At the end the client's map is compared with the broker's ReadState.

import (
	"container/heap"
	"context"
	"encoding/json"
	"fmt"
	"math/rand"
	"sort"
	"sync"
	"testing"
	"time"

	"github.com/centrifugal/centrifuge/internal/priority"
	"github.com/centrifugal/protocol"
)

// ---------------------------------------------------------------- gate: map broker wrapper

type c22MapBroker struct {
	*MemoryMapBroker
	mu sync.Mutex
	g0 map[string]func()   // fires on the next ReadStream with Limit == 0 (stream position probe)
	g1 map[string]func()   // fires before the next ReadStream with Limit != 0 made while the channel has a subscriber
	g2 map[string]func()   // ... after it
	node *Node
	drop map[string]bool // fault: PUB/SUB deliveries of this channel to the node are lost (at-most-once broker)
}

// the node registers itself as event handler: deliveries pass through here
type c22Lossy struct {
	BrokerEventHandler
	b *c22MapBroker
}

func (l *c22Lossy) HandlePublication(ch string, pub *Publication, sp StreamPosition, useDelta bool, prevPub *Publication) error {
	l.b.mu.Lock()
	lost := l.b.drop[ch]
	l.b.mu.Unlock()
	if lost {
		return nil
	}
	return l.BrokerEventHandler.HandlePublication(ch, pub, sp, useDelta, prevPub)
}

func (b *c22MapBroker) RegisterEventHandler(h BrokerEventHandler) error {
	return b.MemoryMapBroker.RegisterEventHandler(&c22Lossy{BrokerEventHandler: h, b: b})
}

func (b *c22MapBroker) take(m map[string]func(), ch string) func() {
	b.mu.Lock()
	defer b.mu.Unlock()
	f := m[ch]
	delete(m, ch)
	return f
}

func (b *c22MapBroker) ReadStream(ctx context.Context, ch string, opts MapReadStreamOptions) (MapStreamResult, error) {
	if opts.Filter.Limit == 0 {
		if f := b.take(b.g0, ch); f != nil {
			f()
		}
		return b.MemoryMapBroker.ReadStream(ctx, ch, opts)
	}
	inHub := b.node.hub.NumSubscribers(ch) > 0
	if inHub {
		if f := b.take(b.g1, ch); f != nil {
			f()
		}
	}
	res, err := b.MemoryMapBroker.ReadStream(ctx, ch, opts)
	if inHub {
		if f := b.take(b.g2, ch); f != nil {
			f()
		}
	}
	return res, err
}

// ---------------------------------------------------------------- environment

type c22Env struct {
	t       *testing.T
	node    *Node
	mb      *c22MapBroker
	mu      sync.Mutex
	subOpts map[string]SubscribeOptions
	mapOpts map[string]MapChannelOptions
	fx      bool
}

func c22NewEnv(t *testing.T) *c22Env {
	e := &c22Env{t: t, subOpts: map[string]SubscribeOptions{}, mapOpts: map[string]MapChannelOptions{}}
	node, err := New(Config{
		LogLevel:   LogLevelNone,
		LogHandler: func(LogEntry) {},
		Map: MapConfig{GetMapChannelOptions: func(ch string) MapChannelOptions {
			e.mu.Lock()
			defer e.mu.Unlock()
			if o, ok := e.mapOpts[ch]; ok {
				return o
			}
			return MapChannelOptions{Mode: MapModeRecoverable, KeyTTL: 600 * time.Second, MinPageSize: 1}
		}},
	})
	if err != nil {
		t.Fatal(err)
	}
	mmb, err := NewMemoryMapBroker(node, MemoryMapBrokerConfig{})
	if err != nil {
		t.Fatal(err)
	}
	e.mb = &c22MapBroker{MemoryMapBroker: mmb, g0: map[string]func(){}, g1: map[string]func(){}, g2: map[string]func(){}, node: node, drop: map[string]bool{}}
	node.SetMapBroker(e.mb)
	node.OnConnect(func(client *Client) {
		client.OnSubscribe(func(ev SubscribeEvent, cb SubscribeCallback) {
			e.mu.Lock()
			o := e.subOpts[ev.Channel]
			e.mu.Unlock()
			cb(SubscribeReply{Options: o}, nil)
		})
	})
	if err := node.Run(); err != nil {
		t.Fatal(err)
	}
	e.node = node
	return e
}

// ---------------------------------------------------------------- scenario

const c22K = 6

type c22Change struct {
	Off uint64 `json:"off"`
	Key int    `json:"key"`
	Val uint64 `json:"val"` // 0 = removal
}

type c22Scn struct {
	e      *c22Env
	r      *rand.Rand
	ch     string
	syncCh string
	client *Client
	tr     *testTransport
	sink   chan []byte
	nsync  int
	bad    string
	vis    [c22K]bool
	filter bool
	size   int
	limit  int
	tlimit int
	// ground truth recorded from the results of the successful writes
	nextVal   uint64
	clears    int
	epochIdx  map[string]int
	log       []c22Change // changes of the current epoch
	oldLogs   map[int][]c22Change // changes of the epochs before a clear (by epoch index)
	// reference client
	cmap      map[int]uint64
	phase     string // fresh | pages | stream | live | told-unrecoverable | told-insufficient | told-permission
	cursor    string
	coff      uint64
	cep       string
	cepKnown  bool
	// outputs
	events []string
	jev    []string
	obs    []string
	rchk   []string
	nWin           int
	noWindows      bool
	forceG1        []c22W // corpus: exactly these writer operations right before the transition's stream read
	winClear       bool   // a clear happened inside a request window
	nLost          int    // writer ops whose delivery to the node was lost while the subscription was live
	drift          bool   // the broker's stream lacks a change of the ground truth
	eph            bool   // ephemeral (streamless) channel: oracle-only scenario
	defaults       bool   // channel options leave the auto-derived fields (StreamSize, ...) at their defaults
	falseRecovered bool
	sawTrim, sawErr, sawPages, sawStream, sawRecover bool
}

func c22KeyName(k int) string { return fmt.Sprintf("k%d", k) }
func c22KeyOf(s string) int {
	var k int
	_, _ = fmt.Sscanf(s, "k%d", &k)
	return k
}
func c22Data(v uint64) []byte { return []byte(fmt.Sprintf(`{"v":%d}`, v)) }
func c22ValOf(b []byte) uint64 {
	var d struct {
		V uint64 `json:"v"`
	}
	_ = json.Unmarshal(b, &d)
	return d.V
}

func (s *c22Scn) tags(k int) map[string]string {
	if s.vis[k] {
		return map[string]string{"vis": "1"}
	}
	return map[string]string{"vis": "0"}
}

func (s *c22Scn) epoch(e string) int {
	if idx, ok := s.epochIdx[e]; ok {
		return idx
	}
	s.epochIdx[e] = s.clears
	return s.clears
}

func (s *c22Scn) connect() {
	tr := newTestTransport(func() {})
	tr.setProtocolVersion(ProtocolVersion2)
	s.sink = make(chan []byte, 4096)
	tr.setSink(s.sink)
	s.tr = tr
	s.client = newTestClientCustomTransport(s.e.t, context.Background(), s.e.node, tr, "u")
	connectClientV2(s.e.t, s.client)
	s.e.mu.Lock()
	s.e.subOpts[s.syncCh] = SubscribeOptions{}
	s.e.mu.Unlock()
	rw := testReplyWriterWrapper()
	if err := s.client.handleSubscribe(&protocol.SubscribeRequest{Channel: s.syncCh}, &protocol.Command{Id: 1}, time.Now(), rw.rw); err != nil {
		s.bad = "sync subscribe: " + err.Error()
	}
}

func (s *c22Scn) close() {
	_ = s.client.close(DisconnectForceNoReconnect)
	s.e.mu.Lock()
	delete(s.e.subOpts, s.ch)
	delete(s.e.subOpts, s.syncCh)
	delete(s.e.mapOpts, s.ch)
	s.e.mu.Unlock()
}

type c22Got struct {
	pubs  []*protocol.Publication
	unsub bool
}

func (s *c22Scn) drain() c22Got {
	var got c22Got
	s.nsync++
	want := fmt.Sprintf(`{"sync":%d}`, s.nsync)
	// the sync channel is a plain stream channel served by the default memory broker
	if _, err := s.e.node.Publish(s.syncCh, []byte(want)); err != nil {
		s.bad = "sync publish: " + err.Error()
		return got
	}
	deadline := time.After(5 * time.Second)
	for {
		select {
		case msg := <-s.sink:
			rep, err := protocol.NewJSONReplyDecoder(msg).Decode()
			if err != nil || rep.Push == nil {
				continue
			}
			if rep.Push.Channel == s.syncCh && rep.Push.Pub != nil {
				if string(rep.Push.Pub.Data) == want {
					return got
				}
				continue
			}
			if rep.Push.Channel == s.ch {
				if rep.Push.Pub != nil {
					got.pubs = append(got.pubs, rep.Push.Pub)
				}
				if rep.Push.Unsubscribe != nil {
					got.unsub = true
				}
			}
		case <-deadline:
			s.bad = "sync sentinel not received"
			return got
		}
	}
}

func (s *c22Scn) subscribed() bool {
	s.client.mu.RLock()
	defer s.client.mu.RUnlock()
	ctx, ok := s.client.channels[s.ch]
	return ok && channelHasFlag(ctx.flags, flagSubscribed)
}

func (s *c22Scn) serverPos() (uint64, string) {
	s.client.mu.RLock()
	defer s.client.mu.RUnlock()
	sp := s.client.channels[s.ch].streamPosition
	return sp.Offset, sp.Epoch
}

// ---------------------------------------------------------------- writer operations (real broker)

type c22W struct {
	kind string // pub | rem | expire-key | expire-stream | clear
	key  int
}

func (s *c22Scn) genW() c22W {
	x := s.r.Intn(100)
	switch {
	case x < 62:
		return c22W{"pub", s.r.Intn(c22K)}
	case x < 80:
		return c22W{"rem", s.r.Intn(c22K)}
	case x < 88:
		return c22W{"expire-key", s.r.Intn(c22K)}
	case x < 96:
		return c22W{"expire-stream", 0}
	default:
		return c22W{"clear", 0}
	}
}

// performs the op on the real broker; returns its Coq term
func (s *c22Scn) doW(w c22W, inGate bool) string {
	ctx := context.Background()
	h := s.e.mb.mapHub
	// an epoch created by a read of the node (channel absent after a clear) and not yet seen in a reply
	// is numbered now, before a clear of this operation could change the count
	h.RLock()
	if channel, ok := h.channels[s.ch]; ok && channel.stream != nil {
		s.epoch(channel.stream.Epoch())
	}
	h.RUnlock()
	switch w.kind {
	case "pub":
		s.nextVal++
		v := s.nextVal
		res, err := s.e.mb.Publish(ctx, s.ch, c22KeyName(w.key), MapPublishOptions{Data: c22Data(v), Tags: s.tags(w.key)})
		if err != nil || res.Suppressed {
			s.bad = fmt.Sprintf("publish: %v", err)
		}
		s.epoch(res.Position.Epoch)
		s.log = append(s.log, c22Change{res.Position.Offset, w.key, v})
		if res.Position.Offset != uint64(len(s.log)) && !s.drift {
			s.bad = fmt.Sprintf("publish offset %d, expected %d", res.Position.Offset, len(s.log))
		}
		s.jev = append(s.jev, fmt.Sprintf("  pub k%d=%d off=%d", w.key, v, res.Position.Offset))
		return vApp("WPub", vNat(w.key), vN(v))
	case "rem":
		res, err := s.e.mb.Remove(ctx, s.ch, c22KeyName(w.key), MapRemoveOptions{})
		if err != nil {
			s.bad = "remove: " + err.Error()
		}
		if !res.Suppressed {
			s.epoch(res.Position.Epoch)
			s.log = append(s.log, c22Change{res.Position.Offset, w.key, 0})
		}
		s.jev = append(s.jev, fmt.Sprintf("  rem k%d suppressed=%v off=%d", w.key, res.Suppressed, res.Position.Offset))
		return vApp("WRem", vNat(w.key))
	case "expire-key":
		// KeyTTL of this key elapses: make its deadline pass, then run one iteration of the broker's own
		// expiry loop (what its 1-second timer does)
		h.Lock()
		present := false
		if channel, ok := h.channels[s.ch]; ok {
			if entry, ok := channel.state[c22KeyName(w.key)]; ok {
				present = true
				past := time.Now().UnixMilli() - 1000
				entry.ExpireAt = past
				chKey := h.makeChKey(s.ch, c22KeyName(w.key))
				h.keyExpires[chKey] = past
				heap.Push(&h.keyExpireQueue, &priority.Item{Value: chKey, Priority: past})
				h.nextKeyExpireCheck = past
			}
		}
		h.Unlock()
		if present {
			var next int64
			h.expireKeysIteration(&next)
			h.RLock()
			var off uint64
			if channel, ok := h.channels[s.ch]; ok && channel.stream != nil {
				off = channel.stream.Top()
				if _, still := channel.state[c22KeyName(w.key)]; still {
					s.bad = "key did not expire"
				}
			}
			h.RUnlock()
			s.log = append(s.log, c22Change{off, w.key, 0})
			if off != uint64(len(s.log)) {
				// the removal of an expired key is a change like any other and belongs into the stream; when
				// the broker did not append it the ground truth keeps it - the oracle judges the recovery
				s.drift = true
				s.jev = append(s.jev, fmt.Sprintf("  (stream top %d after the expiry, the change log has %d changes)", off, len(s.log)))
			}
		}
		s.jev = append(s.jev, fmt.Sprintf("  key-expiry k%d present=%v", w.key, present))
		return vApp("WRem", vNat(w.key))
	case "expire-stream":
		// StreamTTL elapses: exactly what mapHub.expireStreams does for the channel
		h.Lock()
		delete(h.expires, s.ch)
		if channel, ok := h.channels[s.ch]; ok && channel.stream != nil {
			channel.stream.Clear()
		}
		h.Unlock()
		s.jev = append(s.jev, "  stream-expiry")
		return "WExpireStream"
	default:
		if err := s.e.mb.Clear(ctx, s.ch, MapClearOptions{}); err != nil {
			s.bad = "clear: " + err.Error()
		}
		if s.oldLogs == nil {
			s.oldLogs = map[int][]c22Change{}
		}
		s.oldLogs[s.clears] = s.log
		s.clears++
		s.log = nil
		s.jev = append(s.jev, "  clear")
		return "WClear"
	}
}

// ---------------------------------------------------------------- observables

func c22CoqEntries(ps []*protocol.Publication) string {
	xs := make([]string, len(ps))
	for i, p := range ps {
		xs[i] = "(" + vNat(c22KeyOf(p.Key)) + ", " + vNat(int(p.Offset)) + ", " + vN(c22ValOf(p.Data)) + ")"
	}
	return vList(xs)
}

func c22CoqPub(off uint64, key int, val uint64) string {
	return "(" + vNat(int(off)) + ", " + vNat(key) + ", " + vOpt(vN(val), val != 0) + ")"
}

func c22CoqPubs(ps []*protocol.Publication) string {
	xs := make([]string, len(ps))
	for i, p := range ps {
		v := uint64(0)
		if !p.Removed {
			v = c22ValOf(p.Data)
		}
		xs[i] = c22CoqPub(p.Offset, c22KeyOf(p.Key), v)
	}
	return vList(xs)
}

func (s *c22Scn) applyEntries(ps []*protocol.Publication) {
	for _, p := range ps {
		s.cmap[c22KeyOf(p.Key)] = c22ValOf(p.Data)
	}
}

func (s *c22Scn) applyPubs(ps []*protocol.Publication) {
	for _, p := range ps {
		if p.Removed {
			delete(s.cmap, c22KeyOf(p.Key))
		} else {
			s.cmap[c22KeyOf(p.Key)] = c22ValOf(p.Data)
		}
	}
}

// ---------------------------------------------------------------- the client's next request

func (s *c22Scn) doRequest() {
	req := &protocol.SubscribeRequest{Channel: s.ch, Type: int32(SubscriptionTypeMap), Limit: int32(s.limit)}
	if s.filter {
		req.Tf = &protocol.FilterNode{Key: "vis", Cmp: "eq", Val: "1"}
	}
	wasPhase := s.phase
	var fromOff uint64
	var fromKnown bool
	switch s.phase {
	case "live":
		return
	case "pages":
		req.Phase, req.Cursor, req.Offset, req.Epoch = MapPhaseState, s.cursor, s.coff, s.cep
	case "stream":
		req.Phase, req.Offset, req.Epoch = MapPhaseStream, s.coff, s.cep
	case "told-insufficient":
		req.Phase, req.Recover, req.Offset, req.Epoch = MapPhaseLive, true, s.coff, s.cep
		fromOff, fromKnown = s.coff, true
		s.sawRecover = true
	default: // fresh, told-unrecoverable, told-permission: start over
		req.Phase = MapPhaseState
	}
	// writer operations inside the windows of this request (they only happen if the code path opens the window)
	var g0, g1, g2 []string
	// A clear (new epoch) may land inside a window too. In the window after the stream read nothing follows
	// a clear: publications of a NEW epoch buffered next to an accepted read of the old one are outside
	// the model (its buffer only holds same-epoch publications).
	arm := func(dst *[]string, n int, afterRead, tailClear bool) func() {
		return func() {
			for j := 0; j < n; j++ {
				w := s.genW()
				if tailClear && j == n-1 {
					w = c22W{"clear", 0}
				}
				*dst = append(*dst, s.doW(w, true))
				if w.kind == "clear" {
					s.winClear = true
					if afterRead {
						break
					}
				}
			}
		}
	}
	pick := func() int {
		if s.noWindows {
			return 0
		}
		switch s.r.Intn(5) {
		case 0:
			return 1 + s.r.Intn(2)
		case 1:
			return 3 + s.r.Intn(4)
		default:
			return 0
		}
	}
	n0, n1, n2 := pick(), pick(), pick()
	// a clear as the LAST thing before a read leaves the channel absent at the read: the broker then answers
	// from a freshly created stream, only the node can notice the new epoch
	tail0 := n0 > 0 && s.r.Intn(8) == 0
	tail1 := !s.noWindows && s.r.Intn(10) == 0
	if tail1 && n1 == 0 {
		n1 = 1 + s.r.Intn(2)
	}
	s.e.mb.mu.Lock()
	if req.Phase == MapPhaseState && n0 > 0 {
		s.e.mb.g0[s.ch] = arm(&g0, n0, false, tail0)
	}
	if n1 > 0 {
		s.e.mb.g1[s.ch] = arm(&g1, n1, false, tail1)
	}
	if n2 > 0 {
		s.e.mb.g2[s.ch] = arm(&g2, n2, true, false)
	}
	if ops := s.forceG1; ops != nil {
		s.forceG1 = nil
		s.e.mb.g1[s.ch] = func() {
			for _, w := range ops {
				g1 = append(g1, s.doW(w, true))
				if w.kind == "clear" {
					s.winClear = true
				}
			}
		}
	}
	s.e.mb.mu.Unlock()
	s.jev = append(s.jev, fmt.Sprintf("request phase=%d cursor=%q off=%d recover=%v", req.Phase, req.Cursor, req.Offset, req.Recover))
	rw := testReplyWriterWrapper()
	err := s.client.handleSubscribe(req, &protocol.Command{Id: 2}, time.Now(), rw.rw)
	s.e.mb.mu.Lock()
	delete(s.e.mb.g0, s.ch)
	delete(s.e.mb.g1, s.ch)
	delete(s.e.mb.g2, s.ch)
	s.e.mb.mu.Unlock()
	if len(g0)+len(g1)+len(g2) > 0 {
		s.nWin++
	}
	s.events = append(s.events, vApp("EvReq", vList(g0), vList(g1), vList(g2)))
	var perr *protocol.Error
	var res *protocol.SubscribeResult
	disc := false
	if err != nil {
		if ce, ok := err.(*Error); ok {
			perr = &protocol.Error{Code: ce.Code}
		} else {
			disc = true
		}
	} else if len(rw.replies) == 0 {
		disc = true
		select {
		case <-s.tr.closeCh:
		case <-time.After(2 * time.Second):
			s.bad = "no reply and no disconnect"
		}
	} else if rw.replies[0].Error != nil {
		perr = rw.replies[0].Error
	} else {
		res = rw.replies[0].Subscribe
	}
	switch {
	case disc:
		// DisconnectInsufficientState: the connection is closed; a new one is opened and recovers
		s.obs = append(s.obs, vApp("BErr", "1%nat"))
		if wasPhase == "told-insufficient" {
			s.phase = "told-insufficient"
		} else {
			s.phase = "told-unrecoverable" // no live subscription before: start over
		}
		s.sawErr = true
		s.jev = append(s.jev, "  -> disconnect (insufficient state)")
		s.reconnect()
	case perr != nil:
		code := -1
		switch perr.Code {
		case ErrorUnrecoverablePosition.Code:
			code, s.phase = 0, "told-unrecoverable"
		case ErrorPermissionDenied.Code:
			code, s.phase = 2, "told-permission"
		default:
			s.bad = fmt.Sprintf("unexpected error reply %d %s", perr.Code, perr.Message)
		}
		s.obs = append(s.obs, vApp("BErr", vNat(code)))
		s.sawErr = true
		s.jev = append(s.jev, fmt.Sprintf("  -> error %d", perr.Code))
	case res.Phase == MapPhaseState:
		fresh := wasPhase != "pages"
		if fresh {
			s.cmap = map[int]uint64{}
			s.coff, s.cep = res.Offset, res.Epoch
		}
		s.applyEntries(res.State)
		cur := "None"
		if res.Cursor != "" {
			cur = vOpt(vNat(c22KeyOf(res.Cursor)), true)
			s.phase, s.cursor = "pages", res.Cursor
			s.sawPages = true
		} else {
			s.phase = "stream"
		}
		s.obs = append(s.obs, vApp("BState", c22CoqEntries(res.State), cur, vNat(int(res.Offset)), vNat(s.epoch(res.Epoch))))
		s.jev = append(s.jev, fmt.Sprintf("  -> state page entries=%d cursor=%q off=%d", len(res.State), res.Cursor, res.Offset))
	case res.Phase == MapPhaseStream:
		s.applyPubs(res.Publications)
		s.coff, s.cep = res.Offset, res.Epoch
		s.phase = "stream"
		s.sawStream = true
		s.obs = append(s.obs, vApp("BStream", c22CoqPubs(res.Publications), vNat(int(res.Offset)), vNat(s.epoch(res.Epoch))))
		s.jev = append(s.jev, fmt.Sprintf("  -> stream page pubs=%d off=%d", len(res.Publications), res.Offset))
	default: // live
		fresh := wasPhase == "fresh" || wasPhase == "told-unrecoverable" || wasPhase == "told-permission"
		if fresh {
			s.cmap = map[int]uint64{}
		}
		s.applyEntries(res.State)
		s.applyPubs(res.Publications)
		if res.Recovered {
			// everything visible after the position the client gave must have been delivered
			var exp []string
			// (the epoch of the reply may already be a past one: a clear after the transition's stream read)
			if idx := s.epoch(res.Epoch); fromKnown && (idx == s.clears || s.oldLogs[idx] != nil) {
				elog := s.log
				if idx != s.clears {
					elog = s.oldLogs[idx]
				}
				for _, c := range elog {
					if c.Off > fromOff && c.Off <= res.Offset && s.vis[c.Key] {
						exp = append(exp, c22CoqPub(c.Off, c.Key, c.Val))
					}
				}
			}
			s.rchk = append(s.rchk, vApp("mkR", c22CoqPubs(res.Publications), vList(exp)))
			if c22CoqPubs(res.Publications) != vList(exp) {
				s.falseRecovered = true
			}
		}
		s.coff, s.cep = res.Offset, res.Epoch
		s.phase = "live"
		s.obs = append(s.obs, vApp("BLive", c22CoqEntries(res.State), c22CoqPubs(res.Publications), vNat(int(res.Offset)),
			vNat(s.epoch(res.Epoch)), vBool(res.Recovered)))
		s.jev = append(s.jev, fmt.Sprintf("  -> live entries=%d pubs=%d off=%d recovered=%v", len(res.State), len(res.Publications), res.Offset, res.Recovered))
	}
}

// After a Clear the channel is absent in the memory broker until the next access re-creates it (new
// epoch). An intermediate stream PAGE request that finds it absent gets an empty page carrying the new
// epoch (the memory broker answers a missing channel with a fresh position, not an error) and only the
// request after that is refused; the model has no notion of an absent channel, there the refusal
// comes at once. The driver keeps this one path out of the correspondence: a clear between two
// requests of the stream phase is followed by a position probe of some other reader.
func (s *c22Scn) touch() {
	_, _ = s.e.mb.MemoryMapBroker.ReadStream(context.Background(), s.ch, MapReadStreamOptions{Filter: StreamFilter{Limit: 0}})
	s.jev = append(s.jev, "  (position probe by another reader)")
}

func (s *c22Scn) reconnect() {
	select {
	case <-s.tr.closeCh:
	case <-time.After(2 * time.Second):
	}
	s.connect()
}

// a writer op between requests; while live its broadcast is observed
func (s *c22Scn) doEvW() {
	w := s.genW()
	live := s.phase == "live"
	// an insufficient-state unsubscribe is due exactly when a publication carries another epoch than the
	// subscription's (publish after a clear); it is issued from a goroutine
	expectUnsub := false
	if live && w.kind == "pub" {
		_, ep := s.serverPos()
		expectUnsub = s.epochIdx[ep] != s.clears
	}
	// ... or when an earlier delivery was lost: the next publication that arrives shows an offset gap
	gapBefore := false
	if live {
		off, ep := s.serverPos()
		gapBefore = !s.drift && s.epochIdx[ep] == s.clears && off < uint64(len(s.log))
	}
	nlog := len(s.log)
	term := s.doW(w, false)
	if gapBefore && len(s.log) > nlog {
		expectUnsub = true
	}
	s.events = append(s.events, vApp("EvW", term))
	if w.kind == "clear" && s.phase == "stream" {
		s.touch()
	}
	if !live {
		s.obs = append(s.obs, "BNone")
		return
	}
	if w.kind == "clear" || w.kind == "expire-stream" {
		s.obs = append(s.obs, "BNone")
		return
	}
	got := s.drain()
	if expectUnsub {
		for i := 0; i < 400 && !got.unsub; i++ {
			time.Sleep(5 * time.Millisecond)
			got2 := s.drain()
			got.pubs = append(got.pubs, got2.pubs...)
			got.unsub = got.unsub || got2.unsub
		}
		if !got.unsub || s.subscribed() {
			s.bad = "publication of another epoch but no unsubscribe"
		}
	}
	s.applyPubs(got.pubs)
	for _, p := range got.pubs {
		s.coff = p.Offset
	}
	if got.unsub {
		s.phase = "told-insufficient"
		s.sawErr = true
		s.jev = append(s.jev, "  (server unsubscribed the client)")
	}
	s.obs = append(s.obs, vApp("BPushes", c22CoqPubs(got.pubs), vBool(got.unsub)))
}

// fault: a writer op whose PUB/SUB delivery never reaches the node (the broker is at-most-once)
func (s *c22Scn) doEvLose() {
	w := s.genW()
	if w.kind == "clear" || w.kind == "expire-stream" {
		w = c22W{"pub", s.r.Intn(c22K)}
	}
	s.e.mb.mu.Lock()
	s.e.mb.drop[s.ch] = true
	s.e.mb.mu.Unlock()
	nlog := len(s.log)
	term := s.doW(w, false)
	s.e.mb.mu.Lock()
	delete(s.e.mb.drop, s.ch)
	s.e.mb.mu.Unlock()
	s.events = append(s.events, vApp("EvLose", term))
	s.obs = append(s.obs, "BNone")
	if len(s.log) > nlog {
		s.jev = append(s.jev, "  (its delivery to the node is LOST)")
		if s.phase == "live" {
			s.nLost++
		}
	}
	if s.phase == "live" {
		if got := s.drain(); len(got.pubs) > 0 || got.unsub {
			s.bad = "push although the delivery was dropped"
		}
	}
}

func (s *c22Scn) doCheck() {
	s.events = append(s.events, "EvCheck")
	if s.phase != "live" {
		s.obs = append(s.obs, "BNone")
		return
	}
	s.client.mu.RLock()
	chCtx := s.client.channels[s.ch]
	s.client.mu.RUnlock()
	valid := s.client.checkPosition(-10*time.Second, s.ch, chCtx)
	s.jev = append(s.jev, fmt.Sprintf("position check valid=%v", valid))
	if valid {
		s.obs = append(s.obs, "BNone")
		return
	}
	// what the periodic loop does with an invalid position of a client-side subscription
	s.client.handleAsyncUnsubscribe(s.ch, unsubscribeInsufficientState)
	got := s.drain()
	if !got.unsub || s.subscribed() {
		s.bad = "invalid position but no unsubscribe"
	}
	s.phase = "told-insufficient"
	s.sawErr = true
	s.obs = append(s.obs, vApp("BPushes", "[]", "true"))
}

func (s *c22Scn) doDrop() {
	s.events = append(s.events, "EvDrop")
	s.obs = append(s.obs, "BNone")
	if s.phase != "live" {
		return
	}
	rw := testReplyWriterWrapper()
	if err := s.client.handleUnsubscribe(&protocol.UnsubscribeRequest{Channel: s.ch}, &protocol.Command{Id: 3}, time.Now(), rw.rw); err != nil {
		s.bad = "unsubscribe: " + err.Error()
	}
	s.phase = "told-insufficient"
	s.jev = append(s.jev, "drop (will come back with recovery)")
}

// probe: which trim detection the tree has (a recovery from a saved offset 0 whose beginning was trimmed)
func (e *c22Env) probe() {
	s := &c22Scn{e: e, r: rand.New(rand.NewSource(7)), ch: "c22probe", syncCh: "c22probe_sync", epochIdx: map[string]int{}, cmap: map[int]uint64{},
		phase: "fresh", size: 2, limit: 3, tlimit: 1000}
	for k := range s.vis {
		s.vis[k] = true
	}
	e.mu.Lock()
	e.mapOpts[s.ch] = MapChannelOptions{Mode: MapModeRecoverable, KeyTTL: 600 * time.Second, MinPageSize: 1, StreamSize: 2}
	e.subOpts[s.ch] = SubscribeOptions{Type: SubscriptionTypeMap, AllowTagsFilter: true}
	e.mu.Unlock()
	s.connect()
	s.doRequestPlain() // live on the empty channel at offset 0
	s.doDrop()
	for i := 0; i < 4; i++ {
		s.doW(c22W{"pub", i}, false)
	}
	s.doRequestPlain() // recovery from offset 0: offsets 1..2 are gone
	e.fx = s.phase != "live"
	s.close()
}

// ---------------------------------------------------------------- test

func TestVerifC22(t *testing.T) {
	w := verifOpen(t, "C22")
	defer w.Close()
	e := c22NewEnv(t)
	defer func() { _ = e.node.Shutdown(context.Background()) }()
	e.probe()
	w.Extra["probe_fx"] = e.fx
	for i := 0; i < w.N; i++ {
		if !w.Want(i) {
			continue
		}
		r := w.Rand(i)
		s := &c22Scn{e: e, r: r, ch: fmt.Sprintf("c22_%d", i), syncCh: fmt.Sprintf("c22sync_%d", i), epochIdx: map[string]int{},
			cmap: map[int]uint64{}, phase: "fresh"}
		s.filter = r.Intn(3) == 0
		for k := range s.vis {
			s.vis[k] = !s.filter || r.Intn(3) != 0
		}
		s.size = 1 + r.Intn(4)
		if r.Intn(3) == 0 {
			s.size = 100
		}
		s.limit = 1 + r.Intn(3)
		if r.Intn(4) == 0 {
			s.limit = 100
		}
		s.tlimit = 1000
		mo := MapChannelOptions{Mode: MapModeRecoverable, KeyTTL: 600 * time.Second, MinPageSize: 1, StreamSize: s.size}
		if r.Intn(6) == 0 {
			s.tlimit = 2 + r.Intn(3)
			mo.LiveTransitionMaxPublicationLimit = s.tlimit
		}
		if s.size == 100 && r.Intn(2) == 0 {
			// rely on the documented auto-derived defaults (StreamSize 100, StreamTTL, MetaTTL)
			mo.StreamSize = 0
			s.defaults = true
			if s.limit == 100 {
				mo.MinPageSize = 0
			}
		}
		s.eph = i%9 == 8 || i == 5
		if s.eph {
			mo = MapChannelOptions{Mode: MapModeEphemeral, KeyTTL: 600 * time.Second, MinPageSize: 1}
			s.defaults = false
		}
		e.mu.Lock()
		e.mapOpts[s.ch] = mo
		e.subOpts[s.ch] = SubscribeOptions{Type: SubscriptionTypeMap, AllowTagsFilter: true}
		e.mu.Unlock()
		s.connect()
		var forced []string
		switch i {
		case 0: // corpus: saved position 0, beginning of the stream trimmed
			s.size, s.limit = 2, 3
			e.mu.Lock()
			e.mapOpts[s.ch] = MapChannelOptions{Mode: MapModeRecoverable, KeyTTL: 600 * time.Second, MinPageSize: 1, StreamSize: 2}
			e.mu.Unlock()
			s.filter = false
			for k := range s.vis {
				s.vis[k] = true
			}
			forced = []string{"req", "drop", "pub0", "pub1", "pub2", "pub3", "req", "check"}
		case 1: // corpus: stream expired while the client was away
			s.size, s.limit = 100, 3
			e.mu.Lock()
			e.mapOpts[s.ch] = MapChannelOptions{Mode: MapModeRecoverable, KeyTTL: 600 * time.Second, MinPageSize: 1, StreamSize: 100}
			e.mu.Unlock()
			s.filter = false
			for k := range s.vis {
				s.vis[k] = true
			}
			forced = []string{"pub0", "req", "drop", "pub1", "pub0", "expire-stream", "req", "check"}
		case 2: // corpus: the channel is cleared between the state read and the stream read of one state->live request
			s.size, s.limit = 100, 100
			e.mu.Lock()
			e.mapOpts[s.ch] = MapChannelOptions{Mode: MapModeRecoverable, KeyTTL: 600 * time.Second, MinPageSize: 1, StreamSize: 100}
			e.mu.Unlock()
			s.filter = false
			for k := range s.vis {
				s.vis[k] = true
			}
			forced = []string{"pub0", "pub1", "pub2", "req-clear-before-stream-read", "check", "req", "check"}
		case 3: // corpus: same, the last page of a paginated state phase
			s.size, s.limit = 100, 2
			e.mu.Lock()
			e.mapOpts[s.ch] = MapChannelOptions{Mode: MapModeRecoverable, KeyTTL: 600 * time.Second, MinPageSize: 1, StreamSize: 100}
			e.mu.Unlock()
			s.filter = false
			for k := range s.vis {
				s.vis[k] = true
			}
			forced = []string{"pub0", "pub1", "pub2", "req", "req-clear-before-stream-read", "check", "req", "req", "check"}
		case 4: // corpus: options with every auto-derived field left at its default; a key expires while the client is away
			s.size, s.limit, s.defaults = 100, 100, true
			e.mu.Lock()
			e.mapOpts[s.ch] = MapChannelOptions{Mode: MapModeRecoverable, KeyTTL: 600 * time.Second}
			e.mu.Unlock()
			s.filter = false
			for k := range s.vis {
				s.vis[k] = true
			}
			forced = []string{"pub0", "pub1", "pub2", "req", "drop", "expire-key0", "pub1", "req", "check"}
		}
		if s.eph {
			s.runEphemeral(i == 5)
		} else if forced != nil {
			for _, f := range forced {
				switch {
				case f == "req":
					s.doRequestPlain()
				case f == "req-clear-before-stream-read":
					s.forceG1 = []c22W{{"clear", 0}}
					s.doRequestPlain()
				case f == "drop":
					s.doDrop()
				case f == "check":
					s.doCheck()
				case len(f) > 10 && f[:10] == "expire-key":
					var k int
					_, _ = fmt.Sscanf(f, "expire-key%d", &k)
					s.events = append(s.events, vApp("EvW", s.doW(c22W{"expire-key", k}, false)))
					s.obs = append(s.obs, "BNone")
				case f == "expire-stream" || f == "clear":
					s.events = append(s.events, vApp("EvW", s.doW(c22W{f, 0}, false)))
					s.obs = append(s.obs, "BNone")
				default:
					var k int
					_, _ = fmt.Sscanf(f, "pub%d", &k)
					s.events = append(s.events, vApp("EvW", s.doW(c22W{"pub", k}, false)))
					s.obs = append(s.obs, "BNone")
				}
			}
		} else {
			// some initial content
			for j := r.Intn(8); j > 0; j-- {
				w := s.genW()
				if w.kind != "pub" && w.kind != "rem" {
					w.kind = "pub"
				}
				s.events = append(s.events, vApp("EvW", s.doW(w, false)))
				s.obs = append(s.obs, "BNone")
			}
			n := 8 + r.Intn(18)
			for j := 0; j < n && s.bad == ""; j++ {
				x := r.Intn(100)
				switch {
				case s.phase != "live" && x < 55:
					s.doRequest()
				case s.phase == "live" && x < 12:
					s.doDrop()
				case s.phase == "live" && x < 20:
					s.doCheck()
				case s.phase == "live" && x < 27:
					s.doEvLose()
				default:
					s.doEvW()
				}
			}
			// quiescence: let the client finish its protocol run, then a position check
			for j := 0; j < 12 && s.phase != "live" && s.bad == ""; j++ {
				s.doRequestPlain()
			}
			s.doCheck()
		}
		// final comparison material
		told := s.phase != "live"
		var ck []int
		for k := range s.cmap {
			ck = append(ck, k)
		}
		sort.Ints(ck)
		var ckv []string
		for _, k := range ck {
			ckv = append(ckv, vPair(vNat(k), vN(s.cmap[k])))
		}
		st, err := e.mb.MemoryMapBroker.ReadState(context.Background(), s.ch, MapReadStateOptions{Limit: -1})
		if err != nil {
			s.bad = "final ReadState: " + err.Error()
		}
		bm := map[int]uint64{}
		for _, p := range st.Publications {
			bm[c22KeyOf(p.Key)] = c22ValOf(p.Data)
		}
		var bk []int
		for k := range bm {
			bk = append(bk, k)
		}
		sort.Ints(bk)
		var bkv []string
		for _, k := range bk {
			bkv = append(bkv, vPair(vNat(k), vN(bm[k])))
		}
		var visKeys []string
		for k := range s.vis {
			if s.vis[k] {
				visKeys = append(visKeys, vNat(k))
			}
		}
		s.close()
		class := "map-sub"
		if s.filter {
			class += "+filter"
		}
		if s.sawPages {
			class += "+pages"
		}
		if s.sawStream {
			class += "+stream"
		}
		if s.sawRecover {
			class += "+recover"
		}
		if s.nWin > 0 {
			class += "+windows"
		}
		if s.winClear {
			class += "+clear-in-window"
		}
		if s.nLost > 0 {
			class += "+lost-delivery"
		}
		if s.defaults {
			class += "+default-options"
		}
		if s.eph {
			class = "map-sub-ephemeral" + class[len("map-sub"):]
		}
		if s.sawErr {
			class += "+told"
		}
		if told {
			class += "/ends-told"
		}
		// classification of a failure for the known-findings key (the oracle itself is evaluated in Coq)
		finding := ""
		if !told {
			for k := 0; k < c22K; k++ {
				bv, bok := bm[k]
				cv, cok := s.cmap[k]
				if !s.vis[k] {
					bok = false
				}
				if bok != cok || (bok && bv != cv) {
					finding = "map-stream-loss-undetected"
					if s.winClear {
						finding = "map-clear-inside-request-undetected"
					}
					if s.eph {
						finding = "map-ephemeral-epoch-change-undetected"
					}
				}
			}
		}
		if s.falseRecovered {
			finding = "map-stream-loss-undetected"
		}
		if s.bad != "" {
			t.Errorf("case %d (%s): driver problem: %s", i, class, s.bad)
			class += "/driver-problem"
		}
		term := vApp("mkCase", vBool(e.fx), vNat(c22K), vList(visKeys), vNat(s.tlimit), vNat(s.size), vNat(s.limit),
			vList(s.events), vList(s.obs), vBool(told), vList(ckv), vList(bkv), vList(s.rchk))
		w.Case(i, term, map[string]any{"class": class, "script": s.jev, "size": s.size, "limit": s.limit, "tlimit": s.tlimit,
			"vis": s.vis, "client": s.cmap, "broker": bm, "told": told, "finding": finding}, class,
			(s.sawPages || s.sawStream || s.sawRecover) && len(s.events) >= 8)
	}
}

// ---------------------------------------------------------------- ephemeral (streamless) channels
//
// Oracle-only (no events are handed to the model, which is the positioned protocol): state pages, then
// live; no stream, no recovery. A change to a key the client has already paged is lost by design of this
// mode, so writers between two pages only touch keys AFTER the cursor - or clear the channel (and
// re-populate it), which the next page must refuse (new epoch). While live every change is pushed.
func (s *c22Scn) ephWrite(kind string, key int) {
	ctx := context.Background()
	h := s.e.mb.mapHub
	switch kind {
	case "pub":
		s.nextVal++
		res, err := s.e.mb.Publish(ctx, s.ch, c22KeyName(key), MapPublishOptions{Data: c22Data(s.nextVal), Tags: s.tags(key)})
		if err != nil || res.Suppressed {
			s.bad = fmt.Sprintf("publish: %v", err)
		}
		s.jev = append(s.jev, fmt.Sprintf("  pub k%d=%d", key, s.nextVal))
	case "rem":
		res, err := s.e.mb.Remove(ctx, s.ch, c22KeyName(key), MapRemoveOptions{})
		if err != nil {
			s.bad = "remove: " + err.Error()
		}
		s.jev = append(s.jev, fmt.Sprintf("  rem k%d suppressed=%v", key, res.Suppressed))
	case "expire-key":
		h.Lock()
		present := false
		if channel, ok := h.channels[s.ch]; ok {
			if entry, ok := channel.state[c22KeyName(key)]; ok {
				present = true
				past := time.Now().UnixMilli() - 1000
				entry.ExpireAt = past
				chKey := h.makeChKey(s.ch, c22KeyName(key))
				h.keyExpires[chKey] = past
				heap.Push(&h.keyExpireQueue, &priority.Item{Value: chKey, Priority: past})
				h.nextKeyExpireCheck = past
			}
		}
		h.Unlock()
		if present {
			var next int64
			h.expireKeysIteration(&next)
		}
		s.jev = append(s.jev, fmt.Sprintf("  key-expiry k%d present=%v", key, present))
	case "clear":
		if err := s.e.mb.Clear(ctx, s.ch, MapClearOptions{}); err != nil {
			s.bad = "clear: " + err.Error()
		}
		s.clears++
		s.jev = append(s.jev, "  clear")
	}
}

func (s *c22Scn) ephKind() string {
	switch x := s.r.Intn(100); {
	case x < 65:
		return "pub"
	case x < 88:
		return "rem"
	default:
		return "expire-key"
	}
}

func (s *c22Scn) runEphemeral(corpus bool) {
	first := true
	var cursor, epoch string
	var offset uint64
	request := func() {
		req := &protocol.SubscribeRequest{Channel: s.ch, Type: int32(SubscriptionTypeMap), Limit: int32(s.limit), Phase: MapPhaseState}
		if s.filter {
			req.Tf = &protocol.FilterNode{Key: "vis", Cmp: "eq", Val: "1"}
		}
		if !first {
			req.Cursor, req.Offset, req.Epoch = cursor, offset, epoch
		}
		s.jev = append(s.jev, fmt.Sprintf("request cursor=%q off=%d first=%v", req.Cursor, req.Offset, first))
		rw := testReplyWriterWrapper()
		err := s.client.handleSubscribe(req, &protocol.Command{Id: 2}, time.Now(), rw.rw)
		switch {
		case err != nil:
			if _, ok := err.(*Error); !ok {
				s.reconnect()
			}
			first, s.phase = true, "told-unrecoverable"
			s.sawErr = true
			s.jev = append(s.jev, fmt.Sprintf("  -> error %v", err))
		case len(rw.replies) == 0:
			s.reconnect()
			first, s.phase = true, "told-unrecoverable"
			s.sawErr = true
			s.jev = append(s.jev, "  -> disconnect")
		case rw.replies[0].Error != nil:
			first, s.phase = true, "told-unrecoverable"
			s.sawErr = true
			s.jev = append(s.jev, fmt.Sprintf("  -> error %d", rw.replies[0].Error.Code))
		default:
			res := rw.replies[0].Subscribe
			if first {
				s.cmap = map[int]uint64{}
				epoch, offset = res.Epoch, res.Offset
			}
			s.applyEntries(res.State)
			s.applyPubs(res.Publications)
			if res.Phase == MapPhaseLive {
				s.phase, first = "live", true
				s.jev = append(s.jev, fmt.Sprintf("  -> live entries=%d pubs=%d", len(res.State), len(res.Publications)))
			} else {
				s.phase, first, cursor = "pages", false, res.Cursor
				s.sawPages = true
				s.jev = append(s.jev, fmt.Sprintf("  -> state page entries=%d cursor=%q", len(res.State), res.Cursor))
			}
		}
	}
	liveWrite := func() {
		s.ephWrite(s.ephKind(), s.r.Intn(c22K))
		got := s.drain()
		s.applyPubs(got.pubs)
		if got.unsub {
			s.phase, first = "told-unrecoverable", true
		}
	}
	if corpus {
		// the channel is cleared and re-populated between two state pages
		s.filter, s.limit = false, 2
		for k := range s.vis {
			s.vis[k] = true
		}
		for k := 0; k < 4; k++ {
			s.ephWrite("pub", k)
		}
		request()
		s.ephWrite("clear", 0)
		s.winClear = true
		for k := 3; k < 6; k++ {
			s.ephWrite("pub", k)
		}
	} else {
		if s.limit > 3 {
			s.limit = 1 + s.r.Intn(3)
		}
		for j := 2 + s.r.Intn(6); j > 0; j-- {
			s.ephWrite("pub", s.r.Intn(c22K))
		}
		n := 8 + s.r.Intn(14)
		for j := 0; j < n && s.bad == ""; j++ {
			x := s.r.Intn(100)
			switch {
			case s.phase == "live" && x < 15:
				// the client leaves; an ephemeral channel has no recovery: it subscribes from scratch later
				rw := testReplyWriterWrapper()
				_ = s.client.handleUnsubscribe(&protocol.UnsubscribeRequest{Channel: s.ch}, &protocol.Command{Id: 3}, time.Now(), rw.rw)
				s.phase, first = "fresh", true
				s.jev = append(s.jev, "unsubscribe")
			case s.phase == "live":
				liveWrite()
			case x < 55:
				request()
			case s.phase == "pages" && x < 70:
				s.ephWrite("clear", 0)
				s.winClear = true
				for q := s.r.Intn(4); q > 0; q-- {
					s.ephWrite("pub", s.r.Intn(c22K))
				}
			case s.phase == "pages":
				// only keys after the cursor: the pages still to come reflect the change
				if c := c22KeyOf(cursor); c+1 < c22K {
					s.ephWrite(s.ephKind(), c+1+s.r.Intn(c22K-c-1))
				}
			default:
				kind := s.ephKind()
				if s.r.Intn(12) == 0 {
					kind = "clear"
				}
				s.ephWrite(kind, s.r.Intn(c22K))
			}
		}
	}
	for j := 0; j < 12 && s.phase != "live" && s.bad == ""; j++ {
		request()
	}
}

// a request without writer operations in its windows
func (s *c22Scn) doRequestPlain() {
	s.noWindows = true
	s.doRequest()
	s.noWindows = false
}
