package centrifuge

// C41 driver: Node.Survey on a real node with a recording Controller. Surveys run on goroutines; the local
// survey handler is a gate (it reports to the driver and waits for its instruction); remote responses are
// injected through Node.HandleControl in an order chosen by the driver; contexts are cancelled by the
// driver (virtual deadline).

import (
	"context"
	"math/rand"
	"runtime"
	"sort"
	"strconv"
	"sync"
	"testing"
	"time"

	"github.com/centrifugal/centrifuge/internal/controlpb"
)

type c41Controller struct {
	mu    sync.Mutex
	count int
}

func (c *c41Controller) RegisterControlEventHandler(ControlEventHandler) error { return nil }
func (c *c41Controller) PublishControl(_ []byte, _, _ string) error {
	c.mu.Lock()
	c.count++
	c.mu.Unlock()
	return nil
}

type c41Gate struct {
	called chan SurveyCallback // the handler reports its callback
	resume chan bool           // driver: true = reply now (synchronously), false = just return
	done   chan struct{}       // the handler is about to return (its synchronous reply, if any, has been sent)
}

var c41Hook struct {
	mu   sync.Mutex
	gate *c41Gate
	val  uint32
}

type c41Survey struct {
	abs       uint64
	num       int
	cancel    context.CancelFunc
	done      chan c41Result
	cb        SurveyCallback // pending local reply
	localVal  uint32
	handling  bool
	got       map[string]bool
	returned  bool
	cancelled bool
}

type c41Result struct {
	res map[string]SurveyResult
	err error
	at  time.Time
}

type c41Ev struct {
	K      string      `json:"k"`
	ID     int         `json:"id,omitempty"`
	Num    int         `json:"num,omitempty"`
	UID    uint64      `json:"uid,omitempty"`
	V      uint64      `json:"v,omitempty"`
	Local  *uint64     `json:"local,omitempty"`
	Res    [][2]uint64 `json:"res,omitempty"`
	Err    bool        `json:"err,omitempty"`
	Prompt bool        `json:"prompt,omitempty"`
}

type c41Run struct {
	n       *Node
	base    uint64
	svs     []*c41Survey
	evs     []c41Ev
	coq     []string
	blocked bool
	nret    int
	dups    int
	late    int
	leaked  int
}

func c41UID(n *Node, uid string) uint64 {
	switch {
	case uid == n.uid:
		return 0
	case len(uid) == 2 && uid[0] == 'n':
		return uint64(uid[1] - '0')
	}
	return 9
}

func (c *c41Run) log(e c41Ev, term string) {
	c.evs = append(c.evs, e)
	c.coq = append(c.coq, term)
}

func (c *c41Run) chanLen(abs uint64) int {
	c.n.surveyMu.RLock()
	ch, ok := c.n.surveyRegistry[abs]
	c.n.surveyMu.RUnlock()
	if !ok {
		return 0
	}
	return len(ch)
}

func (c *c41Run) waitDrain(s *c41Survey) {
	if s.handling || s.returned {
		return
	}
	deadline := time.Now().Add(2 * time.Second)
	for c.chanLen(s.abs) > 0 && time.Now().Before(deadline) {
		time.Sleep(20 * time.Microsecond)
	}
}

// afterInput: the survey may have become complete: then it must return promptly.
func (c *c41Run) afterInput(k int) {
	s := c.svs[k]
	if s.returned || s.handling {
		return
	}
	c.waitDrain(s)
	if len(s.got) >= s.num || s.cancelled {
		c.expectReturn(k)
	}
}

func (c *c41Run) expectReturn(k int) {
	s := c.svs[k]
	var r c41Result
	prompt := true
	select {
	case r = <-s.done:
	case <-time.After(2 * time.Second):
		prompt = false
		s.cancel()
		r = <-s.done
	}
	s.returned = true
	c.nret++
	var res [][2]uint64
	for uid, v := range r.res {
		res = append(res, [2]uint64{c41UID(c.n, uid), uint64(v.Code)})
	}
	sort.Slice(res, func(i, j int) bool { return res[i][0] < res[j][0] })
	xs := make([]string, len(res))
	for i, p := range res {
		xs[i] = vPair(vN(p[0]), vN(p[1]))
	}
	c.log(c41Ev{K: "return", ID: k + 1, Res: res, Err: r.err != nil, Prompt: prompt},
		vApp("SReturn", vNat(k+1), vList(xs), vBool(r.err != nil), vBool(prompt)))
}

func (c *c41Run) start(r *rand.Rand, remotes int) { c.startMode(r, remotes, -1, -1) }

// startMode: target < 0 / mode < 0 = draw them at random
func (c *c41Run) startMode(r *rand.Rand, remotes int, target int, forcedMode int) {
	k := len(c.svs)
	ctx, cancel := context.WithCancel(context.Background())
	s := &c41Survey{abs: c.base + uint64(k) + 1, cancel: cancel, done: make(chan c41Result, 1), got: map[string]bool{}}
	c.svs = append(c.svs, s)
	to := ""
	local := true
	tsel := r.Intn(6)
	if target >= 0 {
		tsel = 5
	}
	switch tsel {
	case 0:
		to = c.n.ID() // only this node
		s.num = 1
	case 1:
		if remotes > 0 {
			to = "n1" // only one remote node: no local handler call
			s.num = 1
			local = false
		} else {
			s.num = 1 + remotes
		}
	default:
		s.num = 1 + remotes
	}
	gate := &c41Gate{called: make(chan SurveyCallback, 1), resume: make(chan bool), done: make(chan struct{}, 1)}
	s.localVal = uint32(100 + r.Intn(50))
	c41Hook.mu.Lock()
	c41Hook.gate = gate
	c41Hook.val = s.localVal
	c41Hook.mu.Unlock()
	go func() {
		res, err := c.n.Survey(ctx, "c41", nil, to)
		s.done <- c41Result{res: res, err: err}
	}()
	if local {
		select {
		case cb := <-gate.called:
			s.cb = cb
			s.handling = true
		case <-time.After(2 * time.Second):
			c.blocked = true
		}
		lv := uint64(s.localVal)
		c.log(c41Ev{K: "start", ID: k + 1, Num: s.num, Local: &lv}, vApp("SStart", vNat(s.num), vOpt(vN(lv), true)))
		mode := r.Intn(3) // 0: reply synchronously, 1: return and reply later, 2: return, reply much later or never
		if forcedMode >= 0 {
			mode = forcedMode
		}
		if mode == 0 {
			c.log(c41Ev{K: "local", ID: k + 1}, vApp("SLocal", vNat(k+1)))
			s.got[c.n.uid] = true
			s.cb = nil
			gate.resume <- true
		} else {
			gate.resume <- false
		}
		// the handler returns: the collector starts
		select {
		case <-gate.done:
		case <-time.After(2 * time.Second):
			c.blocked = true
		}
		s.handling = false
		c.log(c41Ev{K: "handlerDone", ID: k + 1}, vApp("SHandlerDone", vNat(k+1)))
		c.afterInput(k)
	} else {
		deadline := time.Now().Add(2 * time.Second)
		for time.Now().Before(deadline) {
			c.n.surveyMu.RLock()
			_, ok := c.n.surveyRegistry[s.abs]
			c.n.surveyMu.RUnlock()
			if ok {
				break
			}
			time.Sleep(20 * time.Microsecond)
		}
		c.log(c41Ev{K: "start", ID: k + 1, Num: s.num}, vApp("SStart", vNat(s.num), "None"))
	}
}

func (c *c41Run) deliver(uid string, k int, rel int, v uint32) {
	// rel: survey number within the case (1-based); may name a survey that does not exist (foreign id)
	abs := c.base + uint64(rel)
	data, _ := c.n.controlEncoder.EncodeCommand(&controlpb.Command{Uid: uid,
		SurveyResponse: &controlpb.SurveyResponse{Id: abs, Code: v}})
	ret := make(chan struct{})
	go func() { _ = c.n.HandleControl(data); close(ret) }()
	select {
	case <-ret:
	case <-time.After(2 * time.Second):
		c.blocked = true
	}
	c.log(c41Ev{K: "deliver", UID: c41UID(c.n, uid), ID: rel, V: uint64(v)},
		vApp("SDeliver", vN(c41UID(c.n, uid)), vNat(rel), vN(uint64(v))))
	if k >= 0 && k < len(c.svs) {
		s := c.svs[k]
		if !s.returned {
			if s.got[uid] {
				c.dups++
			}
			s.got[uid] = true
			c.afterInput(k)
		} else {
			c.late++
		}
	}
}

func c41Case(n *Node, r *rand.Rand) *c41Run {
	n.surveyMu.RLock()
	base := n.surveyID
	n.surveyMu.RUnlock()
	c := &c41Run{n: n, base: base}
	remotes := r.Intn(4)
	for i := 1; i <= 3; i++ {
		n.nodes.remove("n" + strconv.Itoa(i))
	}
	for i := 1; i <= remotes; i++ {
		n.nodes.add(&controlpb.Node{Uid: "n" + strconv.Itoa(i), Name: "n" + strconv.Itoa(i)})
	}
	uids := []string{"n1", "n2", "n3", "ghost"}
	steps := 5 + r.Intn(16)
	for s := 0; s < steps && !c.blocked; s++ {
		x := r.Intn(100)
		active := []int{}
		for k, sv := range c.svs {
			if !sv.returned {
				active = append(active, k)
			}
		}
		switch {
		case (x < 18 && len(active) < 3 && len(c.svs) < 5) || len(c.svs) == 0:
			c.start(r, remotes)
		case x < 75 && len(c.svs) > 0:
			// a response: mostly for an active survey from an expected node, sometimes duplicate / ghost /
			// for a finished survey (late) / for an id that was never issued (foreign)
			var k int
			y := r.Intn(10)
			switch {
			case y < 7 && len(active) > 0:
				k = active[r.Intn(len(active))]
			case y < 9:
				k = r.Intn(len(c.svs))
			default:
				k = len(c.svs) + 3 + r.Intn(3) // foreign
			}
			uid := uids[r.Intn(len(uids))]
			if remotes > 0 && r.Intn(3) != 0 {
				uid = "n" + strconv.Itoa(1+r.Intn(remotes))
			}
			kk := k
			if k >= len(c.svs) {
				kk = -1
			}
			c.deliver(uid, kk, k+1, uint32(1+r.Intn(90)))
		case x < 85 && len(active) > 0:
			// the local reply of a survey whose handler returned without replying
			k := active[r.Intn(len(active))]
			sv := c.svs[k]
			if sv.cb != nil && c.chanLen(sv.abs) < sv.num {
				cb := sv.cb
				sv.cb = nil
				c.log(c41Ev{K: "local", ID: k + 1}, vApp("SLocal", vNat(k+1)))
				cb(SurveyReply{Code: sv.localVal})
				sv.got[n.uid] = true
				c.afterInput(k)
			}
		case x < 95 && len(active) > 0:
			k := active[r.Intn(len(active))]
			sv := c.svs[k]
			c.waitDrain(sv)
			sv.cancelled = true
			c.log(c41Ev{K: "cancel", ID: k + 1}, vApp("SCancel", vNat(k+1)))
			sv.cancel()
			c.expectReturn(k)
		}
	}
	// end: cancel what is still running
	for k, sv := range c.svs {
		if !sv.returned {
			c.waitDrain(sv)
			sv.cancelled = true
			c.log(c41Ev{K: "cancel", ID: k + 1}, vApp("SCancel", vNat(k+1)))
			sv.cancel()
			c.expectReturn(k)
		}
	}
	// a few late responses after everything returned
	if len(c.svs) > 0 && r.Intn(2) == 0 {
		k := r.Intn(len(c.svs))
		c.deliver(uids[r.Intn(len(uids))], k, k+1, uint32(1+r.Intn(90)))
	}
	for _, sv := range c.svs {
		sv.cancel()
	}
	return c
}

// ---- stress class: no waiting for the collector between injections ----
// With GOMAXPROCS(1) a burst of HandleControl calls made by the driver goroutine runs before the collector
// goroutine is scheduled, so which responses fit into the survey's channel is decided by its capacity.

func (c *c41Run) rawDeliver(uid string, rel int, v uint32) {
	data, _ := c.n.controlEncoder.EncodeCommand(&controlpb.Command{Uid: uid,
		SurveyResponse: &controlpb.SurveyResponse{Id: c.base + uint64(rel), Code: v}})
	_ = c.n.HandleControl(data)
	c.log(c41Ev{K: "deliverND", UID: c41UID(c.n, uid), ID: rel, V: uint64(v)},
		vApp("SDeliverND", vN(c41UID(c.n, uid)), vNat(rel), vN(uint64(v))))
}

func (c *c41Run) stalled(k int) bool {
	s := c.svs[k]
	select {
	case r := <-s.done:
		s.done <- r
		return false
	case <-time.After(300 * time.Millisecond):
		return true
	}
}

// A: duplicates of one node fill the channel, the genuine answer of the last node is dropped.
func c41StressDup(n *Node, r *rand.Rand) *c41Run {
	n.surveyMu.RLock()
	base := n.surveyID
	n.surveyMu.RUnlock()
	c := &c41Run{n: n, base: base}
	for i := 1; i <= 3; i++ {
		n.nodes.remove("n" + strconv.Itoa(i))
	}
	remotes := 1 + r.Intn(2)
	for i := 1; i <= remotes; i++ {
		n.nodes.add(&controlpb.Node{Uid: "n" + strconv.Itoa(i), Name: "n" + strconv.Itoa(i)})
	}
	old := runtime.GOMAXPROCS(1)
	defer runtime.GOMAXPROCS(old)
	c.startMode(r, remotes, 0, 0) // to all nodes, local handler replies synchronously
	sv := c.svs[0]
	if sv.returned {
		return c
	}
	c.waitDrain(sv)
	time.Sleep(200 * time.Microsecond) // the collector is parked in its select
	// every remote node but the last answers, the first of them several times; then the last one answers
	dups := sv.num + r.Intn(3)
	for j := 0; j < dups; j++ {
		c.rawDeliver("n1", 1, uint32(10+j))
	}
	for i := 2; i <= remotes; i++ {
		c.rawDeliver("n"+strconv.Itoa(i), 1, uint32(50+i))
	}
	c.log(c41Ev{K: "yield", ID: 1}, vApp("SYield", vNat(1)))
	c.dups += dups - 1
	// every expected node has answered now
	if c.stalled(0) {
		c.log(c41Ev{K: "stall", ID: 1}, vApp("SStall", vNat(1)))
		sv.cancelled = true
		c.log(c41Ev{K: "cancel", ID: 1}, vApp("SCancel", vNat(1)))
		sv.cancel()
	}
	c.expectReturn(0)
	return c
}

// B: the collector stops (context done) while the channel is full; the local handler replies afterwards.
func c41StressLateLocal(n *Node, r *rand.Rand) *c41Run {
	n.surveyMu.RLock()
	base := n.surveyID
	n.surveyMu.RUnlock()
	c := &c41Run{n: n, base: base}
	for i := 1; i <= 3; i++ {
		n.nodes.remove("n" + strconv.Itoa(i))
	}
	n.nodes.add(&controlpb.Node{Uid: "n1", Name: "n1"})
	old := runtime.GOMAXPROCS(1)
	defer runtime.GOMAXPROCS(old)
	c.startMode(r, 1, 0, 1) // to all nodes (numNodes = 2), the local handler returns without replying
	sv := c.svs[0]
	time.Sleep(200 * time.Microsecond)
	n.surveyMu.RLock()
	ch := n.surveyRegistry[sv.abs]
	n.surveyMu.RUnlock()
	// the remote node answers three times (the first answer is handed to the parked collector, two fill the
	// channel) and the deadline passes, all before the collector runs again
	c.rawDeliver("n1", 1, 21)
	c.rawDeliver("n1", 1, 22)
	c.rawDeliver("n1", 1, 23)
	sv.cancelled = true
	c.log(c41Ev{K: "cancel", ID: 1}, vApp("SCancel", vNat(1)))
	sv.cancel()
	res := <-sv.done
	sv.done <- res
	left := len(ch)
	c.log(c41Ev{K: "collected", ID: 1, Num: 2 - left}, vApp("SCollected", vNat(1), vNat(2-left))) // besides the direct hand-off
	c.expectReturn(0)
	// the late local reply
	cb := sv.cb
	sv.cb = nil
	finished := make(chan struct{})
	go func() { cb(SurveyReply{Code: sv.localVal}); close(finished) }()
	select {
	case <-finished:
		c.log(c41Ev{K: "local", ID: 1}, vApp("SLocal", vNat(1)))
	case <-time.After(300 * time.Millisecond):
		c.log(c41Ev{K: "localBlocked", ID: 1, Num: left}, vApp("SLocalBlocked", vNat(1)))
		c.leaked++
	}
	c.late++
	return c
}

// ---- the library's own default deadline ----
// Surveys called with context.Background() while a node stays silent: termination must come from
// defaultSurveyTimeout (a constant, 10 s; the derived context is not visible to the handler or the
// Controller, so the only way to observe it is to wait). The surveys of this class are started before
// the other cases and collected after them, so the wait overlaps with the rest of the run.

type c41BGSurvey struct {
	num   int
	done  chan c41Result
	start time.Time
}

type c41BG struct {
	n   *Node
	svs []*c41BGSurvey
	evs []c41Ev
	coq []string
}

type c41BGMode struct {
	reply bool
	val   uint32
}

func (b *c41BG) log(e c41Ev, term string) {
	b.evs = append(b.evs, e)
	b.coq = append(b.coq, term)
}

func c41StartDefaultDeadline(t *testing.T) *c41BG {
	n, err := New(Config{LogLevel: LogLevelNone})
	if err != nil {
		t.Fatal(err)
	}
	n.SetController(&c41Controller{})
	modeCh := make(chan c41BGMode, 1)
	called := make(chan struct{}, 1)
	n.OnSurvey(func(ev SurveyEvent, cb SurveyCallback) {
		m := <-modeCh
		if m.reply {
			cb(SurveyReply{Code: m.val})
		}
		called <- struct{}{}
	})
	if err := n.Run(); err != nil {
		t.Fatal(err)
	}
	n.nodes.add(&controlpb.Node{Uid: "n1", Name: "n1"})
	n.nodes.add(&controlpb.Node{Uid: "n2", Name: "n2"})
	b := &c41BG{n: n}
	type spec struct {
		to       string
		num      int
		local    bool
		reply    bool
		delivers []string
	}
	specs := []spec{
		{"", 3, true, true, []string{"n1"}},       // one remote answers, the other stays silent
		{"n1", 1, false, false, nil},              // the only surveyed node is silent
		{n.ID(), 1, true, false, nil},             // the local handler never replies
		{"", 3, true, true, []string{"n1", "n1"}}, // duplicates of one node, the other silent
	}
	for k, sp := range specs {
		sv := &c41BGSurvey{num: sp.num, done: make(chan c41Result, 1), start: time.Now()}
		b.svs = append(b.svs, sv)
		id := k + 1
		val := uint32(110 + k)
		if sp.local {
			modeCh <- c41BGMode{reply: sp.reply, val: val}
		}
		to := sp.to
		go func() {
			// a context WITHOUT deadline: the library must apply its own
			res, err := n.Survey(context.Background(), "c41bg", nil, to)
			sv.done <- c41Result{res: res, err: err, at: time.Now()}
		}()
		if sp.local {
			lv := uint64(val)
			select {
			case <-called:
			case <-time.After(2 * time.Second):
			}
			b.log(c41Ev{K: "start", ID: id, Num: sp.num, Local: &lv}, vApp("SStart", vNat(sp.num), vOpt(vN(lv), true)))
			if sp.reply {
				b.log(c41Ev{K: "local", ID: id}, vApp("SLocal", vNat(id)))
			}
			b.log(c41Ev{K: "handlerDone", ID: id}, vApp("SHandlerDone", vNat(id)))
		} else {
			deadline := time.Now().Add(2 * time.Second)
			for time.Now().Before(deadline) {
				n.surveyMu.RLock()
				_, ok := n.surveyRegistry[uint64(id)]
				n.surveyMu.RUnlock()
				if ok {
					break
				}
				time.Sleep(20 * time.Microsecond)
			}
			b.log(c41Ev{K: "start", ID: id, Num: sp.num}, vApp("SStart", vNat(sp.num), "None"))
		}
		for j, uid := range sp.delivers {
			v := uint32(20 + 10*k + j)
			data, _ := n.controlEncoder.EncodeCommand(&controlpb.Command{Uid: uid,
				SurveyResponse: &controlpb.SurveyResponse{Id: uint64(id), Code: v}})
			_ = n.HandleControl(data)
			b.log(c41Ev{K: "deliver", UID: c41UID(n, uid), ID: id, V: uint64(v)},
				vApp("SDeliver", vN(c41UID(n, uid)), vNat(id), vN(uint64(v))))
			// let the collector drain
			deadline := time.Now().Add(2 * time.Second)
			for time.Now().Before(deadline) {
				n.surveyMu.RLock()
				ch := n.surveyRegistry[uint64(id)]
				n.surveyMu.RUnlock()
				if len(ch) == 0 {
					break
				}
				time.Sleep(20 * time.Microsecond)
			}
		}
	}
	return b
}

// finish waits for the library's default deadline of every survey of the class.
func (b *c41BG) finish() (hung int) {
	for k, sv := range b.svs {
		id := k + 1
		limit := sv.start.Add(defaultSurveyTimeout + 20*time.Second)
		var r c41Result
		got := false
		select {
		case r = <-sv.done:
			got = true
		default:
			select {
			case r = <-sv.done:
				got = true
			case <-time.After(time.Until(limit)):
			}
		}
		if got {
			elapsed := r.at.Sub(sv.start)
			b.log(c41Ev{K: "defaultDeadline", ID: id}, vApp("SDefaultDeadline", vNat(id)))
			var res [][2]uint64
			for uid, v := range r.res {
				res = append(res, [2]uint64{c41UID(b.n, uid), uint64(v.Code)})
			}
			sort.Slice(res, func(i, j int) bool { return res[i][0] < res[j][0] })
			xs := make([]string, len(res))
			for i, p := range res {
				xs[i] = vPair(vN(p[0]), vN(p[1]))
			}
			// not before the default deadline (nothing else can end these surveys), and soon after it
			prompt := elapsed >= defaultSurveyTimeout-200*time.Millisecond && elapsed <= defaultSurveyTimeout+20*time.Second
			b.log(c41Ev{K: "return", ID: id, Res: res, Err: r.err != nil, Prompt: prompt, V: uint64(elapsed / time.Millisecond)},
				vApp("SReturn", vNat(id), vList(xs), vBool(r.err != nil), vBool(prompt)))
		} else {
			hung++
			b.log(c41Ev{K: "hang", ID: id}, vApp("SHang", vNat(id)))
		}
	}
	go func() { _ = b.n.Shutdown(context.Background()) }()
	return hung
}

const c41BGIndex = 2

func TestVerifC41(t *testing.T) {
	w := verifOpen(t, "C41")
	defer w.Close()
	n, err := New(Config{LogLevel: LogLevelNone})
	if err != nil {
		t.Fatal(err)
	}
	n.SetController(&c41Controller{})
	n.OnSurvey(func(ev SurveyEvent, cb SurveyCallback) {
		c41Hook.mu.Lock()
		g := c41Hook.gate
		v := c41Hook.val
		c41Hook.mu.Unlock()
		if g == nil {
			cb(SurveyReply{Code: v})
			return
		}
		g.called <- cb
		if <-g.resume {
			cb(SurveyReply{Code: v})
		}
		g.done <- struct{}{}
	})
	if err := n.Run(); err != nil {
		t.Fatal(err)
	}
	defer func() { _ = n.Shutdown(context.Background()) }()
	var bgc *c41BG
	if w.N > c41BGIndex && w.Want(c41BGIndex) {
		bgc = c41StartDefaultDeadline(t)
	}
	blockedRuns := 0
	leaked := 0
	for i := 0; i < w.N; i++ {
		if !w.Want(i) || i == c41BGIndex {
			continue
		}
		if blockedRuns > 3 {
			w.Extra["aborted_after_blocked_calls"] = true
			break
		}
		r := w.Rand(i)
		var c *c41Run
		class := ""
		switch {
		case i%40 == 5:
			c = c41StressDup(n, r)
			class = "stress/duplicates-fill-channel"
		case i%40 == 25:
			c = c41StressLateLocal(n, r)
			class = "stress/late-local-reply"
			leaked += c.leaked
		default:
			c = c41Case(n, r)
			class = "surveys=" + strconv.Itoa(len(c.svs))
		}
		if c.blocked {
			class += "/blocked"
			blockedRuns++
		}
		term := vApp("mkCase", vList(c.coq))
		fkey := "none"
		switch class {
		case "stress/duplicates-fill-channel":
			fkey = "duplicates-fill-survey-channel"
		case "stress/late-local-reply":
			fkey = "late-local-reply-blocks"
		}
		w.Case(i, term, map[string]any{"events": c.evs, "blocked": c.blocked, "fkey": fkey}, class,
			c.nret >= 1 && (c.dups > 0 || c.late > 0 || len(c.svs) >= 2))
	}
	if bgc != nil {
		hung := bgc.finish()
		w.Case(c41BGIndex, vApp("mkCase", vList(bgc.coq)), map[string]any{"events": bgc.evs, "hung": hung}, "default-deadline", true)
		w.Extra["default_deadline_surveys_hung"] = hung
	}
	w.Extra["blocked_runs"] = blockedRuns
	w.Extra["late_local_reply_goroutines_blocked"] = leaked
}
