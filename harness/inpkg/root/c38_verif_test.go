package centrifuge

// C38 driver: the real channelMedium (real publicationQueue, broadcastPublication, broadcast,
// waitSendPub with its coalescing loop, CheckPosition with rate limit and retry, close) against
// a recording nodeSubset.  The writer goroutine is not started: the driver calls waitSendPub
// itself (what the goroutine's loop body does), so writer iterations happen at schedule-chosen
// points; with BroadcastDelay the timer is 1ns (it has fired by the time it is read).
// Time is virtual (channelMedium.nowFn).
//
// End-to-end cases (CE2E): C01's driver world (c01_verif_test.go: real Node, wrapped MemoryBroker
// with driver-held PUB/SUB tokens, real Client, recording Transport, the subscribe goroutine
// parked at its natural gates) with a channel medium configured for the channel: publications
// travel Node.HandlePublication -> real channelMedium -> hub -> Client; the "mark" op makes the
// medium detect a position loss through a real Node.checkPosition and broadcast its marker; in
// queue mode the medium's real writer goroutine and BroadcastDelay run in real time; a prior
// subscriber of another connection leaves the channel's dissolve job pending.

import (
	"errors"
	"fmt"
	"math"
	"math/rand"
	"strings"
	"testing"
	"time"
)

type c38Node struct {
	out     []string // Coq qitem terms
	sizes   map[uint64]int
	answers []int // streamTop script: 0 error, 1 = client's position, 2 = another position
	pos     StreamPosition
}

func (n *c38Node) handlePublication(ch string, sp StreamPosition, pub, prevPub *Publication, localPrevPub *Publication) error {
	if pub.Offset == math.MaxUint64 {
		n.out = append(n.out, "QInsuff")
	} else {
		n.out = append(n.out, fmt.Sprintf("(QPub %d %d)", pub.Offset, len(pub.Data)))
	}
	return nil
}
func (n *c38Node) streamTop(ch string, _ time.Duration) (StreamPosition, error) {
	a := 0
	if len(n.answers) > 0 {
		a, n.answers = n.answers[0], n.answers[1:]
	}
	switch a {
	case 1:
		return n.pos, nil
	case 2:
		return StreamPosition{Offset: n.pos.Offset + 7, Epoch: n.pos.Epoch}, nil
	}
	return StreamPosition{}, errors.New("c38: history unavailable")
}
func (n *c38Node) mapStreamTop(ch string) (StreamPosition, error) { return n.streamTop(ch, 0) }

type c38Op struct {
	K     string `json:"k"` // pub | writer | check | close
	Size  int    `json:"size,omitempty"`
	Dt    uint64 `json:"dt,omitempty"`    // virtual time advance before the step (ns)
	Delay uint64 `json:"delay,omitempty"` // check: checkDelay (ns)
	R1    int    `json:"r1,omitempty"`    // check: first streamTop answer
	R2    int    `json:"r2,omitempty"`
}

type c38Script struct {
	Queue bool    `json:"queue"`
	Max   int     `json:"max"`
	Delay bool    `json:"delay"`
	Keep  bool    `json:"keep"`
	Ops   []c38Op `json:"ops"`
}

func c38Ans(a int) string {
	switch a {
	case 1:
		return "(Some true)"
	case 2:
		return "(Some false)"
	}
	return "None"
}

func c38Run(sc *c38Script) (sched, out, res []string, left int, closed bool, errs []string) {
	node := &c38Node{pos: StreamPosition{Offset: 5, Epoch: "e"}}
	now := uint64(1_000_000)
	opts := ChannelMediumOptions{KeepLatestPublication: sc.Keep, enableQueue: sc.Queue, queueMaxSize: sc.Max}
	if sc.Delay {
		opts.broadcastDelay = time.Nanosecond
	}
	m := &channelMedium{channel: "c38", node: node, options: opts, closeCh: make(chan struct{})}
	m.nowFn = func() time.Time { return time.Unix(0, int64(now)) }
	m.positionCheckTime = m.nowFn().UnixNano()
	if sc.Queue {
		m.messages = newPublicationQueue(2)
	}
	off := uint64(0)
	for _, op := range sc.Ops {
		now += op.Dt
		switch op.K {
		case "pub":
			off++
			m.broadcastPublication(&Publication{Offset: off, Data: make([]byte, op.Size)}, StreamPosition{Offset: off, Epoch: "e"}, false, nil)
			sched = append(sched, fmt.Sprintf("(MBroadcast %d %d %d)", off, op.Size, now))
			res = append(res, "None")
		case "writer":
			if !sc.Queue || closed || m.messages.Len() == 0 {
				continue // the goroutine would be parked in Wait()
			}
			d := time.Duration(0)
			if sc.Delay {
				d = time.Nanosecond
			}
			m.waitSendPub(d)
			sched = append(sched, "MWriter")
			res = append(res, "None")
		case "check":
			node.answers = []int{op.R1, op.R2}
			ok := m.CheckPosition(0, node.pos, time.Duration(op.Delay))
			sched = append(sched, fmt.Sprintf("(MCheck %d %d %s %s)", now, op.Delay, c38Ans(op.R1), c38Ans(op.R2)))
			res = append(res, "(Some "+vBool(ok)+")")
		case "close":
			if closed {
				continue
			}
			m.close()
			closed = true
			sched = append(sched, "MClose")
			res = append(res, "None")
		}
	}
	if sc.Queue {
		left = m.messages.Len()
	}
	if !closed {
		m.close()
	}
	return sched, node.out, res, left, closed, errs
}

func c38RandScript(r *rand.Rand) *c38Script {
	sc := &c38Script{Queue: r.Intn(4) != 0, Keep: r.Intn(2) == 0}
	if sc.Queue {
		sc.Delay = r.Intn(2) == 0
		if r.Intn(3) == 0 {
			sc.Max = 1 + r.Intn(12)
		}
	}
	n := 2 + r.Intn(14)
	for k := 0; k < n; k++ {
		x := r.Intn(100)
		switch {
		case x < 45:
			sc.Ops = append(sc.Ops, c38Op{K: "pub", Size: r.Intn(6), Dt: uint64(r.Intn(50))})
		case x < 72:
			sc.Ops = append(sc.Ops, c38Op{K: "writer"})
		case x < 95:
			sc.Ops = append(sc.Ops, c38Op{K: "check", Dt: uint64(r.Intn(200)), Delay: uint64(r.Intn(150)), R1: r.Intn(3), R2: r.Intn(3)})
		default:
			sc.Ops = append(sc.Ops, c38Op{K: "close"})
		}
	}
	if r.Intn(3) != 0 { // usually let the writer drain what is left
		for k := 0; k < 6; k++ {
			sc.Ops = append(sc.Ops, c38Op{K: "writer"})
		}
	}
	return sc
}

// scripts for the end-to-end cases: no recovery, no batching, no offset-less publication before the
// subscribe finished and nothing between the server-side commit and push (C01's and C10's
// recorded findings live there; they are not this property's subject)
func c38E2EOps(r *rand.Rand, n int, jl bool, live bool) []c01Op {
	ops := c01RandOps(r, n, jl)
	for i := range ops {
		if ops[i].K == "pub0" && !live {
			ops[i] = c01Op{K: "pub", F: ops[i].F, Size: 100}
		}
	}
	return ops
}

func c38E2EScript(r *rand.Rand) *c01Script {
	sc := &c01Script{Medium: true, NoFilter: r.Intn(3) != 0, Pos: r.Intn(2) == 0, JL: r.Intn(2) == 0}
	switch r.Intn(5) {
	case 0:
		sc.Server = true
	case 1:
		sc.Connect = true
	}
	sc.Phase = make([][]c01Op, 9)
	sc.Phase[0] = c38E2EOps(r, r.Intn(5), sc.JL, false)
	top := 5
	if sc.Server {
		top = 3
	}
	for k := 1; k <= top; k++ {
		sc.Phase[k] = c38E2EOps(r, r.Intn(3), sc.JL, false)
	}
	live := c38E2EOps(r, 1+r.Intn(8), sc.JL, true)
	for k := 0; k < r.Intn(3); k++ {
		at := r.Intn(len(live) + 1)
		live = append(live[:at:at], append([]c01Op{{K: "mark"}}, live[at:]...)...)
	}
	sc.Phase[6] = live
	if r.Intn(4) == 0 {
		sc.Unsub = 1 + r.Intn(2)
		sc.Phase[7] = append(c38E2EOps(r, r.Intn(3), sc.JL, true), c01Op{K: "mark"})
	}
	if r.Intn(8) == 0 {
		sc.Close = true
		sc.Phase[8] = c38E2EOps(r, r.Intn(3), sc.JL, true)
	}
	return sc
}

// queue mode with a real BroadcastDelay, optionally with a pending dissolve job of an earlier
// subscriber (slow: real time)
func c38DelayScript(r *rand.Rand) *c01Script {
	sc := &c01Script{Medium: true, NoFilter: true, JL: r.Intn(2) == 0, MediumDelayMs: 1150 + r.Intn(200), Resub: r.Intn(4) != 0}
	sc.Phase = make([][]c01Op, 9)
	sc.Phase[6] = []c01Op{c01P(false), c01D(0)}
	if r.Intn(2) == 0 {
		sc.Phase[6] = append(sc.Phase[6], c01P(false), c01D(0))
	}
	return sc
}

func c38E2ECorpus() []*c01Script {
	P, D := c01P, c01D
	M := c01Op{K: "mark"}
	J := c01Op{K: "join"}
	return []*c01Script{
		// the marker ends a positioned subscription and is invisible to a plain one
		{Medium: true, NoFilter: true, Pos: true, Phase: c01Phases(map[int][]c01Op{0: c01Ops(P(false), D(0)), 6: c01Ops(P(false), D(0), M, P(false), D(0))})},
		{Medium: true, NoFilter: true, JL: true, Phase: c01Phases(map[int][]c01Op{6: c01Ops(P(false), D(0), M, J, D(0), P(false), D(0))})},
		{Medium: true, NoFilter: true, Server: true, Pos: true, Phase: c01Phases(map[int][]c01Op{6: c01Ops(P(false), D(0), M, P(false), D(0))})},
		{Medium: true, NoFilter: true, Connect: true, Phase: c01Phases(map[int][]c01Op{2: c01Ops(P(false), D(0)), 6: c01Ops(M, P(false), D(0), M)})},
		// a gap behind the medium is still detected by the positioned subscription
		{Medium: true, Pos: true, Phase: c01Phases(map[int][]c01Op{6: c01Ops(P(false), P(false), c01Op{K: "drop", I: 0}, D(0), P(false), D(0))})},
		// queue + BroadcastDelay: the queued publication is delivered after the delay ...
		{Medium: true, NoFilter: true, MediumDelayMs: 300, Phase: c01Phases(map[int][]c01Op{6: c01Ops(P(false), D(0), P(false), D(0))})},
		// ... also when an earlier subscriber's dissolve job fires while it is queued
		{Medium: true, NoFilter: true, MediumDelayMs: 1200, Resub: true, Phase: c01Phases(map[int][]c01Op{6: c01Ops(P(false), D(0))})},
		{Medium: true, NoFilter: true, JL: true, MediumDelayMs: 1300, Resub: true, Phase: c01Phases(map[int][]c01Op{6: c01Ops(J, D(0), P(false), D(0), P(false), D(0))})},
	}
}

func c38RunE2E(t *testing.T, w *verifW, i int, sc *c01Script) {
	if sc.Phase == nil {
		sc.Phase = make([][]c01Op, 9)
	}
	world := c01NewWorld(t, sc)
	func() {
		defer func() {
			if e := recover(); e != nil {
				world.fail("panic: %v", e)
			}
		}()
		world.run()
	}()
	frames := world.decode()
	world.shutdown()
	class := "e2e/client"
	if sc.Server {
		class = "e2e/server"
	}
	if sc.Connect {
		class = "e2e/connect"
	}
	if sc.Pos {
		class += "/positioned"
	} else {
		class += "/plain"
	}
	if sc.MediumDelayMs > 0 {
		class += "/queue-delay"
	}
	if sc.Resub {
		class += "/after-dissolve-submit"
	}
	markers := strings.Count(strings.Join(world.sched, " "), "LMarker")
	if markers > 0 {
		class += "/marker"
	}
	if len(world.errs) > 0 {
		frames = append(frames, c01Frame{K: "unknown", Code: 999})
		class = "driver-error"
		t.Logf("case %d: %v", i, world.errs)
	}
	last := world.lastLive
	if last == "" {
		last = "None"
	}
	started, _, _, _ := c01Recv(frames)
	pushes := 0
	for _, f := range frames {
		if f.K == "pub" || f.K == "join" || f.K == "leave" {
			pushes++
		}
	}
	nontrivial := started && (pushes > 0 || markers > 0)
	w.Case(i, vApp("CE2E", world.caseTerm(frames), last), map[string]any{"script": sc, "sched": strings.Join(world.sched, " "),
		"frames": frames, "glog": world.glog, "last": last, "errors": world.errs}, class, nontrivial)
}

func TestVerifC38(t *testing.T) {
	w := verifOpen(t, "C38")
	defer w.Close()
	P := func(sz int) c38Op { return c38Op{K: "pub", Size: sz} }
	W := c38Op{K: "writer"}
	corpus := []*c38Script{
		{Ops: []c38Op{P(1), P(1), P(1)}},
		{Queue: true, Ops: []c38Op{P(1), P(1), W, W, P(1), W}},
		{Queue: true, Delay: true, Ops: []c38Op{P(1), P(1), P(1), W, P(1), W}},
		{Queue: true, Delay: true, Ops: []c38Op{P(1), P(1), {K: "check", Dt: 100, Delay: 10, R1: 2, R2: 2}, P(1), P(1), W, W}},
		{Queue: true, Max: 2, Ops: []c38Op{P(2), P(2), P(2), P(2), W, W, W, W}},
		{Queue: true, Ops: []c38Op{P(1), {K: "close"}, P(1), W}},
		{Ops: []c38Op{{K: "check", Dt: 100, Delay: 10, R1: 0, R2: 2}, {K: "check", Dt: 1, Delay: 10, R1: 2, R2: 2}, {K: "check", Dt: 100, Delay: 10, R1: 2, R2: 1}}},
		{Ops: []c38Op{{K: "check", Dt: 100, Delay: 10, R1: 0, R2: 0}, {K: "check", Dt: 100, Delay: 10, R1: 1}}},
	}
	e2e := c38E2ECorpus()
	for i := 0; i < w.N; i++ {
		if !w.Want(i) {
			continue
		}
		r := w.Rand(i)
		var sc *c38Script
		if i < len(corpus) {
			sc = corpus[i]
		} else if i < len(corpus)+len(e2e) {
			c38RunE2E(t, w, i, e2e[i-len(corpus)])
			continue
		} else {
			sc = c38RandScript(r)
			// (drawn after the medium script: the medium-only cases of a seed stay what they were)
			if x := r.Intn(200); x == 0 {
				c38RunE2E(t, w, i, c38DelayScript(r))
				continue
			} else if x < 50 {
				c38RunE2E(t, w, i, c38E2EScript(r))
				continue
			}
		}
		var sched, out, res []string
		var left int
		var closed bool
		var errs []string
		func() {
			defer func() {
				if e := recover(); e != nil {
					errs = append(errs, fmt.Sprintf("panic: %v", e))
				}
			}()
			sched, out, res, left, closed, errs = c38Run(sc)
		}()
		class := "direct"
		if sc.Queue {
			class = "queue"
			if sc.Delay {
				class += "/delay"
			}
			if sc.Max > 0 {
				class += "/bounded"
			}
		}
		if len(errs) > 0 {
			class = "driver-error"
			out = append(out, "QInsuff", "QInsuff", "QInsuff")
		}
		markers := 0
		for _, o := range out {
			if o == "QInsuff" {
				markers++
			}
		}
		nontrivial := len(out) >= 2 && (sc.Queue || markers > 0)
		term := vApp("CMed", vApp("mkMCase", vBool(sc.Queue), vN(uint64(sc.Max)), vBool(sc.Delay), vN(1_000_000),
			vList(sched), vList(out), vList(res), vN(uint64(left)), vBool(closed)))
		w.Case(i, term, map[string]any{"script": sc, "sched": strings.Join(sched, " "), "out": out, "res": res, "left": left, "closed": closed, "errors": errs}, class, nontrivial)
	}
}
