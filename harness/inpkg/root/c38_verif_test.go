package centrifuge

// C38 driver: the real channelMedium (real publicationQueue, broadcastPublication, broadcast,
// waitSendPub with its coalescing loop, CheckPosition with rate limit and retry, close) against
// a recording nodeSubset.  The writer goroutine is not started: the driver calls waitSendPub
// itself (what the goroutine's loop body does), so writer iterations happen at schedule-chosen
// points; with BroadcastDelay the timer is 1ns (it has fired by the time it is read).
// Time is virtual (channelMedium.nowFn).

import (
	"errors"
	"fmt"
	"math"
	"math/rand"
	"strings"
	"testing"
	"time"
)

type c38Node struct {
	out     []string // Coq qitem terms
	sizes   map[uint64]int
	answers []int // streamTop script: 0 error, 1 = client's position, 2 = another position
	pos     StreamPosition
}

func (n *c38Node) handlePublication(ch string, sp StreamPosition, pub, prevPub *Publication, localPrevPub *Publication) error {
	if pub.Offset == math.MaxUint64 {
		n.out = append(n.out, "QInsuff")
	} else {
		n.out = append(n.out, fmt.Sprintf("(QPub %d %d)", pub.Offset, len(pub.Data)))
	}
	return nil
}
func (n *c38Node) streamTop(ch string, _ time.Duration) (StreamPosition, error) {
	a := 0
	if len(n.answers) > 0 {
		a, n.answers = n.answers[0], n.answers[1:]
	}
	switch a {
	case 1:
		return n.pos, nil
	case 2:
		return StreamPosition{Offset: n.pos.Offset + 7, Epoch: n.pos.Epoch}, nil
	}
	return StreamPosition{}, errors.New("c38: history unavailable")
}
func (n *c38Node) mapStreamTop(ch string) (StreamPosition, error) { return n.streamTop(ch, 0) }

type c38Op struct {
	K     string `json:"k"` // pub | writer | check | close
	Size  int    `json:"size,omitempty"`
	Dt    uint64 `json:"dt,omitempty"`    // virtual time advance before the step (ns)
	Delay uint64 `json:"delay,omitempty"` // check: checkDelay (ns)
	R1    int    `json:"r1,omitempty"`    // check: first streamTop answer
	R2    int    `json:"r2,omitempty"`
}

type c38Script struct {
	Queue bool    `json:"queue"`
	Max   int     `json:"max"`
	Delay bool    `json:"delay"`
	Keep  bool    `json:"keep"`
	Ops   []c38Op `json:"ops"`
}

func c38Ans(a int) string {
	switch a {
	case 1:
		return "(Some true)"
	case 2:
		return "(Some false)"
	}
	return "None"
}

func c38Run(sc *c38Script) (sched, out, res []string, left int, closed bool, errs []string) {
	node := &c38Node{pos: StreamPosition{Offset: 5, Epoch: "e"}}
	now := uint64(1_000_000)
	opts := ChannelMediumOptions{KeepLatestPublication: sc.Keep, enableQueue: sc.Queue, queueMaxSize: sc.Max}
	if sc.Delay {
		opts.broadcastDelay = time.Nanosecond
	}
	m := &channelMedium{channel: "c38", node: node, options: opts, closeCh: make(chan struct{})}
	m.nowFn = func() time.Time { return time.Unix(0, int64(now)) }
	m.positionCheckTime = m.nowFn().UnixNano()
	if sc.Queue {
		m.messages = newPublicationQueue(2)
	}
	off := uint64(0)
	for _, op := range sc.Ops {
		now += op.Dt
		switch op.K {
		case "pub":
			off++
			m.broadcastPublication(&Publication{Offset: off, Data: make([]byte, op.Size)}, StreamPosition{Offset: off, Epoch: "e"}, false, nil)
			sched = append(sched, fmt.Sprintf("(MBroadcast %d %d %d)", off, op.Size, now))
			res = append(res, "None")
		case "writer":
			if !sc.Queue || closed || m.messages.Len() == 0 {
				continue // the goroutine would be parked in Wait()
			}
			d := time.Duration(0)
			if sc.Delay {
				d = time.Nanosecond
			}
			m.waitSendPub(d)
			sched = append(sched, "MWriter")
			res = append(res, "None")
		case "check":
			node.answers = []int{op.R1, op.R2}
			ok := m.CheckPosition(0, node.pos, time.Duration(op.Delay))
			sched = append(sched, fmt.Sprintf("(MCheck %d %d %s %s)", now, op.Delay, c38Ans(op.R1), c38Ans(op.R2)))
			res = append(res, "(Some "+vBool(ok)+")")
		case "close":
			if closed {
				continue
			}
			m.close()
			closed = true
			sched = append(sched, "MClose")
			res = append(res, "None")
		}
	}
	if sc.Queue {
		left = m.messages.Len()
	}
	if !closed {
		m.close()
	}
	return sched, node.out, res, left, closed, errs
}

func c38RandScript(r *rand.Rand) *c38Script {
	sc := &c38Script{Queue: r.Intn(4) != 0, Keep: r.Intn(2) == 0}
	if sc.Queue {
		sc.Delay = r.Intn(2) == 0
		if r.Intn(3) == 0 {
			sc.Max = 1 + r.Intn(12)
		}
	}
	n := 2 + r.Intn(14)
	for k := 0; k < n; k++ {
		x := r.Intn(100)
		switch {
		case x < 45:
			sc.Ops = append(sc.Ops, c38Op{K: "pub", Size: r.Intn(6), Dt: uint64(r.Intn(50))})
		case x < 72:
			sc.Ops = append(sc.Ops, c38Op{K: "writer"})
		case x < 95:
			sc.Ops = append(sc.Ops, c38Op{K: "check", Dt: uint64(r.Intn(200)), Delay: uint64(r.Intn(150)), R1: r.Intn(3), R2: r.Intn(3)})
		default:
			sc.Ops = append(sc.Ops, c38Op{K: "close"})
		}
	}
	if r.Intn(3) != 0 { // usually let the writer drain what is left
		for k := 0; k < 6; k++ {
			sc.Ops = append(sc.Ops, c38Op{K: "writer"})
		}
	}
	return sc
}

func TestVerifC38(t *testing.T) {
	w := verifOpen(t, "C38")
	defer w.Close()
	P := func(sz int) c38Op { return c38Op{K: "pub", Size: sz} }
	W := c38Op{K: "writer"}
	corpus := []*c38Script{
		{Ops: []c38Op{P(1), P(1), P(1)}},
		{Queue: true, Ops: []c38Op{P(1), P(1), W, W, P(1), W}},
		{Queue: true, Delay: true, Ops: []c38Op{P(1), P(1), P(1), W, P(1), W}},
		{Queue: true, Delay: true, Ops: []c38Op{P(1), P(1), {K: "check", Dt: 100, Delay: 10, R1: 2, R2: 2}, P(1), P(1), W, W}},
		{Queue: true, Max: 2, Ops: []c38Op{P(2), P(2), P(2), P(2), W, W, W, W}},
		{Queue: true, Ops: []c38Op{P(1), {K: "close"}, P(1), W}},
		{Ops: []c38Op{{K: "check", Dt: 100, Delay: 10, R1: 0, R2: 2}, {K: "check", Dt: 1, Delay: 10, R1: 2, R2: 2}, {K: "check", Dt: 100, Delay: 10, R1: 2, R2: 1}}},
		{Ops: []c38Op{{K: "check", Dt: 100, Delay: 10, R1: 0, R2: 0}, {K: "check", Dt: 100, Delay: 10, R1: 1}}},
	}
	for i := 0; i < w.N; i++ {
		if !w.Want(i) {
			continue
		}
		r := w.Rand(i)
		var sc *c38Script
		if i < len(corpus) {
			sc = corpus[i]
		} else {
			sc = c38RandScript(r)
		}
		var sched, out, res []string
		var left int
		var closed bool
		var errs []string
		func() {
			defer func() {
				if e := recover(); e != nil {
					errs = append(errs, fmt.Sprintf("panic: %v", e))
				}
			}()
			sched, out, res, left, closed, errs = c38Run(sc)
		}()
		class := "direct"
		if sc.Queue {
			class = "queue"
			if sc.Delay {
				class += "/delay"
			}
			if sc.Max > 0 {
				class += "/bounded"
			}
		}
		if len(errs) > 0 {
			class = "driver-error"
			out = append(out, "QInsuff", "QInsuff", "QInsuff")
		}
		markers := 0
		for _, o := range out {
			if o == "QInsuff" {
				markers++
			}
		}
		nontrivial := len(out) >= 2 && (sc.Queue || markers > 0)
		term := vApp("mkCase", vBool(sc.Queue), vN(uint64(sc.Max)), vBool(sc.Delay), vN(1_000_000),
			vList(sched), vList(out), vList(res), vN(uint64(left)), vBool(closed))
		w.Case(i, term, map[string]any{"script": sc, "sched": strings.Join(sched, " "), "out": out, "res": res, "left": left, "closed": closed, "errors": errs}, class, nontrivial)
	}
}
