package centrifuge

// C16 driver: publications with tag sets are pushed through every delivery path of the REAL node
// (live broadcast, stream recovery, cache recovery, map state pages, map stream pages, map live
// transition, streamless buffered) for a subscription with a server tags filter and a client tags
// filter; what the client received is decoded and reported together with the inputs each path saw
// (what the broker returned, what was broadcast inside the subscribe window) and the verdicts of the
// real filter.Match.

import (
	"context"
	"encoding/json"
	"fmt"
	"io"
	"math/rand"
	"sort"
	"strings"
	"sync"
	"testing"
	"time"

	"github.com/centrifugal/centrifuge/internal/filter"
	"github.com/centrifugal/protocol"
)

// ---------------------------------------------------------------- fakes (natural gates)

type c16Hook struct {
	before func()
	after  func()
}

// stream broker: MemoryBroker whose History can run driver code before/after the real read
// (= publications broadcast while the subscribe is in flight) and records what it returned.
type c16StreamBroker struct {
	*MemoryBroker
	mu    sync.Mutex
	hooks map[string]*c16Hook
	last  map[string]c16HistCall
}

type c16HistCall struct {
	pubs []*Publication
	sp   StreamPosition
	n    int
}

func (b *c16StreamBroker) setHook(ch string, h *c16Hook) {
	b.mu.Lock()
	defer b.mu.Unlock()
	if h == nil {
		delete(b.hooks, ch)
	} else {
		b.hooks[ch] = h
	}
	delete(b.last, ch)
}

func (b *c16StreamBroker) History(ch string, opts HistoryOptions) ([]*Publication, StreamPosition, error) {
	b.mu.Lock()
	h := b.hooks[ch]
	delete(b.hooks, ch)
	b.mu.Unlock()
	if h != nil && h.before != nil {
		h.before()
	}
	pubs, sp, err := b.MemoryBroker.History(ch, opts)
	b.mu.Lock()
	c := b.last[ch]
	c.n++
	if h != nil || c.n == 1 {
		c.pubs, c.sp = append([]*Publication(nil), pubs...), sp
	}
	b.last[ch] = c
	b.mu.Unlock()
	if h != nil && h.after != nil {
		h.after()
	}
	return pubs, sp, err
}

type c16MapCall struct {
	kind string // "state" | "stream" | "pos"
	pubs []*Publication
	pos  StreamPosition
}

type c16MapBroker struct {
	*MemoryMapBroker
	mu      sync.Mutex
	stream  map[string]*c16Hook // fires on the next ReadStream with Limit != 0
	sub     map[string]func()   // fires on Subscribe(ch)
	calls   map[string][]c16MapCall
	enabled bool
}

func (b *c16MapBroker) reset(ch string) {
	b.mu.Lock()
	defer b.mu.Unlock()
	delete(b.calls, ch)
}

func (b *c16MapBroker) take(ch string) []c16MapCall {
	b.mu.Lock()
	defer b.mu.Unlock()
	c := b.calls[ch]
	delete(b.calls, ch)
	return c
}

func (b *c16MapBroker) Subscribe(channels ...string) error {
	for _, ch := range channels {
		b.mu.Lock()
		f := b.sub[ch]
		delete(b.sub, ch)
		b.mu.Unlock()
		if f != nil {
			f()
		}
	}
	return b.MemoryMapBroker.Subscribe(channels...)
}

func (b *c16MapBroker) ReadState(ctx context.Context, ch string, opts MapReadStateOptions) (MapStateResult, error) {
	res, err := b.MemoryMapBroker.ReadState(ctx, ch, opts)
	b.mu.Lock()
	b.calls[ch] = append(b.calls[ch], c16MapCall{kind: "state", pubs: append([]*Publication(nil), res.Publications...), pos: res.Position})
	b.mu.Unlock()
	return res, err
}

func (b *c16MapBroker) ReadStream(ctx context.Context, ch string, opts MapReadStreamOptions) (MapStreamResult, error) {
	var h *c16Hook
	if opts.Filter.Limit != 0 {
		b.mu.Lock()
		h = b.stream[ch]
		delete(b.stream, ch)
		b.mu.Unlock()
	}
	if h != nil && h.before != nil {
		h.before()
	}
	res, err := b.MemoryMapBroker.ReadStream(ctx, ch, opts)
	kind := "stream"
	if opts.Filter.Limit == 0 {
		kind = "pos"
	}
	b.mu.Lock()
	b.calls[ch] = append(b.calls[ch], c16MapCall{kind: kind, pubs: append([]*Publication(nil), res.Publications...), pos: res.Position})
	b.mu.Unlock()
	if h != nil && h.after != nil {
		h.after()
	}
	return res, err
}

// ---------------------------------------------------------------- environment

type c16Env struct {
	t       *testing.T
	node    *Node
	sb      *c16StreamBroker
	mb      *c16MapBroker
	mu      sync.Mutex
	subOpts map[string]SubscribeOptions
	mapOpts map[string]MapChannelOptions
	refresh map[string]*FilterNode // channel -> filter returned by the next sub refresh (nil = no change)
}

func c16NewEnv(t *testing.T) *c16Env {
	e := &c16Env{t: t, subOpts: map[string]SubscribeOptions{}, mapOpts: map[string]MapChannelOptions{}, refresh: map[string]*FilterNode{}}
	node, err := New(Config{
		LogLevel:   LogLevelNone,
		LogHandler: func(LogEntry) {},
		Map: MapConfig{GetMapChannelOptions: func(ch string) MapChannelOptions {
			e.mu.Lock()
			defer e.mu.Unlock()
			if o, ok := e.mapOpts[ch]; ok {
				return o
			}
			return MapChannelOptions{Mode: MapModeRecoverable, KeyTTL: 60 * time.Second, MinPageSize: 1}
		}},
	})
	if err != nil {
		t.Fatal(err)
	}
	mb, err := NewMemoryBroker(node, MemoryBrokerConfig{})
	if err != nil {
		t.Fatal(err)
	}
	e.sb = &c16StreamBroker{MemoryBroker: mb, hooks: map[string]*c16Hook{}, last: map[string]c16HistCall{}}
	node.SetBroker(e.sb)
	mmb, err := NewMemoryMapBroker(node, MemoryMapBrokerConfig{})
	if err != nil {
		t.Fatal(err)
	}
	e.mb = &c16MapBroker{MemoryMapBroker: mmb, stream: map[string]*c16Hook{}, sub: map[string]func(){}, calls: map[string][]c16MapCall{}}
	node.SetMapBroker(e.mb)
	node.OnConnecting(func(ctx context.Context, ev ConnectEvent) (ConnectReply, error) {
		return ConnectReply{ClientSideRefresh: true, Credentials: &Credentials{UserID: "u"}}, nil
	})
	node.OnConnect(func(client *Client) {
		client.OnSubscribe(func(ev SubscribeEvent, cb SubscribeCallback) {
			e.mu.Lock()
			o := e.subOpts[ev.Channel]
			e.mu.Unlock()
			cb(SubscribeReply{Options: o, ClientSideRefresh: true}, nil)
		})
		client.OnSubRefresh(func(ev SubRefreshEvent, cb SubRefreshCallback) {
			e.mu.Lock()
			f := e.refresh[ev.Channel]
			e.mu.Unlock()
			cb(SubRefreshReply{ExpireAt: time.Now().Unix() + 3600, ServerTagsFilter: f}, nil)
		})
	})
	if err := node.Run(); err != nil {
		t.Fatal(err)
	}
	e.node = node
	return e
}

// ---------------------------------------------------------------- publications, filters, verdicts

type c16Pub struct {
	ID   uint64            `json:"id"`
	Off  uint64            `json:"off"`
	Tags map[string]string `json:"tags,omitempty"`
	Key  string            `json:"key,omitempty"`
	Rem  bool              `json:"rem,omitempty"`
}

type c16Scn struct {
	e      *c16Env
	r      *rand.Rand
	ch     string
	syncCh string
	stf    *FilterNode
	ctf    *FilterNode
	nextID uint64
	pubs   map[uint64]*c16Pub // id -> publication
	remKey map[string]uint64  // removal identity: key@offset -> id
	steps  []string
	js     []map[string]any
	client *Client
	tr     *testTransport
	sink   chan []byte
	nsync  int
	bad    string
	proto  bool // Protobuf transport (else JSON)
	garble int  // pushes whose payload was not a publication payload (only possible for a delta subscription)
	// pushes decoded since the last drain
	classBits []string
}

var c16Keys = []string{"a", "b"}
var c16Vals = []string{"1", "2", "3", "x"}

func c16GenTags(r *rand.Rand) map[string]string {
	if r.Intn(6) == 0 {
		return nil
	}
	t := map[string]string{}
	for _, k := range c16Keys {
		if r.Intn(3) != 0 {
			t[k] = c16Vals[r.Intn(len(c16Vals))]
		}
	}
	return t
}

func c16GenFilter(r *rand.Rand, depth int) *FilterNode {
	if depth > 0 && r.Intn(3) == 0 {
		switch r.Intn(3) {
		case 0:
			return &FilterNode{Op: filter.OpAnd, Nodes: []*protocol.FilterNode{c16GenFilter(r, depth-1), c16GenFilter(r, depth-1)}}
		case 1:
			return &FilterNode{Op: filter.OpOr, Nodes: []*protocol.FilterNode{c16GenFilter(r, depth-1), c16GenFilter(r, depth-1)}}
		default:
			return &FilterNode{Op: filter.OpNot, Nodes: []*protocol.FilterNode{c16GenFilter(r, depth-1)}}
		}
	}
	k := c16Keys[r.Intn(len(c16Keys))]
	v := c16Vals[r.Intn(len(c16Vals))]
	switch r.Intn(8) {
	case 0, 1, 2:
		return &FilterNode{Key: k, Cmp: filter.CompareEQ, Val: v}
	case 3:
		return &FilterNode{Key: k, Cmp: filter.CompareNotEQ, Val: v}
	case 4:
		return &FilterNode{Key: k, Cmp: filter.CompareIn, Vals: []string{v, c16Vals[r.Intn(len(c16Vals))]}}
	case 5:
		return &FilterNode{Key: k, Cmp: filter.CompareNotIn, Vals: []string{v}}
	case 6:
		return &FilterNode{Key: k, Cmp: filter.CompareExists}
	default:
		return &FilterNode{Key: k, Cmp: filter.CompareGTE, Val: "2"}
	}
}

func c16Match(f *FilterNode, tags map[string]string) bool {
	if f == nil {
		return true
	}
	m, _ := filter.Match(f, tags)
	return m
}

// verdict record for the ids involved in a step (+ id 0 = the empty tag set of a marker)
func (s *c16Scn) verd(idsets ...[]uint64) (string, map[string]any) {
	seen := map[uint64]bool{0: true}
	for _, l := range idsets {
		for _, id := range l {
			seen[id] = true
		}
	}
	var ids []uint64
	for id := range seen {
		ids = append(ids, id)
	}
	sort.Slice(ids, func(i, j int) bool { return ids[i] < ids[j] })
	var vs, vc []string
	var jvs, jvc []uint64
	for _, id := range ids {
		var tags map[string]string
		if p := s.pubs[id]; p != nil {
			tags = p.Tags
		}
		if s.stf != nil && c16Match(s.stf, tags) {
			vs = append(vs, vN(id))
			jvs = append(jvs, id)
		}
		if s.ctf != nil && c16Match(s.ctf, tags) {
			vc = append(vc, vN(id))
			jvc = append(jvc, id)
		}
	}
	return vApp("mkV", vBool(s.stf != nil), vBool(s.ctf != nil), vList(vs), vList(vc)),
		map[string]any{"stf": s.stf != nil, "ctf": s.ctf != nil, "s_match": jvs, "c_match": jvc}
}

func c16CoqPubs(ps []c16Pub) string {
	xs := make([]string, len(ps))
	for i, p := range ps {
		xs[i] = vApp("mkPub", vN(p.Off), "false", vN(p.ID))
	}
	return vList(xs)
}

func c16IDs(ps []c16Pub) []uint64 {
	out := make([]uint64, len(ps))
	for i, p := range ps {
		out[i] = p.ID
	}
	return out
}

func c16CoqIDs(ids []uint64) string {
	xs := make([]string, len(ids))
	for i, id := range ids {
		xs[i] = vN(id)
	}
	return vList(xs)
}

func (s *c16Scn) addStep(term string, js map[string]any, idsets ...[]uint64) {
	v, jv := s.verd(idsets...)
	s.steps = append(s.steps, vPair(v, term))
	js["verdicts"] = jv
	s.js = append(s.js, js)
}

func (s *c16Scn) newPub(tags map[string]string) *c16Pub {
	s.nextID++
	p := &c16Pub{ID: s.nextID, Tags: tags}
	s.pubs[p.ID] = p
	return p
}

func c16Data(id uint64) []byte { return []byte(fmt.Sprintf(`{"i":%d}`, id)) }

// identity of a publication as seen in a broker result or on the wire
func (s *c16Scn) idOf(data []byte, key string, removed bool, off uint64) uint64 {
	var d struct {
		I uint64 `json:"i"`
	}
	if len(data) > 0 && json.Unmarshal(data, &d) == nil && d.I > 0 {
		return d.I
	}
	if removed {
		if id, ok := s.remKey[fmt.Sprintf("%s@%d", key, off)]; ok {
			return id
		}
		if id, ok := s.remKey[key+"@"]; ok {
			return id
		}
	}
	return 0
}

func (s *c16Scn) fromBroker(ps []*Publication) []c16Pub {
	out := make([]c16Pub, 0, len(ps))
	for _, p := range ps {
		out = append(out, c16Pub{ID: s.idOf(p.Data, p.Key, p.Removed, p.Offset), Off: p.Offset, Key: p.Key, Rem: p.Removed})
	}
	return out
}

func (s *c16Scn) fromProto(ps []*protocol.Publication) []uint64 {
	out := make([]uint64, 0, len(ps))
	for _, p := range ps {
		out = append(out, s.idOf(p.Data, p.Key, p.Removed, p.Offset))
	}
	return out
}

// ---------------------------------------------------------------- client plumbing

func (s *c16Scn) connect(protoType ProtocolType) {
	tr := newTestTransport(func() {})
	tr.setProtocolVersion(ProtocolVersion2)
	tr.setProtocolType(protoType)
	s.proto = protoType == ProtocolTypeProtobuf
	s.sink = make(chan []byte, 4096)
	tr.setSink(s.sink)
	s.tr = tr
	s.client = newTestClientCustomTransport(s.e.t, context.Background(), s.e.node, tr, "u")
	connectClientV2(s.e.t, s.client)
	s.e.mu.Lock()
	s.e.subOpts[s.syncCh] = SubscribeOptions{}
	s.e.mu.Unlock()
	rw := testReplyWriterWrapper()
	if err := s.client.handleSubscribe(&protocol.SubscribeRequest{Channel: s.syncCh}, &protocol.Command{Id: 1}, time.Now(), rw.rw); err != nil {
		s.bad = "sync subscribe: " + err.Error()
	}
}

func (s *c16Scn) close() {
	_ = s.client.close(DisconnectForceNoReconnect)
	s.e.mu.Lock()
	delete(s.e.subOpts, s.ch)
	delete(s.e.subOpts, s.syncCh)
	delete(s.e.mapOpts, s.ch)
	delete(s.e.refresh, s.ch)
	s.e.mu.Unlock()
}

// a Protobuf transport message is one encoded Reply
type c16PbDecoder struct {
	msg  []byte
	done bool
}

func (d *c16PbDecoder) Decode() (*protocol.Reply, error) {
	if d.done {
		return nil, io.EOF
	}
	d.done = true
	rep := &protocol.Reply{}
	if err := rep.UnmarshalVT(d.msg); err != nil {
		return nil, err
	}
	return rep, nil
}

type c16Got struct {
	pubs   []*protocol.Publication
	unsubs []*protocol.Unsubscribe
}

// drain publishes a sentinel on the (unfiltered) sync channel and reads the transport until it
// arrives: the per-client queue is FIFO, so everything enqueued before has been written.
func (s *c16Scn) drain() c16Got {
	var got c16Got
	s.nsync++
	want := fmt.Sprintf(`{"sync":%d}`, s.nsync)
	if _, err := s.e.node.Publish(s.syncCh, []byte(want)); err != nil {
		s.bad = "sync publish: " + err.Error()
		return got
	}
	deadline := time.After(5 * time.Second)
	for {
		select {
		case msg := <-s.sink:
			var dec interface {
				Decode() (*protocol.Reply, error)
			}
			if s.proto {
				dec = &c16PbDecoder{msg: msg}
			} else {
				dec = protocol.NewJSONReplyDecoder(msg)
			}
			for {
				rep, err := dec.Decode()
				if err != nil {
					if err != io.EOF {
						s.bad = "decode: " + err.Error()
					}
					break
				}
				if rep.Push == nil {
					continue
				}
				if rep.Push.Channel == s.syncCh && rep.Push.Pub != nil {
					if string(rep.Push.Pub.Data) == want {
						return got
					}
					continue
				}
				if rep.Push.Channel == s.ch {
					if rep.Push.Pub != nil {
						got.pubs = append(got.pubs, rep.Push.Pub)
					}
					if rep.Push.Unsubscribe != nil {
						got.unsubs = append(got.unsubs, rep.Push.Unsubscribe)
					}
				}
			}
		case <-deadline:
			s.bad = "sync sentinel not received"
			return got
		case <-s.tr.closeCh:
			// connection closed by the server: nothing more will arrive
			for len(s.sink) > 0 {
				<-s.sink
			}
			return got
		}
	}
}

func (s *c16Scn) position() (uint64, bool) {
	s.client.mu.RLock()
	defer s.client.mu.RUnlock()
	ctx, ok := s.client.channels[s.ch]
	return ctx.streamPosition.Offset, ok && channelHasFlag(ctx.flags, flagSubscribed)
}

func (s *c16Scn) subscribed() bool {
	_, ok := s.position()
	return ok
}

// ---------------------------------------------------------------- stream channels

func (s *c16Scn) publishStream(history bool) *c16Pub {
	p := s.newPub(c16GenTags(s.r))
	opts := []PublishOption{WithTags(p.Tags)}
	if history {
		opts = append(opts, WithHistory(100, time.Hour))
	}
	res, err := s.e.node.Publish(s.ch, c16Data(p.ID), opts...)
	if err != nil {
		s.bad = "publish: " + err.Error()
	}
	p.Off = res.Offset
	return p
}

// one live broadcast observed end to end
func (s *c16Scn) liveStep(positioned, delta bool, publish func() *c16Pub) {
	if !s.subscribed() {
		return
	}
	cur, _ := s.position()
	p := publish()
	got := s.drain()
	after, _ := s.position()
	delivered := false
	for _, gp := range got.pubs {
		if delta {
			if gp.Offset == p.Off {
				delivered = true
			}
		} else if id := s.idOf(gp.Data, gp.Key, gp.Removed, gp.Offset); id == p.ID || id == 0 {
			// id 0: a push for this broadcast reached a subscription that negotiated NO delta, with a
			// payload in some other encoding; it still is a delivery of the publication
			delivered = true
			if id == 0 {
				s.garble++
			}
		} else {
			s.bad = fmt.Sprintf("unexpected push data %q for publication %d", gp.Data, p.ID)
		}
	}
	if len(got.pubs) > 1 {
		s.bad = "more than one push for one publication"
	}
	term := vApp("StLive", vBool(positioned), vBool(delta), vN(cur), vApp("mkPub", vN(p.Off), "false", vN(p.ID)), vBool(delivered), vN(after))
	s.addStep(term, map[string]any{"step": "live", "positioned": positioned, "delta": delta, "cur": cur, "pub": p, "delivered": delivered, "cur_after": after}, []uint64{p.ID})
}

func (s *c16Scn) setSubOpts(o SubscribeOptions) {
	s.e.mu.Lock()
	s.e.subOpts[s.ch] = o
	s.e.mu.Unlock()
}

func (s *c16Scn) subscribeRaw(req *protocol.SubscribeRequest) (*protocol.SubscribeResult, *protocol.Error, bool) {
	rw := testReplyWriterWrapper()
	err := s.client.handleSubscribe(req, &protocol.Command{Id: 2}, time.Now(), rw.rw)
	if err != nil {
		if ce, ok := err.(*Error); ok {
			return nil, &protocol.Error{Code: ce.Code, Message: ce.Message}, false
		}
		return nil, nil, true // disconnect returned
	}
	if len(rw.replies) == 0 {
		// disconnect path: the reply is replaced by closing the connection
		select {
		case <-s.tr.closeCh:
		case <-time.After(2 * time.Second):
			s.bad = "no reply and no disconnect"
		}
		return nil, nil, true
	}
	if rw.replies[0].Error != nil {
		return nil, rw.replies[0].Error, false
	}
	return rw.replies[0].Subscribe, nil, false
}

func (s *c16Scn) runStreamLive(variant int) string {
	// 0: no history (offset 0), 1: history but unpositioned, 2: positioned, 3: positioned + delta
	history := variant >= 1
	positioned := variant >= 2
	delta := variant == 3
	o := SubscribeOptions{AllowTagsFilter: true, ServerTagsFilter: s.stf, EnablePositioning: positioned}
	if delta {
		o.AllowedDeltaTypes = []DeltaType{DeltaTypeFossil}
	}
	s.setSubOpts(o)
	for k := s.r.Intn(3); k > 0 && history; k-- {
		s.publishStream(true)
	}
	req := &protocol.SubscribeRequest{Channel: s.ch, Tf: s.ctf}
	// the client may ask for a delta type the channel does not allow: the subscription then works
	// WITHOUT delta (what counts is the negotiated SubscribeResult.Delta, not what was requested)
	refused := !delta && s.r.Intn(2) == 0
	if delta || refused {
		req.Delta = string(DeltaTypeFossil)
	}
	res, perr, disc := s.subscribeRaw(req)
	if res == nil {
		s.bad = fmt.Sprintf("subscribe failed: %v %v", perr, disc)
		return "stream-live"
	}
	if res.Delta != delta {
		s.bad = fmt.Sprintf("delta negotiation: allowed=%v negotiated=%v", delta, res.Delta)
	}
	delta = res.Delta
	n := 2 + s.r.Intn(6)
	for k := 0; k < n; k++ {
		s.liveStep(positioned, delta, func() *c16Pub { return s.publishStream(history) })
	}
	// sub refresh with a (possibly) new server filter on a stream subscription: never invalidates,
	// the new filter applies to the following broadcasts
	if s.r.Intn(3) == 0 && !delta {
		s.refreshStep(false)
		for k := 0; k < 3; k++ {
			s.liveStep(positioned, delta, func() *c16Pub { return s.publishStream(history) })
		}
	}
	class := [...]string{"live-offsetless", "live-unpositioned", "live-positioned", "live-positioned-delta"}[variant]
	if refused {
		class += "+delta-refused"
	}
	return class
}

// Several subscribers of ONE channel, each with its own pair of filters (equal client filters with
// different server filters, equal server filters with different client filters, or unrelated): every
// live broadcast is judged per subscriber against that subscriber's own two filters.
func (s *c16Scn) runMultiLive(variant int) string {
	history := variant >= 1
	positioned := variant >= 2
	m := 2 + s.r.Intn(3)
	pattern := s.r.Intn(3)
	sharedC := c16GenFilter(s.r, 2)
	sharedS := c16GenFilter(s.r, 2)
	var subs []*c16Scn
	defer func() {
		for _, t := range subs {
			_ = t.client.close(DisconnectForceNoReconnect)
			s.e.mu.Lock()
			delete(s.e.subOpts, t.syncCh)
			s.e.mu.Unlock()
		}
	}()
	for k := s.r.Intn(3); k > 0 && history; k-- {
		s.publishStream(true)
	}
	for j := 0; j < m; j++ {
		t := &c16Scn{e: s.e, r: s.r, ch: s.ch, syncCh: fmt.Sprintf("%s_m%d", s.syncCh, j), pubs: s.pubs, remKey: s.remKey}
		switch pattern {
		case 0: // the same client filter, the server narrows only some of them
			t.ctf = sharedC
			if j > 0 && s.r.Intn(4) != 0 {
				t.stf = c16GenFilter(s.r, 2)
			}
		case 1: // the same server filter, different client filters
			t.stf = sharedS
			if j > 0 && s.r.Intn(4) != 0 {
				t.ctf = c16GenFilter(s.r, 2)
			}
		default:
			if s.r.Intn(3) != 0 {
				t.stf = c16GenFilter(s.r, 2)
			}
			if s.r.Intn(3) != 0 {
				t.ctf = c16GenFilter(s.r, 2)
			}
		}
		if s.r.Intn(3) == 0 {
			t.connect(ProtocolTypeProtobuf)
		} else {
			t.connect(ProtocolTypeJSON)
		}
		// the subscribe handler reads the channel's options: set this subscriber's server filter for its request
		s.setSubOpts(SubscribeOptions{AllowTagsFilter: true, ServerTagsFilter: t.stf, EnablePositioning: positioned})
		res, perr, disc := t.subscribeRaw(&protocol.SubscribeRequest{Channel: s.ch, Tf: t.ctf})
		if res == nil {
			s.bad = fmt.Sprintf("subscribe %d failed: %v %v", j, perr, disc)
			return "multi-live"
		}
		if t.bad != "" {
			s.bad = t.bad
		}
		subs = append(subs, t)
	}
	s.stf, s.ctf = subs[len(subs)-1].stf, subs[len(subs)-1].ctf
	n := 3 + s.r.Intn(6)
	for k := 0; k < n && s.bad == ""; k++ {
		curs := make([]uint64, len(subs))
		for j, t := range subs {
			curs[j], _ = t.position()
		}
		p := s.publishStream(history)
		for j, t := range subs {
			got := t.drain()
			after, _ := t.position()
			delivered := false
			for _, gp := range got.pubs {
				if id := t.idOf(gp.Data, gp.Key, gp.Removed, gp.Offset); id == p.ID {
					delivered = true
				} else {
					s.bad = fmt.Sprintf("subscriber %d: unexpected push data %q for publication %d", j, gp.Data, p.ID)
				}
			}
			if len(got.pubs) > 1 {
				s.bad = "more than one push for one publication"
			}
			if t.bad != "" {
				s.bad = t.bad
			}
			v, jv := t.verd([]uint64{p.ID})
			term := vApp("StLive", vBool(positioned), "false", vN(curs[j]), vApp("mkPub", vN(p.Off), "false", vN(p.ID)), vBool(delivered), vN(after))
			s.steps = append(s.steps, vPair(v, term))
			s.js = append(s.js, map[string]any{"step": "live", "subscriber": j, "positioned": positioned, "delta": false, "cur": curs[j],
				"pub": p, "delivered": delivered, "cur_after": after, "verdicts": jv, "stf": t.stf, "ctf": t.ctf})
		}
	}
	return [...]string{"multi-live-offsetless", "multi-live-unpositioned", "multi-live-positioned"}[variant] +
		[...]string{"/same-client-filter", "/same-server-filter", "/mixed"}[pattern]
}

func (s *c16Scn) refreshStep(isMap bool) {
	var newF *FilterNode
	mode := s.r.Intn(4)
	switch mode {
	case 0: // no filter in the refresh reply
	case 1: // same filter (same hash)
		newF = s.stf
	default:
		newF = c16GenFilter(s.r, 1)
	}
	had := s.stf != nil
	same := had && newF != nil && filter.Hash(newF) == filter.Hash(s.stf)
	s.e.mu.Lock()
	s.e.refresh[s.ch] = newF
	s.e.mu.Unlock()
	rw := testReplyWriterWrapper()
	err := s.client.handleSubRefresh(&protocol.SubRefreshRequest{Channel: s.ch, Token: "t"}, &protocol.Command{Id: 3}, time.Now(), rw.rw)
	if err != nil {
		s.bad = "sub refresh: " + err.Error()
		return
	}
	got := s.drain()
	unsub := false
	for _, u := range got.unsubs {
		if u.Code == UnsubscribeCodeStateInvalidated {
			unsub = true
		}
	}
	if unsub && s.subscribed() {
		s.bad = "unsubscribe push but still subscribed"
	}
	term := vApp("StRefresh", vBool(isMap), vBool(newF != nil), vBool(had), vBool(same), vBool(unsub))
	s.addStep(term, map[string]any{"step": "refresh", "is_map": isMap, "new_filter": newF != nil, "had": had, "same_hash": same, "unsubscribed": unsub})
	if newF != nil && !unsub {
		s.stf = newF // hub entry now carries the new filter
	}
}

func (s *c16Scn) runStreamRecovery(cache bool) string {
	o := SubscribeOptions{AllowTagsFilter: true, ServerTagsFilter: s.stf, EnablePositioning: true, EnableRecovery: true}
	if cache {
		o.RecoveryMode = RecoveryModeCache
	}
	s.setSubOpts(o)
	k := s.r.Intn(7)
	var epoch string
	for j := 0; j < k; j++ {
		s.publishStream(true)
	}
	if hr, err := s.e.node.History(s.ch); err == nil {
		epoch = hr.Epoch
	}
	cmd := uint64(0)
	if k > 0 {
		switch s.r.Intn(6) {
		case 0:
			cmd = uint64(k) // up to date
		case 1:
			cmd = uint64(k) + 1 + uint64(s.r.Intn(2)) // ahead of the stream
		default:
			cmd = uint64(s.r.Intn(k + 1))
		}
	}
	reqEpoch := epoch
	switch s.r.Intn(8) {
	case 0:
		reqEpoch = ""
	case 1:
		reqEpoch = "wrong"
	}
	nb, na := 0, 0
	switch s.r.Intn(4) {
	case 1:
		nb = 1 + s.r.Intn(2)
	case 2:
		na = 1 + s.r.Intn(3)
	case 3:
		nb, na = 1, 1+s.r.Intn(2)
	}
	lossy := !cache && s.r.Intn(10) == 0
	var live []c16Pub
	hook := &c16Hook{
		before: func() {
			for j := 0; j < nb; j++ {
				live = append(live, *s.publishStream(true))
			}
		},
		after: func() {
			for j := 0; j < na; j++ {
				live = append(live, *s.publishStream(true))
			}
			if lossy {
				// a PUB/SUB delivery whose predecessor was lost (at-most-once broker): offset gap
				top := uint64(k + nb + na)
				p := s.newPub(c16GenTags(s.r))
				p.Off = top + 2
				_ = s.e.node.HandlePublication(s.ch, &Publication{Offset: p.Off, Data: c16Data(p.ID), Tags: p.Tags},
					StreamPosition{Offset: p.Off, Epoch: epoch}, false, nil)
				live = append(live, *p)
			}
		},
	}
	s.e.sb.setHook(s.ch, hook)
	rreq := &protocol.SubscribeRequest{Channel: s.ch, Tf: s.ctf, Recover: true, Offset: cmd, Epoch: reqEpoch}
	refused := s.r.Intn(3) == 0
	if refused {
		rreq.Delta = string(DeltaTypeFossil) // not allowed in this channel: no delta negotiated
	}
	res, perr, disc := s.subscribeRaw(rreq)
	if res != nil && res.Delta {
		s.bad = "delta negotiated although not allowed"
	}
	s.e.sb.mu.Lock()
	call := s.e.sb.last[s.ch]
	s.e.sb.mu.Unlock()
	hist := s.fromBroker(call.pubs)
	if perr != nil {
		s.bad = fmt.Sprintf("subscribe error %v", perr)
		return "recovery"
	}
	var oids []uint64
	recovered := false
	if res != nil {
		oids = s.fromProto(res.Publications)
		recovered = res.Recovered
	}
	ctor := "StStreamRec"
	var flag bool
	if cache {
		ctor = "StCacheRec"
		flag = reqEpoch == call.sp.Epoch // cmdEpoch == latestEpoch
	} else {
		flag = reqEpoch == "" || reqEpoch == call.sp.Epoch // node.history epochOK, then isStreamRecovered's own check
	}
	args := []string{c16CoqPubs(hist), vN(call.sp.Offset), vN(cmd), vBool(flag)}
	if cache {
		// the cache mode keeps only the last publication unless the request names a delta type
		args = append(args, vBool(refused))
	}
	args = append(args, c16CoqPubs(live), vBool(disc), vBool(recovered), c16CoqIDs(oids))
	term := vApp(ctor, args...)
	s.addStep(term, map[string]any{"step": strings.ToLower(ctor), "hist": hist, "top": call.sp.Offset, "cmd": cmd, "epoch_flag": flag, "req_delta": refused,
		"live": live, "disconnected": disc, "recovered": recovered, "delivered": oids}, c16IDs(hist), c16IDs(live), oids)
	class := "stream-recovery"
	if cache {
		class = "cache-recovery"
	}
	if len(live) > 0 {
		class += "+buffered"
	}
	if refused {
		class += "+delta-refused"
	}
	if disc {
		return class + "/insufficient"
	}
	// live publications after the subscribe completed
	for j := s.r.Intn(4); j > 0; j-- {
		s.liveStep(true, false, func() *c16Pub { return s.publishStream(true) })
	}
	return class
}

// ---------------------------------------------------------------- map channels

func (s *c16Scn) mapPublish(key string) *c16Pub {
	p := s.newPub(c16GenTags(s.r))
	p.Key = key
	res, err := s.e.mb.Publish(context.Background(), s.ch, key, MapPublishOptions{Data: c16Data(p.ID), Tags: p.Tags})
	if err != nil {
		s.bad = "map publish: " + err.Error()
	}
	p.Off = res.Position.Offset
	return p
}

func (s *c16Scn) mapRemove(key string, streamless bool) *c16Pub {
	// the removal publication carries the tags of the removed entry unless tags are given
	var tags map[string]string
	var opts MapRemoveOptions
	if s.r.Intn(2) == 0 {
		tags = c16GenTags(s.r)
		if tags == nil {
			tags = map[string]string{}
		}
		opts.Tags = tags
	}
	st, _ := s.e.mb.MemoryMapBroker.ReadState(context.Background(), s.ch, MapReadStateOptions{Key: key, Limit: 1})
	res, err := s.e.mb.Remove(context.Background(), s.ch, key, opts)
	if err != nil {
		s.bad = "map remove: " + err.Error()
		return nil
	}
	if res.Suppressed {
		return nil
	}
	if opts.Tags == nil && len(st.Publications) == 1 {
		tags = st.Publications[0].Tags
	}
	p := s.newPub(tags)
	p.Key, p.Rem, p.Off = key, true, res.Position.Offset
	if streamless {
		p.Off = 0
		s.remKey[key+"@"] = p.ID
	} else {
		s.remKey[fmt.Sprintf("%s@%d", key, p.Off)] = p.ID
	}
	return p
}

func (s *c16Scn) mapWrite(streamless bool) *c16Pub {
	key := fmt.Sprintf("k%d", s.r.Intn(6))
	if s.r.Intn(5) == 0 {
		if streamless {
			if _, used := s.remKey[key+"@"]; used {
				return s.mapPublish(key)
			}
		}
		if p := s.mapRemove(key, streamless); p != nil {
			return p
		}
	}
	return s.mapPublish(key)
}

func (s *c16Scn) runMap(streamless bool) string {
	mo := MapChannelOptions{Mode: MapModeRecoverable, KeyTTL: 60 * time.Second, MinPageSize: 1}
	if streamless {
		mo.Mode = MapModeEphemeral
	}
	smallLimit := !streamless && s.r.Intn(6) == 0
	if smallLimit {
		mo.LiveTransitionMaxPublicationLimit = 2
	}
	s.e.mu.Lock()
	s.e.mapOpts[s.ch] = mo
	s.e.mu.Unlock()
	s.setSubOpts(SubscribeOptions{Type: SubscriptionTypeMap, AllowTagsFilter: true, ServerTagsFilter: s.stf, ExpireAt: time.Now().Unix() + 3600})
	class := "map"
	if streamless {
		class = "map-streamless"
	}
	for j := s.r.Intn(8); j > 0; j-- {
		s.mapWrite(streamless)
	}
	limit := int32(1 + s.r.Intn(4))
	if s.r.Intn(3) == 0 {
		limit = 100
	}
	var cursor, epoch string
	var offset uint64
	phase := MapPhaseState
	first := true
	nState, nStream := 0, 0
	singleRequest := false
	var liveInj []c16Pub
	// a client may send its tags filter with the first request of a paginated subscribe only: the node
	// keeps it for the following pages and for the subscription that goes live
	tfFirstOnly := s.r.Intn(2) == 0
	for iter := 0; iter < 40 && s.bad == ""; iter++ {
		req := &protocol.SubscribeRequest{Channel: s.ch, Type: int32(SubscriptionTypeMap), Phase: phase, Limit: limit, Tf: s.ctf}
		if !first && tfFirstOnly {
			req.Tf = nil
		}
		if !first {
			req.Cursor, req.Offset, req.Epoch = cursor, offset, epoch
		}
		// arm the gates for a possible live transition inside this request
		liveInj = nil
		inject := func(n int) {
			for j := 0; j < n; j++ {
				if streamless {
					// a broker that numbers publications in streamless mode (the in-memory one does
					// not: its offset-0 publications bypass the subscribe buffer)
					p := s.newPub(c16GenTags(s.r))
					p.Key = fmt.Sprintf("k%d", s.r.Intn(6))
					p.Off = uint64(100 + len(liveInj))
					_ = s.e.node.HandlePublication(s.ch, &Publication{Offset: p.Off, Data: c16Data(p.ID), Tags: p.Tags, Key: p.Key},
						StreamPosition{Offset: p.Off}, false, nil)
					liveInj = append(liveInj, *p)
				} else {
					liveInj = append(liveInj, *s.mapWrite(false))
				}
			}
		}
		nb, na := 0, 0
		switch s.r.Intn(4) {
		case 1:
			nb = 1 + s.r.Intn(2)
		case 2:
			na = 1 + s.r.Intn(2)
		case 3:
			nb, na = 1, 1
		}
		if streamless {
			s.e.mb.mu.Lock()
			s.e.mb.sub[s.ch] = func() { inject(nb + na) }
			s.e.mb.mu.Unlock()
		} else {
			armed := &c16Hook{}
			armed.before = func() {
				// only a read made while the client is in the hub is the transition's read
				if s.e.node.hub.NumSubscribers(s.ch) > 0 {
					inject(nb)
				}
			}
			armed.after = func() {
				if s.e.node.hub.NumSubscribers(s.ch) > 0 {
					inject(na)
				}
			}
			s.e.mb.mu.Lock()
			s.e.mb.stream[s.ch] = armed
			s.e.mb.mu.Unlock()
		}
		s.e.mb.reset(s.ch)
		res, perr, disc := s.subscribeRaw(req)
		calls := s.e.mb.take(s.ch)
		s.e.mb.mu.Lock()
		delete(s.e.mb.stream, s.ch)
		delete(s.e.mb.sub, s.ch)
		s.e.mb.mu.Unlock()
		var stateCall, streamCall *c16MapCall
		for k := range calls {
			switch calls[k].kind {
			case "state":
				stateCall = &calls[k]
			case "stream":
				streamCall = &calls[k]
			}
		}
		if res == nil {
			// error reply (unrecoverable position) or disconnect (insufficient state) from the transition
			if streamCall != nil && (disc || (perr != nil && perr.Code == ErrorUnrecoverablePosition.Code)) {
				ores := uint64(1)
				if disc {
					ores = 2
				}
				stream := s.fromBroker(streamCall.pubs)
				lim := uint64(1000)
				if smallLimit {
					lim = 2
				}
				term := vApp("StMapLive", vN(lim), c16CoqPubs(stream), c16CoqPubs(liveInj), vN(ores), "[]")
				s.addStep(term, map[string]any{"step": "map-live", "limit": lim, "stream": stream, "live": liveInj, "result": ores}, c16IDs(stream), c16IDs(liveInj))
				return class + "/unrecoverable"
			}
			s.bad = fmt.Sprintf("map subscribe failed: %v disc=%v", perr, disc)
			return class
		}
		// state part
		if phase == MapPhaseState {
			if stateCall == nil {
				s.bad = "no ReadState call"
				return class
			}
			nState++
			in := s.fromBroker(stateCall.pubs)
			oids := s.fromProto(res.State)
			rev := "None"
			if req.Offset > 0 || req.Epoch != "" {
				rev = vOpt(vN(req.Offset), true)
			}
			term := vApp("StMapState", rev, c16CoqPubs(in), c16CoqIDs(oids))
			s.addStep(term, map[string]any{"step": "map-state", "rev": rev, "broker": in, "delivered": oids}, c16IDs(in), oids)
		}
		if res.Phase == MapPhaseLive {
			singleRequest = first
			oids := s.fromProto(res.Publications)
			if streamless {
				term := vApp("StMapStreamless", c16CoqPubs(liveInj), c16CoqIDs(oids))
				s.addStep(term, map[string]any{"step": "map-streamless", "live": liveInj, "delivered": oids}, c16IDs(liveInj), oids)
				if len(liveInj) > 0 {
					class += "+buffered"
				}
			} else {
				if streamCall == nil {
					s.bad = "live reply without stream read"
					return class
				}
				stream := s.fromBroker(streamCall.pubs)
				lim := uint64(1000)
				if smallLimit {
					lim = 2
				}
				term := vApp("StMapLive", vN(lim), c16CoqPubs(stream), c16CoqPubs(liveInj), "0", c16CoqIDs(oids))
				s.addStep(term, map[string]any{"step": "map-live", "limit": lim, "stream": stream, "live": liveInj, "result": 0, "delivered": oids},
					c16IDs(stream), c16IDs(liveInj), oids)
				if len(liveInj) > 0 {
					class += "+buffered"
				}
			}
			break
		}
		if res.Phase == MapPhaseStream && phase == MapPhaseStream {
			if streamCall == nil {
				s.bad = "stream page without stream read"
				return class
			}
			nStream++
			in := s.fromBroker(streamCall.pubs)
			oids := s.fromProto(res.Publications)
			term := vApp("StMapStream", c16CoqPubs(in), c16CoqIDs(oids))
			s.addStep(term, map[string]any{"step": "map-stream", "broker": in, "delivered": oids}, c16IDs(in), oids)
		}
		// next request, as a protocol-following client
		if first {
			epoch = res.Epoch
			offset = res.Offset
			first = false
		}
		if phase == MapPhaseState {
			cursor = res.Cursor
			if cursor == "" {
				phase = MapPhaseStream
				offset = res.Offset
			}
		} else {
			offset = res.Offset
		}
		// concurrent writers between two requests
		nw := s.r.Intn(3)
		if s.r.Intn(5) == 0 {
			nw = 4 + s.r.Intn(6)
		}
		for j := 0; j < nw; j++ {
			s.mapWrite(streamless)
		}
	}
	if !s.subscribed() {
		if s.bad == "" {
			s.bad = "map subscription did not go live"
		}
		return class
	}
	if nState > 1 {
		class += "+pages"
	}
	if nState+nStream > 1 && tfFirstOnly && s.ctf != nil {
		class += "+tf-first-only"
	}
	if nStream > 0 {
		class += "+stream"
	}
	for j := 1 + s.r.Intn(5); j > 0; j-- {
		s.liveStep(!streamless, false, func() *c16Pub { return s.mapWrite(streamless) })
	}
	// (a paginated map subscribe loses SubscribeReply.ClientSideRefresh on its continuation requests, so a
	// client-side sub refresh is only possible when the very first request went live)
	if singleRequest && s.r.Intn(2) == 0 {
		s.refreshStep(true)
		class += "+refresh"
		for j := 0; j < 2; j++ {
			s.liveStep(!streamless, false, func() *c16Pub { return s.mapWrite(streamless) })
		}
	}
	return class
}

// ---------------------------------------------------------------- test

func TestVerifC16(t *testing.T) {
	w := verifOpen(t, "C16")
	defer w.Close()
	e := c16NewEnv(t)
	defer func() { _ = e.node.Shutdown(context.Background()) }()
	for i := 0; i < w.N; i++ {
		if !w.Want(i) {
			continue
		}
		r := w.Rand(i)
		s := &c16Scn{e: e, r: r, ch: fmt.Sprintf("c16_%d", i), syncCh: fmt.Sprintf("c16sync_%d", i),
			pubs: map[uint64]*c16Pub{}, remKey: map[string]uint64{}}
		switch r.Intn(5) {
		case 0: // no server filter
			s.ctf = c16GenFilter(r, 2)
		case 1: // no client filter
			s.stf = c16GenFilter(r, 2)
		default:
			s.stf, s.ctf = c16GenFilter(r, 2), c16GenFilter(r, 2)
		}
		if i%37 == 36 {
			s.stf, s.ctf = nil, nil
		}
		if r.Intn(3) == 0 {
			s.connect(ProtocolTypeProtobuf)
		} else {
			s.connect(ProtocolTypeJSON)
		}
		var class string
		kind := i % 12
		if i >= 12 {
			kind = r.Intn(12)
		}
		switch kind {
		case 0:
			class = s.runStreamLive(r.Intn(2))
		case 1:
			class = s.runStreamLive(2 + r.Intn(2))
		case 2, 3:
			class = s.runStreamRecovery(false)
		case 4:
			class = s.runStreamRecovery(true)
		case 5, 6, 7:
			class = s.runMap(false)
		case 10, 11:
			class = s.runMultiLive(r.Intn(3))
		default:
			class = s.runMap(true)
		}
		s.close()
		if s.bad != "" {
			t.Errorf("case %d (%s): driver problem: %s", i, class, s.bad)
			class += "/driver-problem"
		}
		nontrivial := false
		for _, p := range s.pubs {
			if !c16Match(s.stf, p.Tags) || !c16Match(s.ctf, p.Tags) {
				nontrivial = true
			}
		}
		nontrivial = nontrivial && len(s.steps) >= 2
		term := vApp("mkCase", vList(s.steps))
		w.Case(i, term, map[string]any{"class": class, "stf": s.stf, "ctf": s.ctf, "protobuf": s.proto, "garbled_pushes": s.garble, "steps": s.js}, class, nontrivial)
	}
}
