package centrifuge

// C01 (and shared by C10) driver: one real Node + MemoryBroker + Client per case.
// The MemoryBroker is wrapped so that (a) its PUB/SUB deliveries are captured as tokens the
// driver delivers, drops, duplicates, reorders or delays itself by calling the node's
// BrokerEventHandler, and (b) Broker.Subscribe / Broker.History park the subscribe goroutine
// at natural gates.  Further natural gates: the OnSubscribe handler (callback kept by the
// driver), the node LogHandler (debug entry at the end of subscribeCmd) and
// Transport.DisabledPushFlags (called by Client.Subscribe between commit and push).
// Nothing in /repo is modified.

import (
	"context"
	"encoding/json"
	"fmt"
	"math/rand"
	"strings"
	"sync"
	"sync/atomic"
	"testing"
	"time"

	"github.com/centrifugal/protocol"
)

const c01Ch = "c01ch"

type c01Pub struct {
	Off  uint64 `json:"o"`
	Ep   uint64 `json:"e"`
	Filt bool   `json:"f"`
	ID   int    `json:"i,omitempty"` // driver-side identity of the publication (not part of the Coq term)
}

type c01Tok struct {
	kind int // 0 publication, 1 join, 2 leave
	pub  *Publication
	sp   StreamPosition
	id   int
}

type c01Broker struct {
	*MemoryBroker
	mu       sync.Mutex
	h        BrokerEventHandler
	captured []c01Tok
	hook     func(name string)
}

type c01Icpt struct{ b *c01Broker }

func (i c01Icpt) HandlePublication(ch string, pub *Publication, sp StreamPosition, _ bool, _ *Publication) error {
	i.b.mu.Lock()
	i.b.captured = append(i.b.captured, c01Tok{kind: 0, pub: pub, sp: sp})
	i.b.mu.Unlock()
	return nil
}
func (i c01Icpt) HandleJoin(string, *ClientInfo) error  { return nil }
func (i c01Icpt) HandleLeave(string, *ClientInfo) error { return nil }

func (b *c01Broker) RegisterBrokerEventHandler(h BrokerEventHandler) error {
	b.h = h
	return b.MemoryBroker.RegisterBrokerEventHandler(c01Icpt{b})
}
func (b *c01Broker) Subscribe(chs ...string) error {
	if h := b.hook; h != nil {
		h("bsub")
	}
	return b.MemoryBroker.Subscribe(chs...)
}
func (b *c01Broker) History(ch string, opts HistoryOptions) ([]*Publication, StreamPosition, error) {
	p, sp, err := b.MemoryBroker.History(ch, opts)
	if h := b.hook; h != nil {
		h("hist")
	}
	return p, sp, err
}
func (b *c01Broker) take() []c01Tok {
	b.mu.Lock()
	defer b.mu.Unlock()
	r := b.captured
	b.captured = nil
	return r
}

type c01Transport struct {
	*testTransport
	w      *c01World
	mu     sync.Mutex
	frames [][]byte // nil entry = Close; code in closeCodes
	codes  []uint32
	closed bool
}

func (t *c01Transport) Write(m []byte) error {
	t.mu.Lock()
	t.frames = append(t.frames, append([]byte(nil), m...))
	t.codes = append(t.codes, 0)
	t.mu.Unlock()
	return nil
}
func (t *c01Transport) WriteMany(ms ...[]byte) error {
	for _, m := range ms {
		_ = t.Write(m)
	}
	return nil
}
func (t *c01Transport) Close(d Disconnect) error {
	t.mu.Lock()
	if !t.closed {
		t.frames = append(t.frames, nil)
		t.codes = append(t.codes, d.Code)
		t.closed = true
	}
	t.mu.Unlock()
	return t.testTransport.Close(d)
}
func (t *c01Transport) DisabledPushFlags() uint64 {
	if atomic.CompareAndSwapInt32(&t.w.armDPF, 1, 0) {
		t.w.gate("dpf")
	}
	return PushFlagDisconnect
}
func (t *c01Transport) isClosed() bool {
	t.mu.Lock()
	defer t.mu.Unlock()
	return t.closed
}
func (t *c01Transport) count() int {
	t.mu.Lock()
	defer t.mu.Unlock()
	return len(t.frames)
}
func (t *c01Transport) snapshot() ([][]byte, []uint32) {
	t.mu.Lock()
	defer t.mu.Unlock()
	return append([][]byte(nil), t.frames...), append([]uint32(nil), t.codes...)
}

// ---- script ----

type c01Op struct {
	K    string `json:"k"` // pub | pub0 | drop | dup | deliver | clear | reset | join | leave
	F    bool   `json:"f,omitempty"`
	Size int    `json:"size,omitempty"`
	I    int    `json:"i,omitempty"`
	Lag  bool   `json:"lag,omitempty"`
	// check: the connection's periodic tick (Client.updatePresence) runs its stream position check
	// for the channel; the tick goroutine is parked when Broker.History has returned the stream top
	// (position snapshot taken, verdict not yet applied) and these steps run there
	// (pub | dup | drop | deliver)
	Mid   []c01Op `json:"mid,omitempty"`
	Unsub int     `json:"unsub,omitempty"` // deliverx: unsubscribe (1 client command, 2 server API) started between CheckPosition and Enqueue
}

type c01Script struct {
	Server  bool `json:"server"`
	Connect bool `json:"connect,omitempty"` // connect-time server-side subscription (ConnectReply.Subscriptions); excludes Server
	Pos     bool `json:"pos"`
	Rec     bool `json:"rec"`
	JL      bool `json:"jl"`
	Batch   bool `json:"batch"` // per-channel batching (MaxDelay), C10 only
	// C10 only, with Batch: GetChannelBatchConfig (an application callback) reports "no batching"
	// exactly while the user-initiated unsubscribe of the script runs (a configuration reload
	// racing the unsubscribe).  No broadcast happens while it is off, so for the code as it stands
	// (which consults the callback only per broadcast) the schedule is unchanged
	BatchReload bool `json:"batch_reload,omitempty"`
	// the channel runs behind a channel medium with SharedPositionSync (direct mode: no queue):
	// publications reach the hub through channelMedium.broadcastPublication, and the "mark" op makes
	// the medium detect a position loss (Node.checkPosition with a lost position, as another
	// subscriber's periodic check would) and broadcast its insufficient-state marker
	Medium bool `json:"medium,omitempty"`
	// the subscription carries no tags filter (every publication of the script is then an
	// unfiltered one): a marker publication has no tags, so a tags filter would hide whatever a
	// subscriber does with it
	NoFilter bool `json:"no_filter,omitempty"`
	// client subscribe command only, with NoFilter: the subscription negotiates fossil delta
	// compression (AllowedDeltaTypes + "delta" in the request).  The driver hands publications to the
	// node without a previous publication, so every push carries the full payload (as an escaped
	// JSON string); what differs is the connection's bookkeeping (flagDeltaAllowed is set in a
	// second lock section after the first publication's position update)
	Delta bool `json:"delta,omitempty"`
	// C38 only, with Medium: the medium runs with its queue, its real writer goroutine and this
	// BroadcastDelay (real time).  Publications are then forwarded asynchronously: the driver hands
	// one to the node and waits until the medium has forwarded it before its next step (so no
	// coalescing happens); only used after the subscribe finished
	MediumDelayMs int `json:"medium_delay_ms,omitempty"`
	// C38 only: another connection subscribes to the channel and unsubscribes again right before
	// the script's subscription starts, so the channel's delayed dissolve job (about 1s) is pending
	// while the script runs
	Resub      bool      `json:"resub,omitempty"`
	SinceDelta int       `json:"since_delta"` // since = max(0, top+delta) at request time
	SinceEp    int       `json:"since_ep"`    // 0 "", 1 current epoch, 2 stale/bogus
	Phase      [][]c01Op `json:"phase"`       // 0 before reserve, 1 after reserve (client), 2 after hub add, 3 after history read, 4 server: after merge, 5 server: after commit, 6 after subscribe, 7 after unsubscribe, 8 after close
	Unsub      int       `json:"unsub"`       // 0 none, 1 client command, 2 server API
	Close      bool      `json:"close"`
}

type c01World struct {
	t          *testing.T
	node       *Node
	br         *c01Broker
	client     *Client
	tr         *c01Transport
	sc         *c01Script
	fl         []c01Tok
	glog       []c01Pub
	byID       map[int]c01Pub
	nextID     int
	curEp      uint64
	epIdx      map[string]uint64
	epStr      map[uint64]string
	sched      []string
	since      uint64
	sinceEp    uint64
	insuff     int32
	insuffH    int32
	armLog     int32
	armDPF     int32
	arrive     chan string
	release    chan struct{}
	subCb      func()
	blocked    chan struct{} // a delivery goroutine parked behind the locked buffer
	locked     bool          // subscribe thread is between LMerge and LStopBuf
	errs       []string
	curPh      int
	phaseOf    map[int]int // publication id -> script phase of its last delivery
	deliv      []string    // Coq frames of the messages handed to the node, in delivery order
	delivK     []string    // the same as comparable keys (pub:<id> | join | leave)
	batchOff   int32
	skew       int64
	subEnd     bool // Client.IsSubscribed(channel) when the schedule ended
	inCheck    bool
	checkDiscs int
	lastLive   string // Coq term: option frame (C38's end-to-end cases)
	cwEnd      int    // items left in the channel's batching writer when the schedule ended
}

func (w *c01World) fail(format string, a ...any) {
	w.errs = append(w.errs, fmt.Sprintf(format, a...))
}

func (w *c01World) gate(name string) {
	w.arrive <- name
	<-w.release
}

func (w *c01World) emit(item string) { w.sched = append(w.sched, item) }
func (w *c01World) emitL(l string)   { w.emit("(HL " + l + ")") }

func c01NewWorld(t *testing.T, sc *c01Script) *c01World {
	w := &c01World{t: t, sc: sc, byID: map[int]c01Pub{}, curEp: 1, epIdx: map[string]uint64{"": 0}, epStr: map[uint64]string{0: ""},
		arrive: make(chan string), release: make(chan struct{})}
	var mediumFn func(string) ChannelMediumOptions
	checkDelay := time.Nanosecond // every tick of the driver checks the position (see opPosCheck)
	if sc.Medium {
		mediumFn = func(string) ChannelMediumOptions {
			o := ChannelMediumOptions{SharedPositionSync: true}
			if sc.MediumDelayMs > 0 {
				o.enableQueue = true
				o.broadcastDelay = time.Duration(sc.MediumDelayMs) * time.Millisecond
			}
			return o
		}
		checkDelay = time.Nanosecond // the shared check's rate limit never suppresses a check
	}
	n, err := New(Config{
		GetChannelMediumOptions:         mediumFn,
		ClientChannelPositionCheckDelay: checkDelay,
		LogLevel:                        LogLevelDebug,
		LogHandler: func(e LogEntry) {
			if strings.HasPrefix(e.Message, "client insufficient state") {
				atomic.AddInt32(&w.insuff, 1)
			}
			if e.Message == "client subscribed to channel" && atomic.CompareAndSwapInt32(&w.armLog, 1, 0) {
				w.gate("log")
			}
		},
		ClientChannelPositionMaxTimeLag: time.Hour,
		GetChannelBatchConfig:           c01BatchFn(w),
	})
	if err != nil {
		t.Fatal(err)
	}
	// the node's clock runs ahead by a driver-controlled number of seconds (the position check is
	// due when at least a second has passed since the last one)
	n.nowTimeGetter = func() time.Time { return time.Now().Add(time.Duration(atomic.LoadInt64(&w.skew)) * time.Second) }
	mb, err := NewMemoryBroker(n, MemoryBrokerConfig{})
	if err != nil {
		t.Fatal(err)
	}
	w.br = &c01Broker{MemoryBroker: mb}
	n.SetBroker(w.br)
	if sc.Connect {
		n.OnConnecting(func(ctx context.Context, e ConnectEvent) (ConnectReply, error) {
			return ConnectReply{Subscriptions: map[string]SubscribeOptions{c01Ch: {
				EnablePositioning: sc.Pos, EnableRecovery: sc.Pos, PushJoinLeave: sc.JL,
				ServerTagsFilter: c01Filter(sc),
			}}}, nil
		})
	}
	n.OnConnect(func(c *Client) {
		c.OnSubscribe(func(e SubscribeEvent, cb SubscribeCallback) {
			w.subCb = func() {
				cb(SubscribeReply{Options: SubscribeOptions{
					EnablePositioning: sc.Pos, EnableRecovery: sc.Pos, AllowTagsFilter: true, PushJoinLeave: sc.JL,
					AllowedDeltaTypes: c01DeltaTypes(sc),
				}}, nil)
			}
		})
	})
	if err := n.Run(); err != nil {
		t.Fatal(err)
	}
	w.node = n
	ctx, cancel := context.WithCancel(context.Background())
	w.tr = &c01Transport{testTransport: newTestTransport(cancel), w: w}
	w.client = newTestClientCustomTransport(t, ctx, n, w.tr, "u1")
	if !sc.Connect {
		connectClientV2(t, w.client)
	}
	w.topOffset() // create the stream: epoch index 1
	return w
}

// per-channel batching: the flush timer is an hour away; the driver fires it itself
// (opFlush), so flushes happen at schedule-chosen points
func c01BatchFn(w *c01World) func(string) ChannelBatchConfig {
	if !w.sc.Batch {
		return nil
	}
	return func(string) ChannelBatchConfig {
		if atomic.LoadInt32(&w.batchOff) == 1 {
			return ChannelBatchConfig{}
		}
		return ChannelBatchConfig{MaxDelay: time.Hour}
	}
}

// the channel writer's timer fires: same effect as channelWriter.waitTimer's timer branch
func (w *c01World) opFlush() {
	pcw := w.client.perChannelWriter
	if pcw == nil {
		return
	}
	pcw.mu.RLock()
	cw := pcw.writers[c01Ch]
	pcw.mu.RUnlock()
	if cw == nil {
		return
	}
	cw.mu.Lock()
	n := len(cw.buffer) + len(cw.latestPubs)
	if n > 0 {
		cw.flushLocked()
	}
	cw.stopTimerLocked()
	cw.mu.Unlock()
	if n > 0 {
		w.emitL("LFlush")
	}
}

// items currently buffered in the channel's batching writer
func (w *c01World) cwLen() int {
	pcw := w.client.perChannelWriter
	if pcw == nil {
		return 0
	}
	pcw.mu.RLock()
	cw := pcw.writers[c01Ch]
	pcw.mu.RUnlock()
	if cw == nil {
		return 0
	}
	cw.mu.Lock()
	defer cw.mu.Unlock()
	return len(cw.buffer) + len(cw.latestPubs)
}

func (w *c01World) epochIndex(s string) uint64 {
	if i, ok := w.epIdx[s]; ok {
		return i
	}
	if _, used := w.epStr[w.curEp]; used {
		return 99 // an epoch string the driver cannot account for
	}
	w.epIdx[s] = w.curEp
	w.epStr[w.curEp] = s
	return w.curEp
}

func (w *c01World) tags(f bool) map[string]string {
	if f {
		return map[string]string{"k": "b"}
	}
	return map[string]string{"k": "a"}
}

func (w *c01World) topOffset() uint64 {
	_, sp, _ := w.br.MemoryBroker.History(c01Ch, HistoryOptions{})
	w.epochIndex(sp.Epoch)
	return sp.Offset
}

// ---- environment operations ----

func c01DeltaReq(sc *c01Script) string {
	if sc.Delta {
		return string(DeltaTypeFossil)
	}
	return ""
}

func c01DeltaTypes(sc *c01Script) []DeltaType {
	if sc.Delta {
		return []DeltaType{DeltaTypeFossil}
	}
	return nil
}

func c01Filter(sc *c01Script) *protocol.FilterNode {
	if sc.NoFilter {
		return nil
	}
	return &protocol.FilterNode{Cmp: "eq", Key: "k", Val: "a"}
}

func (w *c01World) opPublish(f bool, size int) {
	f = f && !w.sc.NoFilter
	w.nextID++
	id := w.nextID
	data, _ := json.Marshal(map[string]int{"i": id})
	res, err := w.node.Publish(c01Ch, data, WithHistory(size, time.Hour), WithTags(w.tags(f)))
	if err != nil {
		w.fail("publish: %v", err)
		return
	}
	ep := w.epochIndex(res.Epoch)
	p := c01Pub{Off: res.Offset, Ep: ep, Filt: f}
	w.byID[id] = p
	w.glog = append(w.glog, p)
	w.takeTokens(id)
	w.emitL(fmt.Sprintf("(LPublish %s %d%%nat)", vBool(f), size))
}

func (w *c01World) opPublishNoHist(f bool) {
	f = f && !w.sc.NoFilter
	w.nextID++
	id := w.nextID
	data, _ := json.Marshal(map[string]int{"i": id})
	if _, err := w.node.Publish(c01Ch, data, WithTags(w.tags(f))); err != nil {
		w.fail("publish0: %v", err)
		return
	}
	p := c01Pub{Off: 0, Ep: 0, Filt: f}
	w.byID[id] = p
	w.glog = append(w.glog, p)
	w.takeTokens(id)
	w.emitL(fmt.Sprintf("(LPublishNoHist %s)", vBool(f)))
}

func (w *c01World) takeTokens(id int) {
	for _, tk := range w.br.take() {
		tk.id = id
		w.fl = append(w.fl, tk)
	}
}

func (w *c01World) opReset() {
	hh := w.br.MemoryBroker.historyHub
	hh.Lock()
	delete(hh.streams, c01Ch)
	hh.Unlock()
	w.curEp++
	w.topOffset() // the new stream (fresh epoch) exists from now on, as in the model
	w.emitL("LEpochReset")
}

func (w *c01World) opClear() {
	_ = w.br.MemoryBroker.RemoveHistory(c01Ch)
	w.emitL("LClearHistory")
}

func (w *c01World) removeTok(i int) c01Tok {
	t := w.fl[i]
	w.fl = append(append([]c01Tok(nil), w.fl[:i]...), w.fl[i+1:]...)
	return t
}

func (w *c01World) noteDelivery(tk c01Tok) {
	switch tk.kind {
	case 0:
		w.deliv = append(w.deliv, vApp("FPub", c01CoqPub(c01Pub{Off: w.byID[tk.id].Off, Ep: w.byID[tk.id].Ep})))
		w.delivK = append(w.delivK, fmt.Sprintf("pub:%d", tk.id))
	case 1:
		w.deliv = append(w.deliv, "FJoin")
		w.delivK = append(w.delivK, "join")
	case 2:
		w.deliv = append(w.deliv, "FLeave")
		w.delivK = append(w.delivK, "leave")
	}
}

func (w *c01World) deliverNow(tk c01Tok, lag bool) {
	if tk.kind == 0 {
		if w.phaseOf == nil {
			w.phaseOf = map[int]int{}
		}
		w.phaseOf[tk.id] = w.curPh
	}
	switch tk.kind {
	case 0:
		pub := tk.pub
		if lag {
			cp := *pub
			cp.Time = time.Now().Add(-2 * time.Hour).UnixMilli()
			pub = &cp
		}
		_ = w.br.h.HandlePublication(c01Ch, pub, tk.sp, false, nil)
	case 1:
		_ = w.br.h.HandleJoin(c01Ch, &ClientInfo{ClientID: "other", UserID: "o"})
	case 2:
		_ = w.br.h.HandleLeave(c01Ch, &ClientInfo{ClientID: "other", UserID: "o"})
	}
}

// after a delivery: run the insufficient-state goroutines it spawned to completion
func (w *c01World) settleInsufficient() {
	for atomic.LoadInt32(&w.insuff) > w.insuffH {
		w.insuffH++
		if (w.sc.Server || w.sc.Connect) && w.inCheck {
			// inside a position check: close() flips the status and closes the transport, then
			// waits for the parked tick before it unsubscribes; the cleanup follows the check
			w.waitFor("server insufficient-state close (transport)", w.tr.isClosed)
			w.emitL("LAsyncDisc")
			w.checkDiscs++
		} else if w.sc.Server || w.sc.Connect {
			w.waitFor("server insufficient-state close", func() bool {
				return w.tr.isClosed() && w.node.hub.NumSubscribers(c01Ch) == 0
			})
			w.emit("HAsyncDisc")
		} else {
			want := int(w.insuffH)
			w.waitFor("insufficient-state unsubscribe push", func() bool {
				if w.tr.isClosed() {
					return true
				}
				return w.countUnsubPush(2500) >= want
			})
			w.emit("(HUnsub UInsuff)")
		}
	}
}

func (w *c01World) countUnsubPush(code uint32) int {
	fr, _ := w.tr.snapshot()
	n := 0
	for _, f := range fr {
		if f != nil && strings.Contains(string(f), fmt.Sprintf(`"unsubscribe":{"code":%d`, code)) {
			n++
		}
	}
	return n
}

func (w *c01World) waitFor(what string, cond func() bool) {
	deadline := time.Now().Add(5 * time.Second)
	for !cond() {
		if time.Now().After(deadline) {
			w.fail("timeout waiting for %s", what)
			return
		}
		time.Sleep(100 * time.Microsecond)
	}
}

func (w *c01World) opDeliver(i int, lag bool) {
	if i >= len(w.fl) || w.blocked != nil {
		return
	}
	tk := w.removeTok(i)
	w.emitL(fmt.Sprintf("(LDeliver %d%%nat %s)", i, vBool(lag)))
	w.noteDelivery(tk)
	willBlock := w.locked && w.sc.Pos && tk.kind == 0 && tk.pub.Offset > 0
	done := make(chan struct{})
	go func() { w.deliverNow(tk, lag); close(done) }()
	if willBlock {
		w.blocked = done
		return
	}
	select {
	case <-done:
	case <-time.After(5 * time.Second):
		w.fail("delivery did not complete")
		return
	}
	if tk.kind == 0 {
		w.waitMediumForward()
		if w.curPh >= 6 && w.sc.MediumDelayMs > 0 {
			p := w.byID[tk.id]
			w.lastLive = "(Some " + vApp("FPub", c01CoqPub(c01Pub{Off: p.Off, Ep: p.Ep})) + ")"
		}
	}
	w.emit("HTail")
	w.settleInsufficient()
}

func (w *c01World) medium() *channelMedium {
	mu := w.node.mediumLock(c01Ch)
	mu.Lock()
	defer mu.Unlock()
	return w.node.mediumShard(c01Ch)[c01Ch]
}

// queue mode: the publication just handed to the node sits in the medium's queue until the
// writer goroutine forwards it (after BroadcastDelay); wait for that, then give the forwarded
// broadcast the time to run through the hub
func (w *c01World) waitMediumForward() {
	if w.sc.MediumDelayMs <= 0 {
		return
	}
	m := w.medium()
	if m == nil || m.messages == nil {
		return // the channel runs without a medium: nothing is queued
	}
	before := w.tr.count()
	deadline := time.Now().Add(time.Duration(w.sc.MediumDelayMs)*time.Millisecond + 15*time.Second) // generous: a loaded machine must not turn into a missing delivery
	for m.messages.Len() > 0 && time.Now().Before(deadline) {
		time.Sleep(500 * time.Microsecond)
	}
	if m.messages.Len() > 0 {
		return // never forwarded (the observed log will tell)
	}
	settle := time.Now().Add(time.Duration(w.sc.MediumDelayMs)*time.Millisecond + 2500*time.Millisecond) // polling: returns as soon as the forwarded broadcast reached the transport; the writer may pop the item first and sit out the delay holding it
	for w.tr.count() == before && time.Now().Before(settle) {
		time.Sleep(200 * time.Microsecond)
	}
}

// another connection's subscription comes and goes: the channel is left with a pending dissolve job
func (w *c01World) priorSubscriber() {
	ctx, cancel := context.WithCancel(context.Background())
	x := newTestClientCustomTransport(w.t, ctx, w.node, newTestTransport(cancel), "u2")
	connectClientV2(w.t, x)
	if !w.sc.Connect { // (a connect-time subscription came with the connect)
		if err := x.Subscribe(c01Ch); err != nil {
			w.fail("prior subscriber: %v", err)
			return
		}
	}
	x.Unsubscribe(c01Ch)
	w.waitFor("prior subscriber gone", func() bool { return w.node.hub.NumSubscribers(c01Ch) == 0 })
}

// A delivery parked between CheckPosition (c.mu released) and Enqueue: the positioned path
// of writePublicationUpdatePosition calls Transport.DisabledPushFlags there.  While it is
// parked an unsubscribe is started in another goroutine: it deletes the channel context and
// then waits for the hub write lock held (read side) by the parked broadcast.
func (w *c01World) opDeliverSplit(i int, unsub int) {
	if i >= len(w.fl) || w.blocked != nil || w.locked {
		return
	}
	if w.fl[i].kind == 0 && w.fl[i].pub.Offset > 0 && !w.sc.Pos {
		// non-positioned path: DisabledPushFlags is called under c.mu, i.e. inside the check
		w.opDeliver(i, false)
		return
	}
	tk := w.removeTok(i)
	w.noteDelivery(tk)
	w.emitL(fmt.Sprintf("(LDeliver %d%%nat false)", i))
	done := make(chan struct{})
	atomic.StoreInt32(&w.armDPF, 1)
	go func() { w.deliverNow(tk, false); close(done) }()
	select {
	case <-done: // never reached the enqueue stage
		atomic.StoreInt32(&w.armDPF, 0)
		w.emit("HTail")
		w.settleInsufficient()
		return
	case g := <-w.arrive:
		if g != "dpf" {
			w.fail("unexpected gate %s", g)
		}
		if atomic.LoadInt32(&w.insuff) > w.insuffH {
			// the delivery took an insufficient-state branch (logged before it spawns the
			// goroutine): it never reaches the enqueue stage itself, the armed gate caught the
			// spawned unsubscribe / disconnect instead
			w.release <- struct{}{}
			select {
			case <-done:
			case <-time.After(5 * time.Second):
				w.fail("delivery did not complete")
				return
			}
			w.emit("HTail")
			w.settleInsufficient()
			return
		}
	case <-time.After(5 * time.Second):
		w.fail("split delivery stuck")
		return
	}
	if tk.kind == 0 {
		w.emit("HPre") // publications: parked after CheckPosition (offset-less ones have no check)
	} // joins / leaves: parked before their flag check
	var udone chan struct{}
	if unsub != 0 && !w.tr.isClosed() {
		udone = make(chan struct{})
		was := w.isSubscribed()
		go func() {
			if unsub == 1 {
				w.client.HandleCommand(&protocol.Command{Id: 11, Unsubscribe: &protocol.UnsubscribeRequest{Channel: c01Ch}}, 0)
			} else {
				w.client.Unsubscribe(c01Ch)
			}
			close(udone)
		}()
		if was {
			// the unsubscribe thread has deleted the context once the channel is gone from c.channels
			w.waitFor("unsubscribe to delete the channel context", func() bool {
				w.client.mu.RLock()
				_, ok := w.client.channels[c01Ch]
				w.client.mu.RUnlock()
				return !ok
			})
		}
		if unsub == 1 {
			w.emitL("(LUnsub UClient)")
		} else {
			w.emitL("(LUnsub UServer)")
		}
	}
	w.release <- struct{}{}
	select {
	case <-done:
	case <-time.After(5 * time.Second):
		w.fail("split delivery did not finish")
	}
	w.emit("HTail")
	if udone != nil {
		select {
		case <-udone:
		case <-time.After(5 * time.Second):
			w.fail("unsubscribe did not finish")
		}
		w.emit("HUnsubRest")
	}
	w.settleInsufficient()
}

// the channel medium detects a position loss and broadcasts its marker (outside the subscribe
// window only: the model has the marker there)
func (w *c01World) opMark() {
	if !w.sc.Medium || w.curPh < 6 || w.blocked != nil || w.locked {
		return
	}
	mu := w.node.mediumLock(c01Ch)
	mu.Lock()
	_, ok := w.node.mediumShard(c01Ch)[c01Ch]
	mu.Unlock()
	if !ok {
		return
	}
	w.emitL("LMarker")
	w.emitL(fmt.Sprintf("(LDeliver %d%%nat false)", len(w.fl)))
	valid, err := w.node.checkPosition(c01Ch, StreamPosition{Offset: 0, Epoch: "c01-lost-position"}, 0, false)
	if err != nil || valid {
		w.fail("medium position check: valid=%v err=%v", valid, err)
	}
	w.emit("HTail")
	w.settleInsufficient()
}

// The periodic position check of the connection (Client.updatePresence -> checkPosition ->
// Node.checkPosition -> Broker.History), with the tick goroutine parked after the broker returned
// the stream top.  On the model: a VALID verdict changes nothing that is modelled (the code as it
// stands re-reads the channel entry and only stamps positionCheckTime), so it has no label; an
// INVALID verdict spawns the same insufficient-state unsubscribe / disconnect, under the same guard
// (subscribed, positioned), as the channel medium's marker reaching the subscription, and is
// replayed as that action (LMarker; LDeliver; LCheck) at the point where the verdict is determined
// (snapshot and stream top read).  Only once the subscribe finished.
func (w *c01World) opPosCheck(mid []c01Op) {
	if w.sc.Medium || !w.sc.Pos || w.curPh < 6 || w.blocked != nil || w.locked || w.tr.isClosed() || !w.isSubscribed() {
		return
	}
	atomic.AddInt64(&w.skew, 2)
	var once int32
	w.br.hook = func(name string) {
		if name == "hist" && atomic.CompareAndSwapInt32(&once, 0, 1) {
			w.gate("check")
		}
	}
	done := make(chan struct{})
	gateIdx, gateFl := -1, 0
	go func() { w.client.updatePresence(); close(done) }()
	select {
	case <-w.arrive:
		// position snapshot and stream top are both read: the verdict is determined here, the
		// driver learns it after the release
		gateIdx, gateFl = len(w.sched), len(w.fl)
		w.inCheck, w.checkDiscs = true, 0
		for _, op := range mid {
			switch op.K {
			case "pub", "dup", "drop", "deliver":
				w.runOps([]c01Op{op})
			}
		}
		w.inCheck = false
		w.release <- struct{}{}
		select {
		case <-done:
		case <-time.After(5 * time.Second):
			w.fail("position check did not finish")
		}
		if w.checkDiscs > 0 {
			w.waitFor("close cleanup after the position check", func() bool { return w.node.hub.NumSubscribers(c01Ch) == 0 })
			w.emitL("LCloseCleanup")
		}
	case <-done: // the tick had nothing to check
	case <-time.After(5 * time.Second):
		w.fail("position check stuck")
	}
	w.br.hook = nil
	if atomic.LoadInt32(&w.insuff) > w.insuffH {
		// invalid verdict ("client insufficient state from periodic check"): the unsubscribe /
		// disconnect is spawned whatever became of the subscription inside the check (the guard
		// was evaluated with the snapshot), so the action sits where the verdict was determined
		if gateIdx < 0 {
			gateIdx, gateFl = len(w.sched), len(w.fl)
		}
		ins := []string{"(HL LMarker)", fmt.Sprintf("(HL (LDeliver %d%%nat false))", gateFl), "HTail"}
		w.sched = append(w.sched[:gateIdx:gateIdx], append(ins, w.sched[gateIdx:]...)...)
		w.settleInsufficient()
	}
}

func (w *c01World) joinBlocked() {
	if w.blocked == nil {
		return
	}
	select {
	case <-w.blocked:
	case <-time.After(5 * time.Second):
		w.fail("blocked delivery did not complete after StopBuffering")
	}
	w.blocked = nil
	w.emit("HTail")
	w.settleInsufficient()
}

func (w *c01World) runOps(ops []c01Op) {
	for _, op := range ops {
		switch op.K {
		case "pub":
			w.opPublish(op.F, op.Size)
		case "pub0":
			w.opPublishNoHist(op.F)
		case "join":
			w.fl = append(w.fl, c01Tok{kind: 1})
			w.emitL("LJoinEv")
		case "leave":
			w.fl = append(w.fl, c01Tok{kind: 2})
			w.emitL("LLeaveEv")
		case "drop":
			if op.I < len(w.fl) {
				w.removeTok(op.I)
				w.emitL(fmt.Sprintf("(LDrop %d%%nat)", op.I))
			}
		case "dup":
			if op.I < len(w.fl) {
				w.fl = append(w.fl, w.fl[op.I])
				w.emitL(fmt.Sprintf("(LDup %d%%nat)", op.I))
			}
		case "deliver":
			w.opDeliver(op.I, op.Lag)
		case "flush":
			w.opFlush()
		case "mark":
			w.opMark()
		case "check":
			w.opPosCheck(op.Mid)
		case "deliverx":
			w.opDeliverSplit(op.I, op.Unsub)
		case "clear":
			w.opClear()
		case "reset":
			w.opReset()
		}
	}
}

func (w *c01World) phase(k int) {
	w.curPh = k
	if k < len(w.sc.Phase) {
		w.runOps(w.sc.Phase[k])
	}
}

func (w *c01World) isSubscribed() bool {
	w.client.mu.RLock()
	defer w.client.mu.RUnlock()
	ctx, ok := w.client.channels[c01Ch]
	return ok && channelHasFlag(ctx.flags, flagSubscribed)
}

// wait for the subscribe goroutine to reach a gate or to finish
func (w *c01World) next(done chan struct{}) string {
	select {
	case g := <-w.arrive:
		return g
	case <-done:
		return "done"
	case <-time.After(5 * time.Second):
		w.fail("subscribe goroutine stuck")
		return "stuck"
	}
}

func (w *c01World) resolveSince() {
	top := w.topOffset()
	s := int64(top) + int64(w.sc.SinceDelta)
	if s < 0 {
		s = 0
	}
	w.since = uint64(s)
	switch w.sc.SinceEp {
	case 0:
		w.sinceEp = 0
	case 1:
		w.sinceEp = w.curEp
	default:
		if w.curEp > 1 {
			w.sinceEp = w.curEp - 1
			if _, ok := w.epStr[w.sinceEp]; !ok {
				w.epStr[w.sinceEp] = fmt.Sprintf("stale%d", w.sinceEp)
				w.epIdx[w.epStr[w.sinceEp]] = w.sinceEp
			}
		} else {
			w.sinceEp = 77
			w.epStr[77] = "bogus"
			w.epIdx["bogus"] = 77
		}
	}
	if !w.sc.Pos || !w.sc.Rec {
		w.since, w.sinceEp = 0, 0
	}
}

func (w *c01World) subscribe() {
	sc := w.sc
	w.resolveSince()
	done := make(chan struct{})
	tf := c01Filter(sc)
	w.br.hook = w.gate
	if sc.Connect {
		req := &protocol.ConnectRequest{Subs: map[string]*protocol.SubscribeRequest{c01Ch: {
			Recover: sc.Pos && sc.Rec, Offset: w.since, Epoch: w.epStr[w.sinceEp]}}}
		w.phase(1)
		go func() { w.client.HandleCommand(&protocol.Command{Id: 1, Connect: req}, 0); close(done) }()
	} else if !sc.Server {
		ok := w.client.HandleCommand(&protocol.Command{Id: 7, Subscribe: &protocol.SubscribeRequest{
			Channel: c01Ch, Recover: sc.Pos && sc.Rec, Offset: w.since, Epoch: w.epStr[w.sinceEp], Tf: tf, Delta: c01DeltaReq(sc)}}, 0)
		if !ok || w.subCb == nil {
			w.fail("subscribe command not accepted")
			w.br.hook = nil
			return
		}
		w.emitL("LReserve")
		w.phase(1)
		go func() { w.subCb(); close(done) }()
	} else {
		opts := []SubscribeOption{WithPositioning(sc.Pos), WithRecovery(sc.Pos), WithPushJoinLeave(sc.JL),
			func(o *SubscribeOptions) { o.ServerTagsFilter = tf }}
		if sc.Pos && sc.Rec {
			opts = append(opts, WithRecoverSince(&StreamPosition{Offset: w.since, Epoch: w.epStr[w.sinceEp]}))
		}
		atomic.StoreInt32(&w.armLog, 1)
		go func() { _ = w.client.Subscribe(c01Ch, opts...); close(done) }()
	}
	stage := 0 // 0: before bsub, 1: after hub add, 2: after hist, 3: after merge (server), 4: after commit (server)
	for {
		g := w.next(done)
		switch g {
		case "bsub":
			if sc.Server || sc.Connect {
				w.emitL("LReserve")
			}
			w.emitL("LStartBuf")
			w.emitL("LHubAdd")
			stage = 1
			w.phase(2)
		case "hist":
			w.emitL("LHistRead")
			stage = 2
			w.phase(3)
		case "log": // server: subscribeCmd is about to return successfully
			if stage < 2 {
				w.emitL("LHistRead")
			}
			w.emitL("LMerge")
			stage = 3
			w.locked = true
			w.phase(4)
			atomic.StoreInt32(&w.armDPF, 1) // the next DisabledPushFlags call is Client.Subscribe's
		case "dpf":
			// Client.Subscribe calls DisabledPushFlags right before it builds the subscribe
			// push: after the commit as the code stands, before it with the push-first patch
			if w.isSubscribed() {
				w.emitL("LCommit")
				stage = 4
			} else {
				stage = 5
			}
			w.phase(5)
		case "done":
			w.br.hook = nil
			atomic.StoreInt32(&w.armLog, 0)
			atomic.StoreInt32(&w.armDPF, 0)
			if stage < 2 {
				w.emitL("LHistRead")
			}
			// (server side: reaching the "log" gate means subscribeCmd succeeded; a delivery parked
			// behind the locked buffer may already have run to an insufficient-state close by the
			// time we look, so the channel map alone is not a reliable witness there)
			if w.isSubscribed() || (sc.Server && stage >= 3) {
				if !sc.Server {
					w.emitL("LMerge")
					w.emitL("LWriteReply")
					w.emitL("LCommit")
				} else {
					if stage < 3 {
						w.emitL("LMerge")
					}
					if stage == 5 {
						w.emitL("LSrvPush")
						w.emitL("LCommit")
					} else {
						if stage < 4 {
							w.emitL("LCommit")
						}
						w.emitL("LSrvPush")
					}
				}
				w.emitL("LStopBuf")
			} else {
				if stage < 3 {
					w.emitL("LMerge")
				}
				w.emitL("LFailStop")
				w.emitL("LFailRollback")
				if !sc.Server {
					w.waitFor("disconnect after failed subscribe / connect", w.tr.isClosed)
					w.waitFor("close cleanup", func() bool { return w.node.hub.NumSubscribers(c01Ch) == 0 })
				}
				w.emitL("LFailDisc")
			}
			w.locked = false
			w.joinBlocked()
			return
		default:
			w.br.hook = nil
			return
		}
		w.release <- struct{}{}
	}
}

func (w *c01World) run() {
	if w.sc.Resub {
		w.priorSubscriber()
	}
	w.phase(0)
	w.subscribe()
	w.phase(6)
	if w.sc.Batch && w.sc.BatchReload {
		atomic.StoreInt32(&w.batchOff, 1)
	}
	switch w.sc.Unsub {
	case 1:
		if !w.tr.isClosed() && w.subFinished() {
			w.client.HandleCommand(&protocol.Command{Id: 9, Unsubscribe: &protocol.UnsubscribeRequest{Channel: c01Ch}}, 0)
			w.emit("(HUnsub UClient)")
		}
	case 2:
		if !w.tr.isClosed() && w.subFinished() {
			w.client.Unsubscribe(c01Ch)
			w.emit("(HUnsub UServer)")
		}
	}
	atomic.StoreInt32(&w.batchOff, 0)
	w.phase(7)
	if w.sc.Close && !w.tr.isClosed() {
		_ = w.client.close(DisconnectForceNoReconnect)
		w.emitL("LClose")
		w.emitL("LCloseCleanup")
	}
	w.phase(8)
	w.cwEnd = w.cwLen()
	w.subEnd = w.client.IsSubscribed(c01Ch)
	// drain the writer
	if !w.tr.isClosed() {
		_ = w.client.Send([]byte(`"c01-end"`))
		w.waitFor("end marker", func() bool {
			if w.tr.isClosed() {
				return true
			}
			fr, _ := w.tr.snapshot()
			for _, f := range fr {
				if f != nil && strings.Contains(string(f), "c01-end") {
					return true
				}
			}
			return false
		})
	}
}

func (w *c01World) subFinished() bool { return true }

// ---- decoding the transport ----

type c01Frame struct {
	K    string   `json:"k"`
	Rec  bool     `json:"rec,omitempty"`
	Pubs []c01Pub `json:"pubs,omitempty"`
	Off  uint64   `json:"off,omitempty"`
	Ep   uint64   `json:"ep,omitempty"`
	Code uint32   `json:"code,omitempty"`
}

func (w *c01World) pubOf(p *protocol.Publication) c01Pub {
	var d struct {
		I int `json:"i"`
	}
	data := p.Data
	if len(data) > 0 && data[0] == '"' { // fossil-delta subscription over JSON: the payload is an escaped string
		var str string
		if json.Unmarshal(data, &str) == nil {
			data = []byte(str)
		}
	}
	_ = json.Unmarshal(data, &d)
	src, ok := w.byID[d.I]
	ep := uint64(98)
	if ok {
		ep = src.Ep
	}
	return c01Pub{Off: p.Offset, Ep: ep, ID: d.I}
}

func (w *c01World) decode() []c01Frame {
	frames, codes := w.tr.snapshot()
	var out []c01Frame
	for i, f := range frames {
		if f == nil {
			code := codes[i]
			if code != 3010 {
				code = 3000
			}
			out = append(out, c01Frame{K: "disc", Code: code})
			continue
		}
		dec := protocol.NewJSONReplyDecoder(f)
		for {
			r, err := dec.Decode()
			if r != nil {
				out = append(out, w.decodeReply(r)...)
			}
			if err != nil {
				break
			}
		}
	}
	return out
}

func (w *c01World) decodeReply(r *protocol.Reply) []c01Frame {
	switch {
	case r.Connect != nil:
		if s := r.Connect.Subs[c01Ch]; s != nil { // connect-time subscription: its result travels in the connect reply
			fr := c01Frame{K: "subreply", Rec: s.Recovered, Off: s.Offset, Ep: w.epochIndex(s.Epoch)}
			for _, p := range s.Publications {
				fr.Pubs = append(fr.Pubs, w.pubOf(p))
			}
			return []c01Frame{fr}
		}
		return nil
	case r.Error != nil:
		return []c01Frame{{K: "error", Code: r.Error.Code}}
	case r.Subscribe != nil:
		s := r.Subscribe
		fr := c01Frame{K: "subreply", Rec: s.Recovered, Off: s.Offset, Ep: w.epochIndex(s.Epoch)}
		for _, p := range s.Publications {
			fr.Pubs = append(fr.Pubs, w.pubOf(p))
		}
		return []c01Frame{fr}
	case r.Unsubscribe != nil:
		return []c01Frame{{K: "unsubreply"}}
	case r.Push != nil:
		p := r.Push
		switch {
		case p.Pub != nil:
			return []c01Frame{{K: "pub", Pubs: []c01Pub{w.pubOf(p.Pub)}}}
		case p.Join != nil:
			return []c01Frame{{K: "join"}}
		case p.Leave != nil:
			return []c01Frame{{K: "leave"}}
		case p.Subscribe != nil:
			return []c01Frame{{K: "subpush", Off: p.Subscribe.Offset, Ep: w.epochIndex(p.Subscribe.Epoch)}}
		case p.Unsubscribe != nil:
			return []c01Frame{{K: "unsubpush", Code: p.Unsubscribe.Code}}
		case p.Message != nil:
			return nil
		case p.Disconnect != nil:
			return nil
		}
	}
	return []c01Frame{{K: "unknown"}}
}

func c01CoqPub(p c01Pub) string { return vApp("mkP", vN(p.Off), vN(p.Ep), vBool(p.Filt)) }
func c01CoqPubs(ps []c01Pub) string {
	xs := make([]string, len(ps))
	for i, p := range ps {
		xs[i] = c01CoqPub(p)
	}
	return vList(xs)
}
func c01CoqFrames(fs []c01Frame) string {
	xs := make([]string, 0, len(fs))
	for _, f := range fs {
		switch f.K {
		case "subreply":
			xs = append(xs, vApp("FSubReply", vBool(f.Rec), c01CoqPubs(f.Pubs), vN(f.Off), vN(f.Ep)))
		case "subpush":
			xs = append(xs, vApp("FSubPush", vN(f.Off), vN(f.Ep)))
		case "pub":
			xs = append(xs, vApp("FPub", c01CoqPub(f.Pubs[0])))
		case "join":
			xs = append(xs, "FJoin")
		case "leave":
			xs = append(xs, "FLeave")
		case "unsubreply":
			xs = append(xs, "FUnsubReply")
		case "unsubpush":
			xs = append(xs, vApp("FUnsubPush", vN(uint64(f.Code))))
		case "disc":
			xs = append(xs, vApp("FDisconnect", vN(uint64(f.Code))))
		default: // error reply / unknown: no model counterpart -> makes corr fail visibly
			xs = append(xs, vApp("FDisconnect", vN(9000+uint64(f.Code))))
		}
	}
	return vList(xs)
}

func (w *c01World) caseTerm(frames []c01Frame) string {
	variant := "VClient"
	if w.sc.Server {
		variant = "VServer"
	}
	if w.sc.Connect {
		variant = "VConnect"
	}
	return vApp("mkCase", variant, vBool(w.sc.Pos), vBool(w.sc.Pos && w.sc.Rec), vN(w.since), vN(w.sinceEp), vBool(w.sc.JL), vBool(w.sc.Batch),
		vList(w.sched), c01CoqFrames(frames), c01CoqPubs(w.glog), vN(uint64(w.cwEnd)), vBool(w.subEnd), vList(w.deliv))
}

// ---- classification helpers (for the evidence histogram and finding keys) ----

func c01Recv(frames []c01Frame) (bool, uint64, []uint64, bool) {
	started, ended, afterEnd := false, false, false
	var p0 uint64
	var r []uint64
	for _, f := range frames {
		switch f.K {
		case "subreply", "subpush":
			if !started {
				started = true
				p0 = f.Off
				for _, p := range f.Pubs {
					r = append(r, p.Off)
				}
			}
		case "pub":
			if f.Pubs[0].Off != 0 {
				if started {
					r = append(r, f.Pubs[0].Off)
				}
				if ended {
					afterEnd = true
				}
			}
		case "unsubreply", "unsubpush", "disc":
			ended = true
		}
	}
	return started, p0, r, afterEnd
}

// the finding key names the code path when the observed log breaks C01 (mirrors the oracle,
// used only to label replays; the verdict is the Coq oracle's)
func c01Key(sc *c01Script, frames []c01Frame, glog []c01Pub) string {
	started, p0, r, afterEnd := c01Recv(frames)
	if !sc.Pos || !started {
		return "ok"
	}
	bad := afterEnd
	prev := p0
	seen := map[uint64]bool{}
	for _, o := range r {
		if o <= prev {
			bad = true
		}
		prev = o
		seen[o] = true
	}
	withheld := map[uint64]bool{}
	for _, p := range glog {
		if p.Filt {
			withheld[p.Off] = true
		}
	}
	if len(r) > 0 {
		for o := p0 + 1; o <= r[len(r)-1] && o-p0 < 1000; o++ {
			if !seen[o] && !withheld[o] {
				bad = true
			}
		}
	}
	if !bad {
		return "ok"
	}
	// a live publication (pushed after the subscribe reply / push) whose offset does not exceed the
	// previous LIVE one: the position went backwards while subscribed (none of the recorded
	// findings: those concern the recovered range of the reply)
	var lastLive uint64
	haveLive := false
	for _, f := range frames {
		if f.K == "pub" && len(f.Pubs) == 1 && f.Pubs[0].Off > 0 {
			if haveLive && f.Pubs[0].Off <= lastLive {
				return "live-position-went-backwards"
			}
			lastLive, haveLive = f.Pubs[0].Off, true
		}
	}
	// a hole strictly between two publications that are BOTH inside the subscribe reply is
	// the merge's own gap check failing (not the known unanchored-reply finding)
	for _, f := range frames {
		if f.K != "subreply" {
			continue
		}
		for k := 1; k < len(f.Pubs); k++ {
			a, b := f.Pubs[k-1].Off, f.Pubs[k].Off
			if b <= a {
				return "reply-not-sorted"
			}
			for o := a + 1; o < b; o++ {
				if !withheld[o] {
					return "merge-gap-inside-reply"
				}
			}
		}
		break
	}
	if sc.Server && sc.Rec {
		return "serverside-recover-since"
	}
	if !sc.Server && sc.Rec {
		return "recover-reply-unanchored"
	}
	return "other"
}

func (w *c01World) shutdown() {
	_ = w.node.Shutdown(context.Background())
}

// ---- script generation ----

func c01RandOps(r *rand.Rand, n int, jl bool) []c01Op {
	var ops []c01Op
	for k := 0; k < n; k++ {
		x := r.Intn(100)
		switch {
		case x < 34:
			size := 100
			if r.Intn(8) == 0 {
				size = 1 + r.Intn(3)
			}
			ops = append(ops, c01Op{K: "pub", F: r.Intn(5) == 0, Size: size})
		case x < 70:
			i := 0
			if r.Intn(4) == 0 {
				i = r.Intn(3)
			}
			ops = append(ops, c01Op{K: "deliver", I: i, Lag: r.Intn(25) == 0})
		case x < 79:
			ops = append(ops, c01Op{K: "drop", I: r.Intn(2)})
		case x < 86:
			ops = append(ops, c01Op{K: "dup", I: r.Intn(2)})
		case x < 90:
			ops = append(ops, c01Op{K: "pub0", F: r.Intn(5) == 0})
		case x < 93:
			ops = append(ops, c01Op{K: "clear"})
		case x < 96:
			ops = append(ops, c01Op{K: "reset"})
		default:
			if jl {
				if r.Intn(2) == 0 {
					ops = append(ops, c01Op{K: "join"})
				} else {
					ops = append(ops, c01Op{K: "leave"})
				}
			} else {
				ops = append(ops, c01Op{K: "pub", Size: 100})
			}
		}
	}
	return ops
}

func c01RandScript(r *rand.Rand, pos bool, jl bool) *c01Script {
	sc := &c01Script{Server: r.Intn(2) == 0, Pos: pos, Rec: r.Intn(3) != 0, JL: jl}
	sc.SinceDelta = []int{0, 0, 0, -1, -1, -2, -3, 1, -100}[r.Intn(9)]
	sc.SinceEp = []int{1, 1, 1, 1, 0, 0, 2}[r.Intn(7)]
	sc.Phase = make([][]c01Op, 9)
	sc.Phase[0] = c01RandOps(r, r.Intn(6), jl)
	for k := 1; k <= 5; k++ {
		sc.Phase[k] = c01RandOps(r, r.Intn(4), jl)
	}
	sc.Phase[6] = c01RandOps(r, r.Intn(8), jl)
	if r.Intn(4) == 0 {
		sc.Unsub = 1 + r.Intn(2)
		sc.Phase[7] = c01RandOps(r, r.Intn(4), jl)
	}
	if r.Intn(8) == 0 {
		sc.Close = true
		sc.Phase[8] = c01RandOps(r, r.Intn(3), jl)
	}
	// (drawn last, so that the client / server scripts of a given seed stay what they were)
	if !sc.Server && r.Intn(3) == 0 {
		sc.Connect = true
	}
	c01AddMedium(r, sc)
	c01AddChecks(r, sc)
	return sc
}

// periodic position checks among the live steps of a positioned subscription (no medium: there the
// check is the medium's), some with a publication delivered inside the check and a duplicate after it
func c01AddChecks(r *rand.Rand, sc *c01Script) {
	if sc.Medium || !sc.Pos || r.Intn(3) != 0 {
		return
	}
	for k := 0; k < 1+r.Intn(2); k++ {
		chk := c01Op{K: "check"}
		var after []c01Op
		switch r.Intn(4) {
		case 0:
			chk.Mid = []c01Op{c01P(r.Intn(6) == 0), {K: "dup", I: 0}, c01D(0)}
			after = []c01Op{c01D(0)}
		case 1:
			chk.Mid = []c01Op{c01P(false), c01D(0)}
		case 2:
			chk.Mid = c01RandOps(r, 1+r.Intn(3), false)
		}
		ops := sc.Phase[6]
		at := r.Intn(len(ops) + 1)
		ins := append([]c01Op{chk}, after...)
		sc.Phase[6] = append(ops[:at:at], append(ins, ops[at:]...)...)
	}
}

// a third of the scripts run behind a channel medium; half of those see a marker
func c01AddMedium(r *rand.Rand, sc *c01Script) {
	if r.Intn(3) != 0 {
		return
	}
	sc.Medium = true
	sc.NoFilter = r.Intn(2) == 0
	if r.Intn(2) == 0 {
		ph := 6
		if sc.Unsub != 0 && r.Intn(3) == 0 {
			ph = 7
		}
		ops := sc.Phase[ph]
		at := r.Intn(len(ops) + 1)
		ops = append(ops[:at:at], append([]c01Op{{K: "mark"}}, ops[at:]...)...)
		sc.Phase[ph] = ops
	}
}

func c01P(f bool) c01Op           { return c01Op{K: "pub", F: f, Size: 100} }
func c01D(i int) c01Op            { return c01Op{K: "deliver", I: i} }
func c01Ops(ops ...c01Op) []c01Op { return ops }
func c01Phases(m map[int][]c01Op) [][]c01Op {
	ph := make([][]c01Op, 9)
	for k, v := range m {
		ph[k] = v
	}
	return ph
}

func c01Corpus() []*c01Script {
	P, D := c01P, c01D
	drop := func(i int) c01Op { return c01Op{K: "drop", I: i} }
	return []*c01Script{
		// 0: plain positioned subscribe, live pubs in order
		{Pos: true, Phase: c01Phases(map[int][]c01Op{0: c01Ops(P(false), P(false), D(0), D(0)), 6: c01Ops(P(false), D(0), P(true), D(0), P(false), D(0))})},
		// 1: recovery with publications in history and in the buffer
		{Pos: true, Rec: true, SinceDelta: -2, SinceEp: 1, Phase: c01Phases(map[int][]c01Op{0: c01Ops(P(false), P(false), P(false), D(0), D(0), D(0)), 2: c01Ops(P(false), D(0)), 3: c01Ops(P(false), D(0)), 6: c01Ops(P(false), D(0))})},
		// 2: FINDING recover-reply-unanchored: up-to-date position, PUB/SUB drop inside the window
		{Pos: true, Rec: true, SinceDelta: 0, SinceEp: 1, Phase: c01Phases(map[int][]c01Op{0: c01Ops(P(false), P(false), D(0), D(0)), 3: c01Ops(P(false), P(false), drop(0), D(0)), 6: c01Ops(P(false), D(0))})},
		// 3: FINDING serverside-recover-since: no fault at all
		{Server: true, Pos: true, Rec: true, SinceDelta: -2, SinceEp: 1, Phase: c01Phases(map[int][]c01Op{0: c01Ops(P(false), P(false), P(false), D(0), D(0), D(0)), 6: c01Ops(P(false), D(0))})},
		// 4: live gap -> insufficient-state unsubscribe (client side)
		{Pos: true, Phase: c01Phases(map[int][]c01Op{6: c01Ops(P(false), P(false), drop(0), D(0), P(false), D(0))})},
		// 5: live gap -> insufficient-state disconnect (server side)
		{Server: true, Pos: true, Phase: c01Phases(map[int][]c01Op{6: c01Ops(P(false), P(false), drop(0), D(0), P(false), D(0))})},
		// 6: epoch reset while subscribed
		{Pos: true, Phase: c01Phases(map[int][]c01Op{0: c01Ops(P(false), D(0)), 6: c01Ops(c01Op{K: "reset"}, P(false), D(0))})},
		// 7: lagging delivery
		{Pos: true, Phase: c01Phases(map[int][]c01Op{6: c01Ops(P(false), c01Op{K: "deliver", Lag: true})})},
		// 8: duplicates and reordering of live deliveries
		{Pos: true, Phase: c01Phases(map[int][]c01Op{6: c01Ops(P(false), P(false), c01Op{K: "dup", I: 0}, D(1), D(0), D(0), P(false), D(0))})},
		// 9: merge detects a gap between history and buffer -> disconnect insufficient state
		{Pos: true, Rec: true, SinceDelta: -1, SinceEp: 1, Phase: c01Phases(map[int][]c01Op{0: c01Ops(P(false), P(false), D(0), D(0)), 3: c01Ops(P(false), P(false), drop(0), D(0))})},
		// 10: history trimmed below the requested position -> not recovered
		{Pos: true, Rec: true, SinceDelta: -3, SinceEp: 1, Phase: c01Phases(map[int][]c01Op{0: c01Ops(P(false), P(false), P(false), c01Op{K: "pub", Size: 1}), 6: c01Ops(P(false), D(4))})},
		// 11: server side, delivery parked behind the locked buffer between merge and commit
		{Server: true, Pos: true, Phase: c01Phases(map[int][]c01Op{0: c01Ops(P(false), D(0)), 4: c01Ops(P(false), D(0)), 6: c01Ops(P(false), D(0))})},
		// 12: server side, delivery parked between commit and push
		{Server: true, Pos: true, Phase: c01Phases(map[int][]c01Op{5: c01Ops(P(false), D(0)), 6: c01Ops(P(false), D(0))})},
		// 13: unsubscribe, then deliveries
		{Pos: true, Unsub: 1, Phase: c01Phases(map[int][]c01Op{6: c01Ops(P(false), D(0)), 7: c01Ops(P(false), D(0))})},
		// 14: filtered publications in history, buffer and live
		{Pos: true, Rec: true, SinceDelta: -2, SinceEp: 1, Phase: c01Phases(map[int][]c01Op{0: c01Ops(P(false), P(true), P(false), D(0), D(0), D(0)), 3: c01Ops(P(true), D(0), P(false), D(0)), 6: c01Ops(P(true), D(0), P(false), D(0))})},
		// 15: stale duplicate delivered into the recovery window (dup fault)
		{Pos: true, Rec: true, SinceDelta: 0, SinceEp: 1, Phase: c01Phases(map[int][]c01Op{0: c01Ops(P(false), P(false), c01Op{K: "dup", I: 1}, D(0), D(0)), 3: c01Ops(D(0)), 6: c01Ops(P(false), D(0))})},
		// 16: trailing filtered marker after a dropped publication inside the window
		{Pos: true, Rec: true, SinceDelta: 0, SinceEp: 1, Phase: c01Phases(map[int][]c01Op{0: c01Ops(P(false), D(0)), 3: c01Ops(P(false), D(0), P(false), drop(0), P(true), D(0)), 6: c01Ops(P(false), D(0))})},
		// 17: wrong epoch requested
		{Pos: true, Rec: true, SinceDelta: 0, SinceEp: 2, Phase: c01Phases(map[int][]c01Op{0: c01Ops(P(false), D(0)), 6: c01Ops(P(false), D(0))})},
		// 19 (appended below): leading filtered offsets in history + PUB/SUB losses before a buffered publication
		// 18: close, then deliveries
		{Pos: true, Close: true, Phase: c01Phases(map[int][]c01Op{6: c01Ops(P(false), D(0)), 8: c01Ops(P(false), D(0))})},
		// 19: two leading filtered offsets in the recovered range, then two deliveries lost after the
		// history read and a later one buffered: the merge must refuse (hole 4,5 between 3 and 6)
		{Pos: true, Rec: true, SinceDelta: -100, SinceEp: 1, Phase: c01Phases(map[int][]c01Op{0: c01Ops(P(true), P(true), P(false), D(0), D(0), D(0)), 3: c01Ops(P(false), P(false), P(false), drop(0), drop(0), D(0))})},
		// 20: same with a duplicated filtered marker (dup fault) instead of two distinct ones
		{Pos: true, Rec: true, SinceDelta: -100, SinceEp: 1, Phase: c01Phases(map[int][]c01Op{0: c01Ops(P(true), P(false), D(1)), 3: c01Ops(c01Op{K: "dup", I: 0}, D(0), D(0), P(false), P(false), P(false), drop(0), drop(0), D(0))})},
		// 21: server side, same shape
		{Server: true, Pos: true, Rec: true, SinceDelta: -100, SinceEp: 1, Phase: c01Phases(map[int][]c01Op{0: c01Ops(P(true), P(true), P(false), D(0), D(0), D(0)), 3: c01Ops(P(false), P(false), P(false), drop(0), drop(0), D(0))})},
		// 22: connect-time server-side subscription (ConnectReply.Subscriptions), positioned, live pubs
		{Connect: true, Pos: true, Phase: c01Phases(map[int][]c01Op{0: c01Ops(P(false), P(false), D(0), D(0)), 2: c01Ops(P(false), D(0)), 6: c01Ops(P(false), D(0), P(true), D(0), P(false), D(0))})},
		// 23: connect-time, recovery from history and buffer (the result travels inside the connect reply)
		{Connect: true, Pos: true, Rec: true, SinceDelta: -2, SinceEp: 1, Phase: c01Phases(map[int][]c01Op{0: c01Ops(P(false), P(false), P(false), D(0), D(0), D(0)), 2: c01Ops(P(false), D(0)), 3: c01Ops(P(false), D(0)), 6: c01Ops(P(false), D(0))})},
		// 24: connect-time, FINDING recover-reply-unanchored (same shape as case 2)
		{Connect: true, Pos: true, Rec: true, SinceDelta: 0, SinceEp: 1, Phase: c01Phases(map[int][]c01Op{0: c01Ops(P(false), P(false), D(0), D(0)), 3: c01Ops(P(false), P(false), drop(0), D(0)), 6: c01Ops(P(false), D(0))})},
		// 25: connect-time, merge detects the gap -> the connect fails with disconnect insufficient state
		{Connect: true, Pos: true, Rec: true, SinceDelta: -1, SinceEp: 1, Phase: c01Phases(map[int][]c01Op{0: c01Ops(P(false), P(false), D(0), D(0)), 3: c01Ops(P(false), P(false), drop(0), D(0))})},
		// 26: connect-time, live gap -> insufficient state disconnects (server-side subscription)
		{Connect: true, Pos: true, Phase: c01Phases(map[int][]c01Op{6: c01Ops(P(false), P(false), drop(0), D(0), P(false), D(0))})},
		// 27: connect-time, not recovered (trimmed history), then server-side unsubscribe and late deliveries
		{Connect: true, Pos: true, Rec: true, SinceDelta: -3, SinceEp: 1, Unsub: 2, Phase: c01Phases(map[int][]c01Op{0: c01Ops(P(false), P(false), P(false), c01Op{K: "pub", Size: 1}), 6: c01Ops(P(false), D(4)), 7: c01Ops(P(false), D(0))})},
		// 28: connect-time, client unsubscribe command, then close
		{Connect: true, Pos: true, Unsub: 1, Close: true, Phase: c01Phases(map[int][]c01Op{6: c01Ops(P(false), D(0)), 7: c01Ops(P(false), D(0)), 8: c01Ops(P(false), D(0))})},
		// 32-34 (below): the periodic position check
		// 29: behind a channel medium (shared position sync): the marker ends a positioned subscription
		{Medium: true, Pos: true, Phase: c01Phases(map[int][]c01Op{0: c01Ops(P(false), D(0)), 6: c01Ops(P(false), D(0), c01Op{K: "mark"}, P(false), D(0))})},
		// 30: same, server-side subscription (disconnect), recovery on
		{Medium: true, Server: true, Pos: true, Rec: true, SinceDelta: 0, SinceEp: 1, Phase: c01Phases(map[int][]c01Op{0: c01Ops(P(false), D(0)), 6: c01Ops(P(false), D(0), c01Op{K: "mark"}, P(false), D(0))})},
		// 31: the marker is invisible to a non-positioned subscription
		{Medium: true, NoFilter: true, Phase: c01Phases(map[int][]c01Op{6: c01Ops(P(false), D(0), c01Op{K: "mark"}, P(false), D(0))})},
		// 32: a publication is delivered while the position check waits for the stream top; a duplicated
		// PUB/SUB copy of it arrives afterwards: it must be recognised as already delivered
		{Pos: true, Phase: c01Phases(map[int][]c01Op{0: c01Ops(P(false), P(false), D(0), D(0)), 6: c01Ops(P(false), D(0), c01Op{K: "check", Mid: c01Ops(P(false), c01Op{K: "dup", I: 0}, D(0))}, D(0), P(false), D(0))})},
		// 33: same, server-side subscription with recovery on
		{Server: true, Pos: true, Rec: true, SinceDelta: 0, SinceEp: 1, Phase: c01Phases(map[int][]c01Op{0: c01Ops(P(false), D(0)), 6: c01Ops(c01Op{K: "check", Mid: c01Ops(P(false), c01Op{K: "dup", I: 0}, D(0))}, D(0), c01Op{K: "check"}, P(false), D(0))})},
		// 34: the check detects a lost publication (published, never delivered): insufficient state
		{Pos: true, Phase: c01Phases(map[int][]c01Op{6: c01Ops(P(false), D(0), P(false), drop(0), c01Op{K: "check"}, P(false), D(0))})},
	}
}

// a random script of the shape "filtered offsets early in the recovered range, losses right
// after the history read, a later publication buffered"
func c01ShapedScript(r *rand.Rand) *c01Script {
	sc := &c01Script{Server: r.Intn(3) == 0, Pos: true, Rec: true, SinceDelta: -100, SinceEp: 1}
	sc.Phase = make([][]c01Op, 9)
	nf := 1 + r.Intn(3)
	var p0 []c01Op
	for k := 0; k < nf; k++ {
		p0 = append(p0, c01P(true))
	}
	for k := 0; k < 1+r.Intn(2); k++ {
		p0 = append(p0, c01P(r.Intn(4) == 0))
	}
	n0 := len(p0)
	if r.Intn(3) == 0 {
		p0 = append(p0, c01Op{K: "dup", I: 0}) // a duplicated filtered marker, delivered into the window below
	}
	for k := 0; k < n0; k++ {
		p0 = append(p0, c01D(0))
	}
	sc.Phase[0] = p0
	lost := 1 + r.Intn(nf+1)
	var p3 []c01Op
	if len(p0) > 2*n0 { // the duplicate is still in flight: deliver it into the buffer
		p3 = append(p3, c01D(0))
	}
	for k := 0; k <= lost; k++ {
		p3 = append(p3, c01P(r.Intn(6) == 0))
	}
	for k := 0; k < lost; k++ {
		p3 = append(p3, c01Op{K: "drop", I: 0})
	}
	p3 = append(p3, c01D(0))
	sc.Phase[3] = p3
	sc.Phase[6] = c01RandOps(r, r.Intn(4), false)
	if !sc.Server && r.Intn(3) == 0 {
		sc.Connect = true
	}
	return sc
}

func c01RunCase(t *testing.T, w *verifW, i int, sc *c01Script, class string) {
	world := c01NewWorld(t, sc)
	func() {
		defer func() {
			if e := recover(); e != nil {
				world.fail("panic: %v", e)
			}
		}()
		world.run()
	}()
	frames := world.decode()
	world.shutdown()
	if len(world.errs) > 0 {
		frames = append(frames, c01Frame{K: "unknown", Code: 999})
		class = "driver-error"
		t.Logf("case %d: %v", i, world.errs)
	}
	key := c01Key(sc, frames, world.glog)
	started, _, r, _ := c01Recv(frames)
	faults := 0
	for _, ph := range sc.Phase {
		for _, op := range ph {
			if op.K == "drop" || op.K == "dup" || op.K == "reset" || op.K == "clear" || op.Lag || (op.K == "deliver" && op.I > 0) {
				faults++
			}
		}
	}
	nontrivial := sc.Pos && started && (len(r) > 0 || faults > 0)
	variant := "client"
	if sc.Server {
		variant = "server"
	}
	if sc.Connect {
		variant = "connect"
	}
	if sc.Pos && sc.Rec {
		variant += "/recover"
	} else if sc.Pos {
		variant += "/positioned"
	} else {
		variant += "/plain"
	}
	if class == "" {
		class = variant
		if key != "ok" {
			class += "/VIOLATES"
		}
	}
	w.Case(i, world.caseTerm(frames), map[string]any{"script": sc, "since": world.since, "since_ep": world.sinceEp,
		"sched": strings.Join(world.sched, " "), "frames": frames, "glog": world.glog, "finding": key, "errors": world.errs}, class, nontrivial)
}

func TestVerifC01(t *testing.T) {
	w := verifOpen(t, "C01")
	defer w.Close()
	corpus := c01Corpus()
	for i := 0; i < w.N; i++ {
		if !w.Want(i) {
			continue
		}
		r := w.Rand(i)
		var sc *c01Script
		if i < len(corpus) {
			sc = corpus[i]
			if sc.Phase == nil {
				sc.Phase = make([][]c01Op, 9)
			}
		} else if r.Intn(8) == 0 {
			sc = c01ShapedScript(r)
		} else {
			sc = c01RandScript(r, r.Intn(12) != 0, false)
		}
		c01RunCase(t, w, i, sc, "")
	}
}
