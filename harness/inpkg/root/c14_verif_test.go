package centrifuge

// C14 driver: fossil-delta subscribers (JSON and Protobuf) on positioned stream channels, on
// unpositioned channels (with and without the channel medium's KeepLatestPublication) and on map
// channels of the REAL node.  Every delivered push is fed to a reference client that applies the
// real fdelta.Apply and is compared byte for byte with the published payload.  The byte strings are
// interned and the library calls (Create/Apply/escape/unescape) tabulated for the Coq side.

import (
	"bytes"
	"context"
	stdjson "encoding/json"
	"fmt"
	"math/rand"
	"sort"
	"sync"
	"testing"
	"time"

	"github.com/centrifugal/centrifuge/internal/convert"
	"github.com/centrifugal/protocol"
	segjson "github.com/segmentio/encoding/json"
	fdelta "github.com/shadowspore/fossil-delta"
)

// ---------------------------------------------------------------- gates: PUB/SUB delivery between broker and node

type c14Delivery struct {
	pub   *Publication
	sp    StreamPosition
	delta bool
	prev  *Publication
}

type c14Handler struct {
	inner BrokerEventHandler
	mu    sync.Mutex
	drop  map[string]int
	log   map[string][]c14Delivery
}

func (h *c14Handler) HandlePublication(ch string, pub *Publication, sp StreamPosition, delta bool, prev *Publication) error {
	h.mu.Lock()
	h.log[ch] = append(h.log[ch], c14Delivery{pub, sp, delta, prev})
	if h.drop[ch] > 0 {
		h.drop[ch]--
		h.mu.Unlock()
		return nil // lost between broker and node (at-most-once PUB/SUB)
	}
	h.mu.Unlock()
	return h.inner.HandlePublication(ch, pub, sp, delta, prev)
}
func (h *c14Handler) HandleJoin(ch string, info *ClientInfo) error  { return h.inner.HandleJoin(ch, info) }
func (h *c14Handler) HandleLeave(ch string, info *ClientInfo) error { return h.inner.HandleLeave(ch, info) }

func c14NewHandler() *c14Handler {
	return &c14Handler{drop: map[string]int{}, log: map[string][]c14Delivery{}}
}

type c14Broker struct {
	*MemoryBroker
	h    *c14Handler
	mu   sync.Mutex
	hist map[string]*[2]func() // channel -> publishes before / after the history read of the next subscribe
}

// publications made around the history read of a recovering subscribe reach the client's subscribe
// buffer (it already is in the hub) and are merged with the history into the reply
func (b *c14Broker) History(ch string, opts HistoryOptions) ([]*Publication, StreamPosition, error) {
	b.mu.Lock()
	w := b.hist[ch]
	delete(b.hist, ch)
	b.mu.Unlock()
	if w != nil && w[0] != nil {
		w[0]()
	}
	pubs, sp, err := b.MemoryBroker.History(ch, opts)
	if w != nil && w[1] != nil {
		w[1]()
	}
	return pubs, sp, err
}

func (b *c14Broker) RegisterBrokerEventHandler(h BrokerEventHandler) error {
	b.h.inner = h
	return b.MemoryBroker.RegisterBrokerEventHandler(b.h)
}

type c14MapBroker struct {
	*MemoryMapBroker
	h    *c14Handler
	node *Node
	mu   sync.Mutex
	win  map[string]*[2]func() // channel -> writer operations before / after the stream read of a live transition
}

// the stream read made while the client already is in the hub is the live transition's read: writer
// operations placed around it land in the subscribe buffer
func (b *c14MapBroker) ReadStream(ctx context.Context, ch string, opts MapReadStreamOptions) (MapStreamResult, error) {
	var w *[2]func()
	if opts.Filter.Limit != 0 && b.node.hub.NumSubscribers(ch) > 0 {
		b.mu.Lock()
		w = b.win[ch]
		delete(b.win, ch)
		b.mu.Unlock()
	}
	if w != nil && w[0] != nil {
		w[0]()
	}
	res, err := b.MemoryMapBroker.ReadStream(ctx, ch, opts)
	if w != nil && w[1] != nil {
		w[1]()
	}
	return res, err
}

func (b *c14MapBroker) RegisterEventHandler(h BrokerEventHandler) error {
	b.h.inner = h
	return b.MemoryMapBroker.RegisterEventHandler(b.h)
}

// ---------------------------------------------------------------- environment

type c14Env struct {
	t       *testing.T
	node    *Node
	sb      *c14Broker
	mb      *c14MapBroker
	mu      sync.Mutex
	subOpts map[string]SubscribeOptions
	keep    map[string]bool // channel -> medium with KeepLatestPublication
	fx      bool            // probed: delta withheld after a recovery that did not deliver the top publication
	fxm     bool            // probed: delta not negotiated for a map subscription with a tags filter
}

func c14NewEnv(t *testing.T) *c14Env {
	e := &c14Env{t: t, subOpts: map[string]SubscribeOptions{}, keep: map[string]bool{}}
	node, err := New(Config{
		LogLevel:   LogLevelNone,
		LogHandler: func(LogEntry) {},
		GetChannelMediumOptions: func(ch string) ChannelMediumOptions {
			e.mu.Lock()
			defer e.mu.Unlock()
			return ChannelMediumOptions{KeepLatestPublication: e.keep[ch]}
		},
		Map: MapConfig{GetMapChannelOptions: func(ch string) MapChannelOptions {
			return MapChannelOptions{Mode: MapModeRecoverable, KeyTTL: 600 * time.Second, MinPageSize: 1}
		}},
	})
	if err != nil {
		t.Fatal(err)
	}
	mb, err := NewMemoryBroker(node, MemoryBrokerConfig{})
	if err != nil {
		t.Fatal(err)
	}
	e.sb = &c14Broker{MemoryBroker: mb, h: c14NewHandler(), hist: map[string]*[2]func(){}}
	node.SetBroker(e.sb)
	mmb, err := NewMemoryMapBroker(node, MemoryMapBrokerConfig{})
	if err != nil {
		t.Fatal(err)
	}
	e.mb = &c14MapBroker{MemoryMapBroker: mmb, h: c14NewHandler(), node: node, win: map[string]*[2]func(){}}
	node.SetMapBroker(e.mb)
	node.OnConnect(func(client *Client) {
		client.OnSubscribe(func(ev SubscribeEvent, cb SubscribeCallback) {
			e.mu.Lock()
			o := e.subOpts[ev.Channel]
			e.mu.Unlock()
			cb(SubscribeReply{Options: o}, nil)
		})
	})
	if err := node.Run(); err != nil {
		t.Fatal(err)
	}
	e.node = node
	return e
}

// ---------------------------------------------------------------- interning + library tables

type c14Tab struct {
	ids     map[string]uint64
	strs    [][]byte
	create  map[[2]uint64]uint64
	apply   map[[2]uint64]int64 // -1 = error
	esc     map[uint64]uint64
	contrOK bool
}

func c14NewTab() *c14Tab {
	return &c14Tab{ids: map[string]uint64{}, strs: [][]byte{nil}, create: map[[2]uint64]uint64{}, apply: map[[2]uint64]int64{},
		esc: map[uint64]uint64{}, contrOK: true}
}

func (t *c14Tab) id(b []byte) uint64 {
	if id, ok := t.ids[string(b)]; ok {
		return id
	}
	id := uint64(len(t.strs))
	t.ids[string(b)] = id
	t.strs = append(t.strs, append([]byte(nil), b...))
	return id
}

// escape as the server does (segmentio json.Escape); the contract unescape(escape x) = x is sampled
// with the standard library decoder
func (t *c14Tab) escape(x uint64) uint64 {
	if e, ok := t.esc[x]; ok {
		return e
	}
	out := segjson.Escape(convert.BytesToString(t.strs[x]))
	var s string
	if err := stdjson.Unmarshal(out, &s); err != nil || s != string(t.strs[x]) {
		t.contrOK = false
	}
	e := t.id(out)
	t.esc[x] = e
	return e
}

func (t *c14Tab) mkCreate(b, x uint64) uint64 {
	k := [2]uint64{b, x}
	if p, ok := t.create[k]; ok {
		return p
	}
	patch := fdelta.Create(t.strs[b], t.strs[x])
	back, err := fdelta.Apply(t.strs[b], patch)
	if err != nil || !bytes.Equal(back, t.strs[x]) {
		t.contrOK = false
	}
	p := t.id(patch)
	t.create[k] = p
	t.apply[[2]uint64{b, p}] = int64(x)
	return p
}

func (t *c14Tab) doApply(b, p uint64) (uint64, bool) {
	k := [2]uint64{b, p}
	if r, ok := t.apply[k]; ok {
		return uint64(r), r >= 0
	}
	out, err := fdelta.Apply(t.strs[b], t.strs[p])
	if err != nil {
		t.apply[k] = -1
		return 0, false
	}
	r := t.id(out)
	t.apply[k] = int64(r)
	return r, true
}

func (t *c14Tab) coq(json bool) string {
	var lens, cr, ap, es []string
	for id := 1; id < len(t.strs); id++ {
		lens = append(lens, vPair(vN(uint64(id)), vN(uint64(len(t.strs[id])))))
	}
	var ck [][2]uint64
	for k := range t.create {
		ck = append(ck, k)
	}
	sort.Slice(ck, func(i, j int) bool { return ck[i][0] < ck[j][0] || (ck[i][0] == ck[j][0] && ck[i][1] < ck[j][1]) })
	for _, k := range ck {
		cr = append(cr, "("+vN(k[0])+", "+vN(k[1])+", "+vN(t.create[k])+")")
	}
	var ak [][2]uint64
	for k := range t.apply {
		ak = append(ak, k)
	}
	sort.Slice(ak, func(i, j int) bool { return ak[i][0] < ak[j][0] || (ak[i][0] == ak[j][0] && ak[i][1] < ak[j][1]) })
	for _, k := range ak {
		r := t.apply[k]
		ap = append(ap, "("+vN(k[0])+", "+vN(k[1])+", "+vOpt(vN(uint64(r)), r >= 0)+")")
	}
	var ek []uint64
	for k := range t.esc {
		ek = append(ek, k)
	}
	sort.Slice(ek, func(i, j int) bool { return ek[i] < ek[j] })
	for _, k := range ek {
		es = append(es, vPair(vN(k), vN(t.esc[k])))
	}
	return vApp("mkT", vList(lens), vList(cr), vList(ap), vList(es))
}

// ---------------------------------------------------------------- scenario plumbing

type c14Obs struct {
	Kind   string `json:"kind"` // reset | push | remove
	Key    int    `json:"key"`
	Delta  bool   `json:"delta,omitempty"`
	Data   uint64 `json:"data,omitempty"`
	Expect uint64 `json:"expect,omitempty"`
	OK     bool   `json:"ok"`
}

type c14Scn struct {
	e        *c14Env
	r        *rand.Rand
	ch       string
	syncCh   string
	json     bool
	tab      *c14Tab
	client   *Client
	tr       *testTransport
	sink     chan []byte
	nsync    int
	bad      string
	obs      []c14Obs
	script   []string
	jscript  []string
	held     map[int]uint64 // reference client: key -> payload id held (absent = nothing)
	finding  string
	payloads []uint64 // ids of all published payloads
	// classification context for a failure
	afterRecover   bool
	recoverDropped bool
	fixedPayloads  bool
	nfixed         int
	pairs          [][2]uint64 // (base, target) pairs the server may diff
}

func (s *c14Scn) pair(b, t uint64) {
	if b != 0 {
		s.pairs = append(s.pairs, [2]uint64{b, t})
	}
}

func (s *c14Scn) connect() {
	tr := newTestTransport(func() {})
	tr.setProtocolVersion(ProtocolVersion2)
	if s.json {
		tr.setProtocolType(ProtocolTypeJSON)
	} else {
		tr.setProtocolType(ProtocolTypeProtobuf)
	}
	s.sink = make(chan []byte, 4096)
	tr.setSink(s.sink)
	s.tr = tr
	s.client = newTestClientCustomTransport(s.e.t, context.Background(), s.e.node, tr, "u")
	connectClientV2(s.e.t, s.client)
	s.e.mu.Lock()
	s.e.subOpts[s.syncCh] = SubscribeOptions{}
	s.e.mu.Unlock()
	rw := testReplyWriterWrapper()
	if err := s.client.handleSubscribe(&protocol.SubscribeRequest{Channel: s.syncCh}, &protocol.Command{Id: 1}, time.Now(), rw.rw); err != nil {
		s.bad = "sync subscribe: " + err.Error()
	}
}

func (s *c14Scn) close() {
	_ = s.client.close(DisconnectForceNoReconnect)
	s.e.mu.Lock()
	delete(s.e.subOpts, s.ch)
	delete(s.e.subOpts, s.syncCh)
	delete(s.e.keep, s.ch)
	s.e.mu.Unlock()
}

func (s *c14Scn) decode(msg []byte) *protocol.Reply {
	rep := &protocol.Reply{}
	if s.json {
		r, err := protocol.NewJSONReplyDecoder(msg).Decode()
		if err != nil {
			s.bad = "decode json: " + err.Error()
			return nil
		}
		return r
	}
	if err := rep.UnmarshalVT(msg); err != nil {
		s.bad = "decode protobuf: " + err.Error()
		return nil
	}
	return rep
}

type c14Got struct {
	pubs   []*protocol.Publication
	unsubs []*protocol.Unsubscribe
}

func (s *c14Scn) drain() c14Got {
	var got c14Got
	s.nsync++
	want := fmt.Sprintf(`{"sync":%d}`, s.nsync)
	if _, err := s.e.node.Publish(s.syncCh, []byte(want)); err != nil {
		s.bad = "sync publish: " + err.Error()
		return got
	}
	deadline := time.After(5 * time.Second)
	for {
		select {
		case msg := <-s.sink:
			rep := s.decode(msg)
			if rep == nil || rep.Push == nil {
				continue
			}
			if rep.Push.Channel == s.syncCh && rep.Push.Pub != nil {
				if string(rep.Push.Pub.Data) == want {
					return got
				}
				continue
			}
			if rep.Push.Channel == s.ch {
				if rep.Push.Pub != nil {
					got.pubs = append(got.pubs, rep.Push.Pub)
				}
				if rep.Push.Unsubscribe != nil {
					got.unsubs = append(got.unsubs, rep.Push.Unsubscribe)
				}
			}
		case <-deadline:
			s.bad = "sync sentinel not received"
			return got
		}
	}
}

func (s *c14Scn) subscribed() bool {
	s.client.mu.RLock()
	defer s.client.mu.RUnlock()
	ctx, ok := s.client.channels[s.ch]
	return ok && channelHasFlag(ctx.flags, flagSubscribed)
}

func (s *c14Scn) serverPos() uint64 {
	s.client.mu.RLock()
	defer s.client.mu.RUnlock()
	return s.client.channels[s.ch].streamPosition.Offset
}

// a delivery with an offset beyond position+1 makes the server unsubscribe the client with
// "insufficient state" from a goroutine: wait for it so that the scenario stays sequential
func (s *c14Scn) settleGap(sub *bool, posBefore uint64, delivered uint64) {
	if *sub && delivered > posBefore+1 {
		s.waitUnsubscribed()
		if s.subscribed() {
			s.bad = "offset gap delivered but the client is still subscribed"
		}
		s.drain()
		*sub = false
		s.jscript = append(s.jscript, "  (server unsubscribed the client: insufficient state)")
	}
}

func (s *c14Scn) waitUnsubscribed() {
	for i := 0; i < 2000 && s.subscribed(); i++ {
		time.Sleep(time.Millisecond)
	}
}

// the reference client: full => replace, delta => apply to what is held for the key
func (s *c14Scn) clientPush(key int, delta bool, data []byte, expect uint64, where string) {
	did := s.tab.id(data)
	raw := did
	if s.json {
		var str string
		if err := stdjson.Unmarshal(data, &str); err != nil {
			s.bad = fmt.Sprintf("wire data of a delta subscription is not a JSON string: %q", data)
			return
		}
		raw = s.tab.id([]byte(str))
	}
	ok := false
	var res uint64
	if delta {
		if h, has := s.held[key]; has {
			res, ok = s.tab.doApply(h, raw)
		}
	} else {
		res, ok = raw, true
	}
	good := ok && res == expect
	if ok {
		s.held[key] = res
	} else {
		delete(s.held, key)
	}
	s.obs = append(s.obs, c14Obs{Kind: "push", Key: key, Delta: delta, Data: did, Expect: expect, OK: good})
	if !good && s.finding == "" {
		s.finding = where
	}
}

func (s *c14Scn) clientReset() {
	s.held = map[int]uint64{}
	s.obs = append(s.obs, c14Obs{Kind: "reset"})
}

func (s *c14Scn) clientRemove(key int) {
	delete(s.held, key)
	s.obs = append(s.obs, c14Obs{Kind: "remove", Key: key})
}

func (s *c14Scn) obsCoq() string {
	xs := make([]string, len(s.obs))
	for i, o := range s.obs {
		switch o.Kind {
		case "reset":
			xs[i] = "OReset"
		case "remove":
			xs[i] = vApp("ORemove", vNat(o.Key))
		default:
			xs[i] = vApp("OPush", vNat(o.Key), vBool(o.Delta), vN(o.Data), vN(o.Expect))
		}
	}
	return vList(xs)
}

// payload families: edits of a document (small patches), unrelated documents (patch >= full),
// repeats, growing / shrinking; binary-looking for Protobuf subscribers
func (s *c14Scn) genPayload(prev []byte) []byte {
	r := s.r
	if s.fixedPayloads {
		// corpus / probe scenarios: large documents differing in a few bytes (always a real delta)
		s.nfixed++
		return []byte(fmt.Sprintf(`{"n":%d,"pad":"abcdefghijklmnopqrstuvwxyz0123456789ABCDEFGHIJKLMNOPQRSTUVWXYZabcdefghijklmnopqrstuvwxyz","seg":"%s"}`,
			s.nfixed, []string{"PPPPPPPPPPPPPPPPPPPPPPPPPPPPPPPP", "QQQQQQQQQQQQQQQQQQQQQQQQQQQQQQQQ", "RRRRRRRRRRRRRRRRRRRRRRRRRRRRRRRR"}[s.nfixed/2%3]))
	}
	mk := func(n int) []byte {
		b := make([]byte, n)
		for i := range b {
			if s.json {
				b[i] = "abcdefghijklmnopqrstuvwxyz0123456789 \\\"/<>&é"[r.Intn(44)]
			} else {
				b[i] = byte(r.Intn(256))
			}
		}
		return b
	}
	wrap := func(body []byte) []byte {
		if !s.json {
			return body
		}
		q, _ := stdjson.Marshal(string(body))
		return []byte(fmt.Sprintf(`{"v":%d,"body":%s}`, r.Intn(1000), q))
	}
	switch c := r.Intn(10); {
	case c == 0 && prev != nil:
		return prev // equal consecutive payloads
	case c <= 2 || prev == nil:
		return wrap(mk(20 + r.Intn(120))) // unrelated
	case c == 3:
		return wrap(mk(1 + r.Intn(6))) // tiny: the patch cannot be smaller
	default:
		// edit of the previous payload
		var body []byte
		if s.json {
			var d struct {
				Body string `json:"body"`
			}
			_ = stdjson.Unmarshal(prev, &d)
			body = []byte(d.Body)
		} else {
			body = append([]byte(nil), prev...)
		}
		if len(body) == 0 {
			body = mk(40)
		}
		switch r.Intn(3) {
		case 0: // overwrite a few bytes
			for k := 0; k < 1+r.Intn(3); k++ {
				body[r.Intn(len(body))] = mk(1)[0]
			}
		case 1: // grow
			at := r.Intn(len(body) + 1)
			body = append(body[:at:at], append(mk(1+r.Intn(30)), body[at:]...)...)
		default: // shrink
			if len(body) > 8 {
				at := r.Intn(len(body) - 4)
				body = append(body[:at:at], body[at+1+r.Intn(3):]...)
			}
		}
		return wrap(body)
	}
}

func (s *c14Scn) setSubOpts(o SubscribeOptions) {
	s.e.mu.Lock()
	s.e.subOpts[s.ch] = o
	s.e.mu.Unlock()
}

func (s *c14Scn) subscribeRaw(req *protocol.SubscribeRequest) (*protocol.SubscribeResult, *protocol.Error) {
	rw := testReplyWriterWrapper()
	err := s.client.handleSubscribe(req, &protocol.Command{Id: 2}, time.Now(), rw.rw)
	if err != nil {
		if ce, ok := err.(*Error); ok {
			return nil, &protocol.Error{Code: ce.Code, Message: ce.Message}
		}
		s.bad = "subscribe: " + err.Error()
		return nil, nil
	}
	if len(rw.replies) == 0 {
		s.bad = "subscribe: no reply"
		return nil, nil
	}
	if rw.replies[0].Error != nil {
		return nil, rw.replies[0].Error
	}
	return rw.replies[0].Subscribe, nil
}

func (s *c14Scn) unsubscribe() {
	rw := testReplyWriterWrapper()
	if err := s.client.handleUnsubscribe(&protocol.UnsubscribeRequest{Channel: s.ch}, &protocol.Command{Id: 3}, time.Now(), rw.rw); err != nil {
		s.bad = "unsubscribe: " + err.Error()
	}
}

var c14TagsVis = map[string]string{"env": "prod"}
var c14TagsHid = map[string]string{"env": "stag"}
var c14Filter = &protocol.FilterNode{Key: "env", Cmp: "eq", Val: "prod"}

// ---------------------------------------------------------------- positioned stream channel

func (s *c14Scn) runPositioned(filtered bool, histSize int, n int, forced []int) string {
	s.setSubOpts(SubscribeOptions{EnablePositioning: true, EnableRecovery: true, AllowTagsFilter: true,
		AllowedDeltaTypes: []DeltaType{DeltaTypeFossil}})
	var stream []uint64 // payload id per offset-1
	var lastVis uint64
	var epoch string
	cpos := uint64(0)
	hasPos := false
	sub := false
	var prevPayload []byte
	class := "positioned"
	if filtered {
		class += "+filter"
	}
	if histSize < 50 {
		class += "+trim"
	}
	sawRecover, sawLoss, sawWindow := false, false, false
	if forced != nil {
		n = len(forced)
	}
	for step := 0; step < n && s.bad == ""; step++ {
		// choose an action
		act := 0 // publish
		if forced != nil {
			if step >= len(forced) {
				break
			}
			act = forced[step]
		} else {
			x := s.r.Intn(100)
			switch {
			case !sub && x < 45:
				act = 2 // subscribe
			case sub && x < 8:
				act = 3 // drop
			case x < 14 && len(stream) > 0:
				act = 1 // redeliver
			}
		}
		// a publish inside the window of a recovering subscribe: buffered by the client, merged into the reply
		windowPub := func() {
			data := s.genPayload(prevPayload)
			prevPayload = data
			vis := !filtered || s.r.Intn(3) != 0
			ud := s.r.Intn(8) != 0
			tags := c14TagsVis
			if !vis {
				tags = c14TagsHid
			}
			pid := s.tab.id(data)
			s.payloads = append(s.payloads, pid)
			res, err := s.e.node.Publish(s.ch, data, WithHistory(histSize, time.Hour), WithDelta(ud), WithTags(tags))
			if err != nil {
				s.bad = "publish: " + err.Error()
				return
			}
			if len(stream) > 0 {
				s.pair(stream[len(stream)-1], pid)
			}
			s.pair(lastVis, pid)
			if vis {
				lastVis = pid
			}
			stream = append(stream, pid)
			if res.Offset != uint64(len(stream)) {
				s.bad = fmt.Sprintf("unexpected offset %d", res.Offset)
			}
			sawWindow = true
			s.script = append(s.script, vApp("PPub", "_", vApp("mkSP", "_", vN(pid), vBool(vis), vBool(ud)), "true"))
			s.jscript = append(s.jscript, fmt.Sprintf("pub off=%d payload=%d vis=%v use_delta=%v (inside the subscribe window)", res.Offset, pid, vis, ud))
		}
		switch act % 10 {
		case 0: // publish
			data := s.genPayload(prevPayload)
			prevPayload = data
			vis := !filtered || s.r.Intn(3) != 0
			ud := s.r.Intn(8) != 0
			deliver := s.r.Intn(8) != 0
			if forced != nil {
				vis, ud, deliver = act/10%10 == 0, true, act/100%10 == 0
			}
			tags := c14TagsVis
			if !vis {
				tags = c14TagsHid
			}
			if !deliver {
				s.e.sb.h.mu.Lock()
				s.e.sb.h.drop[s.ch] = 1
				s.e.sb.h.mu.Unlock()
				sawLoss = true
			}
			pid := s.tab.id(data)
			s.payloads = append(s.payloads, pid)
			posBefore := s.serverPos()
			res, err := s.e.node.Publish(s.ch, data, WithHistory(histSize, time.Hour), WithDelta(ud), WithTags(tags))
			if err != nil {
				s.bad = "publish: " + err.Error()
				break
			}
			epoch = res.Epoch
			if len(stream) > 0 {
				s.pair(stream[len(stream)-1], pid)
			}
			s.pair(lastVis, pid)
			if vis {
				lastVis = pid
			}
			stream = append(stream, pid)
			if res.Offset != uint64(len(stream)) {
				s.bad = fmt.Sprintf("unexpected offset %d", res.Offset)
			}
			s.script = append(s.script, vApp("PPub", "_", vApp("mkSP", "_", vN(pid), vBool(vis), vBool(ud)), vBool(deliver)))
			s.jscript = append(s.jscript, fmt.Sprintf("pub off=%d payload=%d vis=%v use_delta=%v deliver=%v", res.Offset, pid, vis, ud, deliver))
			s.collectLive(stream, &cpos)
			if deliver {
				s.settleGap(&sub, posBefore, res.Offset)
			}
		case 1: // duplicated PUB/SUB delivery
			s.e.sb.h.mu.Lock()
			log := append([]c14Delivery(nil), s.e.sb.h.log[s.ch]...)
			s.e.sb.h.mu.Unlock()
			k := s.r.Intn(len(log))
			d := log[k]
			posBefore := s.serverPos()
			_ = s.e.sb.h.inner.HandlePublication(s.ch, d.pub, d.sp, d.delta, d.prev)
			s.script = append(s.script, vApp("PRedeliver", "_", vNat(int(d.sp.Offset))))
			s.jscript = append(s.jscript, fmt.Sprintf("redeliver off=%d", d.sp.Offset))
			s.collectLive(stream, &cpos)
			s.settleGap(&sub, posBefore, d.sp.Offset)
		case 2: // (re)subscribe
			if sub {
				continue
			}
			recover := hasPos && (forced != nil && act/10 == 1 || forced == nil && s.r.Intn(4) != 0)
			avail := true
			req := &protocol.SubscribeRequest{Channel: s.ch, Delta: string(DeltaTypeFossil)}
			if filtered {
				req.Tf = c14Filter
			}
			if recover {
				req.Recover, req.Offset, req.Epoch = true, cpos, epoch
				top := uint64(len(stream))
				avail = cpos+uint64(histSize) >= top
				sawRecover = true
				if forced == nil && histSize >= 100 && len(stream) < 60 && s.r.Intn(2) == 0 {
					nb, na := s.r.Intn(3), s.r.Intn(3)
					s.e.sb.mu.Lock()
					s.e.sb.hist[s.ch] = &[2]func(){
						func() {
							for j := 0; j < nb; j++ {
								windowPub()
							}
						},
						func() {
							for j := 0; j < na; j++ {
								windowPub()
							}
						},
					}
					s.e.sb.mu.Unlock()
				}
			}
			res, perr := s.subscribeRaw(req)
			s.e.sb.mu.Lock()
			delete(s.e.sb.hist, s.ch)
			s.e.sb.mu.Unlock()
			if res == nil {
				s.bad = fmt.Sprintf("subscribe failed: %v", perr)
				break
			}
			if !res.Delta {
				s.bad = "delta not negotiated"
				break
			}
			if recover && res.Recovered != avail {
				s.bad = fmt.Sprintf("recovered=%v but availability computed %v (cpos=%d top=%d hist=%d)", res.Recovered, avail, cpos, len(stream), histSize)
				break
			}
			s.script = append(s.script, vApp("PSubscribe", "_", vBool(recover), vBool(avail)))
			s.jscript = append(s.jscript, fmt.Sprintf("subscribe recover=%v avail=%v from=%d -> recovered=%v pubs=%d offset=%d", recover, avail, cpos, res.Recovered, len(res.Publications), res.Offset))
			sub, hasPos = true, true
			if !recover {
				s.clientReset()
			}
			s.afterRecover = recover && res.Recovered
			s.recoverDropped = false
			if res.Recovered {
				for _, p := range res.Publications {
					s.clientPush(0, p.Delta, p.Data, stream[p.Offset-1], "stream-other/recovered-publication")
					cpos = p.Offset
				}
				if cpos < uint64(len(stream)) {
					s.recoverDropped = true
				}
			} else {
				cpos = res.Offset
			}
			if res.Epoch != "" {
				epoch = res.Epoch
			}
		case 3: // unsubscribe
			if !sub {
				continue
			}
			s.unsubscribe()
			sub = false
			s.script = append(s.script, vApp("PDrop", "_"))
			s.jscript = append(s.jscript, "unsubscribe")
		}
	}
	if sawRecover {
		class += "+recover"
	}
	if sawLoss {
		class += "+loss"
	}
	if sawWindow {
		class += "+window"
	}
	return class
}

// pushes that followed one broker delivery on a positioned channel
func (s *c14Scn) collectLive(stream []uint64, cpos *uint64) {
	got := s.drain()
	for _, p := range got.pubs {
		if p.Offset == 0 || p.Offset > uint64(len(stream)) {
			s.bad = fmt.Sprintf("push with offset %d", p.Offset)
			continue
		}
		where := "stream-other/live"
		if s.afterRecover {
			where = "stream-other/first-live-after-recovery"
			if _, has := s.held[0]; !has {
				where = "stream-delta-after-recovery/client-holds-nothing"
			} else if s.recoverDropped {
				where = "stream-delta-after-recovery/filtered-publications-stripped"
			}
		}
		s.afterRecover = false
		s.clientPush(0, p.Delta, p.Data, stream[p.Offset-1], where)
		*cpos = p.Offset
	}
}

// ---------------------------------------------------------------- unpositioned stream channel

func (s *c14Scn) runUnpositioned(keep bool, history bool, n int) string {
	s.e.mu.Lock()
	s.e.keep[s.ch] = keep
	s.e.mu.Unlock()
	s.setSubOpts(SubscribeOptions{AllowedDeltaTypes: []DeltaType{DeltaTypeFossil}})
	// a second, plain subscriber can keep the medium alive across our unsubscribes
	var other *Client
	if s.r.Intn(2) == 0 {
		tr := newTestTransport(func() {})
		tr.setProtocolVersion(ProtocolVersion2)
		other = newTestClientCustomTransport(s.e.t, context.Background(), s.e.node, tr, "v")
		connectClientV2(s.e.t, other)
		rw := testReplyWriterWrapper()
		_ = other.handleSubscribe(&protocol.SubscribeRequest{Channel: s.ch}, &protocol.Command{Id: 1}, time.Now(), rw.rw)
		defer func() { _ = other.close(DisconnectForceNoReconnect) }()
	}
	sub := false
	var prevPayload []byte
	var lastPub, lastDelivered uint64
	for step := 0; step < n && s.bad == ""; step++ {
		x := s.r.Intn(100)
		switch {
		case !sub && x < 40:
			res, perr := s.subscribeRaw(&protocol.SubscribeRequest{Channel: s.ch, Delta: string(DeltaTypeFossil)})
			if res == nil || !res.Delta {
				s.bad = fmt.Sprintf("subscribe failed: %v", perr)
				break
			}
			sub = true
			s.clientReset()
			s.script = append(s.script, vApp("USubscribe", "_"))
			s.jscript = append(s.jscript, "subscribe")
		case sub && x < 8:
			s.unsubscribe()
			sub = false
			gone := other == nil
			s.script = append(s.script, vApp("UDrop", "_", vBool(gone)))
			s.jscript = append(s.jscript, fmt.Sprintf("unsubscribe medium_gone=%v", gone))
		default:
			if !sub && other == nil {
				// nobody subscribed: the node drops the publication before the medium exists; the
				// model's medium is absent as well (UDrop gone) -> not an action
				continue
			}
			data := s.genPayload(prevPayload)
			prevPayload = data
			ud := s.r.Intn(6) != 0
			deliver := s.r.Intn(8) != 0
			if !deliver {
				s.e.sb.h.mu.Lock()
				s.e.sb.h.drop[s.ch] = 1
				s.e.sb.h.mu.Unlock()
			}
			pid := s.tab.id(data)
			s.payloads = append(s.payloads, pid)
			s.pair(lastPub, pid)
			s.pair(lastDelivered, pid)
			lastPub = pid
			if deliver {
				lastDelivered = pid
			}
			opts := []PublishOption{WithDelta(ud)}
			if history {
				opts = append(opts, WithHistory(100, time.Hour))
			}
			if _, err := s.e.node.Publish(s.ch, data, opts...); err != nil {
				s.bad = "publish: " + err.Error()
				break
			}
			s.script = append(s.script, vApp("UPub", "_", vN(pid), vBool(ud), vBool(deliver)))
			s.jscript = append(s.jscript, fmt.Sprintf("pub payload=%d use_delta=%v deliver=%v", pid, ud, deliver))
			got := s.drain()
			for _, p := range got.pubs {
				s.clientPush(0, p.Delta, p.Data, pid, "unpositioned-other/live")
			}
		}
	}
	class := "unpositioned"
	if keep {
		class += "+keep-latest"
	}
	if history {
		class += "+history"
	}
	return class
}

// ---------------------------------------------------------------- map channel

func (s *c14Scn) runMap(filtered bool, n int, forced []int) string {
	s.setSubOpts(SubscribeOptions{Type: SubscriptionTypeMap, AllowTagsFilter: true, AllowedDeltaTypes: []DeltaType{DeltaTypeFossil}})
	ctx := context.Background()
	state := map[int]uint64{}    // broker state: key -> payload id
	stateVis := map[int]bool{}   // is the current entry visible for the subscriber
	everSeen := map[int]bool{}   // keys whose CURRENT entry the client was given (for failure classification)
	byOffset := map[uint64]uint64{}
	var epoch string
	var cpos uint64
	hasPos := false
	sub := false
	noDelta := false
	prevByKey := map[int][]byte{}
	keyHist := map[int][]uint64{}
	sawRecover := false
	if forced != nil {
		n = len(forced)
	}
	for step := 0; step < n && s.bad == ""; step++ {
		act := 0
		if forced != nil {
			if step >= len(forced) {
				break
			}
			act = forced[step]
		} else {
			x := s.r.Intn(100)
			switch {
			case !sub && x < 45:
				act = 2
			case sub && x < 8:
				act = 3
			}
		}
		switch act % 10 {
		case 0: // publish or remove
			key := s.r.Intn(4)
			if forced != nil {
				key = 1
			}
			remove := forced == nil && s.r.Intn(7) == 0
			if _, exists := state[key]; !exists {
				remove = false
			}
			deliver := s.r.Intn(10) != 0
			if forced != nil {
				deliver = act/100%10 == 0
			}
			if !deliver {
				s.e.mb.h.mu.Lock()
				s.e.mb.h.drop[s.ch] = 1
				s.e.mb.h.mu.Unlock()
			}
			posBefore := s.serverPos()
			var deliveredOff uint64
			if remove {
				vis := stateVis[key]
				res, err := s.e.mb.Remove(ctx, s.ch, fmt.Sprintf("k%d", key), MapRemoveOptions{})
				if err != nil || res.Suppressed {
					s.bad = fmt.Sprintf("remove: %v suppressed=%v", err, res.Suppressed)
					break
				}
				epoch = res.Position.Epoch
				deliveredOff = res.Position.Offset
				delete(state, key)
				delete(prevByKey, key)
				s.script = append(s.script, vApp("MPub", "_", vApp("mkMP", "_", vNat(key), "None", vBool(vis), "false"), vBool(deliver)))
				s.jscript = append(s.jscript, fmt.Sprintf("remove key=%d off=%d vis=%v deliver=%v", key, res.Position.Offset, vis, deliver))
			} else {
				data := s.genPayload(prevByKey[key])
				prevByKey[key] = data
				vis := !filtered || s.r.Intn(3) != 0
				if forced != nil {
					vis = act/10%10 == 0
				}
				ud := s.r.Intn(8) != 0 || forced != nil
				tags := c14TagsVis
				if !vis {
					tags = c14TagsHid
				}
				pid := s.tab.id(data)
				s.payloads = append(s.payloads, pid)
				for _, x := range keyHist[key] {
					s.pair(x, pid)
				}
				keyHist[key] = append(keyHist[key], pid)
				res, err := s.e.mb.Publish(ctx, s.ch, fmt.Sprintf("k%d", key), MapPublishOptions{Data: data, Tags: tags, UseDelta: ud})
				if err != nil || res.Suppressed {
					s.bad = fmt.Sprintf("map publish: %v", err)
					break
				}
				epoch = res.Position.Epoch
				deliveredOff = res.Position.Offset
				state[key], stateVis[key] = pid, vis
				byOffset[res.Position.Offset] = pid
				s.script = append(s.script, vApp("MPub", "_", vApp("mkMP", "_", vNat(key), vOpt(vN(pid), true), vBool(vis), vBool(ud)), vBool(deliver)))
				s.jscript = append(s.jscript, fmt.Sprintf("publish key=%d off=%d payload=%d vis=%v use_delta=%v deliver=%v", key, res.Position.Offset, pid, vis, ud, deliver))
			}
			got := s.drain()
			for _, p := range got.pubs {
				var key int
				_, _ = fmt.Sscanf(p.Key, "k%d", &key)
				cpos = p.Offset
				if noDelta {
					continue
				}
				if p.Removed {
					s.clientRemove(key)
					continue
				}
				where := "map-other/live"
				if filtered {
					where = "map-delta-with-tags-filter"
				}
				s.clientPush(key, p.Delta, p.Data, byOffset[p.Offset], where)
				everSeen[key] = true
			}
			if deliver {
				s.settleGap(&sub, posBefore, deliveredOff)
			}
		case 2: // subscribe: full (state) or recovery join
			if sub {
				continue
			}
			recover := hasPos && (forced == nil && s.r.Intn(3) != 0)
			req := &protocol.SubscribeRequest{Channel: s.ch, Type: int32(SubscriptionTypeMap), Delta: string(DeltaTypeFossil)}
			if filtered {
				req.Tf = c14Filter
			}
			if recover {
				req.Phase, req.Recover, req.Offset, req.Epoch = MapPhaseLive, true, cpos, epoch
				sawRecover = true
			} else {
				req.Phase, req.Limit = MapPhaseState, 100
			}
			res, perr := s.subscribeRaw(req)
			if res == nil {
				s.bad = fmt.Sprintf("map subscribe failed: %v", perr)
				break
			}
			if res.Phase != MapPhaseLive {
				s.bad = "map subscribe did not go live in one request"
				break
			}
			noDelta = !res.Delta
			if noDelta && !(filtered && s.e.fxm) {
				s.bad = "delta not negotiated"
				break
			}
			sub, hasPos = true, true
			if recover {
				s.script = append(s.script, vApp("MRecover", "_"))
			} else {
				s.script = append(s.script, vApp("MSubscribeState", "_"))
				if !noDelta {
					s.clientReset()
				}
			}
			s.jscript = append(s.jscript, fmt.Sprintf("subscribe recover=%v -> state=%d pubs=%d offset=%d delta=%v", recover, len(res.State), len(res.Publications), res.Offset, res.Delta))
			if !noDelta {
				for _, p := range res.State {
					var key int
					_, _ = fmt.Sscanf(p.Key, "k%d", &key)
					s.clientPush(key, p.Delta, p.Data, state[key], "map-other/state")
				}
				for _, p := range res.Publications {
					var key int
					_, _ = fmt.Sscanf(p.Key, "k%d", &key)
					if p.Removed {
						s.clientRemove(key)
						continue
					}
					s.clientPush(key, p.Delta, p.Data, byOffset[p.Offset], "map-other/recovered")
				}
			}
			cpos = res.Offset
			if res.Epoch != "" {
				epoch = res.Epoch
			}
		case 3:
			if !sub {
				continue
			}
			s.unsubscribe()
			sub = false
			s.script = append(s.script, vApp("MDrop", "_"))
			s.jscript = append(s.jscript, "unsubscribe")
		}
	}
	class := "map"
	if filtered {
		class += "+filter"
	}
	if sawRecover {
		class += "+recover"
	}
	return class
}

// ---------------------------------------------------------------- map channel, paginated subscribe

// A delta subscriber joins a map channel over several state pages, stream pages and a live transition
// while writers keep publishing / removing (between the requests and inside the transition's subscribe
// window); then live broadcasts with per-key deltas.
func (s *c14Scn) runMapPaged(n int) string {
	s.setSubOpts(SubscribeOptions{Type: SubscriptionTypeMap, AllowedDeltaTypes: []DeltaType{DeltaTypeFossil}})
	ctx := context.Background()
	state := map[int]uint64{}
	byOffset := map[uint64]uint64{}
	prevByKey := map[int][]byte{}
	keyHist := map[int][]uint64{}
	const nkeys = 5
	mp := func(key int, pid uint64, removed, ud bool) string {
		return vApp("mkMP", "_", vNat(key), vOpt(vN(pid), !removed), "true", vBool(ud))
	}
	// one writer operation; live: it is broadcast to the subscribed client and observed
	write := func(live bool) {
		key := s.r.Intn(nkeys)
		_, exists := state[key]
		remove := exists && s.r.Intn(6) == 0
		var term string
		if remove {
			res, err := s.e.mb.Remove(ctx, s.ch, fmt.Sprintf("k%d", key), MapRemoveOptions{})
			if err != nil || res.Suppressed {
				s.bad = fmt.Sprintf("remove: %v", err)
				return
			}
			delete(state, key)
			delete(prevByKey, key)
			term = mp(key, 0, true, false)
			s.jscript = append(s.jscript, fmt.Sprintf("  remove key=%d off=%d live=%v", key, res.Position.Offset, live))
		} else {
			data := s.genPayload(prevByKey[key])
			prevByKey[key] = data
			ud := s.r.Intn(8) != 0
			pid := s.tab.id(data)
			s.payloads = append(s.payloads, pid)
			for _, x := range keyHist[key] {
				s.pair(x, pid)
			}
			keyHist[key] = append(keyHist[key], pid)
			res, err := s.e.mb.Publish(ctx, s.ch, fmt.Sprintf("k%d", key), MapPublishOptions{Data: data, UseDelta: ud})
			if err != nil || res.Suppressed {
				s.bad = fmt.Sprintf("map publish: %v", err)
				return
			}
			state[key] = pid
			byOffset[res.Position.Offset] = pid
			term = mp(key, pid, false, ud)
			s.jscript = append(s.jscript, fmt.Sprintf("  publish key=%d off=%d payload=%d use_delta=%v live=%v", key, res.Position.Offset, pid, ud, live))
		}
		if !live {
			s.script = append(s.script, vApp("QWrite", "_", term))
			return
		}
		s.script = append(s.script, vApp("QPush", "_", term))
		got := s.drain()
		if len(got.pubs) != 1 {
			s.bad = fmt.Sprintf("%d pushes for one live map publication", len(got.pubs))
		}
		for _, p := range got.pubs {
			var k int
			_, _ = fmt.Sscanf(p.Key, "k%d", &k)
			if p.Removed {
				s.clientRemove(k)
				continue
			}
			s.clientPush(k, p.Delta, p.Data, byOffset[p.Offset], "map-paged/live")
		}
	}
	pubsTerm := func(ps []*protocol.Publication) string {
		xs := make([]string, len(ps))
		for i, p := range ps {
			var k int
			_, _ = fmt.Sscanf(p.Key, "k%d", &k)
			xs[i] = mp(k, byOffset[p.Offset], p.Removed, false)
		}
		return vList(xs)
	}
	feedPubs := func(ps []*protocol.Publication, where string) {
		for _, p := range ps {
			var k int
			_, _ = fmt.Sscanf(p.Key, "k%d", &k)
			if p.Removed {
				s.clientRemove(k)
				continue
			}
			s.clientPush(k, p.Delta, p.Data, byOffset[p.Offset], where)
		}
	}
	class := "map-paged"
	sawPages, sawStream, sawWindow := false, false, false
	rounds := 1 + s.r.Intn(2)
	for round := 0; round < rounds && s.bad == ""; round++ {
		for j := 2 + s.r.Intn(6); j > 0; j-- {
			write(false)
		}
		limit := int32(1 + s.r.Intn(3))
		phase := MapPhaseState
		var cursor, epoch string
		var offset uint64
		first := true
		npages := 0
		live := false
		for iter := 0; iter < 60 && s.bad == "" && !live; iter++ {
			req := &protocol.SubscribeRequest{Channel: s.ch, Type: int32(SubscriptionTypeMap), Delta: string(DeltaTypeFossil), Phase: phase, Limit: limit}
			if !first {
				req.Cursor, req.Offset, req.Epoch = cursor, offset, epoch
			}
			// entries of a state page are read before anything of this request's window happens
			atRead := map[int]uint64{}
			for k, v := range state {
				atRead[k] = v
			}
			nb, na := 0, 0
			switch s.r.Intn(3) {
			case 1:
				nb = 1 + s.r.Intn(2)
			case 2:
				nb, na = s.r.Intn(2), 1+s.r.Intn(2)
			}
			fired := false
			s.e.mb.mu.Lock()
			s.e.mb.win[s.ch] = &[2]func(){
				func() {
					for j := 0; j < nb; j++ {
						write(false)
						fired = true
					}
				},
				func() {
					for j := 0; j < na; j++ {
						write(false)
						fired = true
					}
				},
			}
			s.e.mb.mu.Unlock()
			s.jscript = append(s.jscript, fmt.Sprintf("request phase=%d cursor=%q offset=%d", phase, cursor, offset))
			res, perr := s.subscribeRaw(req)
			s.e.mb.mu.Lock()
			delete(s.e.mb.win, s.ch)
			s.e.mb.mu.Unlock()
			if res == nil {
				s.bad = fmt.Sprintf("paged map subscribe failed: %v", perr)
				break
			}
			if fired {
				sawWindow = true
			}
			if first {
				s.script = append(s.script, vApp("QStart", "_"))
				s.clientReset()
			}
			if phase == MapPhaseState {
				npages++
				var es []string
				for _, p := range res.State {
					var k int
					_, _ = fmt.Sscanf(p.Key, "k%d", &k)
					es = append(es, vPair(vNat(k), vN(atRead[k])))
					s.clientPush(k, p.Delta, p.Data, atRead[k], "map-paged/state")
				}
				s.script = append(s.script, vApp("QPage", "_", vList(es)))
			}
			switch {
			case res.Phase == MapPhaseLive:
				if !res.Delta {
					s.bad = "delta not negotiated"
				}
				s.script = append(s.script, vApp("QLive", "_", pubsTerm(res.Publications)))
				feedPubs(res.Publications, "map-paged/transition")
				live = true
			case res.Phase == MapPhaseStream && phase == MapPhaseStream:
				sawStream = true
				s.script = append(s.script, vApp("QStream", "_", pubsTerm(res.Publications)))
				feedPubs(res.Publications, "map-paged/stream")
			}
			s.jscript = append(s.jscript, fmt.Sprintf("  -> phase=%d state=%d pubs=%d offset=%d", res.Phase, len(res.State), len(res.Publications), res.Offset))
			if live {
				break
			}
			if first {
				epoch, offset, first = res.Epoch, res.Offset, false
			}
			if phase == MapPhaseState {
				cursor = res.Cursor
				if cursor == "" {
					phase = MapPhaseStream
					offset = res.Offset
				}
			} else {
				offset = res.Offset
			}
			nw := s.r.Intn(3)
			if s.r.Intn(4) == 0 {
				nw = 3 + s.r.Intn(5)
			}
			for j := 0; j < nw; j++ {
				write(false)
			}
		}
		if !live {
			if s.bad == "" {
				s.bad = "paged map subscription did not go live"
			}
			break
		}
		if npages > 1 {
			sawPages = true
		}
		for j := 0; j < n && s.bad == ""; j++ {
			write(true)
		}
		if round+1 < rounds {
			s.unsubscribe()
			s.jscript = append(s.jscript, "unsubscribe")
		}
	}
	if sawPages {
		class += "+pages"
	}
	if sawStream {
		class += "+stream"
	}
	if sawWindow {
		class += "+window"
	}
	return class
}

// ---------------------------------------------------------------- probes (which variant of the code is in the tree)

func (e *c14Env) probe() {
	// fresh subscribe (no payload) + recovery with nothing missed: is the next live publication a delta?
	s := &c14Scn{e: e, r: rand.New(rand.NewSource(1)), ch: "c14probe_p", syncCh: "c14probe_sync", json: false, tab: c14NewTab(), held: map[int]uint64{}, fixedPayloads: true}
	s.connect()
	s.runPositioned(false, 100, 0, []int{0, 2, 3, 12, 0})
	e.fx = true
	for _, o := range s.obs {
		if o.Kind == "push" && o.Delta {
			e.fx = false
		}
	}
	s.close()
	// map subscription with a tags filter: is delta negotiated?
	m := &c14Scn{e: e, r: rand.New(rand.NewSource(1)), ch: "c14probe_m", syncCh: "c14probe_sync2", json: false, tab: c14NewTab(), held: map[int]uint64{}}
	m.connect()
	m.setSubOpts(SubscribeOptions{Type: SubscriptionTypeMap, AllowTagsFilter: true, AllowedDeltaTypes: []DeltaType{DeltaTypeFossil}})
	res, _ := m.subscribeRaw(&protocol.SubscribeRequest{Channel: m.ch, Type: int32(SubscriptionTypeMap), Phase: MapPhaseState, Limit: 100,
		Delta: string(DeltaTypeFossil), Tf: c14Filter})
	e.fxm = res != nil && !res.Delta
	m.close()
}

// ---------------------------------------------------------------- test

func TestVerifC14(t *testing.T) {
	w := verifOpen(t, "C14")
	defer w.Close()
	e := c14NewEnv(t)
	defer func() { _ = e.node.Shutdown(context.Background()) }()
	e.probe()
	w.Extra["probe_fx"] = e.fx
	w.Extra["probe_fxm"] = e.fxm
	for i := 0; i < w.N; i++ {
		if !w.Want(i) {
			continue
		}
		r := w.Rand(i)
		s := &c14Scn{e: e, r: r, ch: fmt.Sprintf("c14_%d", i), syncCh: fmt.Sprintf("c14sync_%d", i), json: r.Intn(2) == 0,
			tab: c14NewTab(), held: map[int]uint64{}}
		if i == 0 {
			s.json = false
		}
		s.fixedPayloads = i <= 2
		s.connect()
		kind := i % 14
		if i >= 28 {
			kind = r.Intn(14)
		}
		var class, scen string
		n := 6 + r.Intn(14)
		switch {
		case i == 0: // corpus: recovery with nothing missed after a subscription that never received a payload
			class = s.runPositioned(false, 100, 0, []int{0, 2, 3, 12, 0}) + "/corpus-no-payload"
			scen = vApp("ScP", vBool(e.fx), vList(s.script))
		case i == 1: // corpus: filtered publication at the stream top when recovering
			class = s.runPositioned(true, 100, 0, []int{2, 0, 3, 100, 110, 12, 0}) + "/corpus-filtered-tail"
			scen = vApp("ScP", vBool(e.fx), vList(s.script))
		case i == 2: // corpus: hidden map entry, then a visible update of the same key
			class = s.runMap(true, 0, []int{110, 2, 0}) + "/corpus-hidden-base"
			scen = vApp("ScM", "true", vBool(e.fxm), vList(s.script))
		case kind <= 3:
			hist := 100
			if r.Intn(4) == 0 {
				hist = 2 + r.Intn(3)
			}
			class = s.runPositioned(kind == 3 || kind == 2 && r.Intn(2) == 0, hist, n, nil)
			scen = vApp("ScP", vBool(e.fx), vList(s.script))
		case kind <= 6:
			keep := kind != 4
			class = s.runUnpositioned(keep, r.Intn(2) == 0, n)
			scen = vApp("ScU", vBool(keep), vList(s.script))
		case kind >= 12:
			class = s.runMapPaged(3 + r.Intn(8))
			scen = vApp("ScQ", vList(s.script))
		default:
			filtered := kind >= 10
			class = s.runMap(filtered, n, nil)
			scen = vApp("ScM", vBool(filtered), vBool(e.fxm), vList(s.script))
		}
		s.close()
		if s.json {
			class += "/json"
		} else {
			class += "/protobuf"
		}
		if s.bad != "" {
			t.Errorf("case %d (%s): driver problem: %s", i, class, s.bad)
			class += "/driver-problem"
		}
		// tables: the (base, target) pairs the server may diff, escapes of all payloads and patches
		// for JSON subscribers
		seen := map[uint64]bool{}
		var ps []uint64
		for _, p := range s.payloads {
			if !seen[p] {
				seen[p] = true
				ps = append(ps, p)
			}
		}
		for _, bt := range s.pairs {
			s.tab.mkCreate(bt[0], bt[1])
		}
		if s.json {
			for _, p := range ps {
				s.tab.escape(p)
			}
			for _, p := range s.tab.create {
				s.tab.escape(p)
			}
		}
		ndelta, npush := 0, 0
		for _, o := range s.obs {
			if o.Kind == "push" {
				npush++
				if o.Delta {
					ndelta++
				}
			}
		}
		term := vApp("mkCase", vBool(s.json), s.tab.coq(s.json), scen, s.obsCoq(), vBool(s.tab.contrOK))
		w.Case(i, term, map[string]any{"class": class, "json": s.json, "script": s.jscript, "observed": s.obs,
			"finding": s.finding, "contracts_ok": s.tab.contrOK, "payload_count": len(ps)}, class, ndelta >= 1 && npush >= 3)
	}
}
