package centrifuge

import (
	"fmt"
	"math/rand"
	"runtime"
	"runtime/debug"
	"testing"

	"github.com/centrifugal/centrifuge/internal/bpool"
	"github.com/centrifugal/centrifuge/internal/queue"
)

// C42 driver: get / mutate / put sequences on the three real tiered pools
// (bpool.ByteBuffer, bpool.ByteSlicesBuf, writer.go itemBuf).  For every Get the
// driver records which previously Put buffer (pointer identity) the real
// sync.Pool handed back, and cap / len / lowest non-zero slot of the backing array.

const (
	c42BB = 0
	c42BS = 1
	c42IB = 2
)

var c42KindName = [...]string{"BB", "BS", "IB"}

// c42Handle is one buffer object of the kind under test.
type c42Handle struct {
	kind int
	bb   *bpool.ByteBuffer
	bs   *bpool.ByteSlicesBuf
	ib   *itemBuf
}

func (h *c42Handle) ptr() any {
	switch h.kind {
	case c42BB:
		return h.bb
	case c42BS:
		return h.bs
	}
	return h.ib
}

func (h *c42Handle) capLen() (int, int) {
	switch h.kind {
	case c42BB:
		return cap(h.bb.B), len(h.bb.B)
	case c42BS:
		return cap(h.bs.B), len(h.bs.B)
	}
	return cap(h.ib.B), len(h.ib.B)
}

// lowestDirty scans the whole backing array [0,cap) for a non-zero slot; from >= 0 restricts to [from,cap).
func (h *c42Handle) lowestDirty(from int) (int, bool) {
	switch h.kind {
	case c42BB:
		b := h.bb.B[:cap(h.bb.B)]
		for i := from; i < len(b); i++ {
			if b[i] != 0 {
				return i, true
			}
		}
	case c42BS:
		b := h.bs.B[:cap(h.bs.B)]
		for i := from; i < len(b); i++ {
			if b[i] != nil {
				return i, true
			}
		}
	default:
		b := h.ib.B[:cap(h.ib.B)]
		for i := from; i < len(b); i++ {
			if b[i].Data != nil || b[i].Channel != "" || b[i].Key != "" || b[i].FrameType != 0 {
				return i, true
			}
		}
	}
	return 0, false
}

func (h *c42Handle) write(i int) {
	switch h.kind {
	case c42BB:
		h.bb.B[i] = 0xAA
	case c42BS:
		h.bs.B[i] = []byte{1}
	default:
		h.ib.B[i] = queue.Item{Data: []byte{1}, Channel: "stale"}
	}
}

func (h *c42Handle) reslice(k int) {
	switch h.kind {
	case c42BB:
		if k == 0 {
			h.bb.Reset() // the real method
		} else {
			h.bb.B = h.bb.B[:k]
		}
	case c42BS:
		h.bs.B = h.bs.B[:k]
	default:
		h.ib.B = h.ib.B[:k]
	}
}

func (h *c42Handle) setNew(c, l int, dirty bool) {
	switch h.kind {
	case c42BB:
		h.bb.B = make([]byte, l, c)
	case c42BS:
		h.bs.B = make([][]byte, l, c)
	default:
		h.ib.B = make([]queue.Item, l, c)
	}
	if dirty {
		for i := 0; i < l; i++ {
			h.write(i)
		}
	}
}

func c42Get(kind int, n int) (h *c42Handle, panicked bool) {
	defer func() {
		if r := recover(); r != nil {
			h, panicked = nil, true
		}
	}()
	h = &c42Handle{kind: kind}
	switch kind {
	case c42BB:
		h.bb = bpool.GetByteBuffer(n)
	case c42BS:
		h.bs = bpool.GetByteSlicesBuf(n)
	default:
		h.ib = getItemBuf(n)
	}
	return h, false
}

func c42Put(h *c42Handle) {
	switch h.kind {
	case c42BB:
		bpool.PutByteBuffer(h.bb)
	case c42BS:
		bpool.PutByteSlicesBuf(h.bs)
	default:
		putItemBuf(h.ib)
	}
}

// worker goroutines (locked to OS threads so that they tend to run on different Ps and
// exercise sync.Pool's per-P caches and stealing); the driver passes a token: strictly one op at a time.
type c42Workers struct {
	req  []chan func()
	done chan struct{}
}

func c42StartWorkers(n int) *c42Workers {
	w := &c42Workers{done: make(chan struct{})}
	for i := 0; i < n; i++ {
		ch := make(chan func())
		w.req = append(w.req, ch)
		go func() {
			runtime.LockOSThread()
			defer runtime.UnlockOSThread()
			for f := range ch {
				f()
				w.done <- struct{}{}
			}
		}()
	}
	return w
}

func (w *c42Workers) do(i int, f func()) {
	if w == nil || i < 0 {
		f()
		return
	}
	w.req[i] <- f
	<-w.done
}

func (w *c42Workers) stop() {
	if w == nil {
		return
	}
	for _, ch := range w.req {
		close(ch)
	}
}

func c42Size(r *rand.Rand, kind int) int {
	max := 4096
	top := 12
	if kind == c42BB {
		max = 262144
		top = 18
	}
	switch r.Intn(12) {
	case 0:
		return 0
	case 1:
		if kind == c42BB {
			// negative lengths reach the class computation through uint32 truncation
			return [...]int{-1, -4294967296, -4294967296 + 5, -4294967296 + 262144, -3, -4294967295}[r.Intn(6)]
		}
		return -r.Intn(5)
	case 2:
		return max + 1 + r.Intn(40)
	case 3:
		return max - r.Intn(3)
	case 4, 5, 6, 7:
		// around a power of two
		e := r.Intn(top + 1)
		if r.Intn(3) > 0 && e > 7 {
			e = r.Intn(8)
		}
		v := (1 << e) + r.Intn(3) - 1
		if v < 0 {
			v = 0
		}
		return v
	case 8:
		return 1 + r.Intn(max)
	default:
		return 1 + r.Intn(40)
	}
}

type c42Script struct {
	kind int
	mt   bool
	ops  []string // Coq terms
	desc []string // JSON description
	gets []string
	// statistics
	reuse, crossReuse, uncovered, panics int
}

func c42Run(r *rand.Rand, kind int, mt bool, fixed []string, allowUncovered bool) *c42Script {
	// Empty the real pools: two GC cycles drop primary and victim caches of every sync.Pool.
	runtime.GC()
	runtime.GC()
	sc := &c42Script{kind: kind, mt: mt}
	var wk *c42Workers
	nw := 0
	if mt {
		nw = 2 + r.Intn(3)
		wk = c42StartWorkers(nw)
		defer wk.stop()
	}
	type live struct {
		id     int
		h      *c42Handle
		putter int
	}
	held := []*live{}
	inPool := map[any]*live{} // buffers Put in this case (kept referenced: addresses cannot be recycled)
	nextID := 0
	pick := func() int {
		if !mt {
			return -1
		}
		return r.Intn(nw)
	}
	doGet := func(n int) {
		w := pick()
		var h *c42Handle
		var pan bool
		wk.do(w, func() { h, pan = c42Get(kind, n) })
		if pan {
			sc.ops = append(sc.ops, vApp("OGet", vZ(int64(n)), "None"))
			sc.desc = append(sc.desc, fmt.Sprintf("get(%d)@w%d -> panic", n, w))
			sc.gets = append(sc.gets, "ObsPanic")
			sc.panics++
			return
		}
		choice := "None"
		var lv *live
		if old, ok := inPool[h.ptr()]; ok {
			lv = old
			delete(inPool, h.ptr())
			choice = vOpt(vN(uint64(old.id)), true)
			sc.reuse++
			if old.putter != w {
				sc.crossReuse++
			}
			lv.h = h
		} else {
			lv = &live{id: nextID, h: h}
			nextID++
		}
		held = append(held, lv)
		c, l := h.capLen()
		d, has := h.lowestDirty(0)
		sc.ops = append(sc.ops, vApp("OGet", vZ(int64(n)), choice))
		sc.gets = append(sc.gets, vApp("ObsBuf", vN(uint64(c)), vN(uint64(l)), vOpt(vN(uint64(d)), has)))
		sc.desc = append(sc.desc, fmt.Sprintf("get(%d)@w%d -> #%d %s cap=%d len=%d dirty=%v/%d", n, w, lv.id, choice, c, l, has, d))
	}
	doPut := func(k int) {
		lv := held[k]
		held = append(held[:k], held[k+1:]...)
		_, l := lv.h.capLen()
		if _, has := lv.h.lowestDirty(l); has {
			sc.uncovered++
		}
		w := pick()
		lv.putter = w
		inPool[lv.h.ptr()] = lv
		wk.do(w, func() { c42Put(lv.h) })
		sc.ops = append(sc.ops, vApp("OPut", vN(uint64(lv.id))))
		sc.desc = append(sc.desc, fmt.Sprintf("put(#%d)@w%d", lv.id, w))
	}
	mut := func(lv *live, term, d string) {
		sc.ops = append(sc.ops, vApp("OMut", vN(uint64(lv.id)), term))
		sc.desc = append(sc.desc, fmt.Sprintf("#%d.%s", lv.id, d))
	}
	doMut := func(k int, what int) {
		lv := held[k]
		h := lv.h
		c, l := h.capLen()
		switch what {
		case 0: // write one visible slot
			if l == 0 {
				return
			}
			i := r.Intn(l)
			h.write(i)
			mut(lv, vApp("MWrite", vN(uint64(i))), fmt.Sprintf("B[%d]=x", i))
		case 1: // fill
			for i := 0; i < l; i++ {
				h.write(i)
			}
			mut(lv, "MFill", "fill")
		case 2: // reslice within capacity
			k2 := 0
			if c > 0 {
				switch r.Intn(4) {
				case 0:
					k2 = 0
				case 1:
					k2 = c
				default:
					k2 = r.Intn(c + 1)
				}
			}
			h.reslice(k2)
			mut(lv, vApp("MReslice", vN(uint64(k2))), fmt.Sprintf("B=B[:%d]", k2))
		case 3: // a different backing array of arbitrary capacity (append growth, caller-made slice)
			c2 := c42Size(r, kind)
			if c2 < 0 {
				c2 = -c2 % 100
			}
			if r.Intn(2) == 0 {
				c2 = c + 1 + r.Intn(2*c+2)
			}
			l2 := 0
			if c2 > 0 && r.Intn(3) > 0 {
				l2 = r.Intn(c2 + 1)
			}
			dirty := r.Intn(3) > 0
			h.setNew(c2, l2, dirty)
			mut(lv, vApp("MSetNew", vN(uint64(c2)), vN(uint64(l2)), vBool(dirty)), fmt.Sprintf("B=make(%d,%d) dirty=%v", l2, c2, dirty))
		case 4: // ByteBuffer.Write (append) through the real method; other kinds: append too
			kk := 1 + r.Intn(9)
			if h.kind == c42BB {
				p := make([]byte, kk)
				for i := range p {
					p[i] = 0xAA
				}
				_, _ = h.bb.Write(p)
			} else if h.kind == c42BS {
				for i := 0; i < kk; i++ {
					h.bs.B = append(h.bs.B, []byte{1})
				}
			} else {
				for i := 0; i < kk; i++ {
					h.ib.B = append(h.ib.B, queue.Item{Channel: "stale"})
				}
			}
			c2, l2 := h.capLen()
			// make the whole visible part non-zero so that the model's MFill / MSetNew-dirty describes it exactly
			for i := 0; i < l2; i++ {
				h.write(i)
			}
			if l+kk <= c {
				mut(lv, vApp("MReslice", vN(uint64(l2))), fmt.Sprintf("append(%d) in place", kk))
				mut(lv, "MFill", "fill")
			} else {
				mut(lv, vApp("MSetNew", vN(uint64(c2)), vN(uint64(l2)), "true"), fmt.Sprintf("append(%d) grew to cap %d", kk, c2))
			}
		}
	}
	if fixed != nil {
		// tiny scripted language for the corpus: "g<n>", "p<k>" (k-th held), "w<k>,<i>", "f<k>", "r<k>,<len>", "n<k>,<cap>,<len>,<0|1>"
		for _, s := range fixed {
			var a, b, c, d int
			switch s[0] {
			case 'g':
				fmt.Sscanf(s[1:], "%d", &a)
				doGet(a)
			case 'p':
				fmt.Sscanf(s[1:], "%d", &a)
				doPut(a)
			case 'w':
				fmt.Sscanf(s[1:], "%d,%d", &a, &b)
				held[a].h.write(b)
				mut(held[a], vApp("MWrite", vN(uint64(b))), fmt.Sprintf("B[%d]=x", b))
			case 'f':
				fmt.Sscanf(s[1:], "%d", &a)
				_, l := held[a].h.capLen()
				for i := 0; i < l; i++ {
					held[a].h.write(i)
				}
				mut(held[a], "MFill", "fill")
			case 'r':
				fmt.Sscanf(s[1:], "%d,%d", &a, &b)
				held[a].h.reslice(b)
				mut(held[a], vApp("MReslice", vN(uint64(b))), fmt.Sprintf("B=B[:%d]", b))
			case 'n':
				fmt.Sscanf(s[1:], "%d,%d,%d,%d", &a, &b, &c, &d)
				held[a].h.setNew(b, c, d == 1)
				mut(held[a], vApp("MSetNew", vN(uint64(b)), vN(uint64(c)), vBool(d == 1)), fmt.Sprintf("B=make(%d,%d) dirty=%v", c, b, d == 1))
			}
		}
		return sc
	}
	nops := 8 + r.Intn(48)
	// sizes of one case cluster around a few classes so that reuse actually happens
	var favourite []int
	for i := 0; i < 1+r.Intn(3); i++ {
		favourite = append(favourite, c42Size(r, kind))
	}
	size := func() int {
		if r.Intn(4) == 0 {
			return c42Size(r, kind)
		}
		f := favourite[r.Intn(len(favourite))]
		if f > 2 && r.Intn(2) == 0 {
			// same class, different length
			lo := 1
			for lo*2 < f {
				lo *= 2
			}
			return lo + 1 + r.Intn(f-lo)
		}
		return f
	}
	for i := 0; i < nops; i++ {
		x := r.Intn(10)
		switch {
		case len(held) == 0 || x < 3:
			doGet(size())
		case x < 6:
			k := r.Intn(len(held))
			doPut(k)
		default:
			k := r.Intn(len(held))
			what := r.Intn(5)
			if kind == c42IB && !allowUncovered && what >= 2 {
				what = r.Intn(2)
			}
			doMut(k, what)
		}
	}
	// return everything so that the next Gets of this case see it, then a final round of Gets
	if r.Intn(2) == 0 {
		for len(held) > 0 {
			doPut(0)
		}
		for i := 0; i < 1+r.Intn(4); i++ {
			doGet(size())
		}
	}
	return sc
}

func TestVerifC42(t *testing.T) {
	w := verifOpen(t, "C42")
	defer w.Close()
	// The driver forces two GC cycles per case to empty the pools; switch the pacer (and with it the
	// background scavenger's madvise traffic) off for the duration of the test.
	defer debug.SetGCPercent(debug.SetGCPercent(-1))
	type fx struct {
		kind int
		ops  []string
	}
	corpus := []fx{
		{c42BB, []string{"g0", "p0", "g0"}},
		{c42BB, []string{"g1", "p0", "g1"}},
		{c42BB, []string{"g5", "r0,3", "f0", "n0,12,9,1", "p0", "g8", "g9"}},
		{c42BB, []string{"g262144", "f0", "p0", "g262144", "g262145", "p1", "g262145"}},
		{c42BB, []string{"g131073", "r0,131073", "f0", "p0", "g262144"}},
		{c42BB, []string{"g-4294967296"}},
		{c42BB, []string{"g-4294967291", "p0", "g5"}},
		{c42BB, []string{"g-1"}},
		{c42BB, []string{"g3", "n0,7,7,1", "p0", "g4", "g5", "p1", "g8"}},
		{c42BS, []string{"g0", "r0,16", "f0", "p0", "g16", "g-3"}},
		{c42BS, []string{"g4096", "r0,4096", "f0", "r0,7", "p0", "g4096", "g4097"}},
		{c42BS, []string{"g5", "n0,4097,10,1", "p0", "g4096", "g5"}},
		{c42BS, []string{"g3", "n0,5,5,1", "p0", "g4", "g3", "p1", "g8"}},
		{c42IB, []string{"g3", "f0", "p0", "g4"}},                          // covered: clean reuse with a longer length
		{c42IB, []string{"g0", "f0", "p0", "g16", "g-1"}},                  // default length
		{c42IB, []string{"g4096", "f0", "p0", "g4096", "g4097", "f1", "p1", "g4097"}},
		{c42IB, []string{"g4", "f0", "r0,0", "p0", "g4"}},                  // put after re-slicing shorter: the pre-beefe1b7 defect (replay fixes/C42-itembuf-put-clears-len-only)
		{c42IB, []string{"g3", "r0,4", "w0,3", "r0,3", "p0", "g4"}},        // non-zero slot beyond len at Put
		{c42IB, []string{"g1", "n0,8,8,1", "r0,2", "p0", "g8"}},            // Put of a caller-made dirty slice
	}
	for i := 0; i < w.N; i++ {
		if !w.Want(i) {
			continue
		}
		r := w.Rand(i)
		var sc *c42Script
		class := ""
		if i < len(corpus) {
			sc = c42Run(r, corpus[i].kind, false, corpus[i].ops, true)
			class = "corpus/" + c42KindName[corpus[i].kind]
		} else {
			kind := r.Intn(3)
			mt := r.Intn(4) == 0
			// half of the item-buffer cases stay within the writer.go discipline (itemBuf.B never reassigned), the
			// other half reslices / replaces B before Put like the other kinds
			allow := kind != c42IB || r.Intn(2) == 0
			sc = c42Run(r, kind, mt, nil, allow)
			class = c42KindName[kind]
			if mt {
				class += "/workers"
			}
			if kind == c42IB && allow {
				class += "/undisciplined"
			}
		}
		if sc.reuse > 0 {
			class += "/reuse"
		}
		if sc.panics > 0 {
			class += "/panic"
		}
		js := map[string]any{"kind": c42KindName[sc.kind], "ops": sc.desc, "reuse": sc.reuse, "cross_worker_reuse": sc.crossReuse}
		js["uncovered_puts"] = sc.uncovered
		w.Extra["reuse_total"] = c42AddInt(w.Extra["reuse_total"], sc.reuse)
		w.Extra["cross_worker_reuse_total"] = c42AddInt(w.Extra["cross_worker_reuse_total"], sc.crossReuse)
		term := vApp("mkCase", c42KindName[sc.kind], vList(sc.ops), vList(sc.gets))
		w.Case(i, term, js, class, sc.reuse > 0)
	}
}

func c42AddInt(old any, d int) int {
	if v, ok := old.(int); ok {
		return v + d
	}
	return d
}
