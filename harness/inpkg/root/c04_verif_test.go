package centrifuge

import (
	"math/rand"
	"testing"
)

// C04 Publication routing matches subscription state.
func TestVerifC04(t *testing.T) {
	w := verifOpen(t, "C04")
	defer w.Close()
	c04RunAll(w, func(i int, r *rand.Rand) c04Plan { return c04Plans(i, r, false) })
}
