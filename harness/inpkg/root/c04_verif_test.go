package centrifuge

import (
	"math/rand"
	"testing"
)

// C04 Publication routing matches subscription state.
func TestVerifC04(t *testing.T) {
	w := verifOpen(t, "C04")
	defer w.Close()
	c04RunAll(w, func(i int, r *rand.Rand) c04Plan {
		pr := c04Opts{Pres: true}
		switch i {
		case 1, 2, 3: // presence-manager faults: RemovePresence reports an error during an explicit unsubscribe
			// (client command / server-side) or during close; routing must still follow the subscription state
			kind := []string{"", "unsubcli", "unsubsrv", "close"}[i]
			return c04Plan{Name: "presence-remove-error/" + kind, NCh: 1, Armed: []c04Gk{c04GkPresRem, c04GkJoin},
				Script: func(e *c04Eng, r *rand.Rand) {
					c04Connect(e)
					e.spawn(c04Op{Kind: "subsrv", Ch: 0, Opts: pr})
					e.spawn(c04Op{Kind: kind, Ch: 0})
					if p := e.parkOf(c04GkPresRem); p != nil {
						e.release(p, false)
					}
				}}
		case 5: // AddPresence failing during subscribe (rollback), then a RemovePresence error in the rollback
			return c04Plan{Name: "presence-add-error/subscribe", NCh: 1, Armed: []c04Gk{c04GkPresAdd, c04GkPresRem, c04GkJoin},
				Script: func(e *c04Eng, r *rand.Rand) {
					c04Connect(e)
					e.spawn(c04Op{Kind: "subsrv", Ch: 0, Opts: pr})
					if p := e.parkOf(c04GkPresAdd); p != nil {
						e.release(p, false)
					}
					if p := e.parkOf(c04GkPresRem); p != nil {
						e.release(p, false)
					}
				}}
		}
		return c04Plans(i, r, false)
	})
}
