#!/usr/bin/env python3
"""C33: regenerate coq/Gen/C33Lua.v from the sources that BUILD Redis PUB/SUB payloads.

  * internal/redis_lua/broker_history_add_stream.lua, broker_history_add_list.lua:
    every `payload = <concatenation>` is turned into a token template
    (TLit bytes | TVar v | TLen v) over the variables top_offset, current_epoch,
    prev_message_payload, message_payload;
  * internal/epoch/epoch.go: the alphabet and length of generated epochs;
  * broker_redis.go: joinTypePrefix / leaveTypePrefix and the fact that PublishJoin /
    PublishLeave send append(prefix, byteMessage...) and plain Publish sends byteMessage.

Fails closed: anything unexpected is an error, so the tie is reported broken instead of a
stale template being kept.      usage: c33_lua_payload.py REPO OUTDIR
"""
import os, re, sys


def die(msg):
    print("c33_lua_payload: " + msg, file=sys.stderr)
    sys.exit(1)


VARS = {"top_offset": "Voffset", "current_epoch": "Vepoch",
        "prev_message_payload": "Vprev", "message_payload": "Vpayload"}


def strip_lua_comments(src):
    out = []
    for line in src.split("\n"):
        # no string literal of these scripts contains "--"
        i = line.find("--")
        out.append(line if i < 0 else line[:i])
    return "\n".join(out)


def coq_bytes(b):
    return "[" + "; ".join(str(x) for x in b) + "]"


def parse_concat(expr, where):
    toks, i, n = [], 0, len(expr)
    expect_operand = True
    while i < n:
        c = expr[i]
        if c.isspace():
            i += 1
            continue
        if expect_operand:
            if c == '"' or c == "'":
                j = expr.find(c, i + 1)
                if j < 0:
                    die("%s: unterminated string literal" % where)
                lit = expr[i + 1:j]
                if "\\" in lit:
                    die("%s: escape sequences are not supported: %r" % (where, lit))
                toks.append("TLit " + coq_bytes(lit.encode()))
                i = j + 1
            elif c == "#":
                m = re.match(r"#\s*([A-Za-z_]\w*)", expr[i:])
                if not m or m.group(1) not in VARS:
                    die("%s: unsupported length operand near %r" % (where, expr[i:i + 30]))
                toks.append("TLen " + VARS[m.group(1)])
                i += m.end()
            else:
                m = re.match(r"[A-Za-z_]\w*", expr[i:])
                if not m or m.group(0) not in VARS:
                    die("%s: unsupported operand near %r" % (where, expr[i:i + 30]))
                toks.append("TVar " + VARS[m.group(0)])
                i += m.end()
            expect_operand = False
        else:
            if expr.startswith("..", i):
                i += 2
                expect_operand = True
            else:
                die("%s: expected '..' near %r" % (where, expr[i:i + 30]))
    if expect_operand:
        die("%s: dangling '..'" % where)
    return toks


def payload_templates(path):
    src = strip_lua_comments(open(path).read())
    # every assignment to `payload`, up to the next statement keyword
    exprs = re.findall(r"(?:local\s+)?\bpayload\s*=\s*(.*?)(?=\n\s*(?:else\b|end\b|redis\.call|local\b|if\b|return\b))", src, re.S)
    if len(exprs) != 2:
        die("%s: expected exactly 2 assignments to `payload`, found %d" % (path, len(exprs)))
    plain = delta = None
    for e in exprs:
        toks = parse_concat(e.strip(), path)
        txt = " ".join(toks)
        if coq_bytes(b"d1:") in txt:
            if delta is not None:
                die("%s: two delta templates" % path)
            delta = toks
        elif coq_bytes(b"p1:") in txt:
            if plain is not None:
                die("%s: two positioned templates" % path)
            plain = toks
        else:
            die("%s: template is neither p1 nor d1: %s" % (path, e))
    if plain is None or delta is None:
        die("%s: missing p1 or d1 template" % path)
    # the payload must be what is PUBLISHed
    if not re.search(r"redis\.call\(\s*publish_command\s*,\s*channel\s*,\s*payload\s*\)", src):
        die("%s: redis.call(publish_command, channel, payload) not found" % path)
    for v, lua in (("top_offset", r'local\s+top_offset\s*=\s*redis\.call\(\s*"hincrby"\s*,\s*meta_key\s*,\s*"s"\s*,\s*1\s*\)'),
                   ("message_payload", r"local\s+message_payload\s*=\s*ARGV\[1\]")):
        if not re.search(lua, src):
            die("%s: definition of %s is not the expected one" % (path, v))
    return plain, delta


def main():
    if len(sys.argv) != 3:
        die("usage: c33_lua_payload.py REPO OUTDIR")
    repo, outdir = sys.argv[1], sys.argv[2]
    sp, sd = payload_templates(os.path.join(repo, "internal/redis_lua/broker_history_add_stream.lua"))
    lp, ld = payload_templates(os.path.join(repo, "internal/redis_lua/broker_history_add_list.lua"))
    # the list script also STORES the positioned payload in the list (history values are parsed
    # by the same extractPushData)
    lsrc = strip_lua_comments(open(os.path.join(repo, "internal/redis_lua/broker_history_add_list.lua")).read())
    if not re.search(r'redis\.call\(\s*"lpush"\s*,\s*list_key\s*,\s*payload\s*\)', lsrc):
        die("list script: lpush of payload not found")

    esrc = open(os.path.join(repo, "internal/epoch/epoch.go")).read()
    m = re.search(r'const\s+letters\s*=\s*"([^"\\]*)"', esrc)
    if not m:
        die("epoch.go: const letters not found")
    letters = m.group(1).encode()
    m2 = re.search(r"b\s*:=\s*make\(\[\]byte,\s*(\d+)\)", esrc)
    if not m2 or not re.search(r"b\[i\]\s*=\s*letters\[b\[i\]%byte\(len\(letters\)\)\]", esrc):
        die("epoch.go: Generate has an unexpected shape")
    elen = int(m2.group(1))

    gsrc = open(os.path.join(repo, "broker_redis.go")).read()
    pj = re.search(r'joinTypePrefix\s*=\s*\[\]byte\("([^"\\]*)"\)', gsrc)
    pl = re.search(r'leaveTypePrefix\s*=\s*\[\]byte\("([^"\\]*)"\)', gsrc)
    if not pj or not pl:
        die("broker_redis.go: join/leave prefixes not found")
    if len(re.findall(r"Message\(convert\.BytesToString\(append\(joinTypePrefix, byteMessage\.\.\.\)\)\)", gsrc)) != 2:
        die("broker_redis.go: publishJoin does not send append(joinTypePrefix, byteMessage...)")
    if len(re.findall(r"Message\(convert\.BytesToString\(append\(leaveTypePrefix, byteMessage\.\.\.\)\)\)", gsrc)) != 2:
        die("broker_redis.go: publishLeave does not send append(leaveTypePrefix, byteMessage...)")
    if len(re.findall(r"Message\(convert\.BytesToString\(byteMessage\)\)", gsrc)) < 2:
        die("broker_redis.go: plain publish of byteMessage not found")
    ms = re.search(r'metaSep\s*=\s*\[\]byte\("([^"\\]*)"\)', gsrc)
    cs = re.search(r'contentSep\s*=\s*"([^"\\]*)"', gsrc)
    if not ms or not cs:
        die("broker_redis.go: metaSep / contentSep not found")

    def tpl(name, toks):
        return "Definition %s : list tok :=\n  [%s].\n" % (name, ";\n   ".join(toks))

    out = ["(* GENERATED by translators/c33_lua_payload.py from internal/redis_lua/broker_history_add_{stream,list}.lua,",
           "   internal/epoch/epoch.go and broker_redis.go.  Do not edit. *)",
           "From Coq Require Import List NArith.",
           "From Cfg Require Import Model.PushFrame.",
           "Import ListNotations.",
           "Open Scope N_scope.",
           "",
           tpl("lua_stream_plain", sp), tpl("lua_stream_delta", sd),
           tpl("lua_list_plain", lp), tpl("lua_list_delta", ld),
           "Definition epoch_letters : bytes := %s.\n" % coq_bytes(letters),
           "Definition epoch_len : nat := %d.\n" % elen,
           "Definition go_join_prefix : bytes := %s.\n" % coq_bytes(pj.group(1).encode()),
           "Definition go_leave_prefix : bytes := %s.\n" % coq_bytes(pl.group(1).encode()),
           "Definition go_meta_sep : bytes := %s.\n" % coq_bytes(ms.group(1).encode()),
           "Definition go_content_sep : bytes := %s.\n" % coq_bytes(cs.group(1).encode())]
    txt = "\n".join(out)
    os.makedirs(outdir, exist_ok=True)
    p = os.path.join(outdir, "C33Lua.v")
    old = open(p).read() if os.path.exists(p) else None
    if old != txt:
        open(p, "w").write(txt)


if __name__ == "__main__":
    main()
