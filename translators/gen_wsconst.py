#!/usr/bin/env python3
"""Translate the data-like parts of /repo/internal/websocket (+ two constants of the root
package) into coq/Gen/WsConst.v.  Used by C31 (close-code table, GUID, challenge-key buffer),
C29 and C30 (frame constants).  Fails closed: anything it cannot parse is an error, so the
property's tie is reported broken instead of silently keeping a stale table.

usage: gen_wsconst.py REPO OUTDIR
"""
import os, re, sys


def die(msg):
    print("gen_wsconst: " + msg, file=sys.stderr)
    sys.exit(1)


def strip_go_comments(src):
    out, i, n = [], 0, len(src)
    while i < n:
        c = src[i]
        if c == '"':
            j = i + 1
            while j < n and src[j] != '"':
                j += 2 if src[j] == '\\' else 1
            out.append(src[i:j + 1]); i = j + 1
        elif c == '`':
            j = src.index('`', i + 1)
            out.append(src[i:j + 1]); i = j + 1
        elif c == "'":
            j = i + 1
            while j < n and src[j] != "'":
                j += 2 if src[j] == '\\' else 1
            out.append(src[i:j + 1]); i = j + 1
        elif src.startswith("//", i):
            j = src.find("\n", i)
            i = n if j < 0 else j
        elif src.startswith("/*", i):
            j = src.index("*/", i + 2)
            i = j + 2
        else:
            out.append(c); i += 1
    return "".join(out)


def func_body(src, header_re):
    m = re.search(header_re, src)
    if not m:
        die("function not found: " + header_re)
    i = src.index("{", m.end() - 1)
    depth, j = 0, i
    while j < len(src):
        if src[j] == "{":
            depth += 1
        elif src[j] == "}":
            depth -= 1
            if depth == 0:
                return src[i + 1:j]
        j += 1
    die("unbalanced braces after " + header_re)


def eval_int(expr, env):
    expr = expr.strip()
    if not re.fullmatch(r"[\w\s+\-*<()]+", expr):
        die("unsupported constant expression: " + expr)
    names = set(re.findall(r"[A-Za-z_]\w*", expr))
    for nm in names:
        if nm not in env:
            die("unknown identifier in constant expression: %s (%s)" % (nm, expr))
    return int(eval(expr, {"__builtins__": {}}, dict(env)))


def main():
    if len(sys.argv) != 3:
        die("usage: gen_wsconst.py REPO OUTDIR")
    repo, outdir = sys.argv[1], sys.argv[2]
    conn = strip_go_comments(open(os.path.join(repo, "internal/websocket/conn.go")).read())
    util = strip_go_comments(open(os.path.join(repo, "internal/websocket/util.go")).read())
    disc = strip_go_comments(open(os.path.join(repo, "disconnect.go")).read())

    # ---- integer constants of conn.go (all `const ( ... )` blocks, `name = expr` lines)
    env = {}
    for blk in re.findall(r"\bconst\s*\((.*?)\n\)", conn, re.S):
        for line in blk.split("\n"):
            m = re.match(r"\s*(\w+)\s*=\s*(.+?)\s*$", line)
            if not m:
                continue
            name, expr = m.group(1), m.group(2)
            if "time." in expr or "int32(" in expr or '"' in expr:
                continue
            env[name] = eval_int(expr, env)
    need = ["finalBit", "rsv1Bit", "rsv2Bit", "rsv3Bit", "maskBit", "maxFrameHeaderSize",
            "maxControlFramePayloadSize", "defaultReadBufferSize", "defaultWriteBufferSize",
            "continuationFrame", "TextMessage", "BinaryMessage", "CloseMessage", "PingMessage", "PongMessage",
            "CloseNormalClosure", "CloseProtocolError", "CloseNoStatusReceived", "CloseAbnormalClosure",
            "CloseMessageTooBig", "CloseInvalidFramePayloadData"]
    for k in need:
        if k not in env:
            die("constant %s not found in conn.go" % k)

    # ---- validReceivedCloseCodes
    m = re.search(r"var\s+validReceivedCloseCodes\s*=\s*map\[int\]bool\s*\{(.*?)\n\}", conn, re.S)
    if not m:
        die("validReceivedCloseCodes literal not found")
    table = []
    for line in m.group(1).split("\n"):
        line = line.strip()
        if not line:
            continue
        mm = re.fullmatch(r"(\w+)\s*:\s*(true|false)\s*,", line)
        if not mm:
            die("cannot parse close code table line: " + line)
        table.append((eval_int(mm.group(1), env), mm.group(2)))
    if len(set(c for c, _ in table)) != len(table):
        die("duplicate key in validReceivedCloseCodes")

    body = func_body(conn, r"func\s+isValidReceivedCloseCode\s*\(\s*code\s+int\s*\)\s*bool\s*\{")
    mm = re.fullmatch(r"\s*return\s+validReceivedCloseCodes\[code\]\s*\|\|\s*\(\s*code\s*>=\s*(\d+)\s*&&\s*code\s*<=\s*(\d+)\s*\)\s*", body)
    if not mm:
        die("isValidReceivedCloseCode has an unexpected shape: " + body.strip())
    lo, hi = int(mm.group(1)), int(mm.group(2))

    # ---- recordCloseCode guard and incoming bit
    body = func_body(conn, r"func\s+\(c\s+\*Conn\)\s+recordCloseCode\s*\(")
    mm = re.search(r"if\s+code\s*<=\s*0\s*\|\|\s*code\s*>\s*(0x[0-9A-Fa-f]+|\d+)\s*\{\s*return\s*\}", body)
    if not mm or "CompareAndSwap(0, v)" not in body:
        die("recordCloseCode has an unexpected shape")
    rec_max = int(mm.group(1), 0)

    # ---- FormatCloseMessage: empty for CloseNoStatusReceived
    body = func_body(conn, r"func\s+FormatCloseMessage\s*\(")
    if not re.search(r"if\s+closeCode\s*==\s*CloseNoStatusReceived\s*\{\s*return\s+\[\]byte\{\}\s*\}", body):
        die("FormatCloseMessage has an unexpected shape")

    # ---- advanceFrame: is a close body of exactly one byte rejected?
    body = func_body(conn, r"func\s+\(c\s+\*Conn\)\s+advanceFrame\s*\(")
    if "case CloseMessage:" not in body or "closeCode := CloseNoStatusReceived" not in body:
        die("advanceFrame: close frame handling not found")
    close1 = bool(re.search(r"len\(payload\)\s*==\s*1\s*\{[^}]*handleProtocolError", body))
    if not close1 and re.search(r"len\(payload\)\s*==\s*1", body):
        die("advanceFrame: unexpected handling of a one byte close body")

    # ---- util.go: GUID and challenge key validation
    mm = re.search(r'var\s+keyGUID\s*=\s*\[\]byte\("([^"\\]*)"\)', util)
    if not mm:
        die("keyGUID not found")
    guid = mm.group(1)
    body = func_body(util, r"func\s+isValidChallengeKey\s*\(")
    m1 = re.search(r"if\s+len\(s\)\s*!=\s*(\d+)\s*\{\s*return\s+false\s*\}", body)
    m2 = re.search(r"buf\s*:=\s*make\(\[\]byte,\s*(\d+)\)", body)
    m3 = re.search(r"n,\s*err\s*:=\s*base64\.StdEncoding\.Decode\(buf,\s*\[\]byte\(s\)\)\s*return\s+err\s*==\s*nil\s*&&\s*n\s*==\s*(\d+)", body)
    if m1 and m2 and m3:
        key_len, key_cap, key_n = int(m1.group(1)), int(m2.group(1)), int(m3.group(1))
    elif re.search(r"base64\.StdEncoding\.DecodeString\(s\)", body) and re.search(r"len\(\w+\)\s*==\s*16", body):
        # gorilla's original shape: DecodeString allocates DecodedLen(len(s)) bytes, no fixed length test
        die("isValidChallengeKey uses DecodeString: model Model/WsHandshake.v assumes the fixed-buffer shape")
    else:
        die("isValidChallengeKey has an unexpected shape")

    # ---- root package: the disconnect that sends no close frame
    mm = re.search(r"var\s+DisconnectConnectionClosed\s*=\s*Disconnect\s*\{\s*Code:\s*(\d+)\s*,", disc)
    if not mm:
        die("DisconnectConnectionClosed not found")
    disc_closed = int(mm.group(1))

    def N(x):
        return "%d%%N" % x

    lines = []
    lines.append("(* GENERATED by translators/gen_wsconst.py from /repo/internal/websocket/{conn,util}.go and /repo/disconnect.go.")
    lines.append("   Do not edit: regenerated before every check so that theorems are re-proved on what the code says now. *)")
    lines.append("From Coq Require Import List NArith.")
    lines.append("Import ListNotations.")
    lines.append("")
    for k in need:
        lines.append("Definition c_%s : N := %s." % (k, N(env[k])))
    lines.append("")
    lines.append("(* validReceivedCloseCodes, in source order *)")
    lines.append("Definition valid_received_close_codes : list (N * bool) :=")
    lines.append("  [" + "; ".join("(%s, %s)" % (N(c), b) for c, b in table) + "].")
    lines.append("(* isValidReceivedCloseCode: table[code] || (lo <= code <= hi) *)")
    lines.append("Definition close_code_range_lo : N := %s." % N(lo))
    lines.append("Definition close_code_range_hi : N := %s." % N(hi))
    lines.append("(* recordCloseCode ignores code <= 0 and code > this *)")
    lines.append("Definition record_close_code_max : N := %s." % N(rec_max))
    lines.append("(* advanceFrame rejects a close frame whose body is exactly one byte (protocol error) *)")
    lines.append("Definition close_body1_rejected : bool := %s." % ("true" if close1 else "false"))
    lines.append("")
    lines.append("Definition key_guid : list N := [" + "; ".join(N(b) for b in guid.encode()) + "].")
    lines.append("(* isValidChallengeKey: len(s) == key_len, buf := make([]byte, key_buf_cap), n == key_decoded_len *)")
    lines.append("Definition key_len : N := %s." % N(key_len))
    lines.append("Definition key_buf_cap : N := %s." % N(key_cap))
    lines.append("Definition key_decoded_len : N := %s." % N(key_n))
    lines.append("")
    lines.append("(* root package: DisconnectConnectionClosed.Code (websocketTransport.Close sends no frame for it) *)")
    lines.append("Definition disconnect_connection_closed_code : N := %s." % N(disc_closed))
    txt = "\n".join(lines) + "\n"

    os.makedirs(outdir, exist_ok=True)
    p = os.path.join(outdir, "WsConst.v")
    old = open(p).read() if os.path.exists(p) else None
    if old != txt:
        tmp = p + ".tmp%d" % os.getpid()
        open(tmp, "w").write(txt)
        os.replace(tmp, p)


if __name__ == "__main__":
    main()
