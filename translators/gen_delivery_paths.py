#!/usr/bin/env python3
"""C16 translator: inventory of every producer of publications towards a subscriber in the
root package of the repo, regenerated on every run.

usage: gen_delivery_paths.py <repo> <coq/Gen dir>

A *site* is (file, enclosing function, kind) where kind is one of
  call:<fn>      a call of one of the functions that write a publication to a client
  push:pub       a writeEncodedPushData(..., FrameTypePushPublication, ...) call
  set:<Field>    an assignment  x.Publications = / x.State = / x.Pub =
  lit:<Field>    a composite-literal field  Publications: / State: / Pub:
Every site must be classified in KNOWN below as one of the modelled delivery paths of
Model/TagsPaths.v, as an out-of-scope path (with the reason), or as internal plumbing that does
not hand anything to a client by itself.  An unclassified site makes the translator FAIL (fails
closed): a new delivery path cannot appear without a decision about its filter enforcement.
The generated coq/Gen/DeliveryPaths.v lists the client-facing sites with their path; Props/C16.v
proves the path theorem for every listed site and that every in-scope path has a site.
"""
import os, re, sys

WRITE_FUNCS = ["writePublication", "writePublicationNoDelta", "keyedWritePublication", "keyedWriteRemoval"]
FIELDS = ["Publications", "State", "Pub"]

INTERNAL = "internal"
# (file, func, kind) -> path constructor of Model.TagsPaths.dpath, or INTERNAL
KNOWN = {
    # ---- live broadcast
    ("hub.go", "broadcastPublication", "call:writePublication"): "PLive",
    ("hub.go", "broadcastPublication", "set:Pub"): INTERNAL,          # push encoding of the prepared data handed to writePublication
    ("hub.go", "getDeltaData", "set:Pub"): INTERNAL,                  # same, delta variant
    ("hub.go", "putPush", "set:Pub"): INTERNAL,                       # pool reset (p.Pub = nil)
    ("client.go", "writePublication", "push:pub"): "PLive",
    ("client.go", "writePublicationUpdatePosition", "push:pub"): "PLive",
    ("client.go", "writePublicationNoDelta", "call:writePublication"): "POutAppProvided",
    ("client.go", "writePublication", "lit:Pub"): INTERNAL,           # trace logging
    ("client.go", "writePublicationUpdatePosition", "lit:Pub"): INTERNAL,
    # ---- subscribeCmd: stream / cache recovery (one function, two modes) + app-provided initial publications
    ("client.go", "subscribeCmd", "set:Publications"): "PStreamRecovery+PCacheRecovery+POutAppProvided",
    # ---- history command (on-demand RPC, not a subscription delivery)
    ("client.go", "handleHistory", "lit:Publications"): "POutHistoryRPC",
    # ---- application-driven direct write (experimental API)
    ("client_experimental.go", "WritePublication", "call:writePublicationNoDelta"): "POutAppProvided",
    ("client_experimental.go", "WritePublication", "lit:Pub"): INTERNAL,
    # ---- map subscriptions
    ("client_map.go", "handleMapStatePhase", "set:State"): "PMapState",
    ("client_map.go", "handleMapStreamPhase", "set:Publications"): "PMapStream",
    ("client_map.go", "handleMapTransitionToLive", "lit:State"): "PMapState",
    ("client_map.go", "handleMapTransitionToLive", "lit:Publications"): "PMapLive+PMapStreamless",
    # ---- shared poll / keyed (publications without tags; no tags filter can be configured)
    ("client_keyed.go", "keyedWritePublication", "push:pub"): "POutKeyed",
    ("client_keyed.go", "keyedWritePublication", "lit:Pub"): INTERNAL,
    ("client_keyed.go", "keyedWriteRemoval", "call:writePublication"): "POutKeyed",
    ("client_keyed.go", "handleTrack", "call:keyedWritePublication"): "POutKeyed",
    ("client_keyed.go", "encodeKeyedPush", "lit:Pub"): INTERNAL,
    ("keyed_hub.go", "broadcastToKey", "call:keyedWritePublication"): "POutKeyed",
    ("keyed_hub.go", "broadcastRemoval", "call:keyedWriteRemoval"): "POutKeyed",
    ("keyed_hub.go", "broadcastRemovalToUsers", "call:keyedWriteRemoval"): "POutKeyed",
}

# Number of producer statements per client-facing site when the paths were modelled.  More statements than
# this in the same function = a new producer that nobody looked at: fatal as well.
COUNTS = {
    ("client.go", "handleHistory", "lit:Publications"): 1,
    ("client.go", "subscribeCmd", "set:Publications"): 3,   # delta-fossil recovered / plain recovered / app-provided
    ("client.go", "writePublication", "push:pub"): 2,
    ("client.go", "writePublicationNoDelta", "call:writePublication"): 1,
    ("client.go", "writePublicationUpdatePosition", "push:pub"): 4,
    ("client_experimental.go", "WritePublication", "call:writePublicationNoDelta"): 4,
    ("client_keyed.go", "handleTrack", "call:keyedWritePublication"): 1,
    ("client_keyed.go", "keyedWritePublication", "push:pub"): 1,
    ("client_keyed.go", "keyedWriteRemoval", "call:writePublication"): 1,
    ("client_map.go", "handleMapStatePhase", "set:State"): 1,
    ("client_map.go", "handleMapStreamPhase", "set:Publications"): 1,
    ("client_map.go", "handleMapTransitionToLive", "lit:Publications"): 1,
    ("client_map.go", "handleMapTransitionToLive", "lit:State"): 1,
    ("hub.go", "broadcastPublication", "call:writePublication"): 1,
    ("keyed_hub.go", "broadcastRemoval", "call:keyedWriteRemoval"): 1,
    ("keyed_hub.go", "broadcastRemovalToUsers", "call:keyedWriteRemoval"): 1,
    ("keyed_hub.go", "broadcastToKey", "call:keyedWritePublication"): 1,
}

# Files whose Publications/State literals are broker / node *results* consumed by the functions above
# (they never reach a client except through one of the classified sites).
INTERNAL_FILES = re.compile(r"^(map_broker_.*|broker_.*|node|metrics|channel_medium|shared_poll|history.*|events|options|map_broker)\.go$")

PATHS = ["PLive", "PStreamRecovery", "PCacheRecovery", "PMapState", "PMapStream", "PMapLive", "PMapStreamless",
         "POutAppProvided", "POutHistoryRPC", "POutKeyed"]


def strip_line_comment(line):
    # good enough for this code base: drop // comments that are not inside a string
    out, in_s, q = [], False, ""
    i = 0
    while i < len(line):
        c = line[i]
        if in_s:
            out.append(c)
            if c == "\\" and q != "`":
                if i + 1 < len(line):
                    out.append(line[i + 1]); i += 1
            elif c == q:
                in_s = False
        else:
            if c in "\"`'":
                in_s, q = True, c
                out.append(c)
            elif line.startswith("//", i):
                break
            else:
                out.append(c)
        i += 1
    return "".join(out)


def scan(repo):
    sites = {}
    for fn in sorted(os.listdir(repo)):
        if not fn.endswith(".go") or fn.endswith("_test.go"):
            continue
        cur = None
        for ln, raw in enumerate(open(os.path.join(repo, fn), encoding="utf-8", errors="replace"), 1):
            line = strip_line_comment(raw.rstrip("\n"))
            m = re.match(r"^func\s+(?:\([^)]*\)\s*)?([A-Za-z_]\w*)\s*[\(\[]", line)
            if m:
                cur = m.group(1)
                continue   # the definition line itself is not a call
            kinds = []
            for w in WRITE_FUNCS:
                if re.search(r"\.%s\(" % w, line):
                    kinds.append("call:" + w)
            if "writeEncodedPushData(" in line and "FrameTypePushPublication" in line:
                kinds.append("push:pub")
            for f in FIELDS:
                if re.search(r"\.%s\s*=[^=]" % f, line):
                    kinds.append("set:" + f)
                if re.match(r"^\s*%s:\s" % f, line) or re.search(r"[{,]\s*%s:\s" % f, line):
                    kinds.append("lit:" + f)
            for k in kinds:
                sites.setdefault((fn, cur or "<toplevel>", k), []).append(ln)
    return sites


def coq_string(s):
    return '"' + s.replace('"', '""') + '"'


def main():
    repo, gen = sys.argv[1], sys.argv[2]
    sites = scan(repo)
    unknown, listed = [], []
    for key in sorted(sites):
        fn, func, kind = key
        if key in KNOWN:
            cls = KNOWN[key]
        elif kind.startswith(("lit:", "set:")) and INTERNAL_FILES.match(fn):
            cls = INTERNAL
        else:
            unknown.append((key, sites[key]))
            continue
        if cls == INTERNAL:
            continue
        if len(sites[key]) > COUNTS.get(key, 0):
            unknown.append((key + ("%d statements, %d classified" % (len(sites[key]), COUNTS.get(key, 0)),), sites[key]))
            continue
        for p in cls.split("+"):
            assert p in PATHS, p
            listed.append((fn, func, kind, p, sites[key]))
    if unknown:
        for key, lns in unknown:
            print("UNCLASSIFIED producer of publications: %s func %s %s %s (lines %s)" % (key[0], key[1], key[2], " ".join(key[3:]), lns))
        print("gen_delivery_paths: %d unclassified site(s): classify them in translators/gen_delivery_paths.py "
              "(and model the path in coq/Model/TagsPaths.v if it is a new delivery path)" % len(unknown))
        return 1
    missing = [k for k, v in KNOWN.items() if v != INTERNAL and k not in sites]
    # a vanished site is reported (the inventory is stale) but only an unknown producer is fatal
    os.makedirs(gen, exist_ok=True)
    out = ["(* GENERATED by translators/gen_delivery_paths.py from the repo sources -- do not edit. *)",
           "From Coq Require Import List String.",
           "From Cfg Require Import Model.TagsPaths.",
           "Import ListNotations.",
           "Open Scope string_scope.",
           "",
           "(* (file, function, kind, delivery path) for every client-facing producer of publications *)",
           "Definition sites : list (string * string * string * dpath) := ["]
    rows = []
    for fn, func, kind, p, lns in listed:
        rows.append("  (%s, %s, %s, %s)" % (coq_string(fn), coq_string(func), coq_string(kind), p))
    out.append(";\n".join(rows))
    out.append("].")
    if missing:
        out.append("(* classified sites no longer present in the sources: %s *)" % ", ".join("%s:%s:%s" % k for k in sorted(missing)))
    txt = "\n".join(out) + "\n"
    p = os.path.join(gen, "DeliveryPaths.v")
    old = open(p).read() if os.path.exists(p) else None
    if old != txt:
        open(p, "w").write(txt)
    print("gen_delivery_paths: %d client-facing sites, %d raw sites" % (len(listed), len(sites)))
    return 0


if __name__ == "__main__":
    sys.exit(main())
