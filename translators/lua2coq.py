#!/usr/bin/env python3
"""lua2coq.py <repo> <coq/Gen dir>

Translate the Redis Lua scripts used by the stream broker (and, when present in
SCRIPTS, others) into a deep-embedded AST (Cfg.Model.LuaAst) in Gen/LuaScripts.v.
Regenerated on every `bin/check C18` run, so the Coq side always interprets the
scripts of the *current* working tree.  Exits non-zero on any construct outside the
supported Lua 5.1 subset (the interpreter Model/Lua.v covers exactly this subset).
"""
import os, re, sys

SCRIPTS = [
    "broker_history_add_stream",
    "broker_history_add_list",
    "broker_history_stream",
    "broker_history_list",
    "broker_publish_idempotent",
]

KEYWORDS = {"and", "break", "do", "else", "elseif", "end", "false", "for", "function", "if", "in", "local",
            "nil", "not", "or", "repeat", "return", "then", "true", "until", "while"}


class Unsupported(Exception):
    pass


def tokenize(src, fname):
    toks, i, n, line = [], 0, len(src), 1
    while i < n:
        c = src[i]
        if c == "\n":
            line += 1; i += 1; continue
        if c in " \t\r":
            i += 1; continue
        if src.startswith("--", i):
            if src.startswith("--[[", i):
                j = src.find("]]", i + 4)
                if j < 0:
                    raise Unsupported("%s:%d: unterminated block comment" % (fname, line))
                line += src.count("\n", i, j); i = j + 2; continue
            j = src.find("\n", i)
            i = n if j < 0 else j
            continue
        if c.isalpha() or c == "_":
            j = i
            while j < n and (src[j].isalnum() or src[j] == "_"):
                j += 1
            w = src[i:j]
            toks.append(("kw" if w in KEYWORDS else "name", w, line)); i = j; continue
        if c.isdigit():
            j = i
            while j < n and src[j].isdigit():
                j += 1
            if j < n and (src[j] in ".eExX" or src[j].isalpha()):
                raise Unsupported("%s:%d: only plain decimal integer literals are supported" % (fname, line))
            toks.append(("num", src[i:j], line)); i = j; continue
        if c in "'\"":
            j = i + 1; out = []
            while True:
                if j >= n or src[j] == "\n":
                    raise Unsupported("%s:%d: unterminated string" % (fname, line))
                if src[j] == "\\":
                    raise Unsupported("%s:%d: string escapes are not supported" % (fname, line))
                if src[j] == c:
                    break
                if not (32 <= ord(src[j]) < 127):
                    raise Unsupported("%s:%d: non-ASCII character in string" % (fname, line))
                out.append(src[j]); j += 1
            toks.append(("str", "".join(out), line)); i = j + 1; continue
        if src.startswith("[[", i) or src.startswith("[=", i):
            raise Unsupported("%s:%d: long strings are not supported" % (fname, line))
        for op in ("...", "..", "==", "~=", "<=", ">=", "+", "-", "*", "/", "%", "^", "#", "<", ">", "=", "(", ")",
                   "{", "}", "[", "]", ";", ":", ",", "."):
            if src.startswith(op, i):
                toks.append(("op", op, line)); i += len(op); break
        else:
            raise Unsupported("%s:%d: unexpected character %r" % (fname, line, c))
    toks.append(("eof", "", line))
    return toks


def cstr(s):
    return '"' + s.replace('"', '""') + '"'


def clist(xs):
    return "[" + "; ".join(xs) + "]"


class Parser:
    def __init__(self, toks, fname):
        self.t, self.p, self.f = toks, 0, fname

    def peek(self):
        return self.t[self.p]

    def fail(self, msg):
        raise Unsupported("%s:%d: %s (at %r)" % (self.f, self.peek()[2], msg, self.peek()[1]))

    def accept(self, kind, val=None):
        k, v, _ = self.peek()
        if k == kind and (val is None or v == val):
            self.p += 1
            return v
        return None

    def expect(self, kind, val=None):
        r = self.accept(kind, val)
        if r is None:
            self.fail("expected %s %s" % (kind, val or ""))
        return r

    # ---- statements
    def block(self, terminators):
        out = []
        while True:
            k, v, _ = self.peek()
            if k == "eof" or (k == "kw" and v in terminators):
                return out
            s = self.stmt()
            if s is not None:
                out.append(s)
            self.accept("op", ";")
            if s is not None and (s.startswith("(SReturn") or s == "SBreak"):
                k, v, _ = self.peek()
                if not (k == "eof" or (k == "kw" and v in terminators)):
                    self.fail("statement after return/break in the same block")

    def stmt(self):
        k, v, _ = self.peek()
        if k == "kw":
            if v == "local":
                self.p += 1
                if self.accept("kw", "function"):
                    fname = self.expect("name")
                    self.expect("op", "("); 
                    if not self.accept("op", ")"):
                        self.fail("local functions with parameters are not supported")
                    b = self.block({"end"}); self.expect("kw", "end")
                    return "(SLocalFun %s %s)" % (cstr(fname), clist(b))
                names = [self.expect("name")]
                while self.accept("op", ","):
                    names.append(self.expect("name"))
                es = []
                if self.accept("op", "="):
                    es = self.exprlist()
                return "(SLocal %s %s)" % (clist([cstr(x) for x in names]), clist(es))
            if v == "if":
                self.p += 1
                arms = []
                c = self.expr(); self.expect("kw", "then")
                b = self.block({"elseif", "else", "end"})
                arms.append("(%s, %s)" % (c, clist(b)))
                els = []
                while True:
                    if self.accept("kw", "elseif"):
                        c = self.expr(); self.expect("kw", "then")
                        b = self.block({"elseif", "else", "end"})
                        arms.append("(%s, %s)" % (c, clist(b)))
                    elif self.accept("kw", "else"):
                        els = self.block({"end"}); self.expect("kw", "end"); break
                    else:
                        self.expect("kw", "end"); break
                return "(SIf %s %s)" % (clist(arms), clist(els))
            if v == "for":
                self.p += 1
                x = self.expect("name")
                if self.accept("op", ","):
                    # for _, v in ipairs(t) do B end  ==>  do local T = t; for I = 1, #T do local v = T[I]; B end end
                    vname = self.expect("name")
                    self.expect("kw", "in")
                    if self.expect("name") != "ipairs":
                        self.fail("only ipairs() generic for loops are supported")
                    self.expect("op", "("); te = self.expr(); self.expect("op", ")")
                    self.expect("kw", "do")
                    b = self.block({"end"}); self.expect("kw", "end")
                    self.gensym = getattr(self, "gensym", 0) + 1
                    tn, ix = cstr("__t%d" % self.gensym), cstr("__i%d" % self.gensym)
                    body = ["(SLocal %s %s)" % (clist([cstr(x), cstr(vname)]),
                                                  clist(["(EVar %s)" % ix, "(EIndex (EVar %s) (EVar %s))" % (tn, ix)]))] + b
                    loop = "(SForNum %s (ENum 1) (EUn ULen (EVar %s)) (ENum 1) %s)" % (ix, tn, clist(body))
                    return "(SIf %s [])" % clist(["(ETrue, %s)" % clist(["(SLocal %s %s)" % (clist([tn]), clist([te])), loop])])
                if not self.accept("op", "="):
                    self.fail("only numeric for loops are supported")
                e1 = self.expr(); self.expect("op", ","); e2 = self.expr()
                e3 = "(ENum 1)"
                if self.accept("op", ","):
                    e3 = self.expr()
                self.expect("kw", "do")
                b = self.block({"end"}); self.expect("kw", "end")
                return "(SForNum %s %s %s %s %s)" % (cstr(x), e1, e2, e3, clist(b))
            if v == "while":
                self.p += 1
                c = self.expr(); self.expect("kw", "do")
                b = self.block({"end"}); self.expect("kw", "end")
                return "(SWhile %s %s)" % (c, clist(b))
            if v == "return":
                self.p += 1
                k2, v2, _ = self.peek()
                if k2 == "eof" or (k2 == "kw" and v2 in ("end", "else", "elseif")) or (k2 == "op" and v2 == ";"):
                    return "(SReturn None)"
                e = self.expr()
                if self.accept("op", ","):
                    self.fail("multiple return values are not supported")
                return "(SReturn (Some %s))" % e
            if v == "break":
                self.p += 1
                return "SBreak"
            self.fail("unsupported statement")
        if k == "name" and v == "table" and self.t[self.p + 1][:2] == ("op", ".") and self.t[self.p + 2][:2] == ("name", "sort"):
            # table.sort(t, function(a, b) return a < b end)   /   ... return a > b end
            self.p += 3
            self.expect("op", "("); tv = self.expect("name"); self.expect("op", ",")
            self.expect("kw", "function"); self.expect("op", "(")
            a = self.expect("name"); self.expect("op", ","); b = self.expect("name"); self.expect("op", ")")
            self.expect("kw", "return")
            a2 = self.expect("name"); k3, op, _ = self.peek(); self.p += 1; b2 = self.expect("name")
            self.expect("kw", "end"); self.expect("op", ")")
            if (a2, b2) != (a, b) or op not in ("<", ">"):
                self.fail("table.sort comparator other than 'a < b' / 'a > b'")
            fn = "table.sort_asc" if op == "<" else "table.sort_desc"
            return "(SAssign %s (ECall %s %s))" % (cstr(tv), cstr(fn), clist(["(EVar %s)" % cstr(tv)]))
        if k == "name":
            e, kind = self.suffixed()
            if self.accept("op", "="):
                m = re.match(r'^\(EIndex \(EVar ("(?:[^"]|"")*")\) (.*)\)$', e) if kind == "index" else None
                if m:
                    rhs = self.expr()
                    if self.accept("op", ","):
                        self.fail("multiple assignment is not supported")
                    return "(SAssignIndex %s %s %s)" % (m.group(1), m.group(2), rhs)
                if kind != "var":
                    self.fail("only assignment to a local variable or to an element of a local table is supported")
                rhs = self.expr()
                if self.accept("op", ","):
                    self.fail("multiple assignment is not supported")
                return "(SAssign %s %s)" % (cstr(e), rhs)
            if kind != "call":
                self.fail("expression statement that is not a call")
            return "(SCall %s)" % e
        self.fail("unsupported statement")

    # ---- expressions
    def exprlist(self):
        es = [self.expr()]
        while self.accept("op", ","):
            es.append(self.expr())
        return es

    def suffixed(self):
        """Name{.Name}[(args)] {[exp]} ; returns (coq, kind) kind in var|call|index; for var coq is the bare name."""
        parts = [self.expect("name")]
        while self.accept("op", "."):
            parts.append(self.expect("name"))
        if self.peek()[:2] == ("op", "("):
            self.p += 1
            args = []
            if not self.accept("op", ")"):
                args = self.exprlist(); self.expect("op", ")")
            e, kind = "(ECall %s %s)" % (cstr(".".join(parts)), clist(args)), "call"
        else:
            if len(parts) != 1:
                self.fail("field access on globals is only supported in calls")
            e, kind = parts[0], "var"
        while True:
            k, v, _ = self.peek()
            if k == "op" and v == "[":
                self.p += 1
                idx = self.expr(); self.expect("op", "]")
                base = "(EVar %s)" % cstr(e) if kind == "var" else e
                e, kind = "(EIndex %s %s)" % (base, idx), "index"
            elif (k == "op" and v in ("(", ".", ":", "{")) or k == "str":
                self.fail("unsupported call / field form")
            else:
                return e, kind

    def primary(self):
        k, v, _ = self.peek()
        if k == "kw" and v in ("nil", "true", "false"):
            self.p += 1
            return {"nil": "ENil", "true": "ETrue", "false": "EFalse"}[v]
        if k == "num":
            self.p += 1
            return "(ENum %s)" % v
        if k == "str":
            self.p += 1
            return "(EStr %s)" % cstr(v)
        if k == "op" and v == "(":
            self.p += 1
            e = self.expr(); self.expect("op", ")")
            if self.peek()[:2] in (("op", "["), ("op", "("), ("op", ".")):
                self.fail("suffix on parenthesised expression")
            return e
        if k == "op" and v == "{":
            self.p += 1
            es = []
            while not self.accept("op", "}"):
                if self.peek()[0] == "name" and self.t[self.p + 1][:2] == ("op", "="):
                    self.fail("record-style table fields are not supported")
                if self.peek()[:2] == ("op", "["):
                    self.fail("keyed table fields are not supported")
                es.append(self.expr())
                if not (self.accept("op", ",") or self.accept("op", ";")):
                    self.expect("op", "}"); break
            return "(ETable %s)" % clist(es)
        if k == "name":
            e, kind = self.suffixed()
            return "(EVar %s)" % cstr(e) if kind == "var" else e
        if k == "kw" and v == "function":
            self.fail("function expressions are not supported")
        self.fail("unsupported expression")

    BIN = [  # (level, ops, right-assoc)
        (1, {"or": "BOr"}, False), (2, {"and": "BAnd"}, False),
        (3, {"<": "BLt", ">": "BGt", "<=": "BLe", ">=": "BGe", "~=": "BNe", "==": "BEq"}, False),
        (4, {"..": "BConcat"}, True), (5, {"+": "BAdd", "-": "BSub"}, False), (6, {"*": "BMul"}, False),
    ]

    def expr(self, level=0):
        if level == len(self.BIN):
            return self.unary()
        _, ops, right = self.BIN[level]
        lhs = self.expr(level + 1)
        while True:
            k, v, _ = self.peek()
            if (k in ("op", "kw")) and v in ops:
                self.p += 1
                if right:
                    rhs = self.expr(level)      # right associative
                    return "(EBin %s %s %s)" % (ops[v], lhs, rhs)
                rhs = self.expr(level + 1)
                lhs = "(EBin %s %s %s)" % (ops[v], lhs, rhs)
            else:
                if k == "op" and v in ("/", "%", "^"):
                    self.fail("operator %s is not supported" % v)
                return lhs

    def unary(self):
        k, v, _ = self.peek()
        if k == "kw" and v == "not":
            self.p += 1
            return "(EUn UNot %s)" % self.unary()
        if k == "op" and v == "#":
            self.p += 1
            return "(EUn ULen %s)" % self.unary()
        if k == "op" and v == "-":
            self.p += 1
            return "(EUn UNeg %s)" % self.unary()
        return self.primary()


def translate(path):
    src = open(path, encoding="utf-8").read()
    p = Parser(tokenize(src, path), path)
    b = p.block(set())
    if p.peek()[0] != "eof":
        p.fail("trailing input")
    return b


def main(argv, scripts=None, outname="LuaScripts.v"):
    if len(argv) != 3:
        print(__doc__, file=sys.stderr)
        return 2
    repo, gen = argv[1], argv[2]
    scripts = scripts or SCRIPTS
    os.makedirs(gen, exist_ok=True)
    out = ["(* GENERATED by translators/lua2coq.py from %s/internal/redis_lua/*.lua -- do not edit. *)" % "<repo>",
           "From Coq Require Import List ZArith String.", "From Cfg Require Import Model.LuaAst.",
           "Import ListNotations.", "Open Scope string_scope.", "Open Scope Z_scope.", ""]
    for name in scripts:
        path = os.path.join(repo, "internal", "redis_lua", name + ".lua")
        try:
            b = translate(path)
        except (Unsupported, OSError) as e:
            print("lua2coq: cannot translate: %s" % e, file=sys.stderr)
            return 1
        out.append("Definition %s : block :=\n  [ %s ]." % (name, ";\n    ".join(b)))
        out.append("")
    txt = "\n".join(out)
    dst = os.path.join(gen, outname)
    old = open(dst).read() if os.path.exists(dst) else None
    if old != txt:            # keep mtime when unchanged so make does not rebuild the cone
        open(dst, "w").write(txt)
    return 0


if __name__ == "__main__":
    sys.exit(main(sys.argv))
