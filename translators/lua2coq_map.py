#!/usr/bin/env python3
"""lua2coq_map.py <repo> <coq/Gen dir>

Same translator as lua2coq.py (imported), for the Redis MAP broker scripts: writes
Gen/LuaMapScripts.v.  Exits non-zero on anything outside the supported Lua subset.
"""
import os, sys
sys.path.insert(0, os.path.dirname(os.path.abspath(__file__)))
import lua2coq

SCRIPTS = [
    "map_broker_add",
    "map_broker_read_unordered",
    "map_broker_stream_read",
    "map_broker_read_meta",
    "map_broker_find_expired",
    "map_broker_batch_remove",
    "map_broker_read_ordered",
    "map_broker_stats",
]

if __name__ == "__main__":
    sys.exit(lua2coq.main(sys.argv, SCRIPTS, "LuaMapScripts.v"))
