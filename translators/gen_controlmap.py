#!/usr/bin/env python3
"""C27 translator: /repo/options.go + node.go (+ hub.go, internal/controlpb/control.proto) -> coq/Gen/ControlMap.v

For each of Node.Subscribe / Unsubscribe / Disconnect / Refresh it extracts
  * setters  : the With* option setters a caller can pass and the option field each one assigns,
  * encoded  : (option field, control message field) pairs: what pubX copies into the wire struct,
  * decoded  : (control message field, option field) pairs: what handleControl restores, either through
               a With* setter or through the positional hub call argument that stands where the local
               call passes that option field.
usage: gen_controlmap.py <repo> <outdir>
"""
import re, sys, os

repo, outdir = sys.argv[1], sys.argv[2]
opt_src = open(os.path.join(repo, "options.go")).read()
node_src = open(os.path.join(repo, "node.go")).read()
proto_src = open(os.path.join(repo, "internal/controlpb/control.proto")).read()


def strip_comments(s):
    return re.sub(r"//[^\n]*", "", s)


def func_body(src, header_re):
    m = re.search(header_re, src)
    if not m:
        raise SystemExit("cannot find %s" % header_re)
    i = src.index("{", m.end() - 1)
    depth, j = 0, i
    while True:
        if src[j] == "{":
            depth += 1
        elif src[j] == "}":
            depth -= 1
            if depth == 0:
                return src[m.start():i], src[i + 1:j]
        j += 1


def split_args(s):
    out, depth, cur = [], 0, ""
    for ch in s:
        if ch in "([{":
            depth += 1
        elif ch in ")]}":
            depth -= 1
        if ch == "," and depth == 0:
            out.append(cur.strip()); cur = ""
        else:
            cur += ch
    if cur.strip():
        out.append(cur.strip())
    return out


def call_args(body, callee_re):
    """arguments of the first call matching callee_re( ... )"""
    m = re.search(callee_re + r"\(", body)
    if not m:
        return None
    i = m.end()
    depth, j = 1, i
    while depth:
        if body[j] == "(":
            depth += 1
        elif body[j] == ")":
            depth -= 1
        j += 1
    return split_args(body[i:j - 1])


opt_nc = strip_comments(opt_src)
node_nc = strip_comments(node_src)

CALLS = {  # key -> (option type, options struct, Node method, pub function, controlpb message, handleControl field)
    "sub": ("SubscribeOption", "SubscribeOptions", "Subscribe", "pubSubscribe", "Subscribe", "Subscribe"),
    "unsub": ("UnsubscribeOption", "UnsubscribeOptions", "Unsubscribe", "pubUnsubscribe", "Unsubscribe", "Unsubscribe"),
    "disc": ("DisconnectOption", "DisconnectOptions", "Disconnect", "pubDisconnect", "Disconnect", "Disconnect"),
    "refresh": ("RefreshOption", "RefreshOptions", "Refresh", "pubRefresh", "Refresh", "Refresh"),
}

# ---- options.go: setters and struct fields
setters = {}
for m in re.finditer(r"func (With\w+)\(([^)]*)\) (\w+Option) \{\s*return func\((\w+) \*(\w+)\) \{\s*(\w+)\.(\w+)\s*=", opt_nc):
    name, _, otype, var, ostruct, var2, field = m.groups()
    setters.setdefault(otype, []).append((name, field))

struct_fields = {}
for ostruct in set(v[1] for v in CALLS.values()):
    _, body = func_body(opt_nc, r"type %s struct " % ostruct)
    fs = []
    for line in body.split("\n"):
        mm = re.match(r"\s*(\w+)\s+[\w\[\]\*\.]+\s*$", line)
        if mm:
            fs.append(mm.group(1))
    struct_fields[ostruct] = fs

hc_head, hc_body = func_body(node_nc, r"func \(n \*Node\) handleControl\(")


def branch(field):
    m = re.search(r"else if cmd\.%s != nil \{" % field, hc_body)
    if not m:
        raise SystemExit("no handleControl branch for " + field)
    i = m.end()
    depth, j = 1, i
    while depth:
        if hc_body[j] == "{":
            depth += 1
        elif hc_body[j] == "}":
            depth -= 1
        j += 1
    return hc_body[i:j - 1]


def opt_fields_in(expr, body, optvar_re):
    """option fields an expression of the local path depends on (through locals assigned from the options)"""
    fs = set(re.findall(optvar_re + r"\.(\w+)", expr))
    for ident in re.findall(r"\b([a-z]\w*)\b", expr):
        for mm in re.finditer(r"\b%s\s*:?=(?!=)\s*([^\n]*)" % re.escape(ident), body):
            fs |= set(re.findall(optvar_re + r"\.(\w+)", mm.group(1)))
    return fs


def wire_fields_in(expr, body):
    ws = set(re.findall(r"\bcmd\.(\w+)", expr))
    for ident in re.findall(r"\b([a-z]\w*)\b", expr):
        if ident == "cmd":
            continue
        for mm in re.finditer(r"\b%s\s*:?=(?!=)\s*([^\n]*)" % re.escape(ident), body):
            ws |= set(re.findall(r"\bcmd\.(\w+)", mm.group(1)))
    return ws


result = {}
for key, (otype, ostruct, method, pub, msg, hcfield) in CALLS.items():
    sl = setters.get(otype, [])
    # ---- local path: Node.<method>
    mhead, mbody = func_body(node_nc, r"func \(n \*Node\) %s\(" % method)
    mm = re.search(r"(\w+) := &%s\{\}" % ostruct, mbody)
    optvar = mm.group(1)
    optre = r"(?:\*?%s)" % optvar
    # ---- encoder: pub function
    phead, pbody = func_body(node_nc, r"func \(n \*Node\) %s\(" % pub)
    params = [p.strip().split(" ")[0] for p in split_args(phead[phead.index("(", phead.index(pub)) + 1:phead.rindex(")")])]
    # types may be shared: "clientID, sessionID string" -> names are first tokens already
    pargs = call_args(mbody, r"n\.%s" % pub)
    param_fields = {}
    for p, a in zip(params, pargs):
        param_fields[p] = opt_fields_in(a, mbody, optre)
    lit = re.search(r"&controlpb\.%s\{(.*?)\n\t\}" % msg, pbody, re.S).group(1)
    encoded = []
    for line in lit.split("\n"):
        kv = re.match(r"\s*(\w+):\s*(.*?),?\s*$", line)
        if not kv:
            continue
        w, expr = kv.groups()
        fs = set()
        for p in params:
            if re.search(r"\b%s\b" % p, expr):
                if p == "opts":
                    fs |= set(re.findall(r"\bopts\.(\w+)", expr))
                else:
                    fs |= param_fields.get(p, set())
        for f in sorted(fs):
            encoded.append((f, w))
    # conditional assignments: if opts.F != nil { x.W = ... }
    for mm in re.finditer(r"if opts\.(\w+) != nil \{\s*\w+\.(\w+)\s*=", pbody):
        encoded.append((mm.group(1), mm.group(2)))
    # ---- decoder: handleControl branch
    b = branch(hcfield)
    decoded = []
    setter_field = dict(sl)
    for mm in re.finditer(r"\b(With\w+)\(", b):
        name = mm.group(1)
        if name not in setter_field:
            continue
        args = call_args(b[mm.start():], re.escape(name))
        for w in sorted(wire_fields_in(",".join(args), b)):
            decoded.append((w, setter_field[name]))
    # positional hub call arguments: local call vs remote call of the same hub function
    hubfn = re.search(r"return n\.hub\.(\w+)\(", mbody[mbody.rindex("return n.hub."):]).group(1)
    largs = call_args(mbody[mbody.rindex("return n.hub."):], r"n\.hub\.%s" % hubfn)
    rargs = call_args(b[b.rindex("return n.hub."):], r"n\.hub\.%s" % hubfn)
    for la, ra in zip(largs, rargs):
        if la.endswith("..."):
            continue
        fs = opt_fields_in(la, mbody, optre)
        ws = wire_fields_in(ra, b)
        for f in sorted(fs):
            for w in sorted(ws):
                decoded.append((w, f))
    # the all-users switch: `if userID == "" && opts.allUsers` vs `if cmd.User == "" && cmd.AllUsers`
    lm = re.search(r"if \w+ == \"\" && %s\.(\w+) \{" % optre, mbody)
    rm = re.search(r"if cmd\.\w+ == \"\" && cmd\.(\w+) \{", b)
    if lm and rm:
        decoded.append((rm.group(1), lm.group(1)))
    # value guards: a condition on the value of a field (beyond pointer presence) that decides whether
    # it is copied / restored. One side dropping a value the other side keeps is a lost value.
    def guards(body, var_re, skip_routing):
        out = []
        for mm in re.finditer(r"\bif ([^{\n]*) \{", body):
            cond = mm.group(1)
            if skip_routing and re.search(r'== "" && ' + var_re + r"\.\w+\s*$", cond):
                continue  # the all-users switch
            for conj in cond.split("&&"):
                conj = conj.strip()
                fm = re.search(var_re + r"\.(\w+)", conj)
                if not fm:
                    continue
                kind = "nonnil" if re.fullmatch(var_re + r"\.\w+ != nil", conj) else "value:" + re.sub(r"\s+", " ", conj)
                out.append((fm.group(1), kind))
        return sorted(set(out))
    dguards = guards(b, r"\bcmd", True)
    eguards = guards(pbody, r"\bopts", False)
    proto_msg = re.search(r"message %s \{(.*?)\n\}" % msg, proto_src, re.S).group(1)
    proto_fields = re.findall(r"^\s*(?:repeated\s+)?[\w\.]+\s+(\w+)\s*=\s*\d+;", proto_msg, re.M)
    result[key] = dict(setters=sl, encoded=sorted(set(encoded)), decoded=sorted(set(decoded)),
                       fields=struct_fields[ostruct], proto=proto_fields, dguards=dguards, eguards=eguards)


def coq_pairs(ps):
    return "[" + "; ".join('("%s", "%s")' % p for p in ps) + "]"


def coq_strs(ss):
    return "[" + "; ".join('"%s"' % s for s in ss) + "]"


out = ["(* GENERATED by translators/gen_controlmap.py from options.go, node.go and",
       "   internal/controlpb/control.proto of the checked tree on every run -- do not edit. *)",
       "From Coq Require Import List String.", "Import ListNotations.", "Open Scope string_scope.", ""]
for key in ("sub", "unsub", "disc", "refresh"):
    r = result[key]
    out.append("(* %s: With* setters (name, option field assigned) *)" % key)
    out.append("Definition %s_setters : list (string * string) := %s." % (key, coq_pairs(r["setters"])))
    out.append("(* (option field, control message field written from it) *)")
    out.append("Definition %s_encoded : list (string * string) := %s." % (key, coq_pairs(r["encoded"])))
    out.append("(* (control message field, option field restored from it on the receiving node) *)")
    out.append("Definition %s_decoded : list (string * string) := %s." % (key, coq_pairs(r["decoded"])))
    out.append("(* (control message field, guard) on the receiving side; nonnil = pointer presence only *)")
    out.append("Definition %s_decode_guards : list (string * string) := %s." % (key, coq_pairs(r["dguards"])))
    out.append("(* (option field, guard) on the sending side *)")
    out.append("Definition %s_encode_guards : list (string * string) := %s." % (key, coq_pairs(r["eguards"])))
    out.append("Definition %s_struct_fields : list string := %s." % (key, coq_strs(r["fields"])))
    out.append("Definition %s_proto_fields : list string := %s." % (key, coq_strs(r["proto"])))
    out.append("")
os.makedirs(outdir, exist_ok=True)
p = os.path.join(outdir, "ControlMap.v")
txt = "\n".join(out) + "\n"
if not os.path.exists(p) or open(p).read() != txt:
    open(p, "w").write(txt)
