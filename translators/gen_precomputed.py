#!/usr/bin/env python3
"""Translate /repo/internal/redispartition/precomputed.go (the Go map literal
`var precomputed = map[int][]string{ N: {"tag", ...}, ... }`) into
coq/Gen/Precomputed.v.  Usage: gen_precomputed.py <repo> <coq/Gen dir>.
Fails closed: any construct outside the tiny Go subset below -> exit 1."""
import os, sys


class ParseError(Exception):
    pass


def tokenize(src):
    """Go tokens for the subset: comments, identifiers, decimal ints, interpreted/raw strings, punctuation."""
    toks, i, n, line = [], 0, len(src), 1
    while i < n:
        c = src[i]
        if c == "\n":
            line += 1; i += 1
        elif c in " \t\r":
            i += 1
        elif src.startswith("//", i):
            j = src.find("\n", i)
            i = n if j < 0 else j
        elif src.startswith("/*", i):
            j = src.find("*/", i + 2)
            if j < 0:
                raise ParseError("line %d: unterminated comment" % line)
            line += src.count("\n", i, j); i = j + 2
        elif c.isalpha() or c == "_":
            j = i
            while j < n and (src[j].isalnum() or src[j] == "_"):
                j += 1
            toks.append(("id", src[i:j], line)); i = j
        elif c.isdigit():
            j = i
            while j < n and src[j].isalnum() or (j < n and src[j] == "_"):
                j += 1
            lit = src[i:j]
            if not lit.isdigit() or (len(lit) > 1 and lit[0] == "0"):
                raise ParseError("line %d: unsupported integer literal %r" % (line, lit))
            toks.append(("int", int(lit), line)); i = j
        elif c == '"':
            out = bytearray(); i += 1
            while True:
                if i >= n or src[i] == "\n":
                    raise ParseError("line %d: unterminated string" % line)
                ch = src[i]
                if ch == '"':
                    i += 1; break
                if ch == "\\":
                    if i + 1 >= n:
                        raise ParseError("line %d: bad escape" % line)
                    e = src[i + 1]
                    simple = {"a": 7, "b": 8, "f": 12, "n": 10, "r": 13, "t": 9, "v": 11, "\\": 92, '"': 34}
                    if e in simple:
                        out.append(simple[e]); i += 2
                    elif e == "x":
                        h = src[i + 2:i + 4]
                        if len(h) != 2 or any(x not in "0123456789abcdefABCDEF" for x in h):
                            raise ParseError("line %d: bad \\x escape" % line)
                        out.append(int(h, 16)); i += 4
                    elif e in "01234567":
                        o = src[i + 1:i + 4]
                        if len(o) != 3 or any(x not in "01234567" for x in o) or int(o, 8) > 255:
                            raise ParseError("line %d: bad octal escape" % line)
                        out.append(int(o, 8)); i += 4
                    elif e in "uU":
                        k = 4 if e == "u" else 8
                        h = src[i + 2:i + 2 + k]
                        if len(h) != k or any(x not in "0123456789abcdefABCDEF" for x in h):
                            raise ParseError("line %d: bad \\%s escape" % (line, e))
                        cp = int(h, 16)
                        if cp > 0x10FFFF or 0xD800 <= cp < 0xE000:
                            raise ParseError("line %d: invalid code point" % line)
                        out += chr(cp).encode("utf-8"); i += 2 + k
                    else:
                        raise ParseError("line %d: unknown escape \\%s" % (line, e))
                else:
                    out += ch.encode("utf-8"); i += 1
            toks.append(("str", bytes(out), line))
        elif c == "`":
            j = src.find("`", i + 1)
            if j < 0:
                raise ParseError("line %d: unterminated raw string" % line)
            raw = src[i + 1:j].replace("\r", "")
            toks.append(("str", raw.encode("utf-8"), line))
            line += raw.count("\n"); i = j + 1
        elif c in "{}[]:,=()":
            toks.append((c, c, line)); i += 1
        else:
            raise ParseError("line %d: unexpected character %r" % (line, c))
    return toks


class P:
    def __init__(self, toks):
        self.t, self.i = toks, 0

    def peek(self):
        return self.t[self.i] if self.i < len(self.t) else ("eof", None, -1)

    def take(self, kind, val=None):
        k, v, ln = self.peek()
        if k != kind or (val is not None and v != val):
            raise ParseError("line %d: expected %s %s, found %s %r" % (ln, kind, val if val is not None else "", k, v))
        self.i += 1
        return v


def parse(src):
    p = P(tokenize(src))
    p.take("id", "package"); p.take("id", "redispartition")
    p.take("id", "var"); p.take("id", "precomputed"); p.take("=")
    p.take("id", "map"); p.take("["); p.take("id", "int"); p.take("]")
    p.take("["); p.take("]"); p.take("id", "string"); p.take("{")
    table = []
    seen = set()
    while p.peek()[0] != "}":
        size = p.take("int")
        if size in seen:
            raise ParseError("duplicate map key %d" % size)
        seen.add(size)
        p.take(":")
        if p.peek()[0] == "[":           # optional explicit element type []string{...}
            p.take("["); p.take("]"); p.take("id", "string")
        p.take("{")
        tags = []
        while p.peek()[0] != "}":
            tags.append(p.take("str"))
            if p.peek()[0] == ",":
                p.take(",")
            elif p.peek()[0] != "}":
                raise ParseError("line %d: expected , or }" % p.peek()[2])
        p.take("}")
        table.append((size, tags))
        if p.peek()[0] == ",":
            p.take(",")
        elif p.peek()[0] != "}":
            raise ParseError("line %d: expected , or } after map entry" % p.peek()[2])
    p.take("}")
    if p.peek()[0] != "eof":
        raise ParseError("line %d: unexpected trailing token %r (only `var precomputed` is supported in this file)" % (p.peek()[2], p.peek()[1]))
    return table


def coq_tag(b):
    if all(0x20 <= x <= 0x7E and x != 0x22 for x in b):
        return 's2b "%s"' % b.decode("ascii")
    return "[" + "; ".join(str(x) for x in b) + "]"


def main():
    if len(sys.argv) != 3:
        print("usage: gen_precomputed.py <repo> <gen dir>", file=sys.stderr); return 2
    repo, gen = sys.argv[1], sys.argv[2]
    path = os.path.join(repo, "internal", "redispartition", "precomputed.go")
    try:
        src = open(path, encoding="utf-8").read()
        table = parse(src)
    except (OSError, UnicodeDecodeError, ParseError) as e:
        print("gen_precomputed: cannot translate %s: %s" % (path, e), file=sys.stderr)
        return 1
    out = ["(* GENERATED by translators/gen_precomputed.py from internal/redispartition/precomputed.go -- do not edit.",
           "   The Go map literal `precomputed`, in source order: (partition count, tags as byte lists). *)",
           "From Coq Require Import List NArith String.",
           "From Cfg Require Import Model.Partition.",
           "Import ListNotations.",
           "Open Scope N_scope.",
           "Open Scope string_scope.",
           "",
           "Definition precomputed : list (N * list (list N)) := ["]
    ents = []
    for size, tags in table:
        lines = []
        for k in range(0, len(tags), 8):
            lines.append("    " + "; ".join(coq_tag(t) for t in tags[k:k + 8]))
        ents.append("  (%d, [\n%s\n  ])" % (size, ";\n".join(lines)) if tags else "  (%d, [])" % size)
    out.append(";\n".join(ents))
    out.append("].")
    os.makedirs(gen, exist_ok=True)
    tmp = os.path.join(gen, "Precomputed.v.tmp")
    with open(tmp, "w") as f:
        f.write("\n".join(out) + "\n")
    os.replace(tmp, os.path.join(gen, "Precomputed.v"))
    return 0


if __name__ == "__main__":
    sys.exit(main())
