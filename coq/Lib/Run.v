(* Generic evaluation of a batch of correspondence cases inside Coq.
   [corr c]   : the model, run on the inputs of [c], produces exactly the
                projected observables the implementation produced;
   [oracle c] : the property predicate, decided on what the implementation did.
   [failing] returns the indices (0-based, as N) of the cases failing each. *)
From Coq Require Import List NArith Bool.
Import ListNotations.

Section Run.
  Context {case : Type}.
  Variable corr oracle : case -> bool.

  Fixpoint failing_from (i : N) (cs : list case) : list N * list N :=
    match cs with
    | [] => ([], [])
    | c :: cs' =>
        let '(a, b) := failing_from (N.succ i) cs' in
        ((if corr c then a else i :: a), (if oracle c then b else i :: b))
    end.

  Definition failing (cs : list case) : list N * list N := failing_from 0%N cs.
End Run.
