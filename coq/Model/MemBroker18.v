(* Compact model of /repo/broker_memory.go (MemoryBroker.Publish / History /
   RemoveHistory, historyHub.add / getLocked / remove, the idempotent result
   cache) and /repo/internal/memstream/stream.go (Add / Get / Clear), written
   for C18 independently of the C17/C19 models.  Branch by branch, with:
   * Stream.Add only updates the top version when version > 0 (fix 6745c015), and
     historyHub.add does the version check before the TTL bookkeeping (fix 9899a62b);
   * time: a virtual clock in ms; historyHub expiry (seconds granularity) is an
     IDEALISED janitor that runs whenever time advances (the real goroutines
     poll once per second); the result cache is checked lazily as in the code;
   * epoch.Generate() = the nonce carried by the operation.
   uint64 wrap-around is modelled for since.Offset +/- 1 only. *)
From Coq Require Import List NArith ZArith Bool String.
From Cfg Require Import Model.RStr Model.Redis Model.BrokerApi18.
Import ListNotations.
Open Scope string_scope.
Open Scope N_scope.

Record mstream := mkMS {
  ms_top : N;
  ms_items : list (N * string);          (* (offset, data), oldest first *)
  ms_epoch : string;
  ms_ver : N;                            (* AppVersion.Version *)
  ms_vepoch : string                     (* AppVersion.Epoch *)
}.

Record mstate := mkM {
  m_streams : list (string * mstream);
  m_expires : list (string * N);         (* channel -> unix second at which the stream is cleared *)
  m_removes : list (string * N);         (* channel -> unix second at which the stream is deleted *)
  m_cache : list (string * (N * string * N));   (* ch_key -> (offset, epoch, ExpireAt ms) *)
  m_now : N                              (* ms *)
}.

Definition minit : mstate := mkM [] [] [] [] 0.
Definition now_s (m : mstate) : N := m_now m / 1000.

(* ---------- memstream.Stream ---------- *)
Definition stream_new (epoch : string) : mstream := mkMS 0 [] epoch 0 "".

Definition stream_add (s : mstream) (data : string) (size : Z) (version : N) (vepoch : string) : mstream * N :=
  let top := ms_top s + 1 in
  let items := (ms_items s ++ [(top, data)])%list in
  let items := skipn (List.length items - Z.to_nat size) items in
  (mkMS top items (ms_epoch s)
        (if 0 <? version then version else ms_ver s)
        (if 0 <? version then vepoch else ms_vepoch s), top).

Definition stream_clear (s : mstream) : mstream := mkMS (ms_top s) [] (ms_epoch s) (ms_ver s) (ms_vepoch s).

Fixpoint index_of (off : N) (l : list (N * string)) (i : nat) : option nat :=
  match l with
  | [] => None
  | (o, _) :: r => if o =? off then Some i else index_of off r (S i)
  end.

Definition take_lim {A} (limit : Z) (l : list A) : list A :=
  if (limit <? 0)%Z then l else firstn (Z.to_nat limit) l.

Definition stream_get (s : mstream) (offset : N) (use_offset : bool) (limit : Z) (reverse : bool)
  : list (N * string) :=
  if (use_offset && (ms_top s + 1 <=? offset))%bool then [] else
  let items := ms_items s in
  let el : option nat :=
    if use_offset then
      match index_of offset items 0 with
      | Some i => Some i
      | None => if reverse then None else match items with [] => None | _ => Some O end
      end
    else match items with
         | [] => None
         | _ => Some (if reverse then (List.length items - 1)%nat else O)
         end in
  match el with
  | None => []
  | Some i =>
      if (limit =? 0)%Z then []
      else if reverse then take_lim limit (rev (firstn (S i) items))
      else take_lim limit (skipn i items)
  end.

(* ---------- historyHub ---------- *)
Definition set_removes (cfg : bcfg) (m : mstate) (ch : string) (op_meta_ttl : Z) : mstate :=
  let mttl := if (op_meta_ttl =? 0)%Z then c_meta_ttl cfg else op_meta_ttl in
  if (0 <? mttl)%Z
  then mkM (m_streams m) (m_expires m) (sput ch (now_s m + Z.to_N mttl) (m_removes m)) (m_cache m) (m_now m)
  else m.

Definition set_stream (m : mstate) (ch : string) (s : mstream) : mstate :=
  mkM (sput ch s (m_streams m)) (m_expires m) (m_removes m) (m_cache m) (m_now m).

Definition position (s : mstream) : N * string := (ms_top s, ms_epoch s).

(* historyHub.getLocked *)
Definition hub_get (cfg : bcfg) (m : mstate) (ch : string) (f : hfilter) (mttl : Z) (nonce : string)
  : mstate * (list (N * string) * (N * string)) :=
  let m := set_removes cfg m ch mttl in
  match sfind ch (m_streams m) with
  | None => (set_stream m ch (stream_new nonce), ([], (0, nonce)))
  | Some s =>
      match hf_since f with
      | None =>
          if (hf_limit f =? 0)%Z then (m, ([], position s))
          else (m, (stream_get s 0 false (hf_limit f) (hf_reverse f), position s))
      | Some (so, se) =>
          if (negb (hf_reverse f) && (ms_top s =? so) && String.eqb se (ms_epoch s))%bool
          then (m, ([], position s))
          else
            let off := if hf_reverse f then wrap64 (Z.of_N so - 1) else wrap64 (Z.of_N so + 1) in
            (m, (stream_get s off true (hf_limit f) (hf_reverse f), position s))
      end
  end.

(* historyHub.add: Some (position, prevPub, skip) *)
Definition hub_add (cfg : bcfg) (m : mstate) (ch data : string) (o : popts) (nonce : string)
  : mstate * ((N * string) * option string * bool) :=
  let '(m, prev) :=
    if po_delta o then
      let '(m', (pubs, _)) := hub_get cfg m ch (mkHF None 1 true) (po_meta_ttl o) nonce in
      (m', match pubs with (_, d) :: _ => Some d | [] => None end)
    else (m, None) in
  let skip :=
    if 0 <? po_version o then
      match sfind ch (m_streams m) with
      | Some s => if ((String.eqb (po_vepoch o) "" || String.eqb (po_vepoch o) (ms_vepoch s))
                      && (po_version o <=? ms_ver s))%bool then Some (position s) else None
      | None => None
      end
    else None in
  match skip with
  | Some pos => (m, (pos, None, true))       (* before the TTL bookkeeping (fix 9899a62b) *)
  | None =>
      let m := mkM (m_streams m) (sput ch (now_s m + Z.to_N (po_ttl o)) (m_expires m)) (m_removes m) (m_cache m) (m_now m) in
      let m := set_removes cfg m ch (po_meta_ttl o) in
      let s := match sfind ch (m_streams m) with Some s => s | None => stream_new nonce end in
      let '(s', off) := stream_add s data (po_size o) (po_version o) (po_vepoch o) in
      (set_stream m ch s', ((off, ms_epoch s'), prev, false))
  end.

(* ---------- MemoryBroker ---------- *)
Definition cache_key (ch idem : string) : string := ch ++ "_" ++ idem.

Definition cache_get (m : mstate) (ch idem : string) : option (N * string) :=
  match sfind (cache_key ch idem) (m_cache m) with
  | Some (off, ep, exp) => if exp <=? m_now m then None else Some (off, ep)
  | None => None
  end.

Definition cache_save (m : mstate) (ch : string) (o : popts) (pos : N * string) : mstate :=
  if String.eqb (po_idem o) "" then m else
  let secs := if (po_idem_ttl o =? 0)%Z then default_idem_ttl else po_idem_ttl o in
  let exp := Z.to_N (Z.of_N (m_now m) + secs * 1000) in
  mkM (m_streams m) (m_expires m) (m_removes m)
      (sput (cache_key ch (po_idem o)) (fst pos, snd pos, exp) (m_cache m)) (m_now m).

Definition mb_publish (cfg : bcfg) (m : mstate) (ch data : string) (o : popts) (nonce : string) : mstate * obs :=
  match (if String.eqb (po_idem o) "" then None else cache_get m ch (po_idem o)) with
  | Some (off, ep) => (m, (ResPublish off ep true 1, []))
  | None =>
      if ((0 <? po_size o) && (0 <? po_ttl o))%Z then
        let '(m', (pos, prev, skip)) := hub_add cfg m ch data o nonce in
        if skip then (m', (ResPublish (fst pos) (snd pos) true 2, []))
        else
          (cache_save m' ch o pos,
           (ResPublish (fst pos) (snd pos) false 0,
            [mkDel ch data (fst pos) (snd pos) (po_delta o) prev]))
      else
        (cache_save m ch o (0, ""),
         (ResPublish 0 "" false 0, [mkDel ch data 0 "" (po_delta o) None]))
  end.

(* idealised janitor: expireStreams + removeStreams, run after the clock moved *)
Definition janitor (m : mstate) : mstate :=
  let ns := now_s m in
  let dead_e := filter (fun ce => snd ce <=? ns) (m_expires m) in
  let dead_r := filter (fun ce => snd ce <=? ns) (m_removes m) in
  let is_in (l : list (string * N)) (c : string) := existsb (fun ce => String.eqb (fst ce) c) l in
  let streams := map (fun cs => if is_in dead_e (fst cs) then (fst cs, stream_clear (snd cs)) else cs) (m_streams m) in
  let streams := filter (fun cs => negb (is_in dead_r (fst cs))) streams in
  mkM streams
      (filter (fun ce => negb (snd ce <=? ns)) (m_expires m))
      (filter (fun ce => negb (snd ce <=? ns)) (m_removes m))
      (m_cache m) (m_now m).

Definition mb_step (cfg : bcfg) (m : mstate) (o : op) : mstate * obs :=
  match o with
  | OpPublish ch data po nonce => mb_publish cfg m ch data po nonce
  | OpHistory ch f mttl nonce =>
      let '(m', (pubs, pos)) := hub_get cfg m ch f mttl nonce in
      (m', (ResHistory pubs (fst pos) (snd pos), []))
  | OpRemove ch =>
      (match sfind ch (m_streams m) with
       | Some s => set_stream m ch (stream_clear s)
       | None => m
       end, (ResUnit, []))
  | OpTick ms =>
      (janitor (mkM (m_streams m) (m_expires m) (m_removes m) (m_cache m) (m_now m + ms)), (ResUnit, []))
  end.

Fixpoint mb_run (cfg : bcfg) (m : mstate) (ops : list op) : list obs :=
  match ops with
  | [] => []
  | o :: r => let '(m', ob) := mb_step cfg m o in ob :: mb_run cfg m' r
  end.

Definition mem_run (cfg : bcfg) (ops : list op) : list obs := mb_run cfg minit ops.
