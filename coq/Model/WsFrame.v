(* Byte-level helpers and the observable events shared by the WebSocket frame reader model (C29),
   its reference decoder, and the frame writer model (C30).  No proofs here. *)
From Coq Require Import String Ascii List NArith Bool.
Import ListNotations.
Open Scope N_scope.

Definition bytes := list N.

Fixpoint str (s : string) : bytes :=
  match s with
  | EmptyString => []
  | String a r => N_of_ascii a :: str r
  end.

(* exactly n bytes from the front; n may be astronomically large, so compare before converting *)
Definition take_n (n : N) (bs : bytes) : option (bytes * bytes) :=
  if N.of_nat (List.length bs) <? n then None
  else Some (firstn (N.to_nat n) bs, skipn (N.to_nat n) bs).

(* big-endian unsigned integer (binary.BigEndian.Uint16 / Uint64) *)
Definition be (p : bytes) : N := fold_left (fun a b => a * 256 + b) p 0.

(* big-endian encoding on k bytes (binary.BigEndian.PutUint16 / PutUint64) *)
Fixpoint be_enc (k : nat) (n : N) : bytes :=
  match k with
  | O => []
  | S k' => be_enc k' (n / 256) ++ [n mod 256]
  end.

(* maskBytes(key, pos, b): b[i] ^= key[(pos+i)&3]  (the word-at-a-time path has the same meaning) *)
Fixpoint xor_mask (key : bytes) (pos : nat) (p : bytes) : bytes :=
  match p with
  | [] => []
  | b :: r => N.lxor b (nth (Nat.modulo pos 4) key 0) :: xor_mask key (S pos) r
  end.

(* frame header byte 0 / byte 1 *)
Definition b_fin (b0 : N) : bool := N.testbit b0 7.
Definition b_rsv1 (b0 : N) : bool := N.testbit b0 6.
Definition b_rsv2 (b0 : N) : bool := N.testbit b0 5.
Definition b_rsv3 (b0 : N) : bool := N.testbit b0 4.
Definition b_opcode (b0 : N) : N := N.land b0 15.
Definition b_masked (b1 : N) : bool := N.testbit b1 7.
Definition b_len7 (b1 : N) : N := N.land b1 127.

(* decimal rendering of strconv.Itoa for non-negative numbers *)
Fixpoint itoa_aux (fuel : nat) (n : N) (acc : bytes) : bytes :=
  match fuel with
  | O => acc
  | S f => let acc' := (48 + n mod 10) :: acc in
           if n <? 10 then acc' else itoa_aux f (n / 10) acc'
  end.
Definition itoa (n : N) : bytes := itoa_aux 24 n [].

Fixpoint join (sep : bytes) (xs : list bytes) : bytes :=
  match xs with
  | [] => []
  | [x] => x
  | x :: r => x ++ sep ++ join sep r
  end.

(* what the application and the peer can observe of a reading endpoint *)
(* key of the decompressor-progress table for "the stream ended here" (the inflater is told about the
   error and hands out everything it has decoded), as opposed to "more of the message follows" *)
Definition at_eof (d : bytes) : bytes := d ++ [256].

Inductive rerr :=
| EEof                                  (* *CloseError{1006, "unexpected EOF"}: the stream ended *)
| EProto                                (* errors.New("websocket: ...") after handleProtocolError *)
| EClose (code : N) (text : bytes)      (* *CloseError for a received close frame *)
| EReadLimit                            (* ErrReadLimit *)
| EBufferFull                           (* bufio.ErrBufferFull from c.read *)
| EInflate                              (* error of the flate reader *)
| EPanic                                (* a Go index/slice expression out of range *)
| EFuel                                 (* model out of fuel (excluded by the theorems) *)
| EUnreachable.                         (* code path not reachable when the caller stops at the first error *)

Inductive event :=
| Msg (typ : N) (data : bytes)          (* ReadMessage returned (typ, data, nil) *)
| Wrote (op : N) (payload : bytes)      (* control frame written back to the peer *)
| Err (e : rerr).                       (* ReadMessage returned an error: always the last event *)
